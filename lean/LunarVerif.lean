import LunarVerif.Base.Proto
