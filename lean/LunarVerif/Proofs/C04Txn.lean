import LunarVerif.Proofs.C04Walk
/-!
Flow level (`executeFlow` vs `sflow` / `scontinue`) and transaction level (`executeReq`/`executeRes`
vs `stxn`).
-/
namespace LunarVerif.C04
open LunarVerif.FlowGraph LunarVerif.FlowExec

/-! ### reference walks that cannot stop -/

/-- no processor of the flow answers in direction `d` (always true for `d = .res`) -/
def NoAnswer (f : SFlow) (o : Oracle) (d : Dir) : Prop := ∀ k, ((o f.name k d).early && d == .req) = false

theorem noAnswer_res (f : SFlow) (o : Oracle) : NoAnswer f o .res := fun _ => by simp

theorem swalkList_nostop (rec : String → SRes) (h : ∀ t, (rec t).stop = none) :
    ∀ ts, (swalkList rec ts).stop = none
  | [] => rfl
  | t :: ts => by
    have ht := h t
    have ih := swalkList_nostop rec h ts
    unfold swalkList
    simp only [ht, Option.isSome_none, Bool.false_eq_true, if_false]
    split
    · exact ht
    · exact ih

theorem swalk_nostop {f : SFlow} {o : Oracle} {d : Dir} (h : NoAnswer f o d) :
    ∀ fuel k, (swalk f o d fuel k).stop = none
  | 0, _ => rfl
  | fuel + 1, k => by
    unfold swalk
    simp only [h k, Bool.false_eq_true, if_false]
    split
    · rfl
    · exact swalkList_nostop _ (swalk_nostop h fuel) _

/-- `Rel` for a reference result that did not stop is plain equality. -/
theorem rel_nostop {hasRes : String → Bool} {m : WalkRes} {s : SRes} (h : Rel hasRes m s)
    (hs : s.stop = none) : m.trace = s.trace ∧ m.sc = none ∧ m.err = s.err := by
  obtain ⟨htr, hrest⟩ := h
  rw [hs] at hrest
  exact ⟨htr, hrest.1, hrest.2⟩

/-! ### one flow -/

theorem nodes_nil_find {g : DirGraph} (h : g.isDefined = false) (k : String) : g.find k = none := by
  unfold DirGraph.isDefined at h
  have : g.nodes = [] := by
    cases hn : g.nodes with
    | nil => rfl
    | cons a as => simp [hn] at h
  simp [DirGraph.find, findNode, this]

/-- `executeFlow` from the root vs the reference run of the flow's direction -/
theorem flow_rel {rep : FlowRep} {f : Flow} (hb : Built rep f) (o : Oracle) (d : Dir) (fuel : Nat) :
    Rel (mentioned rep.res) (executeFlow f o d fuel none) (sflow (sflowOf rep) o d fuel) := by
  have hinv := hb.dir d
  have hname : (sflowOf rep).name = f.name := hb.name.symm
  unfold executeFlow sflow
  dsimp only
  rw [sflowOf_conns, ← hinv.root, hname]
  cases hr : (f.dir d).root with
  | none =>
    simp only
    split <;> exact ⟨rfl, by simp⟩
  | some r =>
    have hex := root_exists hinv hr
    simp only
    split
    · rename_i hdef
      have : (f.dir d).isDefined = false := by simpa using hdef
      rw [nodes_nil_find this r] at hex
      simp at hex
    · exact rel_cons _ (walk_rel hb o d fuel r hex)

/-- The response continuation of the answering flow: `executeFlow … (some k)` vs `scontinue`, for a
    processor `k` that has a node in the response direction. -/
theorem continue_eq {rep : FlowRep} {f : Flow} (hb : Built rep f) (o : Oracle) (fuel : Nat) (k : String)
    (hm : mentioned rep.res k = true) :
    let m := executeFlow f o .res fuel (some k)
    let s := scontinue (sflowOf rep) o fuel k
    m.trace = s.trace ∧ m.err = s.err := by
  have hinv := hb.res
  have hname : (sflowOf rep).name = f.name := hb.name.symm
  have hfind : (f.res.find k).isSome = true := by rw [find_isSome_eq hinv]; exact hm
  simp only
  unfold executeFlow scontinue
  simp only [Flow.dir, hname]
  have hsf : (sflowOf rep).res = rep.res := rfl
  rw [hsf]
  cases hn : f.res.find k with
  | none => simp [hn] at hfind
  | some n =>
    have hdef : f.res.isDefined = true := by
      cases hdf : f.res.isDefined with
      | true => rfl
      | false => rw [nodes_nil_find hdf k] at hn; simp at hn
    have hfe := first_edge hinv hn
    simp only [hdef, Bool.not_true, Bool.false_eq_true, if_false, Option.bind_some, hn]
    cases hed : n.edges with
    | nil =>
      rw [hed] at hfe
      have hfc : firstConn rep.res k = none := by
        cases h : firstConn rep.res k with
        | none => rfl
        | some x => rw [h] at hfe; simp at hfe
      simp [hfc]
    | cons e es =>
      rw [hed] at hfe
      simp only [List.head?_cons, Option.map_some] at hfe
      cases hfc : firstConn rep.res k with
      | none => rw [hfc] at hfe; simp at hfe
      | some dst =>
        rw [hfc] at hfe
        simp only [Option.map_some, Option.some.injEq] at hfe
        cases dst with
        | stream sn sa =>
          simp only [toTarget] at hfe
          simp [hfe]
        | proc t c =>
          simp only [toTarget] at hfe
          simp only [hfe]
          have hex : (f.res.find t).isSome = true :=
            edge_target_exists hinv hn (by rw [hed]; exact List.mem_cons_self ..) hfe
          have hrel := walk_rel hb o .res fuel t hex
          have hns := swalk_nostop (noAnswer_res (sflowOf rep) o) fuel t
          have := rel_nostop hrel hns
          simp [this.1, this.2.2]

/-! ### lists of flows: the engine's flows paired with the representations they were built from -/

abbrev Pairs := List (FlowRep × Flow)

def PairsOK (l : Pairs) : Prop := ∀ p ∈ l, Built p.1 p.2

def mflows (l : Pairs) : List Flow := l.map (·.2)
def sflows (l : Pairs) : List SFlow := l.map (sflowOf ·.1)

theorem pairsOK_tail {p : FlowRep × Flow} {l : Pairs} (h : PairsOK (p :: l)) : PairsOK l :=
  fun q hq => h q (List.mem_cons_of_mem _ hq)

/-- system flows (`runAll` vs `sall`) when none of their processors answers -/
theorem runAll_eq (o : Oracle) (d : Dir) (fuel : Nat) : ∀ (l : Pairs), PairsOK l →
    (∀ p ∈ l, NoAnswer (sflowOf p.1) o d) →
    (runAll o d fuel (mflows l)).trace = (sall o d fuel (sflows l)).trace ∧
    (runAll o d fuel (mflows l)).err = (sall o d fuel (sflows l)).err
  | [], _, _ => ⟨rfl, rfl⟩
  | p :: l, hok, hq => by
    have ih := runAll_eq o d fuel l (pairsOK_tail hok) (fun q hq' => hq q (List.mem_cons_of_mem _ hq'))
    have hrel := flow_rel (hok p (List.mem_cons_self ..)) o d fuel
    have hns : (sflow (sflowOf p.1) o d fuel).stop = none := by
      unfold sflow
      split
      · rfl
      · exact swalk_nostop (hq p (List.mem_cons_self ..)) fuel _
    have heq := rel_nostop hrel hns
    simp only [mflows, sflows, List.map_cons] at ih ⊢
    unfold runAll sall
    simp only [heq.2.2]
    split
    · exact ⟨heq.1, heq.2.2⟩
    · simp [heq.1, ih.1, ih.2]

theorem sok_sflow (sf : SFlow) (o : Oracle) (d : Dir) (fuel : Nat) : SOk (sflow sf o d fuel) := by
  unfold sflow
  split
  · simp [SOk]
  · exact sok_swalk sf o d fuel _

/-- the user-flow loop of a request (outside F04c: the answering processor has a response node) -/
theorem userReq_eq (o : Oracle) (fuel : Nat) : ∀ (l : Pairs), PairsOK l →
    (∀ p ∈ l, ∀ k, (suserReq o fuel (sflows l)).2.1 = some (sflowOf p.1, k) → mentioned p.1.res k = true) →
    (runUserReq o fuel (mflows l)).1 = (suserReq o fuel (sflows l)).1 ∧
    (runUserReq o fuel (mflows l)).2.2 = (suserReq o fuel (sflows l)).2.2 ∧
    (runUserReq o fuel (mflows l)).2.1 = (suserReq o fuel (sflows l)).2.1.map (fun q => (q.1.name, q.2))
  | [], _, _ => ⟨rfl, rfl, rfl⟩
  | p :: l, hok, hm => by
    have hb := hok p (List.mem_cons_self ..)
    obtain ⟨htr, hrest⟩ := flow_rel hb o .req fuel
    have hsok := sok_sflow (sflowOf p.1) o .req fuel
    simp only [mflows, sflows, List.map_cons] at hm ⊢
    unfold runUserReq suserReq at *
    simp only at hm ⊢
    cases herr : (sflow (sflowOf p.1) o .req fuel).err with
    | some er =>
      have hstop : (sflow (sflowOf p.1) o .req fuel).stop = none := by
        cases hs : (sflow (sflowOf p.1) o .req fuel).stop with
        | none => rfl
        | some k' => have := hsok (by simp [hs]); simp [herr] at this
      rw [hstop] at hrest
      have hme : (executeFlow p.2 o .req fuel none).err = some er := by rw [hrest.2, herr]
      simp [hme, htr]
    | none =>
      simp only [herr, Option.isSome_none, Bool.false_eq_true, if_false] at hm ⊢
      cases hs : (sflow (sflowOf p.1) o .req fuel).stop with
      | some k =>
        simp only [hs] at hm ⊢
        have hmk : mentioned p.1.res k = true := hm p (List.mem_cons_self ..) k rfl
        rw [hs] at hrest
        simp only [hmk, if_true] at hrest
        simp only [hrest.2, Option.isSome_none, Bool.false_eq_true, if_false, hrest.1]
        refine ⟨htr, trivial, ?_⟩
        simp [sflowOf, hb.name]
      | none =>
        simp only [hs] at hm ⊢
        rw [hs] at hrest
        have hme : (executeFlow p.2 o .req fuel none).err = none := by rw [hrest.2, herr]
        have ih := userReq_eq o fuel l (pairsOK_tail hok) (fun q hq => hm q (List.mem_cons_of_mem _ hq))
        simp only [mflows, sflows] at ih
        simp only [hme, Option.isSome_none, Bool.false_eq_true, if_false, hrest.1]
        exact ⟨by rw [htr, ih.1], ih.2.1, ih.2.2⟩

/-- one flow in the response phase, from its entry -/
theorem flowRes_plain {rep : FlowRep} {f : Flow} (hb : Built rep f) (o : Oracle) (fuel : Nat) :
    (executeFlow f o .res fuel none).trace = (sflow (sflowOf rep) o .res fuel).trace ∧
    (executeFlow f o .res fuel none).err = (sflow (sflowOf rep) o .res fuel).err := by
  have hrel := flow_rel hb o .res fuel
  have hns : (sflow (sflowOf rep) o .res fuel).stop = none := by
    unfold sflow
    split
    · rfl
    · exact swalk_nostop (noAnswer_res _ o) fuel _
  have := rel_nostop hrel hns
  exact ⟨this.1, this.2.2⟩

/-- one user flow in the response phase after a short-circuit by `(fl, k)` -/
theorem flowRes_sc {rep : FlowRep} {f : Flow} (hb : Built rep f) (o : Oracle) (fuel : Nat)
    (fl k : String) (hC : fl = rep.name → mentioned rep.res k = true) :
    let m := executeFlow f o .res fuel (if fl == f.name then some k else none)
    let s := if fl == (sflowOf rep).name then scontinue (sflowOf rep) o fuel k
             else sflow (sflowOf rep) o .res fuel
    m.trace = s.trace ∧ m.err = s.err := by
  have hn1 : f.name = rep.name := hb.name
  have hn2 : (sflowOf rep).name = rep.name := rfl
  simp only [hn1, hn2]
  by_cases hfl : fl = rep.name
  · have hbeq : (fl == rep.name) = true := by simpa using hfl
    simp only [hbeq, if_true]
    exact continue_eq hb o fuel k (hC hfl)
  · have hbeq : (fl == rep.name) = false := by simpa using hfl
    simp only [hbeq, Bool.false_eq_true, if_false]
    exact flowRes_plain hb o fuel

theorem step_combine (rm restm : WalkRes) (rs rests : SRes) (h1 : rm.trace = rs.trace) (h2 : rm.err = rs.err)
    (i1 : restm.trace = rests.trace) (i2 : restm.err = rests.err) :
    (if rm.err.isSome then { rm with sc := none }
      else ({ trace := rm.trace ++ restm.trace, sc := none, err := restm.err } : WalkRes)).trace =
    (if rs.err.isSome then { rs with stop := none }
      else ({ trace := rs.trace ++ rests.trace, err := rests.err } : SRes)).trace ∧
    (if rm.err.isSome then { rm with sc := none }
      else ({ trace := rm.trace ++ restm.trace, sc := none, err := restm.err } : WalkRes)).err =
    (if rs.err.isSome then { rs with stop := none }
      else ({ trace := rs.trace ++ rests.trace, err := rests.err } : SRes)).err := by
  rw [h2]
  split <;> simp [h1, i1, i2]

/-- the user-flow loop of the response phase -/
theorem userRes_eq (o : Oracle) (fuel : Nat) (sc : Option (String × String)) : ∀ (l : Pairs), PairsOK l →
    (∀ p ∈ l, ∀ fl k, sc = some (fl, k) → fl = p.1.name → mentioned p.1.res k = true) →
    (runUserRes o fuel sc (mflows l)).trace = (suserRes o fuel sc (sflows l)).trace ∧
    (runUserRes o fuel sc (mflows l)).err = (suserRes o fuel sc (sflows l)).err
  | [], _, _ => ⟨rfl, rfl⟩
  | p :: l, hok, hC => by
    have ih := userRes_eq o fuel sc l (pairsOK_tail hok) (fun q hq => hC q (List.mem_cons_of_mem _ hq))
    have hb := hok p (List.mem_cons_self ..)
    cases sc with
    | none =>
      have h1 := flowRes_plain hb o fuel
      exact step_combine _ _ _ _ h1.1 h1.2 ih.1 ih.2
    | some q =>
      obtain ⟨fl, k⟩ := q
      have h1 := flowRes_sc hb o fuel fl k (hC p (List.mem_cons_self ..) fl k rfl)
      exact step_combine _ _ _ _ h1.1 h1.2 ih.1 ih.2

/-! ### whole transactions -/

theorem pairsOK_reverse {l : Pairs} (h : PairsOK l) : PairsOK l.reverse :=
  fun p hp => h p (List.mem_reverse.mp hp)

theorem mflows_reverse (l : Pairs) : (mflows l).reverse = mflows l.reverse := by simp [mflows]
theorem sflows_reverse (l : Pairs) : (sflows l).reverse = sflows l.reverse := by simp [sflows]

/-- `executeRes` vs the reference response phase -/
theorem res_eq (o : Oracle) (fuel : Nat) (ps pu pf : Pairs) (hs : PairsOK ps) (hu : PairsOK pu) (hf : PairsOK pf)
    (sc : Option (String × String))
    (hC : ∀ p ∈ pu, ∀ fl k, sc = some (fl, k) → fl = p.1.name → mentioned p.1.res k = true) :
    (executeRes ⟨mflows ps, mflows pu, mflows pf⟩ o fuel sc).trace =
      (sresponse ⟨sflows ps, sflows pu, sflows pf⟩ o fuel sc).1 ∧
    (executeRes ⟨mflows ps, mflows pu, mflows pf⟩ o fuel sc).err =
      (sresponse ⟨sflows ps, sflows pu, sflows pf⟩ o fuel sc).2 := by
  have ha := runAll_eq o .res fuel ps.reverse (pairsOK_reverse hs) (fun p _ => noAnswer_res _ o)
  have hb := userRes_eq o fuel sc pu.reverse (pairsOK_reverse hu)
    (fun p hp => hC p (List.mem_reverse.mp hp))
  have hc := runAll_eq o .res fuel pf.reverse (pairsOK_reverse hf) (fun p _ => noAnswer_res _ o)
  unfold executeRes sresponse
  simp only [mflows_reverse, sflows_reverse]
  rw [ha.2, hb.2, ha.1, hb.1, hc.1, hc.2]
  split
  · exact ⟨rfl, rfl⟩
  · split
    · exact ⟨rfl, rfl⟩
    · exact ⟨rfl, rfl⟩

/-- `executeReq` vs the reference request transaction, outside the class F04c (the side condition is
    only needed when the system start flows ran without error) -/
theorem req_eq (o : Oracle) (fuel : Nat) (ps pu pf : Pairs) (hs : PairsOK ps) (hu : PairsOK pu) (hf : PairsOK pf)
    (hqs : ∀ p ∈ ps, NoAnswer (sflowOf p.1) o .req) (hqf : ∀ p ∈ pf, NoAnswer (sflowOf p.1) o .req)
    (hC : (sall o .req fuel (sflows ps)).err = none →
          ∀ sf k, (suserReq o fuel (sflows pu)).2.1 = some (sf, k) →
            ∀ p ∈ pu, p.1.name = sf.name → mentioned p.1.res k = true) :
    (executeReq ⟨mflows ps, mflows pu, mflows pf⟩ o fuel).trace =
      (stxn ⟨sflows ps, sflows pu, sflows pf⟩ o fuel .req).trace ∧
    (executeReq ⟨mflows ps, mflows pu, mflows pf⟩ o fuel).err =
      (stxn ⟨sflows ps, sflows pu, sflows pf⟩ o fuel .req).err := by
  have ha := runAll_eq o .req fuel ps hs hqs
  have hc := runAll_eq o .req fuel pf hf hqf
  unfold executeReq stxn
  simp only
  rw [ha.2, ha.1]
  split
  · exact ⟨rfl, rfl⟩
  · rename_i hne
    have hnone : (sall o .req fuel (sflows ps)).err = none := by
      cases h : (sall o .req fuel (sflows ps)).err with
      | none => rfl
      | some e => simp [h] at hne
    have hC' := hC hnone
    have hb := userReq_eq o fuel pu hu
      (fun p hpm k h => hC' (sflowOf p.1) k h p hpm rfl)
    rcases hm : runUserReq o fuel (mflows pu) with ⟨bt, msc, be⟩
    rcases hss : suserReq o fuel (sflows pu) with ⟨st, ssc, se⟩
    rw [hm, hss] at hb
    rw [hss] at hC'
    simp only at hb hC' ⊢
    obtain ⟨hb1, hb2, hb3⟩ := hb
    subst hb1 hb2 hb3
    rw [hc.1, hc.2]
    split
    · exact ⟨rfl, rfl⟩
    · split
      · exact ⟨rfl, rfl⟩
      · cases ssc with
        | none => exact ⟨rfl, rfl⟩
        | some q =>
          obtain ⟨sf, k⟩ := q
          have hr := res_eq o fuel ps pu pf hs hu hf (some (sf.name, k)) (by
            intro p hpm fl k' h hfl
            simp only [Option.some.injEq, Prod.mk.injEq] at h
            obtain ⟨h1, h2⟩ := h
            subst h1 h2
            exact hC' sf k rfl p hpm hfl.symm)
          simp only [Option.map_some]
          rcases hrr : sresponse ⟨sflows ps, sflows pu, sflows pf⟩ o fuel (some (sf.name, k)) with ⟨rt, re⟩
          rw [hrr] at hr
          simp only at hr ⊢
          exact ⟨by rw [hr.1], hr.2⟩

end LunarVerif.C04
