import LunarVerif.Proofs.C05Tight
/-!
C05, part 2: from one walk to whole transactions, and from the loader's verdict to the judge predicate.
-/
namespace LunarVerif.C05
open LunarVerif.FlowGraph LunarVerif.FlowExec

/-- what `validateFlow` established for a loaded flow -/
def Validated (f : Flow) : Prop := ∀ d, validateDirection d (f.dir d) = .ok ()

theorem find_nil_of_undefined {g : DirGraph} (h : g.isDefined = false) (k : String) : g.find k = none := by
  unfold DirGraph.isDefined at h
  have : g.nodes = [] := by
    cases hn : g.nodes with
    | nil => rfl
    | cons a l => simp [hn] at h
  simp [DirGraph.find, findNode, this]

/-- the loader ran the cycle DFS for every node -/
theorem dfsFrom_of_validated {d : Dir} {g : DirGraph} (hv : validateDirection d g = .ok ()) {k : String} {n : Node}
    (hn : g.find k = some n) : dfsFrom g n = true := by
  unfold validateDirection at hv
  by_cases hdef : g.isDefined = true
  · simp only [hdef, Bool.not_true, Bool.false_eq_true, if_false] at hv
    split at hv
    · exact absurd hv (by simp)
    · split at hv
      · exact absurd hv (by simp)
      · split at hv
        · exact absurd hv (by simp)
        · rename_i hc
          simp only [Bool.not_eq_true', Bool.not_eq_false] at hc
          unfold noCycleAnywhere at hc
          rw [List.all_eq_true] at hc
          exact hc n (find_mem hn)
  · have := find_nil_of_undefined (by simpa using hdef) k
    rw [this] at hn
    exact absurd hn (by simp)

/-- **every entry point of a validated direction is safe** -/
theorem walk_any_ok (f : Flow) (o : Oracle) (d : Dir) (hv : validateDirection d (f.dir d) = .ok ())
    (k : String) (fuel : Nat) (hf : depthOf (f.dir d) ≤ fuel) :
    WOk (dirBound (f.dir d)) (walk f o d fuel k) :=
  walk_of_bounded f o d k _ (bounded_of_dfsFrom (f.dir d) k (fun _ hn => dfsFrom_of_validated hv hn)) fuel hf

theorem wok_enter {b : Nat} {w : WalkRes} (h : WOk b w) (fl : String) (d : Dir) :
    WOk b { w with trace := Event.enter fl d :: w.trace } :=
  ⟨h.1, by simp only [steps_cons_enter]; exact h.2⟩

theorem wok_only_enter (b : Nat) (fl : String) (d : Dir) : WOk b { trace := [Event.enter fl d] } :=
  ⟨by simp, by simp [steps_cons_enter, steps_nil]⟩

/-- **one flow, one direction**, from the root or from any short-circuit node -/
theorem executeFlow_ok (f : Flow) (o : Oracle) (d : Dir) (fuel : Nat) (sf : Option String)
    (hv : validateDirection d (f.dir d) = .ok ()) (hf : depthOf (f.dir d) ≤ fuel) :
    WOk (dirBound (f.dir d)) (executeFlow f o d fuel sf) := by
  unfold executeFlow
  simp only []
  split
  · exact wok_only_enter _ _ _
  · split
    · exact wok_only_enter _ _ _
    · exact wok_enter (walk_any_ok f o d hv _ fuel hf) _ _

/-! ### lists of flows -/

def sumDir (d : Dir) (fls : List Flow) : Nat := (fls.map fun f => dirBound (f.dir d)).sum

theorem sumDir_cons (d : Dir) (f : Flow) (fls : List Flow) :
    sumDir d (f :: fls) = dirBound (f.dir d) + sumDir d fls := by
  simp [sumDir]

theorem sumDir_reverse (d : Dir) (fls : List Flow) : sumDir d fls.reverse = sumDir d fls := by
  simp only [sumDir, List.map_reverse, List.sum_reverse_nat]

theorem bound_eq (fls : List Flow) : bound fls = sumDir .req fls + sumDir .res fls := by
  induction fls with
  | nil => simp [bound, sumDir]
  | cons f fls ih =>
    simp only [bound, List.map_cons, List.sum_cons] at ih ⊢
    rw [ih, sumDir_cons, sumDir_cons]
    simp only [flowBound, Flow.dir]
    omega

/-- every flow of the list was validated and `fuel` covers its DFS fuel -/
def Ready (fuel : Nat) (fls : List Flow) : Prop :=
  ∀ f ∈ fls, Validated f ∧ ∀ d, depthOf (f.dir d) ≤ fuel

theorem Ready.tail {fuel : Nat} {f : Flow} {fls : List Flow} (h : Ready fuel (f :: fls)) : Ready fuel fls :=
  fun g hg => h g (List.mem_cons_of_mem _ hg)

theorem Ready.reverse {fuel : Nat} {fls : List Flow} (h : Ready fuel fls) : Ready fuel fls.reverse :=
  fun g hg => h g (List.mem_reverse.mp hg)

theorem runUserReq_ok (o : Oracle) (fuel : Nat) : ∀ (fls : List Flow), Ready fuel fls →
    (runUserReq o fuel fls).2.2 ≠ some .fuel ∧ steps (runUserReq o fuel fls).1 ≤ sumDir .req fls
  | [], _ => by simp [runUserReq, steps_nil]
  | f :: fls, h => by
    have hf := h f List.mem_cons_self
    have hr := executeFlow_ok f o .req fuel none (hf.1 .req) (hf.2 .req)
    have ih := runUserReq_ok o fuel fls h.tail
    unfold runUserReq
    simp only []
    rw [sumDir_cons]
    by_cases herr : (executeFlow f o .req fuel none).err.isSome = true
    · simp only [herr, if_true]
      exact ⟨hr.1, Nat.le_trans hr.2 (Nat.le_add_right _ _)⟩
    · simp only [herr, Bool.false_eq_true, if_false]
      cases hsc : (executeFlow f o .req fuel none).sc with
      | some k =>
        simp only []
        exact ⟨by simp, Nat.le_trans hr.2 (Nat.le_add_right _ _)⟩
      | none =>
        simp only []
        generalize runUserReq o fuel fls = q at ih ⊢
        obtain ⟨t, sc, e⟩ := q
        simp only [] at ih ⊢
        refine ⟨ih.1, ?_⟩
        rw [steps_append]
        have h1 := hr.2
        have h2 := ih.2
        omega

theorem runUserRes_ok (o : Oracle) (fuel : Nat) (sc : Option (String × String)) :
    ∀ (fls : List Flow), Ready fuel fls → WOk (sumDir .res fls) (runUserRes o fuel sc fls)
  | [], _ => by simp [runUserRes, WOk, steps_nil]
  | f :: fls, h => by
    have hf := h f List.mem_cons_self
    have hr := executeFlow_ok f o .res fuel (startFor sc f) (hf.1 .res) (hf.2 .res)
    have ih := runUserRes_ok o fuel sc fls h.tail
    unfold runUserRes
    simp only []
    rw [sumDir_cons]
    by_cases herr : (executeFlow f o .res fuel (startFor sc f)).err.isSome = true
    · simp only [herr, if_true]
      exact ⟨hr.1, Nat.le_trans hr.2 (Nat.le_add_right _ _)⟩
    · simp only [herr, Bool.false_eq_true, if_false]
      refine ⟨ih.1, ?_⟩
      simp only [steps_append]
      have h1 := hr.2
      have h2 := ih.2
      omega

/-- outcome of a transaction: did not run out of fuel, at most `b` executions -/
def TOk (b : Nat) (r : TxnRes) : Prop := r.err ≠ some .fuel ∧ steps r.trace ≤ b

theorem executeRes_ok (o : Oracle) (fuel : Nat) (fls : List Flow) (sc : Option (String × String))
    (h : Ready fuel fls) : TOk (sumDir .res fls) (executeRes (selected fls) o fuel sc) := by
  have hb := runUserRes_ok o fuel sc fls.reverse h.reverse
  rw [sumDir_reverse] at hb
  unfold executeRes selected
  simp only [List.reverse_nil, runAll]
  simp only [Option.isSome_none, Bool.false_eq_true, if_false, List.nil_append, List.append_nil]
  by_cases herr : (runUserRes o fuel sc fls.reverse).err.isSome = true
  · simp only [herr, if_true]
    exact ⟨hb.1, hb.2⟩
  · simp only [herr, Bool.false_eq_true, if_false]
    exact ⟨by simp, hb.2⟩

theorem executeReq_ok (o : Oracle) (fuel : Nat) (fls : List Flow) (h : Ready fuel fls) :
    TOk (bound fls) (executeReq (selected fls) o fuel) := by
  have ha := runUserReq_ok o fuel fls h
  rw [bound_eq]
  unfold executeReq
  simp only [selected, runAll, Option.isSome_none, Bool.false_eq_true, if_false, List.nil_append,
    List.append_nil]
  generalize hq : runUserReq o fuel fls = q at ha
  obtain ⟨bt, sc, be⟩ := q
  simp only [] at ha ⊢
  by_cases hbe : be.isSome = true
  · simp only [hbe, if_true]
    exact ⟨ha.1, Nat.le_trans ha.2 (Nat.le_add_right _ _)⟩
  · simp only [hbe, Bool.false_eq_true, if_false]
    cases sc with
    | none => exact ⟨by simp, Nat.le_trans ha.2 (Nat.le_add_right _ _)⟩
    | some p =>
      have hr := executeRes_ok o fuel fls (some p) h
      unfold selected at hr
      simp only []
      refine ⟨hr.1, ?_⟩
      simp only [steps_append]
      have h1 := ha.2
      have h2 := hr.2
      omega

theorem transaction_ok (o : Oracle) (fuel : Nat) (fls : List Flow) (d : Dir) (h : Ready fuel fls) :
    TOk (bound fls) (transaction (selected fls) o fuel d) := by
  cases d with
  | req => exact executeReq_ok o fuel fls h
  | res =>
    have := executeRes_ok o fuel fls none h
    rw [bound_eq]
    exact ⟨this.1, Nat.le_trans this.2 (Nat.le_add_left _ _)⟩

/-! ### the filter tree selects a sub-list of the loaded flows for the response side -/

theorem sumDir_filter_le (d : Dir) (p : Flow → Bool) : ∀ fls : List Flow, sumDir d (fls.filter p) ≤ sumDir d fls
  | [] => Nat.le_refl _
  | f :: fls => by
    have ih := sumDir_filter_le d p fls
    by_cases hp : p f = true
    · simp only [List.filter_cons, hp, if_true, sumDir_cons]; omega
    · simp only [List.filter_cons, hp, Bool.false_eq_true, if_false, sumDir_cons]; omega

theorem Ready.filter {fuel : Nat} {fls : List Flow} (h : Ready fuel fls) (p : Flow → Bool) : Ready fuel (fls.filter p) :=
  fun g hg => h g (List.mem_filter.mp hg).1

theorem executeReq5_ok (o : Oracle) (fuel : Nat) (fls : List Flow) (p : Flow → Bool) (h : Ready fuel fls) :
    TOk (bound fls) (executeReq5 fls (fls.filter p) o fuel) := by
  have ha := runUserReq_ok o fuel fls h
  rw [bound_eq]
  unfold executeReq5
  generalize runUserReq o fuel fls = q at ha
  obtain ⟨bt, sc, be⟩ := q
  simp only [] at ha ⊢
  by_cases hbe : be.isSome = true
  · simp only [hbe, if_true]
    exact ⟨ha.1, Nat.le_trans ha.2 (Nat.le_add_right _ _)⟩
  · simp only [hbe, Bool.false_eq_true, if_false]
    cases sc with
    | none => exact ⟨by simp, Nat.le_trans ha.2 (Nat.le_add_right _ _)⟩
    | some q =>
      have hr := executeRes_ok o fuel (fls.filter p) (some q) (h.filter p)
      have hle := sumDir_filter_le .res p fls
      simp only []
      refine ⟨hr.1, ?_⟩
      simp only [steps_append]
      have h1 := ha.2
      have h2 := hr.2
      omega

theorem executeRes_filter_ok (o : Oracle) (fuel : Nat) (fls : List Flow) (p : Flow → Bool)
    (sc : Option (String × String)) (h : Ready fuel fls) :
    TOk (sumDir .res fls) (executeRes (selected (fls.filter p)) o fuel sc) := by
  have hr := executeRes_ok o fuel (fls.filter p) sc (h.filter p)
  exact ⟨hr.1, Nat.le_trans hr.2 (sumDir_filter_le .res p fls)⟩

theorem runTxn_ok (c : Cfg) (o : Oracle) (fls : List Flow) (d : Dir) (h : Ready (walkFuel fls) fls) :
    TOk (bound fls) (runTxn c fls o d) := by
  cases d with
  | req => exact executeReq5_ok o _ fls _ h
  | res =>
    have := executeRes_filter_ok o (walkFuel fls) fls (fun f => (statusOf c f.name).isEmpty ||
      (match (some 200 : Option Nat) with
       | some st => (statusOf c f.name).contains st
       | none => false)) none h
    rw [bound_eq]
    exact ⟨this.1, Nat.le_trans this.2 (Nat.le_add_left _ _)⟩

/-! ### what the loader establishes -/

theorem buildFlow_validated {pts : List PType} {rep : FlowRep} {f : Flow} (h : buildFlow pts rep = .ok f) :
    Validated f := by
  unfold buildFlow at h
  split at h
  · exact absurd h (by simp)
  · split at h
    · exact absurd h (by simp)
    · split at h
      · exact absurd h (by simp)
      · rename_i hrq
        split at h
        · exact absurd h (by simp)
        · rename_i hrs
          split at h
          · exact absurd h (by simp)
          · simp only [Except.ok.injEq] at h
            subst h
            intro d
            cases d with
            | req => simpa [Flow.dir] using hrq
            | res => simpa [Flow.dir] using hrs

theorem buildFlowX_validated {pts : List PType} {fs : List XFlow} {x : XFlow} {fo fo' : Option String} {f : Flow}
    (h : buildFlowX pts fs x fo = .ok (f, fo')) : Validated f := by
  unfold buildFlowX at h
  split at h
  · exact absurd h (by simp)
  · split at h
    · exact absurd h (by simp)
    · split at h
      · exact absurd h (by simp)
      · rename_i hrq
        split at h
        · exact absurd h (by simp)
        · rename_i hrs
          split at h
          · exact absurd h (by simp)
          · simp only [Except.ok.injEq, Prod.mk.injEq] at h
            obtain ⟨h, _⟩ := h
            subst h
            intro d
            cases d with
            | req => simpa [Flow.dir] using hrq
            | res => simpa [Flow.dir] using hrs

theorem buildOne_validated {pts : List PType} {fs : List XFlow} {x : XFlow} {fo fo' : Option String} {f : Flow}
    (h : buildOne pts fs x fo = .ok (f, fo')) : Validated f := by
  unfold buildOne at h
  split at h
  · split at h
    · exact absurd h (by simp)
    · rename_i hb
      simp only [Except.ok.injEq, Prod.mk.injEq] at h
      obtain ⟨h, _⟩ := h
      subst h
      exact buildFlow_validated hb
  · exact buildFlowX_validated h

theorem buildAll_validated {pts : List PType} {fs : List XFlow} : ∀ {xs : List XFlow} {fo : Option String}
    {fls : List Flow}, buildAll pts fs xs fo = .ok fls → ∀ f ∈ fls, Validated f
  | [], _, fls, h => by
    simp only [buildAll, Except.ok.injEq] at h
    subst h
    intro f hf
    simp at hf
  | x :: xs, fo, fls, h => by
    unfold buildAll at h
    split at h
    · exact absurd h (by simp)
    · rename_i fl fo' hb
      split at h
      · exact absurd h (by simp)
      · rename_i rest hr
        simp only [Except.ok.injEq] at h
        subst h
        intro f hf
        rcases List.mem_cons.mp hf with rfl | hf'
        · exact buildOne_validated hb
        · exact buildAll_validated hr f hf'

theorem load_accept_build {c : Cfg} {fls : List Flow} (h : load c = .accept fls) :
    buildAll c.ptypes c.flows c.flows none = .ok fls := by
  unfold load at h
  repeat' (split at h)
  all_goals first
    | (simp only [LoadRes.accept.injEq] at h
       subst h
       assumption)
    | (simp at h)

theorem load_validated {c : Cfg} {fls : List Flow} (h : load c = .accept fls) : ∀ f ∈ fls, Validated f :=
  buildAll_validated (load_accept_build h)

/-! ### the walker's fuel covers every loaded direction -/

theorem foldl_fuel_ge (l : List Flow) : ∀ (m : Nat),
    m ≤ l.foldl (fun m f => max m (max (depthOf f.req) (depthOf f.res))) m := by
  induction l with
  | nil => intro m; exact Nat.le_refl _
  | cons x xs ih =>
    intro m
    simp only [List.foldl_cons]
    exact Nat.le_trans (Nat.le_max_left _ _) (ih _)

theorem foldl_fuel_mem (l : List Flow) : ∀ (m : Nat) (f : Flow), f ∈ l →
    max (depthOf f.req) (depthOf f.res) ≤ l.foldl (fun m f => max m (max (depthOf f.req) (depthOf f.res))) m := by
  induction l with
  | nil => intro m f h; simp at h
  | cons x xs ih =>
    intro m f h
    simp only [List.foldl_cons]
    rcases List.mem_cons.mp h with rfl | h'
    · exact Nat.le_trans (Nat.le_max_right _ _) (foldl_fuel_ge xs _)
    · exact ih _ f h'

theorem walkFuel_covers (fls : List Flow) (f : Flow) (hf : f ∈ fls) (d : Dir) :
    depthOf (f.dir d) ≤ walkFuel fls := by
  have := foldl_fuel_mem fls 0 f hf
  unfold walkFuel
  cases d with
  | req =>
    have h1 : depthOf f.req ≤ max (depthOf f.req) (depthOf f.res) := Nat.le_max_left _ _
    simp only [Flow.dir]; omega
  | res =>
    have h1 : depthOf f.res ≤ max (depthOf f.req) (depthOf f.res) := Nat.le_max_right _ _
    simp only [Flow.dir]; omega

theorem load_ready {c : Cfg} {fls : List Flow} (h : load c = .accept fls) : Ready (walkFuel fls) fls :=
  fun f hf => ⟨load_validated h f hf, walkFuel_covers fls f hf⟩

end LunarVerif.C05
