import LunarVerif.Spec.C15
/-!
Helper lemmas for C15.  Everything is phrased through the summaries `sem M P` / `isem M P` of
`Spec/C15.lean`: every operation of the model (upsert, map combine, re-keying, extraction) is a
homomorphism into the commutative monoid `Sem` (counts and sums add, min of mins, max of maxes).
-/
namespace LunarVerif.C15

/-! ### `omin`, `omax`, `Sem` form commutative monoids -/

theorem omin_none_left (a : Option Nat) : omin none a = a := by cases a <;> rfl
theorem omin_none_right (a : Option Nat) : omin a none = a := by cases a <;> rfl
theorem omin_comm (a b : Option Nat) : omin a b = omin b a := by
  cases a <;> cases b <;> simp [omin, Nat.min_comm]
theorem omin_assoc (a b c : Option Nat) : omin (omin a b) c = omin a (omin b c) := by
  cases a <;> cases b <;> cases c <;> simp [omin, Nat.min_assoc]

theorem omax_none_left (a : Option Nat) : omax none a = a := by cases a <;> rfl
theorem omax_none_right (a : Option Nat) : omax a none = a := by cases a <;> rfl
theorem omax_comm (a b : Option Nat) : omax a b = omax b a := by
  cases a <;> cases b <;> simp [omax, Nat.max_comm]
theorem omax_assoc (a b c : Option Nat) : omax (omax a b) c = omax a (omax b c) := by
  cases a <;> cases b <;> cases c <;> simp [omax, Nat.max_assoc]

theorem Sem.ext' {a b : Sem} (h1 : a.cnt = b.cnt) (h2 : a.sd = b.sd) (h3 : a.st = b.st)
    (h4 : ∀ c, a.stc c = b.stc c) (h5 : a.mn = b.mn) (h6 : a.mx = b.mx) : a = b := by
  cases a; cases b; simp only at h1 h2 h3 h5 h6
  have : ‹Nat → Nat› = ‹Nat → Nat› := rfl
  subst h1 h2 h3 h5 h6
  congr
  exact funext h4

theorem Sem.zero_add (a : Sem) : Sem.zero.add a = a := by
  apply Sem.ext' <;> simp [Sem.add, Sem.zero, omin_none_left]

theorem Sem.add_zero (a : Sem) : a.add Sem.zero = a := by
  apply Sem.ext' <;> simp [Sem.add, Sem.zero, omin_none_right]

theorem Sem.add_comm (a b : Sem) : a.add b = b.add a := by
  apply Sem.ext' <;> simp [Sem.add, Nat.add_comm, Int.add_comm, omin_comm, Nat.max_comm]

theorem Sem.add_assoc (a b c : Sem) : (a.add b).add c = a.add (b.add c) := by
  apply Sem.ext' <;> simp [Sem.add, Nat.add_assoc, Int.add_assoc, omin_assoc, Nat.max_assoc]

theorem Sem.add_left_comm (a b c : Sem) : a.add (b.add c) = b.add (a.add c) := by
  rw [← Sem.add_assoc, Sem.add_comm a b, Sem.add_assoc]

/-! ### status maps -/

theorem stCount_upsert (s : List (Nat × Nat)) (c n c' : Nat) :
    stCount (upsert addN s c n) c' = stCount s c' + (if c = c' then n else 0) := by
  induction s with
  | nil => simp [upsert, stCount]
  | cons p rest ih =>
    obtain ⟨k, v⟩ := p
    simp only [upsert]
    by_cases hk : k = c
    · subst hk
      simp only [if_true, stCount, List.foldr_cons, addN]
      by_cases h2 : k = c' <;> simp [h2] <;> omega
    · simp only [hk, if_false]
      simp only [stCount, List.foldr_cons] at ih ⊢
      by_cases h2 : k = c'
      · simp only [h2, if_true]; rw [ih]; omega
      · simp only [h2, if_false]; exact ih

theorem stCount_combineG (a b : List (Nat × Nat)) (c : Nat) :
    stCount (combineG addN a b) c = stCount a c + stCount b c := by
  unfold combineG
  induction b generalizing a with
  | nil => simp [stCount]
  | cons p rest ih =>
    simp only [List.foldl_cons]
    rw [ih, stCount_upsert]
    simp only [stCount, List.foldr_cons]
    by_cases h : p.1 = c <;> simp [h] <;> omega

theorem stTotal_upsert (s : List (Nat × Nat)) (c n : Nat) :
    stTotal (upsert addN s c n) = stTotal s + n := by
  induction s with
  | nil => simp [upsert, stTotal]
  | cons p rest ih =>
    obtain ⟨k, v⟩ := p
    simp only [upsert]
    by_cases hk : k = c
    · simp only [hk, if_true, stTotal, List.foldr_cons, addN]; omega
    · simp only [hk, if_false]
      simp only [stTotal, List.foldr_cons] at ih ⊢
      rw [ih]; omega

theorem stTotal_combineG (a b : List (Nat × Nat)) :
    stTotal (combineG addN a b) = stTotal a + stTotal b := by
  unfold combineG
  induction b generalizing a with
  | nil => simp [stTotal]
  | cons p rest ih =>
    simp only [List.foldl_cons]
    rw [ih, stTotal_upsert]
    simp only [stTotal, List.foldr_cons]; omega

/-! ### `EndpointAgg.Combine` is a homomorphism -/

theorem semOf_combine (a b : EAgg) : semOf (a.combine b) = (semOf a).add (semOf b) := by
  apply Sem.ext'
  · simp [semOf, EAgg.combine, Sem.add]
  · simp [semOf, EAgg.combine, Sem.add]
  · simp [semOf, EAgg.combine, Sem.add]
  · intro c; simp [semOf, EAgg.combine, Sem.add, stCombine, stCount_combineG]
  · simp only [semOf, EAgg.combine, Sem.add, omin]
    congr 1
    by_cases h : a.minT < b.minT
    · simp only [h, if_true]; exact (Nat.min_eq_left (Nat.le_of_lt h)).symm
    · simp only [h, if_false]; exact (Nat.min_eq_right (Nat.le_of_not_lt h)).symm
  · simp only [semOf, EAgg.combine, Sem.add]
    by_cases h : a.maxT > b.maxT
    · simp only [h, if_true]; exact (Nat.max_eq_left (Nat.le_of_lt h)).symm
    · simp only [h, if_false]; exact (Nat.max_eq_right (Nat.le_of_not_lt h)).symm

/-! ### `sem` of the map operations -/

section SemOps
variable {κ κ' : Type}

theorem sem_nil (P : κ → Bool) : sem ([] : List (κ × EAgg)) P = Sem.zero := rfl

theorem sem_cons (p : κ × EAgg) (M : List (κ × EAgg)) (P : κ → Bool) :
    sem (p :: M) P = (if P p.1 then semOf p.2 else Sem.zero).add (sem M P) := by
  simp only [sem, List.foldr_cons]
  by_cases h : P p.1 = true
  · simp [h]
  · simp [h, Sem.zero_add]

theorem sem_append (A B : List (κ × EAgg)) (P : κ → Bool) :
    sem (A ++ B) P = (sem A P).add (sem B P) := by
  induction A with
  | nil => simp [sem_nil, Sem.zero_add]
  | cons p rest ih => simp only [List.cons_append, sem_cons, ih, Sem.add_assoc]

theorem sem_upsert [DecidableEq κ] (M : List (κ × EAgg)) (k : κ) (a : EAgg) (P : κ → Bool) :
    sem (upsert EAgg.combine M k a) P = (sem M P).add (if P k then semOf a else Sem.zero) := by
  induction M with
  | nil => simp [upsert, sem_cons, sem_nil, Sem.zero_add, Sem.add_zero]
  | cons p rest ih =>
    obtain ⟨k', a'⟩ := p
    simp only [upsert]
    by_cases hk : k' = k
    · subst hk
      simp only [if_true, sem_cons]
      by_cases hp : P k' = true
      · simp only [hp, if_true, semOf_combine]
        rw [Sem.add_assoc, Sem.add_assoc, Sem.add_comm (semOf a)]
      · simp [hp, Sem.add_zero]
    · simp only [hk, if_false, sem_cons, ih, Sem.add_assoc]

theorem sem_combineG [DecidableEq κ] (A B : List (κ × EAgg)) (P : κ → Bool) :
    sem (combineG EAgg.combine A B) P = (sem A P).add (sem B P) := by
  unfold combineG
  induction B generalizing A with
  | nil => simp [sem_nil, Sem.add_zero]
  | cons p rest ih =>
    simp only [List.foldl_cons]
    rw [ih, sem_upsert, sem_cons, Sem.add_assoc]

theorem sem_regroupG [DecidableEq κ] (l : List (κ × EAgg)) (P : κ → Bool) :
    sem (regroupG EAgg.combine l) P = sem l P := by
  simp [regroupG, sem_combineG, sem_nil, Sem.zero_add]

theorem sem_relabel (g : κ' → κ) (M : List (κ' × EAgg)) (P : κ → Bool) :
    sem (relabel g M) P = sem M (fun k => P (g k)) := by
  induction M with
  | nil => rfl
  | cons p rest ih =>
    simp only [relabel, List.map_cons] at ih ⊢
    rw [sem_cons, sem_cons, ih]

theorem sem_extractKeyed [DecidableEq κ] (l : List (κ × Rec)) (P : κ → Bool) :
    sem (extractKeyed l) P = sem (l.map fun p => (p.1, single p.2)) P := by
  have h : ∀ (M : List (κ × EAgg)),
      sem (l.foldl (fun m p => upsert EAgg.combine m p.1 (single p.2)) M) P
        = (sem M P).add (sem (l.map fun p => (p.1, single p.2)) P) := by
    induction l with
    | nil => intro M; simp [sem_nil, Sem.add_zero]
    | cons p rest ih =>
      intro M
      simp only [List.foldl_cons, List.map_cons]
      rw [ih, sem_upsert, sem_cons, Sem.add_assoc]
  simpa [extractKeyed, sem_nil, Sem.zero_add] using h []

theorem sem_rekeyAny [DecidableEq κ] (g : κ → κ) (M : List (κ × EAgg)) (P : κ → Bool) :
    sem (rekeyAny g M) P = sem M (fun k => P (g k)) := by
  simp [rekeyAny, sem_regroupG, sem_relabel]

/-- `sem` only looks at the keys through `P` -/
theorem sem_congr (M : List (κ × EAgg)) (P Q : κ → Bool) (h : ∀ p ∈ M, P p.1 = Q p.1) :
    sem M P = sem M Q := by
  induction M with
  | nil => rfl
  | cons p rest ih =>
    simp only [sem_cons]
    rw [h p (by simp), ih (fun q hq => h q (by simp [hq]))]

end SemOps


/-! ### interceptor maps -/

section ISem
variable {κ : Type}

theorem isem_nil (P : κ → Bool) : isem ([] : List (κ × Nat)) P = none := rfl

theorem isem_cons (p : κ × Nat) (M : List (κ × Nat)) (P : κ → Bool) :
    isem (p :: M) P = omax (if P p.1 then some p.2 else none) (isem M P) := by
  simp only [isem, List.foldr_cons]
  by_cases h : P p.1 = true
  · simp [h]
  · simp [h, omax_none_left]

theorem isem_append (A B : List (κ × Nat)) (P : κ → Bool) :
    isem (A ++ B) P = omax (isem A P) (isem B P) := by
  induction A with
  | nil => simp [isem_nil, omax_none_left]
  | cons p rest ih => simp only [List.cons_append, isem_cons, ih, omax_assoc]

theorem isem_upsert [DecidableEq κ] (M : List (κ × Nat)) (k : κ) (v : Nat) (P : κ → Bool) :
    isem (upsert Nat.max M k v) P = omax (isem M P) (if P k then some v else none) := by
  induction M with
  | nil => simp [upsert, isem_cons, isem_nil, omax_none_left, omax_none_right]
  | cons p rest ih =>
    obtain ⟨k', a'⟩ := p
    simp only [upsert]
    by_cases hk : k' = k
    · subst hk
      simp only [if_true, isem_cons]
      by_cases hp : P k' = true
      · simp only [hp, if_true]
        rw [omax_assoc, omax_comm (isem rest P), ← omax_assoc]
        simp [omax]
      · simp [hp, omax_none_right]
    · simp only [hk, if_false, isem_cons, ih, omax_assoc]

theorem isem_combineG [DecidableEq κ] (A B : List (κ × Nat)) (P : κ → Bool) :
    isem (combineG Nat.max A B) P = omax (isem A P) (isem B P) := by
  unfold combineG
  induction B generalizing A with
  | nil => simp [isem_nil, omax_none_right]
  | cons p rest ih =>
    simp only [List.foldl_cons]
    rw [ih, isem_upsert, isem_cons, omax_assoc]

theorem isem_extractI (rs : List Rec) (P : IKey → Bool) :
    isem (extractI rs) P = isem (rs.map fun r => (interceptorOf r.interceptor, r.ts)) P := by
  have h : ∀ (M : IMap),
      isem (rs.foldl (fun m r => upsert Nat.max m (interceptorOf r.interceptor) r.ts) M) P
        = omax (isem M P) (isem (rs.map fun r => (interceptorOf r.interceptor, r.ts)) P) := by
    induction rs with
    | nil => intro M; simp [isem_nil, omax_none_right]
    | cons p rest ih =>
      intro M
      simp only [List.foldl_cons, List.map_cons]
      rw [ih, isem_upsert, isem_cons, omax_assoc]
  simpa [extractI, isem_nil, omax_none_left] using h []

end ISem

/-! ### the invariant `count = Σ status counts` -/

def AllOk {κ : Type} (M : List (κ × EAgg)) : Prop := ∀ p ∈ M, countOk p.2 = true

theorem countOk_single (r : Rec) : countOk (single r) = true := by
  simp [countOk, single, stTotal]

theorem countOk_combine (a b : EAgg) (ha : countOk a = true) (hb : countOk b = true) :
    countOk (a.combine b) = true := by
  simp only [countOk, beq_iff_eq] at *
  simp [EAgg.combine, stCombine, stTotal_combineG, ha, hb]

theorem allOk_upsert {κ : Type} [DecidableEq κ] (M : List (κ × EAgg)) (k : κ) (a : EAgg)
    (hM : AllOk M) (ha : countOk a = true) : AllOk (upsert EAgg.combine M k a) := by
  induction M with
  | nil => intro p hp; simp [upsert] at hp; subst hp; exact ha
  | cons q rest ih =>
    obtain ⟨k', a'⟩ := q
    have hq : countOk a' = true := hM (k', a') (by simp)
    have hrest : AllOk rest := fun p hp => hM p (by simp [hp])
    simp only [upsert]
    by_cases hk : k' = k
    · simp only [hk, if_true]
      intro p hp
      rcases List.mem_cons.mp hp with h | h
      · subst h; exact countOk_combine _ _ hq ha
      · exact hrest p h
    · simp only [hk, if_false]
      intro p hp
      rcases List.mem_cons.mp hp with h | h
      · subst h; exact hq
      · exact ih hrest p h

theorem allOk_combineG {κ : Type} [DecidableEq κ] (A B : List (κ × EAgg))
    (hA : AllOk A) (hB : AllOk B) : AllOk (combineG EAgg.combine A B) := by
  unfold combineG
  induction B generalizing A with
  | nil => simpa using hA
  | cons p rest ih =>
    simp only [List.foldl_cons]
    exact ih _ (allOk_upsert A p.1 p.2 hA (hB p (by simp))) (fun q hq => hB q (by simp [hq]))

theorem allOk_nil {κ : Type} : AllOk ([] : List (κ × EAgg)) := fun _ h => by simp at h

theorem allOk_relabel {κ κ' : Type} (g : κ → κ') (M : List (κ × EAgg)) (hM : AllOk M) :
    AllOk (relabel g M) := by
  intro p hp
  simp only [relabel, List.mem_map] at hp
  obtain ⟨q, hq, rfl⟩ := hp
  exact hM q hq

theorem allOk_regroupG {κ : Type} [DecidableEq κ] (l : List (κ × EAgg)) (h : AllOk l) :
    AllOk (regroupG EAgg.combine l) := allOk_combineG [] l allOk_nil h

theorem allOk_extractKeyed {κ : Type} [DecidableEq κ] (l : List (κ × Rec)) : AllOk (extractKeyed l) := by
  have h : ∀ (M : List (κ × EAgg)), AllOk M →
      AllOk (l.foldl (fun m p => upsert EAgg.combine m p.1 (single p.2)) M) := by
    induction l with
    | nil => intro M hM; simpa using hM
    | cons p rest ih =>
      intro M hM
      simp only [List.foldl_cons]
      exact ih _ (allOk_upsert M p.1 (single p.2) hM (countOk_single p.2))
  exact h [] allOk_nil

/-- every endpoint and consumer entry of an aggregation satisfies `count = Σ status counts` -/
def AggOk (A : Agg) : Prop := AllOk A.endpoints ∧ AllOk A.consumers

theorem aggOk_empty : AggOk {} := ⟨allOk_nil, allOk_nil⟩

theorem aggOk_extract (f : String → String) (rs : List Rec) : AggOk (extractAgg f rs) :=
  ⟨allOk_extractKeyed _, allOk_extractKeyed _⟩

theorem aggOk_combine (A B : Agg) (hA : AggOk A) (hB : AggOk B) : AggOk (A.combine B) :=
  ⟨allOk_combineG _ _ hA.1 hB.1, allOk_combineG _ _ hA.2 hB.2⟩

theorem aggOk_rekey (f : String → String) (A : Agg) (hA : AggOk A) : AggOk (A.rekey f) :=
  ⟨allOk_regroupG _ (allOk_relabel _ _ hA.1), allOk_regroupG _ (allOk_relabel _ _ hA.2)⟩

/-! ### aggregation level -/

theorem AggEq.refl (A : Agg) : AggEq A A := ⟨fun _ => rfl, fun _ => rfl, fun _ => rfl⟩
theorem AggEq.symm {A B : Agg} (h : AggEq A B) : AggEq B A :=
  ⟨fun P => (h.1 P).symm, fun P => (h.2.1 P).symm, fun P => (h.2.2 P).symm⟩
theorem AggEq.trans {A B C : Agg} (h : AggEq A B) (g : AggEq B C) : AggEq A C :=
  ⟨fun P => (h.1 P).trans (g.1 P), fun P => (h.2.1 P).trans (g.2.1 P), fun P => (h.2.2 P).trans (g.2.2 P)⟩

theorem extractAgg_eq_bag (f : String → String) (rs : List Rec) : AggEq (extractAgg f rs) (bagAgg f rs) :=
  ⟨fun P => by simp [extractAgg, bagAgg, sem_extractKeyed, List.map_map, Function.comp_def],
   fun P => by simp [extractAgg, bagAgg, sem_extractKeyed, List.map_map, Function.comp_def],
   fun P => by simp [extractAgg, bagAgg, isem_extractI]⟩

theorem combine_congr {A A' B B' : Agg} (h : AggEq A A') (g : AggEq B B') :
    AggEq (A.combine B) (A'.combine B') :=
  ⟨fun P => by simp [Agg.combine, sem_combineG, h.1 P, g.1 P],
   fun P => by simp [Agg.combine, sem_combineG, h.2.1 P, g.2.1 P],
   fun P => by simp [Agg.combine, isem_combineG, h.2.2 P, g.2.2 P]⟩

theorem bagAgg_append (f : String → String) (xs ys : List Rec) :
    AggEq (bagAgg f (xs ++ ys)) ((bagAgg f xs).combine (bagAgg f ys)) :=
  ⟨fun P => by simp [bagAgg, Agg.combine, sem_combineG, sem_append],
   fun P => by simp [bagAgg, Agg.combine, sem_combineG, sem_append],
   fun P => by simp [bagAgg, Agg.combine, isem_combineG, isem_append]⟩

theorem sem_rekeyE (f : String → String) (M : EMap) (P : Key → Bool) :
    sem (rekeyE f M) P = sem M (fun k => P (k.1, f k.2)) := by
  simp [rekeyE, sem_regroupG, sem_relabel]

theorem sem_rekeyC (f : String → String) (M : CMap) (P : CKey → Bool) :
    sem (rekeyC f M) P = sem M (fun k => P (k.1, (k.2.1, f k.2.2))) := by
  simp [rekeyC, sem_regroupG, sem_relabel]

theorem rekey_congr (f : String → String) {A B : Agg} (h : AggEq A B) : AggEq (A.rekey f) (B.rekey f) :=
  ⟨fun P => by simp [Agg.rekey, sem_rekeyE, h.1],
   fun P => by simp [Agg.rekey, sem_rekeyC, h.2.1],
   fun P => by simp [Agg.rekey, h.2.2 P]⟩

/-- re-keying the reference attribution composes the key functions -/
theorem rekey_bagAgg (f g : String → String) (rs : List Rec) :
    AggEq ((bagAgg f rs).rekey g) (bagAgg (fun u => g (f u)) rs) :=
  ⟨fun P => by
      simp only [Agg.rekey, bagAgg, sem_rekeyE]
      induction rs with
      | nil => rfl
      | cons r rest ih => simp only [List.map_cons, sem_cons, keyOf] at ih ⊢; rw [ih],
   fun P => by
      simp only [Agg.rekey, bagAgg, sem_rekeyC]
      induction rs with
      | nil => rfl
      | cons r rest ih => simp only [List.map_cons, sem_cons, keyOf] at ih ⊢; rw [ih],
   fun P => rfl⟩

/-- the reference attribution depends on the normaliser only through the URLs that occur -/
theorem bagAgg_congr (f g : String → String) (rs : List Rec) (h : ∀ r ∈ rs, f r.url = g r.url) :
    bagAgg f rs = bagAgg g rs := by
  have e : ∀ r ∈ rs, keyOf f r = keyOf g r := fun r hr => by simp [keyOf, h r hr]
  simp only [bagAgg]
  congr 1
  · exact List.map_congr_left fun r hr => by rw [e r hr]
  · exact List.map_congr_left fun r hr => by rw [e r hr]


/-! ### the pipeline -/

theorem external_append (a b : List Rec) : external (a ++ b) = external a ++ external b := by
  simp [external]

theorem urlsOf_append (a b : List Rec) : urlsOf (a ++ b) = urlsOf a ++ urlsOf b := by
  simp [urlsOf, external_append]

theorem mem_urlsOf {r : Rec} {rs : List Rec} (h : r ∈ external rs) : r.url ∈ urlsOf rs := by
  simp only [urlsOf, List.mem_map]; exact ⟨r, h, rfl⟩

def Inv {τ : Type} (N : Normaliser τ) (T0 : τ) (prev : List Rec) (s : τ × Agg) : Prop :=
  s.1 = N.learn T0 (urlsOf prev) ∧ AggEq s.2 (bagAgg (N.norm s.1) (external prev))

theorem step_inv {τ : Type} (N : Normaliser τ) (T0 : τ) (L : Laws N T0) (prev b : List Rec) (s : τ × Agg)
    (h : Inv N T0 prev s) : Inv N T0 (prev ++ b) (step N s.1 s.2 b) := by
  obtain ⟨T, A⟩ := s
  obtain ⟨hT, hA⟩ := h
  simp only at hT hA
  by_cases he : b = []
  · subst he
    simp only [step, List.isEmpty_nil, if_true, List.append_nil]
    exact ⟨hT, hA⟩
  · have hne : b.isEmpty = false := by cases b <;> simp_all
    simp only [step, hne, Bool.false_eq_true, if_false]
    have hT' : N.learn T (List.map (fun r => r.url) (external b)) = N.learn T0 (urlsOf (prev ++ b)) := by
      rw [hT, L.learn_append, urlsOf_append]; rfl
    refine ⟨hT', ?_⟩
    simp only
    -- the old aggregation, re-keyed or not, is the reference attribution under the new normaliser
    have hA1 : AggEq (if N.conv T (List.map (fun r => r.url) (external b)) = true
                        then A.rekey (N.norm (N.learn T (List.map (fun r => r.url) (external b)))) else A)
        (bagAgg (N.norm (N.learn T (List.map (fun r => r.url) (external b)))) (external prev)) := by
      rw [hT']
      by_cases hc : N.conv T (List.map (fun r => r.url) (external b)) = true
      · simp only [hc, if_true]
        refine (rekey_congr _ hA).trans ((rekey_bagAgg _ _ _).trans ?_)
        rw [bagAgg_congr]
        · exact AggEq.refl _
        · intro r hr
          rw [hT, urlsOf_append]
          exact L.norm_factor _ _ _ (mem_urlsOf hr)
      · simp only [hc, Bool.false_eq_true, if_false]
        refine hA.trans ?_
        rw [bagAgg_congr]
        · exact AggEq.refl _
        · intro r hr
          have hc' : N.conv (N.learn T0 (urlsOf prev)) (urlsOf b) = false := by
            rw [← hT]; simpa [urlsOf] using hc
          rw [hT, urlsOf_append]
          exact (L.conv_sound _ _ _ (mem_urlsOf hr) hc').symm
    rw [external_append]
    exact (combine_congr hA1 (extractAgg_eq_bag _ _)).trans (bagAgg_append _ _ _).symm

theorem runBatches_inv {τ : Type} (N : Normaliser τ) (T0 : τ) (L : Laws N T0) (bs : List (List Rec))
    (prev : List Rec) (s : τ × Agg) (h : Inv N T0 prev s) :
    Inv N T0 (prev ++ bs.flatten) (runBatches N s bs) := by
  induction bs generalizing prev s with
  | nil => simpa [runBatches] using h
  | cons b rest ih =>
    simp only [runBatches, List.flatten_cons, ← List.append_assoc]
    exact ih (prev ++ b) _ (step_inv N T0 L prev b s h)

theorem inv_init {τ : Type} (N : Normaliser τ) (T0 : τ) (L : Laws N T0) : Inv N T0 [] (T0, {}) := by
  refine ⟨?_, ?_⟩
  · simp [urlsOf, external, L.learn_nil]
  · exact ⟨fun _ => rfl, fun _ => rfl, fun _ => rfl⟩

section Keys
variable {κ κ' α β : Type} [DecidableEq κ]

theorem keys_upsert (comb : α → α → α) (M : List (κ × α)) (k : κ) (a : α) :
    (upsert comb M k a).map Prod.fst =
      if k ∈ M.map Prod.fst then M.map Prod.fst else M.map Prod.fst ++ [k] := by
  induction M with
  | nil => simp [upsert]
  | cons p rest ih =>
    obtain ⟨k', a'⟩ := p
    simp only [upsert]
    by_cases hk : k' = k
    · subst hk; simp
    · simp only [hk, if_false, List.map_cons, ih, List.mem_cons]
      have : ¬ k = k' := fun h => hk h.symm
      by_cases hm : k ∈ rest.map Prod.fst <;> simp [hm, this]

theorem keys_assign (M : List (κ × α)) (k : κ) (a : α) :
    (assign M k a).map Prod.fst =
      if k ∈ M.map Prod.fst then M.map Prod.fst else M.map Prod.fst ++ [k] := by
  induction M with
  | nil => simp [assign]
  | cons p rest ih =>
    obtain ⟨k', a'⟩ := p
    simp only [assign]
    by_cases hk : k' = k
    · subst hk; simp
    · simp only [hk, if_false, List.map_cons, ih, List.mem_cons]
      have : ¬ k = k' := fun h => hk h.symm
      by_cases hm : k ∈ rest.map Prod.fst <;> simp [hm, this]

omit [DecidableEq κ] in
theorem nodup_snoc {l : List κ} {k : κ} (h : l.Nodup) (hk : k ∉ l) : (l ++ [k]).Nodup := by
  rw [List.nodup_append]
  refine ⟨h, by simp, ?_⟩
  intro a ha b hb
  simp at hb; subst hb
  exact fun e => hk (e ▸ ha)

theorem nodup_upsert (comb : α → α → α) (M : List (κ × α)) (k : κ) (a : α)
    (h : (M.map Prod.fst).Nodup) : ((upsert comb M k a).map Prod.fst).Nodup := by
  rw [keys_upsert]
  by_cases hm : k ∈ M.map Prod.fst
  · simpa [hm] using h
  · simp only [hm, if_false]; exact nodup_snoc h hm

theorem nodup_assign (M : List (κ × α)) (k : κ) (a : α)
    (h : (M.map Prod.fst).Nodup) : ((assign M k a).map Prod.fst).Nodup := by
  rw [keys_assign]
  by_cases hm : k ∈ M.map Prod.fst
  · simpa [hm] using h
  · simp only [hm, if_false]; exact nodup_snoc h hm

theorem nodup_combineG (comb : α → α → α) (A B : List (κ × α))
    (h : (A.map Prod.fst).Nodup) : ((combineG comb A B).map Prod.fst).Nodup := by
  unfold combineG
  induction B generalizing A with
  | nil => simpa using h
  | cons p rest ih => simp only [List.foldl_cons]; exact ih _ (nodup_upsert comb A p.1 p.2 h)

theorem nodup_regroupG (comb : α → α → α) (l : List (κ × α)) :
    ((regroupG comb l).map Prod.fst).Nodup := nodup_combineG comb [] l (by simp)

theorem nodup_extractKeyed (l : List (κ × Rec)) : ((extractKeyed l).map Prod.fst).Nodup := by
  have h : ∀ (M : List (κ × EAgg)), (M.map Prod.fst).Nodup →
      ((l.foldl (fun m p => upsert EAgg.combine m p.1 (single p.2)) M).map Prod.fst).Nodup := by
    induction l with
    | nil => intro M hM; simpa using hM
    | cons p rest ih => intro M hM; simp only [List.foldl_cons]; exact ih _ (nodup_upsert _ M p.1 _ hM)
  exact h [] (by simp)

theorem assign_of_not_mem (M : List (κ × α)) (k : κ) (a : α) (h : k ∉ M.map Prod.fst) :
    assign M k a = M ++ [(k, a)] := by
  induction M with
  | nil => rfl
  | cons p rest ih =>
    obtain ⟨k', a'⟩ := p
    simp only [List.map_cons, List.mem_cons, not_or] at h
    have hk : ¬ k' = k := fun e => h.1 e.symm
    simp only [assign, hk, if_false, List.cons_append, ih h.2]

theorem foldl_assign_of_nodup (l acc : List (κ × α)) (h : ((acc ++ l).map Prod.fst).Nodup) :
    l.foldl (fun m p => assign m p.1 p.2) acc = acc ++ l := by
  induction l generalizing acc with
  | nil => simp
  | cons p rest ih =>
    simp only [List.foldl_cons]
    have hp : p.1 ∉ acc.map Prod.fst := by
      simp only [List.map_append, List.map_cons, List.nodup_append] at h
      intro hm
      exact h.2.2 _ hm p.1 (by simp) rfl
    rw [assign_of_not_mem acc p.1 p.2 hp]
    have h' : (((acc ++ [(p.1, p.2)]) ++ rest).map Prod.fst).Nodup := by
      simpa [List.append_assoc] using h
    rw [ih _ h']
    simp [List.append_assoc]

theorem assignAll_of_nodup (l : List (κ × α)) (h : (l.map Prod.fst).Nodup) : assignAll l = l := by
  simpa [assignAll] using foldl_assign_of_nodup l [] (by simpa using h)

theorem nodup_assignAll (l : List (κ × α)) : ((assignAll l).map Prod.fst).Nodup := by
  have h : ∀ (M : List (κ × α)), (M.map Prod.fst).Nodup →
      ((l.foldl (fun m p => assign m p.1 p.2) M).map Prod.fst).Nodup := by
    induction l with
    | nil => intro M hM; simpa using hM
    | cons p rest ih => intro M hM; simp only [List.foldl_cons]; exact ih _ (nodup_assign M p.1 p.2 hM)
  exact h [] (by simp)

theorem nodup_map_of_inj {l : List β} (f : β → κ') (h : l.Nodup)
    (inj : ∀ a ∈ l, ∀ b ∈ l, f a = f b → a = b) : (l.map f).Nodup := by
  induction l with
  | nil => simp
  | cons x rest ih =>
    rw [List.nodup_cons] at h
    simp only [List.map_cons, List.nodup_cons, List.mem_map, not_exists, not_and]
    refine ⟨?_, ih h.2 (fun a ha b hb => inj a (by simp [ha]) b (by simp [hb]))⟩
    intro y hy e
    have := inj y (by simp [hy]) x (by simp) e
    exact h.1 (this ▸ hy)

end Keys

/-! ### persist / restore -/

theorem nodupKeys_restore (p : Persisted) : NodupKeys (restore p) :=
  ⟨nodup_assignAll _, nodup_assignAll _, nodup_assignAll _⟩

/-- Under the explicit guards (unique keys — true of every Go map —, endpoint keys that survive the
    `METHOD:::URL` split) reading back what was written yields the aggregation with times truncated to seconds. -/
theorem restore_persist_floor (A : Agg) (hn : NodupKeys A) (hk : KeysOK A) :
    restore (persist A) = floorAgg A := by
  obtain ⟨hne, hnc, hni⟩ := hn
  obtain ⟨hke, hkc⟩ := hk
  -- endpoints
  have injE : ∀ a ∈ A.endpoints.map Prod.fst, ∀ b ∈ A.endpoints.map Prod.fst, dumpKey a = dumpKey b → a = b := by
    intro a ha b hb e
    simp only [List.mem_map] at ha hb
    obtain ⟨pa, hpa, rfl⟩ := ha
    obtain ⟨pb, hpb, rfl⟩ := hb
    rw [← hke pa hpa, ← hke pb hpb, e]
  have e1 : assignAll (A.endpoints.map fun p => (dumpKey p.1, toSec p.2))
      = A.endpoints.map fun p => (dumpKey p.1, toSec p.2) := by
    apply assignAll_of_nodup
    have := nodup_map_of_inj dumpKey hne injE
    simpa [List.map_map, Function.comp_def] using this
  have e2 : assignAll ((A.endpoints.map fun p => (dumpKey p.1, toSec p.2)).map fun e => (restoreKey e.1, toMs e.2))
      = A.endpoints.map fun p => (p.1, toMs (toSec p.2)) := by
    have hm : ((A.endpoints.map fun p => (dumpKey p.1, toSec p.2)).map fun e => (restoreKey e.1, toMs e.2))
        = A.endpoints.map fun p => (p.1, toMs (toSec p.2)) := by
      rw [List.map_map]
      exact List.map_congr_left fun p hp => by simp [Function.comp, hke p hp]
    rw [hm]
    apply assignAll_of_nodup
    simpa [List.map_map, Function.comp_def] using hne
  -- consumers
  have injC : ∀ a ∈ A.consumers.map Prod.fst, ∀ b ∈ A.consumers.map Prod.fst,
      (fun k : CKey => (k.1, dumpKey k.2)) a = (fun k : CKey => (k.1, dumpKey k.2)) b → a = b := by
    intro a ha b hb e
    simp only [List.mem_map] at ha hb
    obtain ⟨pa, hpa, rfl⟩ := ha
    obtain ⟨pb, hpb, rfl⟩ := hb
    simp only [Prod.mk.injEq] at e
    have h2 : pa.1.2 = pb.1.2 := by rw [← hkc pa hpa, ← hkc pb hpb, e.2]
    exact Prod.ext e.1 h2
  have c1 : assignAll (A.consumers.map fun p => ((p.1.1, dumpKey p.1.2), toSec p.2))
      = A.consumers.map fun p => ((p.1.1, dumpKey p.1.2), toSec p.2) := by
    apply assignAll_of_nodup
    have := nodup_map_of_inj (fun k : CKey => (k.1, dumpKey k.2)) hnc injC
    simpa [List.map_map, Function.comp_def] using this
  have c2 : assignAll ((A.consumers.map fun p => ((p.1.1, dumpKey p.1.2), toSec p.2)).map
        fun e => ((e.1.1, restoreKey e.1.2), toMs e.2))
      = A.consumers.map fun p => (p.1, toMs (toSec p.2)) := by
    have hm : ((A.consumers.map fun p => ((p.1.1, dumpKey p.1.2), toSec p.2)).map
          fun e => ((e.1.1, restoreKey e.1.2), toMs e.2))
        = A.consumers.map fun p => (p.1, toMs (toSec p.2)) := by
      rw [List.map_map]
      exact List.map_congr_left fun p hp => by simp [Function.comp, hkc p hp]
    rw [hm]
    apply assignAll_of_nodup
    simpa [List.map_map, Function.comp_def] using hnc
  -- interceptors
  have i1 : assignAll ((A.interceptors.map fun p => (p.1, p.2 / 1000)).map fun e => (e.1, e.2 * 1000))
      = A.interceptors.map fun p => (p.1, p.2 / 1000 * 1000) := by
    rw [List.map_map]
    apply assignAll_of_nodup
    simpa [List.map_map, Function.comp_def] using hni
  simp only [restore, persist, floorAgg, e1, e2, c1, c2, i1]

theorem map_eq_self {β : Type} (f : β → β) (l : List β) (h : ∀ x ∈ l, f x = x) : l.map f = l := by
  induction l with
  | nil => rfl
  | cons x rest ih => simp [h x (by simp), ih (fun y hy => h y (by simp [hy]))]

theorem floorAgg_of_aligned (A : Agg) (h : TimesAligned A) : floorAgg A = A := by
  obtain ⟨he, hc, hi⟩ := h
  have fl : ∀ a : EAgg, a.minT % 1000 = 0 ∧ a.maxT % 1000 = 0 → toMs (toSec a) = a := by
    intro a ha
    cases a
    simp only [toMs, toSec] at *
    congr <;> omega
  cases A
  simp only [floorAgg] at *
  congr
  · exact map_eq_self _ _ fun p hp => by rw [fl p.2 (he p hp)]
  · exact map_eq_self _ _ fun p hp => by rw [fl p.2 (hc p hp)]
  · exact map_eq_self _ _ fun p hp => by
      have := hi p hp
      apply Prod.ext
      · rfl
      · simp only; omega


/-! ### the `METHOD:::URL` key split (at the FIRST `:::`) -/

theorem splitFirstDelim_cons_ne (c : Char) (xs : List Char) (hc : c ≠ ':') :
    splitFirstDelim (c :: xs) = (splitFirstDelim xs).map fun p => (c :: p.1, p.2) := by
  rw [splitFirstDelim.eq_def]
  split
  · rename_i heq; cases heq
  · rename_i heq; injection heq with e _; exact absurd e hc
  · rename_i heq; injection heq with e1 e2; subst e1 e2; rfl

theorem splitFirstDelim_prefix (m u : List Char) (hm : m.all (· != ':') = true) :
    splitFirstDelim (m ++ ':' :: ':' :: ':' :: u) = some (m, u) := by
  induction m with
  | nil => simp [splitFirstDelim]
  | cons c rest ih =>
    simp only [List.all_cons, Bool.and_eq_true, bne_iff_ne, ne_eq] at hm
    rw [List.cons_append, splitFirstDelim_cons_ne _ _ hm.1, ih hm.2]
    rfl

/-- a key whose method has no `:` survives dump + split, whatever its URL -/
theorem restoreKey_dumpKey (k : Key) (hm : cleanMethod k.1 = true) : restoreKey (dumpKey k) = k := by
  obtain ⟨m, u⟩ := k
  simp only [restoreKey, dumpKey, String.toList_append]
  have : ":::".toList = [':', ':', ':'] := by decide
  rw [this]
  simp only [List.append_assoc, List.cons_append, List.nil_append]
  rw [splitFirstDelim_prefix _ _ hm]
  simp

/-- every endpoint / consumer key carries a method from `ms` -/
def MethodsIn (ms : List String) (A : Agg) : Prop :=
  (∀ p ∈ A.endpoints, p.1.1 ∈ ms) ∧ (∀ p ∈ A.consumers, p.1.2.1 ∈ ms)

theorem keysOK_of_methodsIn (ms : List String) (A : Agg) (h : MethodsIn ms A)
    (hc : ∀ m ∈ ms, cleanMethod m = true) : KeysOK A :=
  ⟨fun p hp => restoreKey_dumpKey _ (hc _ (h.1 p hp)), fun p hp => restoreKey_dumpKey _ (hc _ (h.2 p hp))⟩

section KeyPred
variable {κ κ' : Type} [DecidableEq κ]

theorem forall_keys_upsert (Q : κ → Prop) (M : List (κ × EAgg)) (k : κ) (a : EAgg)
    (hM : ∀ p ∈ M, Q p.1) (hk : Q k) : ∀ p ∈ upsert EAgg.combine M k a, Q p.1 := by
  induction M with
  | nil => intro p hp; simp [upsert] at hp; subst hp; exact hk
  | cons q rest ih =>
    obtain ⟨k', a'⟩ := q
    simp only [upsert]
    by_cases e : k' = k
    · simp only [e, if_true]
      intro p hp
      rcases List.mem_cons.mp hp with h | h
      · subst h; exact hk
      · exact hM p (by simp [h])
    · simp only [e, if_false]
      intro p hp
      rcases List.mem_cons.mp hp with h | h
      · subst h; exact hM (k', a') (by simp)
      · exact ih (fun q hq => hM q (by simp [hq])) p h

theorem forall_keys_combineG (Q : κ → Prop) (A B : List (κ × EAgg))
    (hA : ∀ p ∈ A, Q p.1) (hB : ∀ p ∈ B, Q p.1) : ∀ p ∈ combineG EAgg.combine A B, Q p.1 := by
  unfold combineG
  induction B generalizing A with
  | nil => simpa using hA
  | cons q rest ih =>
    simp only [List.foldl_cons]
    exact ih _ (forall_keys_upsert Q A q.1 q.2 hA (hB q (by simp))) (fun r hr => hB r (by simp [hr]))

theorem forall_keys_extractKeyed (Q : κ → Prop) (l : List (κ × Rec)) (h : ∀ p ∈ l, Q p.1) :
    ∀ p ∈ extractKeyed l, Q p.1 := by
  have g : ∀ (M : List (κ × EAgg)), (∀ p ∈ M, Q p.1) → (∀ p ∈ l, Q p.1) →
      ∀ p ∈ l.foldl (fun m p => upsert EAgg.combine m p.1 (single p.2)) M, Q p.1 := by
    induction l with
    | nil => intro M hM _; simpa using hM
    | cons q rest ih =>
      intro M hM hl
      simp only [List.foldl_cons]
      exact ih (fun r hr => h r (by simp [hr])) _ (forall_keys_upsert Q M q.1 _ hM (hl q (by simp)))
        (fun r hr => hl r (by simp [hr]))
  exact g [] (by simp) h

theorem forall_keys_rekey (Q : κ → Prop) (g : κ → κ) (M : List (κ × EAgg))
    (h : ∀ p ∈ M, Q (g p.1)) : ∀ p ∈ regroupG EAgg.combine (relabel g M), Q p.1 := by
  apply forall_keys_combineG Q [] _ (by simp)
  intro p hp
  simp only [relabel, List.mem_map] at hp
  obtain ⟨q, hq, rfl⟩ := hp
  exact h q hq

end KeyPred

theorem methodsIn_step {τ : Type} (N : Normaliser τ) (T : τ) (A : Agg) (b : List Rec) (ms : List String)
    (h : MethodsIn ms A) (hb : ∀ r ∈ external b, r.method ∈ ms) : MethodsIn ms (step N T A b).2 := by
  unfold step
  by_cases he : b.isEmpty = true
  · simpa [he] using h
  · simp only [he, Bool.false_eq_true, if_false]
    have h1 : MethodsIn ms (if N.conv T (List.map (fun r => r.url) (external b)) = true
        then A.rekey (N.norm (N.learn T (List.map (fun r => r.url) (external b)))) else A) := by
      by_cases hc : N.conv T (List.map (fun r => r.url) (external b)) = true
      · simp only [hc, if_true]
        exact ⟨forall_keys_rekey (fun k : Key => k.1 ∈ ms) _ _ (fun p hp => h.1 p hp),
               forall_keys_rekey (fun k : CKey => k.2.1 ∈ ms) _ _ (fun p hp => h.2 p hp)⟩
      · simpa [hc] using h
    refine ⟨forall_keys_combineG (fun k : Key => k.1 ∈ ms) _ _ h1.1 ?_,
            forall_keys_combineG (fun k : CKey => k.2.1 ∈ ms) _ _ h1.2 ?_⟩
    · apply forall_keys_extractKeyed (fun k : Key => k.1 ∈ ms)
      intro p hp
      simp only [List.mem_map] at hp
      obtain ⟨r, hr, rfl⟩ := hp
      exact hb r hr
    · apply forall_keys_extractKeyed (fun k : CKey => k.2.1 ∈ ms)
      intro p hp
      simp only [List.mem_map] at hp
      obtain ⟨r, hr, rfl⟩ := hp
      exact hb r hr

theorem methodsIn_floorAgg (ms : List String) (A : Agg) (h : MethodsIn ms A) : MethodsIn ms (floorAgg A) := by
  constructor
  · intro p hp
    simp only [floorAgg, List.mem_map] at hp
    obtain ⟨q, hq, rfl⟩ := hp
    exact h.1 q hq
  · intro p hp
    simp only [floorAgg, List.mem_map] at hp
    obtain ⟨q, hq, rfl⟩ := hp
    exact h.2 q hq

theorem methodsIn_empty (ms : List String) : MethodsIn ms {} := ⟨by simp, by simp⟩

/-! ### totals (law-free) -/

theorem SecEq.refl (a : Sem) : SecEq a a := ⟨rfl, rfl, rfl, fun _ => rfl, rfl, rfl⟩
theorem SecEq.trans {a b c : Sem} (h : SecEq a b) (g : SecEq b c) : SecEq a c :=
  ⟨h.1.trans g.1, h.2.1.trans g.2.1, h.2.2.1.trans g.2.2.1, fun x => (h.2.2.2.1 x).trans (g.2.2.2.1 x),
   h.2.2.2.2.1.trans g.2.2.2.2.1, h.2.2.2.2.2.trans g.2.2.2.2.2⟩
theorem SecEq.of_eq {a b : Sem} (h : a = b) : SecEq a b := h ▸ SecEq.refl a

theorem min_div (x y : Nat) : Nat.min x y / 1000 = Nat.min (x / 1000) (y / 1000) := by
  show min x y / 1000 = min (x / 1000) (y / 1000)
  simp only [Nat.min_def]; split <;> split <;> omega

theorem max_div (x y : Nat) : Nat.max x y / 1000 = Nat.max (x / 1000) (y / 1000) := by
  show max x y / 1000 = max (x / 1000) (y / 1000)
  simp only [Nat.max_def]; split <;> split <;> omega

theorem omin_map_div (a b : Option Nat) :
    (omin a b).map (· / 1000) = omin (a.map (· / 1000)) (b.map (· / 1000)) := by
  cases a <;> cases b <;> simp [omin, min_div]

theorem omax_map_div (a b : Option Nat) :
    (omax a b).map (· / 1000) = omax (a.map (· / 1000)) (b.map (· / 1000)) := by
  cases a <;> cases b <;> simp [omax, max_div]

theorem SecEq.add {a a' b b' : Sem} (h : SecEq a a') (g : SecEq b b') : SecEq (a.add b) (a'.add b') := by
  obtain ⟨h1, h2, h3, h4, h5, h6⟩ := h
  obtain ⟨g1, g2, g3, g4, g5, g6⟩ := g
  refine ⟨?_, ?_, ?_, ?_, ?_, ?_⟩
  · simp [Sem.add, h1, g1]
  · simp [Sem.add, h2, g2]
  · simp [Sem.add, h3, g3]
  · intro c; simp [Sem.add, h4 c, g4 c]
  · simp only [Sem.add, omin_map_div, h5, g5]
  · simp only [Sem.add, max_div, h6, g6]

/-- changing every value by a function that preserves the summary up to seconds -/
theorem secEq_sem_map {κ : Type} (g : EAgg → EAgg) (hg : ∀ a, SecEq (semOf (g a)) (semOf a))
    (M : List (κ × EAgg)) (P : κ → Bool) :
    SecEq (sem (M.map fun p => (p.1, g p.2)) P) (sem M P) := by
  induction M with
  | nil => exact SecEq.refl _
  | cons p rest ih =>
    simp only [List.map_cons, sem_cons]
    refine SecEq.add ?_ ih
    by_cases h : P p.1 = true
    · simp only [h, if_true]; exact hg p.2
    · simp only [h]; exact SecEq.refl _

theorem secEq_floor (a : EAgg) : SecEq (semOf (toMs (toSec a))) (semOf a) := by
  refine ⟨rfl, rfl, rfl, fun _ => rfl, ?_, ?_⟩
  · simp [semOf, toMs, toSec]
  · simp [semOf, toMs, toSec]

theorem isem_map_floor {κ : Type} (M : List (κ × Nat)) (P : κ → Bool) :
    (isem (M.map fun p => (p.1, p.2 / 1000 * 1000)) P).map (· / 1000) = (isem M P).map (· / 1000) := by
  induction M with
  | nil => rfl
  | cons p rest ih =>
    simp only [List.map_cons, isem_cons, omax_map_div, ih]
    by_cases h : P p.1 = true <;> simp [h]

/-- the same one-record aggregates under two key functions that the predicates cannot tell apart -/
theorem sem_map_keys_congr {κ κ' : Type} (rs : List Rec) (K : Rec → κ) (K' : Rec → κ')
    (P : κ → Bool) (P' : κ' → Bool) (h : ∀ r ∈ rs, P (K r) = P' (K' r)) :
    sem (rs.map fun r => (K r, single r)) P = sem (rs.map fun r => (K' r, single r)) P' := by
  induction rs with
  | nil => rfl
  | cons r rest ih =>
    simp only [List.map_cons, sem_cons]
    rw [h r (by simp), ih (fun x hx => h x (by simp [hx]))]

theorem totals_floor (A : Agg) (rs : List Rec) (h : Totals A rs) : Totals (floorAgg A) rs :=
  ⟨fun Q => (secEq_sem_map _ secEq_floor _ _).trans (h.1 Q),
   fun Q => (secEq_sem_map _ secEq_floor _ _).trans (h.2.1 Q),
   fun P => by simp only [floorAgg]; rw [isem_map_floor]; exact h.2.2 P⟩

theorem totals_empty : Totals {} [] :=
  ⟨fun _ => SecEq.refl _, fun _ => SecEq.refl _, fun _ => rfl⟩

theorem nodupKeys_empty : NodupKeys {} := ⟨by simp, by simp, by simp⟩

theorem nodupKeys_step {τ : Type} (N : Normaliser τ) (T : τ) (A : Agg) (b : List Rec) (h : NodupKeys A) :
    NodupKeys (step N T A b).2 := by
  unfold step
  by_cases he : b.isEmpty = true
  · simpa [he] using h
  · simp only [he, Bool.false_eq_true, if_false]
    have h1 : NodupKeys (if N.conv T (List.map (fun r => r.url) (external b)) = true
        then A.rekey (N.norm (N.learn T (List.map (fun r => r.url) (external b)))) else A) := by
      by_cases hc : N.conv T (List.map (fun r => r.url) (external b)) = true
      · simp only [hc, if_true]
        exact ⟨nodup_regroupG _ _, nodup_regroupG _ _, h.2.2⟩
      · simpa [hc] using h
    exact ⟨nodup_combineG _ _ _ h1.1, nodup_combineG _ _ _ h1.2.1, nodup_combineG _ _ _ h1.2.2⟩

theorem totals_step {τ : Type} (N : Normaliser τ) (T : τ) (A : Agg) (b prev : List Rec)
    (h : Totals A prev) :
    Totals (step N T A b).2 (prev ++ external b) := by
  unfold step
  by_cases he : b.isEmpty = true
  · have : b = [] := by cases b <;> simp_all
    subst this
    simpa [external] using h
  · have hne : b.isEmpty = false := by simpa using he
    simp only [hne, Bool.false_eq_true, if_false]
    -- re-keying does not move anything across methods / consumer tags
    have hA1 : Totals (if N.conv T (List.map (fun r => r.url) (external b)) = true
          then A.rekey (N.norm (N.learn T (List.map (fun r => r.url) (external b)))) else A) prev := by
      by_cases hc : N.conv T (List.map (fun r => r.url) (external b)) = true
      · simp only [hc, if_true]
        exact ⟨fun Q => by simpa [Agg.rekey, sem_rekeyE] using h.1 Q,
               fun Q => by simpa [Agg.rekey, sem_rekeyC] using h.2.1 Q,
               fun P => by simpa [Agg.rekey] using h.2.2 P⟩
      · simpa [hc] using h
    refine ⟨fun Q => ?_, fun Q => ?_, fun P => ?_⟩
    · simp only [Agg.combine, extractAgg, sem_combineG, sem_extractKeyed, singles, List.map_append, sem_append,
        List.map_map, Function.comp_def]
      refine SecEq.add (by simpa [singles] using hA1.1 Q) (SecEq.of_eq ?_)
      exact sem_map_keys_congr _ _ _ _ _ (fun r _ => rfl)
    · simp only [Agg.combine, extractAgg, sem_combineG, sem_extractKeyed, singlesC, List.map_append, sem_append,
        List.map_map, Function.comp_def]
      refine SecEq.add (by simpa [singlesC] using hA1.2.1 Q) (SecEq.of_eq ?_)
      exact sem_map_keys_congr _ _ _ _ _ (fun r _ => rfl)
    · simp only [Agg.combine, extractAgg, isem_combineG, isem_extractI, singlesI, List.map_append, isem_append,
        omax_map_div]
      have := hA1.2.2 P
      simp only [singlesI] at this
      rw [this]

/-- what links the state file to the in-memory aggregation -/
def FileRel {τ : Type} (s : St τ) : Prop := s.file = persist s.agg ∨ s.agg = restore s.file

theorem external_recsOf_batch (rs : List Rec) (rest : List Seg) :
    external (recsOf (Seg.batch rs :: rest)) = external rs ++ external (recsOf rest) := by
  simp [recsOf, external_append]

theorem external_recsOf_batchNoDump (rs : List Rec) (rest : List Seg) :
    external (recsOf (Seg.batchNoDump rs :: rest)) = external rs ++ external (recsOf rest) := by
  simp [recsOf, external_append]

theorem runSegs_totals {τ : Type} (N : Normaliser τ) (T0 : τ) (segs : List Seg) (s : St τ) (prev : List Rec)
    (f : Bool) (ms : List String) (hc : ∀ m ∈ ms, cleanMethod m = true) (hin : MethodsIn ms s.agg)
    (hrecs : ∀ r ∈ external (recsOf segs), r.method ∈ ms)
    (ht : Totals s.agg prev) (hn : NodupKeys s.agg) (hr : f = true → FileRel s)
    (hrf : RestartsFresh f segs) :
    Totals (runSegs N T0 s segs).agg (prev ++ external (recsOf segs)) ∧
    (freshAfter f segs = true → Totals (restore (runSegs N T0 s segs).file) (prev ++ external (recsOf segs))) := by
  induction segs generalizing s prev f with
  | nil =>
    simp only [runSegs, recsOf, external, List.filter_nil, List.append_nil, freshAfter]
    refine ⟨ht, fun hf => ?_⟩
    rcases hr hf with hr | hr
    · rw [hr, restore_persist_floor _ hn (keysOK_of_methodsIn ms _ hin hc)]; exact totals_floor _ _ ht
    · rw [← hr]; exact ht
  | cons seg rest ih =>
    cases seg with
    | batch rs =>
      have hrs : ∀ r ∈ external rs, r.method ∈ ms := fun r hr' => hrecs r (by
        rw [external_recsOf_batch]; exact List.mem_append_left _ hr')
      have hrest : ∀ r ∈ external (recsOf rest), r.method ∈ ms := fun r hr' => hrecs r (by
        rw [external_recsOf_batch]; exact List.mem_append_right _ hr')
      simp only [runSegs, external_recsOf_batch, ← List.append_assoc, freshAfter]
      simp only [RestartsFresh] at hrf
      have hstep := totals_step N s.tree s.agg rs prev ht
      have hnod := nodupKeys_step N s.tree s.agg rs hn
      have hmeth := methodsIn_step N s.tree s.agg rs ms hin hrs
      by_cases he : rs.isEmpty = true
      · have hs : stepS N s rs = s := by simp [stepS, he]
        have : rs = [] := by cases rs <;> simp_all
        subst this
        rw [hs]
        simp only [List.isEmpty_nil, Bool.not_true, Bool.or_false] at hrf ⊢
        simpa [external] using ih s prev f hin hrest ht hn hr hrf
      · have hs : stepS N s rs = { tree := (step N s.tree s.agg rs).1, agg := (step N s.tree s.agg rs).2,
                                    file := persist (step N s.tree s.agg rs).2 } := by
          simp [stepS, he]
        have hb : (f || !rs.isEmpty) = true := by simp [he]
        rw [hs]
        rw [hb] at hrf ⊢
        exact ih _ _ true hmeth hrest hstep hnod (fun _ => Or.inl rfl) hrf
    | batchNoDump rs =>
      have hrs : ∀ r ∈ external rs, r.method ∈ ms := fun r hr' => hrecs r (by
        rw [external_recsOf_batchNoDump]; exact List.mem_append_left _ hr')
      have hrest : ∀ r ∈ external (recsOf rest), r.method ∈ ms := fun r hr' => hrecs r (by
        rw [external_recsOf_batchNoDump]; exact List.mem_append_right _ hr')
      simp only [runSegs, external_recsOf_batchNoDump, ← List.append_assoc, freshAfter]
      simp only [RestartsFresh] at hrf
      have hstep := totals_step N s.tree s.agg rs prev ht
      have hnod := nodupKeys_step N s.tree s.agg rs hn
      have hmeth := methodsIn_step N s.tree s.agg rs ms hin hrs
      by_cases he : rs.isEmpty = true
      · have hs : stepNoDump N s rs = s := by simp [stepNoDump, he]
        have : rs = [] := by cases rs <;> simp_all
        subst this
        rw [hs]
        simp only [List.isEmpty_nil, Bool.and_true] at hrf ⊢
        simpa [external] using ih s prev f hin hrest ht hn hr hrf
      · have hs : stepNoDump N s rs = { tree := (step N s.tree s.agg rs).1, agg := (step N s.tree s.agg rs).2,
                                         file := s.file } := by
          simp [stepNoDump, he]
        have hb : (f && rs.isEmpty) = false := by simp [he]
        rw [hs]
        rw [hb] at hrf ⊢
        exact ih _ _ false hmeth hrest hstep hnod (fun h => by cases h) hrf
    | restart =>
      simp only [RestartsFresh] at hrf
      obtain ⟨hf, hrf'⟩ := hrf
      simp only [runSegs, recsOf, freshAfter] at hrecs ⊢
      rcases hr hf with hr | hr
      · have e : restore s.file = floorAgg s.agg := by
          rw [hr]; exact restore_persist_floor _ hn (keysOK_of_methodsIn ms _ hin hc)
        refine ih _ prev true ?_ hrecs ?_ (nodupKeys_restore _) (fun _ => Or.inr rfl) hrf'
        · simp only [e]; exact methodsIn_floorAgg ms _ hin
        · simp only [e]; exact totals_floor _ _ ht
      · refine ih _ prev true ?_ hrecs ?_ (nodupKeys_restore _) (fun _ => Or.inr rfl) hrf'
        · simp only [← hr]; exact hin
        · simp only [← hr]; exact ht
    | treeReset =>
      simp only [RestartsFresh] at hrf
      simp only [runSegs, recsOf, freshAfter] at hrecs ⊢
      exact ih { s with tree := T0 } prev f hin hrecs ht hn
        (fun h => by rcases hr h with e | e
                     · exact Or.inl e
                     · exact Or.inr e) hrf

/-! ### the invariant `count = Σ status` along whole runs (restarts included) -/

section Mem
variable {κ α : Type} [DecidableEq κ]

theorem mem_assign (M : List (κ × α)) (k : κ) (v : α) (p : κ × α) (h : p ∈ assign M k v) :
    p ∈ M ∨ p = (k, v) := by
  induction M with
  | nil => simp [assign] at h; exact Or.inr h
  | cons q rest ih =>
    obtain ⟨k', a'⟩ := q
    simp only [assign] at h
    by_cases hk : k' = k
    · simp only [hk, if_true, List.mem_cons] at h
      rcases h with h | h
      · exact Or.inr h
      · exact Or.inl (by simp [h])
    · simp only [hk, if_false, List.mem_cons] at h
      rcases h with h | h
      · exact Or.inl (by simp [h])
      · rcases ih h with h | h
        · exact Or.inl (by simp [h])
        · exact Or.inr h

theorem mem_foldl_assign (l : List (κ × α)) (p : κ × α) :
    ∀ (M : List (κ × α)), p ∈ l.foldl (fun m q => assign m q.1 q.2) M → p ∈ M ∨ p ∈ l := by
  induction l with
  | nil => intro M hM; exact Or.inl (by simpa using hM)
  | cons q rest ih =>
    intro M hM
    simp only [List.foldl_cons] at hM
    rcases ih (assign M q.1 q.2) hM with h1 | h1
    · rcases mem_assign M q.1 q.2 p h1 with h2 | h2
      · exact Or.inl h2
      · exact Or.inr (by simp [h2])
    · exact Or.inr (by simp [h1])

theorem mem_assignAll (l : List (κ × α)) (p : κ × α) (h : p ∈ assignAll l) : p ∈ l := by
  rcases mem_foldl_assign l p [] h with h | h
  · simp at h
  · exact h

end Mem

theorem countOk_toMs_toSec (a : EAgg) (h : countOk a = true) : countOk (toMs (toSec a)) = true := by
  simpa [countOk, toMs, toSec] using h

theorem aggOk_restore_persist (A : Agg) (h : AggOk A) : AggOk (restore (persist A)) := by
  constructor
  · intro p hp
    have h1 := mem_assignAll _ p hp
    simp only [persist, List.mem_map] at h1
    obtain ⟨e, he, rfl⟩ := h1
    have h2 := mem_assignAll _ e he
    simp only [List.mem_map] at h2
    obtain ⟨q, hq, rfl⟩ := h2
    exact countOk_toMs_toSec _ (h.1 q hq)
  · intro p hp
    have h1 := mem_assignAll _ p hp
    simp only [persist, List.mem_map] at h1
    obtain ⟨e, he, rfl⟩ := h1
    have h2 := mem_assignAll _ e he
    simp only [List.mem_map] at h2
    obtain ⟨q, hq, rfl⟩ := h2
    exact countOk_toMs_toSec _ (h.2 q hq)

theorem aggOk_step {τ : Type} (N : Normaliser τ) (T : τ) (A : Agg) (b : List Rec) (h : AggOk A) :
    AggOk (step N T A b).2 := by
  unfold step
  by_cases he : b.isEmpty = true
  · simpa [he] using h
  · simp only [he, Bool.false_eq_true, if_false]
    refine aggOk_combine _ _ ?_ (aggOk_extract _ _)
    by_cases hc : N.conv T (List.map (fun r => r.url) (external b)) = true
    · simpa [hc] using aggOk_rekey _ A h
    · simpa [hc] using h

theorem stepS_tree {τ : Type} (N : Normaliser τ) (s : St τ) (b : List Rec) :
    (stepS N s b).tree = (step N s.tree s.agg b).1 := by
  unfold stepS step
  by_cases he : b.isEmpty = true <;> simp [he]

theorem stepS_agg {τ : Type} (N : Normaliser τ) (s : St τ) (b : List Rec) :
    (stepS N s b).agg = (step N s.tree s.agg b).2 := by
  unfold stepS
  by_cases he : b.isEmpty = true
  · simp [he, step]
  · simp [he]

theorem stepS_file {τ : Type} (N : Normaliser τ) (s : St τ) (b : List Rec) :
    (stepS N s b).file = s.file ∨ (stepS N s b).file = persist (stepS N s b).agg := by
  unfold stepS
  by_cases he : b.isEmpty = true <;> simp [he]

theorem stepNoDump_tree {τ : Type} (N : Normaliser τ) (s : St τ) (b : List Rec) :
    (stepNoDump N s b).tree = (stepS N s b).tree := by
  unfold stepNoDump stepS
  by_cases he : b.isEmpty = true <;> simp [he]

theorem stepNoDump_agg {τ : Type} (N : Normaliser τ) (s : St τ) (b : List Rec) :
    (stepNoDump N s b).agg = (stepS N s b).agg := by
  unfold stepNoDump stepS
  by_cases he : b.isEmpty = true <;> simp [he]

theorem stepNoDump_file {τ : Type} (N : Normaliser τ) (s : St τ) (b : List Rec) :
    (stepNoDump N s b).file = s.file := by
  unfold stepNoDump
  by_cases he : b.isEmpty = true <;> simp [he]

theorem runSegs_aggOk {τ : Type} (N : Normaliser τ) (T0 : τ) (segs : List Seg) (s : St τ)
    (h : AggOk s.agg) (hf : AggOk (restore s.file)) :
    AggOk (runSegs N T0 s segs).agg ∧ AggOk (restore (runSegs N T0 s segs).file) := by
  induction segs generalizing s with
  | nil => exact ⟨h, hf⟩
  | cons seg rest ih =>
    cases seg with
    | batch rs =>
      simp only [runSegs]
      have ha : AggOk (stepS N s rs).agg := by rw [stepS_agg]; exact aggOk_step N _ _ _ h
      refine ih _ ha ?_
      rcases stepS_file N s rs with e | e
      · rw [e]; exact hf
      · rw [e]; exact aggOk_restore_persist _ ha
    | batchNoDump rs =>
      simp only [runSegs]
      have ha : AggOk (stepNoDump N s rs).agg := by
        rw [stepNoDump_agg, stepS_agg]; exact aggOk_step N _ _ _ h
      exact ih _ ha (by rw [stepNoDump_file]; exact hf)
    | restart =>
      simp only [runSegs]
      exact ih _ hf hf
    | treeReset =>
      simp only [runSegs]
      exact ih { s with tree := T0 } h hf

/-- restart-free runs through `St` are `runBatches` on (tree, aggregation) -/
theorem runSegs_batches {τ : Type} (N : Normaliser τ) (T0 : τ) (bs : List (List Rec)) (s : St τ) :
    ((runSegs N T0 s (bs.map Seg.batch)).tree, (runSegs N T0 s (bs.map Seg.batch)).agg)
      = runBatches N (s.tree, s.agg) bs := by
  induction bs generalizing s with
  | nil => rfl
  | cons b rest ih =>
    simp only [List.map_cons, runSegs, runBatches]
    rw [ih, stepS_tree, stepS_agg]

/-! ### counts and sums of the reference attribution -/

theorem sem_cons_cnt {κ : Type} (p : κ × EAgg) (M : List (κ × EAgg)) (P : κ → Bool) :
    (sem (p :: M) P).cnt = (if P p.1 then p.2.count else 0) + (sem M P).cnt := by
  rw [sem_cons]; by_cases h : P p.1 = true <;> simp [h, Sem.add, Sem.zero, semOf]

theorem sem_cons_sd {κ : Type} (p : κ × EAgg) (M : List (κ × EAgg)) (P : κ → Bool) :
    (sem (p :: M) P).sd = (if P p.1 then p.2.sumDur else 0) + (sem M P).sd := by
  rw [sem_cons]; by_cases h : P p.1 = true <;> simp [h, Sem.add, Sem.zero, semOf]

theorem sem_cons_st {κ : Type} (p : κ × EAgg) (M : List (κ × EAgg)) (P : κ → Bool) :
    (sem (p :: M) P).st = (if P p.1 then p.2.sumTot else 0) + (sem M P).st := by
  rw [sem_cons]; by_cases h : P p.1 = true <;> simp [h, Sem.add, Sem.zero, semOf]

theorem sem_cons_stc {κ : Type} (p : κ × EAgg) (M : List (κ × EAgg)) (P : κ → Bool) (c : Nat) :
    (sem (p :: M) P).stc c = (if P p.1 then stCount p.2.status c else 0) + (sem M P).stc c := by
  rw [sem_cons]; by_cases h : P p.1 = true <;> simp [h, Sem.add, Sem.zero, semOf]

theorem sem_bag_cnt {κ : Type} (rs : List Rec) (K : Rec → κ) (P : κ → Bool) :
    (sem (rs.map fun r => (K r, single r)) P).cnt = (rs.filter fun r => P (K r)).length := by
  induction rs with
  | nil => rfl
  | cons r rest ih =>
    rw [List.map_cons, sem_cons_cnt, ih, List.filter_cons]
    by_cases h : P (K r) = true
    · simp [h, single]; omega
    · simp [h]

theorem sem_bag_sd {κ : Type} (rs : List Rec) (K : Rec → κ) (P : κ → Bool) :
    (sem (rs.map fun r => (K r, single r)) P).sd = ((rs.filter fun r => P (K r)).map (·.dur)).sum := by
  induction rs with
  | nil => rfl
  | cons r rest ih =>
    rw [List.map_cons, sem_cons_sd, ih, List.filter_cons]
    by_cases h : P (K r) = true
    · simp [h, single]
    · simp [h]

theorem sem_bag_st {κ : Type} (rs : List Rec) (K : Rec → κ) (P : κ → Bool) :
    (sem (rs.map fun r => (K r, single r)) P).st = ((rs.filter fun r => P (K r)).map (·.tot)).sum := by
  induction rs with
  | nil => rfl
  | cons r rest ih =>
    rw [List.map_cons, sem_cons_st, ih, List.filter_cons]
    by_cases h : P (K r) = true
    · simp [h, single]
    · simp [h]

theorem sem_bag_stc {κ : Type} (rs : List Rec) (K : Rec → κ) (P : κ → Bool) (c : Nat) :
    (sem (rs.map fun r => (K r, single r)) P).stc c
      = (rs.filter fun r => P (K r) && r.status == c).length := by
  induction rs with
  | nil => rfl
  | cons r rest ih =>
    rw [List.map_cons, sem_cons_stc, ih, List.filter_cons]
    by_cases h : P (K r) = true
    · by_cases hc : r.status = c
      · simp [h, hc, single, stCount]; omega
      · simp [h, hc, single, stCount]
    · simp [h]


/-! ### the judge's predicate on model runs -/

/-- a summary seen at whole-second resolution -/
def secSem (x : Sem) : Sem := ⟨x.cnt, x.sd, x.st, x.stc, x.mn.map (· / 1000), x.mx / 1000⟩

theorem secSem_add (a b : Sem) : secSem (a.add b) = (secSem a).add (secSem b) := by
  apply Sem.ext' <;> simp [secSem, Sem.add, omin_map_div, max_div]

theorem secSem_zero : secSem Sem.zero = Sem.zero := by
  apply Sem.ext' <;> simp [secSem, Sem.zero]

theorem semOf_toSec (a : EAgg) : semOf (toSec a) = secSem (semOf a) := rfl

theorem sem_map_toSec' {κ : Type} (M : List (κ × EAgg)) (P : κ → Bool) :
    sem (M.map fun e => (e.1, toSec e.2)) P = secSem (sem M P) := by
  induction M with
  | nil => simp [sem_nil, secSem_zero]
  | cons p rest ih =>
    simp only [List.map_cons, sem_cons, ih, secSem_add]
    by_cases h : P p.1 = true
    · simp only [h, if_true, semOf_toSec]
    · simp [h, secSem_zero]

theorem sem_map_toSec {κ : Type} (M : List (κ × EAgg)) (P : κ → Bool) :
    (sem (M.map fun e => (e.1, toSec e.2)) P).cnt = (sem M P).cnt ∧
    (∀ c, (sem (M.map fun e => (e.1, toSec e.2)) P).stc c = (sem M P).stc c) ∧
    (sem (M.map fun e => (e.1, toSec e.2)) P).mn = (sem M P).mn.map (· / 1000) ∧
    (sem (M.map fun e => (e.1, toSec e.2)) P).mx = (sem M P).mx / 1000 := by
  rw [sem_map_toSec']
  exact ⟨rfl, fun _ => rfl, rfl, rfl⟩

theorem isem_map_div {κ : Type} (M : List (κ × Nat)) (P : κ → Bool) :
    isem (M.map fun e => (e.1, e.2 / 1000)) P = (isem M P).map (· / 1000) := by
  induction M with
  | nil => rfl
  | cons p rest ih =>
    simp only [List.map_cons, isem_cons, ih, omax_map_div]
    by_cases h : P p.1 = true <;> simp [h]

theorem semAgrees_of (codes : List Nat) (a b : Sem) (h1 : a.cnt = b.cnt) (h2 : ∀ c, a.stc c = b.stc c)
    (h3 : a.mn = b.mn.map (· / 1000)) (h4 : a.mx = b.mx / 1000) : semAgrees codes a b = true := by
  simp only [semAgrees, Bool.and_eq_true, beq_iff_eq, List.all_eq_true]
  exact ⟨⟨⟨h1, fun c _ => h2 c⟩, h3⟩, h4⟩

theorem countOk_toSec (a : EAgg) (h : countOk a = true) : countOk (toSec a) = true := by
  simpa [countOk, toSec] using h

theorem allOk_map_toSec {κ : Type} (M : List (κ × EAgg)) (h : AllOk M) :
    AllOk (M.map fun e => (e.1, toSec e.2)) := by
  intro p hp
  simp only [List.mem_map] at hp
  obtain ⟨q, hq, rfl⟩ := hp
  exact countOk_toSec _ (h q hq)

/-- From `Totals` (Prop, about the file read back) to the judge's Boolean `conserves` on the observation. -/
theorem conserves_of_totals (full : Bool) (p : Persisted) (recs : List Rec)
    (ht : Totals (restore p) (external recs)) (hok : AggOk (restore p)) :
    conserves recs (observe full 0 p) = true := by
  obtain ⟨hE, hC, hI⟩ := ht
  simp only [conserves, Bool.and_eq_true, List.all_eq_true]
  refine ⟨⟨⟨⟨?_, ?_⟩, ?_⟩, ?_⟩, rfl⟩
  · -- per method, and per tag × method
    intro m _
    refine ⟨?_, ?_⟩
    · have hs := hE (· == m)
      have ho : sem (observe full 0 p).eps (fun k => k.1 == m)
          = sem ((restore p).endpoints.map fun e => (e.1, toSec e.2)) (fun k => k.1 == m) := by
        cases full <;> simp [observe, sem_rekeyAny]
      rw [ho]
      obtain ⟨a1, a2, a3, a4⟩ := sem_map_toSec (restore p).endpoints (fun k => k.1 == m)
      obtain ⟨s1, _, _, s4, s5, s6⟩ := hs
      exact semAgrees_of _ _ _ (a1.trans s1) (fun c => (a2 c).trans (s4 c)) (a3.trans s5) (a4.trans s6)
    · intro t _
      have hs := hC (fun q => q.1 == t && q.2 == m)
      have ho : sem (observe full 0 p).ces (fun k => k.1 == t && k.2.1 == m)
          = sem ((restore p).consumers.map fun e => (e.1, toSec e.2)) (fun k => k.1 == t && k.2.1 == m) := by
        cases full <;> simp [observe, sem_rekeyAny]
      rw [ho]
      obtain ⟨a1, a2, a3, a4⟩ := sem_map_toSec (restore p).consumers (fun k => k.1 == t && k.2.1 == m)
      obtain ⟨s1, _, _, s4, s5, s6⟩ := hs
      exact semAgrees_of _ _ _ (a1.trans s1) (fun c => (a2 c).trans (s4 c)) (a3.trans s5) (a4.trans s6)
  · -- count = Σ status on every endpoint entry
    intro e he
    have h1 : AllOk ((restore p).endpoints.map fun e => (e.1, toSec e.2)) := allOk_map_toSec _ hok.1
    cases full with
    | true => exact h1 e (by simpa [observe] using he)
    | false =>
      have : AllOk (rekeyAny (fun k : Key => (k.1, "*")) ((restore p).endpoints.map fun e => (e.1, toSec e.2))) :=
        allOk_regroupG _ (allOk_relabel _ _ h1)
      exact this e (by simpa [observe] using he)
  · intro e he
    have h1 : AllOk ((restore p).consumers.map fun e => (e.1, toSec e.2)) := allOk_map_toSec _ hok.2
    cases full with
    | true => exact h1 e (by simpa [observe] using he)
    | false =>
      have : AllOk (rekeyAny (fun k : CKey => (k.1, (k.2.1, "*"))) ((restore p).consumers.map fun e => (e.1, toSec e.2))) :=
        allOk_regroupG _ (allOk_relabel _ _ h1)
      exact this e (by simpa [observe] using he)
  · -- interceptors
    intro i _
    have := hI (· == i)
    simp only [observe, isem_map_div, beq_iff_eq]
    exact this

/-- two restart-free runs whose aggregations are equal as maps are indistinguishable in the file -/
theorem sameStats_of_aggEq (A B : Agg) (h : AggEq A B) (hnA : NodupKeys A) (hkA : KeysOK A)
    (hnB : NodupKeys B) (hkB : KeysOK B) :
    sameStats (observe true 0 (persist A)) (observe true 0 (persist B)) = true := by
  have fl : ∀ (M : List (Key × EAgg)), (M.map fun p => (p.1, toMs (toSec p.2))).map (fun e => (e.1, toSec e.2))
      = M.map fun e => (e.1, toSec e.2) := by
    intro M; rw [List.map_map]; exact List.map_congr_left fun p _ => by simp [toSec, toMs]
  have flC : ∀ (M : List (CKey × EAgg)), (M.map fun p => (p.1, toMs (toSec p.2))).map (fun e => (e.1, toSec e.2))
      = M.map fun e => (e.1, toSec e.2) := by
    intro M; rw [List.map_map]; exact List.map_congr_left fun p _ => by simp [toSec, toMs]
  have flI : ∀ (M : IMap), (M.map fun p => (p.1, p.2 / 1000 * 1000)).map (fun e => (e.1, e.2 / 1000))
      = M.map fun e => (e.1, e.2 / 1000) := by
    intro M; rw [List.map_map]; exact List.map_congr_left fun p _ => by simp
  have eqS : ∀ {κ : Type} (M M' : List (κ × EAgg)) (P : κ → Bool), sem M P = sem M' P →
      (sem (M.map fun e => (e.1, toSec e.2)) P).cnt = (sem (M'.map fun e => (e.1, toSec e.2)) P).cnt ∧
      (∀ c, (sem (M.map fun e => (e.1, toSec e.2)) P).stc c = (sem (M'.map fun e => (e.1, toSec e.2)) P).stc c) ∧
      (sem (M.map fun e => (e.1, toSec e.2)) P).mn = (sem (M'.map fun e => (e.1, toSec e.2)) P).mn ∧
      (sem (M.map fun e => (e.1, toSec e.2)) P).mx = (sem (M'.map fun e => (e.1, toSec e.2)) P).mx := by
    intro κ M M' P e
    obtain ⟨a1, a2, a3, a4⟩ := sem_map_toSec M P
    obtain ⟨b1, b2, b3, b4⟩ := sem_map_toSec M' P
    exact ⟨by rw [a1, b1, e], fun c => by rw [a2, b2, e], by rw [a3, b3, e], by rw [a4, b4, e]⟩
  simp only [sameStats, observe, restore_persist_floor A hnA hkA, restore_persist_floor B hnB hkB, floorAgg,
    fl, flC, flI, if_true, Bool.and_eq_true, List.all_eq_true, beq_iff_eq]
  refine ⟨⟨?_, ?_⟩, ?_⟩
  · intro k _
    obtain ⟨e1, e2, e3, e4⟩ := eqS A.endpoints B.endpoints (· == k) (h.1 _)
    exact ⟨⟨⟨e1, fun c _ => e2 c⟩, e3⟩, e4⟩
  · intro k _
    obtain ⟨e1, e2, e3, e4⟩ := eqS A.consumers B.consumers (· == k) (h.2.1 _)
    exact ⟨⟨⟨e1, fun c _ => e2 c⟩, e3⟩, e4⟩
  · intro k _
    rw [isem_map_div, isem_map_div, h.2.2]

theorem batchInvariant_of_pairwise (l : List RunObs) (h : ∀ a ∈ l, ∀ b ∈ l, sameStats a b = true) :
    batchInvariant l = true := by
  induction l with
  | nil => rfl
  | cons o rest ih =>
    simp only [batchInvariant, Bool.and_eq_true, List.all_eq_true]
    exact ⟨fun p hp => h o (by simp) p (by simp [hp]),
           ih fun a ha b hb => h a (by simp [ha]) b (by simp [hb])⟩

/-- in a restart-free run the file is always the dump of the aggregation -/
theorem runSegs_batches_file {τ : Type} (N : Normaliser τ) (T0 : τ) (bs : List (List Rec)) (s : St τ)
    (hf : s.file = persist s.agg) :
    (runSegs N T0 s (bs.map Seg.batch)).file = persist (runSegs N T0 s (bs.map Seg.batch)).agg := by
  induction bs generalizing s with
  | nil => exact hf
  | cons b rest ih =>
    simp only [List.map_cons, runSegs]
    refine ih _ ?_
    unfold stepS
    by_cases he : b.isEmpty = true
    · simpa [he] using hf
    · simp [he]

theorem runSegs_batches_methodsIn {τ : Type} (N : Normaliser τ) (T0 : τ) (bs : List (List Rec)) (s : St τ)
    (ms : List String) (hin : MethodsIn ms s.agg) (hb : ∀ r ∈ external bs.flatten, r.method ∈ ms) :
    MethodsIn ms (runSegs N T0 s (bs.map Seg.batch)).agg := by
  induction bs generalizing s with
  | nil => exact hin
  | cons b rest ih =>
    simp only [List.map_cons, runSegs]
    refine ih _ ?_ (fun r hr => hb r (by simp [external_append, hr]))
    rw [stepS_agg]
    exact methodsIn_step N _ _ b ms hin (fun r hr => hb r (by simp [external_append, hr]))

theorem runSegs_nodup {τ : Type} (N : Normaliser τ) (T0 : τ) (segs : List Seg) (s : St τ)
    (h : NodupKeys s.agg) : NodupKeys (runSegs N T0 s segs).agg := by
  induction segs generalizing s with
  | nil => exact h
  | cons seg rest ih =>
    cases seg with
    | batch rs =>
      simp only [runSegs]
      exact ih _ (by rw [stepS_agg]; exact nodupKeys_step N _ _ _ h)
    | batchNoDump rs =>
      simp only [runSegs]
      exact ih _ (by rw [stepNoDump_agg, stepS_agg]; exact nodupKeys_step N _ _ _ h)
    | restart =>
      simp only [runSegs]
      exact ih _ (nodupKeys_restore _)
    | treeReset =>
      simp only [runSegs]
      exact ih { s with tree := T0 } h

/-- Which flushes fail to persist does not influence the tree or the in-memory aggregation (restart-free runs). -/
theorem runSegs_clearFaults {τ : Type} (N : Normaliser τ) (T0 : τ) (segs : List Seg) (s s' : St τ)
    (hn : noRestart segs = true) (ht : s.tree = s'.tree) (ha : s.agg = s'.agg) :
    (runSegs N T0 s segs).tree = (runSegs N T0 s' (clearFaults segs)).tree ∧
    (runSegs N T0 s segs).agg = (runSegs N T0 s' (clearFaults segs)).agg := by
  induction segs generalizing s s' with
  | nil => exact ⟨ht, ha⟩
  | cons seg rest ih =>
    cases seg with
    | batch rs =>
      simp only [runSegs, clearFaults]
      refine ih _ _ (by simpa [noRestart] using hn) ?_ ?_
      · rw [stepS_tree, stepS_tree, ht, ha]
      · rw [stepS_agg, stepS_agg, ht, ha]
    | batchNoDump rs =>
      simp only [runSegs, clearFaults]
      refine ih _ _ (by simpa [noRestart] using hn) ?_ ?_
      · rw [stepNoDump_tree, stepS_tree, stepS_tree, ht, ha]
      · rw [stepNoDump_agg, stepS_agg, stepS_agg, ht, ha]
    | restart => simp [noRestart] at hn
    | treeReset => simp [noRestart] at hn

theorem clearFaults_segOf (fs : List (List Rec × Bool)) :
    clearFaults (fs.map segOf) = (fs.map Prod.fst).map Seg.batch := by
  induction fs with
  | nil => rfl
  | cons b rest ih =>
    obtain ⟨rs, f⟩ := b
    cases f <;> simp [segOf, clearFaults, ih]

theorem noRestart_segOf (fs : List (List Rec × Bool)) : noRestart (fs.map segOf) = true := by
  induction fs with
  | nil => rfl
  | cons b rest ih =>
    obtain ⟨rs, f⟩ := b
    cases f <;> simp [segOf, noRestart, ih]

/-- restart-free run: the file is the dump of the aggregation whenever the last non-empty flush succeeded -/
theorem runSegs_noRestart_file {τ : Type} (N : Normaliser τ) (T0 : τ) (segs : List Seg) (s : St τ) (f : Bool)
    (hn : noRestart segs = true) (hf : f = true → s.file = persist s.agg) (hend : freshAfter f segs = true) :
    (runSegs N T0 s segs).file = persist (runSegs N T0 s segs).agg := by
  induction segs generalizing s f with
  | nil => exact hf (by simpa [freshAfter] using hend)
  | cons seg rest ih =>
    cases seg with
    | batch rs =>
      simp only [runSegs, freshAfter] at hend ⊢
      refine ih _ _ (by simpa [noRestart] using hn) ?_ hend
      intro hf'
      unfold stepS
      by_cases he : rs.isEmpty = true
      · simp only [he, if_true]; exact hf (by simpa [he] using hf')
      · simp [he]
    | batchNoDump rs =>
      simp only [runSegs, freshAfter] at hend ⊢
      refine ih _ _ (by simpa [noRestart] using hn) ?_ hend
      intro hf'
      simp only [Bool.and_eq_true] at hf'
      have he : rs.isEmpty = true := hf'.2
      unfold stepNoDump
      simp only [he, if_true]; exact hf hf'.1
    | restart => simp [noRestart] at hn
    | treeReset => simp [noRestart] at hn



theorem recsOf_segOf (fs : List (List Rec × Bool)) : recsOf (fs.map segOf) = (fs.map Prod.fst).flatten := by
  induction fs with
  | nil => rfl
  | cons b rest ih =>
    obtain ⟨rs, f⟩ := b
    cases f <;> simp [segOf, recsOf, ih]

theorem restartsFresh_of_noRestart (segs : List Seg) (f : Bool) (hn : noRestart segs = true) :
    RestartsFresh f segs := by
  induction segs generalizing f with
  | nil => trivial
  | cons seg rest ih =>
    cases seg with
    | batch rs => simp only [RestartsFresh]; exact ih _ (by simpa [noRestart] using hn)
    | batchNoDump rs => simp only [RestartsFresh]; exact ih _ (by simpa [noRestart] using hn)
    | restart => simp [noRestart] at hn
    | treeReset => simp [noRestart] at hn

end LunarVerif.C15
