import LunarVerif.Proofs.C12
import LunarVerif.Spec.C12Conc
/-! C12, interleaving model: invariants that hold after every scheduler event, for every schedule. -/
set_option linter.unusedSectionVars false
set_option linter.unusedSimpArgs false
namespace LunarVerif.C12

section
variable {κ ν : Type} [DecidableEq κ] [DecidableEq ν]

/-! ### lists -/

theorem mem_set_cases {α : Type} {l : List α} {j : Nat} {a x : α} (h : a ∈ l.set j x) :
    a = x ∨ a ∈ l.eraseIdx j := by
  induction l generalizing j with
  | nil => simp at h
  | cons hd tl ih =>
    cases j with
    | zero =>
      simp only [List.set_cons_zero, List.mem_cons] at h
      rcases h with h | h
      · exact Or.inl h
      · exact Or.inr (by simpa using h)
    | succ j =>
      simp only [List.set_cons_succ, List.mem_cons] at h
      rcases h with h | h
      · exact Or.inr (by simp [h])
      · rcases ih h with h | h
        · exact Or.inl h
        · exact Or.inr (by simp [h])

theorem mem_of_mem_eraseIdx {α : Type} {l : List α} {j : Nat} {a : α} (h : a ∈ l.eraseIdx j) : a ∈ l :=
  (List.eraseIdx_sublist l j).subset h

theorem oldest_cons {α : Type} (r : α) (h : List α) (pos : Nat) (hp : pos ≤ h.length) :
    oldest (r :: h) pos = oldest h pos := by
  unfold oldest
  have : (r :: h).length - pos = (h.length - pos) + 1 := by simp only [List.length_cons]; omega
  rw [this, List.drop_succ_cons]

theorem oldest_all {α : Type} (h : List α) : oldest h h.length = h := by
  simp [oldest]

/-! ### the log -/

theorem lastIns_cons_ins (k k' : κ) (v : ν) (st ttl : Int) (sz : Nat) (h : List (IRec κ ν)) :
    lastIns k' (.ins k v st ttl sz :: h) = if k = k' then some (v, st, ttl) else lastIns k' h := by
  simp [lastIns]

theorem lastIns_cons_ret (k k' : κ) (o : Option ν) (tc : Int) (pos : Nat) (h : List (IRec κ ν)) :
    lastIns k' (.ret k o tc pos :: h) = lastIns k' h := by simp [lastIns]

theorem lastIns_cons_hasRet (k k' : κ) (b : Bool) (tc : Int) (pos : Nat) (h : List (IRec κ ν)) :
    lastIns k' (.hasRet k b tc pos :: h) = lastIns k' h := by simp [lastIns]

theorem lastIns_cons_probe (k' : κ) (t : Int) (hd : Nat) (h : List (IRec κ ν)) :
    lastIns k' (.probe t hd :: h) = lastIns k' h := by simp [lastIns]

/-! ### what a parked thread knows -/

/-- A Get/Has parked after its lookup holds an entry that was, at the time of the lookup (log position `pos`),
    the most recent successful Set of its key. -/
def PcOk (hist : List (IRec κ ν)) : Pc κ ν → Prop
  | .getCheck k e pos =>
    pos ≤ hist.length ∧ ∃ st ttl, lastIns k (oldest hist pos) = some (e.val, st, ttl) ∧ e.expiry = st + ttl
  | .hasCheck k (some e) pos =>
    pos ≤ hist.length ∧ ∃ st ttl, lastIns k (oldest hist pos) = some (e.val, st, ttl) ∧ e.expiry = st + ttl
  | _ => True

theorem pcOk_cons (r : IRec κ ν) (hist : List (IRec κ ν)) (pc : Pc κ ν) (h : PcOk hist pc) :
    PcOk (r :: hist) pc := by
  cases pc with
  | getCheck k e pos =>
    obtain ⟨hp, st, ttl, h1, h2⟩ := h
    exact ⟨by simp only [List.length_cons]; omega, st, ttl, by rw [oldest_cons r hist pos hp]; exact h1, h2⟩
  | hasCheck k o pos =>
    cases o with
    | none => trivial
    | some e =>
      obtain ⟨hp, st, ttl, h1, h2⟩ := h
      exact ⟨by simp only [List.length_cons]; omega, st, ttl, by rw [oldest_cons r hist pos hp]; exact h1, h2⟩
  | _ => trivial

/-- entries ↔ log -/
def EntLog (c : Cache κ ν) (hist : List (IRec κ ν)) : Prop :=
  ∀ k e, find? k c.entries = some e → ∃ st ttl, lastIns k hist = some (e.val, st, ttl) ∧ e.expiry = st + ttl

/-- replay-correctness invariant -/
structure HInv (cfg : Cfg) (s : IState κ ν) : Prop where
  ent : EntLog s.c s.hist
  pcs : ∀ pc, pc ∈ s.threads → PcOk s.hist pc
  log : iholdsRev false cfg s.hist = true

theorem entLog_shrink {c c' : Cache κ ν} {hist : List (IRec κ ν)} (h : EntLog c hist)
    (hs : ∀ k e, find? k c'.entries = some e → find? k c.entries = some e) : EntLog c' hist :=
  fun k e hf => h k e (hs k e hf)

theorem spawnSec_entries {c : Cache κ ν} {k : κ} {ttl : Int} {k' : κ} {e : Entry ν}
    (h : find? k' (spawnSec c k ttl).entries = some e) : find? k' c.entries = some e := by
  unfold spawnSec at h
  by_cases httl : ttl > 0
  · simpa [httl] using h
  · simp only [httl, if_false, clearKey_entries] at h
    exact (find?_erase_some h).2

/-- threads after thread `j` moved to `pc'`: everybody else keeps what they knew -/
theorem pcs_set {hist : List (IRec κ ν)} {threads : List (Pc κ ν)} {j : Nat} {pc' : Pc κ ν}
    (h : ∀ pc, pc ∈ threads → PcOk hist pc) (hnew : PcOk hist pc') :
    ∀ pc, pc ∈ threads.set j pc' → PcOk hist pc := by
  intro pc hm
  rcases mem_set_cases hm with h1 | h1
  · rw [h1]; exact hnew
  · exact h pc (mem_of_mem_eraseIdx h1)

theorem hinv_runThread (cfg : Cfg) (s : IState κ ν) (j : Nat) (hinv : HInv cfg s) : HInv cfg (runThread s j) := by
  unfold runThread
  cases hj : s.threads[j]? with
  | none => exact hinv
  | some pc =>
    have hmem : pc ∈ s.threads := List.mem_of_getElem? hj
    cases pc with
    | setCheck k v ttl sz =>
      exact ⟨hinv.ent, pcs_set hinv.pcs (by by_cases hp : preCheck s.c sz = true <;> simp [hp, PcOk]), hinv.log⟩
    | setStamp k v ttl sz => exact ⟨hinv.ent, pcs_set hinv.pcs trivial, hinv.log⟩
    | setInsert k v ttl sz st =>
      simp only
      by_cases hre : (s.recheck && !preCheck s.c sz) = true
      · simp only [hre, if_true]; exact ⟨hinv.ent, pcs_set hinv.pcs trivial, hinv.log⟩
      · simp only [hre, Bool.false_eq_true, if_false]
        refine ⟨?_, ?_, ?_⟩
        · intro k' e hf
          simp only [insertSec] at hf
          rw [lastIns_cons_ins]
          by_cases hk : k = k'
          · subst hk
            simp only [find?, if_true, Option.some.injEq] at hf
            subst hf
            exact ⟨st, ttl, by simp, rfl⟩
          · simp only [find?, hk, if_false] at hf
            simp only [hk, if_false]
            exact hinv.ent k' e (find?_erase_some hf).2
        · exact pcs_set (fun pc hm => pcOk_cons _ _ pc (hinv.pcs pc hm)) (show PcOk _ (Pc.setSpawn k ttl) from trivial)
        · simp only [iholdsRev, iRecOk, Bool.true_and]; exact hinv.log
    | setSpawn k ttl =>
      exact ⟨entLog_shrink hinv.ent (fun _ _ x => spawnSec_entries x), pcs_set hinv.pcs trivial, hinv.log⟩
    | getLookup k =>
      simp only
      cases hf : find? k s.c.entries with
      | none =>
        refine ⟨?_, ?_, ?_⟩
        · intro k' e hf'; rw [lastIns_cons_ret]; exact hinv.ent k' e hf'
        · exact pcs_set (fun pc hm => pcOk_cons _ _ pc (hinv.pcs pc hm))
            (show PcOk _ (Pc.done (Res.got k none s.c.now)) from trivial)
        · simp only [iholdsRev, iRecOk, Bool.true_and]; exact hinv.log
      | some e =>
        obtain ⟨st, ttl, h1, h2⟩ := hinv.ent k e hf
        exact ⟨hinv.ent, pcs_set hinv.pcs ⟨Nat.le_refl _, st, ttl, by rw [oldest_all]; exact h1, h2⟩, hinv.log⟩
    | getCheck k e pos =>
      obtain ⟨hp, st, ttl, h1, h2⟩ := hinv.pcs _ hmem
      refine ⟨?_, ?_, ?_⟩
      · intro k' e' hf'; rw [lastIns_cons_ret]; exact hinv.ent k' e' hf'
      · exact pcs_set (fun pc hm => pcOk_cons _ _ pc (hinv.pcs pc hm))
          (show PcOk _ (Pc.done (Res.got k (if s.c.now > e.expiry then none else some e.val) s.c.now)) from trivial)
      · simp only [iholdsRev, Bool.and_eq_true]
        refine ⟨?_, hinv.log⟩
        by_cases hx : s.c.now > e.expiry
        · simp [hx, iRecOk]
        · simp only [hx, if_false, iRecOk, h1, freshIns, Bool.and_eq_true, decide_eq_true_eq]
          exact ⟨hp, trivial, by omega⟩
    | hasLookup k =>
      refine ⟨hinv.ent, pcs_set hinv.pcs ?_, hinv.log⟩
      cases hf : find? k s.c.entries with
      | none => trivial
      | some e =>
        obtain ⟨st, ttl, h1, h2⟩ := hinv.ent k e hf
        exact ⟨Nat.le_refl _, st, ttl, by rw [oldest_all]; exact h1, h2⟩
    | hasCheck k o pos =>
      refine ⟨?_, ?_, ?_⟩
      · intro k' e' hf'; rw [lastIns_cons_hasRet]; exact hinv.ent k' e' hf'
      · exact pcs_set (fun pc hm => pcOk_cons _ _ pc (hinv.pcs pc hm)) (show PcOk _ (Pc.done _) from trivial)
      · simp only [iholdsRev, Bool.and_eq_true]
        refine ⟨?_, hinv.log⟩
        cases o with
        | none => simp [iRecOk]
        | some e =>
          obtain ⟨hp, st, ttl, h1, h2⟩ := hinv.pcs _ hmem
          by_cases hx : s.c.now > e.expiry
          · simp [hx, iRecOk]
          · simp only [hx, if_false, iRecOk, h1, freshIns, Bool.true_and, Bool.and_eq_true, decide_eq_true_eq]
            exact ⟨hp, by omega⟩
    | del k =>
      exact ⟨entLog_shrink hinv.ent (fun _ _ x => (find?_erase_some x).2), pcs_set hinv.pcs trivial, hinv.log⟩
    | done r => exact hinv

theorem hinv_istep (cfg : Cfg) (s : IState κ ν) (ev : Sched κ ν) (hinv : HInv cfg s) : HInv cfg (istep s ev) := by
  cases ev with
  | call cl =>
    refine ⟨hinv.ent, ?_, hinv.log⟩
    intro pc hm
    simp only [istep, List.mem_append, List.mem_singleton] at hm
    rcases hm with h | h
    · exact hinv.pcs pc h
    · rw [h]; cases cl <;> trivial
  | run j => exact hinv_runThread cfg s j hinv
  | fire i => exact ⟨entLog_shrink hinv.ent (fun _ _ x => find?_fire x), hinv.pcs, hinv.log⟩
  | skip d => exact ⟨hinv.ent, hinv.pcs, hinv.log⟩
  | wstep d => exact ⟨hinv.ent, hinv.pcs, hinv.log⟩
  | adv d => exact ⟨entLog_shrink hinv.ent (fun _ _ x => find?_adv x), hinv.pcs, hinv.log⟩
  | probe =>
    refine ⟨?_, fun pc hm => pcOk_cons _ _ pc (hinv.pcs pc hm), ?_⟩
    · intro k e hf; simp only [istep]; rw [lastIns_cons_probe]; exact hinv.ent k e hf
    · simp only [istep, iholdsRev, iRecOk, Bool.not_false, Bool.true_or, Bool.true_and]; exact hinv.log

theorem hinv_iexec (cfg : Cfg) (es : List (Sched κ ν)) (s : IState κ ν) (hinv : HInv cfg s) :
    HInv cfg (iexec s es) := by
  induction es generalizing s with
  | nil => exact hinv
  | cons e es ih => exact ih _ (hinv_istep cfg s e hinv)

theorem hinv_init (cfg : Cfg) (recheck : Bool) : HInv cfg (IState.init (cfg.init : Cache κ ν) recheck) := by
  refine ⟨?_, ?_, rfl⟩
  · intro k e hf; simp [IState.init, Cfg.init, Cache.init, find?] at hf
  · intro pc hm; simp [IState.init] at hm

/-! ### sizes -/

def Pc.inflightSz : Pc κ ν → Option Nat
  | .setStamp _ _ _ sz => some sz
  | .setInsert _ _ _ sz _ => some sz
  | _ => none

theorem inflight_of_sz {pc : Pc κ ν} {sz : Nat} (h : pc.inflightSz = some sz) : pc.inflight = true := by
  cases pc <;> simp [Pc.inflightSz, Pc.inflight] at h ⊢

structure ZInv (cfg : Cfg) (s : IState κ ν) : Prop where
  on : s.c.sizeOn = cfg.sizeOn
  mx : s.c.max = cfg.max
  held : cfg.sizeOn = true → (heldSize s.c.entries : Int) ≤ s.c.tracked
  bound : cfg.sizeOn = true → s.c.tracked ≤ cfg.max + (s.over : Nat)
  fly : cfg.sizeOn = true → ∀ pc, pc ∈ s.threads → ∀ sz, pc.inflightSz = some sz →
          s.c.tracked + (sz : Nat) ≤ cfg.max + (s.over : Nat)
  strict : cfg.sizeOn = true → s.recheck = true → s.c.tracked ≤ cfg.max

/-- a step of the shared state that only deletes -/
structure Shrinks (c c' : Cache κ ν) : Prop where
  on : c'.sizeOn = c.sizeOn
  mx : c'.max = c.max
  tr : c'.tracked ≤ c.tracked
  held : c.sizeOn = true → (heldSize c.entries : Int) ≤ c.tracked → (heldSize c'.entries : Int) ≤ c'.tracked

theorem shrinks_refl (c : Cache κ ν) : Shrinks c c := ⟨rfl, rfl, Int.le_refl _, fun _ h => h⟩

theorem shrinks_trans {a b c : Cache κ ν} (h1 : Shrinks a b) (h2 : Shrinks b c) : Shrinks a c :=
  ⟨h2.on.trans h1.on, h2.mx.trans h1.mx, Int.le_trans h2.tr h1.tr,
   fun hon hh => h2.held (h1.on.trans hon) (h1.held hon hh)⟩

theorem shrinks_clearKey (c : Cache κ ν) (k : κ) : Shrinks c (clearKey c k) := by
  refine ⟨rfl, rfl, ?_, ?_⟩
  · simp only [clearKey]; cases c.sizeOn <;> simp <;> omega
  · intro hon hh
    have := heldSize_erase_le k c.entries
    simp only [clearKey, hon, if_true]
    omega

theorem shrinks_clearAll (c : Cache κ ν) (l : List (Sleeper κ)) : Shrinks c (clearAll c l) := by
  induction l generalizing c with
  | nil => exact shrinks_refl c
  | cons s rest ih => exact shrinks_trans (shrinks_clearKey c s.key) (ih _)

theorem shrinks_fire (c : Cache κ ν) (i : Nat) : Shrinks c (fire c i).1 := by
  rcases fire_cases c i with h1 | h1 | ⟨s, _, _, h1⟩
  · rw [h1]; exact shrinks_refl c
  · rw [h1]; exact shrinks_refl c
  · rw [h1]
    have := shrinks_clearKey c s.key
    exact ⟨this.on, this.mx, this.tr, this.held⟩

theorem shrinks_adv (c : Cache κ ν) (d : Nat) : Shrinks c (adv c d).1 := by
  have := shrinks_clearAll c (c.pending.filter (fun s => decide (s.due ≤ c.mono + (d : Nat))))
  exact ⟨this.on, this.mx, this.tr, this.held⟩

theorem shrinks_spawnSec (c : Cache κ ν) (k : κ) (ttl : Int) : Shrinks c (spawnSec c k ttl) := by
  unfold spawnSec
  by_cases httl : ttl > 0
  · simp only [httl, if_true]; exact ⟨rfl, rfl, Int.le_refl _, fun _ h => h⟩
  · simp only [httl, if_false]; exact shrinks_clearKey c k

theorem shrinks_skip (c : Cache κ ν) (d : Nat) : Shrinks c (skip c d) :=
  ⟨rfl, rfl, Int.le_refl _, fun _ h => h⟩

/-- the shared state only shrank, thread `j` (not in flight afterwards, or with unchanged size) moved on -/
theorem zinv_shrink {cfg : Cfg} {s : IState κ ν} {c' : Cache κ ν} {threads' : List (Pc κ ν)}
    (hinv : ZInv cfg s) (hs : Shrinks s.c c')
    (hth : ∀ pc, pc ∈ threads' → ∀ sz, pc.inflightSz = some sz → ∃ pc0, pc0 ∈ s.threads ∧ pc0.inflightSz = some sz) :
    ZInv cfg { s with c := c', threads := threads' } := by
  refine ⟨hs.on.trans hinv.on, hs.mx.trans hinv.mx, ?_, ?_, ?_, ?_⟩
  · intro hon; exact hs.held (hinv.on.trans hon) (hinv.held hon)
  · intro hon; have := hinv.bound hon; have := hs.tr; show c'.tracked ≤ cfg.max + (s.over : Nat); omega
  · intro hon pc hm sz hsz
    obtain ⟨pc0, hm0, h0⟩ := hth pc hm sz hsz
    have := hinv.fly hon pc0 hm0 sz h0
    have := hs.tr
    show c'.tracked + (sz : Nat) ≤ cfg.max + (s.over : Nat)
    omega
  · intro hon hre; have := hinv.strict hon hre; have := hs.tr; show c'.tracked ≤ cfg.max; omega

/-- thread `j` moves to a pc that is not in flight (or keeps its size): the others are unchanged -/
theorem fly_set {s : IState κ ν} {j : Nat} {pc0 pc' : Pc κ ν} (hj : s.threads[j]? = some pc0)
    (hkeep : ∀ sz, pc'.inflightSz = some sz → pc0.inflightSz = some sz) :
    ∀ pc, pc ∈ s.threads.set j pc' → ∀ sz, pc.inflightSz = some sz →
      ∃ p, p ∈ s.threads ∧ p.inflightSz = some sz := by
  intro pc hm sz hsz
  rcases mem_set_cases hm with h1 | h1
  · rw [h1] at hsz; exact ⟨pc0, List.mem_of_getElem? hj, hkeep sz hsz⟩
  · exact ⟨pc, mem_of_mem_eraseIdx h1, hsz⟩

theorem preCheck_true {c : Cache κ ν} {sz : Nat} (h : preCheck c sz = true) (hon : c.sizeOn = true) :
    c.tracked + (sz : Nat) ≤ c.max := by
  simp only [preCheck, hon, Bool.true_and, Bool.not_eq_true', decide_eq_false_iff_not] at h
  omega

theorem zinv_runThread (cfg : Cfg) (s : IState κ ν) (j : Nat) (hinv : ZInv cfg s) : ZInv cfg (runThread s j) := by
  unfold runThread
  cases hj : s.threads[j]? with
  | none => exact hinv
  | some pc =>
    have hmem : pc ∈ s.threads := List.mem_of_getElem? hj
    cases pc with
    | setCheck k v ttl sz =>
      simp only
      by_cases hpc : preCheck s.c sz = true
      · simp only [hpc, if_true]
        refine ⟨hinv.on, hinv.mx, hinv.held, hinv.bound, ?_, hinv.strict⟩
        intro hon pc hm sz' hsz
        rcases mem_set_cases hm with h1 | h1
        · rw [h1] at hsz
          simp only [Pc.inflightSz, Option.some.injEq] at hsz
          subst hsz
          have := preCheck_true hpc (hinv.on.trans hon)
          rw [hinv.mx] at this
          show s.c.tracked + _ ≤ _
          omega
        · exact hinv.fly hon pc (mem_of_mem_eraseIdx h1) sz' hsz
      · simp only [hpc, Bool.false_eq_true, if_false]
        have := zinv_shrink (c' := s.c) (threads' := s.threads.set j (.done .setFull)) hinv (shrinks_refl _)
          (fly_set hj (by intro sz h; simp [Pc.inflightSz] at h))
        exact this
    | setStamp k v ttl sz =>
      exact zinv_shrink (c' := s.c) hinv (shrinks_refl _) (fly_set hj (by intro sz' h; simpa [Pc.inflightSz] using h))
    | setInsert k v ttl sz st =>
      simp only
      by_cases hre : (s.recheck && !preCheck s.c sz) = true
      · simp only [hre, if_true]
        exact zinv_shrink (c' := s.c) hinv (shrinks_refl _) (fly_set hj (by intro sz' h; simp [Pc.inflightSz] at h))
      · simp only [hre, Bool.false_eq_true, if_false]
        have hson : s.c.sizeOn = cfg.sizeOn := hinv.on
        refine ⟨hinv.on, hinv.mx, ?_, ?_, ?_, ?_⟩
        · intro hon
          have h1 := hinv.held hon
          have hle := heldSize_erase_le k s.c.entries
          simp only [insertSec, heldSize, hson, hon, if_true]
          omega
        · intro hon
          have hfly := hinv.fly hon _ hmem sz rfl
          simp only [insertSec, hson, hon, if_true]
          split <;> omega
        · intro hon pc hm sz' hsz
          rcases mem_set_cases hm with h1 | h1
          · rw [h1] at hsz; simp [Pc.inflightSz] at hsz
          · have hany : (s.threads.eraseIdx j).any Pc.inflight = true :=
              List.any_eq_true.mpr ⟨pc, h1, inflight_of_sz hsz⟩
            have hold := hinv.fly hon pc (mem_of_mem_eraseIdx h1) sz' hsz
            simp only [insertSec, hson, hon, if_true, hany]
            omega
        · intro hon hrc0
          have hrc : s.recheck = true := hrc0
          have hpc : preCheck s.c sz = true := by
            cases hp : preCheck s.c sz with
            | true => rfl
            | false => simp [hrc, hp] at hre
          have := preCheck_true hpc (hson.trans hon)
          rw [hinv.mx] at this
          simp only [insertSec, hson, hon, if_true]
          exact this
    | setSpawn k ttl =>
      exact zinv_shrink hinv (shrinks_spawnSec s.c k ttl) (fly_set hj (by intro sz h; simp [Pc.inflightSz] at h))
    | getLookup k =>
      simp only
      cases find? k s.c.entries with
      | none =>
        have := zinv_shrink (c' := s.c) hinv (shrinks_refl _) (fly_set (pc' := .done (.got k none s.c.now)) hj
          (by intro sz h; simp [Pc.inflightSz] at h))
        exact ⟨this.on, this.mx, this.held, this.bound, this.fly, this.strict⟩
      | some e =>
        exact zinv_shrink (c' := s.c) hinv (shrinks_refl _) (fly_set hj (by intro sz h; simp [Pc.inflightSz] at h))
    | getCheck k e pos =>
      have := zinv_shrink (c' := s.c) hinv (shrinks_refl _)
        (fly_set (pc' := .done (.got k (if s.c.now > e.expiry then none else some e.val) s.c.now)) hj
          (by intro sz h; simp [Pc.inflightSz] at h))
      exact ⟨this.on, this.mx, this.held, this.bound, this.fly, this.strict⟩
    | hasLookup k =>
      exact zinv_shrink (c' := s.c) hinv (shrinks_refl _) (fly_set hj (by intro sz h; simp [Pc.inflightSz] at h))
    | hasCheck k o pos =>
      cases o with
      | none =>
        have := zinv_shrink (c' := s.c) hinv (shrinks_refl _)
          (fly_set (pc' := .done (.hasRes k false s.c.now)) hj (by intro sz h; simp [Pc.inflightSz] at h))
        exact ⟨this.on, this.mx, this.held, this.bound, this.fly, this.strict⟩
      | some e =>
        have := zinv_shrink (c' := s.c) hinv (shrinks_refl _)
          (fly_set (pc' := .done (.hasRes k (if s.c.now > e.expiry then false else true) s.c.now)) hj
            (by intro sz h; simp [Pc.inflightSz] at h))
        exact ⟨this.on, this.mx, this.held, this.bound, this.fly, this.strict⟩
    | del k =>
      exact zinv_shrink hinv (shrinks_clearKey s.c k) (fly_set hj (by intro sz h; simp [Pc.inflightSz] at h))
    | done r => exact hinv

theorem zinv_istep (cfg : Cfg) (s : IState κ ν) (ev : Sched κ ν) (hinv : ZInv cfg s) : ZInv cfg (istep s ev) := by
  have keep : ∀ pc, pc ∈ s.threads → ∀ sz, pc.inflightSz = some sz → ∃ p, p ∈ s.threads ∧ p.inflightSz = some sz :=
    fun pc hm sz h => ⟨pc, hm, h⟩
  cases ev with
  | call cl =>
    have := zinv_shrink (c' := s.c) (threads' := s.threads ++ [cl.entry]) hinv (shrinks_refl _) (by
      intro pc hm sz hsz
      simp only [List.mem_append, List.mem_singleton] at hm
      rcases hm with h | h
      · exact ⟨pc, h, hsz⟩
      · rw [h] at hsz; cases cl <;> simp [Call.entry, Pc.inflightSz] at hsz)
    exact this
  | run j => exact zinv_runThread cfg s j hinv
  | fire i => exact zinv_shrink hinv (shrinks_fire s.c i) keep
  | skip d => exact zinv_shrink hinv (shrinks_skip s.c d) keep
  | wstep d => exact zinv_shrink hinv (⟨rfl, rfl, Int.le_refl _, fun _ h => h⟩ : Shrinks s.c (wstep s.c d)) keep
  | adv d => exact zinv_shrink hinv (shrinks_adv s.c d) keep
  | probe => exact ⟨hinv.on, hinv.mx, hinv.held, hinv.bound, hinv.fly, hinv.strict⟩

theorem zinv_iexec (cfg : Cfg) (es : List (Sched κ ν)) (s : IState κ ν) (hinv : ZInv cfg s) :
    ZInv cfg (iexec s es) := by
  induction es generalizing s with
  | nil => exact hinv
  | cons e es ih => exact ih _ (zinv_istep cfg s e hinv)

theorem zinv_init (cfg : Cfg) (hmax : 0 ≤ cfg.max) (recheck : Bool) :
    ZInv cfg (IState.init (cfg.init : Cache κ ν) recheck) := by
  refine ⟨rfl, rfl, ?_, ?_, ?_, ?_⟩
  · intro _; simp [IState.init, Cfg.init, Cache.init, heldSize]
  · intro _; simp [IState.init, Cfg.init, Cache.init, hmax]
  · intro _ pc hm; simp [IState.init] at hm
  · intro _ _; simp [IState.init, Cfg.init, Cache.init, hmax]

/-! ### the size clause of the log -/

def probesOk (cfg : Cfg) : List (IRec κ ν) → Bool
  | [] => true
  | .probe tracked held :: older =>
    (!cfg.sizeOn ||
      (decide ((held : Int) ≤ tracked) && decide (tracked ≤ cfg.max) && decide ((held : Int) ≤ cfg.max)))
    && probesOk cfg older
  | _ :: older => probesOk cfg older

theorem iholdsRev_true_iff (cfg : Cfg) (h : List (IRec κ ν)) :
    iholdsRev true cfg h = true ↔ iholdsRev false cfg h = true ∧ probesOk cfg h = true := by
  induction h with
  | nil => simp [iholdsRev, probesOk]
  | cons r older ih =>
    cases r with
    | ins k v st ttl sz => simp [iholdsRev, iRecOk, probesOk, ih]
    | ret k o tc pos => cases o <;> simp [iholdsRev, iRecOk, probesOk, ih, and_assoc]
    | hasRet k b tc pos => cases b <;> simp [iholdsRev, iRecOk, probesOk, ih, and_assoc]
    | probe t hd =>
      simp only [iholdsRev, iRecOk, probesOk, ih, Bool.and_eq_true, Bool.not_true, Bool.false_or,
        Bool.not_false, Bool.true_or, true_and]
      constructor
      · intro h; exact ⟨h.2.1, h.1, h.2.2⟩
      · intro h; exact ⟨h.2.1, h.1, h.2.2⟩

theorem runThread_recheck (s : IState κ ν) (j : Nat) : (runThread s j).recheck = s.recheck := by
  unfold runThread
  cases s.threads[j]? with
  | none => rfl
  | some pc =>
    cases pc <;> simp only <;> (try rfl)
    · split <;> rfl
    · split <;> rfl

theorem runThread_probesOk (cfg : Cfg) (s : IState κ ν) (j : Nat) :
    probesOk cfg (runThread s j).hist = probesOk cfg s.hist := by
  unfold runThread
  cases s.threads[j]? with
  | none => rfl
  | some pc =>
    cases pc <;> simp only <;> (try rfl)
    · split <;> rfl
    · split <;> rfl

/-- everything together, for the repaired code -/
structure KInv (cfg : Cfg) (s : IState κ ν) : Prop where
  h : HInv cfg s
  z : ZInv cfg s
  p : probesOk cfg s.hist = true
  r : s.recheck = true

theorem kinv_istep (cfg : Cfg) (s : IState κ ν) (ev : Sched κ ν) (k : KInv cfg s) : KInv cfg (istep s ev) := by
  refine ⟨hinv_istep cfg s ev k.h, zinv_istep cfg s ev k.z, ?_, ?_⟩
  · cases ev with
    | run j => simp only [istep]; rw [runThread_probesOk]; exact k.p
    | probe =>
      simp only [istep, probesOk, Bool.and_eq_true]
      refine ⟨?_, k.p⟩
      cases hon : cfg.sizeOn with
      | false => simp
      | true =>
        have h1 := k.z.held hon
        have h2 := k.z.strict hon k.r
        simp; omega
    | call cl => exact k.p
    | fire i => exact k.p
    | skip d => exact k.p
    | wstep d => exact k.p
    | adv d => exact k.p
  · cases ev with
    | run j => simp only [istep]; rw [runThread_recheck]; exact k.r
    | _ => exact k.r

theorem kinv_iexec (cfg : Cfg) (es : List (Sched κ ν)) (s : IState κ ν) (k : KInv cfg s) :
    KInv cfg (iexec s es) := by
  induction es generalizing s with
  | nil => exact k
  | cons e es ih => exact ih _ (kinv_istep cfg s e k)

/-! ### a call executed alone is the sequential operation -/

theorem getElem?_snoc {α : Type} (l : List α) (a : α) : (l ++ [a])[l.length]? = some a := by
  induction l with
  | nil => rfl
  | cons hd tl ih => simp [ih]

theorem set_snoc {α : Type} (l : List α) (a b : α) : (l ++ [a]).set l.length b = l ++ [b] := by
  induction l with
  | nil => rfl
  | cons hd tl ih => simp [ih]

theorem set_eq_sections (c : Cache κ ν) (k : κ) (v : ν) (ttl : Int) (sz : Nat) :
    set c k v ttl sz =
      if preCheck c sz then (spawnSec (insertSec c k v (c.now + ttl) sz) k ttl, .ok) else (c, .full) := by
  unfold set preCheck spawnSec insertSec
  by_cases h : (c.sizeOn && decide (c.tracked + (sz : Nat) > c.max)) = true
  · simp [h]
  · simp only [h, Bool.false_eq_true, if_false, Bool.not_false, if_true]
    by_cases httl : ttl > 0 <;> simp [httl]

/-- Running a `Set` call alone (check, clock, insert, spawn back to back) leaves the shared state exactly as the
    sequential `set` does — with or without the re-check. -/
theorem callRun_set_c (s : IState κ ν) (k : κ) (v : ν) (ttl : Int) (sz : Nat) :
    (callRun s (.set k v ttl sz)).c = (set s.c k v ttl sz).1 := by
  obtain ⟨c, l, hist, ov, re⟩ := s
  rw [set_eq_sections]
  simp only [callRun, istep, Call.entry]
  by_cases hp : preCheck c sz = true
  · simp [runThread, getElem?_snoc, set_snoc, hp, insertSec, spawnSec]
  · simp [runThread, getElem?_snoc, set_snoc, hp]

end

end LunarVerif.C12
