import LunarVerif.Proofs.C04Graph
/-!
Walk of the engine (`FlowExec.walk` over the built graph) versus the reference interpreter
(`swalk` over the connection list).
-/
namespace LunarVerif.C04
open LunarVerif.FlowGraph LunarVerif.FlowExec

/-! ### shape invariants of reference results -/

/-- `stop` only without error -/
def SOk (s : SRes) : Prop := s.stop.isSome = true → s.err = none

theorem sok_default : SOk {} := by simp [SOk]

theorem sok_swalkList (rec : String → SRes) (h : ∀ t, SOk (rec t)) : ∀ ts, SOk (swalkList rec ts)
  | [] => sok_default
  | t :: ts => by
    have ht := h t
    have ih := sok_swalkList rec h ts
    unfold swalkList
    simp only
    split
    · exact ht
    · split
      · exact ht
      · exact fun hst => ih hst

theorem sok_swalk (f : SFlow) (o : Oracle) (d : Dir) : ∀ fuel k, SOk (swalk f o d fuel k)
  | 0, _ => by simp [SOk, swalk]
  | fuel + 1, k => by
    unfold swalk
    simp only
    split
    · simp [SOk]
    · split
      · simp [SOk]
      · exact sok_swalkList (swalk f o d fuel) (sok_swalk f o d fuel) (succs (f.conns d) k (o f.name k d).name)

/-! ### the relation between an engine walk and a reference walk -/

/-- `hasRes k`: the answering processor `k` has a node in the response direction.  Events always
    agree; an answering processor without response node makes the engine fail with `respNode`
    (finding F04c) where the reference stops. -/
def Rel (hasRes : String → Bool) (m : WalkRes) (s : SRes) : Prop :=
  m.trace = s.trace ∧
    match s.stop with
    | some k => if hasRes k then (m.sc = some k ∧ m.err = none) else (m.err = some .respNode ∧ m.sc = none)
    | none => m.sc = none ∧ m.err = s.err

theorem loop_rel (hasRes : String → Bool) (recM : String → WalkRes) (recS : String → SRes) (name : String)
    (hsok : ∀ t, SOk (recS t)) :
    ∀ es : List Edge, (∀ e ∈ es, ∀ t, e.target = .node t → Rel hasRes (recM t) (recS t)) →
      Rel hasRes (walkEdges recM name es none) (swalkList recS (matchT name es))
  | [], _ => ⟨rfl, by simp [walkEdges, swalkList, matchT]⟩
  | e :: es, hrec => by
    have ih := loop_rel hasRes recM recS name hsok es (fun e' he' => hrec e' (List.mem_cons_of_mem _ he'))
    rw [matchT_cons]
    unfold walkEdges
    cases ht : e.target with
    | stream n a =>
      have : matchT name [e] = [] := by simp [matchT, ht]
      simpa [this] using ih
    | node t =>
      by_cases hc : e.cond = name
      · have hm : matchT name [e] = [t] := by simp [matchT, ht, hc]
        have hb : (e.cond == name) = true := by simpa using hc
        rw [hm]
        simp only [hb, if_true, List.singleton_append]
        unfold swalkList
        obtain ⟨htr, hrest⟩ := hrec e (List.mem_cons_self ..) t ht
        have hok := hsok t
        simp only
        cases herr : (recS t).err with
        | some er =>
          have hstop : (recS t).stop = none := by
            cases hs : (recS t).stop with
            | none => rfl
            | some k' => have := hok (by simp [hs]); simp [herr] at this
          rw [hstop] at hrest
          have hme : (recM t).err = some er := by rw [hrest.2, herr]
          simp only [hme, Option.isSome_some, if_true]
          exact ⟨htr, by rw [hstop]; exact ⟨hrest.1, by rw [hme, herr]⟩⟩
        | none =>
          simp only [Option.isSome_none, Bool.false_eq_true, if_false]
          cases hs : (recS t).stop with
          | some k' =>
            simp only [Option.isSome_some, if_true]
            rw [hs] at hrest
            simp only at hrest
            by_cases hr : hasRes k' = true
            · rw [if_pos hr] at hrest
              simp only [hrest.2, hrest.1, Option.isSome_none, Option.isSome_some, Bool.false_eq_true, if_false, if_true]
              exact ⟨htr, by simp [hs, hr, hrest.1, hrest.2]⟩
            · rw [if_neg hr] at hrest
              simp only [hrest.1, Option.isSome_some, if_true]
              exact ⟨htr, by simp [hs, hr, hrest.1, hrest.2]⟩
          | none =>
            simp only [Option.isSome_none, Bool.false_eq_true, if_false]
            rw [hs] at hrest
            simp only at hrest
            have hme : (recM t).err = none := by rw [hrest.2, herr]
            simp only [hme, Option.isSome_none, Bool.false_eq_true, if_false, hrest.1]
            obtain ⟨itr, irest⟩ := ih
            exact ⟨by simp [htr, itr], by simpa using irest⟩
      · have hm : matchT name [e] = [] := by simp [matchT, ht, hc]
        have hb : (e.cond == name) = false := by simpa using hc
        simpa [hm, hb] using ih

/-! ### a built flow and its reference view -/

structure Built (rep : FlowRep) (f : Flow) : Prop where
  name : f.name = rep.name
  req : Inv f.req rep.req
  res : Inv f.res rep.res

theorem Built.dir {rep : FlowRep} {f : Flow} (hb : Built rep f) : ∀ d, Inv (f.dir d) (rep.conns d)
  | .req => hb.req
  | .res => hb.res

theorem built_of_buildFlow {pts : List PType} {rep : FlowRep} {f : Flow} (h : buildFlow pts rep = .ok f) :
    Built rep f := by
  unfold buildFlow at h
  cases h1 : buildConnections pts rep.procs .req {} rep.req with
  | error e => simp [h1] at h
  | ok rq =>
    cases h2 : buildConnections pts rep.procs .res {} rep.res with
    | error e => simp [h1, h2] at h
    | ok rs =>
      simp only [h1, h2] at h
      split at h
      · simp at h
      · split at h
        · simp at h
        · split at h
          · simp at h
          · simp only [Except.ok.injEq] at h
            subst h
            exact ⟨rfl, build_inv h1, build_inv h2⟩

def sflowOf (rep : FlowRep) : SFlow := ⟨rep.name, rep.req, rep.res⟩

theorem sflowOf_conns (rep : FlowRep) (d : Dir) : (sflowOf rep).conns d = rep.conns d := by
  cases d <;> rfl

theorem rel_cons {hasRes : String → Bool} {m : WalkRes} {s : SRes} (ev : Event) (h : Rel hasRes m s) :
    Rel hasRes { m with trace := ev :: m.trace } { s with trace := ev :: s.trace } :=
  ⟨by simp [h.1], h.2⟩

/-- **Walk refinement.**  From any node of a built direction, the engine's walk and the reference
    walk are related by `Rel` (equal events; an answering processor without response node makes the
    engine fail with `respNode`). -/
theorem walk_rel {rep : FlowRep} {f : Flow} (hb : Built rep f) (o : Oracle) (d : Dir) :
    ∀ (fuel : Nat) (k : String), ((f.dir d).find k).isSome = true →
      Rel (mentioned rep.res) (walk f o d fuel k) (swalk (sflowOf rep) o d fuel k)
  | 0, k, _ => ⟨rfl, by simp [walk, swalk]⟩
  | fuel + 1, k, hk => by
    unfold walk swalk
    cases hn : (f.dir d).find k with
    | none => simp [hn] at hk
    | some n =>
      have hname : (sflowOf rep).name = f.name := hb.name.symm
      simp only [hname]
      cases hoe : (o f.name k d).err with
      | true =>
        simp only [if_true]
        exact ⟨rfl, by simp⟩
      | false =>
        simp only [Bool.false_eq_true, if_false]
        by_cases hearly : ((o f.name k d).early && d == .req) = true
        · simp only [hearly, if_true]
          have hres := find_isSome_eq hb.res k
          cases hfr : f.res.find k with
          | none =>
            rw [hfr] at hres
            simp only
            refine ⟨rfl, ?_⟩
            have : mentioned rep.res k = false := by simpa using hres.symm
            simp [this]
          | some nr =>
            rw [hfr] at hres
            simp only
            refine ⟨rfl, ?_⟩
            have : mentioned rep.res k = true := by simpa using hres.symm
            simp [this]
        · simp only [hearly, Bool.false_eq_true, if_false]
          have hsucc := node_succs (hb.dir d) hn (o f.name k d).name
          rw [sflowOf_conns, ← hsucc]
          apply rel_cons
          apply loop_rel _ _ _ _ (sok_swalk (sflowOf rep) o d fuel)
          intro e he t ht
          exact walk_rel hb o d fuel t (edge_target_exists (hb.dir d) hn he ht)

end LunarVerif.C04
