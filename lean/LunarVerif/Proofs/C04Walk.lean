import LunarVerif.Proofs.C04Graph
/-!
Walk of the engine (`FlowExec.walk` over the built graph) versus the reference interpreter
(`swalk` over the connection list).
-/
namespace LunarVerif.C04
open LunarVerif.FlowGraph LunarVerif.FlowExec

/-! ### shape invariants of reference results -/

/-- `pending` only together with `stop`; `stop` only without error -/
def SOk (s : SRes) : Prop := (s.pending = true → s.stop.isSome = true) ∧ (s.stop.isSome = true → s.err = none)

theorem sok_default : SOk {} := ⟨by simp, by simp⟩

theorem sok_swalkList (rec : String → SRes) (h : ∀ t, SOk (rec t)) : ∀ ts, SOk (swalkList rec ts)
  | [] => sok_default
  | t :: ts => by
    have ht := h t
    have ih := sok_swalkList rec h ts
    unfold swalkList
    simp only
    split
    · exact ht
    · split
      · rename_i hs
        exact ⟨fun _ => hs, fun _ => ht.2 hs⟩
      · rename_i he hs
        refine ⟨fun hp => ?_, fun hst => ih.2 hst⟩
        simp only [Bool.or_eq_true] at hp
        rcases hp with hp | hp
        · exact absurd (ht.1 hp) hs
        · exact ih.1 hp

theorem sok_swalk (f : SFlow) (o : Oracle) (d : Dir) : ∀ fuel k, SOk (swalk f o d fuel k)
  | 0, _ => ⟨by simp [swalk], by simp [swalk]⟩
  | fuel + 1, k => by
    unfold swalk
    simp only
    split
    · exact ⟨by simp, by simp⟩
    · split
      · exact ⟨by simp, by simp⟩
      · have := sok_swalkList (swalk f o d fuel) (sok_swalk f o d fuel) (succs (f.conns d) k (o f.name k d).name)
        exact this

/-! ### the relation between an engine walk and a reference walk -/

/-- `hasRes k`: the answering processor `k` has a node in the response direction. -/
def Rel (hasRes : String → Bool) (m : WalkRes) (s : SRes) : Prop :=
  s.pending = true ∨
  (m.trace = s.trace ∧
    match s.stop with
    | some k => if hasRes k then (m.sc = some k ∧ m.err = none) else (m.err = some .respNode ∧ m.sc = none)
    | none => m.sc = none ∧ m.err = s.err)

theorem walkEdges_nomatch (rec : String → WalkRes) (name : String) :
    ∀ (es : List Edge) (sc : Option String), matchT name es = [] → walkEdges rec name es sc = { sc := sc }
  | [], sc, _ => rfl
  | e :: es, sc, h => by
    rw [matchT_cons] at h
    have h2 : matchT name es = [] := (List.append_eq_nil_iff.mp h).2
    have h1 : matchT name [e] = [] := (List.append_eq_nil_iff.mp h).1
    unfold walkEdges
    cases ht : e.target with
    | stream n a => simp only; exact walkEdges_nomatch rec name es sc h2
    | node t =>
      simp only
      by_cases hc : e.cond = name
      · exfalso
        simp [matchT, ht, hc] at h1
      · have : (e.cond == name) = false := by simpa using hc
        simp only [this]
        exact walkEdges_nomatch rec name es sc h2

theorem loop_rel (hasRes : String → Bool) (recM : String → WalkRes) (recS : String → SRes) (name : String)
    (hsok : ∀ t, SOk (recS t)) :
    ∀ es : List Edge, (∀ e ∈ es, ∀ t, e.target = .node t → Rel hasRes (recM t) (recS t)) →
      Rel hasRes (walkEdges recM name es none) (swalkList recS (matchT name es))
  | [], _ => Or.inr ⟨rfl, by simp [walkEdges, swalkList, matchT]⟩
  | e :: es, hrec => by
    have ih := loop_rel hasRes recM recS name hsok es (fun e' he' => hrec e' (List.mem_cons_of_mem _ he'))
    rw [matchT_cons]
    unfold walkEdges
    cases ht : e.target with
    | stream n a =>
      have : matchT name [e] = [] := by simp [matchT, ht]
      simpa [this] using ih
    | node t =>
      by_cases hc : e.cond = name
      · have hm : matchT name [e] = [t] := by simp [matchT, ht, hc]
        have hb : (e.cond == name) = true := by simpa using hc
        rw [hm]
        simp only [hb, if_true, List.singleton_append]
        unfold swalkList
        have hrel := hrec e (List.mem_cons_self ..) t ht
        have hok := hsok t
        simp only
        -- case analysis on the reference result of the followed branch
        cases herr : (recS t).err with
        | some er =>
          have hstop : (recS t).stop = none := by
            cases hs : (recS t).stop with
            | none => rfl
            | some k' => have := hok.2 (by simp [hs]); simp [herr] at this
          have hpend : (recS t).pending = false := by
            cases hp : (recS t).pending with
            | false => rfl
            | true => have := hok.1 hp; simp [hstop] at this
          rcases hrel with hrel | ⟨htr, hrest⟩
          · simp [hpend] at hrel
          · rw [hstop] at hrest
            have hme : (recM t).err = some er := by rw [hrest.2, herr]
            simp only [herr, hme, Option.isSome_some, if_true]
            exact Or.inr ⟨htr, by rw [hstop]; exact ⟨hrest.1, by rw [hme, herr]⟩⟩
        | none =>
          simp only [herr, Option.isSome_none, Bool.false_eq_true, if_false]
          cases hs : (recS t).stop with
          | some k' =>
            simp only [Option.isSome_some, if_true]
            rcases hrel with hrel | ⟨htr, hrest⟩
            · exact Or.inl (by simp [hrel])
            · rw [hs] at hrest
              simp only at hrest
              by_cases hne : matchT name es = []
              · -- nothing left to follow
                by_cases hr : hasRes k' = true
                · rw [if_pos hr] at hrest
                  have hme : (recM t).err = none := hrest.2
                  simp only [hme, Option.isSome_none, Bool.false_eq_true, if_false]
                  rw [hrest.1, walkEdges_nomatch recM name es (some k') hne]
                  refine Or.inr ⟨by simp [htr], ?_⟩
                  simp [hs, hr]
                · rw [if_neg hr] at hrest
                  have hme : (recM t).err = some .respNode := hrest.1
                  simp only [hme, Option.isSome_some, if_true]
                  refine Or.inr ⟨htr, ?_⟩
                  simp [hs, hr, hrest]
              · refine Or.inl ?_
                cases hl : matchT name es with
                | nil => exact absurd hl hne
                | cons a as => simp
          | none =>
            simp only [Option.isSome_none, Bool.false_eq_true, if_false]
            have hpend : (recS t).pending = false := by
              cases hp : (recS t).pending with
              | false => rfl
              | true => have := hok.1 hp; simp [hs] at this
            rcases hrel with hrel | ⟨htr, hrest⟩
            · simp [hpend] at hrel
            · rw [hs] at hrest
              simp only at hrest
              have hme : (recM t).err = none := by rw [hrest.2, herr]
              simp only [hme, Option.isSome_none, Bool.false_eq_true, if_false, hrest.1]
              rcases ih with ih | ⟨itr, irest⟩
              · exact Or.inl (by simp [ih])
              · refine Or.inr ⟨by simp [htr, itr], ?_⟩
                simpa using irest
      · have hm : matchT name [e] = [] := by simp [matchT, ht, hc]
        have hb : (e.cond == name) = false := by simpa using hc
        simpa [hm, hb] using ih

/-! ### a built flow and its reference view -/

structure Built (rep : FlowRep) (f : Flow) : Prop where
  name : f.name = rep.name
  req : Inv f.req rep.req
  res : Inv f.res rep.res

theorem Built.dir {rep : FlowRep} {f : Flow} (hb : Built rep f) : ∀ d, Inv (f.dir d) (rep.conns d)
  | .req => hb.req
  | .res => hb.res

theorem built_of_buildFlow {pts : List PType} {rep : FlowRep} {f : Flow} (h : buildFlow pts rep = .ok f) :
    Built rep f := by
  unfold buildFlow at h
  cases h1 : buildConnections pts rep.procs .req {} rep.req with
  | error e => simp [h1] at h
  | ok rq =>
    cases h2 : buildConnections pts rep.procs .res {} rep.res with
    | error e => simp [h1, h2] at h
    | ok rs =>
      simp only [h1, h2] at h
      split at h
      · simp at h
      · split at h
        · simp at h
        · split at h
          · simp at h
          · simp only [Except.ok.injEq] at h
            subst h
            exact ⟨rfl, build_inv h1, build_inv h2⟩

def sflowOf (rep : FlowRep) : SFlow := ⟨rep.name, rep.req, rep.res⟩

theorem sflowOf_conns (rep : FlowRep) (d : Dir) : (sflowOf rep).conns d = rep.conns d := by
  cases d <;> rfl

theorem rel_cons {hasRes : String → Bool} {m : WalkRes} {s : SRes} (ev : Event) (h : Rel hasRes m s) :
    Rel hasRes { m with trace := ev :: m.trace } { s with trace := ev :: s.trace } := by
  rcases h with h | ⟨htr, hrest⟩
  · exact Or.inl h
  · exact Or.inr ⟨by simp [htr], hrest⟩

/-- **Walk refinement.**  From any node of a built direction, the engine's walk and the reference
    walk are related by `Rel` (equal unless the reference run is in the class of F04b; an answering
    processor without response node makes the engine fail with `respNode`). -/
theorem walk_rel {rep : FlowRep} {f : Flow} (hb : Built rep f) (o : Oracle) (d : Dir) :
    ∀ (fuel : Nat) (k : String), ((f.dir d).find k).isSome = true →
      Rel (mentioned rep.res) (walk f o d fuel k) (swalk (sflowOf rep) o d fuel k)
  | 0, k, _ => Or.inr ⟨rfl, by simp [walk, swalk]⟩
  | fuel + 1, k, hk => by
    unfold walk swalk
    cases hn : (f.dir d).find k with
    | none => simp [hn] at hk
    | some n =>
      have hname : (sflowOf rep).name = f.name := hb.name.symm
      simp only [hname]
      cases hoe : (o f.name k d).err with
      | true =>
        simp only [if_true]
        exact Or.inr ⟨rfl, by simp⟩
      | false =>
        simp only [Bool.false_eq_true, if_false]
        by_cases hearly : ((o f.name k d).early && d == .req) = true
        · simp only [hearly, if_true]
          have hres := find_isSome_eq hb.res k
          cases hfr : f.res.find k with
          | none =>
            rw [hfr] at hres
            simp only
            refine Or.inr ⟨rfl, ?_⟩
            have : mentioned rep.res k = false := by simpa using hres.symm
            simp [this]
          | some nr =>
            rw [hfr] at hres
            simp only
            refine Or.inr ⟨rfl, ?_⟩
            have : mentioned rep.res k = true := by simpa using hres.symm
            simp [this]
        · simp only [hearly, Bool.false_eq_true, if_false]
          have hsucc := node_succs (hb.dir d) hn (o f.name k d).name
          rw [sflowOf_conns, ← hsucc]
          apply rel_cons
          apply loop_rel _ _ _ _ (sok_swalk (sflowOf rep) o d fuel)
          intro e he t ht
          exact walk_rel hb o d fuel t (edge_target_exists (hb.dir d) hn he ht)

end LunarVerif.C04
