import LunarVerif.Proofs.C01Hist
/-! C01: strict exactness, one request at a time, for every well-formed hierarchy (after the repair of
F01a: a charge is given back when a quota further up refuses). -/
namespace LunarVerif.C01

/-- In every window of the list all charged arrivals were let through. -/
def EqL (ws : List Win) : Prop := ∀ w ∈ ws, w.admitted = w.charged

def EqAll (ss : SSt) : Prop := ∀ k, EqL (ss.at k)

theorem eqL_charge_admit (win t cost : Nat) (ws : List Win) (h : EqL ws) : EqL (admitWin cost (chargeWin win t cost ws)) := by
  cases ws with
  | nil => intro w hw; simp [chargeWin, admitWin] at hw; subst hw; simp
  | cons v rest =>
    by_cases ho : outside win v.start t = true
    · intro w hw
      simp only [chargeWin, ho, if_true, admitWin, List.mem_cons] at hw
      rcases hw with hw | hw | hw
      · subst hw; simp
      · subst hw; exact h _ (by simp)
      · exact h w (by simp [hw])
    · intro w hw
      simp only [chargeWin, ho, Bool.false_eq_true, if_false, admitWin, List.mem_cons] at hw
      rcases hw with hw | hw
      · subst hw
        have := h v (by simp)
        simp [this]
      · exact h w (by simp [hw])

theorem eqL_charge_refund (win t cost : Nat) (ws : List Win) (h : EqL ws) : EqL (refundWin cost (chargeWin win t cost ws)) := by
  cases ws with
  | nil => intro w hw; simp [chargeWin, refundWin] at hw; subst hw; simp
  | cons v rest =>
    by_cases ho : outside win v.start t = true
    · intro w hw
      simp only [chargeWin, ho, if_true, refundWin, List.mem_cons] at hw
      rcases hw with hw | hw | hw
      · subst hw; simp
      · subst hw; exact h _ (by simp)
      · exact h w (by simp [hw])
    · intro w hw
      simp only [chargeWin, ho, Bool.false_eq_true, if_false, refundWin, List.mem_cons] at hw
      rcases hw with hw | hw
      · subst hw
        have := h v (by simp)
        simp [this]
      · exact h w (by simp [hw])

theorem curAdmitted_eq (win t : Nat) (ws : List Win) (h : EqL ws) :
    curAdmitted win t ws = curCharged win t ws := by
  cases ws with
  | nil => rfl
  | cons w rest => simp [curAdmitted, curCharged, h w (by simp)]

theorem keys_ne {a : QId} {c : QuotaCfg} {rest : List (QId × QuotaCfg)} (h : Hdrs)
    (hnd : (((a, c) :: rest).map (·.1)).Nodup) : ∀ q ∈ rest, keyOf q h ≠ (a, groupOf c h) := by
  simp only [List.map_cons, List.nodup_cons] at hnd
  intro q hq e
  have : q.1 = a := congrArg Prod.fst e
  exact hnd.1 (by rw [← this]; exact List.mem_map_of_mem hq)

theorem nodup_tail {a : QId} {c : QuotaCfg} {rest : List (QId × QuotaCfg)}
    (hnd : (((a, c) :: rest).map (·.1)).Nodup) : (rest.map (·.1)).Nodup := by
  simp only [List.map_cons, List.nodup_cons] at hnd
  exact hnd.2

/-- An arrival that is not charged to the whole chain leaves `admitted = charged` everywhere. -/
theorem sInc_false_at (t : Nat) (h : Hdrs) : ∀ (ch : List (QId × QuotaCfg)) (ss : SSt),
    (ch.map (·.1)).Nodup → (sInc ss ch t h).2 = false →
    ∀ q, EqL (ss.at q) → EqL ((sInc ss ch t h).1.at q) := by
  intro ch
  induction ch with
  | nil => intro ss _ hf; simp [sInc] at hf
  | cons ac rest ih =>
    intro ss hnd hf q hq
    obtain ⟨a, c⟩ := ac
    have hother := keys_ne h hnd
    rw [sInc_cons] at hf ⊢
    by_cases hblk : c.max < curCharged c.win t (ss.at (a, groupOf c h)) + costOf c h
    · simp only [hblk, if_true]; exact hq
    · simp only [hblk, if_false] at hf ⊢
      by_cases hup : (sInc (KMap.set ss (a, groupOf c h) (chargeWin c.win t (costOf c h) (ss.at (a, groupOf c h)))) rest t h).2 = true
      · simp [hup] at hf
      · simp only [hup, Bool.false_eq_true, if_false]
        rw [SSt.at_set]
        by_cases hk : (a, groupOf c h) = q
        · subst hk
          simp only [if_true]
          rw [sInc_at_other _ _ _ _ _ hother, SSt.at_set]
          simp only [if_true]
          exact eqL_charge_refund _ _ _ _ hq
        · simp only [hk, if_false]
          apply ih _ (nodup_tail hnd) (by simpa using hup) q
          rw [SSt.at_set]; simpa [hk] using hq

theorem mem_keys_cons {a : QId} {c : QuotaCfg} {rest : List (QId × QuotaCfg)} {h : Hdrs} {q : Key}
    (hk : (a, groupOf c h) ≠ q) :
    (q ∈ ((a, c) :: rest).map (fun p => keyOf p h)) ↔ (q ∈ rest.map (fun p => keyOf p h)) := by
  simp only [List.map_cons, List.mem_cons, keyOf]
  constructor
  · rintro (e | e)
    · exact absurd e.symm hk
    · exact e
  · exact fun e => Or.inr e

/-- An arrival charged to the whole chain: each level of the chain is one admission (of what the
    request counts there) short of `admitted = charged`, the other levels are untouched. -/
theorem sInc_true_at (t : Nat) (h : Hdrs) : ∀ (ch : List (QId × QuotaCfg)) (ss : SSt),
    (ch.map (·.1)).Nodup → (sInc ss ch t h).2 = true →
    ∀ q, EqL (ss.at q) →
      (∀ p ∈ ch, keyOf p h = q → EqL (admitWin (costOf p.2 h) ((sInc ss ch t h).1.at q))) ∧
      (q ∉ ch.map (fun p => keyOf p h) → EqL ((sInc ss ch t h).1.at q)) := by
  intro ch
  induction ch with
  | nil => intro ss _ _ q hq; exact ⟨fun p hp => by simp at hp, fun _ => by simpa [sInc] using hq⟩
  | cons ac rest ih =>
    intro ss hnd hok q hq
    obtain ⟨a, c⟩ := ac
    have hother := keys_ne h hnd
    rw [sInc_cons] at hok ⊢
    by_cases hblk : c.max < curCharged c.win t (ss.at (a, groupOf c h)) + costOf c h
    · simp [hblk] at hok
    · simp only [hblk, if_false] at hok ⊢
      by_cases hup : (sInc (KMap.set ss (a, groupOf c h) (chargeWin c.win t (costOf c h) (ss.at (a, groupOf c h)))) rest t h).2 = true
      · simp only [hup, if_true]
        by_cases hk : (a, groupOf c h) = q
        · subst hk
          constructor
          · intro p hp hkey
            simp only [List.mem_cons] at hp
            rcases hp with hp | hp
            · subst hp
              rw [sInc_at_other _ _ _ _ _ hother, SSt.at_set]
              simp only [if_true]
              exact eqL_charge_admit _ _ _ _ hq
            · exact absurd hkey (hother p hp)
          · intro hnot
            exfalso; apply hnot; simp [keyOf]
        · have := ih _ (nodup_tail hnd) hup q (by rw [SSt.at_set]; simpa [hk] using hq)
          constructor
          · intro p hp hkey
            simp only [List.mem_cons] at hp
            rcases hp with hp | hp
            · subst hp; exact absurd hkey hk
            · exact this.1 p hp hkey
          · intro hnot
            exact this.2 (fun hm => hnot ((mem_keys_cons hk).mpr hm))
      · simp [hup] at hok

theorem sAdmit_at (h : Hdrs) : ∀ (ch : List (QId × QuotaCfg)) (ss : SSt), (ch.map (·.1)).Nodup →
    (∀ p ∈ ch, (sAdmit ss ch h).at (keyOf p h) = admitWin (costOf p.2 h) (ss.at (keyOf p h))) ∧
    (∀ q, q ∉ ch.map (fun p => keyOf p h) → (sAdmit ss ch h).at q = ss.at q) := by
  intro ch
  induction ch with
  | nil => intro ss _; exact ⟨fun p hp => by simp at hp, fun q _ => by simp [sAdmit]⟩
  | cons ac rest ih =>
    intro ss hnd
    obtain ⟨a, c⟩ := ac
    have hother := keys_ne h hnd
    have hnot : (a, groupOf c h) ∉ rest.map (fun p => keyOf p h) := by
      intro hm
      obtain ⟨p, hp, e⟩ := List.mem_map.mp hm
      exact hother p hp e
    obtain ⟨ih1, ih2⟩ := ih (KMap.set ss (a, groupOf c h) (admitWin (costOf c h) (ss.at (a, groupOf c h)))) (nodup_tail hnd)
    rw [sAdmit_cons]
    constructor
    · intro p hp
      simp only [List.mem_cons] at hp
      rcases hp with hp | hp
      · subst hp
        show (sAdmit _ rest h).at (a, groupOf c h) = _
        rw [ih2 _ hnot, SSt.at_set]; simp [keyOf]
      · rw [ih1 p hp, SSt.at_set]
        simp [Ne.symm (hother p hp)]
    · intro q hq
      have hk : (a, groupOf c h) ≠ q := by
        intro e; apply hq; simp [keyOf, e]
      rw [ih2 q (fun hm => hq ((mem_keys_cons hk).mpr hm)), SSt.at_set]
      simp [hk]

/-- If the arrival is not charged to the whole chain, some quota of the chain had no room. -/
theorem sInc_false_full (t : Nat) (h : Hdrs) : ∀ (ch : List (QId × QuotaCfg)) (ss : SSt),
    (ch.map (·.1)).Nodup → (sInc ss ch t h).2 = false → fullCharged ss ch t h = true := by
  intro ch
  induction ch with
  | nil => intro ss _ hf; simp [sInc] at hf
  | cons ac rest ih =>
    intro ss hnd hf
    obtain ⟨a, c⟩ := ac
    have hother := keys_ne h hnd
    rw [sInc_cons] at hf
    by_cases hblk : c.max < curCharged c.win t (ss.at (a, groupOf c h)) + costOf c h
    · simp only [fullCharged, List.any_cons, Bool.or_eq_true, decide_eq_true_eq]
      left; exact hblk
    · simp only [hblk, if_false] at hf
      by_cases hup : (sInc (KMap.set ss (a, groupOf c h) (chargeWin c.win t (costOf c h) (ss.at (a, groupOf c h)))) rest t h).2 = true
      · simp [hup] at hf
      · have := ih _ (nodup_tail hnd) (by simpa using hup)
        have hc : fullCharged (KMap.set ss (a, groupOf c h) (chargeWin c.win t (costOf c h) (ss.at (a, groupOf c h)))) rest t h
            = fullCharged ss rest t h := by
          apply fullCharged_congr
          intro p hp
          rw [SSt.at_set]
          simp [Ne.symm (hother p hp)]
        rw [hc] at this
        have hh : fullCharged ss ((a, c) :: rest) t h =
            (decide (c.max < curCharged c.win t (ss.at (a, groupOf c h)) + costOf c h)
            || fullCharged ss rest t h) := by simp [fullCharged]
        rw [hh, this]; simp

theorem full_admitted_of_charged (ss : SSt) (t : Nat) (h : Hdrs) (heq : EqAll ss) : ∀ (ch : List (QId × QuotaCfg)),
    fullCharged ss ch t h = true → fullAdmitted ss ch t h = true := by
  intro ch
  induction ch with
  | nil => intro hf; simp [fullCharged] at hf
  | cons ac rest ih =>
    intro hf
    obtain ⟨a, c⟩ := ac
    simp only [fullCharged, fullAdmitted, List.any_cons, Bool.or_eq_true, decide_eq_true_eq] at hf ⊢
    rcases hf with hf | hf
    · left; rw [curAdmitted_eq _ _ _ (heq _)]; exact hf
    · right; exact ih hf

/-- One request at a time, every request id new: a refused limiter call met a quota of its chain that
    had no room left for what the request counts there, given what it had already let through in its
    current window. -/
theorem seq_exact_run (cfg : Cfg) (hpf : ParentsFirst cfg) : ∀ (ops : List Op) (st : St) (ss : SSt) (arr : List (Rid × Hdrs)),
    LevelsRel cfg st ss → AmtInv cfg st arr →
    (∀ r ∈ opArr ops, ∀ k, (st.at k).memo.lookup r = none) → nodupB (opArr ops) = true →
    (∀ o ∈ ops, o.kind = .req) → EqAll ss →
    exactFrom cfg fullAdmitted ss (observe cfg st ops) = true := by
  intro ops
  induction ops with
  | nil => intro st ss arr _ _ _ _ _ _; rfl
  | cons o os ih =>
    intro st ss arr hrel hamt hfresh hnd hreq heq
    obtain ⟨hf', hnd', hfo⟩ := fresh_step cfg st o os hfresh hnd
    have hk : o.kind = .req := hreq o (by simp)
    obtain ⟨hrel', hans⟩ := apiStep_rel cfg hpf st ss arr o hrel hamt hfo (by intro ha; rw [hk] at ha; simp at ha)
    have hamt' := apiStep_amt cfg st arr o hamt hfo
    have hans := hans hk
    have hcn := chain_nodup cfg hpf o.q
    -- the reconstruction keeps `admitted = charged`
    have heq' : EqAll (sStep cfg ss ⟨o, (apiStep cfg st o).2⟩) := by
      rw [hans]
      intro q
      cases hb : (sInc ss (chain cfg o.q) o.t o.h).2 with
      | true =>
        simp only [sStep, hk]
        obtain ⟨a1, a2⟩ := sAdmit_at o.h _ (sInc ss (chain cfg o.q) o.t o.h).1 hcn
        obtain ⟨t1, t2⟩ := sInc_true_at o.t o.h _ ss hcn hb q (heq q)
        by_cases hm : q ∈ (chain cfg o.q).map (fun p => keyOf p o.h)
        · obtain ⟨p, hp, e⟩ := List.mem_map.mp hm
          rw [← e, a1 p hp, e]
          exact t1 p hp e
        · rw [a2 q hm]; exact t2 hm
      | false =>
        simp only [sStep, hk]
        exact sInc_false_at o.t o.h _ ss hcn hb q (heq q)
    have ih' := ih _ _ _ hrel' hamt' hf' hnd' (fun o ho => hreq o (by simp [ho])) heq'
    simp only [observe, exactFrom, ih', Bool.and_true]
    by_cases hc : (o.kind == Kind.req && (apiStep cfg st o).2 == some false) = true
    · simp only [hc, if_true]
      simp only [Bool.and_eq_true, beq_iff_eq] at hc
      rw [hans] at hc
      have hfalse : (sInc ss (chain cfg o.q) o.t o.h).2 = false := by
        have := hc.2; simpa using this
      exact full_admitted_of_charged ss o.t o.h heq _ (sInc_false_full o.t o.h _ ss hcn hfalse)
    · simp [hc]

end LunarVerif.C01
