import LunarVerif.Proofs.C05Perm
/-!
C05, part 5: EVERY cyclic reference graph is refused.  If `buildX` succeeds on a connection list, then along
every chain of flow references starting there (`RefChain`) no flow repeats, none is on the in-progress stack,
none is the flow under construction.  So a reference cycle reachable from the flow under construction — whether
it passes through that flow (self reference, A ⇄ B, rings) or not (rho shapes: a tail into a cycle) — makes the
build fail; by `build_terminates` it fails with an ERROR, not by exhausting the fuel.
The proof uses that `incorporateFlow` records the flow being INCORPORATED (`tgt :: stack`).
-/
namespace LunarVerif.C05
open LunarVerif.FlowGraph LunarVerif.FlowExec

/-- the flow a connection references (`processor → flow X start`, `flow X end → processor`) -/
def refTarget (c : XConn) : Option String :=
  match c.src, c.dst with
  | .proc _ _, .flow t at_ => if at_ == "start" then some t else none
  | .flow s at_, .proc _ _ => if at_ == "end" then some s else none
  | _, _ => none

def refTargets (cs : List XConn) : List String := cs.filterMap refTarget

/-- `y₁ :: y₂ :: …` is a chain of references: `y₁` is referenced by `cs`, `y₂` by the connections of `y₁`, … -/
def RefChain (fs : List XFlow) (d : Dir) : List XConn → List String → Prop
  | _, [] => True
  | cs, y :: rest => y ∈ refTargets cs ∧ ∃ tf, findFlow fs y = some tf ∧ RefChain fs d (tf.conns d) rest

theorem stepX_ok_inc (pts : List PType) (fs : List XFlow) (home : String) (d : Dir)
    (inc : String → BS → Except XErr BS) (cur : String) (s s' : BS) (c : XConn) (y : String)
    (h : stepX pts fs home d inc cur s c = .ok s') (hy : refTarget c = some y) :
    ∃ s0 s2, inc y s0 = .ok s2 := by
  obtain ⟨src, dst⟩ := c
  cases src <;> cases dst <;> simp only [refTarget] at hy <;> first | (simp at hy; done) | skip
  · -- processor → flow
    rename_i f cond t at_
    by_cases hat : (at_ == "start") = true
    · simp only [hat, if_true, Option.some.injEq] at hy
      subst hy
      unfold stepX at h
      simp only [hat, if_true] at h
      split at h
      · exact absurd h (by simp)
      · split at h
        · exact absurd h (by simp)
        · rename_i s1 _
          split at h
          · exact absurd h (by simp)
          · rename_i s2 hinc
            exact ⟨s1, s2, hinc⟩
    · simp [hat] at hy
  · -- flow → processor
    rename_i src at_ t c2
    by_cases hat : (at_ == "end") = true
    · simp only [hat, if_true, Option.some.injEq] at hy
      subst hy
      unfold stepX at h
      simp only [hat, if_true] at h
      split at h
      · exact absurd h (by simp)
      · split at h
        · exact absurd h (by simp)
        · rename_i s1 _
          split at h
          · exact absurd h (by simp)
          · rename_i s3 hinc
            exact ⟨_, s3, hinc⟩
    · simp [hat] at hy

/-- one level: every flow referenced by a successfully built connection list was found, is neither in progress
    nor the flow under construction, and was itself built successfully with the stack extended by it -/
theorem buildX_ok_refs (pts : List PType) (fs : List XFlow) (home : String) (d : Dir) :
    ∀ (cs : List XConn) (fuel : Nat) (stack : List String) (cur : String) (s s' : BS),
      buildX pts fs home d fuel stack cur s cs = .ok s' → ∀ y ∈ refTargets cs,
      ∃ tf, findFlow fs y = some tf ∧ y ∉ stack ∧ y ≠ home ∧
        ∃ fuel' s0 s2, buildX pts fs home d fuel' (y :: stack) y s0 (tf.conns d) = .ok s2
  | [], _, _, _, _, _, _, y, hy => by simp [refTargets] at hy
  | c :: cs, 0, _, _, _, _, h, _, _ => by simp [buildX] at h
  | c :: cs, fuel + 1, stack, cur, s, s', h, y, hy => by
    unfold buildX at h
    simp only [] at h
    split at h
    · exact absurd h (by simp)
    · rename_i s1 hstep
      simp only [refTargets, List.filterMap_cons] at hy
      cases hc : refTarget c with
      | none =>
        simp only [hc] at hy
        exact buildX_ok_refs pts fs home d cs fuel stack cur s1 s' h y hy
      | some z =>
        simp only [hc, List.mem_cons] at hy
        rcases hy with rfl | hy
        · obtain ⟨s0, s2, hinc⟩ := stepX_ok_inc pts fs home d _ cur s s1 c y hstep hc
          cases hf : findFlow fs y with
          | none => simp [hf] at hinc
          | some tf =>
            simp only [hf] at hinc
            split at hinc
            · exact absurd hinc (by simp)
            · rename_i hcond
              simp only [Bool.or_eq_true, not_or, Bool.not_eq_true] at hcond
              refine ⟨tf, rfl, ?_, ?_, fuel, s0, s2, hinc⟩
              · intro hin
                have := hcond.1
                simp [hin] at this
              · intro heq
                have := hcond.2
                simp [heq] at this
        · exact buildX_ok_refs pts fs home d cs fuel stack cur s1 s' h y hy

/-- along every chain of references below a successful build no flow repeats, none is in progress, none is
    the flow under construction -/
theorem buildX_ok_chain (pts : List PType) (fs : List XFlow) (home : String) (d : Dir) :
    ∀ (p : List String) (cs : List XConn) (fuel : Nat) (stack : List String) (cur : String) (s s' : BS),
      buildX pts fs home d fuel stack cur s cs = .ok s' → RefChain fs d cs p →
      p.Nodup ∧ ∀ y ∈ p, y ∉ stack ∧ y ≠ home
  | [], _, _, _, _, _, _, _, _ => ⟨List.nodup_nil, fun y hy => by simp at hy⟩
  | y :: rest, cs, fuel, stack, cur, s, s', h, hch => by
    obtain ⟨hy, tf, hf, hrest⟩ := hch
    obtain ⟨tf', hf', hns, hnh, fuel', s0, s2, hsub⟩ := buildX_ok_refs pts fs home d cs fuel stack cur s s' h y hy
    have : tf' = tf := by rw [hf] at hf'; exact (Option.some.inj hf').symm
    subst this
    have ih := buildX_ok_chain pts fs home d rest (tf'.conns d) fuel' (y :: stack) y s0 s2 hsub hrest
    refine ⟨List.nodup_cons.mpr ⟨?_, ih.1⟩, ?_⟩
    · intro hin
      exact (ih.2 y hin).1 List.mem_cons_self
    · intro z hz
      rcases List.mem_cons.mp hz with rfl | hz'
      · exact ⟨hns, hnh⟩
      · exact ⟨fun hin => (ih.2 z hz').1 (List.mem_cons_of_mem _ hin), (ih.2 z hz').2⟩

end LunarVerif.C05
