import LunarVerif.Spec.C12
/-! Helper lemmas for C12 (cache level): association lists, what each operation does to the stored
entries, the size invariant, and the invariant tying stored entries to the observable history. -/
set_option linter.unusedSectionVars false
set_option linter.unusedSimpArgs false
namespace LunarVerif.C12

section
variable {κ ν α : Type} [DecidableEq κ]

/-! ### association lists -/

theorem find?_erase (k k' : κ) (l : List (κ × α)) :
    find? k' (erase k l) = if k' = k then none else find? k' l := by
  induction l with
  | nil => simp [erase, find?]
  | cons p rest ih =>
    by_cases hp : p.1 = k
    · simp only [erase, hp, if_true, ih, find?]
      by_cases hk : k' = k
      · simp [hk]
      · have : ¬ k = k' := fun h => hk h.symm
        simp [hk, this]
    · simp only [erase, hp, if_false, find?, ih]
      by_cases hk : k' = k
      · subst hk; simp [hp]
      · simp [hk]

theorem find?_erase_some {k k' : κ} {l : List (κ × α)} {a : α} (h : find? k' (erase k l) = some a) :
    k' ≠ k ∧ find? k' l = some a := by
  rw [find?_erase] at h
  by_cases hk : k' = k
  · simp [hk] at h
  · simp [hk] at h; exact ⟨hk, h⟩

theorem heldSize_erase_le (k : κ) (l : List (κ × Entry ν)) :
    heldSize (erase k l) + foundSize k l ≤ heldSize l := by
  induction l with
  | nil => simp [erase, heldSize, foundSize, find?]
  | cons p rest ih =>
    by_cases hp : p.1 = k
    · have h1 : heldSize (erase k rest) ≤ heldSize rest := by omega
      simp only [erase, hp, if_true, heldSize, foundSize, find?]
      omega
    · have : foundSize k (p :: rest) = foundSize k rest := by simp [foundSize, find?, hp]
      simp only [erase, hp, if_false, heldSize, this]
      omega

/-! ### what the operations do to entries, clock and settings -/

@[simp] theorem clearKey_entries (c : Cache κ ν) (k : κ) : (clearKey c k).entries = erase k c.entries := rfl
@[simp] theorem clearKey_now (c : Cache κ ν) (k : κ) : (clearKey c k).now = c.now := rfl
@[simp] theorem clearKey_sizeOn (c : Cache κ ν) (k : κ) : (clearKey c k).sizeOn = c.sizeOn := rfl
@[simp] theorem clearKey_max (c : Cache κ ν) (k : κ) : (clearKey c k).max = c.max := rfl
@[simp] theorem clearKey_pending (c : Cache κ ν) (k : κ) : (clearKey c k).pending = c.pending := rfl

theorem clearAll_now (c : Cache κ ν) (l : List (Sleeper κ)) : (clearAll c l).now = c.now := by
  induction l generalizing c with
  | nil => rfl
  | cons s rest ih => simp [clearAll, ih]

theorem clearAll_sizeOn (c : Cache κ ν) (l : List (Sleeper κ)) : (clearAll c l).sizeOn = c.sizeOn := by
  induction l generalizing c with
  | nil => rfl
  | cons s rest ih => simp [clearAll, ih]

theorem clearAll_max (c : Cache κ ν) (l : List (Sleeper κ)) : (clearAll c l).max = c.max := by
  induction l generalizing c with
  | nil => rfl
  | cons s rest ih => simp [clearAll, ih]

theorem find?_clearAll {c : Cache κ ν} {l : List (Sleeper κ)} {k : κ} {e : Entry ν}
    (h : find? k (clearAll c l).entries = some e) : find? k c.entries = some e := by
  induction l generalizing c with
  | nil => exact h
  | cons s rest ih =>
    have := ih (c := clearKey c s.key) h
    exact (find?_erase_some this).2

theorem erase_erase (k : κ) (l : List (κ × α)) : erase k (erase k l) = erase k l := by
  induction l with
  | nil => rfl
  | cons p rest ih =>
    by_cases hp : p.1 = k
    · simp [erase, hp, ih]
    · simp [erase, hp, ih]

theorem set_eq_full {c : Cache κ ν} (k : κ) (v : ν) (ttl : Int) (sz : Nat)
    (h : c.sizeOn = true ∧ c.tracked + (sz : Nat) > c.max) : set c k v ttl sz = (c, .full) := by
  unfold set
  simp [h.1, h.2]

theorem set_eq_pos {c : Cache κ ν} (k : κ) (v : ν) (ttl : Int) (sz : Nat)
    (h : ¬ (c.sizeOn = true ∧ c.tracked + (sz : Nat) > c.max)) (httl : ttl > 0) :
    set c k v ttl sz =
      ({ c with entries := (k, ⟨v, c.now + ttl, sz⟩) :: erase k c.entries,
                tracked := if c.sizeOn then c.tracked + (sz : Nat) else c.tracked,
                pending := insertSleeper ⟨c.mono + ttl, k⟩ c.pending }, .ok) := by
  unfold set
  have hcond : (c.sizeOn && decide (c.tracked + (sz : Nat) > c.max)) = false := by
    cases hs : c.sizeOn with
    | false => simp
    | true =>
      have : ¬ c.tracked + (sz : Nat) > c.max := fun x => h ⟨hs, x⟩
      simp [this]
  simp only [hcond, Bool.false_eq_true, if_false, httl, if_true]

theorem set_eq_nonpos {c : Cache κ ν} (k : κ) (v : ν) (ttl : Int) (sz : Nat)
    (h : ¬ (c.sizeOn = true ∧ c.tracked + (sz : Nat) > c.max)) (httl : ¬ ttl > 0) :
    set c k v ttl sz = ({ c with entries := erase k c.entries }, .ok) := by
  unfold set
  have hcond : (c.sizeOn && decide (c.tracked + (sz : Nat) > c.max)) = false := by
    cases hs : c.sizeOn with
    | false => simp
    | true =>
      have : ¬ c.tracked + (sz : Nat) > c.max := fun x => h ⟨hs, x⟩
      simp [this]
  simp only [hcond, Bool.false_eq_true, if_false, httl]
  simp only [clearKey, foundSize, find?, erase, if_true, erase_erase]
  cases c.sizeOn with
  | false => simp
  | true => simp

/-- Outcome of `set`, spelled out. -/
theorem set_cases (c : Cache κ ν) (k : κ) (v : ν) (ttl : Int) (sz : Nat) :
    ((c.sizeOn = true ∧ c.tracked + (sz : Nat) > c.max) ∧ set c k v ttl sz = (c, .full)) ∨
    (¬ (c.sizeOn = true ∧ c.tracked + (sz : Nat) > c.max) ∧ (set c k v ttl sz).2 = .ok ∧
      (set c k v ttl sz).1.now = c.now ∧ (set c k v ttl sz).1.sizeOn = c.sizeOn ∧
      (set c k v ttl sz).1.max = c.max ∧
      ((ttl > 0 ∧ (set c k v ttl sz).1.entries = (k, ⟨v, c.now + ttl, sz⟩) :: erase k c.entries ∧
          (set c k v ttl sz).1.tracked = (if c.sizeOn then c.tracked + (sz : Nat) else c.tracked)) ∨
       (¬ ttl > 0 ∧ (set c k v ttl sz).1.entries = erase k c.entries ∧
          (set c k v ttl sz).1.tracked = c.tracked))) := by
  by_cases hfull : c.sizeOn = true ∧ c.tracked + (sz : Nat) > c.max
  · left; exact ⟨hfull, set_eq_full k v ttl sz hfull⟩
  · right
    refine ⟨hfull, ?_⟩
    by_cases httl : ttl > 0
    · rw [set_eq_pos k v ttl sz hfull httl]
      exact ⟨rfl, rfl, rfl, rfl, Or.inl ⟨httl, rfl, rfl⟩⟩
    · rw [set_eq_nonpos k v ttl sz hfull httl]
      exact ⟨rfl, rfl, rfl, rfl, Or.inr ⟨httl, rfl, rfl⟩⟩

theorem set_full_eq {c : Cache κ ν} {k : κ} {v : ν} {ttl : Int} {sz : Nat}
    (h : (set c k v ttl sz).2 = .full) : (set c k v ttl sz).1 = c := by
  rcases set_cases c k v ttl sz with ⟨_, h1⟩ | ⟨_, h2, _⟩
  · rw [h1]
  · rw [h2] at h; cases h

theorem set_now (c : Cache κ ν) (k : κ) (v : ν) (ttl : Int) (sz : Nat) : (set c k v ttl sz).1.now = c.now := by
  rcases set_cases c k v ttl sz with ⟨_, h1⟩ | ⟨_, _, h2, _⟩
  · rw [h1]
  · exact h2

theorem set_sizeOn (c : Cache κ ν) (k : κ) (v : ν) (ttl : Int) (sz : Nat) :
    (set c k v ttl sz).1.sizeOn = c.sizeOn := by
  rcases set_cases c k v ttl sz with ⟨_, h1⟩ | ⟨_, _, _, h2, _⟩
  · rw [h1]
  · exact h2

theorem set_max (c : Cache κ ν) (k : κ) (v : ν) (ttl : Int) (sz : Nat) : (set c k v ttl sz).1.max = c.max := by
  rcases set_cases c k v ttl sz with ⟨_, h1⟩ | ⟨_, _, _, _, h2, _⟩
  · rw [h1]
  · exact h2

/-- An entry present after `set` is the one just stored (only if the store succeeded) or was there before. -/
theorem find?_set {c : Cache κ ν} {k k' : κ} {v : ν} {ttl : Int} {sz : Nat} {e : Entry ν}
    (h : find? k' (set c k v ttl sz).1.entries = some e) :
    (k' = k ∧ e = ⟨v, c.now + ttl, sz⟩ ∧ (set c k v ttl sz).2 = .ok) ∨
    (k' ≠ k ∧ (set c k v ttl sz).2 = .ok ∧ find? k' c.entries = some e) ∨
    ((set c k v ttl sz).2 = .full ∧ find? k' c.entries = some e) := by
  rcases set_cases c k v ttl sz with ⟨_, h1⟩ | ⟨_, hok, _, _, _, hcase⟩
  · rw [h1] at h; right; right; exact ⟨by rw [h1], h⟩
  · rcases hcase with ⟨_, hent, _⟩ | ⟨_, hent, _⟩
    · rw [hent] at h
      by_cases hk : k' = k
      · subst hk
        simp only [find?, if_true, Option.some.injEq] at h
        left; exact ⟨rfl, h.symm, hok⟩
      · have hk2 : ¬ k = k' := fun x => hk x.symm
        simp only [find?, hk2, if_false] at h
        right; left; exact ⟨hk, hok, (find?_erase_some h).2⟩
    · rw [hent] at h
      have := find?_erase_some h
      right; left; exact ⟨this.1, hok, this.2⟩

/-- After a successful `set k`, an entry under `k` is visible only when the TTL is positive (otherwise the
    sleeper has already deleted it). -/
theorem find?_set_ok_pos {c : Cache κ ν} {k : κ} {v : ν} {ttl : Int} {sz : Nat} {e : Entry ν}
    (hok : (set c k v ttl sz).2 = .ok) (h : find? k (set c k v ttl sz).1.entries = some e) : ttl > 0 := by
  rcases set_cases c k v ttl sz with ⟨_, h1⟩ | ⟨_, _, _, _, _, hcase⟩
  · rw [h1] at hok; cases hok
  · rcases hcase with ⟨httl, _, _⟩ | ⟨_, hent, _⟩
    · exact httl
    · rw [hent, find?_erase] at h; simp at h

theorem fire_cases (c : Cache κ ν) (i : Nat) :
    fire c i = (c, .absent) ∨ fire c i = (c, .notDue) ∨
    ∃ s, c.pending[i]? = some s ∧ s.due ≤ c.mono ∧
      fire c i = ({ clearKey c s.key with pending := c.pending.eraseIdx i }, .fired) := by
  unfold fire
  cases hp : c.pending[i]? with
  | none => left; rfl
  | some s =>
    by_cases hd : s.due ≤ c.mono
    · right; right; exact ⟨s, rfl, hd, by simp [hd]⟩
    · right; left; simp [hd]

theorem find?_fire {c : Cache κ ν} {i : Nat} {k : κ} {e : Entry ν}
    (h : find? k (fire c i).1.entries = some e) : find? k c.entries = some e := by
  rcases fire_cases c i with h1 | h1 | ⟨s, _, _, h1⟩
  · rw [h1] at h; exact h
  · rw [h1] at h; exact h
  · rw [h1] at h; exact (find?_erase_some h).2

theorem fire_now (c : Cache κ ν) (i : Nat) : (fire c i).1.now = c.now := by
  rcases fire_cases c i with h1 | h1 | ⟨s, _, _, h1⟩ <;> rw [h1]
  rfl

theorem fire_sizeOn (c : Cache κ ν) (i : Nat) : (fire c i).1.sizeOn = c.sizeOn := by
  rcases fire_cases c i with h1 | h1 | ⟨s, _, _, h1⟩ <;> rw [h1]
  rfl

theorem fire_max (c : Cache κ ν) (i : Nat) : (fire c i).1.max = c.max := by
  rcases fire_cases c i with h1 | h1 | ⟨s, _, _, h1⟩ <;> rw [h1]
  rfl

theorem find?_adv {c : Cache κ ν} {d : Nat} {k : κ} {e : Entry ν}
    (h : find? k (adv c d).1.entries = some e) : find? k c.entries = some e :=
  find?_clearAll (c := c) h

theorem adv_now (c : Cache κ ν) (d : Nat) : (adv c d).1.now = c.now + (d : Nat) := rfl
theorem adv_sizeOn (c : Cache κ ν) (d : Nat) : (adv c d).1.sizeOn = c.sizeOn := clearAll_sizeOn c _
theorem adv_max (c : Cache κ ν) (d : Nat) : (adv c d).1.max = c.max := clearAll_max c _

theorem get_some {c : Cache κ ν} {k : κ} {v : ν} (h : get c k = some v) :
    ∃ e, find? k c.entries = some e ∧ e.val = v ∧ c.now ≤ e.expiry := by
  unfold get at h
  cases hf : find? k c.entries with
  | none => simp [hf] at h
  | some e =>
    simp only [hf] at h
    by_cases hx : c.now > e.expiry
    · simp [hx] at h
    · simp only [hx, if_false, Option.some.injEq] at h
      exact ⟨e, rfl, h, by omega⟩

theorem has_true {c : Cache κ ν} {k : κ} (h : has c k = true) :
    ∃ e, find? k c.entries = some e ∧ c.now ≤ e.expiry := by
  unfold has at h
  cases hf : find? k c.entries with
  | none => simp [hf] at h
  | some e =>
    simp only [hf] at h
    by_cases hx : c.now > e.expiry
    · simp [hx] at h
    · exact ⟨e, rfl, by omega⟩

theorem get_none_of_expired {c : Cache κ ν} {k : κ}
    (h : ∀ e, find? k c.entries = some e → c.now > e.expiry) : get c k = none := by
  unfold get
  cases hf : find? k c.entries with
  | none => rfl
  | some e => simp [h e hf]

/-! ### size invariant: what is held never exceeds what is tracked, which never exceeds the maximum -/

def SizeInv (c : Cache κ ν) : Prop :=
  c.sizeOn = true → (heldSize c.entries : Int) ≤ c.tracked ∧ c.tracked ≤ c.max

theorem sizeInv_clearKey {c : Cache κ ν} (k : κ) (h : SizeInv c) : SizeInv (clearKey c k) := by
  intro hon
  have hon' : c.sizeOn = true := hon
  obtain ⟨h1, h2⟩ := h hon'
  have := heldSize_erase_le k c.entries
  simp only [clearKey, hon', if_true]
  constructor <;> omega

theorem sizeInv_clearAll {c : Cache κ ν} (l : List (Sleeper κ)) (h : SizeInv c) : SizeInv (clearAll c l) := by
  induction l generalizing c with
  | nil => exact h
  | cons s rest ih => exact ih (sizeInv_clearKey s.key h)

theorem sizeInv_set {c : Cache κ ν} (k : κ) (v : ν) (ttl : Int) (sz : Nat) (h : SizeInv c) :
    SizeInv (set c k v ttl sz).1 := by
  rcases set_cases c k v ttl sz with ⟨_, h1⟩ | ⟨hroom, _, _, hon, hmax, hcase⟩
  · rw [h1]; exact h
  · intro hon'
    rw [hon] at hon'
    obtain ⟨h1, h2⟩ := h hon'
    have hle := heldSize_erase_le k c.entries
    have hroom' : ¬ c.tracked + (sz : Nat) > c.max := fun x => hroom ⟨hon', x⟩
    rw [hmax]
    rcases hcase with ⟨_, hent, htr⟩ | ⟨_, hent, htr⟩
    · rw [hent, htr]
      simp only [heldSize, hon', if_true]
      constructor <;> omega
    · rw [hent, htr]
      constructor <;> omega

theorem sizeInv_fire {c : Cache κ ν} (i : Nat) (h : SizeInv c) : SizeInv (fire c i).1 := by
  rcases fire_cases c i with h1 | h1 | ⟨s, _, _, h1⟩
  · rw [h1]; exact h
  · rw [h1]; exact h
  · rw [h1]; exact sizeInv_clearKey s.key h

theorem sizeInv_adv {c : Cache κ ν} (d : Nat) (h : SizeInv c) : SizeInv (adv c d).1 :=
  sizeInv_clearAll (c := c) _ h

theorem sizeInv_step {c : Cache κ ν} (ev : Ev κ ν) (h : SizeInv c) : SizeInv (step c ev).1 := by
  cases ev with
  | set k v ttl sz => exact sizeInv_set k v ttl sz h
  | get k => exact h
  | has k => exact h
  | del k => exact sizeInv_clearKey k h
  | fire i => exact sizeInv_fire i h
  | skip d => exact h
  | adv d => exact sizeInv_adv d h
  | wstep d => exact h
  | probe => exact h

theorem step_sizeOn (c : Cache κ ν) (ev : Ev κ ν) : (step c ev).1.sizeOn = c.sizeOn := by
  cases ev with
  | set k v ttl sz => exact set_sizeOn c k v ttl sz
  | fire i => exact fire_sizeOn c i
  | adv d => exact adv_sizeOn c d
  | _ => rfl

theorem step_max (c : Cache κ ν) (ev : Ev κ ν) : (step c ev).1.max = c.max := by
  cases ev with
  | set k v ttl sz => exact set_max c k v ttl sz
  | fire i => exact fire_max c i
  | adv d => exact adv_max c d
  | _ => rfl

/-! ### an empty cache stays empty under deletions -/

theorem clearAll_entries_nil {c : Cache κ ν} (l : List (Sleeper κ)) (h : c.entries = []) :
    (clearAll c l).entries = [] := by
  induction l generalizing c with
  | nil => exact h
  | cons s rest ih => exact ih (c := clearKey c s.key) (by simp [h, erase])

theorem clearAll_tracked_off {c : Cache κ ν} (l : List (Sleeper κ)) (h : c.sizeOn = false) :
    (clearAll c l).tracked = c.tracked := by
  induction l generalizing c with
  | nil => rfl
  | cons s rest ih =>
    have := ih (c := clearKey c s.key) (by simp [h])
    rw [clearAll, this]; simp [clearKey, h]

theorem fire_entries_nil {c : Cache κ ν} (i : Nat) (h : c.entries = []) : (fire c i).1.entries = [] := by
  rcases fire_cases c i with h1 | h1 | ⟨s, _, _, h1⟩
  · rw [h1]; exact h
  · rw [h1]; exact h
  · rw [h1]; simp [h, erase]

theorem fire_tracked_off {c : Cache κ ν} (i : Nat) (h : c.sizeOn = false) : (fire c i).1.tracked = c.tracked := by
  rcases fire_cases c i with h1 | h1 | ⟨s, _, _, h1⟩
  · rw [h1]
  · rw [h1]
  · rw [h1]; simp [clearKey, h]

theorem adv_entries_nil {c : Cache κ ν} (d : Nat) (h : c.entries = []) : (adv c d).1.entries = [] :=
  clearAll_entries_nil (c := c) _ h

theorem adv_tracked_off {c : Cache κ ν} (d : Nat) (h : c.sizeOn = false) : (adv c d).1.tracked = c.tracked :=
  clearAll_tracked_off (c := c) _ h

end

end LunarVerif.C12
