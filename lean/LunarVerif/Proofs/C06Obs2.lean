import LunarVerif.Proofs.C06Obs
import LunarVerif.Proofs.C06Ttl
/-!
Helper lemmas for C06, part 10: arrival order on the history = order of the first-enqueue stamps;
what the loop's attempt on a request implies for everybody who waits (priority, FIFO); the TTL
watcher only handles expired requests; shutdown is visible on the history.  Every schedule.
-/
namespace LunarVerif.C06

theorem queuedBefore_wasQueued (tr : List Ev) (a b : Nat) (h : queuedBefore tr a b = true) : wasQueued tr a = true := by
  induction tr with
  | nil => simp [queuedBefore] at h
  | cons e tr ih =>
    cases e <;> simp only [queuedBefore] at h <;> simp only [wasQueued_cons, Bool.or_eq_true] <;> try exact Or.inr (ih h)
    rename_i k p t
    by_cases hk : (k == b) = true
    · simp [hk] at h; exact Or.inr h
    · simp [hk] at h; exact Or.inr (ih h)

/-- Arrival order (order of the `queued` events) agrees with the first-enqueue stamps. -/
structure InvO2 (s : St) : Prop where
  ob : ∀ a b, queuedBefore s.trace a b = true → (s.reqs a).pushTs < (s.reqs b).pushTs
  lp : ∀ i, loopId s.loop = some i → (s.reqs i).pushed = true

theorem invO2_init (t0 : Nat) : InvO2 (St.init t0) := by
  constructor <;> simp [St.init, queuedBefore, loopId]

local macro "o2_auto" : tactic =>
  `(tactic| (constructor <;> (try intro j) <;>
      (try simp only [St.upd, St.emit, St.enq, St.signal, queuedBefore, wasQueued_cons,
        Bool.or_eq_true, beq_iff_eq, Bool.false_or]) <;>
      grind [holdsL, holdsW, isReturned, isDraining, freshPc, loopId]))

theorem invO2_frame (s s' : St) (ht : s'.trace = s.trace)
    (hr : ∀ i, (s'.reqs i).pushTs = (s.reqs i).pushTs ∧ ((s.reqs i).pushed = true → (s'.reqs i).pushed = true))
    (hl : ∀ i, loopId s'.loop = some i → loopId s.loop = some i) (h : InvO2 s) : InvO2 s' := by
  obtain ⟨ob, lp⟩ := h
  constructor
  · intro a b hab; rw [ht] at hab; rw [(hr a).1, (hr b).1]; exact ob a b hab
  · intro i hi; exact (hr i).2 (lp i (hl i hi))

theorem queuedBefore_wasQueued_right (tr : List Ev) (a b : Nat) (h : queuedBefore tr a b = true) :
    wasQueued tr b = true := by
  induction tr with
  | nil => simp [queuedBefore] at h
  | cons e tr ih =>
    cases e <;> simp only [queuedBefore] at h <;> simp only [wasQueued_cons, Bool.or_eq_true] <;> try exact Or.inr (ih h)
    rename_i k p t
    by_cases hk : (k == b) = true
    · exact Or.inl hk
    · simp [hk] at h; exact Or.inr (ih h)

theorem signal_push (s : St) (i : Nat) (r : RResult) (j : Nat) :
    ((s.signal i r).reqs j).pushTs = (s.reqs j).pushTs ∧ ((s.signal i r).reqs j).pushed = (s.reqs j).pushed ∧
    ((s.signal i r).reqs j).prio = (s.reqs j).prio ∧ ((s.signal i r).reqs j).arrival = (s.reqs j).arrival := by
  simp only [St.signal]
  split <;> simp only [St.upd, St.emit] <;> split <;> simp_all

theorem invO2_step (cfg : Cfg) (s : St) (a : Act) (hA : InvA s) (hT : InvT s) (hH : InvH s) (hO : InvO1 s)
    (h : InvO2 s) : InvO2 (step cfg s a) := by
  have h0 := h
  obtain ⟨ob, lp⟩ := h
  have qa : ∀ a b, queuedBefore s.trace a b = true → a < s.n ∧ (s.reqs a).pushed = true ∧ ¬ freshPc (s.reqs a).pc :=
    fun a b hab => let w := hO.wq a (queuedBefore_wasQueued _ _ _ hab); ⟨w.1, w.2.1, w.2.2.1⟩
  have qb : ∀ a b, queuedBefore s.trace a b = true → b < s.n ∧ (s.reqs b).pushed = true ∧ ¬ freshPc (s.reqs b).pc :=
    fun a b hab => let w := hO.wq b (queuedBefore_wasQueued_right _ _ _ hab); ⟨w.1, w.2.1, w.2.2.1⟩
  have wqa : ∀ a, wasQueued s.trace a = true → a < s.n ∧ (s.reqs a).pushed = true ∧ (s.reqs a).pushTs < s.seq :=
    fun a ha => let w := hO.wq a ha; ⟨w.1, w.2.1, hH.g3 a w.2.1⟩
  have lpf : ∀ i, loopId s.loop = some i → ¬ freshPc (s.reqs i).pc := hO.hp.2
  have hfresh := hA.fresh s.n (Nat.le_refl _)
  unfold step
  rw [hA.np]
  simp only [Bool.false_eq_true, if_false]
  cases a with
  | advance d => exact invO2_frame s _ rfl (fun _ => ⟨rfl, id⟩) (fun _ h => h) h0
  | arrive p =>
    simp only [stepCore, stepArrive]
    split <;> o2_auto
  | register i =>
    simp only [stepCore, stepRegister]
    split
    · o2_auto
    · exact h0
  | push i =>
    simp only [stepCore, stepPush]
    split
    · rename_i hg
      have hnq := (hT.tf i (Or.inr (Or.inr hg))).1
      have hfr := hO.fr i (by rw [hg]; trivial)
      o2_auto
    · exact h0
  | wake i =>
    simp only [stepCore, stepWake]
    split
    · o2_auto
    · exact h0
  | unwatch i =>
    simp only [stepCore, stepUnwatch]
    split
    · o2_auto
    · exact h0
  | heapRemove i =>
    simp only [stepCore, stepHeapRemove]
    split
    · o2_auto
    · exact h0
  | loopFire =>
    simp only [stepCore, stepLoopFire]
    split
    · split <;> exact invO2_frame s _ rfl (fun _ => ⟨rfl, id⟩) (fun i hi => by simp [loopId] at hi) h0
    · exact h0
  | wScan =>
    simp only [stepCore, stepScan]
    split
    · exact invO2_frame s _ rfl (fun _ => ⟨rfl, id⟩) (fun _ h => h) h0
    · exact h0
  | cancel =>
    simp only [stepCore, stepCancel]
    split
    · exact h0
    · o2_auto
  | wStep k =>
    simp only [stepCore, stepWatcher]
    split
    · exact h0
    · split
      · split
        · exact invO2_frame s _ rfl (fun _ => ⟨rfl, id⟩) (fun _ h => h) h0
        · exact h0
      · split
        · o2_auto
        · exact invO2_frame s _ rfl (fun _ => ⟨rfl, id⟩) (fun _ h => h) h0
    · rename_i i todo heq
      have sp := signal_push s i .timeout
      have hw : (s.reqs i).wg = 1 := by
        have hp' : (s.reqs i).st = .processing := (hA.own i).2 (Or.inr (by simp [heq, holdsW]))
        rw [hA.wg i, hp']; simp
      have hlt : ¬ ((s.reqs i).wg - 1 < 0) := by omega
      unfold St.signal
      simp only [hlt, if_false]
      o2_auto
  | loopStep k =>
    simp only [stepCore, stepLoop]
    split
    · exact h0
    · exact h0
    · split
      · exact invO2_frame s _ rfl (fun _ => ⟨rfl, id⟩) (fun i hi => by simp [loopId] at hi) h0
      · rename_i m hm
        have hmem := minItem_mem _ _ hm
        have hpm := (hH.hi m hmem).2.2.1
        o2_auto
    · split
      · o2_auto
      · exact invO2_frame s _ rfl (fun _ => ⟨rfl, id⟩) (fun i hi => by simp [loopId] at hi) h0
    · rename_i i heq
      generalize (quotaTry cfg s.q s.now).1 = q'
      generalize (quotaTry cfg s.q s.now).2 = ok
      cases ok <;> o2_auto
    · rename_i i heq
      have hpi := lp i (by simp [heq, loopId])
      o2_auto
    · o2_auto
    · rename_i i heq
      have hw : (s.reqs i).wg = 1 := by
        have hp' : (s.reqs i).st = .processing := (hA.own i).2 (Or.inl (by simp [heq, holdsL]))
        rw [hA.wg i, hp']; simp
      have hlt : ¬ ((s.reqs i).wg - 1 < 0) := by omega
      unfold St.signal
      simp only [hlt, if_false]
      o2_auto
    · rename_i todo heq
      split
      · split
        · exact invO2_frame s _ rfl (fun _ => ⟨rfl, id⟩) (fun i hi => by simp [loopId] at hi) h0
        · exact h0
      · split
        · rename_i i hk hg
          have hw : (s.reqs i).wg = 1 := by rw [hA.wg i, hg.2]; simp
          have hlt : ¬ ((s.reqs i).wg - 1 < 0) := by omega
          unfold St.signal
          simp only [hlt, if_false]
          o2_auto
        · exact invO2_frame s _ rfl (fun _ => ⟨rfl, id⟩) (fun i hi => by simp [loopId] at hi) h0

/-- The loop has dequeued `i` and may still allow it. -/
def attempt : LoopPc → Nat → Prop
  | .popped j, i => j = i
  | .started j, i => j = i
  | .granted j, i => j = i
  | _, _ => False

/-- `i` comes before `j` in the order the queue serves: (priority, first-enqueue stamp). -/
def lexle (s : St) (i j : Nat) : Prop :=
  (s.reqs i).prio < (s.reqs j).prio ∨ ((s.reqs i).prio = (s.reqs j).prio ∧ (s.reqs i).pushTs ≤ (s.reqs j).pushTs)

theorem drainSeen_cons (e : Ev) (tr : List Ev) :
    drainSeen (e :: tr) = ((match e with | .drain => true | _ => false) || drainSeen tr) := by
  simp only [drainSeen, List.any_cons]; cases e <;> rfl

theorem wasPopped_cons (e : Ev) (tr : List Ev) (i : Nat) :
    wasPopped (e :: tr) i = ((match e with | .pop j => j == i | _ => false) || wasPopped tr i) := by
  simp only [wasPopped, List.any_cons]; cases e <;> rfl

structure InvO3 (cfg : Cfg) (s : St) : Prop where
  pa : ∀ i, attempt s.loop i → wasPopped s.trace i = true
  att : ∀ i, attempt s.loop i → ∀ x ∈ waiting s.trace, x.1 ≠ i →
          lexle s i x.1 ∨ (s.reqs x.1).arrival + cfg.ttl < s.now ∨ queuedAfterPop s.trace i x.1 = true
  ff : ∀ i, attempt s.loop i → ∀ x ∈ waiting s.trace, x.1 ≠ i → (s.reqs x.1).prio = (s.reqs i).prio →
          queuedBefore s.trace x.1 i = true → (s.reqs x.1).arrival + cfg.ttl < s.now
  w1 : ∀ j, j ∈ wtodo s.watcher → j < s.n ∧ (s.reqs j).arrival + cfg.ttl < s.now
  dc : (isDraining s.loop = true → s.cancelled = true) ∧ (s.cancelled = true → drainSeen s.trace = true)

theorem invO3_init (cfg : Cfg) (t0 : Nat) : InvO3 cfg (St.init t0) := by
  constructor <;> simp [St.init, attempt, wtodo, isDraining, waiting, wasPopped]

local macro "o3_auto" : tactic =>
  `(tactic| (constructor <;> (try intro j) <;>
      (try simp only [St.upd, St.emit, St.enq, St.signal, waiting, queuedAfterPop, queuedBefore, wasQueued_cons,
        wasDone_cons, drainSeen_cons, wasPopped_cons, Bool.or_eq_true, beq_iff_eq, Bool.false_or, Bool.true_or, List.mem_cons]) <;>
      grind [attempt, lexle, wtodo, holdsL, holdsW, isReturned, isDraining, freshPc, loopId]))

theorem invO3_watcher (cfg : Cfg) (s : St) (k : Nat) (hA : InvA s) (hT : InvT s) (hH : InvH s) (hO : InvO1 s)
    (hO2 : InvO2 s) (h : InvO3 cfg s) : InvO3 cfg (stepWatcher s k) := by
  have h0 := h
  obtain ⟨pa, att, ff, w1, dc⟩ := h
  have wlt : ∀ x ∈ waiting s.trace, x.1 < s.n ∧ ¬ freshPc (s.reqs x.1).pc ∧ (s.reqs x.1).pc = .parked ∧
      (s.reqs x.1).st ≠ .processed ∧ wasQueued s.trace x.1 = true := fun x hx =>
    let w := hO.w2 x hx; let q := hO.wq x.1 w.1; ⟨q.1, q.2.2.1, w.2.1, w.2.2.1, w.1⟩
  have alt : ∀ i, attempt s.loop i → loopId s.loop = some i := by
    intro i hi; cases hl : s.loop <;> simp_all [attempt, loopId]
  have anf : ∀ i, attempt s.loop i → ¬ freshPc (s.reqs i).pc ∧ i < s.n := by
    intro i hi
    have hnf := hO.hp.2 i (alt i hi)
    refine ⟨hnf, ?_⟩
    rcases Nat.lt_or_ge i s.n with h | h
    · exact h
    · have := (hA.fresh i h).1; rw [this] at hnf; exact absurd trivial hnf
  have hfresh := hA.fresh s.n (Nat.le_refl _)
  have qbw := queuedBefore_wasQueued s.trace
  simp only [stepWatcher]
  split
  · exact h0
  · rename_i todo heq
    have sub : ∀ j, j ∈ todo.eraseIdx k → j ∈ todo := fun j hj => List.mem_of_mem_eraseIdx hj
    split
    · split
      · o3_auto
      · exact h0
    · rename_i i hk
      have hi : i ∈ todo := List.mem_of_getElem? hk
      split
      · o3_auto
      · o3_auto
  · rename_i i todo heq
    have hw : (s.reqs i).wg = 1 := by
      have hp' : (s.reqs i).st = .processing := (hA.own i).2 (Or.inr (by simp [heq, holdsW]))
      rw [hA.wg i, hp']; simp
    have hlt : ¬ ((s.reqs i).wg - 1 < 0) := by omega
    unfold St.signal
    simp only [hlt, if_false]
    have hflt : ∀ x, x ∈ (waiting s.trace).filter (fun x => x.1 != i) → x ∈ waiting s.trace ∧ x.1 ≠ i := by
      intro x hx; simpa using List.mem_filter.1 hx
    o3_auto


theorem invO3_loop (cfg : Cfg) (s : St) (k : Nat) (hA : InvA s) (hT : InvT s) (hH : InvH s) (hO : InvO1 s)
    (hO2 : InvO2 s) (h : InvO3 cfg s) : InvO3 cfg (stepLoop cfg s k) := by
  have h0 := h
  obtain ⟨pa, att, ff, w1, dc⟩ := h
  have wlt : ∀ x ∈ waiting s.trace, x.1 < s.n ∧ ¬ freshPc (s.reqs x.1).pc ∧ (s.reqs x.1).pc = .parked ∧
      (s.reqs x.1).st ≠ .processed ∧ wasQueued s.trace x.1 = true := fun x hx =>
    let w := hO.w2 x hx; let q := hO.wq x.1 w.1; ⟨q.1, q.2.2.1, w.2.1, w.2.2.1, w.1⟩
  have alt : ∀ i, attempt s.loop i → loopId s.loop = some i := by
    intro i hi; cases hl : s.loop <;> simp_all [attempt, loopId]
  have anf : ∀ i, attempt s.loop i → ¬ freshPc (s.reqs i).pc ∧ i < s.n := by
    intro i hi
    have hnf := hO.hp.2 i (alt i hi)
    refine ⟨hnf, ?_⟩
    rcases Nat.lt_or_ge i s.n with h | h
    · exact h
    · have := (hA.fresh i h).1; rw [this] at hnf; exact absurd trivial hnf
  have hfresh := hA.fresh s.n (Nat.le_refl _)
  have qbw := queuedBefore_wasQueued s.trace
  simp only [stepLoop]
  split
  · exact h0
  · exact h0
  · rename_i heq
    split
    · o3_auto
    · rename_i m hm
      have hmem := minItem_mem _ _ hm
      have hmin := minItem_le _ _ hm
      -- everybody who waits and could be served is in the heap: the minimum is before all of them;
      -- who waits and cannot be served is in the watcher's hands: expired
      have key : ∀ x ∈ waiting s.trace, x.1 ≠ m.id →
          lexle s m.id x.1 ∨ (s.reqs x.1).arrival + cfg.ttl < s.now := by
        intro x hx hne
        have w := wlt x hx
        cases hst : (s.reqs x.1).st with
        | processed => exact absurd hst w.2.2.2.1
        | enqueued =>
          left
          obtain ⟨y, hy, hid⟩ := hH.el x.1 w.2.2.1 hst (by rw [heq]; simp)
          have h1 := hmin y hy
          have hm' := hH.hi m hmem
          have hy' := hH.hi y hy
          unfold LunarVerif.C06.hle at h1
          unfold lexle
          rw [← hm'.2.1, ← hm'.2.2.2, ← hid, ← hy'.2.1, ← hy'.2.2.2]
          split at h1
          · rename_i e; right; exact ⟨e, by simpa using h1⟩
          · left; simpa using h1
        | processing =>
          right
          rcases (hA.own x.1).1 hst with hh | hh
          · rw [heq] at hh; cases hh
          · cases hwt : s.watcher with
            | idle => rw [hwt] at hh; cases hh
            | scanned t => rw [hwt] at hh; cases hh
            | holding j t =>
              rw [hwt] at hh
              have : j = x.1 := hh
              exact (w1 x.1 (by rw [hwt, ← this]; simp [wtodo])).2
      have key2 : ∀ x ∈ waiting s.trace, x.1 ≠ m.id → (s.reqs x.1).prio = (s.reqs m.id).prio →
          queuedBefore s.trace x.1 m.id = true → (s.reqs x.1).arrival + cfg.ttl < s.now := by
        intro x hx hne hpr hqb
        rcases key x hx hne with h | h
        · have := hO2.ob _ _ hqb
          unfold lexle at h
          omega
        · exact h
      constructor
      · intro i hi
        simp only [St.emit, attempt] at hi ⊢
        subst hi
        simp [wasPopped_cons]
      · intro i hi x hx hne
        simp only [St.emit, attempt] at hi hx ⊢
        subst hi
        simp only [waiting] at hx
        rcases key x hx hne with h | h
        · exact Or.inl h
        · exact Or.inr (Or.inl h)
      · intro i hi x hx hne hpr hqb
        simp only [St.emit, attempt] at hi hx hpr hqb ⊢
        subst hi
        simp only [waiting] at hx
        simp only [queuedBefore] at hqb
        exact key2 x hx hne hpr hqb
      · intro j hj; simp only [St.emit] at hj ⊢; exact w1 j hj
      · simp only [St.emit, drainSeen_cons, isDraining, Bool.false_or]
        exact ⟨by simp, dc.2⟩
  · rename_i i heq
    split
    · o3_auto
    · o3_auto
  · rename_i i heq
    generalize (quotaTry cfg s.q s.now).1 = q'
    generalize (quotaTry cfg s.q s.now).2 = ok
    cases ok <;> o3_auto
  · o3_auto
  · o3_auto
  · rename_i i heq
    have hw : (s.reqs i).wg = 1 := by
      have hp' : (s.reqs i).st = .processing := (hA.own i).2 (Or.inl (by simp [heq, holdsL]))
      rw [hA.wg i, hp']; simp
    have hlt : ¬ ((s.reqs i).wg - 1 < 0) := by omega
    unfold St.signal
    simp only [hlt, if_false]
    o3_auto
  · rename_i todo heq
    split
    · split
      · o3_auto
      · exact h0
    · split
      · rename_i i hk hg
        have hw : (s.reqs i).wg = 1 := by rw [hA.wg i, hg.2]; simp
        have hlt : ¬ ((s.reqs i).wg - 1 < 0) := by omega
        unfold St.signal
        simp only [hlt, if_false]
        have hflt : ∀ x, x ∈ (waiting s.trace).filter (fun x => x.1 != i) → x ∈ waiting s.trace ∧ x.1 ≠ i := by
          intro x hx; simpa using List.mem_filter.1 hx
        o3_auto
      · o3_auto


theorem invO3_step (cfg : Cfg) (s : St) (a : Act) (hA : InvA s) (hT : InvT s) (hH : InvH s) (hO : InvO1 s)
    (hO2 : InvO2 s) (h : InvO3 cfg s) : InvO3 cfg (step cfg s a) := by
  have h0 := h
  obtain ⟨pa, att, ff, w1, dc⟩ := h
  have wlt : ∀ x ∈ waiting s.trace, x.1 < s.n ∧ ¬ freshPc (s.reqs x.1).pc ∧ (s.reqs x.1).pc = .parked ∧
      (s.reqs x.1).st ≠ .processed ∧ wasQueued s.trace x.1 = true := fun x hx =>
    let w := hO.w2 x hx; let q := hO.wq x.1 w.1; ⟨q.1, q.2.2.1, w.2.1, w.2.2.1, w.1⟩
  have alt : ∀ i, attempt s.loop i → loopId s.loop = some i := by
    intro i hi; cases hl : s.loop <;> simp_all [attempt, loopId]
  have anf : ∀ i, attempt s.loop i → ¬ freshPc (s.reqs i).pc ∧ i < s.n := by
    intro i hi
    have hnf := hO.hp.2 i (alt i hi)
    refine ⟨hnf, ?_⟩
    rcases Nat.lt_or_ge i s.n with h | h
    · exact h
    · have := (hA.fresh i h).1; rw [this] at hnf; exact absurd trivial hnf
  have hfresh := hA.fresh s.n (Nat.le_refl _)
  have qbw := queuedBefore_wasQueued s.trace
  unfold step
  rw [hA.np]
  simp only [Bool.false_eq_true, if_false]
  cases a with
  | advance d => simp only [stepCore]; o3_auto
  | arrive p =>
    simp only [stepCore, stepArrive]
    split <;> o3_auto
  | register i =>
    simp only [stepCore, stepRegister]
    split
    · o3_auto
    · exact h0
  | push i =>
    simp only [stepCore, stepPush]
    split
    · rename_i hg
      have hnq := (hT.tf i (Or.inr (Or.inr hg))).1
      have hni : ∀ j, attempt s.loop j → j ≠ i := fun j hj e => by
        have := (anf j hj).1; rw [e, hg] at this; exact this trivial
      o3_auto
    · exact h0
  | wake i =>
    simp only [stepCore, stepWake]
    split
    · o3_auto
    · exact h0
  | unwatch i =>
    simp only [stepCore, stepUnwatch]
    split
    · o3_auto
    · exact h0
  | heapRemove i =>
    simp only [stepCore, stepHeapRemove]
    split
    · o3_auto
    · exact h0
  | loopFire =>
    simp only [stepCore, stepLoopFire]
    split
    · split <;> o3_auto
    · exact h0
  | wScan =>
    simp only [stepCore, stepScan]
    split
    · have hm := mem_idsWhere s (fun r => r.inMap && decide (r.arrival + cfg.ttl < s.now))
      o3_auto
    · exact h0
  | cancel =>
    simp only [stepCore, stepCancel]
    split
    · exact h0
    · o3_auto
  | wStep k => exact invO3_watcher cfg s k hA hT hH hO hO2 h0
  | loopStep k => exact invO3_loop cfg s k hA hT hH hO hO2 h0

end LunarVerif.C06
