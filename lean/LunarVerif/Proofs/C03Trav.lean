import LunarVerif.Spec.C03
import LunarVerif.Proofs.UrlTree
/-! Tree-level lemmas for C03: the verbatim loop of `lookupFlow` equals a structurally recursive
traversal `travS`, and — under explicit hypotheses on the residual list and the URL — membership in its
result is characterised declaratively (`mem_travS_iff`). -/
namespace LunarVerif.C03
open LunarVerif.UrlTree LunarVerif.UrlMatch

variable {V : Type}

/-! ### structural form of the traversal -/

/-- The two tests after the loop, for `currentNode = cur` and `part.IsPartOfHost = lastHost`. -/
def finalSel (cur : Res V) (lastHost : Bool) : List V :=
  match nodeValue cur, wildChild? cur with
  | some v, none => [v]
  | _, some (some w) => if lastHost then [w] else []
  | _, _ => []

/-- `lookupFlow` by structural recursion on the URL. -/
def travS (res : Res V) : List Part → List V
  | [] => []
  | [u] => wildVal res ++ (match next res u with
      | some c => finalSel c u.host
      | none => finalSel res u.host)
  | u :: u' :: us => wildVal res ++ (match next res u with
      | some c => travS c (u' :: us)
      | none => [])

/-- The tail of `lookupFlow` as a function of the loop state and the URL length. -/
def finish (st : LoopSt V) (n : Nat) : List V :=
  match (st.index + 1 == n : Bool), nodeValue st.cur, wildChild? st.cur with
  | true, some v, none => st.flows ++ [v]
  | true, _, some (some w) => if st.part.host then st.flows ++ [w] else st.flows
  | _, _, _ => st.flows

theorem finish_atEnd (st : LoopSt V) (n : Nat) (h : st.index + 1 = n) :
    finish st n = st.flows ++ finalSel st.cur st.part.host := by
  unfold finish finalSel
  have : (st.index + 1 == n) = true := by simp [h]
  rw [this]
  cases nodeValue st.cur <;> cases hw : wildChild? st.cur with
  | none => simp
  | some wv => cases wv <;> simp <;> split <;> simp

theorem finish_notEnd (st : LoopSt V) (n : Nat) (h : st.index + 1 ≠ n) : finish st n = st.flows := by
  unfold finish
  have : (st.index + 1 == n) = false := by simp [h]
  rw [this]

theorem loopGo_finish (us : List Part) : ∀ (st : LoopSt V) (i n : Nat), us ≠ [] → i + us.length = n →
    finish (loopGo st i us) n = st.flows ++ travS st.cur us := by
  induction us with
  | nil => intro st i n h; exact absurd rfl h
  | cons u us ih =>
    intro st i n _ hn
    cases us with
    | nil =>
      simp only [List.length_cons, List.length_nil] at hn
      unfold loopGo
      simp only
      cases hnx : next st.cur u with
      | none =>
        simp only [travS, hnx]
        rw [finish_atEnd _ _ (by simpa using hn)]
        simp [List.append_assoc]
      | some c =>
        simp only [travS, hnx, loopGo]
        rw [finish_atEnd _ _ (by simpa using hn)]
        simp [List.append_assoc]
    | cons u' rest =>
      unfold loopGo
      simp only
      cases hnx : next st.cur u with
      | none =>
        simp only [travS, hnx]
        rw [finish_notEnd]
        · simp
        · simp only [List.length_cons] at hn; simp; omega
      | some c =>
        simp only [travS, hnx]
        rw [ih _ (i + 1) n (by simp) (by simp only [List.length_cons] at hn ⊢; omega)]
        simp [List.append_assoc]

/-- The verbatim loop and the structural traversal agree on every tree and URL. -/
theorem lookupFlow_eq_travS (t : Tree V) (us : List Part) : lookupFlow t us = travS t us := by
  cases us with
  | nil => simp [lookupFlow, loopGo, travS]
  | cons u rest =>
    have := loopGo_finish (u :: rest) (⟨t, [], 0, ⟨false, .lit ""⟩⟩ : LoopSt V) 0 (u :: rest).length (by simp) (by simp)
    simp only [List.nil_append] at this
    rw [← this]
    rfl

/-! ### the step taken by `next` -/

theorem next_noconst {res : Res V} {u : Part} (hno : ∀ s, u.seg = .lit s → constFlag? res s ≠ some u.host) :
    next res u = (match parChild? res with
      | some (_, h) => if h = u.host then some (step .par res) else none
      | none => none) := by
  have fin : ∀ o : Option (String × Bool),
      (match o with
        | some (_, h) => if h = u.host then some (step .par res) else none
        | none => (none : Option (Res V))) =
      (match o with
        | some (_, h) => if h = u.host then some (step .par res) else none
        | none => none) := by
    intro o
    cases o with
    | none => rfl
    | some nh => obtain ⟨_, _⟩ := nh; rfl
  unfold next
  cases hs : u.seg with
  | lit s => simp [hno s hs]; exact fin _
  | par n => simp; exact fin _
  | wild => simp; exact fin _

/-- what `next` does, by cases -/
theorem next_cases (res : Res V) (u : Part) :
    (∃ s, u.seg = .lit s ∧ constFlag? res s = some u.host ∧ next res u = some (step (.lit s) res)) ∨
    ((∀ s, u.seg = .lit s → constFlag? res s ≠ some u.host) ∧
      ((∃ n, parChild? res = some (n, u.host) ∧ next res u = some (step .par res)) ∨
       ((∀ n, parChild? res ≠ some (n, u.host)) ∧ next res u = none))) := by
  by_cases hc : ∃ s, u.seg = .lit s ∧ constFlag? res s = some u.host
  · obtain ⟨s, hs, hf⟩ := hc
    exact .inl ⟨s, hs, hf, by simp [next, hs, hf]⟩
  · right
    have hno : ∀ s, u.seg = .lit s → constFlag? res s ≠ some u.host := fun s hs hf => hc ⟨s, hs, hf⟩
    refine ⟨hno, ?_⟩
    rw [next_noconst hno]
    cases hp : parChild? res with
    | none =>
      right
      exact ⟨by simp, by simp⟩
    | some nh =>
      obtain ⟨n, h⟩ := nh
      by_cases hh : h = u.host
      · left; subst hh; exact ⟨n, rfl, by simp⟩
      · right
        refine ⟨?_, by simp [hh]⟩
        intro n' heq
        simp only [Option.some.injEq, Prod.mk.injEq] at heq
        exact hh heq.2

theorem stepOK_lit {s : String} {u : Part} (hs : u.seg = .lit s) :
    ∀ p : Part, p.seg.key = Key.lit s → trieStep p u := by
  intro p hk
  exact .inl ⟨s, key_eq_lit hk, hs⟩

theorem stepOK_par {u : Part} : ∀ p : Part, p.seg.key = Key.par → trieStep p u := by
  intro p hk
  obtain ⟨n, hn⟩ := key_eq_par hk
  exact .inr (by simp [hn, Seg.isPar])

theorem endsWild_cons (p : Part) (rest : List Part) :
    endsWild (p :: rest) = if rest = [] then p.seg == .wild else endsWild rest := by
  cases rest with
  | nil => simp [endsWild]
  | cons a l => simp [endsWild, List.getLast?_cons_cons]

/-! ### hypotheses of the characterisation and their preservation along a step -/

structure TravHyp (res : Res V) (us : Url) : Prop where
  wl : WildLast res
  parts : PartsOK res
  coh : RCoh res
  al : Aligned res us
  ne : urlNonEmpty us = true
  noExtra : ∀ e ∈ res, endsWild e.1 = false → us ≠ [] → matchesLax e.1 us.dropLast = false
  noZero : ∀ e ∈ res, wildPos e.1 us ≠ some us.length

theorem TravHyp.step {res : Res V} {u : Part} {us : Url} {k : Key} (h : TravHyp res (u :: us))
    (hk : ∀ p, p.seg.key = k → trieStep p u) : TravHyp (step k res) us := by
  obtain ⟨hu, hne⟩ := urlNonEmpty_cons h.ne
  refine ⟨h.wl.step k, h.parts.step k, h.coh.step h.parts k, h.al.step hk, hne, ?_, ?_⟩
  · intro ⟨rest, v⟩ hmem hew hus
    obtain ⟨p, hp, hpk⟩ := mem_step.mp hmem
    have hacc := trieStep_accepts (hk p hpk) hu
    have hnw := trieStep_not_wild (hk p hpk)
    have hew' : endsWild (p :: rest) = false := by
      rw [endsWild_cons]
      by_cases hr : rest = []
      · simp [hr, hnw]
      · simp only [hr, if_false]; exact hew
    have := h.noExtra _ hp hew' (by simp)
    rw [List.dropLast_cons_of_ne_nil hus] at this
    cases hs : p.seg with
    | wild => exact absurd hs hnw
    | lit s => rw [hs] at hacc; simpa [matchesLax, matchesG, hs, hacc] using this
    | par n => rw [hs] at hacc; simpa [matchesLax, matchesG, hs, hacc] using this
  · intro ⟨rest, v⟩ hmem hz
    obtain ⟨p, hp, hpk⟩ := mem_step.mp hmem
    have hacc := trieStep_accepts (hk p hpk) hu
    have hnw := trieStep_not_wild (hk p hpk)
    apply h.noZero _ hp
    cases hs : p.seg with
    | wild => exact absurd hs hnw
    | lit s => rw [hs] at hacc; simp [wildPos, hs, hacc, hz]
    | par n => rw [hs] at hacc; simp [wildPos, hs, hacc, hz]

/-! ### small facts about the node queries under `PartsOK` / `RCoh` / `Aligned` -/

theorem wildChild?_entry {res : Res V} (hwl : WildLast res) {wv : Option V} (h : wildChild? res = some wv) :
    ∃ w : Part, w.seg = .wild ∧ ([w], wv) ∈ res := by
  obtain ⟨p, rest, hmem, hp⟩ := wildChild?_some h
  have := wildLast_wild_head (hwl _ hmem) hp
  subst this
  exact ⟨p, hp, hmem⟩

theorem wildChild?_of_mem {res : Res V} (hwl : WildLast res) (hp : PartsOK res) (hc : RCoh res)
    {w : Part} {ov : Option V} (hw : w.seg = .wild) (hm : ([w], ov) ∈ res) : wildChild? res = some ov := by
  cases h : wildChild? res with
  | none => exact absurd hw (wildChild?_none h hm)
  | some wv =>
    obtain ⟨w', hw', hm'⟩ := wildChild?_entry hwl h
    have hww : w = w' := hp.head_eq hm hm' (by rw [hw, hw'])
    subst hww
    have := hc _ hm _ hm' rfl
    simp only at this
    rw [this]

theorem mem_wildVal {res : Res V} {v : V} : v ∈ wildVal res ↔ wildChild? res = some (some v) := by
  unfold wildVal
  cases h : wildChild? res with
  | none => simp
  | some wv => cases wv <;> simp [eq_comm]

theorem constFlag?_aligned {res : Res V} {u : Part} {us : Url} (hal : Aligned res (u :: us)) {s : String}
    (hus : u.seg = .lit s) {b : Part} {e' : List Part} {ev : Option V} (hmem : (b :: e', ev) ∈ res)
    (hb : b.seg = .lit s) : constFlag? res s = some u.host := by
  cases hc : constFlag? res s with
  | none => exact absurd hb (constFlag?_none hc hmem)
  | some f =>
    obtain ⟨p, rest, v, hm, hp, hf⟩ := constFlag?_some hc
    have := hal.head hm (.inl (.inl ⟨s, hp, hus⟩))
    rw [← hf, this]

theorem parChild?_aligned {res : Res V} {u : Part} {us : Url} (hal : Aligned res (u :: us))
    {b : Part} {e' : List Part} {ev : Option V} (hmem : (b :: e', ev) ∈ res)
    (hb : b.seg.isPar = true) : ∃ n, parChild? res = some (n, u.host) := by
  cases hc : parChild? res with
  | none => have := parChild?_none hc hmem; rw [hb] at this; simp at this
  | some nh =>
    obtain ⟨n, f⟩ := nh
    obtain ⟨p, rest, v, hm, hp, hf⟩ := parChild?_some hc
    have := hal.head hm (.inl (.inr (by simp [hp, Seg.isPar])))
    exact ⟨n, by rw [← hf, this]⟩

/-! ### matcher / shadow unfoldings -/

theorem matchesLax_wild {w : Part} (hw : w.seg = .wild) (us : Url) : matchesLax [w] us = true := by
  cases us <;> simp [matchesLax, matchesG, hw]

theorem matchesLax_cons_step {p u : Part} (hnw : p.seg ≠ .wild) (q : Pattern) (us : Url) :
    matchesLax (p :: q) (u :: us) = (segAccepts p.seg u.seg && matchesLax q us) := by
  cases hs : p.seg with
  | wild => exact absurd hs hnw
  | lit s => simp [matchesLax, matchesG, hs]
  | par n => simp [matchesLax, matchesG, hs]

theorem matchesLax_nil_right {q : Pattern} (h : matchesLax q [] = true) :
    q = [] ∨ ∃ w : Part, w.seg = .wild ∧ q = [w] := by
  cases q with
  | nil => exact .inl rfl
  | cons p ps =>
    right
    cases hs : p.seg with
    | wild =>
      simp [matchesLax, matchesG, hs] at h
      exact ⟨p, hs, by rw [h]⟩
    | lit s => simp [matchesLax, matchesG, hs] at h
    | par n => simp [matchesLax, matchesG, hs] at h

theorem shadows_nil_mid (e : Pattern) (us : Url) : shadows e [] us = false := by
  cases e <;> cases us <;> rfl

theorem shadows_nil_right (e q : Pattern) : shadows e q [] = false := by
  cases e <;> cases q <;> rfl

theorem shadows_wild (e : Pattern) {w : Part} (hw : w.seg = .wild) (us : Url) : shadows e [w] us = false := by
  cases e with
  | nil => rfl
  | cons b e' =>
    cases us with
    | nil => rfl
    | cons x u => simp [shadows, hw, Seg.isPar, shadows_nil_mid]

/-! ### soundness direction -/

/-- A wildcard value collected at this node belongs to a `[*]` entry, which matches whatever follows and
    is never shadowed. -/
theorem sound_wild {res : Res V} {us : Url} (hwl : WildLast res) {v : V} (hv : v ∈ wildVal res) :
    ∃ q, (q, some v) ∈ res ∧ matchesLax q us = true ∧ ∀ e ∈ res, shadows e.1 q us = false := by
  obtain ⟨w, hw, hm⟩ := wildChild?_entry hwl (mem_wildVal.mp hv)
  exact ⟨[w], hm, matchesLax_wild hw us, fun e _ => shadows_wild e.1 hw us⟩

/-- Lift a selection made below the child along edge `k` to this node. -/
theorem lift_sound {res : Res V} {u : Part} {us : Url} {k : Key} (h : TravHyp res (u :: us))
    (hk : ∀ p, p.seg.key = k → trieStep p u)
    (hnolit : k = .par → ∀ s, u.seg = .lit s → constFlag? res s ≠ some u.host)
    {v : V} {q' : Pattern} (hq' : (q', some v) ∈ step k res) (hm : matchesLax q' us = true)
    (hsh : ∀ e ∈ step k res, shadows e.1 q' us = false) :
    ∃ q, (q, some v) ∈ res ∧ matchesLax q (u :: us) = true ∧ ∀ e ∈ res, shadows e.1 q (u :: us) = false := by
  obtain ⟨hu, _⟩ := urlNonEmpty_cons h.ne
  obtain ⟨p, hp, hpk⟩ := mem_step.mp hq'
  refine ⟨p :: q', hp, ?_, ?_⟩
  · rw [matchesLax_cons_step (trieStep_not_wild (hk p hpk)), trieStep_accepts (hk p hpk) hu, hm]; rfl
  · intro ⟨e, ev⟩ he
    cases e with
    | nil => rfl
    | cons b e' =>
      simp only [shadows, Bool.or_eq_false_iff, Bool.and_eq_false_iff]
      constructor
      · by_cases hpar : p.seg.isPar = true
        · right
          cases hb : b.seg with
          | lit s =>
            simp only
            by_cases hus : u.seg = .lit s
            · exfalso
              have hkp : k = .par := by
                cases hs : p.seg with
                | par n => rw [hs] at hpk; exact hpk.symm
                | lit s' => simp [hs, Seg.isPar] at hpar
                | wild => simp [hs, Seg.isPar] at hpar
              exact hnolit hkp s hus (constFlag?_aligned h.al hus he hb)
            · simp [hus]
          | par n => rfl
          | wild => rfl
        · left; simpa using hpar
      · by_cases hkey : p.seg.key = b.seg.key
        · right
          have : (e', ev) ∈ step k res := mem_step.mpr ⟨b, he, by rw [← hkey, hpk]⟩
          exact hsh _ this
        · left; simpa using hkey

theorem finalSel_end {c : Res V} (h : TravHyp c []) (b : Bool) :
    finalSel c b = (match nodeValue c with | some v => [v] | none => []) := by
  have hw : wildChild? c = none := by
    cases hw : wildChild? c with
    | none => rfl
    | some wv =>
      obtain ⟨w, hws, hm⟩ := wildChild?_entry h.wl hw
      exact absurd (by simp [wildPos, hws]) (h.noZero _ hm)
  unfold finalSel
  rw [hw]
  cases nodeValue c <;> rfl

theorem finalSel_break {res : Res V} {u : Part} (h : TravHyp res [u]) (b : Bool) :
    ∀ v ∈ finalSel res b, v ∈ wildVal res := by
  intro v hv
  unfold finalSel at hv
  cases hn : nodeValue res with
  | some v' =>
    exfalso
    have := h.noExtra _ (nodeValue_some hn) (by simp [endsWild]) (by simp)
    simp [matchesLax, matchesG] at this
  | none =>
    rw [hn] at hv
    cases hw : wildChild? res with
    | none => rw [hw] at hv; simp at hv
    | some wv =>
      rw [hw] at hv
      cases wv with
      | none => simp at hv
      | some w =>
        simp only at hv
        split at hv
        · simp at hv; subst hv; exact mem_wildVal.mpr hw
        · simp at hv

theorem travS_sound (us : Url) : ∀ (u : Part) (res : Res V) (v : V), TravHyp res (u :: us) →
    v ∈ travS res (u :: us) →
    ∃ q, (q, some v) ∈ res ∧ matchesLax q (u :: us) = true ∧ ∀ e ∈ res, shadows e.1 q (u :: us) = false := by
  induction us with
  | nil =>
    intro u res v h hv
    simp only [travS, List.mem_append] at hv
    rcases hv with hv | hv
    · exact sound_wild h.wl hv
    · rcases next_cases res u with ⟨s, hs, hf, hnx⟩ | ⟨hno, ⟨n, hpc, hnx⟩ | ⟨_, hnx⟩⟩
      · rw [hnx] at hv
        simp only at hv
        have hc := h.step (stepOK_lit hs)
        rw [finalSel_end hc] at hv
        cases hn : nodeValue (step (.lit s) res) with
        | none => rw [hn] at hv; simp at hv
        | some v' =>
          rw [hn] at hv; simp at hv; subst hv
          exact lift_sound h (stepOK_lit hs) (by intro hk; cases hk) (nodeValue_some hn)
            (by simp [matchesLax, matchesG]) (fun e _ => shadows_nil_mid e.1 [])
      · rw [hnx] at hv
        simp only at hv
        have hc := h.step (k := .par) stepOK_par
        rw [finalSel_end hc] at hv
        cases hn : nodeValue (step .par res) with
        | none => rw [hn] at hv; simp at hv
        | some v' =>
          rw [hn] at hv; simp at hv; subst hv
          exact lift_sound h stepOK_par (fun _ => hno) (nodeValue_some hn)
            (by simp [matchesLax, matchesG]) (fun e _ => shadows_nil_mid e.1 [])
      · rw [hnx] at hv
        simp only at hv
        exact sound_wild h.wl (finalSel_break h _ v hv)
  | cons u' rest ih =>
    intro u res v h hv
    simp only [travS, List.mem_append] at hv
    rcases hv with hv | hv
    · exact sound_wild h.wl hv
    · rcases next_cases res u with ⟨s, hs, hf, hnx⟩ | ⟨hno, ⟨n, hpc, hnx⟩ | ⟨_, hnx⟩⟩
      · rw [hnx] at hv
        simp only at hv
        have hc := h.step (stepOK_lit hs)
        obtain ⟨q', hq', hm, hsh⟩ := ih u' _ v hc hv
        exact lift_sound h (stepOK_lit hs) (by intro hk; cases hk) hq' hm hsh
      · rw [hnx] at hv
        simp only at hv
        have hc := h.step (k := .par) stepOK_par
        obtain ⟨q', hq', hm, hsh⟩ := ih u' _ v hc hv
        exact lift_sound h stepOK_par (fun _ => hno) hq' hm hsh
      · rw [hnx] at hv
        simp at hv

/-! ### completeness direction -/

theorem wildVal_sub_travS {res : Res V} {u : Part} {us : Url} {v : V} (hv : v ∈ wildVal res) :
    v ∈ travS res (u :: us) := by
  cases us <;> simp only [travS, List.mem_append] <;> exact .inl hv

theorem travS_cons_next {res c : Res V} {u : Part} {us : Url} (hnx : next res u = some c) {v : V}
    (hv : v ∈ (match us with | [] => finalSel c u.host | u' :: rest => travS c (u' :: rest))) :
    v ∈ travS res (u :: us) := by
  cases us with
  | nil => simp only [travS, hnx, List.mem_append]; exact .inr hv
  | cons u' rest => simp only [travS, hnx, List.mem_append]; exact .inr hv

theorem travS_complete (us : Url) : ∀ (u : Part) (res : Res V) (v : V) (q : Pattern), TravHyp res (u :: us) →
    (q, some v) ∈ res → matchesLax q (u :: us) = true → (∀ e ∈ res, shadows e.1 q (u :: us) = false) →
    v ∈ travS res (u :: us) := by
  induction us with
  | nil =>
    intro u res v q h hq hm hsh
    cases q with
    | nil => simp [matchesLax, matchesG] at hm
    | cons p q' =>
      by_cases hpw : p.seg = .wild
      · have hq'nil : q' = [] := by simpa [matchesLax, matchesG, hpw] using hm
        subst hq'nil
        exact wildVal_sub_travS (mem_wildVal.mpr (wildChild?_of_mem h.wl h.parts h.coh hpw hq))
      · rw [matchesLax_cons_step hpw] at hm
        simp only [Bool.and_eq_true] at hm
        obtain ⟨hacc, hm'⟩ := hm
        -- the child the walk enters is the one `q` lives in
        have hnext : next res u = some (step p.seg.key res) ∧ (∀ p', p'.seg.key = p.seg.key → trieStep p' u) := by
          cases hs : p.seg with
          | wild => exact absurd hs hpw
          | lit s =>
            have hus : u.seg = .lit s := by simpa [hs, segAccepts] using hacc
            have hf := constFlag?_aligned h.al hus hq hs
            exact ⟨by simp [next, hus, hf, Seg.key], stepOK_lit hus⟩
          | par n =>
            have hno : ∀ s, u.seg = .lit s → constFlag? res s ≠ some u.host := by
              intro s hus hf
              obtain ⟨b, rest, bv, hb, hbs, _⟩ := constFlag?_some hf
              have := hsh _ hb
              simp [shadows, hs, Seg.isPar, hbs, hus] at this
            obtain ⟨n', hpc⟩ := parChild?_aligned h.al hq (by simp [hs, Seg.isPar])
            rw [next_noconst hno, hpc]
            exact ⟨by simp [Seg.key], stepOK_par⟩
        obtain ⟨hnx, hk⟩ := hnext
        have hc := h.step hk
        have hq'c : (q', some v) ∈ step p.seg.key res := mem_step.mpr ⟨p, hq, rfl⟩
        apply travS_cons_next hnx
        simp only
        rw [finalSel_end hc]
        rcases matchesLax_nil_right hm' with hnil | ⟨w, hw, hqw⟩
        · subst hnil
          rw [nodeValue_eq_of_mem hc.coh hq'c]
          simp
        · subst hqw
          exact absurd (by simp [wildPos, hw]) (hc.noZero _ hq'c)
  | cons u' rest ih =>
    intro u res v q h hq hm hsh
    cases q with
    | nil => simp [matchesLax, matchesG] at hm
    | cons p q' =>
      by_cases hpw : p.seg = .wild
      · have hq'nil : q' = [] := by simpa [matchesLax, matchesG, hpw] using hm
        subst hq'nil
        exact wildVal_sub_travS (mem_wildVal.mpr (wildChild?_of_mem h.wl h.parts h.coh hpw hq))
      · rw [matchesLax_cons_step hpw] at hm
        simp only [Bool.and_eq_true] at hm
        obtain ⟨hacc, hm'⟩ := hm
        have hnext : next res u = some (step p.seg.key res) ∧ (∀ p', p'.seg.key = p.seg.key → trieStep p' u) := by
          cases hs : p.seg with
          | wild => exact absurd hs hpw
          | lit s =>
            have hus : u.seg = .lit s := by simpa [hs, segAccepts] using hacc
            have hf := constFlag?_aligned h.al hus hq hs
            exact ⟨by simp [next, hus, hf, Seg.key], stepOK_lit hus⟩
          | par n =>
            have hno : ∀ s, u.seg = .lit s → constFlag? res s ≠ some u.host := by
              intro s hus hf
              obtain ⟨b, rest, bv, hb, hbs, _⟩ := constFlag?_some hf
              have := hsh _ hb
              simp [shadows, hs, Seg.isPar, hbs, hus] at this
            obtain ⟨n', hpc⟩ := parChild?_aligned h.al hq (by simp [hs, Seg.isPar])
            rw [next_noconst hno, hpc]
            exact ⟨by simp [Seg.key], stepOK_par⟩
        obtain ⟨hnx, hk⟩ := hnext
        have hc := h.step hk
        have hq'c : (q', some v) ∈ step p.seg.key res := mem_step.mpr ⟨p, hq, rfl⟩
        apply travS_cons_next hnx
        simp only
        apply ih u' _ v q' hc hq'c hm'
        intro ⟨e', ev⟩ he'
        obtain ⟨b, hb, hbk⟩ := mem_step.mp he'
        have := hsh _ hb
        simp only [shadows, Bool.or_eq_false_iff, Bool.and_eq_false_iff] at this
        rcases this.2 with hne | hok
        · simp [hbk] at hne
        · exact hok

/-- Closed form of the traversal under `TravHyp`: a value is returned iff it belongs to an entry whose
    pattern (laxly) matches the URL and that no other entry shadows. -/
theorem mem_travS_iff {res : Res V} {u : Part} {us : Url} (h : TravHyp res (u :: us)) (v : V) :
    v ∈ travS res (u :: us) ↔
      ∃ q, (q, some v) ∈ res ∧ matchesLax q (u :: us) = true ∧ ∀ e ∈ res, shadows e.1 q (u :: us) = false :=
  ⟨travS_sound us u res v h, fun ⟨q, hq, hm, hsh⟩ => travS_complete us u res v q h hq hm hsh⟩

end LunarVerif.C03
