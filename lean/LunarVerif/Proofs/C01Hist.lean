import LunarVerif.Proofs.C01Api
/-! C01: induction over API histories (the judge's predicate holds of every run of the model). -/
namespace LunarVerif.C01

/-! ### Well-formed configurations: chains have no repeated quota -/

def ParentsFirst (cfg : Cfg) : Prop :=
  ∀ (i : Nat) (c : QuotaCfg) (p : QId), cfg.quotas[i]? = some c → c.parent = some p → p < i

theorem wellFormed_at {cfg : Cfg} (h : wellFormed cfg = true) (i : Nat) (c : QuotaCfg)
    (hi : cfg.quotas[i]? = some c) :
    0 < c.win ∧ c.win % nsPerSec = 0 ∧ ∀ p, c.parent = some p → p < i := by
  unfold wellFormed at h
  rw [List.all_eq_true] at h
  have hlt : i < cfg.quotas.length := by
    have := List.getElem?_eq_some_iff.mp hi
    exact this.1
  have := h i (List.mem_range.mpr hlt)
  simp only [hi, Bool.and_eq_true, decide_eq_true_eq] at this
  obtain ⟨⟨h2, h3⟩, h4⟩ := this
  refine ⟨h2, h3, ?_⟩
  intro p hp
  simpa [hp] using h4

theorem wellFormed_parents {cfg : Cfg} (h : wellFormed cfg = true) : ParentsFirst cfg :=
  fun i c p hi hp => (wellFormed_at h i c hi).2.2 p hp

theorem chainFuel_le (cfg : Cfg) (hpf : ParentsFirst cfg) : ∀ (n : Nat) (q : QId) (p : QId × QuotaCfg),
    p ∈ chainFuel cfg n q → p.1 ≤ q := by
  intro n
  induction n with
  | zero => intro q p h; simp [chainFuel] at h
  | succ n ih =>
    intro q p h
    unfold chainFuel at h
    cases hq : cfg.quotas[q]? with
    | none => simp [hq] at h
    | some c =>
      simp only [hq, List.mem_cons] at h
      rcases h with h | h
      · subst h; exact Nat.le_refl _
      · cases hp : c.parent with
        | none => simp [hp] at h
        | some p' =>
          simp only [hp] at h
          have h1 := ih p' p h
          have h2 := hpf q c p' hq hp
          exact Nat.le_trans h1 (Nat.le_of_lt h2)

theorem chainFuel_nodup (cfg : Cfg) (hpf : ParentsFirst cfg) : ∀ (n : Nat) (q : QId),
    ((chainFuel cfg n q).map (·.1)).Nodup := by
  intro n
  induction n with
  | zero => intro q; simp [chainFuel]
  | succ n ih =>
    intro q
    unfold chainFuel
    cases hq : cfg.quotas[q]? with
    | none => simp
    | some c =>
      cases hp : c.parent with
      | none => simp [hp]
      | some p' =>
        simp only [hp, List.map_cons, List.nodup_cons]
        refine ⟨?_, ih p'⟩
        intro hmem
        obtain ⟨x, hx, hxq⟩ := List.mem_map.mp hmem
        have h1 := chainFuel_le cfg hpf n p' x hx
        have h2 := hpf q c p' hq hp
        have h3 : x.1 = q := hxq
        rw [h3] at h1
        exact absurd h2 (Nat.not_lt.mpr h1)

theorem chain_nodup (cfg : Cfg) (hpf : ParentsFirst cfg) (q : QId) : ((chain cfg q).map (·.1)).Nodup :=
  chainFuel_nodup cfg hpf _ q

/-! ### Arrivals -/

def opArr (ops : List Op) : List Rid :=
  (ops.filter (fun o => o.kind == .inc || o.kind == .req)).map (·.r)

theorem arrivals_observe (cfg : Cfg) : ∀ (ops : List Op) (st : St), arrivals (observe cfg st ops) = opArr ops := by
  intro ops
  induction ops with
  | nil => intro st; rfl
  | cons o os ih =>
    intro st
    have := ih (apiStep cfg st o).1
    unfold arrivals at this ⊢
    unfold opArr at this ⊢
    simp only [observe, List.filter_cons]
    split <;> simp [this]

theorem nodupB_cons (x : Nat) (xs : List Nat) (h : nodupB (x :: xs) = true) : x ∉ xs ∧ nodupB xs = true := by
  simp only [nodupB, Bool.and_eq_true, Bool.not_eq_true', List.contains_eq_mem, decide_eq_false_iff_not] at h
  exact h

/-! ### One API call -/

/-- Every pending amount is what the request counts, at that level, with the headers of its arrival. -/
def AmtInv (cfg : Cfg) (st : St) (arr : List (Rid × Hdrs)) : Prop :=
  ∀ (k : Key) (c : QuotaCfg) (r : Rid) (amt : Nat), cfg.quotas[k.1]? = some c →
    (st.at k).memo.lookup r = some (some amt) → ∃ h, arr.lookup r = some h ∧ amt = costOf c h

theorem amtOk_of_inv (cfg : Cfg) (st : St) (arr : List (Rid × Hdrs)) (ch : List (QId × QuotaCfg)) (r : Rid) (h : Hdrs)
    (hinv : AmtInv cfg st arr) (hc : ∀ h', arr.lookup r = some h' → h' = h) (hv : ∀ p ∈ ch, validPair cfg p) :
    AmtOk st ch r h := by
  intro p hp amt hl
  obtain ⟨h', hl', ha⟩ := hinv (keyOf p h) p.2 r amt (hv p hp) hl
  rw [hc h' hl'] at ha
  exact ha

/-- The arrivals seen so far, with the new one in front. -/
def arrAfter (arr : List (Rid × Hdrs)) (o : Op) : List (Rid × Hdrs) :=
  if o.kind == .inc || o.kind == .req then (o.r, o.h) :: arr else arr

theorem incChain_amt (cfg : Cfg) (st : St) (arr : List (Rid × Hdrs)) (q : QId) (r t : Nat) (h : Hdrs)
    (hinv : AmtInv cfg st arr) (hfresh : ∀ k, (st.at k).memo.lookup r = none) :
    AmtInv cfg (incChain st (chain cfg q) r t h).1 ((r, h) :: arr) := by
  intro k c r' amt hk hl
  rcases incChain_entries r t h r' amt _ st k hl with h1 | ⟨h1, p, hp, h2, h3⟩
  · have hne : r' ≠ r := by
      intro e; subst e; rw [hfresh k] at h1; exact absurd h1 (by simp)
    obtain ⟨h', hl', ha⟩ := hinv k c r' amt hk h1
    have hb : (r' == r) = false := by simpa using hne
    exact ⟨h', by simp [List.lookup_cons, hb, hl'], ha⟩
  · subst h1
    have hv : cfg.quotas[p.1]? = some p.2 := chain_valid cfg q p hp
    have hk1 : k.1 = p.1 := by rw [← h2]; rfl
    rw [hk1, hv] at hk
    have := Option.some.inj hk
    subst this
    exact ⟨h, by simp, h3⟩

theorem apiStep_amt (cfg : Cfg) (st : St) (arr : List (Rid × Hdrs)) (o : Op) (hinv : AmtInv cfg st arr)
    (hfresh : (o.kind = .inc ∨ o.kind = .req) → ∀ k, (st.at k).memo.lookup o.r = none) :
    AmtInv cfg (apiStep cfg st o).1 (arrAfter arr o) := by
  obtain ⟨kind, q, r, t, h⟩ := o
  cases kind with
  | inc => simpa [apiStep, arrAfter] using incChain_amt cfg st arr q r t h hinv (hfresh (Or.inl rfl))
  | req =>
    have h1 := incChain_amt cfg st arr q r t h hinv (hfresh (Or.inr rfl))
    simp only [apiStep, limiter, arrAfter]
    intro k c r' amt hk hl
    exact h1 k c r' amt hk (allowedChain_entries r h r' _ _ _ k hl)
  | allowed =>
    simp only [apiStep, arrAfter]
    intro k c r' amt hk hl
    exact hinv k c r' amt hk (allowedChain_entries r h r' _ _ _ k hl)
  | dec =>
    simp only [apiStep, arrAfter]
    intro k c r' amt hk hl
    exact hinv k c r' amt hk (decChain_entries r h r' _ _ _ k hl)

theorem apiStep_rel (cfg : Cfg) (hpf : ParentsFirst cfg) (st : St) (ss : SSt) (arr : List (Rid × Hdrs)) (o : Op)
    (hrel : LevelsRel cfg st ss) (hamt : AmtInv cfg st arr)
    (hfresh : (o.kind = .inc ∨ o.kind = .req) → ∀ k, (st.at k).memo.lookup o.r = none)
    (hcons : o.kind = .allowed → ∀ h', arr.lookup o.r = some h' → h' = o.h) :
    LevelsRel cfg (apiStep cfg st o).1 (sStep cfg ss ⟨o, (apiStep cfg st o).2⟩) ∧
    (o.kind = .req → (apiStep cfg st o).2 = some (sInc ss (chain cfg o.q) o.t o.h).2) := by
  obtain ⟨kind, q, r, t, h⟩ := o
  have hv := chain_valid cfg q
  have hnd := chain_nodup cfg hpf q
  cases kind with
  | inc =>
    refine ⟨?_, fun hk => by simp at hk⟩
    simp only [apiStep, sStep]
    exact (incChain_rel cfg r t h _ st ss hv hnd hrel (fun p _ => hfresh (Or.inl rfl) _)).1
  | allowed =>
    refine ⟨?_, fun hk => by simp at hk⟩
    have hok := amtOk_of_inv cfg st arr _ r h hamt (hcons rfl) hv
    have := allowedChain_rel cfg r h _ st ss hv hrel hok
    simp only [apiStep]
    cases hb : (allowedChain st (chain cfg q) r h).2 with
    | true => simpa [sStep, hb] using this
    | false => simpa [sStep, hb] using this
  | dec =>
    refine ⟨?_, fun hk => by simp at hk⟩
    simp only [apiStep, sStep]
    exact decChain_rel cfg r h _ st ss hv hrel
  | req =>
    have hinc := (incChain_rel cfg r t h _ st ss hv hnd hrel (fun p _ => hfresh (Or.inr rfl) _)).1
    have hamt1 := incChain_amt cfg st arr q r t h hamt (hfresh (Or.inr rfl))
    have hok := amtOk_of_inv cfg _ _ (chain cfg q) r h hamt1 (by intro h' hl; simp at hl; exact hl.symm) hv
    have hall := allowedChain_rel cfg r h _ _ _ hv hinc hok
    have hverd := limiter_verdict cfg st ss _ r t h hv hnd hrel (fun p _ => hfresh (Or.inr rfl) _)
    simp only [apiStep, limiter]
    constructor
    · cases hb : (allowedChain (incChain st (chain cfg q) r t h).1 (chain cfg q) r h).2 with
      | true => simpa [sStep, hb] using hall
      | false => simpa [sStep, hb] using hall
    · intro _
      rw [hverd]

theorem apiStep_fresh (cfg : Cfg) (st : St) (o : Op) (r' : Rid)
    (hne : (o.kind = .inc ∨ o.kind = .req) → r' ≠ o.r) (hst : ∀ k, (st.at k).memo.lookup r' = none) :
    ∀ k, ((apiStep cfg st o).1.at k).memo.lookup r' = none := by
  obtain ⟨kind, q, r, t, h⟩ := o
  cases kind with
  | inc => exact incChain_lookup_other r t h r' (hne (Or.inl rfl)) _ st hst
  | allowed => exact allowedChain_lookup_none r h r' _ st hst
  | dec => exact decChain_lookup_none r h r' _ st hst
  | req =>
    simp only [apiStep, limiter]
    exact allowedChain_lookup_none r h r' _ _ (incChain_lookup_other r t h r' (hne (Or.inr rfl)) _ st hst)

theorem opArr_cons (o : Op) (os : List Op) :
    opArr (o :: os) = if (o.kind == .inc || o.kind == .req) then o.r :: opArr os else opArr os := by
  unfold opArr
  simp only [List.filter_cons]
  split <;> simp

/-- Stepping keeps "every id still to arrive is unknown to every memo". -/
theorem fresh_step (cfg : Cfg) (st : St) (o : Op) (os : List Op)
    (hfresh : ∀ r ∈ opArr (o :: os), ∀ k, (st.at k).memo.lookup r = none)
    (hnd : nodupB (opArr (o :: os)) = true) :
    (∀ r ∈ opArr os, ∀ k, ((apiStep cfg st o).1.at k).memo.lookup r = none) ∧ nodupB (opArr os) = true ∧
    ((o.kind = .inc ∨ o.kind = .req) → ∀ k, (st.at k).memo.lookup o.r = none) := by
  rw [opArr_cons] at hfresh hnd
  by_cases hk : (o.kind == .inc || o.kind == .req) = true
  · simp only [hk, if_true] at hfresh hnd
    obtain ⟨hnotin, hnd'⟩ := nodupB_cons _ _ hnd
    refine ⟨?_, hnd', fun _ k => hfresh o.r (by simp) k⟩
    intro r hr
    apply apiStep_fresh cfg st o r
    · intro _ e; subst e; exact hnotin hr
    · exact hfresh r (by simp [hr])
  · simp only [hk, Bool.false_eq_true, if_false] at hfresh hnd
    refine ⟨?_, hnd, ?_⟩
    · intro r hr
      apply apiStep_fresh cfg st o r
      · intro hor
        exfalso
        apply hk
        rcases hor with h | h <;> simp [h]
      · exact hfresh r hr
    · intro hor
      exfalso
      apply hk
      rcases hor with h | h <;> simp [h]

/-! ### Whole histories -/

theorem sRun_cons (cfg : Cfg) (ss : SSt) (o : Obs) (h : History) :
    sRun cfg ss (o :: h) = sRun cfg (sStep cfg ss o) h := rfl

theorem consistent_step (cfg : Cfg) (st : St) (arr : List (Rid × Hdrs)) (o : Op) (os : List Op)
    (h : consistentFrom arr (observe cfg st (o :: os)) = true) :
    consistentFrom (arrAfter arr o) (observe cfg (apiStep cfg st o).1 os) = true ∧
    (o.kind = .allowed → ∀ h', arr.lookup o.r = some h' → h' = o.h) := by
  simp only [observe, consistentFrom] at h
  unfold arrAfter
  by_cases hk : (o.kind == .inc || o.kind == .req) = true
  · simp only [hk, if_true] at h ⊢
    refine ⟨h, ?_⟩
    intro ha
    rw [ha] at hk
    simp at hk
  · simp only [hk, Bool.false_eq_true, if_false, Bool.and_eq_true] at h ⊢
    refine ⟨h.2, ?_⟩
    intro _ h' hl
    have := h.1
    rw [hl] at this
    simpa using this

theorem api_rel (cfg : Cfg) (hpf : ParentsFirst cfg) : ∀ (ops : List Op) (st : St) (ss : SSt) (arr : List (Rid × Hdrs)),
    LevelsRel cfg st ss → AmtInv cfg st arr →
    (∀ r ∈ opArr ops, ∀ k, (st.at k).memo.lookup r = none) → nodupB (opArr ops) = true →
    consistentFrom arr (observe cfg st ops) = true →
    LevelsRel cfg (apiFinal cfg st ops) (sRun cfg ss (observe cfg st ops)) := by
  intro ops
  induction ops with
  | nil => intro st ss arr hrel _ _ _ _; exact hrel
  | cons o os ih =>
    intro st ss arr hrel hamt hfresh hnd hcons
    obtain ⟨hf', hnd', hfo⟩ := fresh_step cfg st o os hfresh hnd
    obtain ⟨hcons', hco⟩ := consistent_step cfg st arr o os hcons
    obtain ⟨hrel', _⟩ := apiStep_rel cfg hpf st ss arr o hrel hamt hfo hco
    have hamt' := apiStep_amt cfg st arr o hamt hfo
    simpa [observe, apiFinal, sRun_cons] using ih _ _ _ hrel' hamt' hf' hnd' hcons'

theorem AmtInv.init (cfg : Cfg) : AmtInv cfg St.init [] := by
  intro k c r amt _ hl
  simp [St.at_init, Lvl.init] at hl

theorem init_fresh (ops : List Op) : ∀ r ∈ opArr ops, ∀ k, (St.init.at k).memo.lookup r = none := by
  intro r _ k; rfl

/-! ### Bound and spacing as the judge checks them -/

theorem boundHolds_of_rel (cfg : Cfg) (st : St) (h : History) (hrel : LevelsRel cfg st (sRun cfg SSt.init h)) :
    boundHolds cfg h = true := by
  unfold boundHolds
  rw [List.all_eq_true]
  intro o _
  unfold boundAt
  rw [List.all_eq_true]
  intro p hp
  obtain ⟨a, c⟩ := p
  have hv : cfg.quotas[a]? = some c := chain_valid cfg o.op.q (a, c) hp
  rw [List.all_eq_true]
  intro w hw
  have := (hrel (a, groupOf c o.op.h) c hv).all w hw
  simp only [decide_eq_true_eq]
  omega

/-- Spacing of all reconstructed windows of valid quotas, with the newest start not after `T`. -/
def SpAll (cfg : Cfg) (T : Nat) (ss : SSt) : Prop :=
  ∀ (k : Key) (c : QuotaCfg), cfg.quotas[k.1]? = some c → SpOk (c.win / nsPerSec) T (ss.at k)

theorem SpAll.mono {cfg : Cfg} {T T' : Nat} {ss : SSt} (h : SpAll cfg T ss) (hT : T ≤ T') : SpAll cfg T' ss :=
  fun k c hk => (h k c hk).mono hT

theorem SpAll.set {cfg : Cfg} {T : Nat} {ss : SSt} (h : SpAll cfg T ss) (k : Key) (c : QuotaCfg)
    (hc : cfg.quotas[k.1]? = some c) (ws : List Win) (hws : SpOk (c.win / nsPerSec) T ws) :
    SpAll cfg T (KMap.set ss k ws) := by
  intro q c' hq
  rw [SSt.at_set]
  by_cases hk : k = q
  · subst hk
    rw [hc] at hq
    have := Option.some.inj hq
    subst this
    simpa using hws
  · simpa [hk] using h q c' hq

theorem sInc_spaced (cfg : Cfg) (hwin : ∀ (i : Nat) (c : QuotaCfg), cfg.quotas[i]? = some c → c.win % nsPerSec = 0) (t : Nat) (h : Hdrs) :
    ∀ (ch : List (QId × QuotaCfg)) (ss : SSt), (∀ p ∈ ch, validPair cfg p) → SpAll cfg t ss →
      SpAll cfg t (sInc ss ch t h).1 := by
  intro ch
  induction ch with
  | nil => intro ss _ hs; exact hs
  | cons ac rest ih =>
    intro ss hv hs
    obtain ⟨a, c⟩ := ac
    have hac : cfg.quotas[a]? = some c := hv (a, c) (by simp)
    have hup := ih (KMap.set ss (a, groupOf c h) (chargeWin c.win t (costOf c h) (ss.at (a, groupOf c h))))
      (fun p hp => hv p (by simp [hp]))
      (hs.set (a, groupOf c h) c hac _ (SpOk.charge (costOf c h) (hwin a c hac) (hs (a, groupOf c h) c hac)))
    rw [sInc_cons]
    split
    · exact hs
    · split
      · exact hup
      · exact hup.set (a, groupOf c h) c hac _ ((hup (a, groupOf c h) c hac).refundOk (costOf c h))

theorem sAdmit_spaced (cfg : Cfg) (T : Nat) (h : Hdrs) :
    ∀ (ch : List (QId × QuotaCfg)) (ss : SSt), (∀ p ∈ ch, validPair cfg p) → SpAll cfg T ss →
      SpAll cfg T (sAdmit ss ch h) := by
  intro ch
  induction ch with
  | nil => intro ss _ hs; exact hs
  | cons ac rest ih =>
    intro ss hv hs
    obtain ⟨a, c⟩ := ac
    have hac : cfg.quotas[a]? = some c := hv (a, c) (by simp)
    rw [sAdmit_cons]
    apply ih _ (fun p hp => hv p (by simp [hp]))
    exact hs.set (a, groupOf c h) c hac _ ((hs (a, groupOf c h) c hac).admitOk (costOf c h))

theorem sStep_spaced (cfg : Cfg) (hwin : ∀ (i : Nat) (c : QuotaCfg), cfg.quotas[i]? = some c → c.win % nsPerSec = 0) (ss : SSt) (o : Obs)
    (hs : SpAll cfg o.op.t ss) : SpAll cfg o.op.t (sStep cfg ss o) := by
  have hv := chain_valid cfg o.op.q
  unfold sStep
  split
  · exact sInc_spaced cfg hwin _ _ _ _ hv hs
  · exact sAdmit_spaced cfg _ _ _ _ hv (sInc_spaced cfg hwin _ _ _ _ hv hs)
  · exact sInc_spaced cfg hwin _ _ _ _ hv hs
  · exact sAdmit_spaced cfg _ _ _ _ hv hs
  · exact hs

theorem sRun_spaced (cfg : Cfg) (hwin : ∀ (i : Nat) (c : QuotaCfg), cfg.quotas[i]? = some c → c.win % nsPerSec = 0) :
    ∀ (h : History) (ss : SSt) (T : Nat), SpAll cfg T ss → monotone h = true →
      (∀ o rest, h = o :: rest → T ≤ o.op.t) → ∃ T', SpAll cfg T' (sRun cfg ss h) := by
  intro h
  induction h with
  | nil => intro ss T hs _ _; exact ⟨T, hs⟩
  | cons o rest ih =>
    intro ss T hs hm hT
    have h1 : SpAll cfg o.op.t ss := hs.mono (hT o rest rfl)
    have h2 := sStep_spaced cfg hwin ss o h1
    rw [sRun_cons]
    apply ih _ o.op.t h2
    · cases rest with
      | nil => rfl
      | cons b rest' =>
        simp only [monotone, Bool.and_eq_true] at hm
        exact hm.2
    · intro b rest' e
      subst e
      simp only [monotone, Bool.and_eq_true, decide_eq_true_eq] at hm
      exact hm.1

theorem spacedHolds_of (cfg : Cfg) (hwin : ∀ (i : Nat) (c : QuotaCfg), cfg.quotas[i]? = some c → c.win % nsPerSec = 0)
    (h : History) (hm : monotone h = true) : spacedHolds cfg h = true := by
  have h0 : SpAll cfg 0 SSt.init := fun k c _ => by simpa [SSt.at_init] using SpOk.nil _ _
  obtain ⟨T', hs⟩ := sRun_spaced cfg hwin h SSt.init 0 h0 hm (fun _ _ _ => Nat.zero_le _)
  unfold spacedHolds
  rw [List.all_eq_true]
  intro o _
  unfold spacedAt
  rw [List.all_eq_true]
  intro p hp
  obtain ⟨a, c⟩ := p
  exact (hs (a, groupOf c o.op.h) c (chain_valid cfg o.op.q (a, c) hp)).1

end LunarVerif.C01
