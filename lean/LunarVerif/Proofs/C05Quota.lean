import LunarVerif.Proofs.C05Ref
/-!
C05, part 6: the parent walk of `Stream.addParentsQuotaReferences` ends on every quota tree the loader builds,
whatever ids repeat.  A parent is always inserted before its children (`WF`), and `GetNode` answers the FIRST
match, which is not later than the actual parent node; so the insertion index of the resolved node strictly
decreases along the walk.  (With "deepest match wins" an id declared again below itself resolves to a node
whose parent id resolves back to it — the walk never ends.)
-/
namespace LunarVerif.C05
open LunarVerif.FlowGraph LunarVerif.FlowExec

/-- every node was inserted after its parent -/
def QWF (t : List QNode) : Prop := ∀ (i : Nat) (n : QNode), t[i]? = some n → ∀ p : Nat, n.parent = some p → p < i

theorem firstIdx_lt {α : Type} (p : α → Bool) : ∀ (l : List α) (j : Nat), firstIdx p l = some j → j < l.length
  | [], _, h => by simp [firstIdx] at h
  | a :: l, j, h => by
    unfold firstIdx at h
    by_cases hp : p a = true
    · simp only [hp, if_true, Option.some.injEq] at h
      subst h
      simp
    · simp only [hp, Bool.false_eq_true, if_false, Option.map_eq_some_iff] at h
      obtain ⟨j', hj', rfl⟩ := h
      have := firstIdx_lt p l j' hj'
      simp only [List.length_cons]
      omega

theorem firstIdx_le {α : Type} (p : α → Bool) : ∀ (l : List α) (k : Nat) (a : α), l[k]? = some a → p a = true →
    ∃ j, firstIdx p l = some j ∧ j ≤ k
  | [], _, _, h, _ => by simp at h
  | b :: l, k, a, h, hp => by
    unfold firstIdx
    by_cases hb : p b = true
    · exact ⟨0, by simp [hb], Nat.zero_le _⟩
    · cases k with
      | zero =>
        simp only [List.getElem?_cons_zero, Option.some.injEq] at h
        subst h
        exact absurd hp hb
      | succ k' =>
        simp only [List.getElem?_cons_succ] at h
        obtain ⟨j, hj, hle⟩ := firstIdx_le p l k' a h hp
        exact ⟨j + 1, by simp [hb, hj], by omega⟩

theorem qwf_snoc {t : List QNode} (h : QWF t) (id : String) (p : Nat) (hp : p < t.length) :
    QWF (t ++ [⟨id, some p⟩]) := by
  intro i n hi q hq
  by_cases hlt : i < t.length
  · rw [List.getElem?_append_left hlt] at hi
    exact h i n hi q hq
  · have hge : t.length ≤ i := by omega
    rw [List.getElem?_append_right hge] at hi
    cases hk : i - t.length with
    | zero =>
      simp only [hk, List.getElem?_cons_zero, Option.some.injEq] at hi
      subst hi
      simp only [Option.some.injEq] at hq
      omega
    | succ k => simp [hk] at hi

theorem treeAdd_wf : ∀ (ils : List QEntry) (t t' : List QNode), QWF t → treeAdd t ils = some t' → QWF t'
  | [], t, t', h, heq => by
    simp only [treeAdd, Option.some.injEq] at heq
    subst heq
    exact h
  | il :: rest, t, t', h, heq => by
    unfold treeAdd at heq
    split at heq
    · exact absurd heq (by simp)
    · rename_i p hp
      split at heq
      · exact absurd heq (by simp)
      · exact treeAdd_wf rest _ t' (qwf_snoc h il.id p (firstIdx_lt _ t p hp)) heq

theorem treeOf_wf {q : QEntry} {ils : List QEntry} {t : List QNode} (h : treeOf q ils = some t) : QWF t := by
  apply treeAdd_wf ils [⟨q.id, none⟩] t _ h
  intro i n hi p hp
  cases i with
  | zero =>
    simp only [List.getElem?_cons_zero, Option.some.injEq] at hi
    subst hi
    simp at hp
  | succ k => simp at hi

/-- the resolved node moves strictly towards the root (insertion index decreases) -/
theorem walkStep_lt {t : List QNode} (h : QWF t) {i j : Nat} (hs : walkStep t i = some j) : j < i := by
  unfold walkStep at hs
  cases hn : t[i]? with
  | none => simp [hn] at hs
  | some n =>
    cases hp : n.parent with
    | none => simp [hn, hp] at hs
    | some p =>
      simp only [hn, Option.bind_some, hp] at hs
      have hlt := h i n hn p hp
      cases hpn : t[p]? with
      | none => simp [hpn] at hs
      | some pn =>
        simp only [hpn] at hs
        obtain ⟨j', hj', hle⟩ := firstIdx_le (fun (x : QNode) => x.id == pn.id) t p pn hpn (by simp)
        unfold qresolve at hs
        rw [hj'] at hs
        simp only [Option.some.injEq] at hs
        omega

theorem parentWalk_ends {t : List QNode} (h : QWF t) : ∀ (fuel i : Nat), i < fuel → parentWalk t fuel i = true
  | 0, _, hlt => by omega
  | fuel + 1, i, hlt => by
    unfold parentWalk
    cases hs : walkStep t i with
    | none => rfl
    | some j =>
      have := walkStep_lt h hs
      exact parentWalk_ends h fuel j (by omega)

theorem refWalkOk_true {t : List QNode} (h : QWF t) (id : String) : refWalkOk t id = true := by
  unfold refWalkOk
  cases hr : qresolve t id with
  | none => rfl
  | some i =>
    have := firstIdx_lt _ t i hr
    exact parentWalk_ends h _ i (by omega)

theorem quotaTrees_wf (fs : List QFile) : ∀ t ∈ quotaTrees fs, QWF t := by
  intro t ht
  unfold quotaTrees at ht
  rw [List.mem_flatMap] at ht
  obtain ⟨f, _, hf⟩ := ht
  rw [List.mem_filterMap] at hf
  obtain ⟨q, _, hq⟩ := hf
  exact treeOf_wf hq

/-- **every parent walk the loader starts ends** -/
theorem walksOk_true (fs : List QFile) (flows : List (List (String × String))) : walksOk fs flows = true := by
  unfold walksOk
  rw [List.all_eq_true]
  intro params _
  rw [List.all_eq_true]
  intro kv _
  by_cases hk : (kv.1 != "quota_id") = true
  · simp [hk]
  · simp only [hk, Bool.false_or]
    cases hfind : (quotaTrees fs).reverse.find? (fun t => (qresolve t kv.2).isSome) with
    | none => rfl
    | some t =>
      have hm := List.mem_of_find?_eq_some hfind
      exact refWalkOk_true (quotaTrees_wf fs t (List.mem_reverse.mp hm)) kv.2

theorem load_no_hang (c : Cfg) : load c ≠ .hang := by
  intro h
  unfold load at h
  repeat' (split at h)
  all_goals first
    | (rename_i hw
       simp [walksOk_true] at hw
       done)
    | (simp at h)

end LunarVerif.C05
