import LunarVerif.Proofs.C20
import LunarVerif.Spec.C20Wiring
/-! Helper lemmas for level 2 of C20 (wiring of the diagnosis fail-safe). -/
namespace LunarVerif.C20

/-- The error of a failed construction (for stating examples; `Except` has no `DecidableEq`). -/
def errOf : Except CtorErr RawCfg → Option CtorErr
  | .error e => some e
  | .ok _ => none

/-! ### (a) the predicate -/

theorem goAtoi_empty : goAtoi "" = .error .syntax := by rfl

/-- The `Stat` a good record is parsed to. -/
def statOf (r : Row) : Stat :=
  ⟨r.px, r.sv,
   (match goAtoi r.rate with | .ok v => some v | .error _ => none),
   (match goAtoi r.last with | .ok v => (if v == -1 then none else some (secToNs v)) | .error _ => none)⟩

theorem parseRow_of_good (r : Row) (h : rowBad r = false) : parseRow r = some (statOf r) := by
  simp only [rowBad, Bool.or_eq_false_iff, bne_eq_false_iff_eq] at h
  obtain ⟨⟨hr, h1⟩, h2⟩ := h
  simp only [parseRow, hr, bne_self_eq_false, Bool.false_eq_true, if_false, statOf]
  have cell : ∀ s, cellBad s = false →
      parseCell s = some (match goAtoi s with | .ok v => some v | .error _ => none) := by
    intro s hs
    unfold parseCell
    by_cases he : s = ""
    · subst he; simp [goAtoi_empty]
    · simp only [he, if_false]
      simp only [cellBad, Bool.and_eq_false_iff, bne_eq_false_iff_eq] at hs
      rcases hs with hs | hs
      · exact absurd hs he
      · cases hg : goAtoi s with
        | ok v => rfl
        | error e => rw [hg] at hs; simp at hs
  rw [cell _ h1, cell _ h2]
  cases goAtoi r.rate <;> cases goAtoi r.last <;> rfl

theorem parseRow_of_bad (r : Row) (h : rowBad r = true) : parseRow r = none := by
  simp only [rowBad, Bool.or_eq_true, bne_iff_ne, ne_eq] at h
  unfold parseRow
  by_cases hr : r.ragged = 0
  · simp only [hr, bne_self_eq_false, Bool.false_eq_true, if_false]
    have cell : ∀ s, cellBad s = true → parseCell s = none := by
      intro s hs
      simp only [cellBad, Bool.and_eq_true, bne_iff_ne, ne_eq] at hs
      unfold parseCell
      simp only [hs.1, if_false]
      cases hg : goAtoi s with
      | ok v => rw [hg] at hs; simp at hs
      | error e => rfl
    rcases h with (h | h) | h
    · exact absurd hr h
    · rw [cell _ h]
    · rw [cell _ h]; cases parseCell r.rate <;> rfl
  · simp [hr]

theorem parseRows_of_good (rows : List Row) (h : rows.any rowBad = false) :
    parseRows rows = some (rows.map statOf) := by
  induction rows with
  | nil => rfl
  | cons r rs ih =>
    simp only [List.any_cons, Bool.or_eq_false_iff] at h
    simp [parseRows, parseRow_of_good r h.1, ih h.2]

theorem parseRows_of_bad (rows : List Row) (h : rows.any rowBad = true) : parseRows rows = none := by
  induction rows with
  | nil => simp at h
  | cons r rs ih =>
    simp only [List.any_cons, Bool.or_eq_true] at h
    unfold parseRows
    by_cases hb : rowBad r = true
    · rw [parseRow_of_bad r hb]
    · have := h.resolve_left hb
      rw [ih this]; cases parseRow r <;> rfl

theorem isSpoe_statOf (r : Row) : isSpoe (statOf r) = rowIsSpoe r := rfl

/-- The verdict on the table, model side and specification side. -/
theorem rows_verdict (rt mxNs : Int) (rows : List Row) :
    (match parseRows rows with
     | none => true
     | some stats => match stats.find? isSpoe with
       | none => true
       | some s => evalStat rt mxNs s)
    = classVerdict rt mxNs (classifyRows rows) := by
  unfold classifyRows
  by_cases hb : rows.any rowBad = true
  · simp [parseRows_of_bad rows hb, hb, classVerdict]
  · have hb' : rows.any rowBad = false := by simpa using hb
    rw [parseRows_of_good rows hb']
    simp only [hb', Bool.false_eq_true, if_false, List.find?_map]
    have : (isSpoe ∘ statOf) = rowIsSpoe := by funext r; exact isSpoe_statOf r
    rw [this]
    cases hf : rows.find? rowIsSpoe with
    | none => rfl
    | some r =>
      simp only [Option.map_some, evalStat, statOf]
      cases goAtoi r.rate <;> cases hl : goAtoi r.last <;> simp only [classVerdict]
      rename_i rate last
      by_cases h1 : last == -1 <;> simp [h1]

theorem fetch_verdict (rt mxNs : Int) (h : Http) :
    (match fetchStats h with
     | none => true
     | some stats => match stats.find? isSpoe with
       | none => true
       | some s => evalStat rt mxNs s)
    = classVerdict rt mxNs (classify h) := by
  cases h with
  | transportErr => rfl
  | bodyErr => rfl
  | status code b =>
    by_cases hc : code = 200
    · subst hc
      cases b with
      | junk => rfl
      | csv hd rows =>
        simp only [fetchStats, parseBody, classify, bne_self_eq_false, Bool.false_eq_true, if_false]
        by_cases hh : hd.complete = true
        · simp only [hh, if_true]; exact rows_verdict rt mxNs rows
        · simp [hh, classVerdict]
    · have h1 : fetchStats (.status code b) = none := by
        unfold fetchStats; split
        · rename_i heq; simp only [Http.status.injEq] at heq; exact absurd heq.1 hc
        · rfl
      have h2 : classify (.status code b) = .badStatus := by
        simp [classify, hc]
      rw [h1, h2]; rfl

/-- The model's predicate answers exactly what the specification states. -/
theorem predicate_eq_expected (thr : Thr) (h : Http) :
    (predicate thr h).1 = expectedHealthy thr h := by
  unfold predicate expectedHealthy thrParsed
  cases goAtoi thr.max with
  | error e => rfl
  | ok mx =>
    cases goAtoi thr.rate with
    | error e => rfl
    | ok rt =>
      simp only []
      rw [← fetch_verdict rt (secToNs mx) h]
      cases fetchStats h with
      | none => rfl
      | some stats => simp only []; cases List.find? isSpoe stats <;> rfl

/-- The stats endpoint is fetched iff both thresholds are readable. -/
theorem predicate_fetched (thr : Thr) (h : Http) :
    (predicate thr h).2 = (thrParsed thr).isSome := by
  unfold predicate thrParsed
  cases goAtoi thr.max with
  | error e => rfl
  | ok mx =>
    cases goAtoi thr.rate with
    | error e => rfl
    | ok rt =>
      simp only []
      cases fetchStats h with
      | none => rfl
      | some stats => simp only []; cases List.find? isSpoe stats <;> rfl

theorem expectedHealthy_of_error (thr : Thr) (h : Http) (he : (classify h).isError = true) :
    expectedHealthy thr h = true := by
  unfold expectedHealthy
  cases thrParsed thr with
  | none => rfl
  | some p =>
    simp only []
    cases hc : classify h with
    | values r l => rw [hc] at he; simp [FetchClass.isError] at he
    | _ => rfl

theorem wrap64_of_small (x : Int) (h1 : -9223372036854775808 ≤ x) (h2 : x < 9223372036854775808) :
    wrap64 x = x := by
  unfold wrap64 Int.bmod
  simp only []
  omega

theorem secToNs_of_small (x : Int) (h1 : -9223372036 ≤ x) (h2 : x ≤ 9223372036) :
    secToNs x = x * 1000000000 := by
  unfold secToNs
  apply wrap64_of_small <;> omega

end LunarVerif.C20

namespace LunarVerif.C20

/-! ### level 1 seen through the wiring -/

/-- The observation sequence the watcher is fed by a script. -/
def inputsOf : Thr → List Op → List Input
  | _, [] => []
  | thr, .obs lat h :: ops => ⟨(predicate thr h).1, lat⟩ :: inputsOf thr ops
  | _, .thr t :: ops => inputsOf t ops
  | thr, _ :: ops => inputsOf thr ops

theorem obsEvents_cons_obs (op : Op) (e : Event) (f : Bool) (c : Option Pol) (rest : Hist) :
    obsEvents ((op, Ans.obs e f c) :: rest) = e :: obsEvents rest := by
  simp [obsEvents]

theorem obsEvents_cons_other (op : Op) (a : Ans) (rest : Hist)
    (h : ∀ e f c, a ≠ Ans.obs e f c) : obsEvents ((op, a) :: rest) = obsEvents rest := by
  cases a with
  | obs e f c => exact absurd rfl (h e f c)
  | _ => simp [obsEvents]

/-- The health checks of a wired run are a run of the level-1 watcher model. -/
theorem obsEvents_sysRun (cfg : Cfg) (ops : List Op) :
    ∀ s : Sys, obsEvents (sysRun cfg s ops) = run cfg s.w (inputsOf s.thr ops) := by
  induction ops with
  | nil => intro s; rfl
  | cons op ops ih =>
    intro s
    cases op with
    | obs lat h =>
      simp only [sysRun, sysStep, inputsOf, run]
      rw [obsEvents_cons_obs, ih]
    | thr t =>
      simp only [sysRun, sysStep, inputsOf]
      rw [obsEvents_cons_other _ _ _ (by intro e f c h; cases h), ih]
    | write f =>
      simp only [sysRun, sysStep, inputsOf]
      rw [obsEvents_cons_other _ _ _ (by intro e f c h; cases h), ih]
    | admin b =>
      simp only [sysRun, sysStep, inputsOf]
      rw [obsEvents_cons_other _ _ _ (by intro e f c h; cases h), ih]
    | reload =>
      simp only [sysRun, sysStep, inputsOf]
      cases hs : s.acc with
      | none => simp only []; rw [obsEvents_cons_other _ _ _ (by intro e f c h; cases h), ih]
      | some a => simp only []; rw [obsEvents_cons_other _ _ _ (by intro e f c h; cases h), ih]
    | revert free =>
      simp only [sysRun, sysStep, inputsOf]
      cases hs : s.acc with
      | none => simp only []; rw [obsEvents_cons_other _ _ _ (by intro e f c h; cases h), ih]
      | some a => simp only []; rw [obsEvents_cons_other _ _ _ (by intro e f c h; cases h), ih]

theorem step_obs (cfg : Cfg) (w : W) (i : Input) : (step cfg w i).2.obs = i.obs := by
  unfold step; dsimp only; split
  · rfl
  · split <;> rfl

/-- Every health check of a wired run answers what the specification states. -/
theorem predsOk_sysRun' (cfg : Cfg) (ops : List Op) :
    ∀ (s : Sys) (thr : Thr), thr = s.thr → predsOk thr (sysRun cfg s ops) = true := by
  induction ops with
  | nil => intro s thr _; rfl
  | cons op ops ih =>
    intro s thr hthr
    subst hthr
    cases op with
    | obs lat h =>
      simp only [sysRun, sysStep, predsOk, step_obs, predicate_eq_expected,
        beq_self_eq_true, Bool.true_and]
      exact ih _ _ rfl
    | thr t => simp only [sysRun, sysStep, predsOk]; exact ih _ _ rfl
    | write f => simp only [sysRun, sysStep, predsOk]; exact ih _ _ rfl
    | admin b => simp only [sysRun, sysStep, predsOk]; exact ih _ _ rfl
    | reload =>
      simp only [sysRun, sysStep]
      cases hs : s.acc with
      | none => simp only [predsOk]; exact ih _ _ rfl
      | some a => simp only [predsOk]; exact ih _ _ rfl
    | revert free =>
      simp only [sysRun, sysStep]
      cases hs : s.acc with
      | none => simp only [predsOk]; exact ih _ _ rfl
      | some a => simp only [predsOk]; exact ih _ _ rfl

theorem predsOk_sysRun (cfg : Cfg) (ops : List Op) (s : Sys) :
    predsOk s.thr (sysRun cfg s ops) = true := predsOk_sysRun' cfg ops s _ rfl

end LunarVerif.C20

namespace LunarVerif.C20

/-! ### (c) the accessor against the reference -/

/-- Invariant between the accessor model and the reference state, valid as long as no excluded
    step has happened. -/
structure AInv (a : Acc) (r : Ref) : Prop where
  file : a.file = r.file
  admin : a.adminFail = r.adminFail
  full : a.loadedFull = some r.L
  free : a.loadedFree = some (strip r.L)
  cur : a.cur = r.expect

theorem ainv_boot (p : Pol) : AInv (Acc.boot p) (Ref.init p) := by
  constructor <;> simp [Acc.boot, Ref.init, Ref.expect]

theorem update_ok (a : Acc) (p : Pol) (h : (a.adminFail && needsAdmin p) = false) :
    a.update p = ({ a with cur := p }, true) := by
  simp [Acc.update, h]

theorem update_refused (a : Acc) (p : Pol) (h : (a.adminFail && needsAdmin p) = true) :
    a.update p = (a, false) := by
  simp [Acc.update, h]

/-- A revert that HAProxy does not refuse puts the reference's policies in force. -/
theorem revert_core (a : Acc) (r : Ref) (free : Bool) (hinv : AInv a r)
    (hex : (r.adminFail && needsAdmin ({ r with df := free } : Ref).expect) = false) :
    (a.revert free).1.cur = ({ r with df := free } : Ref).expect ∧
    AInv (a.revert free).1 { r with df := free } := by
  obtain ⟨hf, ha, hfull, hfree, hcur⟩ := hinv
  cases free with
  | true =>
    have hex' : (a.adminFail && needsAdmin (strip r.L)) = false := by
      rw [ha]; simpa [Ref.expect] using hex
    simp only [Acc.revert, if_true, hfree, update_ok a _ hex']
    exact ⟨by simp [Ref.expect], ⟨hf, ha, hfull, rfl, by simp [Ref.expect]⟩⟩
  | false =>
    have hex' : (a.adminFail && needsAdmin r.L) = false := by
      rw [ha]; simpa [Ref.expect] using hex
    simp only [Acc.revert, Bool.false_eq_true, if_false, hfull, update_ok a _ hex']
    exact ⟨by simp [Ref.expect], ⟨hf, ha, rfl, hfree, by simp [Ref.expect]⟩⟩

/-- One step of the wired system against the reference: if the step is not in an excluded class,
    the observed answer is acceptable and the invariant is kept. -/
theorem sys_step_inv (cfg : Cfg) (s : Sys) (op : Op) (r : Ref) (a : Acc)
    (hs : s.acc = some a) (hinv : AInv a r)
    (hex : exclStep r (op, (sysStep cfg s op).2) = none) :
    (refStep r (op, (sysStep cfg s op).2)).2 = true ∧
    ∃ a', (sysStep cfg s op).1.acc = some a' ∧ AInv a' (refStep r (op, (sysStep cfg s op).2)).1 := by
  cases op with
  | thr t => exact ⟨rfl, a, by simp [sysStep, hs], hinv⟩
  | write f =>
    refine ⟨rfl, { a with file := f }, by simp [sysStep, hs], ?_⟩
    obtain ⟨hf, ha, hfull, hfree, hcur⟩ := hinv
    exact ⟨rfl, ha, hfull, hfree, hcur⟩
  | admin b =>
    refine ⟨rfl, { a with adminFail := b }, by simp [sysStep, hs], ?_⟩
    obtain ⟨hf, ha, hfull, hfree, hcur⟩ := hinv
    exact ⟨hf, rfl, hfull, hfree, hcur⟩
  | revert free =>
    simp only [sysStep, hs] at hex ⊢
    have hex' : (r.adminFail && needsAdmin ({ r with df := free } : Ref).expect) = false := by
      simp only [exclStep] at hex
      by_cases hc : (r.adminFail && needsAdmin ({ r with df := free } : Ref).expect) = true
      · simp [hc] at hex
      · simpa using hc
    obtain ⟨h1, h2⟩ := revert_core a r free hinv hex'
    refine ⟨?_, _, rfl, ?_⟩
    · simp only [refStep, h1, beq_self_eq_true]
    · simpa only [refStep] using h2
  | reload =>
    simp only [sysStep, hs] at hex ⊢
    obtain ⟨hf, ha, hfull, hfree, hcur⟩ := hinv
    cases hc : r.file.content with
    | none =>
      have hr : a.reload = (a, false) := by simp [Acc.reload, hf, hc]
      simp only [hr, refStep, hc, Bool.not_false, Bool.true_and, hcur, beq_self_eq_true, true_and]
      exact ⟨a, rfl, ⟨hf, ha, hfull, hfree, hcur⟩⟩
    | some p =>
      by_cases hadm : (a.adminFail && needsAdmin p) = true
      · -- refused by HAProxy: class reloadRefused
        have hr : a.reload = ({ a with loadedFull := some p, loadedFree := some (strip p) }, false) := by
          simp only [Acc.reload, hf, hc]
          exact update_refused _ _ hadm
        simp [hr, exclStep, hc] at hex
      · have hadm' : (a.adminFail && needsAdmin p) = false := by simpa using hadm
        have hr : a.reload =
            ({ a with loadedFull := some p, loadedFree := some (strip p), cur := p }, true) := by
          simp only [Acc.reload, hf, hc]
          exact update_ok _ _ hadm'
        rw [hr] at hex ⊢
        have hdf : r.df = false := by
          simp only [exclStep, hc, Bool.not_true, Bool.false_eq_true, if_false] at hex
          by_cases hd : r.df = true
          · simp [hd] at hex
          · simpa using hd
        simp only [refStep, hc, if_true, Ref.expect, hdf, Bool.false_eq_true, if_false,
          beq_self_eq_true, true_and]
        exact ⟨_, rfl, ⟨hf, ha, rfl, rfl, by simp [Ref.expect]⟩⟩
  | obs lat h =>
    simp only [sysStep, hs] at hex ⊢
    generalize (step cfg s.w ⟨(predicate s.thr h).1, lat⟩) = st at hex ⊢
    cases hreact : st.2.react with
    | none =>
      simp only [react, hreact, refStep, Option.map_some, hinv.cur, beq_self_eq_true, true_and]
      exact ⟨a, rfl, hinv⟩
    | some sv =>
      have hex' : (r.adminFail && needsAdmin ({ r with df := !sv } : Ref).expect) = false := by
        simp only [exclStep, hreact] at hex
        by_cases hc : (r.adminFail && needsAdmin ({ r with df := !sv } : Ref).expect) = true
        · simp [hc] at hex
        · simpa using hc
      obtain ⟨h1, h2⟩ := revert_core a r (!sv) hinv hex'
      simp only [react, hreact, refStep, Option.map_some, h1, beq_self_eq_true, true_and]
      exact ⟨_, rfl, h2⟩

theorem policies_run (cfg : Cfg) (ops : List Op) :
    ∀ (s : Sys) (r : Ref) (a : Acc), s.acc = some a → AInv a r →
      excluded r (sysRun cfg s ops) = none → policiesOk r (sysRun cfg s ops) = true := by
  induction ops with
  | nil => intros; rfl
  | cons op ops ih =>
    intro s r a hs hinv hex
    simp only [sysRun, excluded] at hex
    cases hx : exclStep r (op, (sysStep cfg s op).2) with
    | some f => rw [hx] at hex; cases hex
    | none =>
      rw [hx] at hex
      obtain ⟨hok, a', hs', hinv'⟩ := sys_step_inv cfg s op r a hs hinv hx
      simp only [sysRun, policiesOk, hok, Bool.true_and]
      exact ih _ _ a' hs' hinv' hex

/-- Without accessor nothing is ever in force and reloads / reverts are refused. -/
theorem noacc_run (cfg : Cfg) (ops : List Op) :
    ∀ (s : Sys), s.acc = none → noAccOk (sysRun cfg s ops) = true := by
  induction ops with
  | nil => intros; rfl
  | cons op ops ih =>
    intro s hs
    cases op <;> simp only [sysRun, sysStep, hs, noAccOk, react, Option.map_none, beq_self_eq_true,
      Bool.true_and] <;> exact ih _ (by simp [hs])

end LunarVerif.C20

namespace LunarVerif.C20

/-! ### the reference mode is the last reaction -/

theorem policies_run_final (cfg : Cfg) (ops : List Op) :
    ∀ (s : Sys) (r : Ref) (a : Acc), s.acc = some a → AInv a r →
      excluded r (sysRun cfg s ops) = none →
      ∃ a', (sysFinal cfg s ops).acc = some a' ∧ AInv a' (refRun r (sysRun cfg s ops)) := by
  induction ops with
  | nil => intro s r a hs hinv _; exact ⟨a, hs, hinv⟩
  | cons op ops ih =>
    intro s r a hs hinv hex
    simp only [sysRun, excluded] at hex
    cases hx : exclStep r (op, (sysStep cfg s op).2) with
    | some f => rw [hx] at hex; cases hex
    | none =>
      rw [hx] at hex
      obtain ⟨_, a', hs', hinv'⟩ := sys_step_inv cfg s op r a hs hinv hx
      simp only [sysRun, sysFinal, refRun]
      exact ih _ _ a' hs' hinv' hex

/-- Last reaction of a history given OLDEST first, `d` when there is none. -/
def lastReactFold (d : Bool) (es : List Event) : Bool :=
  es.foldl (fun m e => match e.react with | some s => s | none => m) d

theorem lastReaction_append (a b : List Event) :
    lastReaction (a ++ b) = (match a.filterMap (·.react) with | s :: _ => s | [] => lastReaction b) := by
  induction a with
  | nil => simp
  | cons e a ih =>
    cases hr : e.react with
    | none => simp [lastReaction, hr, ih]
    | some s => simp [lastReaction, hr]

theorem lastReactFold_eq (es : List Event) :
    ∀ d, lastReactFold d es = (match es.reverse.filterMap (·.react) with | s :: _ => s | [] => d) := by
  induction es with
  | nil => intro d; rfl
  | cons e es ih =>
    intro d
    simp only [lastReactFold, List.foldl_cons, List.reverse_cons, List.filterMap_append]
    have := ih (match e.react with | some s => s | none => d)
    simp only [lastReactFold] at this
    rw [this]
    cases hl : List.filterMap (·.react) es.reverse with
    | cons s rest => simp
    | nil => cases hr : e.react <;> simp [hr]

theorem lastReaction_reverse (es : List Event) : lastReaction es.reverse = lastReactFold true es := by
  rw [lastReactFold_eq, lastReaction_eq]
  cases List.filterMap (·.react) es.reverse <;> rfl

/-- Without manual reverts the reference's mode is decided by the watcher's reactions alone. -/
theorem refRun_df (cfg : Cfg) (ops : List Op) (hnr : ∀ f, Op.revert f ∉ ops) :
    ∀ (s : Sys) (r : Ref),
      (refRun r (sysRun cfg s ops)).df = !(lastReactFold (!r.df) (obsEvents (sysRun cfg s ops))) := by
  induction ops with
  | nil => intro s r; simp [sysRun, refRun, obsEvents, lastReactFold]
  | cons op ops ih =>
    intro s r
    have hnr' : ∀ f, Op.revert f ∉ ops := fun f hm => hnr f (List.mem_cons_of_mem _ hm)
    have ih' := ih hnr'
    cases op with
    | obs lat h =>
      simp only [sysRun, sysStep, refRun, obsEvents_cons_obs, lastReactFold, List.foldl_cons]
      rw [ih']
      simp only [lastReactFold, refStep]
      cases (step cfg s.w ⟨(predicate s.thr h).1, lat⟩).2.react <;> simp
    | thr t =>
      simp only [sysRun, sysStep, refRun, refStep]
      rw [obsEvents_cons_other _ _ _ (by intro e f c h; cases h), ih']
    | write f =>
      simp only [sysRun, sysStep, refRun, refStep]
      rw [obsEvents_cons_other _ _ _ (by intro e f c h; cases h), ih']
    | admin b =>
      simp only [sysRun, sysStep, refRun, refStep]
      rw [obsEvents_cons_other _ _ _ (by intro e f c h; cases h), ih']
    | revert f => exact absurd List.mem_cons_self (hnr f)
    | reload =>
      simp only [sysRun, sysStep]
      cases hs : s.acc with
      | none =>
        simp only [refRun, refStep]
        rw [obsEvents_cons_other _ _ _ (by intro e f c h; cases h), ih']
      | some a =>
        simp only [refRun, refStep]
        rw [obsEvents_cons_other _ _ _ (by intro e f c h; cases h), ih']
        cases r.file.content with
        | none => rfl
        | some p => simp only []; split <;> rfl

end LunarVerif.C20

namespace LunarVerif.C20

/-! ### the effect of a reaction -/

structure EInv (a : Acc) (r : Eff) : Prop where
  file : a.file = r.file
  admin : a.adminFail = r.adminFail
  full : a.loadedFull = some r.last
  free : a.loadedFree = some (strip r.last)

theorem einv_boot (p : Pol) : EInv (Acc.boot p) (Eff.init p) := by
  constructor <;> simp [Acc.boot, Eff.init]

theorem update_keeps (a : Acc) (p : Pol) :
    (a.update p).1.file = a.file ∧ (a.update p).1.adminFail = a.adminFail ∧
    (a.update p).1.loadedFull = a.loadedFull ∧ (a.update p).1.loadedFree = a.loadedFree := by
  unfold Acc.update; split <;> exact ⟨rfl, rfl, rfl, rfl⟩

theorem revert_keeps (a : Acc) (free : Bool) :
    (a.revert free).1.file = a.file ∧ (a.revert free).1.adminFail = a.adminFail ∧
    (a.revert free).1.loadedFull = a.loadedFull ∧ (a.revert free).1.loadedFree = a.loadedFree := by
  unfold Acc.revert
  split
  · exact update_keeps a _
  · exact ⟨rfl, rfl, rfl, rfl⟩

theorem einv_revert (a : Acc) (r : Eff) (free : Bool) (h : EInv a r) : EInv (a.revert free).1 r := by
  obtain ⟨h1, h2, h3, h4⟩ := revert_keeps a free
  exact ⟨h1.trans h.file, h2.trans h.admin, h3.trans h.full, h4.trans h.free⟩

theorem eff_step_inv (cfg : Cfg) (s : Sys) (op : Op) (r : Eff) (a : Acc)
    (hs : s.acc = some a) (hinv : EInv a r) :
    (effStep r (op, (sysStep cfg s op).2)).2 = true ∧
    ∃ a', (sysStep cfg s op).1.acc = some a' ∧ EInv a' (effStep r (op, (sysStep cfg s op).2)).1 := by
  cases op with
  | thr t => exact ⟨rfl, a, by simp [sysStep, hs], hinv⟩
  | write f =>
    exact ⟨rfl, { a with file := f }, by simp [sysStep, hs], ⟨rfl, hinv.admin, hinv.full, hinv.free⟩⟩
  | admin b =>
    exact ⟨rfl, { a with adminFail := b }, by simp [sysStep, hs], ⟨hinv.file, rfl, hinv.full, hinv.free⟩⟩
  | revert free =>
    simp only [sysStep, hs]
    exact ⟨rfl, _, rfl, einv_revert a r free hinv⟩
  | reload =>
    simp only [sysStep, hs]
    refine ⟨rfl, _, rfl, ?_⟩
    simp only [effStep]
    cases hc : r.file.content with
    | none =>
      have : a.reload = (a, false) := by simp [Acc.reload, hinv.file, hc]
      rw [this]; exact hinv
    | some p =>
      have hk := update_keeps ({ a with loadedFull := some p, loadedFree := some (strip p) } : Acc) p
      have hr : a.reload = ({ a with loadedFull := some p, loadedFree := some (strip p) } : Acc).update p := by
        simp [Acc.reload, hinv.file, hc]
      rw [hr]
      exact ⟨hk.1.trans hinv.file, hk.2.1.trans hinv.admin, hk.2.2.1, hk.2.2.2⟩
  | obs lat h =>
    simp only [sysStep, hs]
    generalize (step cfg s.w ⟨(predicate s.thr h).1, lat⟩) = st
    cases hreact : st.2.react with
    | none => simp only [react, hreact, effStep]; exact ⟨trivial, a, rfl, hinv⟩
    | some sv =>
      simp only [react, hreact, effStep, Option.map_some]
      refine ⟨?_, _, rfl, einv_revert a r (!sv) hinv⟩
      by_cases hadm : r.adminFail = true
      · simp [hadm]
      · have hadm' : a.adminFail = false := by rw [hinv.admin]; simpa using hadm
        have hadm'' : r.adminFail = false := by simpa using hadm
        simp only [hadm'', Bool.false_eq_true, if_false]
        cases sv with
        | true =>
          simp only [Acc.revert, Bool.not_true, Bool.false_eq_true, if_false, hinv.full, Acc.update, hadm',
            Bool.false_and, if_true, beq_self_eq_true]
        | false =>
          simp only [Acc.revert, Bool.not_false, if_true, hinv.free, Acc.update, hadm',
            Bool.false_and, Bool.false_eq_true, if_false, strip, Bool.or_self, Bool.not_false]

theorem effect_run (cfg : Cfg) (ops : List Op) :
    ∀ (s : Sys) (r : Eff) (a : Acc), s.acc = some a → EInv a r →
      effectOk r (sysRun cfg s ops) = true := by
  induction ops with
  | nil => intros; rfl
  | cons op ops ih =>
    intro s r a hs hinv
    obtain ⟨hok, a', hs', hinv'⟩ := eff_step_inv cfg s op r a hs hinv
    simp only [sysRun, effectOk, hok, Bool.true_and]
    exact ih _ _ a' hs' hinv'

end LunarVerif.C20
