import LunarVerif.Proofs.C12
/-! C12, response-based throttling remedy: source-of-entry invariant and the Spec for every run, for every
absolute-TTL function that satisfies `AbsTtlOk`. -/
set_option linter.unusedSectionVars false
set_option linter.unusedSimpArgs false
namespace LunarVerif.C12

section
variable {σ : Type} [DecidableEq σ]

/-- `r0` is the response from which entry `e` under key `k` was stored. -/
def TSrc (f : AbsTtl) (cfg : TCfg) (k : σ × σ) (e : Entry (Stored σ)) (r0 : PRec σ) : Prop :=
  ∃ m u sel r bl sz n ttl, r0.op = .resp m u sel r bl sz ∧ k = (m, u) ∧
    cfg.statuses.contains r.status = true ∧ e.val = ⟨r, r0.t⟩ ∧ r.raNs = some n ∧
    ttlOf f cfg r0.t n = some ttl ∧ e.expiry = r0.t + ttl ∧ ttl > 0

structure TInv (f : AbsTtl) (cfg : TCfg) (h : List (PRec σ)) (c : TCache σ) : Prop where
  src : ∀ k e, find? k c.entries = some e → ∃ r0, r0 ∈ h ∧ TSrc f cfg k e r0
  time : ∀ r0, r0 ∈ h → r0.t ≤ c.now

theorem tinv_init (f : AbsTtl) (cfg : TCfg) (t0 : Int) : TInv f cfg ([] : List (PRec σ)) (Cache.init t0 false 0) := by
  constructor
  · intro k e hf; simp [Cache.init, find?] at hf
  · intro r0 hr; cases hr

theorem tinv_shrink {f : AbsTtl} {cfg : TCfg} {h : List (PRec σ)} {c c' : TCache σ} (r : PRec σ)
    (hinv : TInv f cfg h c) (hrt : r.t = c.now)
    (hent : ∀ k e, find? k c'.entries = some e → find? k c.entries = some e)
    (hnow : c.now ≤ c'.now) : TInv f cfg (r :: h) c' := by
  constructor
  · intro k e hf
    obtain ⟨r0, hm, hs⟩ := hinv.src k e (hent k e hf)
    exact ⟨r0, List.mem_cons_of_mem _ hm, hs⟩
  · intro r0 hm
    rcases List.mem_cons.mp hm with h1 | h1
    · rw [h1, hrt]; exact hnow
    · have := hinv.time r0 h1; omega

theorem tstep_req_fst (f : AbsTtl) (cfg : TCfg) (c : TCache σ) (m u : σ) (sel : List (σ × σ)) :
    (tstep f cfg c (.req m u sel)).1 = c := by
  simp only [tstep]
  repeat' (first | rfl | split)

theorem tstep_inv (f : AbsTtl) (cfg : TCfg) (c : TCache σ) (h : List (PRec σ)) (op : POp σ)
    (hinv : TInv f cfg h c) : TInv f cfg (⟨c.now, op, (tstep f cfg c op).2⟩ :: h) (tstep f cfg c op).1 := by
  have same : ∀ o, TInv f cfg (⟨c.now, op, o⟩ :: h) c := fun o =>
    tinv_shrink ⟨c.now, op, o⟩ hinv rfl (fun _ _ x => x) (Int.le_refl _)
  cases op with
  | resp m u sel r bl sz =>
    simp only [tstep]
    by_cases hst : cfg.statuses.contains r.status = true
    · simp only [hst, Bool.not_true, Bool.false_eq_true, if_false]
      by_cases hhas : has c (m, u) = true
      · simp only [hhas, if_true]; exact same _
      · simp only [hhas, Bool.false_eq_true, if_false]
        by_cases hex0 : r.raExact = false
        · simp only [hex0, Bool.not_false, if_true]; exact same _
        have hex : r.raExact = true := by
          cases hx : r.raExact with
          | true => rfl
          | false => exact absurd hx hex0
        simp only [hex, Bool.not_true, Bool.false_eq_true, if_false]
        cases hra : r.raNs with
        | none => simp only [Option.bind]; exact same _
        | some n =>
          cases httl : ttlOf f cfg c.now n with
          | none => simp only [Option.bind, httl]; exact same _
          | some ttl =>
            simp only [Option.bind, httl]
            constructor
            · intro k e hf
              rcases find?_set hf with ⟨hk, he, hok⟩ | ⟨_, _, hb⟩ | ⟨_, hb⟩
              · have hpos : ttl > 0 := by
                  rw [hk] at hf; exact find?_set_ok_pos hok hf
                refine ⟨_, List.mem_cons_self, m, u, sel, r, bl, sz, n, ttl, rfl, hk, hst, ?_, hra, httl, ?_, hpos⟩
                · rw [he]
                · rw [he]
              · obtain ⟨r0, hm, hs⟩ := hinv.src k e hb
                exact ⟨r0, List.mem_cons_of_mem _ hm, hs⟩
              · obtain ⟨r0, hm, hs⟩ := hinv.src k e hb
                exact ⟨r0, List.mem_cons_of_mem _ hm, hs⟩
            · intro r0 hm
              rw [set_now]
              rcases List.mem_cons.mp hm with h1 | h1
              · rw [h1]; exact Int.le_refl _
              · exact hinv.time r0 h1
    · simp only [hst, Bool.not_false, if_true]; exact same _
  | req m u sel =>
    have := same (tstep f cfg c (.req m u sel)).2
    rw [tstep_req_fst]; exact this
  | fire i =>
    simp only [tstep]
    exact tinv_shrink _ hinv rfl (fun _ _ x => find?_fire x) (by rw [fire_now]; exact Int.le_refl _)
  | skip d =>
    simp only [tstep]
    exact tinv_shrink _ hinv rfl (fun _ _ x => x) (by simp only [skip]; omega)
  | adv d =>
    simp only [tstep]
    exact tinv_shrink _ hinv rfl (fun _ _ x => find?_adv x) (by rw [adv_now]; omega)
  | probe => simp only [tstep]; exact same _

theorem tstep_recOk (f : AbsTtl) (hf : AbsTtlOk f) (cfg : TCfg) (c : TCache σ) (h : List (PRec σ)) (op : POp σ)
    (hinv : TInv f cfg h c) : tRecOk cfg ⟨c.now, op, (tstep f cfg c op).2⟩ h = true := by
  cases op with
  | resp m u sel r bl sz => simp [tRecOk]
  | req m u sel =>
    simp only [tstep]
    cases hg : get c (m, u) with
    | none => simp [tRecOk]
    | some s =>
      obtain ⟨e, hfe, hv, hle⟩ := get_some hg
      obtain ⟨r0, hm, m0, u0, sel0, r, bl, sz, n, ttl, hop, hk, hst, hval, hra, httl, hexp, hpos⟩ :=
        hinv.src _ e hfe
      have ht := hinv.time r0 hm
      have hk' : m0 = m ∧ u0 = u := by cases hk; exact ⟨rfl, rfl⟩
      rw [hv] at hval
      have hres : s.resp = r := by rw [hval]
      have hcr : s.created = r0.t := by rw [hval]
      cases hty : cfg.type with
      | rel =>
        simp only [ttlOf, hty, Option.some.injEq] at httl
        simp only [hres, hra]
        by_cases hl : c.now - s.created ≥ n
        · simp [hl, tRecOk]
        · simp only [hl, if_false, tRecOk]
          simp only [decide_true, Bool.true_and]
          rw [List.any_eq_true]
          refine ⟨r0, hm, ?_⟩
          simp only [tJustifies, hop, hty, origNs, hra, hk'.1, hk'.2, hst, hcr, decide_true, Bool.and_self, Bool.true_and,
            Bool.and_true, Bool.and_eq_true, decide_eq_true_eq]
          rw [hcr] at hl
          refine ⟨ht, ?_⟩
          omega
      | abs =>
        simp only [ttlOf, hty, Option.some.injEq] at httl
        simp only [tRecOk]
        simp only [decide_true, Bool.true_and]
        rw [List.any_eq_true]
        refine ⟨r0, hm, ?_⟩
        simp only [tJustifies, hop, hty, instNs, hra, hk'.1, hk'.2, hst, hres, decide_true, Bool.and_self,
          Bool.true_and, Bool.and_true, Bool.and_eq_true, decide_eq_true_eq]
        refine ⟨ht, ?_⟩
        rcases hf n r0.t with h1 | h1
        · omega
        · omega
      | undef => simp [ttlOf, hty] at httl
  | fire i => simp [tstep, tRecOk]
  | skip d => simp [tstep, tRecOk]
  | adv d => simp [tstep, tRecOk]
  | probe => simp [tstep, tRecOk]

theorem trun_holdsRev (f : AbsTtl) (hf : AbsTtlOk f) (cfg : TCfg) (ops : List (POp σ)) (c : TCache σ)
    (h : List (PRec σ)) (hinv : TInv f cfg h c) (hh : tholdsRev cfg h = true) :
    tholdsRev cfg ((trun f cfg c ops).reverse ++ h) = true := by
  induction ops generalizing c h with
  | nil => simpa [trun] using hh
  | cons op ops ih =>
    simp only [trun, List.reverse_cons, List.append_assoc, List.singleton_append]
    apply ih
    · exact tstep_inv f cfg c h op hinv
    · simp only [tholdsRev, Bool.and_eq_true]
      exact ⟨tstep_recOk f hf cfg c h op hinv, hh⟩

theorem absTtlExact_ok : AbsTtlOk absTtlExact := fun _ _ => Or.inl (Int.le_refl _)

end

end LunarVerif.C12
