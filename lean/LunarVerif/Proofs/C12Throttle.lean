import LunarVerif.Proofs.C12
/-! C12, response-based throttling remedy: source-of-entry invariant, the code-faithful Spec (`slack = true`)
for every run, and the strict Spec outside the excluded class (F12b). -/
set_option linter.unusedSectionVars false
set_option linter.unusedSimpArgs false
namespace LunarVerif.C12

section
variable {σ : Type} [DecidableEq σ]

/-- `r0` is the response from which entry `e` under key `k` was stored. -/
def TSrc (cfg : TCfg) (k : σ × σ) (e : Entry (Stored σ)) (r0 : PRec σ) : Prop :=
  ∃ m u sel j r bl sz n ttl, r0.op = .resp m u sel j r bl sz ∧ k = (m, u) ∧
    cfg.statuses.contains r.status = true ∧ e.val = ⟨r, r0.t⟩ ∧ r.raNs = some n ∧
    ttlOf cfg r0.t n = some ttl ∧ e.expiry = r0.t + ttl

structure TInv (cfg : TCfg) (h : List (PRec σ)) (c : TCache σ) : Prop where
  src : ∀ k e, find? k c.entries = some e → ∃ r0, r0 ∈ h ∧ TSrc cfg k e r0
  time : ∀ r0, r0 ∈ h → r0.t ≤ c.now

theorem tinv_init (cfg : TCfg) (t0 : Int) : TInv cfg ([] : List (PRec σ)) (Cache.init t0 false 0) := by
  constructor
  · intro k e hf; simp [Cache.init, find?] at hf
  · intro r0 hr; cases hr

theorem tinv_shrink {cfg : TCfg} {h : List (PRec σ)} {c c' : TCache σ} (r : PRec σ)
    (hinv : TInv cfg h c) (hrt : r.t = c.now)
    (hent : ∀ k e, find? k c'.entries = some e → find? k c.entries = some e)
    (hnow : c.now ≤ c'.now) : TInv cfg (r :: h) c' := by
  constructor
  · intro k e hf
    obtain ⟨r0, hm, hs⟩ := hinv.src k e (hent k e hf)
    exact ⟨r0, List.mem_cons_of_mem _ hm, hs⟩
  · intro r0 hm
    rcases List.mem_cons.mp hm with h1 | h1
    · rw [h1, hrt]; exact hnow
    · have := hinv.time r0 h1; omega

theorem tstep_req_fst (cfg : TCfg) (c : TCache σ) (m u : σ) (sel : List (σ × σ)) (j : σ) :
    (tstep cfg c (.req m u sel j)).1 = c := by
  simp only [tstep]
  repeat' (first | rfl | split)

theorem tstep_inv (cfg : TCfg) (c : TCache σ) (h : List (PRec σ)) (op : POp σ)
    (hinv : TInv cfg h c) : TInv cfg (⟨c.now, op, (tstep cfg c op).2⟩ :: h) (tstep cfg c op).1 := by
  have same : ∀ o, TInv cfg (⟨c.now, op, o⟩ :: h) c := fun o =>
    tinv_shrink ⟨c.now, op, o⟩ hinv rfl (fun _ _ x => x) (Int.le_refl _)
  cases op with
  | resp m u sel j r bl sz =>
    simp only [tstep]
    by_cases hst : cfg.statuses.contains r.status = true
    · simp only [hst, Bool.not_true, Bool.false_eq_true, if_false]
      by_cases hhas : has c (m, u) = true
      · simp only [hhas, if_true]; exact same _
      · simp only [hhas, Bool.false_eq_true, if_false]
        cases hra : r.raNs with
        | none => simp only [Option.bind]; exact same _
        | some n =>
          cases httl : ttlOf cfg c.now n with
          | none => simp only [Option.bind, httl]; exact same _
          | some ttl =>
            simp only [Option.bind, httl]
            constructor
            · intro k e hf
              rcases find?_set hf with ⟨hk, he, _⟩ | ⟨_, _, hb⟩ | ⟨_, hb⟩
              · refine ⟨_, List.mem_cons_self, m, u, sel, j, r, bl, sz, n, ttl, rfl, hk, hst, ?_, hra, httl, ?_⟩
                · rw [he]
                · rw [he]
              · obtain ⟨r0, hm, hs⟩ := hinv.src k e hb
                exact ⟨r0, List.mem_cons_of_mem _ hm, hs⟩
              · obtain ⟨r0, hm, hs⟩ := hinv.src k e hb
                exact ⟨r0, List.mem_cons_of_mem _ hm, hs⟩
            · intro r0 hm
              rw [set_now]
              rcases List.mem_cons.mp hm with h1 | h1
              · rw [h1]; exact Int.le_refl _
              · exact hinv.time r0 h1
    · simp only [hst, Bool.not_false, if_true]; exact same _
  | req m u sel j =>
    have := same (tstep cfg c (.req m u sel j)).2
    rw [tstep_req_fst]; exact this
  | fire i =>
    simp only [tstep]
    exact tinv_shrink _ hinv rfl (fun _ _ x => find?_fire x) (by rw [fire_now]; exact Int.le_refl _)
  | skip d =>
    simp only [tstep]
    exact tinv_shrink _ hinv rfl (fun _ _ x => x) (by simp only [skip]; omega)
  | adv d =>
    simp only [tstep]
    exact tinv_shrink _ hinv rfl (fun _ _ x => find?_adv x) (by rw [adv_now]; omega)
  | probe => simp only [tstep]; exact same _

theorem tstep_recOk (cfg : TCfg) (c : TCache σ) (h : List (PRec σ)) (op : POp σ)
    (hinv : TInv cfg h c) : tRecOk true cfg ⟨c.now, op, (tstep cfg c op).2⟩ h = true := by
  cases op with
  | resp m u sel j r bl sz => simp [tRecOk]
  | req m u sel j =>
    simp only [tstep]
    cases hg : get c (m, u) with
    | none => simp [tRecOk]
    | some s =>
      obtain ⟨e, hf, hv, hle⟩ := get_some hg
      obtain ⟨r0, hm, m0, u0, sel0, j0, r, bl, sz, n, ttl, hop, hk, hst, hval, hra, httl, hexp⟩ :=
        hinv.src _ e hf
      have ht := hinv.time r0 hm
      have hk' : m0 = m ∧ u0 = u := by cases hk; exact ⟨rfl, rfl⟩
      rw [hv] at hval
      have hres : s.resp = r := by rw [hval]
      have hcr : s.created = r0.t := by rw [hval]
      cases hty : cfg.type with
      | rel =>
        simp only [ttlOf, hty, Option.some.injEq] at httl
        simp only [hres, hra]
        by_cases hl : c.now - s.created ≥ n
        · simp [hl, tRecOk]
        · simp only [hl, if_false, tRecOk]
          rw [List.any_eq_true]
          refine ⟨r0, hm, ?_⟩
          simp only [tJustifies, hop, hty, hra, hk'.1, hk'.2, hst, hcr, decide_true, Bool.and_self, Bool.true_and,
            Bool.and_true, Bool.and_eq_true, decide_eq_true_eq]
          rw [hcr] at hl
          refine ⟨ht, ?_⟩
          omega
      | abs =>
        simp only [ttlOf, hty, Option.some.injEq] at httl
        simp only [tRecOk]
        rw [List.any_eq_true]
        refine ⟨r0, hm, ?_⟩
        simp only [tJustifies, hop, hty, hra, hk'.1, hk'.2, hst, hres, if_true, decide_true, Bool.and_self,
          Bool.true_and, Bool.and_true, Bool.and_eq_true, decide_eq_true_eq]
        refine ⟨ht, ?_⟩
        simp only [nsPerSec] at httl ⊢
        omega
      | undef => simp [ttlOf, hty] at httl
  | fire i => simp [tstep, tRecOk]
  | skip d => simp [tstep, tRecOk]
  | adv d => simp [tstep, tRecOk]
  | probe => simp [tstep, tRecOk]

theorem trun_holdsRev (cfg : TCfg) (ops : List (POp σ)) (c : TCache σ)
    (h : List (PRec σ)) (hinv : TInv cfg h c) (hh : tholdsRev true cfg h = true) :
    tholdsRev true cfg ((trun cfg c ops).reverse ++ h) = true := by
  induction ops generalizing c h with
  | nil => simpa [trun] using hh
  | cons op ops ih =>
    simp only [trun, List.reverse_cons, List.append_assoc, List.singleton_append]
    apply ih
    · exact tstep_inv cfg c h op hinv
    · simp only [tholdsRev, Bool.and_eq_true]
      exact ⟨tstep_recOk cfg c h op hinv, hh⟩

/-- With whole-second store instants (or a non-absolute type) the slack is zero. -/
theorem tJustifies_strict (cfg : TCfg) (t : Int) (m u : σ) (st : Nat) (body : σ) (tag : Option σ)
    (ra : RaOut σ) (r0 : PRec σ) (hal : cfg.type ≠ .abs ∨ r0.t % nsPerSec = 0)
    (hj : tJustifies true cfg t m u st body tag ra r0 = true) :
    tJustifies false cfg t m u st body tag ra r0 = true := by
  cases hop : r0.op with
  | resp m0 u0 sel0 j0 r bl sz =>
    simp only [tJustifies, hop] at hj ⊢
    cases hra : r.raNs with
    | none =>
      cases hty : cfg.type <;> simp [hty, hra] at hj
    | some n =>
      cases hty : cfg.type with
      | abs =>
        have h0 : r0.t % nsPerSec = 0 := by
          rcases hal with h1 | h1
          · exact absurd hty h1
          · exact h1
        simpa [hty, hra, h0] using hj
      | rel => simpa [hty, hra] using hj
      | undef => simp [hty, hra] at hj
  | req _ _ _ _ => simp [tJustifies, hop] at hj
  | fire _ => simp [tJustifies, hop] at hj
  | skip _ => simp [tJustifies, hop] at hj
  | adv _ => simp [tJustifies, hop] at hj
  | probe => simp [tJustifies, hop] at hj

theorem tholdsRev_strict (cfg : TCfg) (h : List (PRec σ))
    (hal : cfg.type ≠ .abs ∨ ∀ r, r ∈ h → r.t % nsPerSec = 0)
    (hh : tholdsRev true cfg h = true) : tholdsRev false cfg h = true := by
  induction h with
  | nil => rfl
  | cons r older ih =>
    simp only [tholdsRev, Bool.and_eq_true] at hh ⊢
    have hal' : cfg.type ≠ .abs ∨ ∀ r, r ∈ older → r.t % nsPerSec = 0 := by
      rcases hal with h1 | h1
      · exact Or.inl h1
      · exact Or.inr fun r hr => h1 r (List.mem_cons_of_mem _ hr)
    refine ⟨?_, ih hal' hh.2⟩
    have hr := hh.1
    cases hop : r.op with
    | req m u sel j =>
      cases hout : r.out with
      | early st body tag ra =>
        simp only [tRecOk, hop, hout, List.any_eq_true] at hr ⊢
        obtain ⟨r0, hm, hj⟩ := hr
        refine ⟨r0, hm, tJustifies_strict cfg _ _ _ _ _ _ _ r0 ?_ hj⟩
        rcases hal' with h1 | h1
        · exact Or.inl h1
        · exact Or.inr (h1 r0 hm)
      | noop => simp [tRecOk, hop, hout]
      | fired _ => simp [tRecOk, hop, hout] at hr
      | advd _ => simp [tRecOk, hop, hout] at hr
      | unit => simp [tRecOk, hop, hout] at hr
      | probed _ _ _ _ => simp [tRecOk, hop, hout] at hr
    | resp _ _ _ _ _ _ _ => simp [tRecOk, hop]
    | fire _ => simp [tRecOk, hop]
    | skip _ => simp [tRecOk, hop]
    | adv _ => simp [tRecOk, hop]
    | probe => simp [tRecOk, hop]

theorem secondAligned_prop {cfg : TCfg} {h : List (PRec σ)} (hs : secondAligned cfg h = true) :
    cfg.type ≠ .abs ∨ ∀ r, r ∈ h → r.t % nsPerSec = 0 := by
  simp only [secondAligned, Bool.or_eq_true, Bool.not_eq_true', decide_eq_false_iff_not, List.all_eq_true,
    decide_eq_true_eq] at hs
  exact hs

end

end LunarVerif.C12
