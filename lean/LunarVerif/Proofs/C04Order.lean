import LunarVerif.Spec.C04
/-!
Order in which the engine model enters flows (`Event.enter` = the `SetContext` call of `executeFlow`).
-/
namespace LunarVerif.C04
open LunarVerif.FlowGraph LunarVerif.FlowExec

/-- value of a successful computation -/
def okVal {ε α : Type} : Except ε α → Option α
  | .ok a => some a
  | .error _ => none

theorem okVal_eq {ε α : Type} {x : Except ε α} {a : α} (h : okVal x = some a) : x = .ok a := by
  cases x with
  | ok b => simp only [okVal, Option.some.injEq] at h; rw [h]
  | error e => simp [okVal] at h

/-- the flow-entered events of a trace -/
def enters (t : List Event) : List (String × Dir) :=
  t.filterMap fun
    | .enter f d => some (f, d)
    | .exec _ _ _ _ => none

theorem enters_append (a b : List Event) : enters (a ++ b) = enters a ++ enters b := by
  simp [enters, List.filterMap_append]

theorem enters_walkEdges (rec : String → WalkRes) (name : String) (h : ∀ t, enters (rec t).trace = []) :
    ∀ (es : List Edge) (sc : Option String), enters (walkEdges rec name es sc).trace = []
  | [], _ => rfl
  | e :: es, sc => by
    unfold walkEdges
    cases e.target with
    | stream n a => simp only; exact enters_walkEdges rec name h es sc
    | node t =>
      simp only
      split
      · split
        · exact h t
        · split
          · exact h t
          · simp only [enters_append, h t, List.nil_append]
            exact enters_walkEdges rec name h es _
      · exact enters_walkEdges rec name h es sc

theorem enters_walk (f : Flow) (o : Oracle) (d : Dir) : ∀ (fuel : Nat) (k : String),
    enters (walk f o d fuel k).trace = []
  | 0, _ => rfl
  | fuel + 1, k => by
    unfold walk
    cases (f.dir d).find k with
    | none => rfl
    | some n =>
      simp only
      split
      · rfl
      · split
        · split <;> rfl
        · simp only [enters, List.filterMap_cons]
          exact enters_walkEdges _ _ (enters_walk f o d fuel) _ _

theorem enters_executeFlow (f : Flow) (o : Oracle) (d : Dir) (fuel : Nat) (sf : Option String) :
    enters (executeFlow f o d fuel sf).trace = [(f.name, d)] := by
  unfold executeFlow
  simp only
  split
  · rfl
  · split
    · rfl
    · simp only [enters, List.filterMap_cons]
      have := enters_walk f o d fuel
      simp only [enters] at this
      rw [this]

theorem err_none_of_not_isSome {e : Option ExecErr} (h : ¬ e.isSome = true) : e = none := by
  cases e <;> simp_all

theorem enters_runAll (o : Oracle) (d : Dir) (fuel : Nat) : ∀ (fs : List Flow),
    (runAll o d fuel fs).err = none → enters (runAll o d fuel fs).trace = fs.map (fun f => (f.name, d))
  | [], _ => rfl
  | f :: fs, h => by
    unfold runAll at h ⊢
    simp only at h ⊢
    split
    · rename_i he
      rw [if_pos he] at h
      simp [h] at he
    · rename_i he
      rw [if_neg he] at h
      simp only [enters_append, enters_executeFlow, List.map_cons, List.singleton_append]
      rw [enters_runAll o d fuel fs h]

theorem enters_runUserRes (o : Oracle) (fuel : Nat) (sc : Option (String × String)) : ∀ (fs : List Flow),
    (runUserRes o fuel sc fs).err = none →
    enters (runUserRes o fuel sc fs).trace = fs.map (fun f => (f.name, Dir.res))
  | [], _ => rfl
  | f :: fs, h => by
    unfold runUserRes at h ⊢
    simp only at h ⊢
    generalize startFor sc f = sf at h ⊢
    by_cases he : (executeFlow f o Dir.res fuel sf).err.isSome = true
    · rw [if_pos he] at h
      simp only at h
      simp [h] at he
    · rw [if_neg he] at h ⊢
      simp only [enters_append, enters_executeFlow, List.map_cons, List.singleton_append]
      rw [enters_runUserRes o fuel sc fs h]

/-- user flows of a request: entered in order up to and including the first that short-circuits -/
theorem enters_runUserReq (o : Oracle) (fuel : Nat) : ∀ (fs : List Flow),
    (runUserReq o fuel fs).2.2 = none →
    ∃ pre post, fs = pre ++ post ∧
      enters (runUserReq o fuel fs).1 = pre.map (fun f => (f.name, Dir.req)) ∧
      ((runUserReq o fuel fs).2.1 = none → post = []) ∧
      (∀ fl k, (runUserReq o fuel fs).2.1 = some (fl, k) → ∃ pre' f, pre = pre' ++ [f] ∧ f.name = fl)
  | [], _ => ⟨[], [], rfl, rfl, fun _ => rfl, by simp [runUserReq]⟩
  | f :: fs, h => by
    unfold runUserReq at h ⊢
    simp only at h ⊢
    split
    · rename_i he
      rw [if_pos he] at h
      simp only at h
      simp [h] at he
    · rename_i he
      rw [if_neg he] at h
      split
      · rename_i k hk
        refine ⟨[f], fs, rfl, by simp [enters_executeFlow], by simp, ?_⟩
        intro fl k' hsc
        simp only [Option.some.injEq, Prod.mk.injEq] at hsc
        exact ⟨[], f, rfl, hsc.1⟩
      · rename_i hk
        simp only [hk] at h
        obtain ⟨pre, post, h1, h2, h3, h4⟩ := enters_runUserReq o fuel fs h
        refine ⟨f :: pre, post, by simp [h1], ?_, h3, ?_⟩
        · simp only [enters_append, enters_executeFlow, List.map_cons, List.singleton_append, h2]
        · intro fl k' hsc
          obtain ⟨pre', g, hp, hg⟩ := h4 fl k' hsc
          exact ⟨f :: pre', g, by simp [hp], hg⟩

/-- responses: system start flows, user flows, system end flows — each group in reverse -/
theorem enters_executeRes (s : Selected) (o : Oracle) (fuel : Nat) (sc : Option (String × String))
    (h : (executeRes s o fuel sc).err = none) :
    enters (executeRes s o fuel sc).trace =
      (s.start.reverse ++ s.user.reverse ++ s.finish.reverse).map (fun f => (f.name, Dir.res)) := by
  unfold executeRes at h ⊢
  simp only at h ⊢
  split
  · rename_i he
    rw [if_pos he] at h
    simp only at h
    simp [h] at he
  · rename_i he
    rw [if_neg he] at h
    split
    · rename_i he2
      rw [if_pos he2] at h
      simp only at h
      simp [h] at he2
    · rename_i he2
      rw [if_neg he2] at h
      simp only at h
      simp only [enters_append, List.map_append]
      rw [enters_runAll _ _ _ _ (err_none_of_not_isSome he), enters_runUserRes _ _ _ _ (err_none_of_not_isSome he2),
        enters_runAll _ _ _ _ h]

/-- requests: system start flows, user flows up to and including the one that short-circuits, system
    end flows; then (after a short-circuit) the whole response phase. -/
theorem enters_executeReq (s : Selected) (o : Oracle) (fuel : Nat)
    (h : (executeReq s o fuel).err = none) :
    ∃ pre post, s.user = pre ++ post ∧
      ((executeReq s o fuel).sc = none → post = []) ∧
      (∀ fl k, (executeReq s o fuel).sc = some (fl, k) → ∃ pre' f, pre = pre' ++ [f] ∧ f.name = fl) ∧
      enters (executeReq s o fuel).trace =
        (s.start ++ pre ++ s.finish).map (fun f => (f.name, Dir.req)) ++
        (if (executeReq s o fuel).sc.isSome then
          (s.start.reverse ++ s.user.reverse ++ s.finish.reverse).map (fun f => (f.name, Dir.res))
         else []) := by
  unfold executeReq at h ⊢
  simp only at h ⊢
  split
  · rename_i he
    rw [if_pos he] at h
    simp only at h
    simp [h] at he
  · rename_i he
    rw [if_neg he] at h
    rcases hm : runUserReq o fuel s.user with ⟨bt, sc, be⟩
    rw [hm] at h
    simp only at h ⊢
    split
    · rename_i he2
      rw [if_pos he2] at h
      simp only at h
      simp [h] at he2
    · rename_i he2
      rw [if_neg he2] at h
      have hbe : be = none := err_none_of_not_isSome he2
      obtain ⟨pre, post, h1, h2, h3, h4⟩ := enters_runUserReq o fuel s.user (by rw [hm]; exact hbe)
      rw [hm] at h2 h3 h4
      simp only at h2 h3 h4
      split
      · rename_i he3
        rw [if_pos he3] at h
        simp only at h
        simp [h] at he3
      · rename_i he3
        rw [if_neg he3] at h
        have ha := enters_runAll _ _ _ _ (err_none_of_not_isSome he)
        have hc := enters_runAll _ _ _ _ (err_none_of_not_isSome he3)
        cases sc with
        | none =>
          simp only at h ⊢
          refine ⟨pre, post, h1, fun _ => h3 rfl, by simp, ?_⟩
          simp only [enters_append, ha, h2, hc, List.map_append]
          simp
        | some q =>
          simp only at h ⊢
          have hr := enters_executeRes s o fuel (some q) h
          have hsc : (executeRes s o fuel (some q)).sc = some q := by
            unfold executeRes; simp only; split <;> (try split) <;> rfl
          refine ⟨pre, post, h1, by rw [hsc]; simp, ?_, ?_⟩
          · intro fl k hq
            apply h4 fl k
            rw [hsc] at hq
            exact hq
          · simp only [enters_append, ha, h2, hc, hr, List.map_append, hsc, Option.isSome_some, if_true]

end LunarVerif.C04
