import LunarVerif.Proofs.C14
/-!
Helper lemmas for C14, part B2 (parser): the regex parser reads the text that `formatEndpoint` produces for a
SAFE pattern as exactly the intended AST.

  `parse_format_safe` : safe P → safeMethod m → parseRe (formatEndpoint m (render P)) = some (formatAST m P)
-/
set_option linter.unusedSimpArgs false
namespace LunarVerif.C14
open LunarVerif.UrlTree LunarVerif.Regex

/-- The next token is not a repetition operator (nor a lazy marker). -/
def NoRep (rest : List Char) : Prop :=
  rest = [] ∨ ∃ c r, rest = c :: r ∧ c ≠ '*' ∧ c ≠ '+' ∧ c ≠ '?' ∧ c ≠ '{'

/-- Parsed as itself by `parseAtom`'s default case. -/
def litChar (c : Char) : Bool := !metaChars.contains c

theorem litChar_ne {c : Char} (h : litChar c = true) :
    c ≠ '(' ∧ c ≠ ')' ∧ c ≠ '[' ∧ c ≠ '.' ∧ c ≠ '^' ∧ c ≠ '$' ∧ c ≠ '\\' ∧ c ≠ '|' ∧
    c ≠ '*' ∧ c ≠ '+' ∧ c ≠ '?' ∧ c ≠ '{' := by
  simp [litChar, metaChars] at h
  refine ⟨?_, ?_, ?_, ?_, ?_, ?_, ?_, ?_, ?_, ?_, ?_, ?_⟩ <;> (intro hc; subst hc; simp_all)

theorem plain_lit {c : Char} (h : plainChar c = true) : litChar c = true := by
  simp [plainChar] at h
  simp [litChar, h.1.1]

theorem noRep_cons {c : Char} {r : List Char} (h : c ≠ '*' ∧ c ≠ '+' ∧ c ≠ '?' ∧ c ≠ '{') : NoRep (c :: r) :=
  Or.inr ⟨c, r, rfl, h⟩

theorem noRep_lit {c : Char} {r : List Char} (h : litChar c = true) : NoRep (c :: r) := by
  have := litChar_ne h
  exact noRep_cons ⟨this.2.2.2.2.2.2.2.2.1, this.2.2.2.2.2.2.2.2.2.1, this.2.2.2.2.2.2.2.2.2.2.1,
    this.2.2.2.2.2.2.2.2.2.2.2⟩

theorem peek_noRep {rest : List Char} (h : NoRep rest) : peekRepeat rest = .notRep := by
  rcases h with h | ⟨c, r, h, h1, h2, h3, h4⟩
  · subst h; rfl
  · subst h
    unfold peekRepeat
    split <;> simp_all

theorem postfix_noRep (a : Re) {rest : List Char} (h : NoRep rest) : parsePostfix a rest = some (a, rest) := by
  simp [parsePostfix, peek_noRep h]

theorem atom_lit (sub : List Char → Option (Re × List Char)) {c : Char} (cs : List Char)
    (h : litChar c = true) : parseAtom sub (c :: cs) = some (.char c, cs) := by
  have hn := litChar_ne h
  unfold parseAtom
  split <;> simp_all

/-- One literal character. -/
theorem pc_lit (sub : List Char → Option (Re × List Char)) {c : Char} {rest : List Char} {f : Nat}
    {rs : List Re} {r : List Char} (hc : litChar c = true) (hr : NoRep rest)
    (h : parseCat sub f rest = some (rs, r)) :
    parseCat sub (f + 1) (c :: rest) = some (.char c :: rs, r) := by
  have hn := litChar_ne hc
  have hp : peekRepeat (c :: rest) = .notRep := peek_noRep (noRep_lit hc)
  unfold parseCat
  split
  · rename_i heq; cases heq
  · rename_i heq; cases heq; exact absurd rfl hn.2.2.2.2.2.2.2.1
  · rename_i heq; cases heq; exact absurd rfl hn.2.1
  · simp [hp, atom_lit sub rest hc, postfix_noRep _ hr, h]

theorem pc_lits (sub : List Char → Option (Re × List Char)) (w : List Char) {rest : List Char} {f : Nat}
    {rs : List Re} {r : List Char} (hw : ∀ c ∈ w, litChar c = true) (hr : NoRep rest)
    (h : parseCat sub f rest = some (rs, r)) :
    parseCat sub (f + w.length) (w ++ rest) = some (w.map Re.char ++ rs, r) := by
  induction w with
  | nil => simpa using h
  | cons c cs ih =>
    have ih' := ih (fun x hx => hw x (by simp [hx]))
    have hnr : NoRep (cs ++ rest) := by
      cases cs with
      | nil => simpa using hr
      | cons d ds => exact noRep_lit (hw d (by simp))
    have := pc_lit sub (hw c (by simp)) hnr ih'
    simpa [Nat.add_assoc] using this

/-- `\.` -/
theorem pc_escdot (sub : List Char → Option (Re × List Char)) {rest : List Char} {f : Nat}
    {rs : List Re} {r : List Char} (hr : NoRep rest) (h : parseCat sub f rest = some (rs, r)) :
    parseCat sub (f + 1) ('\\' :: '.' :: rest) = some (.char '.' :: rs, r) := by
  have hp : peekRepeat ('\\' :: '.' :: rest) = .notRep := peek_noRep (noRep_cons (by decide))
  have ha : parseAtom sub ('\\' :: '.' :: rest) = some (.char '.', rest) := by
    simp [parseAtom, isAlnum, isDigit]
  unfold parseCat
  split
  · rename_i heq; cases heq
  · rename_i heq; cases heq
  · rename_i heq; cases heq
  · simp [hp, ha, postfix_noRep _ hr, h]

/-- A literal segment after the dot replacement. -/
theorem pc_dotted (sub : List Char → Option (Re × List Char)) (t : List Char) {rest : List Char} {f : Nat}
    {rs : List Re} {r : List Char} (ht : ∀ c ∈ t, plainChar c = true ∨ c = '.') (hr : NoRep rest)
    (h : parseCat sub f rest = some (rs, r)) :
    parseCat sub (f + t.length) (replaceDots t ++ rest) = some (t.map Re.char ++ rs, r) := by
  induction t with
  | nil => simpa [replaceDots] using h
  | cons c cs ih =>
    have ih' := ih (fun x hx => ht x (by simp [hx]))
    have hnr : NoRep (replaceDots cs ++ rest) := by
      cases cs with
      | nil => simpa [replaceDots] using hr
      | cons d ds =>
        by_cases hd : d = '.'
        · simp only [replaceDots, hd, if_true, List.cons_append]
          exact noRep_cons (by decide)
        · simp only [replaceDots, hd, if_false, List.cons_append]
          rcases ht d (by simp) with hp | hp
          · exact noRep_lit (plain_lit hp)
          · exact absurd hp hd
    by_cases hc : c = '.'
    · subst hc
      have := pc_escdot sub hnr ih'
      simpa [replaceDots, Nat.add_assoc] using this
    · rcases ht c (by simp) with hp | hp
      · have := pc_lit sub (plain_lit hp) hnr ih'
        simpa [replaceDots, hc, Nat.add_assoc] using this
      · exact absurd hp hc

theorem dropLazy_noRep {rest : List Char} (h : NoRep rest) : dropLazy rest = rest := by
  rcases h with h | ⟨c, r, h, _, _, h3, _⟩
  · subst h; rfl
  · subst h
    unfold dropLazy
    split
    · rename_i heq; cases heq; exact absurd rfl h3
    · rfl

theorem postfix_plus (a : Re) {rest : List Char} (hr : NoRep rest) :
    parsePostfix a ('+' :: rest) = some (.plus a, rest) := by
  have hp1 : peekRepeat ('+' :: rest) = .op .plus rest := rfl
  simp [parsePostfix, hp1, dropLazy_noRep hr, peek_noRep hr, applyRep]

/-- `/[^/]+` -/
theorem pc_param (sub : List Char → Option (Re × List Char)) {rest : List Char} {f : Nat}
    {rs : List Re} {r : List Char} (hr : NoRep rest) (h : parseCat sub f rest = some (rs, r)) :
    parseCat sub (f + 2) (paramRegex ++ rest) = some (.char '/' :: paramRe :: rs, r) := by
  have hcls : parseAtom sub ('[' :: '^' :: '/' :: ']' :: '+' :: rest) = some (.cls true [('/', '/')], '+' :: rest) := by
    simp [parseAtom, parseClass, classItems, classChar]
  have hpost : parsePostfix (.cls true [('/', '/')]) ('+' :: rest) = some (paramRe, rest) := by
    have := postfix_plus (.cls true [('/', '/')]) hr
    simpa [paramRe] using this
  have hp : peekRepeat ('[' :: '^' :: '/' :: ']' :: '+' :: rest) = .notRep := peek_noRep (noRep_cons (by decide))
  have h1 : parseCat sub (f + 1) ('[' :: '^' :: '/' :: ']' :: '+' :: rest) = some (paramRe :: rs, r) := by
    unfold parseCat
    split
    · rename_i heq; cases heq
    · rename_i heq; cases heq
    · rename_i heq; cases heq
    · simp [hp, hcls, hpost, h]
  have := pc_lit sub (c := '/') (by decide) (noRep_cons (by decide)) h1
  simpa [paramRegex] using this

/-- `(/.*)?` at the very end, one nesting level available. -/
theorem pc_wild (n f : Nat) :
    parseCat (parseAltN (n + 1)) (f + 2) wildcardRegex = some ([wildRe], []) := by
  have hsub : parseAltN (n + 1) ['/', '.', '*', ')', '?']
      = some (.cat (.char '/') (.cat (.star .any) .eps), [')', '?']) := by rfl
  have hatom : parseAtom (parseAltN (n + 1)) wildcardRegex
      = some (.group (.cat (.char '/') (.cat (.star .any) .eps)), ['?']) := by
    simp [wildcardRegex, parseAtom, hsub]
  have hpost : parsePostfix (.group (.cat (.char '/') (.cat (.star .any) .eps))) ['?'] = some (wildRe, []) := by
    rfl
  have hp : peekRepeat wildcardRegex = .notRep := by rfl
  have hend : parseCat (parseAltN (n + 1)) (f + 1) [] = some ([], []) := by
    simp [parseCat]
  unfold parseCat
  simp only [wildcardRegex] at *
  simp [hp, hatom, hpost, hend]

/-! ### the tail of a safe pattern -/

/-- `$` unless the pattern ends with `*`. -/
def finText (d : Bool) (ps : List Part) : List Char := if endsWildT d ps then [] else ['$']

/-- Number of pieces (= loop iterations of `parseCat`) of the formatted tail. -/
def need : List Part → Nat
  | [] => 0
  | p :: ps =>
    (match p.host, p.seg with
      | true, s => 1 + (segChars s).length
      | false, .lit t => 1 + t.toList.length
      | false, .par _ => 2
      | false, .wild => 2) + need ps

def finNeed (d : Bool) (ps : List Part) : Nat := if endsWildT d ps then 0 else 1

theorem pc_end (sub : List Char → Option (Re × List Char)) (f : Nat) (hf : 1 ≤ f) :
    parseCat sub f [] = some ([], []) := by
  cases f with
  | zero => omega
  | succ g => simp [parseCat]

theorem pc_dollar (sub : List Char → Option (Re × List Char)) (f : Nat) (hf : 1 ≤ f) :
    parseCat sub (f + 1) ['$'] = some ([.eol], []) := by
  have hp : peekRepeat ['$'] = .notRep := by rfl
  have ha : parseAtom sub ['$'] = some (.eol, []) := by simp [parseAtom]
  have hq : parsePostfix .eol [] = some (.eol, []) := by rfl
  unfold parseCat
  simp [hp, ha, hq, pc_end sub f hf]

theorem noRep_finText (d : Bool) (ps : List Part) : NoRep (finText d ps) := by
  unfold finText
  split
  · exact Or.inl rfl
  · exact noRep_cons (by decide)

theorem pc_fin (sub : List Char → Option (Re × List Char)) (d : Bool) (ps : List Part) (f : Nat) (hf : 1 ≤ f)
    (hnil : ps = []) :
    parseCat sub (f + finNeed d ps) (finText d ps) = some (fin d ps, []) := by
  subst hnil
  cases d
  · simpa [finNeed, finText, fin, endsWildT] using pc_dollar sub f hf
  · simpa [finNeed, finText, fin, endsWildT] using pc_end sub f hf

theorem noRep_fmtTail_path (p : Part) (ps : List Part) (x : List Char) (hph : p.host = false) :
    NoRep (fmtTail (p :: ps) ++ x) := by
  cases hs : p.seg with
  | lit t => simp only [fmtTail, hph, hs, List.cons_append]; exact noRep_cons (by decide)
  | par n => simp only [fmtTail, hph, hs, paramRegex, List.cons_append]; exact noRep_cons (by decide)
  | wild => simp only [fmtTail, hph, hs, wildcardRegex, List.cons_append]; exact noRep_cons (by decide)

theorem noRep_fmtTail (ps : List Part) (d : Bool) : NoRep (fmtTail ps ++ finText d ps) := by
  cases ps with
  | nil => simpa [fmtTail] using noRep_finText d []
  | cons p ps =>
    by_cases hph : p.host = true
    · simp only [fmtTail, hph, List.cons_append]
      exact noRep_cons (by decide)
    · exact noRep_fmtTail_path p ps _ (by simpa using hph)

theorem parse_pathTail (n : Nat) : ∀ (ps : List Part) (d : Bool) (f : Nat), pathTailOK ps = true → 1 ≤ f →
    parseCat (parseAltN (n + 1)) (f + finNeed d ps + need ps) (fmtTail ps ++ finText d ps)
      = some (tailPieces ps ++ fin d ps, []) := by
  intro ps
  induction ps with
  | nil =>
    intro d f _ hf
    simpa [need, fmtTail, tailPieces] using pc_fin _ d [] f hf rfl
  | cons p ps ih =>
    intro d f h hf
    simp only [pathTailOK, Bool.and_eq_true, Bool.not_eq_true'] at h
    obtain ⟨hph, hseg⟩ := h
    cases hs : p.seg with
    | lit t =>
      rw [hs] at hseg
      simp only [Bool.and_eq_true] at hseg
      have ih' := ih false f hseg.2 hf
      have hfin : fin d (p :: ps) = fin false ps := by simp [fin, endsWildT, hs, lit_beq_wild]
      have hft : finText d (p :: ps) = finText false ps := by simp [finText, endsWildT, hs, lit_beq_wild]
      have hfn : finNeed d (p :: ps) = finNeed false ps := by simp [finNeed, endsWildT, hs, lit_beq_wild]
      have h1 := pc_dotted _ t.toList (pathLit_chars hseg.1).2 (noRep_fmtTail ps false) ih'
      have hnr : NoRep (replaceDots t.toList ++ (fmtTail ps ++ finText false ps)) := by
        obtain ⟨hne, hch⟩ := pathLit_chars hseg.1
        cases ht : t.toList with
        | nil => exact absurd ht hne
        | cons a as =>
          by_cases ha : a = '.'
          · simp only [replaceDots, ha, if_true, List.cons_append]; exact noRep_cons (by decide)
          · simp only [replaceDots, ha, if_false, List.cons_append]
            rcases hch a (by simp [ht]) with hp | hp
            · exact noRep_lit (plain_lit hp)
            · exact absurd hp ha
      have h2 := pc_lit _ (c := '/') (by decide) hnr h1
      rw [hfin, hft, hfn]
      have e1 : f + finNeed false ps + need (p :: ps)
          = f + finNeed false ps + need ps + t.toList.length + 1 := by
        simp [need, hph, hs]; omega
      rw [e1]
      simpa [fmtTail, tailPieces, hph, hs, List.append_assoc] using h2
    | par nm =>
      rw [hs] at hseg
      simp only [Bool.and_eq_true] at hseg
      have ih' := ih false f hseg.2 hf
      have hfin : fin d (p :: ps) = fin false ps := by simp [fin, endsWildT, hs, par_beq_wild]
      have hft : finText d (p :: ps) = finText false ps := by simp [finText, endsWildT, hs, par_beq_wild]
      have hfn : finNeed d (p :: ps) = finNeed false ps := by simp [finNeed, endsWildT, hs, par_beq_wild]
      have h1 := pc_param _ (noRep_fmtTail ps false) ih'
      rw [hfin, hft, hfn]
      have e1 : f + finNeed false ps + need (p :: ps) = f + finNeed false ps + need ps + 2 := by
        simp [need, hph, hs]; omega
      rw [e1]
      simpa [fmtTail, tailPieces, hph, hs, List.append_assoc] using h1
    | wild =>
      rw [hs] at hseg
      have hps : ps = [] := by simpa using hseg
      subst hps
      have := pc_wild n (f - 1)
      have e1 : f + finNeed d [p] + need [p] = f - 1 + 2 + 1 := by
        simp [need, hph, hs, finNeed, endsWildT]; omega
      have e2 : f - 1 + 2 + 1 = (f - 1 + 1) + 2 := by omega
      rw [e1, e2]
      have := pc_wild n (f - 1 + 1)
      simpa [fmtTail, tailPieces, hph, hs, finText, fin, endsWildT] using this

theorem parse_tail (n : Nat) : ∀ (ps : List Part) (f : Nat), tailOK ps = true → 1 ≤ f →
    parseCat (parseAltN (n + 1)) (f + finNeed false ps + need ps) (fmtTail ps ++ finText false ps)
      = some (tailPieces ps ++ fin false ps, []) := by
  intro ps
  induction ps with
  | nil =>
    intro f _ hf
    simpa [need, fmtTail, tailPieces] using pc_fin _ false [] f hf rfl
  | cons p ps ih =>
    intro f h hf
    by_cases hph : p.host = true
    · simp only [tailOK, hph, if_true, Bool.and_eq_true] at h
      obtain ⟨t, hs, _, hpl⟩ := hostLit_chars h.1
      have ih' := ih f h.2 hf
      have hfin : fin false (p :: ps) = fin false ps := by simp [fin, endsWildT, hs, lit_beq_wild]
      have hft : finText false (p :: ps) = finText false ps := by simp [finText, endsWildT, hs, lit_beq_wild]
      have hfn : finNeed false (p :: ps) = finNeed false ps := by simp [finNeed, endsWildT, hs, lit_beq_wild]
      have h1 := pc_lits _ t.toList (fun c hc => plain_lit (hpl c hc)) (noRep_fmtTail ps false) ih'
      have hnr : NoRep (t.toList ++ (fmtTail ps ++ finText false ps)) := by
        cases ht : t.toList with
        | nil => simpa using noRep_fmtTail ps false
        | cons a as => exact noRep_lit (plain_lit (hpl a (by simp [ht])))
      have h2 := pc_escdot _ hnr h1
      rw [hfin, hft, hfn]
      have e1 : f + finNeed false ps + need (p :: ps)
          = f + finNeed false ps + need ps + t.toList.length + 1 := by
        simp [need, hph, hs, segChars]; omega
      rw [e1]
      simpa [fmtTail, tailPieces, hph, hs, segChars, List.append_assoc] using h2
    · have hpf : p.host = false := by simpa using hph
      simp only [tailOK, hpf] at h
      exact parse_pathTail n (p :: ps) false f (by simpa using h) hf

/-! ### lengths -/

theorem length_replaceDots_ge (t : List Char) : t.length ≤ (replaceDots t).length := by
  induction t with
  | nil => simp [replaceDots]
  | cons c cs ih => by_cases hc : c = '.' <;> simp [replaceDots, hc] <;> omega

theorem need_le : ∀ (ps : List Part) (d : Bool),
    finNeed d ps + need ps ≤ (fmtTail ps ++ finText d ps).length := by
  intro ps
  induction ps with
  | nil => intro d; cases d <;> simp [need, fmtTail, finNeed, finText, endsWildT]
  | cons p ps ih =>
    intro d
    have ih' := ih (p.seg == .wild)
    have hfn : finNeed d (p :: ps) = finNeed (p.seg == .wild) ps := rfl
    have hft : finText d (p :: ps) = finText (p.seg == .wild) ps := rfl
    rw [hfn, hft]
    simp only [List.length_append] at ih' ⊢
    cases hs : p.seg with
    | lit t =>
      have hl := length_replaceDots_ge t.toList
      rw [hs] at ih'
      cases hh : p.host <;> simp [need, fmtTail, hh, hs, segChars, lit_beq_wild] at ih' ⊢ <;> omega
    | par nm =>
      rw [hs] at ih'
      cases hh : p.host <;> simp [need, fmtTail, hh, hs, segChars, paramRegex, par_beq_wild] at ih' ⊢ <;> omega
    | wild =>
      rw [hs] at ih'
      cases hh : p.host <;> simp [need, fmtTail, hh, hs, segChars, wildcardRegex] at ih' ⊢ <;> omega

/-- Part B: the parser reads the formatted text of a safe pattern as the intended AST. -/
theorem parse_format_safe (m : List Char) (P : List Part) (hs : safe P = true)
    (hm : ∀ c ∈ m, plainChar c = true) :
    parseRe (formatEndpoint m (render P)) = some (formatAST m P) := by
  cases P with
  | nil => simp [safe] at hs
  | cons p ps =>
    simp only [safe, Bool.and_eq_true] at hs
    obtain ⟨⟨hph, hlit⟩, hrest⟩ := hs
    obtain ⟨t, hseg, _, hpl⟩ := hostLit_chars hlit
    have hfmt := formatURL_safe p ps t hseg hpl hrest
    have hew : endsWild (p :: ps) = endsWildT false ps := by simp [endsWild_cons, hseg, lit_beq_wild]
    -- the text and the expected AST, in the shape of the lemmas
    let w := m ++ delimiter ++ t.toList
    have htext : formatEndpoint m (render (p :: ps)) = w ++ (fmtTail ps ++ finText false ps) := by
      simp only [formatEndpoint, hfmt, hew, finText, w]
      cases endsWildT false ps <;> simp [List.append_assoc]
    have hast : formatAST m (p :: ps) = catList (w.map Re.char ++ (tailPieces ps ++ fin false ps)) := by
      simp [formatAST, hseg, segChars, hew, fin, w, List.append_assoc]
    have hw : ∀ c ∈ w, litChar c = true := by
      intro c hc
      simp only [w, List.mem_append] at hc
      rcases hc with (hc | hc) | hc
      · exact plain_lit (hm c hc)
      · simp [delimiter] at hc; subst hc; decide
      · exact plain_lit (hpl c hc)
    have hwlen : 3 ≤ w.length := by simp [w, delimiter]; omega
    rw [htext, hast]
    generalize hT : fmtTail ps ++ finText false ps = tail
    have hneed : finNeed false ps + need ps ≤ tail.length := by rw [← hT]; exact need_le ps false
    -- fuel bookkeeping: total length + 1 = f0 + pieces of the tail + |w|
    have hlen : (w ++ tail).length = w.length + tail.length := by simp
    obtain ⟨n, hn⟩ : ∃ n, (w ++ tail).length = n + 1 := ⟨w.length + tail.length - 1, by omega⟩
    have hf0 : (w ++ tail).length + 1
        = (tail.length + 1 - (finNeed false ps + need ps)) + finNeed false ps + need ps + w.length := by omega
    have htail := parse_tail n ps (tail.length + 1 - (finNeed false ps + need ps)) hrest (by omega)
    rw [hT] at htail
    have hcat := pc_lits (parseAltN (n + 1)) w hw (by rw [← hT]; exact noRep_fmtTail ps false) htail
    rw [← hf0] at hcat
    unfold parseRe
    rw [hn]
    have hW : parseAltN (n + 1 + 1) (w ++ tail)
        = some (catList (w.map Re.char ++ (tailPieces ps ++ fin false ps)), []) := by
      have e : parseAltN (n + 1 + 1) (w ++ tail)
          = parseAltW (parseAltN (n + 1)) ((w ++ tail).length + 1) (w ++ tail) := rfl
      rw [e]
      unfold parseAltW
      simp only [hcat]
    simp [hW]

end LunarVerif.C14
