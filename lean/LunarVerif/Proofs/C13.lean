import LunarVerif.Spec.C13
import LunarVerif.Proofs.UrlTree
/-! Helper lemmas for C13 (repaired `BuildEndpointPolicyTree`, fixes/F13a.patch + fixes/F13e.patch): the
invariant of the build — it needs NO hypothesis on the declarations any more — and what it gives for the
selection. -/
namespace LunarVerif.C13
open LunarVerif.UrlTree LunarVerif.UrlMatch

/-! ### policy maps, URL index, groups -/

theorem PMap.find?_set_eq (mp : PMap) (k : String) (p : Policy) : PMap.find? (PMap.set mp k p) k = some p := by
  induction mp with
  | nil => simp [PMap.set, PMap.find?]
  | cons kq rest ih =>
    obtain ⟨k', q⟩ := kq
    unfold PMap.set
    by_cases hk : k' = k
    · simp [hk, PMap.find?]
    · simp [hk, PMap.find?, ih]

theorem PMap.find?_set_ne (mp : PMap) (k m : String) (p : Policy) (h : m ≠ k) :
    PMap.find? (PMap.set mp k p) m = PMap.find? mp m := by
  induction mp with
  | nil => simp [PMap.set, PMap.find?, Ne.symm h]
  | cons kq rest ih =>
    obtain ⟨k', q⟩ := kq
    unfold PMap.set
    by_cases hk : k' = k
    · subst hk; simp [PMap.find?, Ne.symm h]
    · by_cases hm : k' = m
      · subst hm; simp [hk, PMap.find?]
      · simp [hk, PMap.find?, hm, ih]

theorem UrlIndex.find?_some {ix : UrlIndex} {ps : List Part} {i : Nat} (h : ix.find? ps = some i) :
    (ps, i) ∈ ix := by
  induction ix with
  | nil => simp [UrlIndex.find?] at h
  | cons ki rest ih =>
    obtain ⟨k, j⟩ := ki
    unfold UrlIndex.find? at h
    by_cases hk : k = ps
    · simp [hk] at h; subst h; subst hk; simp
    · simp [hk] at h; exact List.mem_cons_of_mem _ (ih h)

theorem UrlIndex.find?_none {ix : UrlIndex} {ps : List Part} (h : ix.find? ps = none) (i : Nat) :
    (ps, i) ∉ ix := by
  induction ix with
  | nil => simp
  | cons ki rest ih =>
    obtain ⟨k, j⟩ := ki
    unfold UrlIndex.find? at h
    by_cases hk : k = ps
    · simp [hk] at h
    · simp [hk] at h
      intro hm
      rcases List.mem_cons.mp hm with hm | hm
      · simp at hm; exact hk hm.1.symm
      · exact ih h hm

theorem group_append (done : List Endpoint) (e : Endpoint) (m : String) (p : Pattern) :
    group (done ++ [e]) m p = group done m p ++ (if e.method = m ∧ e.parts = p then [e] else []) := by
  unfold group
  rw [List.filter_append]
  congr 1
  by_cases h : e.method = m ∧ e.parts = p
  · simp [h]
  · rw [if_neg h]
    simp only [List.filter_cons, List.filter_nil]
    have : (e.method == m && e.parts == p) = false := by
      rcases Classical.not_and_iff_not_or_not.mp h with h | h <;> simp [h]
    simp [this]

theorem mem_group {eps : List Endpoint} {m : String} {p : Pattern} {x : Endpoint} :
    x ∈ group eps m p ↔ x ∈ eps ∧ x.method = m ∧ x.parts = p := by
  simp [group, List.mem_filter]

/-- The policy the build holds for method `m` and pattern `p` after the declarations `done`. -/
def polOf (done : List Endpoint) (m : String) (p : Pattern) : Option Policy :=
  if (group done m p).isEmpty then none else some ⟨group done m p⟩

/-- Value of the trie entry of a declared pattern: none when the pattern goes on after a `*`. -/
def entryVal (p : Pattern) (i : Nat) : Option Nat := if (trunc p).length < p.length then none else some i

theorem entryVal_some {p : Pattern} {i j : Nat} (h : entryVal p i = some j) : j = i ∧ trunc p = p := by
  unfold entryVal at h
  by_cases hlt : (trunc p).length < p.length
  · simp [hlt] at h
  · simp [hlt] at h; exact ⟨h.symm, trunc_eq_of_length _ hlt⟩

theorem entryVal_wildLast {p : Pattern} (i : Nat) (h : wildLast p = true) : entryVal p i = some i := by
  simp [entryVal, trunc_of_wildLast _ h]

/-! ### the build invariant (unconditional) -/

structure Inv (pt : PTree) (done : List Endpoint) : Prop where
  wl : WildLast pt.tree
  names : NamesOK pt.tree
  ixdom : ∀ p i, (p, i) ∈ pt.byUrl → i < pt.store.length ∧ ∃ e ∈ done, e.parts = p
  ixfun : ∀ p i j, (p, i) ∈ pt.byUrl → (p, j) ∈ pt.byUrl → i = j
  ixinj : ∀ p p' i, (p, i) ∈ pt.byUrl → (p', i) ∈ pt.byUrl → p = p'
  ixcov : ∀ e ∈ done, ∃ i, (e.parts, i) ∈ pt.byUrl
  tdom : ∀ q ov, (q, ov) ∈ pt.tree → ∃ p i, (p, i) ∈ pt.byUrl ∧ q = trunc p ∧ ov = entryVal p i
  tcov : ∀ p i, (p, i) ∈ pt.byUrl → (trunc p, entryVal p i) ∈ pt.tree
  bind : ∀ p i, (p, i) ∈ pt.byUrl → ∀ m, PMap.find? (pt.store.getD i []) m = polOf done m p
  allwl : ∀ e ∈ done, wildLast e.parts = true

theorem inv_empty : Inv .empty [] := by
  constructor <;> simp [PTree.empty, WildLast, NamesOK]

theorem getD_set_eq {α : Type} (l : List α) (i : Nat) (a d : α) (h : i < l.length) :
    (l.set i a).getD i d = a := by
  simp [List.getD, h]

theorem getD_set_ne {α : Type} (l : List α) (i j : Nat) (a d : α) (h : i ≠ j) :
    (l.set i a).getD j d = l.getD j d := by
  simp [List.getD, List.getElem?_set_ne h]

theorem addEndpoint_inv {pt pt' : PTree} {done : List Endpoint} {e : Endpoint}
    (hinv : Inv pt done) (h : addEndpoint pt e = .ok pt') : Inv pt' (done ++ [e]) := by
  unfold addEndpoint at h
  split at h
  · simp at h
  · cases hf : pt.byUrl.find? e.parts with
    | some i =>
      rw [hf] at h
      simp only at h
      split at h
      · simp at h
      · rename_i t' hins
        simp at h
        subst h
        have hmem : (e.parts, i) ∈ pt.byUrl := UrlIndex.find?_some hf
        have hi : i < pt.store.length := (hinv.ixdom _ _ hmem).1
        have hnames := insertParts_namesOK hinv.names hins
        have hwl := insertParts_wildLast hinv.wl hins
        have hallwl : ∀ x ∈ done ++ [e], wildLast x.parts = true := by
          intro x hx
          rcases List.mem_append.mp hx with hx | hx
          · exact hinv.allwl x hx
          · simp at hx; subst hx; exact validateParts_wildLast (insertParts_ok hins).1
        rw [insertParts_declared hins] at hnames hwl ⊢
        refine ⟨hwl, hnames, ?_, hinv.ixfun, hinv.ixinj, ?_, ?_, ?_, ?_, hallwl⟩
        · intro p j hm
          obtain ⟨h1, x, hx, hxp⟩ := hinv.ixdom p j hm
          exact ⟨by simpa [setStore] using h1, x, by simp [hx], hxp⟩
        · intro x hx
          rcases List.mem_append.mp hx with hx | hx
          · exact hinv.ixcov x hx
          · simp at hx; subst hx; exact ⟨i, hmem⟩
        · intro q ov hm
          rcases List.mem_append.mp hm with hm | hm
          · exact hinv.tdom q ov hm
          · simp only [List.mem_singleton, Prod.mk.injEq] at hm
            exact ⟨e.parts, i, hmem, hm.1, by rw [hm.2]; rfl⟩
        · intro p j hm
          exact List.mem_append_left _ (hinv.tcov p j hm)
        · intro p j hm m
          rw [polOf, group_append]
          simp only [setStore]
          by_cases hji : j = i
          · subst hji
            have hp : p = e.parts := hinv.ixinj _ _ _ hm hmem
            subst hp
            rw [getD_set_eq _ _ _ _ hi]
            by_cases hmm : m = e.method
            · subst hmm
              rw [PMap.find?_set_eq]
              simp only [and_self, if_true]
              have hold := hinv.bind _ _ hmem e.method
              rw [List.getD_eq_getElem?_getD] at hold
              rw [hold, polOf]
              by_cases hg : (group done e.method e.parts).isEmpty
              · simp only [hg, if_true]
                have : group done e.method e.parts = [] := by simpa using hg
                simp [this]
              · simp [hg]
            · rw [PMap.find?_set_ne _ _ _ _ hmm]
              have : ¬ (e.method = m ∧ e.parts = e.parts) := fun hh => hmm hh.1.symm
              rw [if_neg this, List.append_nil]
              exact hinv.bind _ _ hmem m
          · rw [getD_set_ne _ _ _ _ _ (Ne.symm hji)]
            have : ¬ (e.method = m ∧ e.parts = p) := by
              intro hh
              exact hji (hinv.ixfun _ _ _ (by rw [hh.2]; exact hm) hmem)
            rw [if_neg this, List.append_nil]
            exact hinv.bind _ _ hm m
    | none =>
      rw [hf] at h
      simp only at h
      split at h
      · simp at h
      · rename_i t' hins
        simp at h
        subst h
        have hnone := UrlIndex.find?_none hf
        have hnames := insertParts_namesOK hinv.names hins
        have hwl := insertParts_wildLast hinv.wl hins
        have hallwl : ∀ x ∈ done ++ [e], wildLast x.parts = true := by
          intro x hx
          rcases List.mem_append.mp hx with hx | hx
          · exact hinv.allwl x hx
          · simp at hx; subst hx; exact validateParts_wildLast (insertParts_ok hins).1
        rw [insertParts_declared hins] at hnames hwl ⊢
        have hnodone : ∀ x ∈ done, x.parts ≠ e.parts := by
          intro x hx hxp
          obtain ⟨j, hj⟩ := hinv.ixcov x hx
          rw [hxp] at hj
          exact hnone j hj
        have hsplit : ∀ p j, (p, j) ∈ pt.byUrl ++ [(e.parts, pt.store.length)] →
            (p, j) ∈ pt.byUrl ∨ (p = e.parts ∧ j = pt.store.length) := by
          intro p j hm
          rcases List.mem_append.mp hm with hm | hm
          · exact .inl hm
          · simp at hm; exact .inr hm
        refine ⟨hwl, hnames, ?_, ?_, ?_, ?_, ?_, ?_, ?_, hallwl⟩
        · intro p j hm
          simp only [List.length_append, List.length_cons, List.length_nil]
          rcases hsplit p j hm with hm | ⟨rfl, rfl⟩
          · obtain ⟨h1, x, hx, hxp⟩ := hinv.ixdom p j hm
            exact ⟨by omega, x, by simp [hx], hxp⟩
          · exact ⟨by omega, e, by simp, rfl⟩
        · intro p j k h1 h2
          rcases hsplit p j h1 with h1 | ⟨h1a, h1b⟩ <;> rcases hsplit p k h2 with h2 | ⟨h2a, h2b⟩
          · exact hinv.ixfun _ _ _ h1 h2
          · subst h2a; exact absurd h1 (hnone j)
          · subst h1a; exact absurd h2 (hnone k)
          · rw [h1b, h2b]
        · intro p p' j h1 h2
          rcases hsplit p j h1 with h1 | ⟨h1a, h1b⟩ <;> rcases hsplit p' j h2 with h2 | ⟨h2a, h2b⟩
          · exact hinv.ixinj _ _ _ h1 h2
          · have := (hinv.ixdom _ _ h1).1; omega
          · have := (hinv.ixdom _ _ h2).1; omega
          · rw [h1a, h2a]
        · intro x hx
          rcases List.mem_append.mp hx with hx | hx
          · obtain ⟨j, hj⟩ := hinv.ixcov x hx
            exact ⟨j, List.mem_append_left _ hj⟩
          · simp at hx; subst hx; exact ⟨pt.store.length, List.mem_append_right _ (by simp)⟩
        · intro q ov hm
          rcases List.mem_append.mp hm with hm | hm
          · obtain ⟨p, j, hj, h1, h2⟩ := hinv.tdom q ov hm
            exact ⟨p, j, List.mem_append_left _ hj, h1, h2⟩
          · simp only [List.mem_singleton, Prod.mk.injEq] at hm
            exact ⟨e.parts, pt.store.length, List.mem_append_right _ (by simp), hm.1, by rw [hm.2]; rfl⟩
        · intro p j hm
          rcases hsplit p j hm with hm | ⟨rfl, rfl⟩
          · exact List.mem_append_left _ (hinv.tcov p j hm)
          · exact List.mem_append_right _ (by simp [entryVal])
        · intro p j hm m
          rw [polOf, group_append]
          rcases hsplit p j hm with hm | ⟨rfl, rfl⟩
          · have hj := (hinv.ixdom _ _ hm).1
            have hg : (pt.store ++ [[(e.method, (⟨[e]⟩ : Policy))]]).getD j [] = pt.store.getD j [] := by
              simp [List.getD, List.getElem?_append_left hj]
            rw [hg]
            have : ¬ (e.method = m ∧ e.parts = p) := by
              intro hh
              exact hnone j (by rw [hh.2]; exact hm)
            rw [if_neg this, List.append_nil]
            exact hinv.bind _ _ hm m
          · have hg : (pt.store ++ [[(e.method, (⟨[e]⟩ : Policy))]]).getD pt.store.length [] = [(e.method, ⟨[e]⟩)] := by
              simp [List.getD]
            rw [hg]
            have hempty : group done m e.parts = [] := by
              rw [List.eq_nil_iff_forall_not_mem]
              intro x hx
              obtain ⟨hx1, _, hx3⟩ := mem_group.mp hx
              exact hnodone x hx1 hx3
            rw [hempty]
            by_cases hmm : e.method = m
            · simp [hmm, PMap.find?]
            · simp [hmm, PMap.find?]

theorem buildFrom_inv (es : List Endpoint) : ∀ (pt pt' : PTree) (done : List Endpoint),
    Inv pt done → buildFrom pt es = .ok pt' → Inv pt' (done ++ es) := by
  induction es with
  | nil => intro pt pt' done hinv h; simp [buildFrom] at h; subst h; simpa using hinv
  | cons e rest ih =>
    intro pt pt' done hinv h
    unfold buildFrom at h
    split at h
    · simp at h
    · rename_i pt1 hadd
      have := ih pt1 pt' (done ++ [e]) (addEndpoint_inv hinv hadd) h
      simpa using this

/-- Every successfully built endpoint list satisfies the invariant. -/
theorem build_inv {es : List Endpoint} {pt : PTree} (h : build es = .ok pt) : Inv pt es := by
  have := buildFrom_inv es .empty pt [] inv_empty h
  simpa using this

/-! ### consequences for the tree -/

theorem Inv.entry_some {pt : PTree} {es : List Endpoint} (hinv : Inv pt es) {q : Pattern} {i : Nat}
    (h : (q, some i) ∈ pt.tree) : (q, i) ∈ pt.byUrl := by
  obtain ⟨p, j, hj, hq, hv⟩ := hinv.tdom _ _ h
  obtain ⟨h1, h2⟩ := entryVal_some hv.symm
  subst h1
  rw [hq, h2]; exact hj

theorem Inv.cov {pt : PTree} {es : List Endpoint} (hinv : Inv pt es) {e : Endpoint} (he : e ∈ es)
    (hw : wildLast e.parts = true) : ∃ i, (e.parts, some i) ∈ pt.tree := by
  obtain ⟨i, hi⟩ := hinv.ixcov e he
  have := hinv.tcov _ _ hi
  rw [trunc_of_wildLast _ hw, entryVal_wildLast i hw] at this
  exact ⟨i, this⟩

theorem Inv.dom {pt : PTree} {es : List Endpoint} (hinv : Inv pt es) {q : Pattern} {ov : Option Nat}
    (h : (q, ov) ∈ pt.tree) : ∃ e ∈ es, q = trunc e.parts := by
  obtain ⟨p, j, hj, hq, _⟩ := hinv.tdom _ _ h
  obtain ⟨_, e, he, hep⟩ := hinv.ixdom _ _ hj
  exact ⟨e, he, by rw [hq, hep]⟩

theorem tree_aligned {pt : PTree} {es : List Endpoint} (hinv : Inv pt es) {u : Url}
    (h : boundaryMix es u = false) : Aligned pt.tree u := by
  intro ⟨q, ov⟩ hmem
  obtain ⟨e, he, hq⟩ := hinv.dom hmem
  unfold boundaryMix at h
  rw [List.any_eq_false] at h
  have := h e he
  simp only [hq, flagsOK_trunc]
  simpa using this

/-! ### the selection -/

theorem select_some {pt : PTree} {m : String} {us : List Part} {i : Nat}
    (h : (lookupParts pt.tree us).value = some i) :
    select pt m us = ⟨true, (pt.store.getD i []).find? m, (lookupParts pt.tree us).norm,
      (lookupParts pt.tree us).params⟩ := by
  simp [select, h]

theorem select_none {pt : PTree} {m : String} {us : List Part}
    (h : (lookupParts pt.tree us).value = none) :
    select pt m us = ⟨false, none, (lookupParts pt.tree us).norm, (lookupParts pt.tree us).params⟩ := by
  simp [select, h]

/-- The selected policy is the whole group of declarations for the method and the pattern whose trie
    entry the lookup returned. -/
theorem select_policy {pt : PTree} {es : List Endpoint} (hinv : Inv pt es) {m : String} {us : List Part}
    {pol : Policy} (h : (select pt m us).policy = some pol) :
    ∃ q i, (lookupParts pt.tree us).value = some i ∧ (q, i) ∈ pt.byUrl ∧
      pol = ⟨group es m q⟩ ∧ group es m q ≠ [] ∧
      ∀ q', (q', some i) ∈ pt.tree → q' = q := by
  cases hl : (lookupParts pt.tree us).value with
  | none => rw [select_none hl] at h; simp at h
  | some i =>
    rw [select_some hl] at h
    simp only at h
    -- some entry carries the value: lax soundness is not needed here, membership is enough
    obtain ⟨q, hq⟩ := lookupParts_value_mem pt.tree us i hl
    have hqi := hinv.entry_some hq
    rw [hinv.bind _ _ hqi m, polOf] at h
    by_cases hg : (group es m q).isEmpty
    · simp [hg] at h
    · simp only [hg] at h
      simp only [Bool.false_eq_true, if_false, Option.some.injEq] at h
      refine ⟨q, i, rfl, hqi, h.symm, by simpa using hg, ?_⟩
      intro q' hq'
      exact hinv.ixinj _ _ _ (hinv.entry_some hq') hqi

theorem enabled_flatMap_remedies (l : List Endpoint) :
    ((l.flatMap (·.remedies)).filter (·.enabled)).map (·.name) = l.flatMap enabledRemedies := by
  induction l with
  | nil => rfl
  | cons a l ih => simp [List.flatMap_cons, List.filter_append, enabledRemedies, ← ih]

theorem enabled_flatMap_diags (l : List Endpoint) :
    ((l.flatMap (·.diags)).filter (·.enabled)).map (·.name) = l.flatMap enabledDiags := by
  induction l with
  | nil => rfl
  | cons a l ih => simp [List.flatMap_cons, List.filter_append, enabledDiags, ← ih]

/-- What `select` returning a policy means (with the lax-soundness of the lookup). -/
theorem select_char {pt : PTree} {es : List Endpoint} (hinv : Inv pt es) {m : String} {us : List Part}
    {pol : Policy} (h : (select pt m us).policy = some pol) :
    ∃ q i e, (lookupParts pt.tree us).value = some i ∧ (q, some i) ∈ pt.tree ∧ matchesLax q us = true ∧
      pol = ⟨group es m q⟩ ∧ e ∈ es ∧ e.method = m ∧ e.parts = q ∧
      (∀ q', (q', some i) ∈ pt.tree → q' = q) := by
  obtain ⟨q, i, hl, _, hpol, hg, huniq⟩ := select_policy hinv h
  obtain ⟨q', hq', hm⟩ := lookupParts_sound_lax' pt.tree us i hinv.wl hl
  have := huniq q' hq'
  subst this
  obtain ⟨e, he⟩ := List.exists_mem_of_ne_nil _ hg
  obtain ⟨he1, he2, he3⟩ := mem_group.mp he
  exact ⟨q', i, e, hl, hq', hm, hpol, he1, he2, he3, huniq⟩

/-- Shape shared by (S), (M), (P), (N): some declaration of the applied group is sound and has the extra
    property. -/
theorem any_soundFor {pt : PTree} {es : List Endpoint} (hinv : Inv pt es) (g : Globals) (m : String)
    (us : List Part) (hfl : boundaryMix es us = false)
    (extra : Endpoint → Bool)
    (hextra : ∀ q i e, (lookupParts pt.tree us).value = some i → (q, some i) ∈ pt.tree →
      (select pt m us).policy = some ⟨group es m q⟩ → e ∈ es → e.parts = q → extra e = true) :
    (match (observe pt g m us).pol with
     | none => true
     | some _ => es.any fun e => soundFor es m us (observe pt g m us) e && extra e) = true := by
  cases hp : (select pt m us).policy with
  | none => simp [observe, hp]
  | some pol =>
    obtain ⟨q, i, e, hl, hq, hm, hpol, he, hem, hep, _⟩ := select_char hinv hp
    have hpolv : (observe pt g m us).pol = some pol.url := by simp [observe, hp]
    rw [hpolv]
    simp only
    rw [List.any_eq_true]
    refine ⟨e, he, ?_⟩
    rw [Bool.and_eq_true]
    refine ⟨?_, hextra q i e hl hq (by rw [hp, hpol]) he hep⟩
    have hmatch : «matches» e.parts us = true := by
      rw [hep]
      apply matches_of_lax q us hm
      have hb := hfl
      unfold boundaryMix at hb
      rw [List.any_eq_false] at hb
      have := hb e he
      rw [hep] at this
      simpa using this
    have hg : group es m q ≠ [] := by
      intro hg
      have : e ∈ group es m q := mem_group.mpr ⟨he, hem, hep⟩
      rw [hg] at this; simp at this
    have hurl : (group es m e.parts).any (fun x => (observe pt g m us).pol == some x.url) = true := by
      rw [hep, hpolv, List.any_eq_true]
      have hlast : ∃ l, (group es m q).getLast? = some l := by
        cases hgl : (group es m q).getLast? with
        | none => rw [List.getLast?_eq_none_iff] at hgl; exact absurd hgl hg
        | some l => exact ⟨l, rfl⟩
      obtain ⟨l, hl'⟩ := hlast
      refine ⟨l, List.mem_of_getLast? hl', ?_⟩
      simp [Policy.url, hpol, hl']
    simp only [soundFor, hem, hmatch, hurl, beq_self_eq_true, Bool.true_and, Bool.and_eq_true, beq_iff_eq]
    rw [hep]
    constructor
    · simp only [observe, getRemedies, hp, hpol, Policy.remedies]
      exact enabled_flatMap_remedies _
    · simp only [observe, getDiagnoses, hp, hpol, Policy.diags]
      exact enabled_flatMap_diags _

theorem soundOk_of_inv {pt : PTree} {es : List Endpoint} (hinv : Inv pt es) (g : Globals) (m : String)
    (us : List Part) (hfl : boundaryMix es us = false) :
    soundOk es m us (observe pt g m us) = true := by
  have := any_soundFor hinv g m us hfl (fun _ => true) (fun _ _ _ _ _ _ _ _ => rfl)
  unfold soundOk
  cases hp : (observe pt g m us).pol with
  | none =>
    have : (select pt m us).policy = none := by
      simpa [observe] using hp
    simp [observe, getRemedies, getDiagnoses, this]
  | some purl =>
    rw [hp] at this
    simpa using this


theorem Inv.entry_uniq {pt : PTree} {es : List Endpoint} (hinv : Inv pt es) {q q' : Pattern} {i : Nat}
    (h : (q, some i) ∈ pt.tree) (h' : (q', some i) ∈ pt.tree) : q' = q :=
  hinv.ixinj _ _ _ (hinv.entry_some h') (hinv.entry_some h)

/-- The normalised URL IS the applied pattern and the parameters are the bindings along that pattern. -/
theorem exact_of_inv {pt : PTree} {es : List Endpoint} (hinv : Inv pt es) (us : List Part)
    (hfl : boundaryMix es us = false)
    {q : Pattern} {i : Nat} (hl : (lookupParts pt.tree us).value = some i) (hq : (q, some i) ∈ pt.tree) :
    (lookupParts pt.tree us).norm = q ∧ (lookupParts pt.tree us).params = bindParams [] q us := by
  have hmatch := lookGo_value_isMatch us pt.tree none [] [] i hl
  rcases lookGo_exact us pt.tree none [] [] hinv.wl hinv.names (tree_aligned hinv hfl) hmatch with
    ⟨q', hq', _, hnorm, hpar⟩ | ⟨f, hf, _⟩
  · have hl' : (lookGo pt.tree none [] [] us).value = some i := hl
    rw [hl'] at hq'
    have := hinv.entry_uniq hq hq'
    subst this
    unfold lookupParts
    rw [hnorm, hpar]
    simp
  · simp at hf

theorem filter_map_isEmpty {α β : Type} (l : List α) (p : α → Bool) (f : α → β) :
    ((l.filter p).map f).isEmpty = !l.any p := by
  induction l with
  | nil => rfl
  | cons a l ih =>
    by_cases h : p a
    · simp [List.filter, h]
    · simp [List.filter, h]
      simpa using ih

/-- (G) holds of every model answer, unconditionally. -/
theorem globalsOk_observe (pt : PTree) (g : Globals) (m : String) (us : List Part) :
    globalsOk g (observe pt g m us) = true := by
  unfold globalsOk observe
  simp only [getRemedies, getDiagnoses, shouldDiagnose, beq_self_eq_true, Bool.true_and]
  cases hp : (select pt m us).policy with
  | none => simp
  | some pol =>
    have := filter_map_isEmpty pol.diags (·.enabled) id
    simp only [List.map_id] at this
    simp [this]


/-! ### order independence -/

theorem cfgBoundaryMix_false {es : List Endpoint} (h : cfgBoundaryMix es = false) :
    ∀ e1 ∈ es, ∀ e2 ∈ es, flagsOK e1.parts e2.parts = true := by
  intro e1 h1 e2 h2
  unfold cfgBoundaryMix at h
  rw [List.any_eq_false] at h
  have := h e2 h2
  simp only [Bool.not_eq_true] at this
  unfold boundaryMix at this
  rw [List.any_eq_false] at this
  have := this e1 h1
  simpa using this

theorem tree_partsOK {pt : PTree} {es : List Endpoint} (hinv : Inv pt es)
    (hfl : ∀ e1 ∈ es, ∀ e2 ∈ es, flagsOK e1.parts e2.parts = true) : PartsOK pt.tree := by
  intro ⟨q1, v1⟩ h1 ⟨q2, v2⟩ h2
  obtain ⟨e1, he1, hq1⟩ := hinv.dom h1
  obtain ⟨e2, he2, hq2⟩ := hinv.dom h2
  apply partsAgree_of _ _ (hinv.names _ h1 _ h2)
  simp only [hq1, hq2]
  exact hostsAgree_of_flagsOK _ _ (hfl e1 he1 e2 he2)

/-- Entries with the same pattern carry the same value. -/
theorem tree_rcoh {pt : PTree} {es : List Endpoint} (hinv : Inv pt es) : RCoh pt.tree := by
  have hwl := hinv.allwl
  intro ⟨q1, v1⟩ h1 ⟨q2, v2⟩ h2 heq
  simp only at heq
  subst heq
  obtain ⟨p, i, hi, hq, hv⟩ := hinv.tdom _ _ h1
  obtain ⟨p', i', hi', hq', hv'⟩ := hinv.tdom _ _ h2
  obtain ⟨_, e, he, hep⟩ := hinv.ixdom _ _ hi
  obtain ⟨_, e', he', hep'⟩ := hinv.ixdom _ _ hi'
  have hp : trunc p = p := by rw [← hep]; exact trunc_of_wildLast _ (hwl e he)
  have hp' : trunc p' = p' := by rw [← hep']; exact trunc_of_wildLast _ (hwl e' he')
  have hpp : p = p' := by rw [← hp, ← hp', ← hq, hq']
  subst hpp
  have := hinv.ixfun _ _ _ hi hi'
  subst this
  simp only
  rw [hv, hv']

/-- The policy an index stands for, per method. -/
def polAt (store : List PMap) (ov : Option Nat) (m : String) : Option Policy :=
  match ov with
  | some i => PMap.find? (store.getD i []) m
  | none => none

/-- Two policies made of the same declarations (in possibly different orders), or both absent. -/
def PolRel : Option Policy → Option Policy → Prop
  | none, none => True
  | some p, some p' => p.srcs.Perm p'.srcs
  | _, _ => False

def ValRel (pt pt' : PTree) (ov ov' : Option Nat) : Prop :=
  (ov = none ↔ ov' = none) ∧ ∀ m, PolRel (polAt pt.store ov m) (polAt pt'.store ov' m)

theorem polOf_perm {es es' : List Endpoint} (hp : es.Perm es') (m : String) (p : Pattern) :
    PolRel (polOf es m p) (polOf es' m p) := by
  have hg : (group es m p).Perm (group es' m p) := hp.filter _
  unfold polOf
  rw [hg.isEmpty_eq]
  by_cases he : (group es' m p).isEmpty
  · simp [he, PolRel]
  · simp [he, PolRel, hg]

theorem tree_sim {pt pt' : PTree} {es es' : List Endpoint} (hinv : Inv pt es) (hinv' : Inv pt' es')
    (hp : es.Perm es') : Sim (ValRel pt pt') pt.tree pt'.tree := by
  have half : ∀ {pt pt' : PTree} {es es' : List Endpoint}, Inv pt es → Inv pt' es' → es.Perm es' →
      ∀ q ov, (q, ov) ∈ pt.tree → ∃ ov', (q, ov') ∈ pt'.tree ∧ (ov = none ↔ ov' = none) ∧
        ∀ m, PolRel (polAt pt.store ov m) (polAt pt'.store ov' m) := by
    intro pt pt' es es' hinv hinv' hp q ov hq
    obtain ⟨p, i, hi, hqp, hv⟩ := hinv.tdom _ _ hq
    obtain ⟨_, e, he, hep⟩ := hinv.ixdom _ _ hi
    obtain ⟨i', hi'⟩ := hinv'.ixcov e (hp.mem_iff.mp he)
    rw [hep] at hi'
    refine ⟨entryVal p i', by rw [hqp]; exact hinv'.tcov _ _ hi', ?_, ?_⟩
    · rw [hv]; unfold entryVal; split <;> simp
    · intro m
      rw [hv]
      unfold entryVal
      by_cases hlt : (trunc p).length < p.length
      · simp [hlt, polAt, PolRel]
      · simp only [hlt, if_false, polAt]
        rw [hinv.bind _ _ hi m, hinv'.bind _ _ hi' m]
        exact polOf_perm hp m p
  constructor
  · intro q ov hq
    obtain ⟨ov', h1, h2, h3⟩ := half hinv hinv' hp q ov hq
    exact ⟨ov', h1, h2, h3⟩
  · intro q ov' hq'
    obtain ⟨ov, h1, h2, h3⟩ := half hinv' hinv hp.symm q ov' hq'
    refine ⟨ov, h1, h2.symm, ?_⟩
    intro m
    have := h3 m
    cases ha : polAt pt'.store ov' m <;> cases hb : polAt pt.store ov m <;> simp_all [PolRel]
    exact this.symm

/-- Two builds of the same declarations (any orders): same lookup outcome, normalised URL and parameters;
    the selected policies consist of the same declarations. -/
theorem select_perm {pt pt' : PTree} {es es' : List Endpoint} (hinv : Inv pt es) (hinv' : Inv pt' es')
    (hp : es.Perm es') (hfl : cfgBoundaryMix es = false)
    (m : String) (us : List Part) :
    (select pt m us).hasValue = (select pt' m us).hasValue ∧
    PolRel (select pt m us).policy (select pt' m us).policy ∧
    (select pt m us).norm = (select pt' m us).norm ∧
    (select pt m us).params = (select pt' m us).params := by
  have hR0 : ValRel pt pt' none none := ⟨Iff.rfl, fun _ => by simp [polAt, PolRel]⟩
  obtain ⟨_, hval, hpar, hnorm⟩ := lookGo_sim (R := ValRel pt pt') hR0 (fun ov ov' h => h.1) us
    pt.tree pt'.tree none none [] [] (tree_sim hinv hinv' hp) (tree_partsOK hinv (cfgBoundaryMix_false hfl))
    hinv.wl (tree_rcoh hinv) (tree_rcoh hinv') (.inl ⟨rfl, rfl⟩)
  have hl : lookGo pt.tree none [] [] us = lookupParts pt.tree us := rfl
  have hl' : lookGo pt'.tree none [] [] us = lookupParts pt'.tree us := rfl
  rw [hl, hl'] at hval hpar hnorm
  cases hv : (lookupParts pt.tree us).value with
  | none =>
    have hv' : (lookupParts pt'.tree us).value = none := by
      rw [hv] at hval; exact hval.1.mp rfl
    rw [select_none hv, select_none hv']
    exact ⟨rfl, by simp [PolRel], hnorm, hpar⟩
  | some i =>
    cases hv' : (lookupParts pt'.tree us).value with
    | none => rw [hv, hv'] at hval; have := hval.1.mpr rfl; simp at this
    | some i' =>
      rw [select_some hv, select_some hv']
      rw [hv, hv'] at hval
      refine ⟨rfl, ?_, hnorm, hpar⟩
      have := hval.2 m
      simpa [polAt] using this


theorem sameAnswer_of_select {pt pt' : PTree} (g : Globals) (m : String) (us : List Part)
    (h : (select pt m us).hasValue = (select pt' m us).hasValue ∧
      PolRel (select pt m us).policy (select pt' m us).policy ∧
      (select pt m us).norm = (select pt' m us).norm ∧
      (select pt m us).params = (select pt' m us).params) :
    sameAnswer (observe pt g m us) (observe pt' g m us) = true := by
  obtain ⟨h1, h2, h3, h4⟩ := h
  unfold sameAnswer observe
  simp only [getRemedies, getDiagnoses, shouldDiagnose, h1, h3, h4, beq_self_eq_true, Bool.true_and,
    Bool.and_true, Bool.and_eq_true, beq_iff_eq]
  cases hp : (select pt m us).policy with
  | none =>
    cases hp' : (select pt' m us).policy with
    | none => simp [List.isPerm_iff]
    | some p' => rw [hp, hp'] at h2; simp [PolRel] at h2
  | some p =>
    cases hp' : (select pt' m us).policy with
    | none => rw [hp, hp'] at h2; simp [PolRel] at h2
    | some p' =>
      rw [hp, hp'] at h2
      simp only [PolRel] at h2
      have hr : p.remedies.Perm p'.remedies := h2.flatMap_right _
      have hd : p.diags.Perm p'.diags := h2.flatMap_right _
      simp only [Option.isSome_some, true_and, Option.map_some]
      refine ⟨⟨?_, ?_⟩, ?_⟩
      · exact List.isPerm_iff.mpr ((hr.filter _).map _)
      · exact List.isPerm_iff.mpr ((hd.filter _).map _)
      · rw [hd.any_eq]


/-- The Spec's expected parameter map is the map the walk along the pattern builds. -/
theorem expectedFrom_eq (p : Pattern) : ∀ (us : Url) (ps : List (String × String)),
    expectedFrom ps p us = bindParams ps p us := by
  induction p with
  | nil => intro us ps; simp [expectedFrom, bindParams]
  | cons a p ih =>
    intro us ps
    cases us with
    | nil => simp [expectedFrom, bindParams]
    | cons u us =>
      cases hs : a.seg <;> simp [expectedFrom, bindParams, hs, ih]

/-! ### most specific, with the precise no-backtracking exception -/

/-- patterns of a residual list -/
def pats (res : Res V) : List Pattern := res.map (·.1)

theorem mem_stepP {k : Key} {ps : List Pattern} {rest : Pattern} :
    rest ∈ stepP k ps ↔ ∃ a, (a :: rest) ∈ ps ∧ a.seg.key = k := by
  unfold stepP
  rw [List.mem_filterMap]
  constructor
  · rintro ⟨p, hp, h⟩
    cases p with
    | nil => simp at h
    | cons a r =>
      by_cases hk : a.seg.key = k
      · simp [hk] at h; subst h; exact ⟨a, hp, hk⟩
      · simp [hk] at h
  · rintro ⟨a, hp, hk⟩
    exact ⟨a :: rest, hp, by simp [hk]⟩

theorem shadowed_mono (q : Pattern) : ∀ (A B : List Pattern) (us : Url),
    (∀ p ∈ A, p ∈ B) → shadowed A q us = true → shadowed B q us = true := by
  induction q with
  | nil => intro A B us _ h; simp [shadowed] at h
  | cons a q ih =>
    intro A B us hsub h
    cases us with
    | nil => simp [shadowed] at h
    | cons u us =>
      simp only [shadowed, Bool.or_eq_true, Bool.and_eq_true] at h ⊢
      rcases h with ⟨hpl, hany⟩ | h
      · left
        refine ⟨hpl, ?_⟩
        rw [List.any_eq_true] at hany ⊢
        obtain ⟨r, hr, hb⟩ := hany
        exact ⟨r, hsub r hr, hb⟩
      · right
        apply ih _ _ us _ h
        intro p hp
        obtain ⟨x, hx, hk⟩ := mem_stepP.mp hp
        exact mem_stepP.mpr ⟨x, hsub _ hx, hk⟩

theorem pats_step_sub (k : Key) (res : Res V) : ∀ p ∈ stepP k (pats res), p ∈ pats (step k res) := by
  intro p hp
  obtain ⟨a, ha, hk⟩ := mem_stepP.mp hp
  unfold pats at ha ⊢
  rw [List.mem_map] at ha ⊢
  obtain ⟨⟨ps, v⟩, hm, heq⟩ := ha
  simp only at heq
  subst heq
  exact ⟨(p, v), mem_step.mpr ⟨a, hm, hk⟩, rfl⟩

theorem pats_step_sup (k : Key) (res : Res V) : ∀ p ∈ pats (step k res), p ∈ stepP k (pats res) := by
  intro p hp
  unfold pats at hp
  rw [List.mem_map] at hp
  obtain ⟨⟨ps, v⟩, hm, heq⟩ := hp
  simp only at heq
  subst heq
  obtain ⟨a, ha, hk⟩ := mem_step.mp hm
  exact mem_stepP.mpr ⟨a, List.mem_map.mpr ⟨(a :: ps, v), ha, rfl⟩, hk⟩

/-- shadowing seen from one node down: lifting along the edge the walk took -/
theorem shadowed_lift {res : Res V} {a : Part} {rest : Pattern} {u : Part} {us : Url}
    (h : shadowed (pats (step a.seg.key res)) rest us = true) :
    shadowed (pats res) (a :: rest) (u :: us) = true := by
  simp only [shadowed, Bool.or_eq_true]
  right
  exact shadowed_mono rest _ _ us (pats_step_sup _ res) h

theorem shadowed_here {res : Res V} {a : Part} {rest : Pattern} {u : Part} {us : Url}
    (ha : a.seg.isPar = true) {b : Part} {r : List Part} {v : Option V} (hb : (b :: r, v) ∈ res)
    {s : String} (hbs : b.seg = .lit s) (hus : u.seg = .lit s) :
    shadowed (pats res) (a :: rest) (u :: us) = true := by
  simp only [shadowed, Bool.or_eq_true, Bool.and_eq_true]
  left
  refine ⟨⟨ha, by simp [hus, segIsLit]⟩, ?_⟩
  rw [List.any_eq_true]
  exact ⟨b :: r, List.mem_map.mpr ⟨(b :: r, v), hb, rfl⟩, by simp [hbs, hus]⟩

/-- The greedy, non-backtracking walk, precisely: the selected entry is at least as specific as every valued
    entry that matches, except entries passed over for the selected `*` that are SHADOWED; and when the walk
    falls back to a wildcard met higher up, every valued entry below this node that matches is shadowed. -/
theorem lookGo_most_specific_sh (us : List Part) :
    ∀ (res : Res V) (fw : Option (Fallback V)) (params : List (String × String)) (path : List Part),
    WildLast res → Aligned res us →
    (lookGo res fw params path us).isMatch = true →
    (∃ q, (q, (lookGo res fw params path us).value) ∈ res ∧ matchesLax q us = true ∧
      ∀ e ∈ res, e.2 ≠ none → matchesLax e.1 us = true →
        specLE e.1 q = true ∨ (passedOver q e.1 = true ∧ shadowed (pats res) e.1 us = true)) ∨
    ((∃ f, fw = some f ∧ (lookGo res fw params path us).value = f.value) ∧
      ∀ e ∈ res, e.2 ≠ none → matchesLax e.1 us = true → shadowed (pats res) e.1 us = true) := by
  induction us with
  | nil =>
    intro res fw params path hwl _ h
    rcases lookGo_nil res fw params path with ⟨v', hn, heq⟩ | ⟨hnv, ⟨wv, hh, hw, heq⟩ | ⟨hnw, ⟨f, hf, heq⟩ | ⟨_, heq⟩⟩⟩
    · rw [heq]
      refine .inl ⟨[], nodeValue_some hn, by simp [matchesLax, matchesG], ?_⟩
      intro ⟨q, ov⟩ _ _ _
      cases q <;> exact .inl rfl
    · rw [heq]
      obtain ⟨w, hwm, hws, _⟩ := wildNode_entry hwl hw
      refine .inl ⟨[w], hwm, by simp [matchesLax, matchesG, hws], ?_⟩
      intro ⟨q, ov⟩ hmem hov hm
      cases q with
      | nil => exact absurd (nodeValue_none hnv hmem) hov
      | cons a rest =>
        have hm' : matchesLax (a :: rest) [] = true := hm
        cases has : a.seg with
        | wild =>
          have := wildLast_wild_head (hwl _ hmem) has
          subst this
          left; simp [specLE, has, hws]
        | lit s => simp [matchesLax, matchesG, has] at hm'
        | par n => simp [matchesLax, matchesG, has] at hm'
    · rw [heq]
      refine .inr ⟨⟨f, hf, rfl⟩, ?_⟩
      intro ⟨q, ov⟩ hmem hov hm
      exfalso
      cases q with
      | nil => exact hov (nodeValue_none hnv hmem)
      | cons a rest =>
        have hm' : matchesLax (a :: rest) [] = true := hm
        cases has : a.seg with
        | wild => exact wildNode?_none hnw hmem has
        | lit s => simp [matchesLax, matchesG, has] at hm'
        | par n => simp [matchesLax, matchesG, has] at hm'
    · rw [heq] at h; simp [LookupResult.none] at h
  | cons u us ih =>
    intro res fw params path hwl hal h
    have hconst : ∀ (a : Part) (rest : List Part) (v : Option V) (s : String),
        (a :: rest, v) ∈ res → a.seg = .lit s → u.seg = .lit s → constFlag? res s = some u.host := by
      intro a rest v s hmem has hus
      cases hc : constFlag? res s with
      | none => exact absurd has (constFlag?_none hc hmem)
      | some f =>
        obtain ⟨p0, r0, v0, hm0, hp0, hf0⟩ := constFlag?_some hc
        have := hal.head hm0 (.inl (.inl ⟨s, hp0, hus⟩))
        rw [← hf0, this]
    -- a wildcard entry at this node is always recorded as the fallback (flags agree under `Aligned`)
    have hwildrec : ∀ (w : Part) (r : List Part) (v : Option V), (w :: r, v) ∈ res → w.seg = .wild →
        ∃ wv, wildNode? res = some (wv, u.host) := by
      intro w r v hm hws
      cases hwn : wildNode? res with
      | none => exact absurd hws (wildNode?_none hwn hm)
      | some wf =>
        obtain ⟨wv, f⟩ := wf
        obtain ⟨w0, r0, hm0, hw0, hf0⟩ := wildNode?_some hwn
        have := hal.head hm0 (.inr hw0)
        exact ⟨wv, by rw [← hf0, this]⟩
    -- the answer comes from the fallback computed at this node
    have hfw : ∀ (val : Option V), (∃ f, nextFw res fw params path u = some f ∧ val = f.value) →
        (∀ e ∈ res, e.2 ≠ none → matchesLax e.1 (u :: us) = true →
          (∃ w, e.1 = [w] ∧ w.seg = .wild) ∨ shadowed (pats res) e.1 (u :: us) = true) →
        (∃ q, (q, val) ∈ res ∧ matchesLax q (u :: us) = true ∧
          ∀ e ∈ res, e.2 ≠ none → matchesLax e.1 (u :: us) = true →
            specLE e.1 q = true ∨ (passedOver q e.1 = true ∧ shadowed (pats res) e.1 (u :: us) = true)) ∨
        ((∃ f, fw = some f ∧ val = f.value) ∧
          ∀ e ∈ res, e.2 ≠ none → matchesLax e.1 (u :: us) = true → shadowed (pats res) e.1 (u :: us) = true) := by
      rintro val ⟨f, hf, hv⟩ hcls
      have hrec : ∀ wv, wildNode? res = some (wv, u.host) →
          nextFw res fw params path u = some ⟨wv, params, path ++ [⟨u.host, .wild⟩]⟩ := by
        intro wv hw; unfold nextFw; rw [hw]; simp
      by_cases hex : ∃ wv, wildNode? res = some (wv, u.host)
      · obtain ⟨wv, hw⟩ := hex
        rw [hrec wv hw] at hf; simp at hf; subst hf
        simp at hv; subst hv
        obtain ⟨w, hwm, hws, _⟩ := wildNode_entry hwl hw
        refine .inl ⟨[w], hwm, by simp [matchesLax, matchesG, hws], ?_⟩
        intro e hmem hov hm
        rcases hcls e hmem hov hm with ⟨w', hew, hws'⟩ | hsh
        · left; rw [hew]; simp [specLE, hws, hws']
        · obtain ⟨q, ov⟩ := e
          cases q with
          | nil => simp [matchesLax, matchesG] at hm
          | cons a rest =>
            by_cases has : a.seg = .wild
            · have := wildLast_wild_head (hwl _ hmem) has
              subst this
              left; simp [specLE, has, hws]
            · right; exact ⟨by simp [passedOver, hws, has], hsh⟩
      · have hnf : nextFw res fw params path u = fw := by
          unfold nextFw
          cases hwn : wildNode? res with
          | none => rfl
          | some wf =>
            obtain ⟨wv, hh⟩ := wf
            by_cases hhu : hh = u.host
            · exact absurd ⟨wv, by rw [hwn, hhu]⟩ hex
            · simp [hhu]
        rw [hnf] at hf
        refine .inr ⟨⟨f, hf, hv⟩, ?_⟩
        intro e hmem hov hm
        rcases hcls e hmem hov hm with ⟨w, hew, hws⟩ | hsh
        · exfalso
          obtain ⟨q, ov⟩ := e
          simp only at hew
          subst hew
          exact hex (hwildrec w [] ov hmem hws)
        · exact hsh
    rcases lookGo_cons res fw params path u us with ⟨s, hs, hc, heq⟩ | ⟨hnc, ⟨n, hpc, hne2, heq⟩ | ⟨hnp, heq⟩⟩
    · -- constant child
      rw [heq] at h ⊢
      have hk : ∀ p : Part, p.seg.key = Key.lit s → trieStep p u := fun p hp => trieStep_lit hp hs
      obtain ⟨b0, r0, v0, hb0, hb0s, _⟩ := constFlag?_some hc
      -- classification of the matching entries at this node, given what holds one level down
      have hcls : (∀ e ∈ step (Key.lit s) res, e.2 ≠ none → matchesLax e.1 us = true →
            shadowed (pats (step (Key.lit s) res)) e.1 us = true) →
          ∀ e ∈ res, e.2 ≠ none → matchesLax e.1 (u :: us) = true →
            (∃ w, e.1 = [w] ∧ w.seg = .wild) ∨ shadowed (pats res) e.1 (u :: us) = true := by
        intro hdown ⟨q, ov⟩ hmem hov hm
        cases q with
        | nil => simp [matchesLax, matchesG] at hm
        | cons a rest =>
          rcases matchesLax_cons_inv hm with ⟨haw, hr⟩ | ⟨_, hacc, hmr⟩
          · subst hr; exact .inl ⟨a, rfl, haw⟩
          · right
            cases has : a.seg with
            | wild => rw [has] at hacc; simp [segAccepts] at hacc
            | par n => exact shadowed_here (by simp [has, Seg.isPar]) hb0 hb0s hs
            | lit s' =>
              rw [has, hs] at hacc
              simp [segAccepts] at hacc
              subst hacc
              have hak : a.seg.key = Key.lit s := by rw [has]; rfl
              have := hdown (rest, ov) (mem_step.mpr ⟨a, hmem, hak⟩) hov hmr
              rw [← hak] at this
              exact shadowed_lift this
      rcases ih _ _ params (path ++ [u]) (hwl.step _) (hal.step hk) h with ⟨q', hq', hm', hall⟩ | ⟨hr, hdown⟩
      · left
        obtain ⟨p, hp, hpk⟩ := mem_step.mp hq'
        have hps : p.seg = .lit s := key_eq_lit hpk
        refine ⟨p :: q', hp, by simp [matchesLax, matchesG, hps, segAccepts, hs]; exact hm', ?_⟩
        intro ⟨q, ov⟩ hmem hov hm
        cases q with
        | nil => simp [matchesLax, matchesG] at hm
        | cons a rest =>
          rcases matchesLax_cons_inv hm with ⟨haw, _⟩ | ⟨_, hacc, hmr⟩
          · left; simp [specLE, haw, hps, Seg.rank]
          · cases has : a.seg with
            | wild => left; simp [specLE, has, hps, Seg.rank]
            | par n => left; simp [specLE, has, hps, Seg.rank]
            | lit s' =>
              rw [has, hs] at hacc
              simp [segAccepts] at hacc
              subst hacc
              have hak : a.seg.key = Key.lit s := by rw [has]; rfl
              have hrk : Seg.rank a.seg = Seg.rank p.seg := by rw [has, hps]
              rcases hall (rest, ov) (mem_step.mpr ⟨a, hmem, hak⟩) hov hmr with h1 | ⟨h1, h2⟩
              · left; simp [specLE, hrk, h1]
              · right
                refine ⟨?_, by rw [← hak] at h2; exact shadowed_lift h2⟩
                cases q' with
                | nil => simp [passedOver] at h1
                | cons x q'' => simp [passedOver, hak, hpk, h1]
      · exact hfw _ hr (hcls hdown)
    · -- parametric child
      rw [heq] at h ⊢
      have hk : ∀ p : Part, p.seg.key = Key.par → trieStep p u := fun p hp => trieStep_par hp
      have hnolit : ∀ (a : Part) (rest : List Part) (v : Option V) (s : String),
          (a :: rest, v) ∈ res → a.seg = .lit s → u.seg ≠ .lit s := by
        intro a rest v s hmem has hus
        exact hnc s hus (hconst a rest v s hmem has hus)
      have hcls : (∀ e ∈ step Key.par res, e.2 ≠ none → matchesLax e.1 us = true →
            shadowed (pats (step Key.par res)) e.1 us = true) →
          ∀ e ∈ res, e.2 ≠ none → matchesLax e.1 (u :: us) = true →
            (∃ w, e.1 = [w] ∧ w.seg = .wild) ∨ shadowed (pats res) e.1 (u :: us) = true := by
        intro hdown ⟨q, ov⟩ hmem hov hm
        cases q with
        | nil => simp [matchesLax, matchesG] at hm
        | cons a rest =>
          rcases matchesLax_cons_inv hm with ⟨haw, hr⟩ | ⟨_, hacc, hmr⟩
          · subst hr; exact .inl ⟨a, rfl, haw⟩
          · right
            cases has : a.seg with
            | wild => rw [has] at hacc; simp [segAccepts] at hacc
            | lit s' =>
              rw [has] at hacc
              simp [segAccepts] at hacc
              exact absurd hacc (hnolit a rest ov s' hmem has)
            | par m =>
              have hak : a.seg.key = Key.par := by rw [has]; rfl
              have := hdown (rest, ov) (mem_step.mpr ⟨a, hmem, hak⟩) hov hmr
              rw [← hak] at this
              exact shadowed_lift this
      rcases ih _ _ _ (path ++ [⟨u.host, .par n⟩]) (hwl.step _) (hal.step hk) h with ⟨q', hq', hm', hall⟩ | ⟨hr, hdown⟩
      · left
        obtain ⟨p, hp, hpk⟩ := mem_step.mp hq'
        obtain ⟨n', hps⟩ := key_eq_par hpk
        refine ⟨p :: q', hp, by simp [matchesLax, matchesG, hps, segAccepts, hne2]; exact hm', ?_⟩
        intro ⟨q, ov⟩ hmem hov hm
        cases q with
        | nil => simp [matchesLax, matchesG] at hm
        | cons a rest =>
          rcases matchesLax_cons_inv hm with ⟨haw, _⟩ | ⟨_, hacc, hmr⟩
          · left; simp [specLE, haw, hps, Seg.rank]
          · cases has : a.seg with
            | wild => left; simp [specLE, has, hps, Seg.rank]
            | lit s' =>
              rw [has] at hacc
              simp [segAccepts] at hacc
              exact absurd hacc (hnolit a rest ov s' hmem has)
            | par m =>
              have hak : a.seg.key = Key.par := by rw [has]; rfl
              have hr : Seg.rank a.seg = Seg.rank p.seg := by rw [has, hps]; rfl
              rcases hall (rest, ov) (mem_step.mpr ⟨a, hmem, hak⟩) hov hmr with h1 | ⟨h1, h2⟩
              · left; simp [specLE, hr, h1]
              · right
                refine ⟨?_, by rw [← hak] at h2; exact shadowed_lift h2⟩
                cases q' with
                | nil => simp [passedOver] at h1
                | cons x q'' => simp [passedOver, hak, hpk, h1]
      · exact hfw _ hr (hcls hdown)
    · -- stuck
      rw [heq] at h ⊢
      obtain ⟨f, hf, hst⟩ := stuck_match h
      rw [hst]
      apply hfw _ ⟨f, hf, rfl⟩
      intro ⟨q, ov⟩ hmem hov hm
      cases q with
      | nil => simp [matchesLax, matchesG] at hm
      | cons a rest =>
        rcases matchesLax_cons_inv hm with ⟨haw, hr⟩ | ⟨_, hacc, hmr⟩
        · subst hr; exact .inl ⟨a, rfl, haw⟩
        · exfalso
          cases has : a.seg with
          | wild => rw [has] at hacc; simp [segAccepts] at hacc
          | lit s' =>
            rw [has] at hacc
            simp [segAccepts] at hacc
            exact hnc s' hacc (hconst a rest ov s' hmem has hacc)
          | par m =>
            rw [has] at hacc
            simp [segAccepts] at hacc
            cases hpc : parChild? res with
            | none => have := parChild?_none hpc hmem; simp [has, Seg.isPar] at this
            | some nf =>
              obtain ⟨n0, f0⟩ := nf
              obtain ⟨p0, r0, v0, hm0, hp0, hf0⟩ := parChild?_some hpc
              have hh := hal.head hm0 (.inl (.inr (by simp [hp0, Seg.isPar])))
              have := hnp n0 (by rw [hpc, ← hf0, hh])
              exact hacc this


theorem most_specific_of_inv {pt : PTree} {es : List Endpoint} (hinv : Inv pt es) (us : List Part)
    (hfl : boundaryMix es us = false)
    {q : Pattern} {i : Nat} (hl : (lookupParts pt.tree us).value = some i) (hq : (q, some i) ∈ pt.tree)
    {e : Endpoint} (hep : e.parts = q) : mostSpecificFor es us e = true := by
  have hmatch : (lookupParts pt.tree us).isMatch = true := lookGo_value_isMatch us pt.tree none [] [] i hl
  rcases lookGo_most_specific_sh us pt.tree none [] [] hinv.wl (tree_aligned hinv hfl) hmatch with
    ⟨q', hq', _, hall⟩ | ⟨⟨f, hf, _⟩, _⟩
  · have hl' : (lookGo pt.tree none [] [] us).value = some i := hl
    rw [hl'] at hq'
    have := hinv.entry_uniq hq hq'
    subst this
    have hsub : ∀ p ∈ pats pt.tree, p ∈ es.map (·.parts) := by
      intro p hp
      unfold pats at hp
      rw [List.mem_map] at hp
      obtain ⟨⟨p', ov⟩, hm, heq⟩ := hp
      simp only at heq
      subst heq
      obtain ⟨x, hx, hpx⟩ := hinv.dom hm
      rw [hpx, trunc_of_wildLast _ (hinv.allwl x hx)]
      exact List.mem_map.mpr ⟨x, hx, rfl⟩
    unfold mostSpecificFor
    rw [List.all_eq_true]
    intro e' he'
    cases hm : «matches» e'.parts us with
    | false => simp
    | true =>
      have hlax := lax_of_matches _ _ hm
      obtain ⟨j, hj⟩ := hinv.cov he' (wildLast_of_matchesLax _ _ hlax)
      rw [hep]
      rcases hall _ hj (by simp) hlax with h1 | ⟨h1, h2⟩
      · simp [h1]
      · have := shadowed_mono _ _ _ us hsub h2
        simp [h1, this]
  · simp at hf

/-- Every remedy the dispatcher selects for `(m, u)` is entitled to it: an enabled global one, or an enabled
    remedy of an endpoint declared for `m` whose pattern matches `u`. -/
theorem selRemedies_entitled {pt : PTree} {es : List Endpoint} (hinv : Inv pt es) {g : Globals} {m : String}
    {u : List Part} (hF13c : boundaryMix es u = false) (r : Remedy) (hr : r ∈ selRemedies pt g m u) :
    dispOk es g m u r.name = true := by
  unfold dispOk
  rw [Bool.or_eq_true]
  unfold selRemedies at hr
  rcases List.mem_append.mp hr with h | h
  · right
    cases hp : (select pt m u).policy with
    | none => simp [hp] at h
    | some pol =>
      obtain ⟨q, i, e, _, hq, hm, hpol, _, _, _, _⟩ := select_char hinv hp
      simp only [hp, hpol, Policy.remedies, List.mem_filter, List.mem_flatMap] at h
      obtain ⟨⟨x, hx, hrx⟩, hen⟩ := h
      obtain ⟨hx1, hx2, hx3⟩ := mem_group.mp hx
      rw [List.any_eq_true]
      refine ⟨x, hx1, ?_⟩
      have hmatch : «matches» x.parts u = true := by
        rw [hx3]
        apply matches_of_lax q u hm
        have hb := hF13c
        unfold boundaryMix at hb
        rw [List.any_eq_false] at hb
        have := hb x hx1
        rw [hx3] at this
        simpa using this
      simp only [hx2, hmatch, beq_self_eq_true, Bool.true_and, List.any_eq_true]
      exact ⟨r, hrx, by simp [hen]⟩
  · left
    simp only [List.mem_filter] at h
    rw [List.any_eq_true]
    exact ⟨r, h.1, by simp [h.2]⟩

end LunarVerif.C13
