import LunarVerif.Spec.C13
import LunarVerif.Proofs.UrlTree
/-! Helper lemmas for C13: the invariant of `BuildEndpointPolicyTree` outside the cross-match class. -/
namespace LunarVerif.C13
open LunarVerif.UrlTree LunarVerif.UrlMatch

/-! ### policy maps -/

theorem PMap.mem_of_find? {mp : PMap} {m : String} {p : Policy} (h : PMap.find? mp m = some p) :
    (m, p) ∈ mp := by
  induction mp with
  | nil => simp [PMap.find?] at h
  | cons kp rest ih =>
    obtain ⟨k, q⟩ := kp
    unfold PMap.find? at h
    by_cases hk : k = m
    · simp [hk] at h; subst h; subst hk; simp
    · simp [hk] at h; exact List.mem_cons_of_mem _ (ih h)

theorem PMap.mem_set {mp : PMap} {k m : String} {p pol : Policy} (h : (m, pol) ∈ PMap.set mp k p) :
    (m = k ∧ pol = p) ∨ (m, pol) ∈ mp := by
  induction mp with
  | nil => simp [PMap.set] at h; exact .inl h
  | cons kq rest ih =>
    obtain ⟨k', q⟩ := kq
    unfold PMap.set at h
    by_cases hk : k' = k
    · simp [hk] at h
      rcases h with h | h
      · exact .inl h
      · exact .inr (List.mem_cons_of_mem _ h)
    · simp [hk] at h
      rcases h with h | h
      · exact .inr (by simp [h])
      · rcases ih h with h | h
        · exact .inl h
        · exact .inr (List.mem_cons_of_mem _ h)

/-! ### the build invariant -/

/-- What holds of the tree and the store after the endpoints `done` were added, provided no declared URL
    was matched by an earlier declared different pattern. -/
structure Inv (pt : PTree) (done : List Endpoint) : Prop where
  wl : WildLast pt.tree
  idx : ∀ q i, (q, some i) ∈ pt.tree → i < pt.store.length
  src : ∀ q i, (q, some i) ∈ pt.tree → ∀ m pol, (m, pol) ∈ pt.store.getD i [] →
    pol.src.parts = q ∧ pol.src ∈ done ∧ pol.src.method = m
  inj : ∀ q q' i, (q, some i) ∈ pt.tree → (q', some i) ∈ pt.tree → q = q'
  dom : ∀ q ov, (q, ov) ∈ pt.tree → ∃ e ∈ done, q = trunc e.parts ∧ (ov ≠ none → q = e.parts)
  cov : ∀ e ∈ done, ∃ ov, (trunc e.parts, ov) ∈ pt.tree

theorem inv_empty : Inv .empty [] := by
  constructor <;> simp [PTree.empty, WildLast]

/-- No earlier declared different pattern (laxly) matches the URL of `e`. -/
def Fresh (done : List Endpoint) (e : Endpoint) : Prop :=
  ∀ e' ∈ done, e'.parts ≠ e.parts → matchesLax e'.parts e.parts = false

theorem getD_set_eq {α : Type} (l : List α) (i : Nat) (a d : α) (h : i < l.length) :
    (l.set i a).getD i d = a := by
  simp [List.getD, h]

theorem getD_set_ne {α : Type} (l : List α) (i j : Nat) (a d : α) (h : i ≠ j) :
    (l.set i a).getD j d = l.getD j d := by
  simp [List.getD, List.getElem?_set_ne h]

theorem mem_append_new {t : Tree Nat} {ps : List Part} {i : Nat} {q' : List Part} {j : Nat}
    (h : (q', some j) ∈ t ++ [(trunc ps, if (trunc ps).length < ps.length then none else some i)]) :
    (q', some j) ∈ t ∨ (q' = ps ∧ j = i) := by
  rcases List.mem_append.mp h with hm' | hm'
  · exact .inl hm'
  · simp only [List.mem_singleton, Prod.mk.injEq] at hm'
    obtain ⟨h1, h2⟩ := hm'
    by_cases hlen : (trunc ps).length < ps.length
    · rw [if_pos hlen] at h2; simp at h2
    · rw [if_neg hlen] at h2
      simp only [Option.some.injEq] at h2
      exact .inr ⟨by rw [h1]; exact trunc_eq_of_length _ hlen, h2⟩

theorem dom_append_new {t : Tree Nat} {done : List Endpoint} {e : Endpoint} {i : Nat}
    (hdom : ∀ q ov, (q, ov) ∈ t → ∃ e ∈ done, q = trunc e.parts ∧ (ov ≠ none → q = e.parts)) :
    ∀ q ov, (q, ov) ∈ t ++ [(trunc e.parts, if (trunc e.parts).length < e.parts.length then none else some i)] →
      ∃ x ∈ done ++ [e], q = trunc x.parts ∧ (ov ≠ none → q = x.parts) := by
  intro q' ov hmem
  rcases List.mem_append.mp hmem with hm' | hm'
  · obtain ⟨x, hx, h1, h2⟩ := hdom q' ov hm'
    exact ⟨x, by simp [hx], h1, h2⟩
  · simp only [List.mem_singleton, Prod.mk.injEq] at hm'
    obtain ⟨h1, h2⟩ := hm'
    refine ⟨e, by simp, h1, ?_⟩
    intro hov
    rw [h1]
    apply trunc_eq_of_length
    intro hlt
    rw [if_pos hlt] at h2
    exact hov h2

theorem cov_append_new {t : Tree Nat} {done : List Endpoint} {e : Endpoint} {ov' : Option Nat}
    (hcov : ∀ e ∈ done, ∃ ov, (trunc e.parts, ov) ∈ t) :
    ∀ x ∈ done ++ [e], ∃ ov, (trunc x.parts, ov) ∈ t ++ [(trunc e.parts, ov')] := by
  intro x hx
  rcases List.mem_append.mp hx with hx | hx
  · obtain ⟨ov, hov⟩ := hcov x hx
    exact ⟨ov, List.mem_append_left _ hov⟩
  · simp only [List.mem_singleton] at hx
    subst hx
    exact ⟨ov', List.mem_append_right _ (by simp)⟩

theorem addEndpoint_inv {pt pt' : PTree} {done : List Endpoint} {e : Endpoint}
    (hinv : Inv pt done) (hfresh : Fresh done e) (h : addEndpoint pt e = .ok pt') :
    Inv pt' (done ++ [e]) := by
  unfold addEndpoint at h
  split at h
  · simp at h
  · cases hl : (lookupParts pt.tree e.parts).value with
    | some i =>
      rw [hl] at h
      simp only at h
      split at h
      · simp at h
      · rename_i t' hins
        simp at h
        subst h
        obtain ⟨hval, _, _, _⟩ := insertParts_ok hins
        have hne := validateParts_none hval
        -- the map that was found belongs to the very pattern being declared
        obtain ⟨q, hq, hm⟩ := lookupParts_sound_lax pt.tree e.parts i hinv.wl hne hl
        obtain ⟨e', he', hqe, hqs⟩ := hinv.dom q (some i) hq
        have hqe' : q = e'.parts := hqs (by simp)
        have hqp : q = e.parts := by
          by_cases hd : e'.parts = e.parts
          · rw [hqe', hd]
          · have := hfresh e' he' hd
            rw [← hqe', hm] at this
            simp at this
        have hi : i < pt.store.length := hinv.idx q i hq
        rw [insertParts_declared hins]
        have hnew := fun q' j => @mem_append_new pt.tree e.parts i q' j
        refine ⟨?_, ?_, ?_, ?_, ?_, ?_⟩
        · intro x hx
          rcases List.mem_append.mp hx with hx | hx
          · exact hinv.wl x hx
          · simp at hx; subst hx; exact wildLast_trunc _
        · intro q' j hmem
          simp only [setStore, List.length_set]
          rcases hnew q' j hmem with hold | ⟨_, rfl⟩
          · exact hinv.idx q' j hold
          · exact hi
        · intro q' j hmem m pol hb
          simp only [setStore] at hb
          have hq'j : j = i → q' = e.parts := by
            intro hji
            rcases hnew q' j hmem with hold | ⟨h1, _⟩
            · subst hji; rw [← hqp]; exact hinv.inj _ _ _ hold hq
            · exact h1
          by_cases hji : j = i
          · subst hji
            rw [getD_set_eq _ _ _ _ hi] at hb
            rcases PMap.mem_set hb with ⟨rfl, rfl⟩ | hb
            · exact ⟨(hq'j rfl).symm, by simp, rfl⟩
            · obtain ⟨h1, h2, h3⟩ := hinv.src q j hq m pol hb
              exact ⟨by rw [h1, hqp, hq'j rfl], by simp [h2], h3⟩
          · rw [getD_set_ne _ _ _ _ _ (Ne.symm hji)] at hb
            rcases hnew q' j hmem with hold | ⟨_, h2⟩
            · obtain ⟨h1, h2, h3⟩ := hinv.src q' j hold m pol hb
              exact ⟨h1, by simp [h2], h3⟩
            · exact absurd h2 hji
        · intro q1 q2 j h1 h2
          rcases hnew q1 j h1 with o1 | ⟨e1, j1⟩ <;> rcases hnew q2 j h2 with o2 | ⟨e2, j2⟩
          · exact hinv.inj _ _ _ o1 o2
          · subst j2; rw [e2, ← hqp]; exact hinv.inj _ _ _ o1 hq
          · subst j1; rw [e1, ← hqp]; exact hinv.inj _ _ _ hq o2
          · rw [e1, e2]
        · exact dom_append_new hinv.dom
        · exact cov_append_new hinv.cov
    | none =>
      rw [hl] at h
      simp only at h
      split at h
      · simp at h
      · rename_i t' hins
        simp at h
        subst h
        rw [insertParts_declared hins]
        have hnew := fun q' j => @mem_append_new pt.tree e.parts pt.store.length q' j
        refine ⟨?_, ?_, ?_, ?_, ?_, ?_⟩
        · intro x hx
          rcases List.mem_append.mp hx with hx | hx
          · exact hinv.wl x hx
          · simp at hx; subst hx; exact wildLast_trunc _
        · intro q' j hmem
          simp only [List.length_append, List.length_cons, List.length_nil]
          rcases hnew q' j hmem with hold | ⟨_, rfl⟩
          · have := hinv.idx q' j hold; omega
          · omega
        · intro q' j hmem m pol hb
          rcases hnew q' j hmem with hold | ⟨h1, h2⟩
          · have hj := hinv.idx q' j hold
            have : (pt.store ++ [[(e.method, (⟨e⟩ : Policy))]]).getD j [] = pt.store.getD j [] := by
              simp [List.getD, List.getElem?_append_left hj]
            rw [this] at hb
            obtain ⟨h1, h2, h3⟩ := hinv.src q' j hold m pol hb
            exact ⟨h1, by simp [h2], h3⟩
          · subst h2
            have : (pt.store ++ [[(e.method, (⟨e⟩ : Policy))]]).getD pt.store.length [] = [(e.method, ⟨e⟩)] := by
              simp [List.getD]
            rw [this] at hb
            simp at hb
            obtain ⟨rfl, rfl⟩ := hb
            exact ⟨h1.symm, by simp, rfl⟩
        · intro q1 q2 j h1 h2
          rcases hnew q1 j h1 with o1 | ⟨e1, j1⟩ <;> rcases hnew q2 j h2 with o2 | ⟨e2, j2⟩
          · exact hinv.inj _ _ _ o1 o2
          · have := hinv.idx _ _ o1; omega
          · have := hinv.idx _ _ o2; omega
          · rw [e1, e2]
        · exact dom_append_new hinv.dom
        · exact cov_append_new hinv.cov

/-! ### the whole build; soundness of the selection -/

theorem crossMatchEarlier_cons {e : Endpoint} {rest : List Endpoint}
    (h : crossMatchEarlier (e :: rest) = false) :
    (∀ e2 ∈ rest, e.parts ≠ e2.parts → matchesLax e.parts e2.parts = false) ∧
    crossMatchEarlier rest = false := by
  simp only [crossMatchEarlier, Bool.or_eq_false_iff] at h
  refine ⟨?_, h.1⟩
  intro e2 he2 hne
  have := h.2
  rw [List.any_eq_false] at this
  have := this e2 he2
  simpa [hne] using this

theorem buildFrom_inv (es : List Endpoint) : ∀ (pt pt' : PTree) (done : List Endpoint),
    Inv pt done → (∀ e ∈ es, Fresh done e) → crossMatchEarlier es = false →
    buildFrom pt es = .ok pt' → Inv pt' (done ++ es) := by
  induction es with
  | nil => intro pt pt' done hinv _ _ h; simp [buildFrom] at h; subst h; simpa using hinv
  | cons e rest ih =>
    intro pt pt' done hinv hfresh hcm h
    unfold buildFrom at h
    split at h
    · simp at h
    · rename_i pt1 hadd
      obtain ⟨hhead, hrest⟩ := crossMatchEarlier_cons hcm
      have hinv1 := addEndpoint_inv hinv (hfresh e (by simp)) hadd
      have := ih pt1 pt' (done ++ [e]) hinv1 ?_ hrest h
      · simpa using this
      · intro x hx e' he' hne
        rcases List.mem_append.mp he' with he' | he'
        · exact hfresh x (by simp [hx]) e' he' hne
        · simp at he'; subst he'
          exact hhead x hx hne

theorem build_inv {es : List Endpoint} {pt : PTree}
    (hcm : crossMatchEarlier es = false) (h : build es = .ok pt) : Inv pt es := by
  have := buildFrom_inv es .empty pt [] inv_empty (by intro e _ e' he'; simp at he') hcm h
  simpa using this

theorem select_some {pt : PTree} {m : String} {us : List Part} {i : Nat}
    (h : (lookupParts pt.tree us).value = some i) :
    select pt m us = ⟨true, (pt.store.getD i []).find? m, (lookupParts pt.tree us).norm,
      (lookupParts pt.tree us).params⟩ := by
  simp [select, h]

theorem select_none {pt : PTree} {m : String} {us : List Part}
    (h : (lookupParts pt.tree us).value = none) :
    select pt m us = ⟨false, none, (lookupParts pt.tree us).norm, (lookupParts pt.tree us).params⟩ := by
  simp [select, h]

/-- The policy the dispatcher selects was declared for this method and its pattern matches the URL. -/
theorem select_sound {pt : PTree} {es : List Endpoint} (hinv : Inv pt es) (m : String) (us : List Part)
    (hne : urlNonEmpty us = true) (hfl : boundaryMix es us = false) (pol : Policy)
    (h : (select pt m us).policy = some pol) :
    pol.src ∈ es ∧ pol.src.method = m ∧ «matches» pol.src.parts us = true := by
  cases hl : (lookupParts pt.tree us).value with
  | none => rw [select_none hl] at h; simp at h
  | some i =>
    rw [select_some hl] at h
    simp only at h
    obtain ⟨q, hq, hm⟩ := lookupParts_sound_lax pt.tree us i hinv.wl hne hl
    obtain ⟨h1, h2, h3⟩ := hinv.src q i hq m pol (PMap.mem_of_find? h)
    refine ⟨h2, h3, ?_⟩
    rw [h1]
    apply matches_of_lax q us hm
    have hb := hfl
    unfold boundaryMix at hb
    rw [List.any_eq_false] at hb
    have := hb pol.src h2
    rw [h1] at this
    simpa using this

theorem soundOk_of_select {pt : PTree} {es : List Endpoint} (g : Globals) (m : String) (us : List Part)
    (hsel : ∀ pol, (select pt m us).policy = some pol →
      pol.src ∈ es ∧ pol.src.method = m ∧ «matches» pol.src.parts us = true) :
    soundOk es m us (observe pt g m us) = true := by
  unfold soundOk observe
  cases hp : (select pt m us).policy with
  | none => simp [getRemedies, getDiagnoses, hp]
  | some pol =>
    obtain ⟨h1, h2, h3⟩ := hsel pol hp
    simp only [hp, Option.map_some]
    rw [List.any_eq_true]
    refine ⟨pol.src, h1, ?_⟩
    simp [soundFor, h2, h3, getRemedies, getDiagnoses, hp, enabledRemedies, enabledDiags]


end LunarVerif.C13
