import LunarVerif.Spec.C13
import LunarVerif.Proofs.UrlTree
/-! Helper lemmas for C13: the invariant of `BuildEndpointPolicyTree` outside the cross-match class. -/
namespace LunarVerif.C13
open LunarVerif.UrlTree LunarVerif.UrlMatch

/-! ### policy maps -/

theorem PMap.mem_of_find? {mp : PMap} {m : String} {p : Policy} (h : PMap.find? mp m = some p) :
    (m, p) ∈ mp := by
  induction mp with
  | nil => simp [PMap.find?] at h
  | cons kp rest ih =>
    obtain ⟨k, q⟩ := kp
    unfold PMap.find? at h
    by_cases hk : k = m
    · simp [hk] at h; subst h; subst hk; simp
    · simp [hk] at h; exact List.mem_cons_of_mem _ (ih h)

theorem PMap.mem_set {mp : PMap} {k m : String} {p pol : Policy} (h : (m, pol) ∈ PMap.set mp k p) :
    (m = k ∧ pol = p) ∨ (m, pol) ∈ mp := by
  induction mp with
  | nil => simp [PMap.set] at h; exact .inl h
  | cons kq rest ih =>
    obtain ⟨k', q⟩ := kq
    unfold PMap.set at h
    by_cases hk : k' = k
    · simp [hk] at h
      rcases h with h | h
      · exact .inl h
      · exact .inr (List.mem_cons_of_mem _ h)
    · simp [hk] at h
      rcases h with h | h
      · exact .inr (by simp [h])
      · rcases ih h with h | h
        · exact .inl h
        · exact .inr (List.mem_cons_of_mem _ h)

/-! ### the build invariant -/

/-- What holds of the tree and the store after the endpoints `done` were added, provided no declared URL
    was matched by an earlier declared different pattern. -/
structure Inv (pt : PTree) (done : List Endpoint) : Prop where
  wl : WildLast pt.tree
  names : NamesOK pt.tree
  idx : ∀ q i, (q, some i) ∈ pt.tree → i < pt.store.length
  src : ∀ q i, (q, some i) ∈ pt.tree → ∀ m pol, (m, pol) ∈ pt.store.getD i [] →
    pol.src.parts = q ∧ pol.src ∈ done ∧ pol.src.method = m
  inj : ∀ q q' i, (q, some i) ∈ pt.tree → (q', some i) ∈ pt.tree → q = q'
  dom : ∀ q ov, (q, ov) ∈ pt.tree → ∃ e ∈ done, q = trunc e.parts ∧
    (ov = none ↔ (trunc e.parts).length < e.parts.length)
  cov : ∀ e ∈ done, wildLast e.parts = true → ∃ i, (e.parts, some i) ∈ pt.tree

theorem inv_empty : Inv .empty [] := by
  constructor <;> simp [PTree.empty, WildLast, NamesOK]

/-- No earlier declared different pattern (laxly) matches the URL of `e`. -/
def Fresh (done : List Endpoint) (e : Endpoint) : Prop :=
  ∀ e' ∈ done, e'.parts ≠ e.parts → matchesLax e'.parts e.parts = false

theorem getD_set_eq {α : Type} (l : List α) (i : Nat) (a d : α) (h : i < l.length) :
    (l.set i a).getD i d = a := by
  simp [List.getD, h]

theorem getD_set_ne {α : Type} (l : List α) (i j : Nat) (a d : α) (h : i ≠ j) :
    (l.set i a).getD j d = l.getD j d := by
  simp [List.getD, List.getElem?_set_ne h]

theorem mem_append_new {t : Tree Nat} {ps : List Part} {i : Nat} {q' : List Part} {j : Nat}
    (h : (q', some j) ∈ t ++ [(trunc ps, if (trunc ps).length < ps.length then none else some i)]) :
    (q', some j) ∈ t ∨ (q' = ps ∧ j = i) := by
  rcases List.mem_append.mp h with hm' | hm'
  · exact .inl hm'
  · simp only [List.mem_singleton, Prod.mk.injEq] at hm'
    obtain ⟨h1, h2⟩ := hm'
    by_cases hlen : (trunc ps).length < ps.length
    · rw [if_pos hlen] at h2; simp at h2
    · rw [if_neg hlen] at h2
      simp only [Option.some.injEq] at h2
      exact .inr ⟨by rw [h1]; exact trunc_eq_of_length _ hlen, h2⟩

theorem dom_append_new {t : Tree Nat} {done : List Endpoint} {e : Endpoint} {i : Nat}
    (hdom : ∀ q ov, (q, ov) ∈ t → ∃ e ∈ done, q = trunc e.parts ∧
      (ov = none ↔ (trunc e.parts).length < e.parts.length)) :
    ∀ q ov, (q, ov) ∈ t ++ [(trunc e.parts, if (trunc e.parts).length < e.parts.length then none else some i)] →
      ∃ x ∈ done ++ [e], q = trunc x.parts ∧ (ov = none ↔ (trunc x.parts).length < x.parts.length) := by
  intro q' ov hmem
  rcases List.mem_append.mp hmem with hm' | hm'
  · obtain ⟨x, hx, h1, h2⟩ := hdom q' ov hm'
    exact ⟨x, by simp [hx], h1, h2⟩
  · simp only [List.mem_singleton, Prod.mk.injEq] at hm'
    obtain ⟨h1, h2⟩ := hm'
    refine ⟨e, by simp, h1, ?_⟩
    rw [h2]
    by_cases hlt : (trunc e.parts).length < e.parts.length <;> simp [hlt]

theorem cov_append_new {t : Tree Nat} {done : List Endpoint} {e : Endpoint} {i : Nat}
    (hcov : ∀ e ∈ done, wildLast e.parts = true → ∃ i, (e.parts, some i) ∈ t) :
    ∀ x ∈ done ++ [e], wildLast x.parts = true → ∃ j, (x.parts, some j) ∈
      t ++ [(trunc e.parts, if (trunc e.parts).length < e.parts.length then none else some i)] := by
  intro x hx hwl
  rcases List.mem_append.mp hx with hx | hx
  · obtain ⟨j, hj⟩ := hcov x hx hwl
    exact ⟨j, List.mem_append_left _ hj⟩
  · simp only [List.mem_singleton] at hx
    subst hx
    refine ⟨i, List.mem_append_right _ ?_⟩
    have := trunc_of_wildLast _ hwl
    simp [this]

theorem addEndpoint_inv {pt pt' : PTree} {done : List Endpoint} {e : Endpoint}
    (hinv : Inv pt done) (hfresh : Fresh done e) (h : addEndpoint pt e = .ok pt') :
    Inv pt' (done ++ [e]) := by
  unfold addEndpoint at h
  split at h
  · simp at h
  · cases hl : (lookupParts pt.tree e.parts).value with
    | some i =>
      rw [hl] at h
      simp only at h
      split at h
      · simp at h
      · rename_i t' hins
        simp at h
        subst h
        obtain ⟨hval, _, _, _⟩ := insertParts_ok hins
        have hne := validateParts_none hval
        -- the map that was found belongs to the very pattern being declared
        obtain ⟨q, hq, hm⟩ := lookupParts_sound_lax pt.tree e.parts i hinv.wl hne hl
        obtain ⟨e', he', hqe, hqs⟩ := hinv.dom q (some i) hq
        have hqe' : q = e'.parts := by
          rw [hqe]
          exact trunc_eq_of_length _ (fun hlt => by have := hqs.mpr hlt; simp at this)
        have hqp : q = e.parts := by
          by_cases hd : e'.parts = e.parts
          · rw [hqe', hd]
          · have := hfresh e' he' hd
            rw [← hqe', hm] at this
            simp at this
        have hi : i < pt.store.length := hinv.idx q i hq
        have hnames := insertParts_namesOK hinv.names hins
        rw [insertParts_declared hins] at hnames ⊢
        have hnew := fun q' j => @mem_append_new pt.tree e.parts i q' j
        refine ⟨?_, hnames, ?_, ?_, ?_, ?_, ?_⟩
        · intro x hx
          rcases List.mem_append.mp hx with hx | hx
          · exact hinv.wl x hx
          · simp at hx; subst hx; exact wildLast_trunc _
        · intro q' j hmem
          simp only [setStore, List.length_set]
          rcases hnew q' j hmem with hold | ⟨_, rfl⟩
          · exact hinv.idx q' j hold
          · exact hi
        · intro q' j hmem m pol hb
          simp only [setStore] at hb
          have hq'j : j = i → q' = e.parts := by
            intro hji
            rcases hnew q' j hmem with hold | ⟨h1, _⟩
            · subst hji; rw [← hqp]; exact hinv.inj _ _ _ hold hq
            · exact h1
          by_cases hji : j = i
          · subst hji
            rw [getD_set_eq _ _ _ _ hi] at hb
            rcases PMap.mem_set hb with ⟨rfl, rfl⟩ | hb
            · exact ⟨(hq'j rfl).symm, by simp, rfl⟩
            · obtain ⟨h1, h2, h3⟩ := hinv.src q j hq m pol hb
              exact ⟨by rw [h1, hqp, hq'j rfl], by simp [h2], h3⟩
          · rw [getD_set_ne _ _ _ _ _ (Ne.symm hji)] at hb
            rcases hnew q' j hmem with hold | ⟨_, h2⟩
            · obtain ⟨h1, h2, h3⟩ := hinv.src q' j hold m pol hb
              exact ⟨h1, by simp [h2], h3⟩
            · exact absurd h2 hji
        · intro q1 q2 j h1 h2
          rcases hnew q1 j h1 with o1 | ⟨e1, j1⟩ <;> rcases hnew q2 j h2 with o2 | ⟨e2, j2⟩
          · exact hinv.inj _ _ _ o1 o2
          · subst j2; rw [e2, ← hqp]; exact hinv.inj _ _ _ o1 hq
          · subst j1; rw [e1, ← hqp]; exact hinv.inj _ _ _ hq o2
          · rw [e1, e2]
        · exact dom_append_new hinv.dom
        · exact cov_append_new hinv.cov
    | none =>
      rw [hl] at h
      simp only at h
      split at h
      · simp at h
      · rename_i t' hins
        simp at h
        subst h
        have hnames := insertParts_namesOK hinv.names hins
        rw [insertParts_declared hins] at hnames ⊢
        have hnew := fun q' j => @mem_append_new pt.tree e.parts pt.store.length q' j
        refine ⟨?_, hnames, ?_, ?_, ?_, ?_, ?_⟩
        · intro x hx
          rcases List.mem_append.mp hx with hx | hx
          · exact hinv.wl x hx
          · simp at hx; subst hx; exact wildLast_trunc _
        · intro q' j hmem
          simp only [List.length_append, List.length_cons, List.length_nil]
          rcases hnew q' j hmem with hold | ⟨_, rfl⟩
          · have := hinv.idx q' j hold; omega
          · omega
        · intro q' j hmem m pol hb
          rcases hnew q' j hmem with hold | ⟨h1, h2⟩
          · have hj := hinv.idx q' j hold
            have : (pt.store ++ [[(e.method, (⟨e⟩ : Policy))]]).getD j [] = pt.store.getD j [] := by
              simp [List.getD, List.getElem?_append_left hj]
            rw [this] at hb
            obtain ⟨h1, h2, h3⟩ := hinv.src q' j hold m pol hb
            exact ⟨h1, by simp [h2], h3⟩
          · subst h2
            have : (pt.store ++ [[(e.method, (⟨e⟩ : Policy))]]).getD pt.store.length [] = [(e.method, ⟨e⟩)] := by
              simp [List.getD]
            rw [this] at hb
            simp at hb
            obtain ⟨rfl, rfl⟩ := hb
            exact ⟨h1.symm, by simp, rfl⟩
        · intro q1 q2 j h1 h2
          rcases hnew q1 j h1 with o1 | ⟨e1, j1⟩ <;> rcases hnew q2 j h2 with o2 | ⟨e2, j2⟩
          · exact hinv.inj _ _ _ o1 o2
          · have := hinv.idx _ _ o1; omega
          · have := hinv.idx _ _ o2; omega
          · rw [e1, e2]
        · exact dom_append_new hinv.dom
        · exact cov_append_new hinv.cov

/-! ### the whole build; soundness of the selection -/

theorem crossMatchEarlier_cons {e : Endpoint} {rest : List Endpoint}
    (h : crossMatchEarlier (e :: rest) = false) :
    (∀ e2 ∈ rest, e.parts ≠ e2.parts → matchesLax e.parts e2.parts = false) ∧
    crossMatchEarlier rest = false := by
  simp only [crossMatchEarlier, Bool.or_eq_false_iff] at h
  refine ⟨?_, h.1⟩
  intro e2 he2 hne
  have := h.2
  rw [List.any_eq_false] at this
  have := this e2 he2
  simpa [hne] using this

theorem buildFrom_inv (es : List Endpoint) : ∀ (pt pt' : PTree) (done : List Endpoint),
    Inv pt done → (∀ e ∈ es, Fresh done e) → crossMatchEarlier es = false →
    buildFrom pt es = .ok pt' → Inv pt' (done ++ es) := by
  induction es with
  | nil => intro pt pt' done hinv _ _ h; simp [buildFrom] at h; subst h; simpa using hinv
  | cons e rest ih =>
    intro pt pt' done hinv hfresh hcm h
    unfold buildFrom at h
    split at h
    · simp at h
    · rename_i pt1 hadd
      obtain ⟨hhead, hrest⟩ := crossMatchEarlier_cons hcm
      have hinv1 := addEndpoint_inv hinv (hfresh e (by simp)) hadd
      have := ih pt1 pt' (done ++ [e]) hinv1 ?_ hrest h
      · simpa using this
      · intro x hx e' he' hne
        rcases List.mem_append.mp he' with he' | he'
        · exact hfresh x (by simp [hx]) e' he' hne
        · simp at he'; subst he'
          exact hhead x hx hne

theorem build_inv {es : List Endpoint} {pt : PTree}
    (hcm : crossMatchEarlier es = false) (h : build es = .ok pt) : Inv pt es := by
  have := buildFrom_inv es .empty pt [] inv_empty (by intro e _ e' he'; simp at he') hcm h
  simpa using this

theorem select_some {pt : PTree} {m : String} {us : List Part} {i : Nat}
    (h : (lookupParts pt.tree us).value = some i) :
    select pt m us = ⟨true, (pt.store.getD i []).find? m, (lookupParts pt.tree us).norm,
      (lookupParts pt.tree us).params⟩ := by
  simp [select, h]

theorem select_none {pt : PTree} {m : String} {us : List Part}
    (h : (lookupParts pt.tree us).value = none) :
    select pt m us = ⟨false, none, (lookupParts pt.tree us).norm, (lookupParts pt.tree us).params⟩ := by
  simp [select, h]

/-- The policy the dispatcher selects was declared for this method and its pattern matches the URL. -/
theorem select_sound {pt : PTree} {es : List Endpoint} (hinv : Inv pt es) (m : String) (us : List Part)
    (hne : urlNonEmpty us = true) (hfl : boundaryMix es us = false) (pol : Policy)
    (h : (select pt m us).policy = some pol) :
    pol.src ∈ es ∧ pol.src.method = m ∧ «matches» pol.src.parts us = true := by
  cases hl : (lookupParts pt.tree us).value with
  | none => rw [select_none hl] at h; simp at h
  | some i =>
    rw [select_some hl] at h
    simp only at h
    obtain ⟨q, hq, hm⟩ := lookupParts_sound_lax pt.tree us i hinv.wl hne hl
    obtain ⟨h1, h2, h3⟩ := hinv.src q i hq m pol (PMap.mem_of_find? h)
    refine ⟨h2, h3, ?_⟩
    rw [h1]
    apply matches_of_lax q us hm
    have hb := hfl
    unfold boundaryMix at hb
    rw [List.any_eq_false] at hb
    have := hb pol.src h2
    rw [h1] at this
    simpa using this

theorem soundOk_of_select {pt : PTree} {es : List Endpoint} (g : Globals) (m : String) (us : List Part)
    (hsel : ∀ pol, (select pt m us).policy = some pol →
      pol.src ∈ es ∧ pol.src.method = m ∧ «matches» pol.src.parts us = true) :
    soundOk es m us (observe pt g m us) = true := by
  unfold soundOk observe
  cases hp : (select pt m us).policy with
  | none => simp [getRemedies, getDiagnoses, hp]
  | some pol =>
    obtain ⟨h1, h2, h3⟩ := hsel pol hp
    simp only [hp, Option.map_some]
    rw [List.any_eq_true]
    refine ⟨pol.src, h1, ?_⟩
    simp [soundFor, h2, h3, getRemedies, getDiagnoses, hp, enabledRemedies, enabledDiags]


/-! ### exact normalised URL and parameters -/

theorem tree_aligned {pt : PTree} {es : List Endpoint} (hinv : Inv pt es) {u : Url}
    (h : boundaryMix es u = false) : Aligned pt.tree u := by
  intro ⟨q, ov⟩ hmem
  obtain ⟨e, he, hq, _⟩ := hinv.dom q ov hmem
  unfold boundaryMix at h
  rw [List.any_eq_false] at h
  have := h e he
  simp only [hq, flagsOK_trunc]
  simpa using this

theorem tree_clean {pt : PTree} {es : List Endpoint} (hinv : Inv pt es) {u : Url}
    (h : wildDisplaced es u = false) : Clean pt.tree u := by
  intro ⟨w, wv⟩ hw n hn
  obtain ⟨e, he, hq, _⟩ := hinv.dom w wv hw
  unfold wildDisplaced displaced at h
  rw [List.any_eq_false] at h
  have hw' := h w (by rw [hq]; exact List.mem_map.mpr ⟨e, he, rfl⟩)
  simp only at hn
  rw [hn] at hw'
  simp only [Bool.or_eq_true, beq_iff_eq, not_or] at hw'
  refine ⟨hw'.1, ?_⟩
  intro ⟨q', ov'⟩ he'
  obtain ⟨e', he'', hq', _⟩ := hinv.dom q' ov' he'
  have := hw'.2
  rw [Bool.not_eq_true, List.any_eq_false] at this
  have := this q' (by rw [hq']; exact List.mem_map.mpr ⟨e', he'', rfl⟩)
  simpa using this

/-- Outside the excluded classes the normalised URL IS the applied policy's pattern and the parameters
    are the bindings along that pattern. -/
theorem select_exact {pt : PTree} {es : List Endpoint} (hinv : Inv pt es) (m : String) (us : List Part)
    (hne : urlNonEmpty us = true) (hfl : boundaryMix es us = false) (hwd : wildDisplaced es us = false)
    (pol : Policy) (h : (select pt m us).policy = some pol) :
    (select pt m us).norm = pol.src.parts ∧ (select pt m us).params = bindParams [] pol.src.parts us := by
  cases hl : (lookupParts pt.tree us).value with
  | none => rw [select_none hl] at h; simp at h
  | some i =>
    rw [select_some hl] at h ⊢
    simp only at h ⊢
    have hmatch := lookGo_value_isMatch us pt.tree none [] [] i hl
    obtain ⟨q, hq, _, hnorm, hpar⟩ := lookGo_exact us pt.tree [] [] hinv.wl hinv.names hne
      (tree_aligned hinv hfl) (tree_clean hinv hwd) hmatch
    have hl' : (lookGo pt.tree none [] [] us).value = some i := hl
    rw [hl'] at hq
    obtain ⟨h1, _, _⟩ := hinv.src q i hq m pol (PMap.mem_of_find? h)
    unfold lookupParts
    rw [hnorm, hpar, h1]
    simp


/-- Shape shared by (M), (P), (N): the applied endpoint is sound and has the extra property. -/
theorem any_soundFor {pt : PTree} {es : List Endpoint} (g : Globals) (m : String) (us : List Part)
    (extra : Endpoint → Bool)
    (hsel : ∀ pol, (select pt m us).policy = some pol →
      pol.src ∈ es ∧ pol.src.method = m ∧ «matches» pol.src.parts us = true)
    (hextra : ∀ pol, (select pt m us).policy = some pol → extra pol.src = true) :
    (match (observe pt g m us).pol with
     | none => true
     | some _ => es.any fun e => soundFor m us (observe pt g m us) e && extra e) = true := by
  cases hp : (select pt m us).policy with
  | none => simp [observe, hp]
  | some pol =>
    obtain ⟨h1, h2, h3⟩ := hsel pol hp
    have hpol : (observe pt g m us).pol = some pol.src.url := by simp [observe, hp]
    rw [hpol]
    simp only
    rw [List.any_eq_true]
    refine ⟨pol.src, h1, ?_⟩
    rw [Bool.and_eq_true]
    refine ⟨?_, hextra pol hp⟩
    simp [soundFor, h2, h3, observe, getRemedies, getDiagnoses, hp, enabledRemedies, enabledDiags]

/-! ### most specific -/

theorem select_most_specific {pt : PTree} {es : List Endpoint} (hinv : Inv pt es) (m : String) (us : List Part)
    (hne : urlNonEmpty us = true) (hfl : boundaryMix es us = false)
    (pol : Policy) (h : (select pt m us).policy = some pol) :
    mostSpecificFor es us pol.src = true := by
  cases hl : (lookupParts pt.tree us).value with
  | none => rw [select_none hl] at h; simp at h
  | some i =>
    rw [select_some hl] at h
    simp only at h
    have hmatch : (lookupParts pt.tree us).isMatch = true := lookGo_value_isMatch us pt.tree none [] [] i hl
    obtain ⟨q, hq, _, hall⟩ := lookupParts_most_specific pt.tree us hinv.wl hne (tree_aligned hinv hfl) hmatch
    rw [hl] at hq
    obtain ⟨h1, _, _⟩ := hinv.src q i hq m pol (PMap.mem_of_find? h)
    unfold mostSpecificFor
    rw [List.all_eq_true]
    intro e' he'
    cases hm : «matches» e'.parts us with
    | false => simp
    | true =>
      have hlax := lax_of_matches _ _ hm
      obtain ⟨j, hj⟩ := hinv.cov e' he' (wildLast_of_matchesLax _ _ hlax)
      have := hall _ hj (by simp) hlax
      rw [h1]
      simpa using this

/-! ### globals -/

theorem filter_map_isEmpty {α β : Type} (l : List α) (p : α → Bool) (f : α → β) :
    ((l.filter p).map f).isEmpty = !l.any p := by
  induction l with
  | nil => rfl
  | cons a l ih =>
    by_cases h : p a
    · simp [List.filter, h]
    · simp [List.filter, h]
      simpa using ih

/-- (G) holds of every model answer, unconditionally. -/
theorem globalsOk_observe (pt : PTree) (g : Globals) (m : String) (us : List Part) :
    globalsOk g (observe pt g m us) = true := by
  unfold globalsOk observe
  simp only [getRemedies, getDiagnoses, shouldDiagnose, beq_self_eq_true, Bool.true_and]
  cases hp : (select pt m us).policy with
  | none => simp
  | some pol =>
    have := filter_map_isEmpty pol.src.diags (·.enabled) id
    simp only [List.map_id] at this
    simp [this]


/-! ### order independence: second invariant -/

theorem PMap.find?_set_eq (mp : PMap) (k : String) (p : Policy) : PMap.find? (PMap.set mp k p) k = some p := by
  induction mp with
  | nil => simp [PMap.set, PMap.find?]
  | cons kq rest ih =>
    obtain ⟨k', q⟩ := kq
    unfold PMap.set
    by_cases hk : k' = k
    · simp [hk, PMap.find?]
    · simp [hk, PMap.find?, ih]

theorem PMap.find?_set_ne (mp : PMap) (k m : String) (p : Policy) (h : m ≠ k) :
    PMap.find? (PMap.set mp k p) m = PMap.find? mp m := by
  induction mp with
  | nil => simp [PMap.set, PMap.find?, Ne.symm h]
  | cons kq rest ih =>
    obtain ⟨k', q⟩ := kq
    unfold PMap.set
    by_cases hk : k' = k
    · subst hk; simp [PMap.find?, Ne.symm h]
    · by_cases hm : k' = m
      · subst hm; simp [hk, PMap.find?]
      · simp [hk, PMap.find?, hm, ih]

/-- Extra invariant needed for order independence (needs the symmetric no-cross-match hypothesis, distinct
    (method, pattern) keys and consistent host flags among the declarations). -/
structure Inv2 (pt : PTree) (done : List Endpoint) : Prop where
  coh : ∀ q ov ov', (q, ov) ∈ pt.tree → (q, ov') ∈ pt.tree → ov = ov'
  bind : ∀ e ∈ done, wildLast e.parts = true →
    ∃ i, (e.parts, some i) ∈ pt.tree ∧ PMap.find? (pt.store.getD i []) e.method = some ⟨e⟩
  covT : ∀ e ∈ done, ∃ ov, (trunc e.parts, ov) ∈ pt.tree ∧
    (ov = none ↔ (trunc e.parts).length < e.parts.length)

theorem inv2_empty : Inv2 .empty [] := by
  constructor <;> simp [PTree.empty]

/-- Hypotheses on the new endpoint relative to those already declared. -/
structure Fresh2 (done : List Endpoint) (e : Endpoint) : Prop where
  cross : ∀ e' ∈ done, e'.parts ≠ e.parts →
    matchesLax (trunc e'.parts) e.parts = false ∧ matchesLax (trunc e.parts) e'.parts = false
  nodup : ∀ e' ∈ done, ¬ (e'.method = e.method ∧ e'.parts = e.parts)
  flags : ∀ e1 ∈ done, ∀ e2 ∈ done, flagsOK e1.parts e2.parts = true

theorem tree_partsOK {pt : PTree} {done : List Endpoint} (hinv : Inv pt done)
    (hfl : ∀ e1 ∈ done, ∀ e2 ∈ done, flagsOK e1.parts e2.parts = true) : PartsOK pt.tree := by
  intro ⟨q1, v1⟩ h1 ⟨q2, v2⟩ h2
  obtain ⟨e1, he1, hq1, _⟩ := hinv.dom _ _ h1
  obtain ⟨e2, he2, hq2, _⟩ := hinv.dom _ _ h2
  apply partsAgree_of _ _ (hinv.names _ h1 _ h2)
  simp only [hq1, hq2]
  exact hostsAgree_of_flagsOK _ _ (hfl e1 he1 e2 he2)

theorem rcoh_of_coh {pt : PTree} {done : List Endpoint} (h : Inv2 pt done) : RCoh pt.tree := by
  intro ⟨q1, v1⟩ h1 ⟨q2, v2⟩ h2 heq
  simp only at heq
  subst heq
  exact h.coh _ _ _ h1 h2

/-- Under `Fresh2`, a declared pattern that is already in the tree with a value is found by the lookup of
    its own URL. -/
theorem lookup_self {pt : PTree} {done : List Endpoint} {e : Endpoint} (hinv : Inv pt done) (h2 : Inv2 pt done)
    (hf : Fresh2 done e) {j : Nat} (hm : (e.parts, some j) ∈ pt.tree) :
    (lookupParts pt.tree e.parts).value = some j := by
  apply lookGo_self e.parts pt.tree none [] [] j hinv.wl (tree_partsOK hinv hf.flags) (rcoh_of_coh h2) hm
  intro ⟨q', ov'⟩ hm' hne
  obtain ⟨e'', he'', hq', _⟩ := hinv.dom _ _ hm'
  simp only at hne ⊢
  by_cases hd : e''.parts = e.parts
  · exfalso
    apply hne
    rw [hq', hd]
    exact trunc_of_wildLast _ (hinv.wl _ hm)
  · rw [hq']; exact (hf.cross e'' he'' hd).1

theorem addEndpoint_inv2 {pt pt' : PTree} {done : List Endpoint} {e : Endpoint}
    (hinv : Inv pt done) (h2 : Inv2 pt done) (hf : Fresh2 done e) (h : addEndpoint pt e = .ok pt') :
    Inv2 pt' (done ++ [e]) := by
  have hinv' : Inv pt' (done ++ [e]) :=
    addEndpoint_inv hinv (fun e' he' hd => by
      have := (hf.cross e' he' hd).1
      cases hm : matchesLax e'.parts e.parts with
      | false => rfl
      | true =>
        rw [trunc_of_wildLast _ (wildLast_of_matchesLax _ _ hm), hm] at this
        exact this) h
  unfold addEndpoint at h
  split at h
  · simp at h
  · cases hl : (lookupParts pt.tree e.parts).value with
    | some i =>
      rw [hl] at h
      simp only at h
      split at h
      · simp at h
      · rename_i t' hins
        simp at h
        subst h
        obtain ⟨hval, _, _, _⟩ := insertParts_ok hins
        have hne := validateParts_none hval
        obtain ⟨q, hq, hm⟩ := lookupParts_sound_lax pt.tree e.parts i hinv.wl hne hl
        obtain ⟨e', he', hqe, hqs⟩ := hinv.dom q (some i) hq
        have hqe' : q = e'.parts := by
          rw [hqe]
          exact trunc_eq_of_length _ (fun hlt => by have := hqs.mpr hlt; simp at this)
        have hqp : q = e.parts := by
          by_cases hd : e'.parts = e.parts
          · rw [hqe', hd]
          · have := (hf.cross e' he' hd).1
            rw [← hqe] at this
            rw [hm] at this
            simp at this
        have hwle : wildLast e.parts = true := by rw [← hqp]; exact hinv.wl _ hq
        have htr : trunc e.parts = e.parts := trunc_of_wildLast _ hwle
        have hi : i < pt.store.length := hinv.idx q i hq
        rw [insertParts_declared hins]
        simp only [htr, Nat.lt_irrefl, if_false]
        rw [hqp] at hq
        refine ⟨?_, ?_, ?_⟩
        · intro q' ov ov' hm1 hm2
          rcases List.mem_append.mp hm1 with hm1 | hm1 <;> rcases List.mem_append.mp hm2 with hm2 | hm2
          · exact h2.coh _ _ _ hm1 hm2
          · simp at hm2; obtain ⟨rfl, rfl⟩ := hm2; exact h2.coh _ _ _ hm1 hq
          · simp at hm1; obtain ⟨rfl, rfl⟩ := hm1; exact h2.coh _ _ _ hq hm2
          · simp at hm1 hm2; rw [hm1.2, hm2.2]
        · intro x hx hwx
          rcases List.mem_append.mp hx with hx | hx
          · obtain ⟨k, hk, hfind⟩ := h2.bind x hx hwx
            refine ⟨k, List.mem_append_left _ hk, ?_⟩
            simp only [setStore]
            by_cases hki : i = k
            · subst hki
              rw [getD_set_eq _ _ _ _ hi]
              have hxp : x.parts = e.parts := hinv.inj _ _ _ hk hq
              have hxm : x.method ≠ e.method := fun hmm => hf.nodup x hx ⟨hmm, hxp⟩
              rw [PMap.find?_set_ne _ _ _ _ hxm]
              exact hfind
            · rw [getD_set_ne _ _ _ _ _ hki]; exact hfind
          · simp only [List.mem_singleton] at hx
            subst hx
            refine ⟨i, List.mem_append_right _ (by simp), ?_⟩
            simp only [setStore]
            rw [getD_set_eq _ _ _ _ hi]
            exact PMap.find?_set_eq _ _ _
        · intro x hx
          rcases List.mem_append.mp hx with hx | hx
          · obtain ⟨ov, hov, hiff⟩ := h2.covT x hx
            exact ⟨ov, List.mem_append_left _ hov, hiff⟩
          · simp only [List.mem_singleton] at hx
            subst hx
            exact ⟨some i, List.mem_append_right _ (by simp [htr]), by simp [htr]⟩
    | none =>
      rw [hl] at h
      simp only at h
      split at h
      · simp at h
      · rename_i t' hins
        simp at h
        subst h
        rw [insertParts_declared hins]
        -- no entry with the new (cut) pattern carries a different value
        have hnew : ∀ ov, (trunc e.parts, ov) ∈ pt.tree →
            ov = (if (trunc e.parts).length < e.parts.length then none else some pt.store.length) := by
          intro ov hov
          obtain ⟨e', he', hqe, hqs⟩ := hinv.dom _ _ hov
          cases ov with
          | some j =>
            exfalso
            have hnt : ¬ (trunc e'.parts).length < e'.parts.length := fun hlt => by
              have := hqs.mpr hlt; simp at this
            have he'p : trunc e'.parts = e'.parts := trunc_eq_of_length _ hnt
            by_cases hd : e'.parts = e.parts
            · have hwle : wildLast e.parts = true := by
                rw [← hd, ← he'p]; exact wildLast_trunc _
              rw [trunc_of_wildLast _ hwle] at hov
              have := lookup_self hinv h2 hf hov
              rw [hl] at this
              simp at this
            · have := (hf.cross e' he' hd).1
              rw [← hqe, matchesLax_trunc_self] at this
              simp at this
          | none =>
            have hlt := hqs.mp rfl
            by_cases hlt' : (trunc e.parts).length < e.parts.length
            · simp [hlt']
            · exfalso
              have hep : trunc e.parts = e.parts := trunc_eq_of_length _ hlt'
              have hd : e'.parts ≠ e.parts := by
                intro hd
                rw [hd] at hlt
                exact hlt' hlt
              have := (hf.cross e' he' hd).2
              rw [hqe, matchesLax_trunc_self] at this
              simp at this
        refine ⟨?_, ?_, ?_⟩
        · intro q' ov ov' hm1 hm2
          rcases List.mem_append.mp hm1 with hm1 | hm1 <;> rcases List.mem_append.mp hm2 with hm2 | hm2
          · exact h2.coh _ _ _ hm1 hm2
          · simp at hm2; obtain ⟨rfl, rfl⟩ := hm2; exact hnew _ hm1
          · simp at hm1; obtain ⟨rfl, rfl⟩ := hm1; exact (hnew _ hm2).symm
          · simp at hm1 hm2; rw [hm1.2, hm2.2]
        · intro x hx hwx
          rcases List.mem_append.mp hx with hx | hx
          · obtain ⟨k, hk, hfind⟩ := h2.bind x hx hwx
            refine ⟨k, List.mem_append_left _ hk, ?_⟩
            have hkl := hinv.idx _ _ hk
            have : (pt.store ++ [[(e.method, (⟨e⟩ : Policy))]]).getD k [] = pt.store.getD k [] := by
              simp [List.getD, List.getElem?_append_left hkl]
            rw [this]; exact hfind
          · simp only [List.mem_singleton] at hx
            subst hx
            have htr : trunc x.parts = x.parts := trunc_of_wildLast _ hwx
            refine ⟨pt.store.length, List.mem_append_right _ (by simp [htr]), ?_⟩
            have : (pt.store ++ [[(x.method, (⟨x⟩ : Policy))]]).getD pt.store.length [] = [(x.method, ⟨x⟩)] := by
              simp [List.getD]
            rw [this]
            simp [PMap.find?]
        · intro x hx
          rcases List.mem_append.mp hx with hx | hx
          · obtain ⟨ov, hov, hiff⟩ := h2.covT x hx
            exact ⟨ov, List.mem_append_left _ hov, hiff⟩
          · simp only [List.mem_singleton] at hx
            subst hx
            refine ⟨if (trunc x.parts).length < x.parts.length then none else some pt.store.length,
              List.mem_append_right _ (by simp), ?_⟩
            by_cases hlt : (trunc x.parts).length < x.parts.length <;> simp [hlt]


theorem crossMatch_false {es : List Endpoint} (h : crossMatch es = false) :
    ∀ e1 ∈ es, ∀ e2 ∈ es, e1.parts ≠ e2.parts → matchesLax (trunc e1.parts) e2.parts = false := by
  intro e1 h1 e2 h2 hne
  unfold crossMatch at h
  rw [List.any_eq_false] at h
  have := h e1 h1
  simp only [Bool.not_eq_true] at this
  rw [List.any_eq_false] at this
  have := this e2 h2
  simpa [hne] using this

theorem cfgBoundaryMix_false {es : List Endpoint} (h : cfgBoundaryMix es = false) :
    ∀ e1 ∈ es, ∀ e2 ∈ es, flagsOK e1.parts e2.parts = true := by
  intro e1 h1 e2 h2
  unfold cfgBoundaryMix at h
  rw [List.any_eq_false] at h
  have := h e2 h2
  simp only [Bool.not_eq_true] at this
  unfold boundaryMix at this
  rw [List.any_eq_false] at this
  have := this e1 h1
  simpa using this

theorem dupKeys_cons {e : Endpoint} {rest : List Endpoint} (h : dupKeys (e :: rest) = false) :
    (∀ e2 ∈ rest, ¬ (e2.method = e.method ∧ e2.parts = e.parts)) ∧ dupKeys rest = false := by
  simp only [dupKeys, Bool.or_eq_false_iff] at h
  refine ⟨?_, h.2⟩
  intro e2 he2 hk
  have := h.1
  rw [List.any_eq_false] at this
  have := this e2 he2
  simp [hk.1, hk.2] at this

theorem buildFrom_inv2 (all : List Endpoint) (es : List Endpoint) : ∀ (pt pt' : PTree) (done : List Endpoint),
    (∀ x ∈ done, x ∈ all) → (∀ x ∈ es, x ∈ all) →
    crossMatch all = false → cfgBoundaryMix all = false →
    (∀ e ∈ es, ∀ e' ∈ done, ¬ (e'.method = e.method ∧ e'.parts = e.parts)) → dupKeys es = false →
    Inv pt done → Inv2 pt done → buildFrom pt es = .ok pt' →
    Inv pt' (done ++ es) ∧ Inv2 pt' (done ++ es) := by
  induction es with
  | nil =>
    intro pt pt' done _ _ _ _ _ _ hinv h2 h
    simp [buildFrom] at h; subst h; simpa using ⟨hinv, h2⟩
  | cons e rest ih =>
    intro pt pt' done hdone hes hcm hfl hnd hdk hinv h2 h
    unfold buildFrom at h
    split at h
    · simp at h
    · rename_i pt1 hadd
      have he : e ∈ all := hes e (by simp)
      have hf : Fresh2 done e := by
        refine ⟨?_, hnd e (by simp), ?_⟩
        · intro e' he' hd
          exact ⟨crossMatch_false hcm e' (hdone e' he') e he hd,
                 crossMatch_false hcm e he e' (hdone e' he') (Ne.symm hd)⟩
        · intro e1 h1 e2 h2'
          exact cfgBoundaryMix_false hfl e1 (hdone e1 h1) e2 (hdone e2 h2')
      have hfresh : Fresh done e := by
        intro e' he' hd
        have := (hf.cross e' he' hd).1
        cases hm : matchesLax e'.parts e.parts with
        | false => rfl
        | true =>
          rw [trunc_of_wildLast _ (wildLast_of_matchesLax _ _ hm), hm] at this
          exact this
      have hinv1 := addEndpoint_inv hinv hfresh hadd
      have h21 := addEndpoint_inv2 hinv h2 hf hadd
      obtain ⟨hd1, hd2⟩ := dupKeys_cons hdk
      have := ih pt1 pt' (done ++ [e]) ?_ ?_ hcm hfl ?_ hd2 hinv1 h21 h
      · simpa using this
      · intro x hx
        rcases List.mem_append.mp hx with hx | hx
        · exact hdone x hx
        · simp at hx; subst hx; exact he
      · intro x hx; exact hes x (by simp [hx])
      · intro x hx e' he'
        rcases List.mem_append.mp he' with he' | he'
        · exact hnd x (by simp [hx]) e' he'
        · simp at he'; subst he'
          intro hk
          exact hd1 x hx ⟨hk.1.symm, hk.2.symm⟩

theorem build_inv2 {es : List Endpoint} {pt : PTree}
    (hcm : crossMatch es = false) (hfl : cfgBoundaryMix es = false) (hdk : dupKeys es = false)
    (h : build es = .ok pt) : Inv pt es ∧ Inv2 pt es := by
  have := buildFrom_inv2 es es .empty pt [] (by simp) (fun x hx => hx) hcm hfl (by simp) hdk
    inv_empty inv2_empty h
  simpa using this


theorem dupKeys_false_iff (es : List Endpoint) :
    dupKeys es = false ↔ es.Pairwise (fun a b => ¬ (a.method = b.method ∧ a.parts = b.parts)) := by
  induction es with
  | nil => simp [dupKeys]
  | cons e rest ih =>
    rw [List.pairwise_cons, ← ih]
    constructor
    · intro h
      obtain ⟨h1, h2⟩ := dupKeys_cons h
      exact ⟨fun b hb hk => h1 b hb ⟨hk.1.symm, hk.2.symm⟩, h2⟩
    · intro ⟨h1, h2⟩
      simp only [dupKeys, Bool.or_eq_false_iff]
      refine ⟨?_, h2⟩
      rw [List.any_eq_false]
      intro b hb
      have := h1 b hb
      simp only [Bool.and_eq_true, beq_iff_eq, not_and]
      intro hm hp
      exact this ⟨hm.symm, hp.symm⟩

theorem dupKeys_perm {es es' : List Endpoint} (hp : es.Perm es') (h : dupKeys es = false) :
    dupKeys es' = false := by
  rw [dupKeys_false_iff] at h ⊢
  exact (hp.pairwise_iff (fun {x y} hxy hk => hxy ⟨hk.1.symm, hk.2.symm⟩)).mp h

theorem crossMatch_perm {es es' : List Endpoint} (hp : es.Perm es') (h : crossMatch es = false) :
    crossMatch es' = false := by
  have := crossMatch_false h
  unfold crossMatch
  rw [List.any_eq_false]
  intro e1 h1
  simp only [Bool.not_eq_true]
  rw [List.any_eq_false]
  intro e2 h2
  by_cases hd : e1.parts = e2.parts
  · simp [hd]
  · simp [this e1 (hp.mem_iff.mpr h1) e2 (hp.mem_iff.mpr h2) hd]

theorem cfgBoundaryMix_perm {es es' : List Endpoint} (hp : es.Perm es') (h : cfgBoundaryMix es = false) :
    cfgBoundaryMix es' = false := by
  have := cfgBoundaryMix_false h
  unfold cfgBoundaryMix
  rw [List.any_eq_false]
  intro e2 h2
  simp only [Bool.not_eq_true]
  unfold boundaryMix
  rw [List.any_eq_false]
  intro e1 h1
  simp [this e1 (hp.mem_iff.mpr h1) e2 (hp.mem_iff.mpr h2)]

/-- The policy an index stands for, per method. -/
def polAt (store : List PMap) (ov : Option Nat) (m : String) : Option Policy :=
  match ov with
  | some i => PMap.find? (store.getD i []) m
  | none => none

/-- Values of two builds of the same declarations correspond when they stand for the same policies. -/
def ValRel (pt pt' : PTree) (ov ov' : Option Nat) : Prop :=
  (ov = none ↔ ov' = none) ∧ ∀ m, polAt pt.store ov m = polAt pt'.store ov' m

theorem policy_eta (p : Policy) : p = ⟨p.src⟩ := by cases p; rfl

/-- A binding of one build is a binding of the other (same pattern, any order). -/
theorem pol_transfer {pt pt' : PTree} {es es' : List Endpoint}
    (hinv : Inv pt es) (_hinv' : Inv pt' es') (h2' : Inv2 pt' es')
    (hsub : ∀ x ∈ es, x ∈ es') {q : List Part} {i i' : Nat}
    (hq : (q, some i) ∈ pt.tree) (hq' : (q, some i') ∈ pt'.tree) {m : String} {pol : Policy}
    (hf : PMap.find? (pt.store.getD i []) m = some pol) :
    PMap.find? (pt'.store.getD i' []) m = some pol := by
  obtain ⟨hp, hsrc, hmeth⟩ := hinv.src q i hq m pol (PMap.mem_of_find? hf)
  have hwl : wildLast pol.src.parts = true := by rw [hp]; exact hinv.wl _ hq
  obtain ⟨k', hk', hfind'⟩ := h2'.bind pol.src (hsub _ hsrc) hwl
  rw [hp] at hk'
  have := h2'.coh _ _ _ hk' hq'
  simp only [Option.some.injEq] at this
  subst this
  rw [hmeth] at hfind'
  rw [hfind', ← policy_eta]

theorem valRel_of {pt pt' : PTree} {es es' : List Endpoint}
    (hinv : Inv pt es) (h2 : Inv2 pt es) (hinv' : Inv pt' es') (h2' : Inv2 pt' es')
    (hsub : ∀ x ∈ es, x ∈ es') (hsub' : ∀ x ∈ es', x ∈ es)
    {q : List Part} {ov ov' : Option Nat} (hq : (q, ov) ∈ pt.tree) (hq' : (q, ov') ∈ pt'.tree)
    (hnone : ov = none ↔ ov' = none) : ValRel pt pt' ov ov' := by
  refine ⟨hnone, ?_⟩
  intro m
  cases ov with
  | none => have := hnone.mp rfl; subst this; rfl
  | some i =>
    cases ov' with
    | none => have := hnone.mpr rfl; simp at this
    | some i' =>
      simp only [polAt]
      cases hf : PMap.find? (pt.store.getD i []) m with
      | some pol => exact (pol_transfer hinv hinv' h2' hsub hq hq' hf).symm
      | none =>
        cases hf' : PMap.find? (pt'.store.getD i' []) m with
        | none => rfl
        | some pol' =>
          have := pol_transfer hinv' hinv h2 hsub' hq' hq hf'
          rw [hf] at this
          simp at this

theorem tree_sim {pt pt' : PTree} {es es' : List Endpoint}
    (hinv : Inv pt es) (h2 : Inv2 pt es) (hinv' : Inv pt' es') (h2' : Inv2 pt' es')
    (hsub : ∀ x ∈ es, x ∈ es') (hsub' : ∀ x ∈ es', x ∈ es) :
    Sim (ValRel pt pt') pt.tree pt'.tree := by
  constructor
  · intro q ov hq
    obtain ⟨e, he, hqe, hiff⟩ := hinv.dom q ov hq
    obtain ⟨ov', hov', hiff'⟩ := h2'.covT e (hsub e he)
    rw [← hqe] at hov'
    exact ⟨ov', hov', valRel_of hinv h2 hinv' h2' hsub hsub' hq hov' (hiff.trans hiff'.symm)⟩
  · intro q ov' hq'
    obtain ⟨e, he, hqe, hiff'⟩ := hinv'.dom q ov' hq'
    obtain ⟨ov, hov, hiff⟩ := h2.covT e (hsub' e he)
    rw [← hqe] at hov
    exact ⟨ov, hov, valRel_of hinv h2 hinv' h2' hsub hsub' hov hq' (hiff.trans hiff'.symm)⟩

/-- Two builds of the same declarations (any orders) select the same policy, normalised URL and parameters. -/
theorem select_perm {pt pt' : PTree} {es es' : List Endpoint}
    (hinv : Inv pt es) (h2 : Inv2 pt es) (hinv' : Inv pt' es') (h2' : Inv2 pt' es')
    (hsub : ∀ x ∈ es, x ∈ es') (hsub' : ∀ x ∈ es', x ∈ es)
    (hfl : ∀ e1 ∈ es, ∀ e2 ∈ es, flagsOK e1.parts e2.parts = true) (m : String) (us : List Part) :
    select pt m us = select pt' m us := by
  have hsim := tree_sim hinv h2 hinv' h2' hsub hsub'
  have hR0 : ValRel pt pt' none none := ⟨Iff.rfl, fun _ => rfl⟩
  obtain ⟨_, hval, hpar, hnorm⟩ := lookGo_sim (R := ValRel pt pt') hR0 (fun ov ov' h => h.1) us
    pt.tree pt'.tree none none [] [] hsim (tree_partsOK hinv hfl) hinv.wl (rcoh_of_coh h2) (rcoh_of_coh h2')
    (.inl ⟨rfl, rfl⟩)
  have hl : lookGo pt.tree none [] [] us = lookupParts pt.tree us := rfl
  have hl' : lookGo pt'.tree none [] [] us = lookupParts pt'.tree us := rfl
  rw [hl, hl'] at hval hpar hnorm
  cases hv : (lookupParts pt.tree us).value with
  | none =>
    have hv' : (lookupParts pt'.tree us).value = none := by
      rw [hv] at hval; exact hval.1.mp rfl
    rw [select_none hv, select_none hv', hpar, hnorm]
  | some i =>
    cases hv' : (lookupParts pt'.tree us).value with
    | none => rw [hv, hv'] at hval; have := hval.1.mpr rfl; simp at this
    | some i' =>
      rw [select_some hv, select_some hv', hpar, hnorm]
      rw [hv, hv'] at hval
      have := hval.2 m
      simp only [polAt] at this
      rw [this]


end LunarVerif.C13
