import LunarVerif.Proofs.C19IP
/-! Helper lemmas for C19, part 2: the model's filter agrees with the Spec's `shouldRoute`
(or raises exactly in the class `decisionRaises`), and the invariant tying the breaker state to
the Spec's reference breaker. -/
namespace LunarVerif.C19

/-! ### filter construction -/

theorem mkFilter_valid (cfg : Cfg) : (mkFilter cfg).valid = listsUsable cfg := by
  unfold mkFilter listsUsable allowEntries blockEntries
  cases parseList cfg.block with
  | none =>
    cases (parseList cfg.allow).map (·.filter validEntry) with
    | none => simp
    | some al => cases al <;> simp
  | some bl =>
    cases bl with
    | nil =>
      cases (parseList cfg.allow).map (·.filter validEntry) with
      | none => simp
      | some al => cases al <;> simp
    | cons b bs =>
      cases (parseList cfg.allow).map (·.filter validEntry) with
      | none => simp
      | some al => cases al <;> simp

theorem mkFilter_allow (cfg : Cfg) : (mkFilter cfg).allow = allowEntries cfg := by
  unfold mkFilter allowEntries
  cases parseList cfg.block with
  | none => rfl
  | some bl =>
    cases bl with
    | nil => rfl
    | cons b bs =>
      dsimp only
      split <;> rfl

theorem checkBlocked_spec (cfg : Cfg) (h : Str) (ha : allowEntries cfg = none) :
    checkBlocked (mkFilter cfg) h = !(blockEntries cfg).contains h := by
  unfold allowEntries at ha
  unfold checkBlocked mkFilter blockEntries
  cases hb : parseList cfg.block with
  | none => simp
  | some bl =>
    cases bl with
    | nil => simp
    | cons b bs => simp [ha]

/-! ### DNS -/

theorem resolve_wf (cfg : Cfg) (hw : cfg.wf = true) (h : Str) (a : IPv4)
    (hr : cfg.resolve h = .ip a) : a.wf = true := by
  unfold Cfg.resolve at hr
  cases hf : cfg.dns.find? (fun p => p.1 == h) with
  | none => rw [hf] at hr; simp at hr
  | some p =>
    rw [hf] at hr
    simp only at hr
    have hm := List.mem_of_find?_eq_some hf
    unfold Cfg.wf at hw
    have := List.all_eq_true.mp hw p hm
    rw [hr] at this
    exact this

/-! ### classification of one destination -/

theorem isExternalIp_render (ip : IPv4) (hw : ip.wf = true) :
    isExternalIp (render ip) = .ok (!isPrivate ip) := by
  unfold isExternalIp
  rw [parseIPv4_render ip hw]
  simp only [inNet_render ip hw]

theorem isExternalIp_of_parse (h : Str) (ip : IPv4) (hp : parseIPv4 h = some ip) :
    isExternalIp h = .ok (!isPrivate ip) := by
  obtain ⟨e, hw⟩ := parseIPv4_canon h ip hp
  subst e
  exact isExternalIp_render ip hw

/-- The host-level classification (without cache) is the Spec's `external`, or raises exactly on
    IPv6 literals and on names whose resolution raises `UnicodeError`. -/
theorem isExternalRaw_spec (cfg : Cfg) (hw : cfg.wf = true) (h : Str) :
    match isExternalRaw cfg h with
    | .ok (some b) => external cfg h = b
    | .ok none => external cfg h = false
    | .error _ => ((parseIPv4 h).isNone && isIPv6 h
                    || (!validateIp h && cfg.resolve h == .unicodeErr)) = true := by
  unfold isExternalRaw
  by_cases hv : validateIp h = true
  · simp only [hv, if_true]
    cases hp : parseIPv4 h with
    | some ip =>
      rw [isExternalIp_of_parse h ip hp]
      simp [Except.map, external, destAddr, hp]
    | none =>
      have h6 : isIPv6 h = true := by
        simpa [validateIp, hp] using hv
      simp [isExternalIp, hp, Except.map, h6]
  · have hv' : validateIp h = false := by simpa using hv
    have hp : parseIPv4 h = none := by
      cases hp : parseIPv4 h with
      | none => rfl
      | some ip => simp [validateIp, hp] at hv'
    have h6 : isIPv6 h = false := by
      simpa [validateIp, hp] using hv'
    simp only [hv', Bool.false_eq_true, if_false]
    unfold isExternalDomain
    cases hr : cfg.resolve h with
    | ip a =>
      have hwa := resolve_wf cfg hw h a hr
      simp only [isExternalIp_render a hwa]
      simp [Except.map, external, destAddr, hp, h6, hr]
    | gaierror => simp [external, destAddr, hp, h6, hr]
    | oserror => simp [external, destAddr, hp, h6, hr]
    | herror => simp [external, destAddr, hp, h6, hr]
    | timeout => simp [external, destAddr, hp, h6, hr]
    | unicodeErr => simp [hp, h6]

/-- A destination whose classification raises has no known address: the Spec does not route it. -/
theorem external_false_of_raise (cfg : Cfg) (hw : cfg.wf = true) (h : Str) (e : DecExc)
    (hr : isExternalRaw cfg h = .error e) : external cfg h = false := by
  have hs := isExternalRaw_spec cfg hw h
  rw [hr] at hs
  simp only [Bool.or_eq_true, Bool.and_eq_true, Option.isNone_iff_eq_none, Bool.not_eq_true',
    beq_iff_eq] at hs
  unfold external destAddr
  rcases hs with ⟨hp, h6⟩ | ⟨hv, hres⟩
  · simp [hp, h6]
  · have hp : parseIPv4 h = none := by
      cases hp : parseIPv4 h with
      | none => rfl
      | some ip => simp [validateIp, hp] at hv
    have h6 : isIPv6 h = false := by simpa [validateIp, hp] using hv
    simp [hp, h6, hres]

/-! ### cache -/

/-- Every cached answer is the answer the classification gives now (resolution is fixed). -/
def CacheOk (cfg : Cfg) (c : Cache) : Prop :=
  ∀ h b, cacheGet c h = some b → isExternalRaw cfg h = .ok (some b)

theorem cacheOk_nil (cfg : Cfg) : CacheOk cfg [] := by
  intro h b hc; simp [cacheGet] at hc

theorem cacheOk_cons (cfg : Cfg) (c : Cache) (h : Str) (b : Bool) (hc : CacheOk cfg c)
    (hr : isExternalRaw cfg h = .ok (some b)) : CacheOk cfg ((h, b) :: c) := by
  intro h' b' hg
  unfold cacheGet at hg
  rw [List.find?_cons] at hg
  by_cases he : (h == h') = true
  · simp only [he] at hg
    simp only [Option.map_some, Option.some.injEq] at hg
    have : h = h' := by simpa using he
    subst this; subst hg; exact hr
  · have he' : (h == h') = false := by simpa using he
    simp only [he'] at hg
    exact hc h' b' hg

/-- A classification "now": without a transient fault it is the steady-state classification,
    with one it is `None`. -/
theorem isExternalNow_spec (cfg : Cfg) (lk : Lookups) (h : Str) :
    ((isExternalNow cfg lk h).2.2 = false → (isExternalNow cfg lk h).1 = isExternalRaw cfg h) ∧
    ((isExternalNow cfg lk h).2.2 = true → (isExternalNow cfg lk h).1 = .ok none) := by
  unfold isExternalNow isExternalRaw
  by_cases hv : validateIp h = true
  · simp [hv]
  · have hv' : validateIp h = false := by simpa using hv
    simp only [hv', Bool.false_eq_true, if_false]
    by_cases ht : lookupCount lk h < cfg.transientFor h
    · simp [ht]
    · simp [ht]

/-- `_is_external`: the Spec's `external` unless the resolver failed transiently (then "no", and
    nothing is stored). -/
theorem isExternal_spec (cfg : Cfg) (hw : cfg.wf = true) (c : Cache) (hc : CacheOk cfg c)
    (lk : Lookups) (h : Str) :
    CacheOk cfg (isExternal cfg c lk h).cache ∧
    ((isExternal cfg c lk h).fault = false → (isExternal cfg c lk h).allowed = external cfg h) ∧
    ((isExternal cfg c lk h).fault = true → (isExternal cfg c lk h).allowed = false ∧
      (isExternal cfg c lk h).cache = c) := by
  unfold isExternal
  cases hg : cacheGet c h with
  | some b =>
    have := hc h b hg
    have hs := isExternalRaw_spec cfg hw h
    rw [this] at hs
    simp only at hs
    simp [hs, hc]
  | none =>
    simp only
    obtain ⟨hnf, hf⟩ := isExternalNow_spec cfg lk h
    rcases hn : isExternalNow cfg lk h with ⟨r, lk', f⟩
    rw [hn] at hnf hf
    simp only at hnf hf
    cases f with
    | true =>
      have := hf rfl
      subst this
      simp [hc]
    | false =>
      have hr := hnf rfl
      have hs := isExternalRaw_spec cfg hw h
      cases r with
      | error e =>
        have hx := external_false_of_raise cfg hw h e hr.symm
        simp [hx, hc]
      | ok ob =>
        cases ob with
        | none =>
          rw [← hr] at hs
          simp only at hs
          simp [hs, hc]
        | some b =>
          rw [← hr] at hs
          simp only at hs
          simp only
          refine ⟨cacheOk_cons cfg c h b hc hr.symm, ?_, ?_⟩
          · intro _; exact hs.symm
          · intro hh; exact absurd hh (by simp)

/-- `is_allowed` answers the Spec's `shouldRoute`, unless the resolver failed transiently during
    the decision: then it answers "no" and stores nothing. -/
theorem isAllowed_spec (cfg : Cfg) (hw : cfg.wf = true) (c : Cache) (hc : CacheOk cfg c)
    (lk : Lookups) (h : Str) (hdr : Hdr) :
    CacheOk cfg (isAllowed cfg (mkFilter cfg) c lk h hdr).cache ∧
    ((isAllowed cfg (mkFilter cfg) c lk h hdr).fault = false →
      (isAllowed cfg (mkFilter cfg) c lk h hdr).allowed = shouldRoute cfg h hdr) ∧
    ((isAllowed cfg (mkFilter cfg) c lk h hdr).fault = true →
      (isAllowed cfg (mkFilter cfg) c lk h hdr).allowed = false ∧
      (isAllowed cfg (mkFilter cfg) c lk h hdr).cache = c) := by
  unfold isAllowed
  rw [mkFilter_valid, mkFilter_allow]
  by_cases hu : listsUsable cfg = true
  · simp only [hu, Bool.not_true, Bool.false_eq_true, if_false]
    cases ho : hdrOverride hdr with
    | some b => simp [shouldRoute, hu, ho, hc]
    | none =>
      cases ha : allowEntries cfg with
      | some al => simp [shouldRoute, hu, ho, ha, hc]
      | none =>
        simp only
        rw [checkBlocked_spec cfg h ha]
        by_cases hb : (blockEntries cfg).contains h = true
        · have hm : h ∈ blockEntries cfg := List.contains_iff_mem.mp hb
          simp [shouldRoute, hu, ho, ha, hm, hc]
        · have hb' : (blockEntries cfg).contains h = false := by simpa using hb
          have hm : ¬ h ∈ blockEntries cfg := fun m => hb (List.contains_iff_mem.mpr m)
          simp only [hb', Bool.not_false, if_true]
          obtain ⟨h1, h2, h3⟩ := isExternal_spec cfg hw c hc lk h
          refine ⟨h1, ?_, h3⟩
          intro hf
          rw [h2 hf]
          simp [shouldRoute, hu, ho, ha, hm]
  · have hu' : listsUsable cfg = false := by simpa using hu
    simp [shouldRoute, hu', hc]

/-! ### breaker invariant -/

/-- Model state vs. the Spec's reference breaker. -/
structure Rel (cfg : Cfg) (s : St) (r : Ref) : Prop where
  cnt : s.cnt = r.streak
  opened : s.ok = false → r.trip = some s.start
  closed : s.ok = true → r.isOpen cfg s.now = false
  cache : CacheOk cfg s.cache

theorem rel_init (cfg : Cfg) (t0 : Nat) : Rel cfg (St.init t0) Ref.init := by
  constructor
  · rfl
  · intro h; simp [St.init] at h
  · intro _; simp [Ref.init, Ref.isOpen]
  · exact cacheOk_nil cfg

theorem coolTicks_pos (cfg : Cfg) : 0 < cfg.coolTicks := by
  unfold Cfg.coolTicks Cfg.coolEff ticksPerSec
  split <;> omega

theorem stateOk_spec (cfg : Cfg) (s : St) (r : Ref) (hrel : Rel cfg s r) :
    Rel cfg (stateOk cfg s) r ∧ (stateOk cfg s).now = s.now ∧ (stateOk cfg s).cnt = s.cnt ∧
    (stateOk cfg s).cache = s.cache ∧ (stateOk cfg s).start = s.start ∧
    (stateOk cfg s).ok = !(r.isOpen cfg s.now) := by
  obtain ⟨hcnt, hop, hcl, hca⟩ := hrel
  have hpos := coolTicks_pos cfg
  cases hok : s.ok with
  | true =>
    have e : stateOk cfg s = s := by simp [stateOk, hok]
    rw [e]
    refine ⟨⟨hcnt, hop, hcl, hca⟩, rfl, rfl, rfl, rfl, ?_⟩
    rw [hcl hok, hok]; rfl
  | false =>
    have ht := hop hok
    by_cases hcool : cfg.coolTicks ≤ s.now - s.start
    · have e : stateOk cfg s = { s with ok := true } := by simp [stateOk, hok, hcool]
      rw [e]
      have hno : r.isOpen cfg s.now = false := by
        simp only [Ref.isOpen, ht, decide_eq_false_iff_not]; omega
      refine ⟨⟨hcnt, ?_, ?_, hca⟩, rfl, rfl, rfl, rfl, ?_⟩
      · intro h; simp at h
      · intro _; exact hno
      · simp [hno]
    · have e : stateOk cfg s = s := by simp [stateOk, hok, hcool]
      rw [e]
      have hyes : r.isOpen cfg s.now = true := by
        simp only [Ref.isOpen, ht, decide_eq_true_eq]
        omega
      refine ⟨⟨hcnt, hop, hcl, hca⟩, rfl, rfl, rfl, rfl, ?_⟩
      rw [hyes, hok]; rfl

theorem onError_spec (cfg : Cfg) (s : St) :
    (onError cfg s).cnt = s.cnt + 1 ∧ (onError cfg s).now = s.now ∧ (onError cfg s).cache = s.cache ∧
    (if cfg.maxEff ≤ s.cnt + 1 then (onError cfg s).ok = false ∧ (onError cfg s).start = s.now
     else (onError cfg s).ok = s.ok ∧ (onError cfg s).start = s.start) := by
  unfold onError
  by_cases h : cfg.maxEff ≤ s.cnt + 1
  · have h' : ¬ cfg.maxEff > s.cnt + 1 := by omega
    simp [h, h']
  · have h' : cfg.maxEff > s.cnt + 1 := by omega
    simp [h, h']

/-- One call: the invariant is kept and the observed event satisfies the Spec. -/
theorem call_spec (cfg : Cfg) (hw : cfg.wf = true) (s : St) (r : Ref) (hrel : Rel cfg s r)
    (c : CallIn) :
    Rel cfg (call cfg s c).1 (r.next cfg ⟨s.now, c, (call cfg s c).2, callFault cfg s c⟩) ∧
    (call cfg s c).1.now = s.now ∧
    eventOk cfg r ⟨s.now, c, (call cfg s c).2, callFault cfg s c⟩ = true := by
  obtain ⟨hrel1, hnow, hcnt1, hcache1, hstart1, hok1⟩ := stateOk_spec cfg s r hrel
  unfold call callFault
  generalize stateOk cfg s = s1 at *
  obtain ⟨hcnt, hop, hcl, hca⟩ := hrel1
  by_cases hopen : r.isOpen cfg s.now = true
  · -- breaker open: straight to the provider, counter reset
    have hokf : s1.ok = false := by rw [hok1, hopen]; rfl
    simp only [hokf, Bool.false_eq_true, if_false, directLeg, List.nil_append, Bool.false_and]
    have hnext : r.next cfg ⟨s.now, c, ⟨[.direct], directResult c⟩, false⟩ = ⟨0, r.trip⟩ := by
      simp [Ref.next, gwTried]
    rw [hnext]
    refine ⟨⟨rfl, ?_, ?_, hca⟩, hnow, ?_⟩
    · intro _; exact hop hokf
    · intro h; first | exact absurd h (by simp) | (simp only at h; rw [hokf] at h; exact absurd h (by simp))
    · simp [eventOk, noSwallow, cooldownRespected, filterRespected, recovers, gwTried, hopen]
  · -- breaker closed
    have hopen' : r.isOpen cfg s.now = false := by simpa using hopen
    have hokt : s1.ok = true := by rw [hok1, hopen']; rfl
    have hcl' : r.isOpen cfg s1.now = false := hcl hokt
    simp only [hokt, if_true, Bool.true_and]
    obtain ⟨hca', hnf, hf⟩ := isAllowed_spec cfg hw s1.cache hca s1.lookups c.host c.hdr
    rcases hal : isAllowed cfg (mkFilter cfg) s1.cache s1.lookups c.host c.hdr with ⟨b, cache, lk', f⟩
    rw [hal] at hca' hnf hf
    simp only at hca' hnf hf
    cases b with
    | false =>
      have hroute : shouldRoute cfg c.host c.hdr = false ∨ f = true := by
        cases f with
        | true => right; rfl
        | false => left; exact (hnf rfl).symm
      simp only [directLeg, List.nil_append, Bool.false_eq_true, if_false]
      have hnext : r.next cfg ⟨s.now, c, ⟨[.direct], directResult c⟩, f⟩ = ⟨0, r.trip⟩ := by
        simp [Ref.next, gwTried]
      rw [hnext]
      refine ⟨⟨rfl, ?_, ?_, hca'⟩, hnow, ?_⟩
      · intro h; first | exact absurd h (by simp) | (simp only at h; rw [hokt] at h; exact absurd h (by simp))
      · intro _; exact hcl'
      · rcases hroute with hroute | hroute <;>
          simp [eventOk, noSwallow, cooldownRespected, filterRespected, recovers, gwTried, hopen', hroute]
    | true =>
      have hff : f = false := by
        cases f with
        | false => rfl
        | true => exact absurd (hf rfl).1 (by simp)
      subst hff
      have hroute : shouldRoute cfg c.host c.hdr = true := (hnf rfl).symm
      simp only [gwLeg, if_true]
      cases hg : c.gw with
      | ok =>
        simp only
        have hnext : r.next cfg ⟨s.now, c, ⟨[.gw], .respGw⟩, false⟩ = ⟨0, r.trip⟩ := by
          simp [Ref.next, gwTried, hg, GwOut.failed]
        rw [hnext]
        refine ⟨⟨rfl, ?_, ?_, hca'⟩, hnow, ?_⟩
        · intro h; first | exact absurd h (by simp) | (simp only at h; rw [hokt] at h; exact absurd h (by simp))
        · intro _; exact hcl'
        · simp [eventOk, noSwallow, cooldownRespected, filterRespected, recovers, gwTried, hopen', hroute, hg]
      | appExc =>
        simp only
        have hnext : r.next cfg ⟨s.now, c, ⟨[.gw], .raiseGwApp⟩, false⟩ = r := by
          simp [Ref.next, gwTried, hg, GwOut.failed]
        rw [hnext]
        refine ⟨⟨hcnt, ?_, ?_, hca'⟩, hnow, ?_⟩
        · intro h; first | exact absurd h (by simp) | (simp only at h; rw [hokt] at h; exact absurd h (by simp))
        · intro _; exact hcl'
        · simp [eventOk, noSwallow, cooldownRespected, filterRespected, recovers, gwTried, hopen', hroute, hg]
      | connErr =>
        simp only [directLeg, List.cons_append, List.nil_append]
        obtain ⟨e1, e2, e3, e4⟩ := onError_spec cfg { cnt := s1.cnt, ok := true, start := s1.start, now := s1.now, cache := cache, lookups := lk' }
        simp only at e1 e2 e3 e4
        have hnext : r.next cfg ⟨s.now, c, ⟨[.gw, .direct], directResult c⟩, false⟩ =
            ⟨r.streak + 1, if decide (cfg.maxEff ≤ r.streak + 1) then some s.now else r.trip⟩ := by
          simp [Ref.next, gwTried, hg, GwOut.failed]
        rw [hnext]
        refine ⟨⟨by rw [e1, hcnt], ?_, ?_, by rw [e3]; exact hca'⟩, by rw [e2]; exact hnow, ?_⟩
        · intro hf
          by_cases hm : cfg.maxEff ≤ s1.cnt + 1
          · simp only [hm, if_true] at e4
            have hm' : cfg.maxEff ≤ r.streak + 1 := by rw [← hcnt]; exact hm
            simp only [hm', decide_true, if_true]
            rw [e4.2, hnow]
          · simp only [hm, if_false] at e4
            rw [e4.1] at hf; exact absurd hf (by simp)
        · intro ht
          by_cases hm : cfg.maxEff ≤ s1.cnt + 1
          · simp only [hm, if_true] at e4
            rw [e4.1] at ht; exact absurd ht (by simp)
          · simp only [hm, if_false] at e4
            have hm' : ¬ cfg.maxEff ≤ r.streak + 1 := by rw [← hcnt]; exact hm
            simp only [hm', decide_false, Bool.false_eq_true, if_false]
            rw [e2]; exact hcl'
        · simp [eventOk, noSwallow, cooldownRespected, filterRespected, recovers, gwTried, hopen', hroute, hg, GwOut.failed]
      | errHdr v =>
        simp only [directLeg, List.cons_append, List.nil_append]
        obtain ⟨e1, e2, e3, e4⟩ := onError_spec cfg { cnt := s1.cnt, ok := true, start := s1.start, now := s1.now, cache := cache, lookups := lk' }
        simp only at e1 e2 e3 e4
        have hnext : r.next cfg ⟨s.now, c, ⟨[.gw, .direct], directResult c⟩, false⟩ =
            ⟨r.streak + 1, if decide (cfg.maxEff ≤ r.streak + 1) then some s.now else r.trip⟩ := by
          simp [Ref.next, gwTried, hg, GwOut.failed]
        rw [hnext]
        refine ⟨⟨by rw [e1, hcnt], ?_, ?_, by rw [e3]; exact hca'⟩, by rw [e2]; exact hnow, ?_⟩
        · intro hf
          by_cases hm : cfg.maxEff ≤ s1.cnt + 1
          · simp only [hm, if_true] at e4
            have hm' : cfg.maxEff ≤ r.streak + 1 := by rw [← hcnt]; exact hm
            simp only [hm', decide_true, if_true]
            rw [e4.2, hnow]
          · simp only [hm, if_false] at e4
            rw [e4.1] at hf; exact absurd hf (by simp)
        · intro ht
          by_cases hm : cfg.maxEff ≤ s1.cnt + 1
          · simp only [hm, if_true] at e4
            rw [e4.1] at ht; exact absurd ht (by simp)
          · simp only [hm, if_false] at e4
            have hm' : ¬ cfg.maxEff ≤ r.streak + 1 := by rw [← hcnt]; exact hm
            simp only [hm', decide_false, Bool.false_eq_true, if_false]
            rw [e2]; exact hcl'
        · simp [eventOk, noSwallow, cooldownRespected, filterRespected, recovers, gwTried, hopen', hroute, hg, GwOut.failed]

/-! ### case analysis of one call (for the state-level theorems) -/

theorem directResult_ne_respGw (c : CallIn) : directResult c ≠ .respGw := by
  unfold directResult; cases c.direct <;> simp

theorem stateOk_fields (cfg : Cfg) (s : St) :
    (stateOk cfg s).cnt = s.cnt ∧ (stateOk cfg s).start = s.start ∧ (stateOk cfg s).now = s.now := by
  unfold stateOk; split <;> exact ⟨rfl, rfl, rfl⟩

theorem call_cases (cfg : Cfg) (s : St) (c : CallIn) :
    ((stateOk cfg s).ok = false ∧
      call cfg s c = directLeg { stateOk cfg s with cnt := 0 } [] c) ∨
    ((stateOk cfg s).ok = true ∧ ∃ cache lk,
      call cfg s c = directLeg { stateOk cfg s with cache := cache, lookups := lk, cnt := 0 } [] c) ∨
    ((stateOk cfg s).ok = true ∧ ∃ cache lk,
      call cfg s c = gwLeg cfg { stateOk cfg s with cache := cache, lookups := lk } c) := by
  unfold call
  generalize stateOk cfg s = s1
  by_cases hok : s1.ok = true
  · right
    simp only [hok, if_true, true_and]
    rcases hal : isAllowed cfg (mkFilter cfg) s1.cache s1.lookups c.host c.hdr with ⟨b, cache, lk, f⟩
    cases b with
    | false => left; exact ⟨cache, lk, by simp⟩
    | true => right; exact ⟨cache, lk, by simp⟩
  · have hok' : s1.ok = false := by simpa using hok
    left
    simp [hok']

/-- Every call contacts at least one leg. -/
theorem call_sent_ne_nil (cfg : Cfg) (s : St) (c : CallIn) : (call cfg s c).2.sent ≠ [] := by
  rcases call_cases cfg s c with ⟨_, e⟩ | ⟨_, x, y, e⟩ | ⟨_, x, y, e⟩ <;> rw [e]
  · simp [directLeg]
  · simp [directLeg]
  · unfold gwLeg
    cases c.gw <;> simp [directLeg]

/-! ### whole runs -/

theorem isOpen_mono (cfg : Cfg) (r : Ref) (t t' : Nat) (h : r.isOpen cfg t = false) (hle : t ≤ t') :
    r.isOpen cfg t' = false := by
  unfold Ref.isOpen at *
  cases ht : r.trip with
  | none => rfl
  | some T =>
    rw [ht] at h
    simp only [decide_eq_false_iff_not] at h ⊢
    omega

theorem adv_rel (cfg : Cfg) (s : St) (r : Ref) (d : Nat) (h : Rel cfg s r) :
    Rel cfg { s with now := s.now + d } r := by
  obtain ⟨h1, h2, h3, h4⟩ := h
  exact ⟨h1, h2, fun hk => isOpen_mono cfg r s.now (s.now + d) (h3 hk) (by omega), h4⟩

theorem decide_rel (cfg : Cfg) (hw : cfg.wf = true) (s : St) (r : Ref) (h : Str) (hdr : Hdr)
    (hrel : Rel cfg s r) :
    Rel cfg { s with cache := (isAllowed cfg (mkFilter cfg) s.cache s.lookups h hdr).cache,
                     lookups := (isAllowed cfg (mkFilter cfg) s.cache s.lookups h hdr).lookups } r := by
  obtain ⟨h1, h2, h3, h4⟩ := hrel
  exact ⟨h1, h2, h3, (isAllowed_spec cfg hw s.cache h4 s.lookups h hdr).1⟩

theorem run_holds (cfg : Cfg) (hw : cfg.wf = true) (is : List Input) :
    ∀ (s : St) (r : Ref), Rel cfg s r → holdsFrom cfg r (run cfg s is) = true := by
  induction is with
  | nil => intro s r _; rfl
  | cons i is ih =>
    intro s r hrel
    cases i with
    | adv d =>
      simp only [run, step]
      exact ih _ _ (adv_rel cfg s r d hrel)
    | call c =>
      obtain ⟨h1, _, h3⟩ := call_spec cfg hw s r hrel c
      simp only [run, step, holdsFrom, Bool.and_eq_true]
      exact ⟨h3, ih _ _ h1⟩
    | decide h hdr =>
      simp only [run, step]
      exact ih _ _ (decide_rel cfg hw s r h hdr hrel)

/-- Every direct question to the filter, asked anywhere in a run, is answered by the routing rule. -/
theorem runDec_ok (cfg : Cfg) (hw : cfg.wf = true) (is : List Input) :
    ∀ (s : St) (r : Ref), Rel cfg s r → decisionsOk cfg (runDec cfg s is) = true := by
  induction is with
  | nil => intro s r _; rfl
  | cons i is ih =>
    intro s r hrel
    cases i with
    | adv d =>
      simp only [runDec, step]
      exact ih _ _ (adv_rel cfg s r d hrel)
    | call c =>
      obtain ⟨h1, _, _⟩ := call_spec cfg hw s r hrel c
      simp only [runDec, step]
      exact ih _ _ h1
    | decide h hdr =>
      obtain ⟨_, hnf, hf⟩ := isAllowed_spec cfg hw s.cache hrel.cache s.lookups h hdr
      have := ih _ _ (decide_rel cfg hw s r h hdr hrel)
      simp only [runDec, step, decisionsOk, List.all_cons, Bool.and_eq_true]
      refine ⟨?_, this⟩
      cases hfl : (isAllowed cfg (mkFilter cfg) s.cache s.lookups h hdr).fault with
      | true => simp [(hf hfl).1]
      | false => simp [hnf hfl]

/-- A resolver failure of any modelled kind - also a transient one - is "cannot classify": not
    external, nothing cached. -/
theorem isExternal_of_resolver_failure (cfg : Cfg) (c : Cache) (lk : Lookups) (h : Str)
    (hv : validateIp h = false) (hc : cacheGet c h = none)
    (hr : ∀ a, cfg.resolve h ≠ .ip a) :
    (isExternal cfg c lk h).allowed = false ∧ (isExternal cfg c lk h).cache = c := by
  unfold isExternal isExternalNow isExternalDomain
  simp only [hc, hv, Bool.false_eq_true, if_false]
  by_cases ht : lookupCount lk h < cfg.transientFor h
  · simp [ht]
  · simp only [ht, if_false]
    cases hres : cfg.resolve h with
    | ip a => exact absurd hres (hr a)
    | gaierror => simp
    | oserror => simp
    | herror => simp
    | timeout => simp
    | unicodeErr => simp

/-- A transient resolver failure is not remembered: the cache is untouched and the answer is "no". -/
theorem isExternal_of_transient (cfg : Cfg) (c : Cache) (lk : Lookups) (h : Str)
    (hv : validateIp h = false) (hc : cacheGet c h = none)
    (ht : lookupCount lk h < cfg.transientFor h) :
    isExternal cfg c lk h = ⟨false, c, bumpLookup lk h, true⟩ := by
  unfold isExternal isExternalNow
  simp [hc, hv, ht]

/-! ### consequences of the Spec predicate on histories -/

theorem holdsFrom_append (cfg : Cfg) (a b : List Obs) :
    ∀ r, holdsFrom cfg r (a ++ b) =
      (holdsFrom cfg r a && holdsFrom cfg (a.foldl (Ref.next cfg) r) b) := by
  induction a with
  | nil => intro r; simp [holdsFrom]
  | cons x xs ih => intro r; simp [holdsFrom, ih, Bool.and_assoc]

theorem holdsFrom_head (cfg : Cfg) (r : Ref) (o : Obs) (rest : List Obs)
    (h : holdsFrom cfg r (o :: rest) = true) : eventOk cfg r o = true := by
  simp only [holdsFrom, Bool.and_eq_true] at h; exact h.1

theorem holdsFrom_mem (cfg : Cfg) (l : List Obs) :
    ∀ r, holdsFrom cfg r l = true → ∀ o ∈ l, ∃ r', eventOk cfg r' o = true := by
  induction l with
  | nil => intro r _ o ho; simp at ho
  | cons x xs ih =>
    intro r h o ho
    simp only [holdsFrom, Bool.and_eq_true] at h
    rcases List.mem_cons.mp ho with e | hm
    · subst e; exact ⟨r, h.1⟩
    · exact ih _ h.2 o hm

/-- A gateway-side failure of a routed call advances the reference breaker. -/
theorem next_fail (cfg : Cfg) (r : Ref) (o : Obs) (h1 : gwTried o = true) (h2 : o.inp.gw.failed = true) :
    r.next cfg o = ⟨r.streak + 1, if decide (cfg.maxEff ≤ r.streak + 1) then some o.t else r.trip⟩ := by
  simp [Ref.next, h1, h2]

theorem next_notTried_trip (cfg : Cfg) (r : Ref) (o : Obs) (h1 : gwTried o = false) :
    (r.next cfg o).trip = r.trip := by
  unfold Ref.next
  simp only [h1, Bool.false_eq_true, if_false]
  split <;> rfl

theorem foldl_fails_streak (cfg : Cfg) (l : List Obs)
    (hf : ∀ x ∈ l, gwTried x = true ∧ x.inp.gw.failed = true) :
    ∀ r, (l.foldl (Ref.next cfg) r).streak = r.streak + l.length := by
  induction l with
  | nil => intro r; rfl
  | cons x xs ih =>
    intro r
    have hx := hf x (by simp)
    simp only [List.foldl_cons]
    rw [ih (fun y hy => hf y (List.mem_cons_of_mem _ hy)), next_fail cfg r x hx.1 hx.2]
    simp only [List.length_cons]; omega

/-- After `max` (or more) consecutive gateway-side failures the trip instant is that of the last. -/
theorem trip_after_fails (cfg : Cfg) (r : Ref) (init : List Obs) (f : Obs)
    (hf : ∀ x ∈ init ++ [f], gwTried x = true ∧ x.inp.gw.failed = true)
    (hlen : cfg.maxEff ≤ init.length + 1) :
    ((init ++ [f]).foldl (Ref.next cfg) r).trip = some f.t := by
  rw [List.foldl_append]
  simp only [List.foldl_cons, List.foldl_nil]
  have hs := foldl_fails_streak cfg init (fun x hx => hf x (by simp [hx])) r
  have hx := hf f (by simp)
  rw [next_fail cfg _ f hx.1 hx.2, hs]
  have : cfg.maxEff ≤ r.streak + init.length + 1 := by omega
  simp [this]

/-- While every call falls inside the cool-down, the trip instant does not move. -/
theorem trip_stable (cfg : Cfg) (T : Nat) (mid : List Obs) :
    ∀ r, r.trip = some T → holdsFrom cfg r mid = true →
      (∀ x ∈ mid, x.t < T + cfg.coolTicks) → (mid.foldl (Ref.next cfg) r).trip = some T := by
  induction mid with
  | nil => intro r h _ _; exact h
  | cons x xs ih =>
    intro r ht hh hm
    simp only [holdsFrom, Bool.and_eq_true] at hh
    have hopen : r.isOpen cfg x.t = true := by
      simp only [Ref.isOpen, ht, decide_eq_true_eq]; exact hm x (by simp)
    have hng : gwTried x = false := by
      have h1 := hh.1
      simp only [eventOk, cooldownRespected, hopen, Bool.and_eq_true, Bool.not_true,
        Bool.false_or, Bool.not_eq_true'] at h1
      exact h1.1.1.2
    simp only [List.foldl_cons]
    apply ih _ _ hh.2 (fun y hy => hm y (List.mem_cons_of_mem _ hy))
    rw [next_notTried_trip cfg r x hng]; exact ht

theorem noSwallow_direct_only (o : Obs) (h1 : noSwallow o = true) (h2 : gwTried o = false) :
    o.out.sent = [.direct] ∧ o.out.result = directResult o.inp := by
  unfold noSwallow at h1
  unfold gwTried at h2
  split at h1
  · rename_i hs; rw [hs] at h2; simp at h2
  · rename_i hs; exact ⟨hs, by simpa using h1⟩
  · rename_i hs; rw [hs] at h2; simp at h2
  · exact absurd h1 (by simp)

/-- Destinations the classification cannot place (an IPv6 literal; a name whose resolution
    raises `UnicodeError`) are not routed unless a header or allow list says so. -/
theorem unclassifiable_not_external (cfg : Cfg) (h : Str)
    (hx : ((parseIPv4 h).isNone && isIPv6 h || (!validateIp h && cfg.resolve h == .unicodeErr)) = true) :
    external cfg h = false := by
  simp only [Bool.or_eq_true, Bool.and_eq_true, Option.isNone_iff_eq_none, Bool.not_eq_true',
    beq_iff_eq] at hx
  unfold external destAddr
  rcases hx with ⟨hp, h6⟩ | ⟨hv, hr⟩
  · simp [hp, h6]
  · have hp : parseIPv4 h = none := by
      cases hp : parseIPv4 h with
      | none => rfl
      | some ip => simp [validateIp, hp] at hv
    have h6 : isIPv6 h = false := by simpa [validateIp, hp] using hv
    simp [hp, h6, hr]

/-- No IPv4 literal and no resolved address: the Spec does not call the destination external. -/
theorem external_false_of_no_addr (cfg : Cfg) (h : Str) (hp : parseIPv4 h = none)
    (hr : ∀ a, cfg.resolve h ≠ .ip a) : external cfg h = false := by
  have hd : destAddr cfg h = none := by
    unfold destAddr
    simp only [hp]
    split
    · rfl
    · cases hres : cfg.resolve h with
      | ip a => exact absurd hres (hr a)
      | _ => rfl
  simp [external, hd]

theorem isAllowed_of_resolver_failure (cfg : Cfg) (c : Cache) (lk : Lookups) (h : Str) (hdr : Hdr)
    (hh : hdrOverride hdr = none) (ha : (mkFilter cfg).allow = none)
    (hv : validateIp h = false) (hc : cacheGet c h = none)
    (hr : ∀ a, cfg.resolve h ≠ .ip a) :
    (isAllowed cfg (mkFilter cfg) c lk h hdr).allowed = false ∧
    (isAllowed cfg (mkFilter cfg) c lk h hdr).cache = c := by
  unfold isAllowed
  simp only [hh, ha]
  split
  · exact ⟨rfl, rfl⟩
  · split
    · exact isExternal_of_resolver_failure cfg c lk h hv hc hr
    · exact ⟨rfl, rfl⟩

end LunarVerif.C19
