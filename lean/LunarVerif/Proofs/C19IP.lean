import LunarVerif.Spec.C19
/-! Helper lemmas for C19, part 1: dotted-quad parsing / rendering round trip and the
classification of every IPv4 address by the two-character prefix table. -/
namespace LunarVerif.C19

/-! ### splitting -/

theorem splitOnC_ne_nil (sep : Char) (s : Str) : splitOnC sep s ≠ [] := by
  induction s with
  | nil => simp [splitOnC]
  | cons c cs ih =>
    unfold splitOnC
    split
    · simp
    · split
      · simp
      · simp

theorem splitOnC_nosep (sep : Char) (s : Str) (h : sep ∉ s) : splitOnC sep s = [s] := by
  induction s with
  | nil => simp [splitOnC]
  | cons c cs ih =>
    have hc : c ≠ sep := fun e => h (by simp [e])
    have hcs : sep ∉ cs := fun m => h (by simp [m])
    unfold splitOnC
    simp only [hc, if_false, ih hcs]

theorem splitOnC_append (sep : Char) (xs ys : Str) (h : sep ∉ xs) :
    splitOnC sep (xs ++ sep :: ys) = xs :: splitOnC sep ys := by
  induction xs with
  | nil => simp [splitOnC]
  | cons c cs ih =>
    have hc : c ≠ sep := fun e => h (by simp [e])
    have hcs : sep ∉ cs := fun m => h (by simp [m])
    simp only [List.cons_append]
    rw [splitOnC]
    simp only [hc, if_false, ih hcs]

/-- Inverse of `splitOnC`. -/
def joinC (sep : Char) : List Str → Str
  | [] => []
  | [x] => x
  | x :: y :: rest => x ++ sep :: joinC sep (y :: rest)

theorem joinC_splitOnC (sep : Char) (s : Str) : joinC sep (splitOnC sep s) = s := by
  induction s with
  | nil => simp [splitOnC, joinC]
  | cons c cs ih =>
    unfold splitOnC
    by_cases hc : c = sep
    · simp only [hc, if_true]
      cases hs : splitOnC sep cs with
      | nil => exact absurd hs (splitOnC_ne_nil sep cs)
      | cons p ps => rw [hs] at ih; simp [joinC, ih]
    · simp only [hc, if_false]
      cases hs : splitOnC sep cs with
      | nil => exact absurd hs (splitOnC_ne_nil sep cs)
      | cons p ps =>
        rw [hs] at ih
        cases ps with
        | nil => simp only [joinC] at ih ⊢; rw [ih]
        | cons q qs => simp only [joinC, List.cons_append] at ih ⊢; rw [ih]

/-! ### octets -/

theorem parseOctet_render_fin : ∀ n : Fin 256, parseOctet (renderOctet n.val) = some n.val := by
  decide +kernel

theorem parseOctet_render (n : Nat) (h : n < 256) : parseOctet (renderOctet n) = some n :=
  parseOctet_render_fin ⟨n, h⟩

theorem renderOctet_nodot_fin : ∀ n : Fin 256, (renderOctet n.val).contains '.' = false := by
  decide +kernel

theorem renderOctet_noslash_fin : ∀ n : Fin 256, (renderOctet n.val).contains '/' = false := by
  decide +kernel

theorem renderOctet_nodot (n : Nat) (h : n < 256) : '.' ∉ renderOctet n := by
  have := renderOctet_nodot_fin ⟨n, h⟩
  intro hm
  have h2 : (renderOctet n).contains '.' = true := List.contains_iff_mem.mpr hm
  simp only at this
  rw [this] at h2
  exact Bool.noConfusion h2

theorem renderOctet_noslash (n : Nat) (h : n < 256) : '/' ∉ renderOctet n := by
  have := renderOctet_noslash_fin ⟨n, h⟩
  intro hm
  have h2 : (renderOctet n).contains '/' = true := List.contains_iff_mem.mpr hm
  simp only at this
  rw [this] at h2
  exact Bool.noConfusion h2

theorem digit_eq (c : Char) (h : isAsciiDigit c = true) : c = digitChar (c.toNat - 48) := by
  simp only [isAsciiDigit, Bool.and_eq_true, decide_eq_true_eq] at h
  unfold digitChar
  have : 48 + (c.toNat - 48) = c.toNat := by omega
  rw [this, Char.ofNat_toNat]

theorem toNat_ne_of_ne_zero (c : Char) (h : (some c == some '0') = false) : c.toNat ≠ 48 := by
  intro e
  have := Char.ofNat_toNat c
  rw [e] at this
  have hc : c = '0' := this.symm
  subst hc
  simp at h

/-- A string accepted by `_parse_octet` is the canonical rendering of its value. -/
theorem parseOctet_canon (s : Str) (n : Nat) (h : parseOctet s = some n) :
    s = renderOctet n ∧ n < 256 := by
  unfold parseOctet at h
  split at h
  · exact absurd h (by simp)
  split at h
  · exact absurd h (by simp)
  split at h
  · exact absurd h (by simp)
  split at h
  · exact absurd h (by simp)
  split at h
  · exact absurd h (by simp)
  rename_i hne hdig hlen hlead hval
  simp only [Option.some.injEq] at h
  simp only [Bool.not_eq_true', Bool.not_eq_false] at hdig
  simp only [decide_eq_true_eq, Nat.not_lt] at hlen hval
  match s, hne, hdig, hlen, hlead, hval, h with
  | [], hne, _, _, _, _, _ => simp at hne
  | [x], _, hdig, _, _, hval, h =>
    simp only [List.all_cons, List.all_nil, Bool.and_true] at hdig
    have hx := hdig
    simp only [isAsciiDigit, Bool.and_eq_true, decide_eq_true_eq] at hx
    simp only [decVal, List.foldl] at h hval
    have hn : n < 10 := by omega
    refine ⟨?_, by omega⟩
    simp only [renderOctet, hn, if_true]
    rw [digit_eq x hdig]
    congr 2
    omega
  | [x, y], _, hdig, _, hlead, hval, h =>
    simp only [List.all_cons, List.all_nil, Bool.and_true, Bool.and_eq_true] at hdig
    have hx := hdig.1
    have hy := hdig.2
    simp only [isAsciiDigit, Bool.and_eq_true, decide_eq_true_eq] at hx hy
    have hx0 : x.toNat ≠ 48 := by
      apply toNat_ne_of_ne_zero
      simpa using hlead
    simp only [decVal, List.foldl] at h hval
    have h1 : ¬ n < 10 := by omega
    have h2 : n < 100 := by omega
    refine ⟨?_, by omega⟩
    simp only [renderOctet, h1, h2, if_true, if_false]
    rw [digit_eq x hdig.1, digit_eq y hdig.2]
    have e1 : n / 10 = x.toNat - 48 := by omega
    have e2 : n % 10 = y.toNat - 48 := by omega
    rw [e1, e2]
  | [x, y, z], _, hdig, _, hlead, hval, h =>
    simp only [List.all_cons, List.all_nil, Bool.and_true, Bool.and_eq_true] at hdig
    have hx := hdig.1
    have hy := hdig.2.1
    have hz := hdig.2.2
    simp only [isAsciiDigit, Bool.and_eq_true, decide_eq_true_eq] at hx hy hz
    have hx0 : x.toNat ≠ 48 := by
      apply toNat_ne_of_ne_zero
      simpa using hlead
    simp only [decVal, List.foldl] at h hval
    have h1 : ¬ n < 10 := by omega
    have h2 : ¬ n < 100 := by omega
    refine ⟨?_, by omega⟩
    simp only [renderOctet, h1, h2, if_false]
    rw [digit_eq x hdig.1, digit_eq y hdig.2.1, digit_eq z hdig.2.2]
    have e1 : n / 100 = x.toNat - 48 := by omega
    have e2 : n / 10 % 10 = y.toNat - 48 := by omega
    have e3 : n % 10 = z.toNat - 48 := by omega
    rw [e1, e2, e3]
  | _ :: _ :: _ :: _ :: _, _, _, hlen, _, _, _ => simp at hlen

/-! ### dotted quads -/

theorem render_noslash (ip : IPv4) (h : ip.wf = true) : (render ip).contains '/' = false := by
  simp only [IPv4.wf, Bool.and_eq_true, decide_eq_true_eq] at h
  obtain ⟨⟨⟨ha, hb⟩, hc⟩, hd⟩ := h
  have := renderOctet_noslash ip.a ha
  have := renderOctet_noslash ip.b hb
  have := renderOctet_noslash ip.c hc
  have := renderOctet_noslash ip.d hd
  rw [Bool.eq_false_iff]
  intro hm
  have hm' := List.contains_iff_mem.mp hm
  simp only [render, List.mem_append, List.mem_cons] at hm'
  have hne : ('/' : Char) ≠ '.' := by decide
  rcases hm' with h1 | h1 | h1 | h1 | h1 | h1 | h1 <;> first | contradiction | exact hne h1

theorem splitOnC_render (ip : IPv4) (h : ip.wf = true) :
    splitOnC '.' (render ip) = [renderOctet ip.a, renderOctet ip.b, renderOctet ip.c, renderOctet ip.d] := by
  simp only [IPv4.wf, Bool.and_eq_true, decide_eq_true_eq] at h
  obtain ⟨⟨⟨ha, hb⟩, hc⟩, hd⟩ := h
  unfold render
  rw [splitOnC_append _ _ _ (renderOctet_nodot _ ha), splitOnC_append _ _ _ (renderOctet_nodot _ hb),
    splitOnC_append _ _ _ (renderOctet_nodot _ hc), splitOnC_nosep _ _ (renderOctet_nodot _ hd)]

/-- Rendering then parsing is the identity on well-formed addresses. -/
theorem parseIPv4_render (ip : IPv4) (h : ip.wf = true) : parseIPv4 (render ip) = some ip := by
  have hw := h
  simp only [IPv4.wf, Bool.and_eq_true, decide_eq_true_eq] at hw
  obtain ⟨⟨⟨ha, hb⟩, hc⟩, hd⟩ := hw
  unfold parseIPv4
  rw [render_noslash ip h, splitOnC_render ip h]
  simp only [Bool.false_eq_true, if_false, parseOctet_render _ ha, parseOctet_render _ hb,
    parseOctet_render _ hc, parseOctet_render _ hd]

/-- A string `IPv4Address` accepts is the canonical rendering of a well-formed address. -/
theorem parseIPv4_canon (s : Str) (ip : IPv4) (h : parseIPv4 s = some ip) :
    s = render ip ∧ ip.wf = true := by
  unfold parseIPv4 at h
  split at h
  · exact absurd h (by simp)
  split at h
  · rename_i p q r t hs
    split at h
    · rename_i a b c d ha hb hc hd
      simp only [Option.some.injEq] at h
      subst h
      obtain ⟨ea, la⟩ := parseOctet_canon _ _ ha
      obtain ⟨eb, lb⟩ := parseOctet_canon _ _ hb
      obtain ⟨ec, lc⟩ := parseOctet_canon _ _ hc
      obtain ⟨ed, ld⟩ := parseOctet_canon _ _ hd
      refine ⟨?_, by simp [IPv4.wf, la, lb, lc, ld]⟩
      have hj := joinC_splitOnC '.' s
      rw [hs] at hj
      simp only [joinC] at hj
      rw [← hj, ea, eb, ec, ed]
      rfl
    · exact absurd h (by simp)
  · exact absurd h (by simp)

/-! ### classification -/

/-- The first two characters of a rendered address depend on its first octet only. -/
theorem take2_render (ip : IPv4) : (render ip).take 2 = (renderOctet ip.a ++ ['.']).take 2 := by
  unfold render renderOctet
  split
  · rfl
  · split <;> rfl

/-- The network the table yields for a first octet `a` (its rendering's two-character prefix). -/
def refNet (a : Nat) : Net :=
  if a = 10 ∨ (100 ≤ a ∧ a ≤ 109) then net10
  else if a = 12 ∨ (120 ≤ a ∧ a ≤ 129) then net127
  else if a = 17 ∨ (170 ≤ a ∧ a ≤ 179) then net172
  else if a = 19 ∨ (190 ≤ a ∧ a ≤ 199) then net192
  else blackHole

theorem netOf_key_fin : ∀ a : Fin 256, netOf ((renderOctet a.val ++ ['.']).take 2) = refNet a.val := by
  decide +kernel

theorem inNet_iff (n : Net) (ip : IPv4) :
    inNet n ip = true ↔ n.lo ≤ ip.toNat ∧ ip.toNat ≤ n.hi := by
  simp [inNet]

/-- All 2^32 addresses: membership in the network selected by the two-character prefix of the
    rendering coincides with "loopback, RFC 1918 or 0.0.0.0". -/
theorem inNet_render (ip : IPv4) (h : ip.wf = true) :
    inNet (netOf ((render ip).take 2)) ip = isPrivate ip := by
  have hw := h
  simp only [IPv4.wf, Bool.and_eq_true, decide_eq_true_eq] at hw
  obtain ⟨⟨⟨ha, hb⟩, hc⟩, hd⟩ := hw
  rw [take2_render, netOf_key_fin ⟨ip.a, ha⟩]
  simp only
  rw [Bool.eq_iff_iff, inNet_iff]
  simp only [isPrivate, IPv4.toNat, Bool.and_eq_true, Bool.or_eq_true, decide_eq_true_eq,
    beq_iff_eq]
  unfold refNet
  split
  · simp only [net10]; omega
  · split
    · simp only [net127]; omega
    · split
      · simp only [net172]; omega
      · split
        · simp only [net192]; omega
        · simp only [blackHole]; omega

end LunarVerif.C19
