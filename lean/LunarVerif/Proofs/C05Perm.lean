import LunarVerif.Proofs.C05Wit
/-!
C05, part 4: the validator's verdict does not depend on the ORDER in which a processor's connections are
written.  `reEdge σ g` rewrites the edge list of every node by `σ`; if `σ n` is a permutation of `n.edges`
for every node, `validateDirection` answers the same.  (The edge order of a node is the order of its
connections in the YAML; the model's DFS mirrors the code's `for _, edge := range node.edges` loop as
`n.edges.all …` — a loop that stopped at the first stream edge would not be an `all` and these proofs, like
`dfs_edge`, would not go through.)  And: an accepted direction is acyclic in the order-free sense of `IsPath`.
-/
namespace LunarVerif.C05
open LunarVerif.FlowGraph LunarVerif.FlowExec

def reNode (σ : Node → List Edge) (n : Node) : Node := { n with edges := σ n }

def reEdge (σ : Node → List Edge) (g : DirGraph) : DirGraph := { g with nodes := g.nodes.map (reNode σ) }

theorem all_perm {α : Type} {l₁ l₂ : List α} (p : α → Bool) (h : l₁.Perm l₂) : l₁.all p = l₂.all p := by
  rw [Bool.eq_iff_iff, List.all_eq_true, List.all_eq_true]
  exact ⟨fun hh x hx => hh x (h.mem_iff.mpr hx), fun hh x hx => hh x (h.mem_iff.mp hx)⟩

theorem any_perm {α : Type} {l₁ l₂ : List α} (p : α → Bool) (h : l₁.Perm l₂) : l₁.any p = l₂.any p := by
  rw [Bool.eq_iff_iff, List.any_eq_true, List.any_eq_true]
  exact ⟨fun ⟨x, hx, hp⟩ => ⟨x, h.mem_iff.mp hx, hp⟩, fun ⟨x, hx, hp⟩ => ⟨x, h.mem_iff.mpr hx, hp⟩⟩

theorem findNode_reEdge (σ : Node → List Edge) (nodes : List Node) (k : String) :
    findNode (nodes.map (reNode σ)) k = (findNode nodes k).map (reNode σ) := by
  induction nodes with
  | nil => rfl
  | cons n ns ih =>
    simp only [findNode, List.map_cons, List.find?_cons] at ih ⊢
    have : (reNode σ n).key = n.key := rfl
    rw [this]
    cases (n.key == k) <;> simp [ih]

theorem find_reEdge (σ : Node → List Edge) (g : DirGraph) (k : String) :
    (reEdge σ g).find k = (g.find k).map (reNode σ) := findNode_reEdge σ g.nodes k

theorem edgeCount_reEdge (σ : Node → List Edge) (hσ : ∀ n, (σ n).Perm n.edges) (g : DirGraph) :
    edgeCount (reEdge σ g) = edgeCount g := by
  unfold edgeCount reEdge
  simp only [List.map_map]
  congr 1
  apply List.map_congr_left
  intro n _
  exact (hσ n).length_eq

theorem dfsFuel_reEdge (σ : Node → List Edge) (hσ : ∀ n, (σ n).Perm n.edges) (g : DirGraph) :
    dfsFuel (reEdge σ g) = dfsFuel g := by
  unfold dfsFuel
  rw [edgeCount_reEdge σ hσ g]
  simp [reEdge]

theorem dfs_reEdge (σ : Node → List Edge) (hσ : ∀ n, (σ n).Perm n.edges) (g : DirGraph) :
    ∀ (F : Nat) (vis : List (String × String)) (k c : String), dfs (reEdge σ g) F vis k c = dfs g F vis k c
  | 0, _, _, _ => rfl
  | F + 1, vis, k, c => by
    unfold dfs
    simp only [find_reEdge]
    cases g.find k with
    | none => rfl
    | some n =>
      simp only [Option.map_some]
      have ih : ∀ vis' t c', dfs (reEdge σ g) F vis' t c' = dfs g F vis' t c' := dfs_reEdge σ hσ g F
      simp only [ih]
      rw [show (reNode σ n).edges = σ n from rfl, all_perm _ (hσ n)]

theorem dfsFrom_reEdge (σ : Node → List Edge) (hσ : ∀ n, (σ n).Perm n.edges) (g : DirGraph) (n : Node) :
    dfsFrom (reEdge σ g) (reNode σ n) = dfsFrom g n := by
  unfold dfsFrom
  rw [show (reNode σ n).edges = σ n from rfl, all_perm _ (hσ n)]
  simp only [dfs_reEdge σ hσ g, dfsFuel_reEdge σ hσ g]

theorem noCycleAnywhere_reEdge (σ : Node → List Edge) (hσ : ∀ n, (σ n).Perm n.edges) (g : DirGraph) :
    noCycleAnywhere (reEdge σ g) = noCycleAnywhere g := by
  unfold noCycleAnywhere
  rw [show (reEdge σ g).nodes = g.nodes.map (reNode σ) from rfl, List.all_map]
  congr 1
  funext n
  exact dfsFrom_reEdge σ hσ g n

theorem unconnectedOk_reEdge (σ : Node → List Edge) (hσ : ∀ n, (σ n).Perm n.edges) (g : DirGraph) :
    unconnectedOk (reEdge σ g) = unconnectedOk g := by
  unfold unconnectedOk
  rw [show (reEdge σ g).nodes = g.nodes.map (reNode σ) from rfl, List.all_map]
  congr 1
  funext n
  simp only [Function.comp, List.any_map]
  have hempty : (reNode σ n).edges.isEmpty = n.edges.isEmpty := by
    have := (hσ n).length_eq
    rw [show (reNode σ n).edges = σ n from rfl]
    cases h1 : σ n <;> cases h2 : n.edges <;> simp [h1, h2] at this ⊢
  rw [hempty]
  congr 2
  funext m
  show (σ m).any (fun e => e.target == Target.node n.key) = m.edges.any fun e => e.target == Target.node n.key
  exact any_perm _ (hσ m)

/-- the verdict of `validateDirection` is invariant under reordering the connections of every processor -/
theorem validateDirection_reEdge (σ : Node → List Edge) (hσ : ∀ n, (σ n).Perm n.edges) (d : Dir) (g : DirGraph) :
    validateDirection d (reEdge σ g) = validateDirection d g := by
  unfold validateDirection
  rw [noCycleAnywhere_reEdge σ hσ g, unconnectedOk_reEdge σ hσ g]
  have h1 : (reEdge σ g).isDefined = g.isDefined := by
    unfold DirGraph.isDefined reEdge
    cases g.nodes <;> rfl
  rw [h1]
  rfl

/-- an accepted direction has no processor cycle at all (order-free notion: `IsPath` only asks for edge
    MEMBERSHIP) -/
theorem validated_acyclic {d : Dir} {g : DirGraph} (hv : validateDirection d g = .ok ()) (x : String)
    (q : List String) : ¬ IsPath g (x :: q ++ [x]) := by
  intro hcyc
  exact cycle_unbounded g _ x q q x hcyc hcyc
    (bounded_of_dfsFrom g x (fun _ hn => dfsFrom_of_validated hv hn))

end LunarVerif.C05
