import LunarVerif.Spec.C06
/-!
Helper lemmas for C06, part 4: the size bound — at no time do more than `queue_size` requests
wait — for every schedule (the slot test and the reservation are one atomic step), with or without
shutdown.
-/
namespace LunarVerif.C06

/-- Number of ids `< n` whose record satisfies `p`. -/
def cnt (p : Req → Bool) (f : Nat → Req) : Nat → Nat
  | 0 => 0
  | n + 1 => cnt p f n + (if p (f n) then 1 else 0)

theorem cnt_congr (p : Req → Bool) (f g : Nat → Req) (n : Nat) (h : ∀ i, i < n → p (f i) = p (g i)) :
    cnt p f n = cnt p g n := by
  induction n with
  | zero => rfl
  | succ n ih =>
    simp only [cnt]
    rw [ih (fun i hi => h i (by omega)), h n (by omega)]

theorem cnt_mono (p q : Req → Bool) (f : Nat → Req) (n : Nat) (h : ∀ i, i < n → p (f i) = true → q (f i) = true) :
    cnt p f n ≤ cnt q f n := by
  induction n with
  | zero => exact Nat.le_refl _
  | succ n ih =>
    simp only [cnt]
    have := ih (fun i hi => h i (by omega))
    have hn := h n (by omega)
    by_cases hp : p (f n) = true
    · simp [hp, hn hp]; exact this
    · simp [hp]; split <;> omega

theorem cnt_zero (p : Req → Bool) (f : Nat → Req) (n : Nat) (h : ∀ i, i < n → p (f i) = false) :
    cnt p f n = 0 := by
  induction n with
  | zero => rfl
  | succ n ih => simp only [cnt]; rw [ih (fun i hi => h i (by omega)), h n (by omega)]; simp

theorem cnt_upd (p : Req → Bool) (f : Nat → Req) (i : Nat) (r : Req) (n : Nat) (hi : i < n) :
    cnt p (fun j => if j = i then r else f j) n + (if p (f i) then 1 else 0) =
      cnt p f n + (if p r then 1 else 0) := by
  induction n with
  | zero => omega
  | succ n ih =>
    simp only [cnt]
    by_cases hin : i = n
    · subst hin
      have : cnt p (fun j => if j = i then r else f j) i = cnt p f i :=
        cnt_congr _ _ _ _ (fun j hj => by simp [show j ≠ i by omega])
      simp [this]; omega
    · have := ih (by omega)
      simp [show n ≠ i from fun e => hin e.symm]; omega

def inMapP (r : Req) : Bool := r.inMap
def checkedP (r : Req) : Bool := r.pc == .checked
def waitingP (r : Req) : Bool := r.pc == .registered || r.pc == .parked

/-- Number of requests waiting in the queue (registered, verdict not yet returned). -/
def nWaiting (s : St) : Nat := cnt waitingP s.reqs s.n

structure InvB (cfg : Cfg) (s : St) : Prop where
  fr : ∀ i, s.n ≤ i → (s.reqs i).pc = .absent ∧ (s.reqs i).inMap = false
  cm : s.count = (cnt inMapP s.reqs s.n : Nat) + (cnt checkedP s.reqs s.n : Nat)
  wm : ∀ i, waitingP (s.reqs i) = true → inMapP (s.reqs i) = true
  ck : ∀ i, (s.reqs i).pc = .checked → (s.reqs i).inMap = false
  rm : ∀ i, isReturned (s.reqs i).pc = true → (s.reqs i).inMap = true
  bd : s.count ≤ max cfg.size 0

theorem invB_init (cfg : Cfg) (t0 : Nat) : InvB cfg (St.init t0) := by
  constructor <;> simp [St.init, cnt, waitingP, inMapP, isReturned]
  omega

theorem cnt_updS (p : Req → Bool) (s : St) (i : Nat) (g : Req → Req) (hi : i < s.n) :
    cnt p (s.upd i g).reqs s.n + (if p (s.reqs i) then 1 else 0) =
      cnt p s.reqs s.n + (if p (g (s.reqs i)) then 1 else 0) := by
  have : (s.upd i g).reqs = fun j => if j = i then g (s.reqs i) else s.reqs j := by
    funext j; simp only [St.upd]; split
    · rename_i h; rw [h]
    · rfl
  rw [this]
  exact cnt_upd p s.reqs i (g (s.reqs i)) s.n hi

/-- A step that changes neither `pc` nor `inMap` of any request, nor `n`, nor the counter. -/
theorem invB_frame (cfg : Cfg) (s s' : St) (hn : s'.n = s.n) (hc : s'.count = s.count)
    (hpc : ∀ i, (s'.reqs i).pc = (s.reqs i).pc) (him : ∀ i, (s'.reqs i).inMap = (s.reqs i).inMap)
    (h : InvB cfg s) : InvB cfg s' := by
  obtain ⟨fr, cm, wm, ck, rm, bd⟩ := h
  have e1 : cnt inMapP s'.reqs s.n = cnt inMapP s.reqs s.n :=
    cnt_congr _ _ _ _ (fun i _ => by simp [inMapP, him i])
  have e2 : cnt checkedP s'.reqs s.n = cnt checkedP s.reqs s.n :=
    cnt_congr _ _ _ _ (fun i _ => by simp [checkedP, hpc i])
  constructor
  · intro i hi; rw [hpc i, him i]; exact fr i (by omega)
  · rw [hn, hc, e1, e2]; exact cm
  · intro i; simp only [waitingP, inMapP, hpc i, him i]; exact wm i
  · intro i; rw [hpc i, him i]; exact ck i
  · intro i; rw [hpc i, him i]; exact rm i
  · rw [hc]; exact bd

theorem signal_frame (s : St) (i : Nat) (r : RResult) :
    (s.signal i r).n = s.n ∧ (s.signal i r).count = s.count ∧
    (∀ j, ((s.signal i r).reqs j).pc = (s.reqs j).pc) ∧ (∀ j, ((s.signal i r).reqs j).inMap = (s.reqs j).inMap) := by
  simp only [St.signal]
  split <;> simp only [St.upd, St.emit] <;> refine ⟨trivial, trivial, ?_, ?_⟩ <;> intro j <;> split <;> simp_all

theorem invB_loop (cfg : Cfg) (s : St) (k : Nat) (h : InvB cfg s) : InvB cfg (stepLoop cfg s k) := by
  unfold stepLoop
  split
  · exact h
  · exact h
  · split
    · exact invB_frame cfg s _ rfl rfl (fun _ => rfl) (fun _ => rfl) h
    · exact invB_frame cfg s _ rfl rfl (fun _ => rfl) (fun _ => rfl) h
  · split
    · refine invB_frame cfg s _ rfl rfl ?_ ?_ h <;> intro j <;> simp only [St.upd] <;> split <;> simp_all
    · exact invB_frame cfg s _ rfl rfl (fun _ => rfl) (fun _ => rfl) h
  · refine invB_frame cfg s _ rfl rfl ?_ ?_ h <;> intro j <;> simp only [St.upd, St.emit] <;> split <;> simp_all
  · refine invB_frame cfg s _ rfl rfl ?_ ?_ h <;> intro j <;> simp only [St.upd, St.emit, St.enq] <;> split <;> simp_all
  · refine invB_frame cfg s _ rfl rfl ?_ ?_ h <;> intro j <;> simp only [St.upd] <;> split <;> simp_all
  · rename_i i heq
    have ⟨a, b, c, d⟩ := signal_frame s i .success
    exact invB_frame cfg s _ a b c d h
  · rename_i todo heq
    split
    · split
      · exact invB_frame cfg s _ rfl rfl (fun _ => rfl) (fun _ => rfl) h
      · exact h
    · rename_i i hk
      split
      · have ⟨a, b, c, d⟩ := signal_frame s i .timeout
        exact invB_frame cfg s _ a b c d h
      · exact invB_frame cfg s _ rfl rfl (fun _ => rfl) (fun _ => rfl) h

theorem invB_watcher (cfg : Cfg) (s : St) (k : Nat) (h : InvB cfg s) : InvB cfg (stepWatcher s k) := by
  unfold stepWatcher
  split
  · exact h
  · split
    · split
      · exact invB_frame cfg s _ rfl rfl (fun _ => rfl) (fun _ => rfl) h
      · exact h
    · split
      · refine invB_frame cfg s _ rfl rfl ?_ ?_ h <;> intro j <;> simp only [St.upd] <;> split <;> simp_all
      · exact invB_frame cfg s _ rfl rfl (fun _ => rfl) (fun _ => rfl) h
  · rename_i i todo heq
    have ⟨a, b, c, d⟩ := signal_frame s i .timeout
    exact invB_frame cfg s _ a b c d h

theorem lt_of_pc (cfg : Cfg) (s : St) (h : InvB cfg s) (i : Nat) (hp : (s.reqs i).pc ≠ .absent) : i < s.n := by
  rcases Nat.lt_or_ge i s.n with h' | h'
  · exact h'
  · exact absurd (h.fr i h').1 hp

theorem invB_arrive (cfg : Cfg) (s : St) (p : Nat) (h : InvB cfg s) : InvB cfg (stepArrive cfg s p) := by
  obtain ⟨fr, cm, wm, ck, rm, bd⟩ := h
  have hfn := fr s.n (Nat.le_refl _)
  have same : ∀ (q : Req → Bool) (r : Req), cnt q (fun j => if j = s.n then r else s.reqs j) s.n = cnt q s.reqs s.n :=
    fun q r => cnt_congr _ _ _ _ (fun j hj => by simp [show j ≠ s.n by omega])
  unfold stepArrive
  split
  · rename_i hlt
    constructor
    · intro i hi
      simp only [St.emit] at hi ⊢
      simp only [show i ≠ s.n by omega, if_false]
      exact fr i (by omega)
    · simp only [St.emit, cnt, same]
      simp [inMapP, checkedP, cm]
      omega
    · intro i
      simp only [St.emit]
      split
      · simp [waitingP]
      · exact wm i
    · intro i
      simp only [St.emit]
      split
      · simp
      · exact ck i
    · intro i
      simp only [St.emit]
      split
      · simp [isReturned]
      · exact rm i
    · simp only [St.emit]
      omega
  · rename_i hlt
    constructor
    · intro i hi
      simp only [St.emit] at hi ⊢
      simp only [show i ≠ s.n by omega, if_false]
      exact fr i (by omega)
    · simp only [St.emit, cnt, same]
      simp [inMapP, checkedP, cm]
    · intro i
      simp only [St.emit]
      split
      · simp [waitingP]
      · exact wm i
    · intro i
      simp only [St.emit]
      split
      · simp
      · exact ck i
    · intro i
      simp only [St.emit]
      split
      · simp [isReturned]
      · exact rm i
    · simp only [St.emit]
      exact bd

def b2i (b : Bool) : Int := if b then 1 else 0

/-- A step that rewrites one record `i < n` (and possibly lowers the counter). -/
theorem invB_upd (cfg : Cfg) (s s' : St) (i : Nat) (g : Req → Req) (hi : i < s.n)
    (hn : s'.n = s.n) (hr : s'.reqs = (s.upd i g).reqs) (h : InvB cfg s)
    (hc : s'.count + b2i (inMapP (s.reqs i)) + b2i (checkedP (s.reqs i)) =
          s.count + b2i (inMapP (g (s.reqs i))) + b2i (checkedP (g (s.reqs i))))
    (hle : s'.count ≤ s.count)
    (hw : waitingP (g (s.reqs i)) = true → inMapP (g (s.reqs i)) = true)
    (hk : (g (s.reqs i)).pc = .checked → (g (s.reqs i)).inMap = false)
    (hm : isReturned (g (s.reqs i)).pc = true → (g (s.reqs i)).inMap = true) : InvB cfg s' := by
  obtain ⟨fr, cm, wm, ck, rm, bd⟩ := h
  have u1 := cnt_updS inMapP s i g hi
  have u2 := cnt_updS checkedP s i g hi
  have hj : ∀ j, s'.reqs j = if j = i then g (s.reqs j) else s.reqs j := by intro j; rw [hr]; rfl
  constructor
  · intro j hj'
    rw [hj j, if_neg (by omega)]
    exact fr j (by omega)
  · rw [hn, hr]
    unfold b2i at hc
    split at hc <;> split at hc <;> split at hc <;> split at hc <;> simp_all <;> omega
  · intro j
    rw [hj j]
    split
    · rename_i e; subst e; exact hw
    · exact wm j
  · intro j
    rw [hj j]
    split
    · rename_i e; subst e; exact hk
    · exact ck j
  · intro j
    rw [hj j]
    split
    · rename_i e; subst e; exact hm
    · exact rm j
  · omega

theorem invB_register (cfg : Cfg) (s : St) (i : Nat) (h : InvB cfg s) : InvB cfg (stepRegister s i) := by
  unfold stepRegister
  split
  · rename_i hg
    have hlt := lt_of_pc cfg s h i (by rw [hg.1]; simp)
    have hnm := h.ck i hg.1
    refine invB_upd cfg s _ i (fun r => { r with pc := .registered, inMap := true }) hlt rfl rfl h ?_ ?_ ?_ ?_ ?_
    · simp [b2i, inMapP, checkedP, hnm, hg.1, St.upd]
    · exact Int.le_refl _
    · simp [inMapP]
    · simp
    · simp
  · exact h

theorem invB_enq_frame (s : St) (i : Nat) :
    (s.enq i).n = s.n ∧ (s.enq i).count = s.count ∧
    (∀ j, ((s.enq i).reqs j).pc = (s.reqs j).pc) ∧ (∀ j, ((s.enq i).reqs j).inMap = (s.reqs j).inMap) := by
  simp only [St.enq, St.upd]
  refine ⟨trivial, trivial, ?_, ?_⟩ <;> intro j <;> split <;> simp_all

theorem invB_push (cfg : Cfg) (s : St) (i : Nat) (h : InvB cfg s) : InvB cfg (stepPush s i) := by
  unfold stepPush
  split
  · rename_i hg
    have ⟨a, b, c, d⟩ := invB_enq_frame s i
    have h1 : InvB cfg (s.enq i) := invB_frame cfg s _ a b c d h
    have hlt : i < (s.enq i).n := by rw [a]; exact lt_of_pc cfg s h i (by rw [hg]; simp)
    have hpc : ((s.enq i).reqs i).pc = .registered := by rw [c i]; exact hg
    have hm := h1.wm i (by simp [waitingP, hpc])
    refine invB_upd cfg (s.enq i) _ i (fun r => { r with pc := .parked }) hlt rfl rfl h1 ?_ ?_ ?_ ?_ ?_
    · simp [b2i, inMapP, checkedP, hpc, St.upd, St.emit] <;> first | done | rfl | (split <;> rfl)
    · exact Int.le_refl _
    · intro _; simpa [inMapP] using hm
    · simp
    · simp [isReturned]
  · exact h

theorem invB_wake (cfg : Cfg) (s : St) (i : Nat) (h : InvB cfg s) : InvB cfg (stepWake s i) := by
  unfold stepWake
  split
  · rename_i hg
    have hlt := lt_of_pc cfg s h i (by rw [hg.1]; simp)
    have hmp := h.wm i (by simp [waitingP, hg.1])
    refine invB_upd cfg s _ i (fun r => { r with pc := .returned (r.res == .success) }) hlt rfl rfl h ?_ ?_ ?_ ?_ ?_
    · simp [b2i, inMapP, checkedP, hg.1, St.upd, St.emit] <;> first | done | rfl | (split <;> rfl)
    · exact Int.le_refl _
    · simp [waitingP]
    · simp
    · intro _; simpa [inMapP] using hmp
  · exact h

theorem invB_heapRemove (cfg : Cfg) (s : St) (i : Nat) (h : InvB cfg s) : InvB cfg (stepHeapRemove s i) := by
  unfold stepHeapRemove
  split
  · rename_i hg
    have hlt := lt_of_pc cfg s h i (by rw [hg]; simp)
    refine invB_upd cfg s _ i (fun r => { r with pc := .removed, firstAt := none }) hlt rfl rfl h ?_ ?_ ?_ ?_ ?_
    · simp [b2i, inMapP, checkedP, hg, St.upd] <;> first | done | rfl | (split <;> rfl)
    · exact Int.le_refl _
    · simp [waitingP]
    · simp
    · simp [isReturned]
  · exact h

theorem invB_unwatch (cfg : Cfg) (s : St) (i : Nat) (h : InvB cfg s) : InvB cfg (stepUnwatch s i) := by
  unfold stepUnwatch
  split
  · rename_i hg
    have hne : (s.reqs i).pc ≠ .absent := by intro e; rw [e] at hg; simp [isReturned] at hg
    have hnc : checkedP (s.reqs i) = false := by
      unfold checkedP
      cases hp : (s.reqs i).pc <;> simp_all [isReturned]
    have hlt := lt_of_pc cfg s h i hne
    have him := h.rm i hg.1
    refine invB_upd cfg s _ i (fun r => { r with pc := .unwatched, inMap := false }) hlt rfl rfl h ?_ ?_ ?_ ?_ ?_
    · have hpc : (s.reqs i).pc ≠ .checked := by simpa [checkedP] using hnc
      simp [b2i, inMapP, St.upd, St.emit, him, checkedP, hpc]
    · simp only [St.upd, St.emit]; omega
    · simp [waitingP]
    · simp
    · simp [isReturned]
  · exact h

theorem invB_step (cfg : Cfg) (s : St) (a : Act) (h : InvB cfg s) : InvB cfg (step cfg s a) := by
  unfold step
  split
  · exact h
  · cases a with
    | advance d => exact invB_frame cfg s _ rfl rfl (fun _ => rfl) (fun _ => rfl) h
    | arrive p => exact invB_arrive cfg s p h
    | register i => exact invB_register cfg s i h
    | push i => exact invB_push cfg s i h
    | wake i => exact invB_wake cfg s i h
    | unwatch i => exact invB_unwatch cfg s i h
    | heapRemove i => exact invB_heapRemove cfg s i h
    | loopFire =>
      show InvB cfg (stepLoopFire s)
      unfold stepLoopFire
      split
      · split <;> exact invB_frame cfg s _ rfl rfl (fun _ => rfl) (fun _ => rfl) h
      · exact h
    | loopStep k => exact invB_loop cfg s k h
    | wScan =>
      show InvB cfg (stepScan cfg s)
      unfold stepScan
      split
      · exact invB_frame cfg s _ rfl rfl (fun _ => rfl) (fun _ => rfl) h
      · exact h
    | wStep k => exact invB_watcher cfg s k h
    | cancel =>
      show InvB cfg (stepCancel s)
      unfold stepCancel
      split
      · exact h
      · exact invB_frame cfg s _ rfl rfl (fun _ => rfl) (fun _ => rfl) h

theorem invB_run (cfg : Cfg) (acts : List Act) (s : St) (h : InvB cfg s) : InvB cfg (run cfg s acts) := by
  induction acts generalizing s with
  | nil => exact h
  | cons a rest ih => exact ih (step cfg s a) (invB_step cfg s a h)

/-- What the invariant says about the number of waiting requests. -/
theorem invB_bound (cfg : Cfg) (s : St) (h : InvB cfg s) : (nWaiting s : Int) ≤ max cfg.size 0 := by
  obtain ⟨fr, cm, wm, ck, rm, bd⟩ := h
  have h1 : cnt waitingP s.reqs s.n ≤ cnt inMapP s.reqs s.n := cnt_mono _ _ _ _ (fun i _ hp => wm i hp)
  unfold nWaiting
  omega

end LunarVerif.C06
