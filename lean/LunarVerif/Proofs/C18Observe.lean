import LunarVerif.Model.C18Observe
namespace LunarVerif.C18.Observe
open LunarVerif.C01

theorem step_read (c : Cfg) (l : Lvl) : (step c l .read).1 = l := rfl

/-- a transaction's call (everything but a metrics read) -/
def keep (o : Op) : Bool := !o.isRead

@[simp] theorem keep_read : keep .read = false := rfl
@[simp] theorem keep_inc (r t : Nat) : keep (.inc r t) = true := rfl
@[simp] theorem keep_allowed (r : Nat) : keep (.allowed r) = true := rfl
@[simp] theorem keep_dec (r : Nat) : keep (.dec r) = true := rfl

theorem run_filter (c : Cfg) (ops : List Op) : ∀ l : Lvl,
    (run c l ops).filter (fun p => keep p.1) = run c l (ops.filter keep) := by
  induction ops with
  | nil => intro l; rfl
  | cons o os ih =>
    intro l
    cases o with
    | read => simp only [run, List.filter_cons, keep_read, step_read]; exact ih l
    | inc r t => simp only [run, List.filter_cons, keep_inc, if_true]; rw [ih]
    | allowed r => simp only [run, List.filter_cons, keep_allowed, if_true]; rw [ih]
    | dec r => simp only [run, List.filter_cons, keep_dec, if_true]; rw [ih]

theorem final_filter (c : Cfg) (ops : List Op) : ∀ l : Lvl,
    final c l ops = final c l (ops.filter keep) := by
  induction ops with
  | nil => intro l; rfl
  | cons o os ih =>
    intro l
    cases o with
    | read => simp only [final, List.filter_cons, keep_read, step_read]; exact ih l
    | inc r t => simp only [final, List.filter_cons, keep_inc, if_true]; rw [ih]
    | allowed r => simp only [final, List.filter_cons, keep_allowed, if_true]; rw [ih]
    | dec r => simp only [final, List.filter_cons, keep_dec, if_true]; rw [ih]

theorem final_reads (c : Cfg) (rs : List Op) (h : ∀ o ∈ rs, o.isRead = true) (l : Lvl) : final c l rs = l := by
  rw [final_filter]
  have : rs.filter keep = [] := by
    apply List.filter_eq_nil_iff.mpr
    intro o ho; simp [keep, h o ho]
  rw [this]; rfl

theorem inc_increased_memo (mx win : Nat) (l : Lvl) (r t cost : Nat)
    (h : (incLevel mx win l r t cost).2 = .increased) :
    (incLevel mx win l r t cost).1.memo.lookup r = some (some cost) := by
  cases hm : l.memo.lookup r with
  | some v => simp [incLevel, hm] at h
  | none =>
    by_cases h1 : win ≤ elapsed l t
    · by_cases h2 : mx < cost
      · simp [incLevel, hm, h1, h2] at h
      · simp [incLevel, hm, h1, h2]
    · by_cases h2 : mx < l.counter + cost
      · simp [incLevel, hm, h1, h2] at h
      · simp [incLevel, hm, h1, h2]

theorem inc_increased_pending (mx win : Nat) (l : Lvl) (r t cost : Nat)
    (h : (incLevel mx win l r t cost).2 = .increased) :
    (allowedLevel (incLevel mx win l r t cost).1 r).2 = true := by
  unfold allowedLevel
  rw [inc_increased_memo mx win l r t cost h]
  rfl

end LunarVerif.C18.Observe
