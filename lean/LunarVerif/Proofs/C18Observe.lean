import LunarVerif.Model.C18Observe
namespace LunarVerif.C18.Observe
open LunarVerif.C01

theorem step_read (c : Cfg) (l : Lvl) : (step c l .read).1 = l := rfl

/-- a transaction's call (everything but a metrics read) -/
def keep (o : Op) : Bool := !o.isRead

@[simp] theorem keep_read : keep .read = false := rfl
@[simp] theorem keep_inc (r t : Nat) : keep (.inc r t) = true := rfl
@[simp] theorem keep_allowed (r : Nat) : keep (.allowed r) = true := rfl
@[simp] theorem keep_dec (r : Nat) : keep (.dec r) = true := rfl

theorem run_filter (c : Cfg) (ops : List Op) : ∀ l : Lvl,
    (run c l ops).filter (fun p => keep p.1) = run c l (ops.filter keep) := by
  induction ops with
  | nil => intro l; rfl
  | cons o os ih =>
    intro l
    cases o with
    | read => simp only [run, List.filter_cons, keep_read, step_read]; exact ih l
    | inc r t => simp only [run, List.filter_cons, keep_inc, if_true]; rw [ih]
    | allowed r => simp only [run, List.filter_cons, keep_allowed, if_true]; rw [ih]
    | dec r => simp only [run, List.filter_cons, keep_dec, if_true]; rw [ih]

theorem final_filter (c : Cfg) (ops : List Op) : ∀ l : Lvl,
    final c l ops = final c l (ops.filter keep) := by
  induction ops with
  | nil => intro l; rfl
  | cons o os ih =>
    intro l
    cases o with
    | read => simp only [final, List.filter_cons, keep_read, step_read]; exact ih l
    | inc r t => simp only [final, List.filter_cons, keep_inc, if_true]; rw [ih]
    | allowed r => simp only [final, List.filter_cons, keep_allowed, if_true]; rw [ih]
    | dec r => simp only [final, List.filter_cons, keep_dec, if_true]; rw [ih]

theorem final_reads (c : Cfg) (rs : List Op) (h : ∀ o ∈ rs, o.isRead = true) (l : Lvl) : final c l rs = l := by
  rw [final_filter]
  have : rs.filter keep = [] := by
    apply List.filter_eq_nil_iff.mpr
    intro o ho; simp [keep, h o ho]
  rw [this]; rfl

theorem inc_increased_memo (mx win : Nat) (l : Lvl) (r t cost : Nat)
    (h : (incLevel mx win l r t cost).2 = .increased) :
    (incLevel mx win l r t cost).1.memo.lookup r = some (some cost) := by
  cases hm : l.memo.lookup r with
  | some v => simp [incLevel, hm] at h
  | none =>
    by_cases h1 : win ≤ elapsed l t
    · by_cases h2 : mx < cost
      · simp [incLevel, hm, h1, h2] at h
      · simp [incLevel, hm, h1, h2]
    · by_cases h2 : mx < l.counter + cost
      · simp [incLevel, hm, h1, h2] at h
      · simp [incLevel, hm, h1, h2]

theorem inc_increased_pending (mx win : Nat) (l : Lvl) (r t cost : Nat)
    (h : (incLevel mx win l r t cost).2 = .increased) :
    (allowedLevel (incLevel mx win l r t cost).1 r).2 = true := by
  unfold allowedLevel
  rw [inc_increased_memo mx win l r t cost h]
  rfl

theorem lookup_filter_ne {β : Type} (m : List (Nat × β)) (r r' : Nat) (h : r ≠ r') :
    (m.filter (fun e => e.1 != r')).lookup r = m.lookup r := by
  induction m with
  | nil => rfl
  | cons e es ih =>
    obtain ⟨k, v⟩ := e
    by_cases hk : k = r'
    · subst hk
      have : (r == k) = false := by simp [h]
      simp [List.filter_cons, List.lookup, this, ih]
    · by_cases hr : r = k
      · subst hr; simp [List.filter_cons, List.lookup, hk]
      · have : (r == k) = false := by simp [hr]
        simp [List.filter_cons, List.lookup, hk, this, ih]

/-- one quiet step keeps a pending entry -/
theorem step_keeps (c : Cfg) (l : Lvl) (r : Nat) (v : Option Nat) (o : Op)
    (hm : l.memo.lookup r = some v) (hq : restarts c l o = false) (ha : o ≠ .allowed r) (hd : o ≠ .dec r) :
    (step c l o).1.memo.lookup r = some v := by
  cases o with
  | read => exact hm
  | allowed r' =>
    have hne : r ≠ r' := fun e => ha (by rw [e])
    show (allowedLevel l r').1.memo.lookup r = some v
    unfold allowedLevel
    split
    · exact hm
    · show (l.memo.filter _).lookup r = _
      rw [lookup_filter_ne _ _ _ hne]; exact hm
  | dec r' =>
    have hne : r ≠ r' := fun e => hd (by rw [e])
    show (l.memo.filter _).lookup r = _
    rw [lookup_filter_ne _ _ _ hne]; exact hm
  | inc r' t =>
    show (incLevel c.max c.win l r' t 1).1.memo.lookup r = some v
    cases hl : l.memo.lookup r' with
    | some w => simp [incLevel, hl, hm]
    | none =>
      have hne : r ≠ r' := by intro e; rw [e, hl] at hm; cases hm
      have hb : (r == r') = false := by simp [hne]
      have hw : ¬ c.win ≤ elapsed l t := by
        simpa [restarts, hl] using hq
      by_cases h2 : c.max < l.counter + 1
      · simp [incLevel, hl, hw, h2, List.lookup, hb, hm]
      · simp [incLevel, hl, hw, h2, List.lookup, hb, hm]

theorem quiet_keeps (c : Cfg) (r : Nat) (v : Option Nat) (ops : List Op) : ∀ l : Lvl,
    l.memo.lookup r = some v → quietFor c r l ops = true → (final c l ops).memo.lookup r = some v := by
  induction ops with
  | nil => intro l hm _; exact hm
  | cons o os ih =>
    intro l hm hq
    simp only [quietFor, Bool.and_eq_true, Bool.not_eq_true', bne_iff_ne, ne_eq] at hq
    obtain ⟨⟨⟨h1, h2⟩, h3⟩, h4⟩ := hq
    exact ih _ (step_keeps c l r v o hm h1 h2 h3) h4

end LunarVerif.C18.Observe
