import LunarVerif.Model.C18Vacuum
/-! Invariant of the MapVacuum interleaving model. -/
namespace LunarVerif.C18.Vacuum

def pendingDrop (s : St) : Nat := s.drop.getD 0

/-- a pass is in exactly one of its windows; the snapshot is a prefix of the live list; the counted
    prefix fits the live list; every key in the map still has a pending entry that survives the trim -/
structure Inv (s : St) : Prop where
  excl : s.snap = none ∨ s.drop = none
  pre : ∀ sn, s.snap = some sn → sn <+: s.entries
  fits : ∀ n, s.drop = some n → n ≤ s.entries.length
  tracked : ∀ k ∈ s.map, ∃ e ∈ s.entries.drop (pendingDrop s), e.1 = k

theorem inv_init : Inv {} :=
  ⟨Or.inl rfl, (by intro sn h; cases h), (by intro n h; cases h), (by intro k hk; simp at hk)⟩

theorem expiredPrefix_prefix (now : Nat) : ∀ l, expiredPrefix now l <+: l := by
  intro l
  induction l with
  | nil => simp [expiredPrefix]
  | cons e r ih =>
    unfold expiredPrefix
    split
    · exact (List.cons_prefix_cons).2 ⟨rfl, ih⟩
    · exact List.nil_prefix

theorem inv_step (s : St) (st : Step) (h : Inv s) : Inv (step s st) := by
  obtain ⟨hex, hpre, hfit, htr⟩ := h
  cases st with
  | add k =>
    have hn : pendingDrop s ≤ s.entries.length := by
      unfold pendingDrop
      cases hd : s.drop with
      | none => simp
      | some n => simpa using hfit n hd
    refine ⟨hex, ?_, ?_, ?_⟩
    · intro sn hs
      exact (hpre sn hs).trans (List.prefix_append _ _)
    · intro n hd
      have := hfit n hd
      simp only [step, List.length_append, List.length_singleton]
      omega
    · intro k' hk'
      simp only [step] at hk' ⊢
      have hdrop : (s.entries ++ [(k, s.now + s.ttl)]).drop (pendingDrop s)
          = s.entries.drop (pendingDrop s) ++ [(k, s.now + s.ttl)] := by
        rw [List.drop_append_of_le_length hn]
      show ∃ e ∈ (s.entries ++ [(k, s.now + s.ttl)]).drop (pendingDrop s), e.1 = k'
      rw [hdrop]
      rcases List.mem_cons.1 hk' with rfl | hk'
      · exact ⟨(k', s.now + s.ttl), by simp, rfl⟩
      · obtain ⟨e, he, hek⟩ := htr k' (List.mem_filter.1 hk').1
        exact ⟨e, List.mem_append_left _ he, hek⟩
  | snap =>
    by_cases hc : (s.snap.isNone && s.drop.isNone) = true
    · have e : step s .snap = { s with snap := some s.entries } := by simp only [step, hc, if_true]
      rw [e]
      simp only [Bool.and_eq_true, Option.isNone_iff_eq_none] at hc
      refine ⟨Or.inr hc.2, ?_, hfit, ?_⟩
      · intro sn hs
        simp only [Option.some.injEq] at hs
        rw [← hs]
        exact List.prefix_refl _
      · intro k hk
        exact htr k hk
    · have e : step s .snap = s := by simp only [step, hc]; rfl
      rw [e]
      exact ⟨hex, hpre, hfit, htr⟩
  | del =>
    cases hs : s.snap with
    | none =>
      have e : step s .del = s := by simp only [step, hs]
      rw [e]; exact ⟨hex, hpre, hfit, htr⟩
    | some sn =>
      simp only [step, hs]
      have hdn : s.drop = none := by
        rcases hex with h | h
        · rw [hs] at h; cases h
        · exact h
      have hp : expiredPrefix s.now sn <+: s.entries := (expiredPrefix_prefix s.now sn).trans (hpre sn hs)
      have htake : expiredPrefix s.now sn = s.entries.take (expiredPrefix s.now sn).length :=
        List.prefix_iff_eq_take.1 hp
      refine ⟨Or.inl rfl, (by intro sn' h; cases h), ?_, ?_⟩
      · intro n hn
        simp only [Option.some.injEq] at hn
        rw [← hn]
        exact hp.length_le
      · intro k hk
        simp only [List.mem_filter, Bool.not_eq_true', List.contains_eq_mem, decide_eq_false_iff_not,
          List.mem_map, not_exists, not_and] at hk
        obtain ⟨hkm, hnot⟩ := hk
        obtain ⟨e, he, hek⟩ := htr k hkm
        have he' : e ∈ s.entries := by
          have : pendingDrop s = 0 := by simp [pendingDrop, hdn]
          rw [this] at he; simpa using he
        show ∃ e ∈ s.entries.drop (expiredPrefix s.now sn).length, e.1 = k
        have hsplit := List.take_append_drop (expiredPrefix s.now sn).length s.entries
        rw [← hsplit] at he'
        rcases List.mem_append.1 he' with h1 | h1
        · rw [← htake] at h1
          exact absurd hek (hnot e h1)
        · exact ⟨e, h1, hek⟩
  | trim =>
    cases hd : s.drop with
    | none =>
      have e : step s .trim = s := by simp only [step, hd]
      rw [e]; exact ⟨hex, hpre, hfit, htr⟩
    | some n =>
      have e : step s .trim = { s with drop := none, entries := s.entries.drop n, lastPass := some s.now } := by
        simp only [step, hd]
      rw [e]
      have hsn : s.snap = none := by
        rcases hex with h | h
        · exact h
        · rw [hd] at h; cases h
      refine ⟨Or.inr rfl, ?_, (by intro n' h; cases h), ?_⟩
      · intro sn h; rw [hsn] at h; cases h
      · intro k hk
        obtain ⟨e, he, hek⟩ := htr k hk
        have : pendingDrop s = n := by simp [pendingDrop, hd]
        rw [this] at he
        exact ⟨e, by simpa [pendingDrop] using he, hek⟩
  | tick n => exact ⟨hex, hpre, hfit, htr⟩

theorem inv_run (steps : List Step) : ∀ s, Inv s → Inv (run steps s) := by
  induction steps with
  | nil => intro s h; exact h
  | cons o os ih => intro s h; exact ih _ (inv_step s o h)

end LunarVerif.C18.Vacuum
