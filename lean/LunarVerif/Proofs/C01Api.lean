import LunarVerif.Proofs.C01Spacing
/-! C01: the API layer — the model's answers satisfy the Spec evaluated on the history. -/
namespace LunarVerif.C01

def keyOf (p : QId × QuotaCfg) (h : Hdrs) : Key := (p.1, groupOf p.2 h)

/-! ### Equations for the chain walkers -/

theorem incChain_cons (st : St) (a : QId) (c : QuotaCfg) (rest : List (QId × QuotaCfg)) (r : Rid) (t : Nat) (h : Hdrs) :
    incChain st ((a, c) :: rest) r t h =
      if (incLevel c.max c.win (st.at (a, groupOf c h)) r t (costOf c h)).2 = IncRes.increased then
        if (incChain (KMap.set st (a, groupOf c h) (incLevel c.max c.win (st.at (a, groupOf c h)) r t (costOf c h)).1) rest r t h).2
            = IncRes.blocked then
          (KMap.set (incChain (KMap.set st (a, groupOf c h) (incLevel c.max c.win (st.at (a, groupOf c h)) r t (costOf c h)).1) rest r t h).1
             (a, groupOf c h)
             (refundLevel (St.at (incChain (KMap.set st (a, groupOf c h)
                (incLevel c.max c.win (st.at (a, groupOf c h)) r t (costOf c h)).1) rest r t h).1 (a, groupOf c h)) r).1,
           IncRes.blocked)
        else
          ((incChain (KMap.set st (a, groupOf c h) (incLevel c.max c.win (st.at (a, groupOf c h)) r t (costOf c h)).1) rest r t h).1,
           IncRes.increased)
      else (KMap.set st (a, groupOf c h) (incLevel c.max c.win (st.at (a, groupOf c h)) r t (costOf c h)).1,
            (incLevel c.max c.win (st.at (a, groupOf c h)) r t (costOf c h)).2) := by
  simp only [incChain]
  cases hr : (incLevel c.max c.win (st.at (a, groupOf c h)) r t (costOf c h)).2 with
  | already => simp
  | blocked => simp
  | increased =>
    simp only [if_true]
    cases hi : (incChain (KMap.set st (a, groupOf c h) (incLevel c.max c.win (st.at (a, groupOf c h)) r t (costOf c h)).1) rest r t h).2 <;>
      simp

theorem allowedChain_cons (st : St) (a : QId) (c : QuotaCfg) (rest : List (QId × QuotaCfg)) (r : Rid) (h : Hdrs) :
    allowedChain st ((a, c) :: rest) r h =
      if (allowedLevel (st.at (a, groupOf c h)) r).2 = true
      then allowedChain (KMap.set st (a, groupOf c h) (allowedLevel (st.at (a, groupOf c h)) r).1) rest r h
      else (KMap.set st (a, groupOf c h) (allowedLevel (st.at (a, groupOf c h)) r).1, false) := by
  simp only [allowedChain]

theorem decChain_cons (st : St) (a : QId) (c : QuotaCfg) (rest : List (QId × QuotaCfg)) (r : Rid) (h : Hdrs) :
    decChain st ((a, c) :: rest) r h =
      decChain (KMap.set st (a, groupOf c h) (decLevel (st.at (a, groupOf c h)) r)) rest r h := by
  simp only [decChain]

theorem sInc_cons (ss : SSt) (a : QId) (c : QuotaCfg) (rest : List (QId × QuotaCfg)) (t : Nat) (h : Hdrs) :
    sInc ss ((a, c) :: rest) t h =
      if c.max < curCharged c.win t (ss.at (a, groupOf c h)) + costOf c h then (ss, false)
      else if (sInc (KMap.set ss (a, groupOf c h) (chargeWin c.win t (costOf c h) (ss.at (a, groupOf c h)))) rest t h).2 = true then
        ((sInc (KMap.set ss (a, groupOf c h) (chargeWin c.win t (costOf c h) (ss.at (a, groupOf c h)))) rest t h).1, true)
      else
        (KMap.set (sInc (KMap.set ss (a, groupOf c h) (chargeWin c.win t (costOf c h) (ss.at (a, groupOf c h)))) rest t h).1
           (a, groupOf c h)
           (refundWin (costOf c h) (SSt.at (sInc (KMap.set ss (a, groupOf c h) (chargeWin c.win t (costOf c h) (ss.at (a, groupOf c h)))) rest t h).1
             (a, groupOf c h))), false) := by
  simp only [sInc]

theorem sAdmit_cons (ss : SSt) (a : QId) (c : QuotaCfg) (rest : List (QId × QuotaCfg)) (h : Hdrs) :
    sAdmit ss ((a, c) :: rest) h =
      sAdmit (KMap.set ss (a, groupOf c h) (admitWin (costOf c h) (ss.at (a, groupOf c h)))) rest h := by
  simp only [sAdmit]

/-! ### Levels of the model against the windows reconstructed by the Spec -/

def LevelsRel (cfg : Cfg) (st : St) (ss : SSt) : Prop :=
  ∀ (k : Key) (c : QuotaCfg), cfg.quotas[k.1]? = some c → TInv c.max (st.at k) (ss.at k)

theorem LevelsRel.init (cfg : Cfg) : LevelsRel cfg St.init SSt.init := by
  intro k c _
  simpa [St.at_init, SSt.at_init] using TInv.init c.max

theorem LevelsRel.set2 {cfg : Cfg} {st : St} {ss : SSt} (hrel : LevelsRel cfg st ss) (k : Key) (c : QuotaCfg)
    (hc : cfg.quotas[k.1]? = some c) (l' : Lvl) (ws' : List Win) (h : TInv c.max l' ws') :
    LevelsRel cfg (KMap.set st k l') (KMap.set ss k ws') := by
  intro q c' hq
  rw [St.at_set, SSt.at_set]
  by_cases hk : k = q
  · subst hk
    rw [hc] at hq
    have := Option.some.inj hq
    subst this
    simpa using h
  · simpa [hk] using hrel q c' hq

theorem LevelsRel.setL {cfg : Cfg} {st : St} {ss : SSt} (hrel : LevelsRel cfg st ss) (k : Key) (c : QuotaCfg)
    (hc : cfg.quotas[k.1]? = some c) (l' : Lvl) (h : TInv c.max l' (ss.at k)) :
    LevelsRel cfg (KMap.set st k l') ss := by
  intro q c' hq
  rw [St.at_set]
  by_cases hk : k = q
  · subst hk
    rw [hc] at hq
    have := Option.some.inj hq
    subst this
    simpa using h
  · simpa [hk] using hrel q c' hq

theorem allowedLevel_inv_weak {mx : Nat} {l : Lvl} {ws : List Win} (inv : TInv mx l ws) (r : Rid) :
    TInv mx (allowedLevel l r).1 ws := by
  unfold allowedLevel
  cases hl : l.memo.lookup r with
  | none => simpa using inv
  | some v => simpa [decLevel] using decLevel_inv inv r

/-! ### Lookups in the memo -/

theorem lookup_filter_none (m : List (Rid × Option Nat)) (p : Rid × Option Nat → Bool) (r : Rid)
    (h : m.lookup r = none) : (m.filter p).lookup r = none := by
  induction m with
  | nil => simp
  | cons e m ih =>
    obtain ⟨a, b⟩ := e
    by_cases hr : r = a
    · subst hr; simp at h
    · have hne : (r == a) = false := by simpa using hr
      simp only [List.lookup_cons, hne] at h
      by_cases hp : p (a, b) = true
      · simp only [List.filter_cons, hp, if_true, List.lookup_cons, hne]; exact ih h
      · simp only [List.filter_cons, hp]; exact ih h

theorem lookup_erase_self (m : List (Rid × Option Nat)) (r : Rid) :
    (m.filter (fun e => e.1 != r)).lookup r = none := by
  induction m with
  | nil => simp
  | cons e m ih =>
    obtain ⟨a, b⟩ := e
    by_cases hr : a = r
    · subst hr; simpa [List.filter_cons] using ih
    · have h1 : (a != r) = true := by simpa using hr
      have h2 : (r == a) = false := by simp; exact fun h => hr h.symm
      simp only [List.filter_cons, h1, if_true, List.lookup_cons, h2]; exact ih

theorem incLevel_lookup_other (mx win : Nat) (l : Lvl) (r t cost : Nat) (r' : Rid) (hne : r' ≠ r)
    (h : l.memo.lookup r' = none) : (incLevel mx win l r t cost).1.memo.lookup r' = none := by
  have hb : (r' == r) = false := by simpa using hne
  unfold incLevel
  cases hl : l.memo.lookup r with
  | some v => simpa using h
  | none =>
    dsimp only
    by_cases hblk : mx < (if decide (win ≤ elapsed l t) = true then 0 else l.counter) + cost
    · simp only [hblk, if_true]
      by_cases hd : decide (win ≤ elapsed l t) = true
      · simp [hd]
      · simp [hd, List.lookup_cons, hb, h]
    · simp only [hblk, if_false]
      by_cases hd : decide (win ≤ elapsed l t) = true
      · simp [hd, List.lookup_cons, hb]
      · simp [hd, List.lookup_cons, hb, h]

theorem incLevel_increased_lookup (mx win : Nat) (l : Lvl) (r t cost : Nat)
    (h : (incLevel mx win l r t cost).2 = IncRes.increased) :
    (incLevel mx win l r t cost).1.memo.lookup r = some (some cost) := by
  unfold incLevel at h ⊢
  cases hl : l.memo.lookup r with
  | some v => simp [hl] at h
  | none =>
    simp only [hl] at h ⊢
    by_cases hblk : mx < (if decide (win ≤ elapsed l t) = true then 0 else l.counter) + cost
    · simp only [hblk, if_true] at h; exact absurd h (by simp)
    · simp only [hblk, if_false]; simp

theorem incLevel_blocked_lookup (mx win : Nat) (l : Lvl) (r t cost : Nat) (hf : l.memo.lookup r = none)
    (h : (incLevel mx win l r t cost).2 ≠ IncRes.increased) :
    ∀ c, (incLevel mx win l r t cost).1.memo.lookup r ≠ some (some c) := by
  intro c
  unfold incLevel at h ⊢
  simp only [hf] at h ⊢
  by_cases hblk : mx < (if decide (win ≤ elapsed l t) = true then 0 else l.counter) + cost
  · simp only [hblk, if_true]
    by_cases hd : decide (win ≤ elapsed l t) = true
    · simp [hd]
    · simp [hd]
  · simp only [hblk, if_false] at h; exact absurd rfl h

theorem refundLevel_lookup_other (l : Lvl) (r r' : Rid) (hne : r' ≠ r) (h : l.memo.lookup r' = none) :
    (refundLevel l r).1.memo.lookup r' = none := by
  have hb : (r' == r) = false := by simpa using hne
  unfold refundLevel
  split
  · simp only [List.lookup_cons, hb]
    exact lookup_filter_none _ _ _ h
  · exact h

theorem refundLevel_not_true (l : Lvl) (r : Rid) : ∀ c, (refundLevel l r).1.memo.lookup r ≠ some (some c) := by
  intro c
  unfold refundLevel
  split
  · simp
  · rename_i hx
    intro h
    exact hx c h

theorem refundLevel_did (l : Lvl) (r : Rid) (c : Nat) (h : l.memo.lookup r = some (some c)) :
    (refundLevel l r).2 = true := by
  simp [refundLevel, h]

theorem allowedLevel_false_of (l : Lvl) (r : Rid) (h : ∀ c, l.memo.lookup r ≠ some (some c)) :
    (allowedLevel l r).2 = false := by
  unfold allowedLevel
  cases hl : l.memo.lookup r with
  | none => rfl
  | some v =>
    cases v with
    | none => rfl
    | some c => exact absurd hl (h c)

theorem allowedLevel_true_iff (l : Lvl) (r : Rid) (h : (allowedLevel l r).2 = true) :
    ∃ c, l.memo.lookup r = some (some c) := by
  unfold allowedLevel at h
  cases hl : l.memo.lookup r with
  | none => simp [hl] at h
  | some v =>
    cases v with
    | none => simp [hl] at h
    | some c => exact ⟨c, rfl⟩

theorem allowedLevel_lookup_self (l : Lvl) (r : Rid) : (allowedLevel l r).1.memo.lookup r = none := by
  unfold allowedLevel
  cases hl : l.memo.lookup r with
  | none => exact hl
  | some v => exact lookup_erase_self _ _

theorem lookup_erase_other (m : List (Rid × Option Nat)) (r r' : Rid) (hne : r' ≠ r) :
    (m.filter (fun e => e.1 != r)).lookup r' = m.lookup r' := by
  induction m with
  | nil => rfl
  | cons e m ih =>
    obtain ⟨a, b⟩ := e
    by_cases ha : a = r
    · subst ha
      have h2 : (r' == a) = false := by simpa using hne
      simp [List.filter_cons, List.lookup_cons, h2, ih]
    · have h1 : (a != r) = true := by simpa using ha
      simp only [List.filter_cons, h1, if_true, List.lookup_cons, ih]

/-! #### Pending entries only appear through `Inc` of the same request, with the amount it counts -/

theorem incLevel_entries (mx win : Nat) (l : Lvl) (r t cost : Nat) (r' : Rid) (amt : Nat)
    (h : (incLevel mx win l r t cost).1.memo.lookup r' = some (some amt)) :
    l.memo.lookup r' = some (some amt) ∨ (r' = r ∧ amt = cost) := by
  unfold incLevel at h
  cases hl : l.memo.lookup r with
  | some v => simp only [hl] at h; exact Or.inl h
  | none =>
    simp only [hl] at h
    by_cases hr : r' = r
    · subst hr
      by_cases hblk : mx < (if decide (win ≤ elapsed l t) = true then 0 else l.counter) + cost
      · simp only [hblk, if_true] at h
        by_cases hd : decide (win ≤ elapsed l t) = true
        · simp [hd] at h
        · simp [hd] at h
      · simp only [hblk, if_false] at h
        simp at h
        exact Or.inr ⟨rfl, h.symm⟩
    · have hb : (r' == r) = false := by simpa using hr
      by_cases hblk : mx < (if decide (win ≤ elapsed l t) = true then 0 else l.counter) + cost
      · simp only [hblk, if_true] at h
        by_cases hd : decide (win ≤ elapsed l t) = true
        · simp [hd] at h
        · simp [hd, List.lookup_cons, hb] at h; exact Or.inl h
      · simp only [hblk, if_false] at h
        by_cases hd : decide (win ≤ elapsed l t) = true
        · simp [hd, List.lookup_cons, hb] at h
        · simp [hd, List.lookup_cons, hb] at h; exact Or.inl h

theorem erase_entries (m : List (Rid × Option Nat)) (r r' : Rid) (x : Option Nat)
    (h : (m.filter (fun e => e.1 != r)).lookup r' = some x) : m.lookup r' = some x := by
  by_cases hr : r' = r
  · subst hr; rw [lookup_erase_self] at h; exact absurd h (by simp)
  · rw [lookup_erase_other _ _ _ hr] at h; exact h

theorem refundLevel_entries (l : Lvl) (r r' : Rid) (amt : Nat)
    (h : (refundLevel l r).1.memo.lookup r' = some (some amt)) : l.memo.lookup r' = some (some amt) := by
  unfold refundLevel at h
  split at h
  · by_cases hr : r' = r
    · subst hr; simp at h
    · have hb : (r' == r) = false := by simpa using hr
      simp only [List.lookup_cons, hb] at h
      exact erase_entries _ _ _ _ h
  · exact h

theorem allowedLevel_entries (l : Lvl) (r r' : Rid) (x : Option Nat)
    (h : (allowedLevel l r).1.memo.lookup r' = some x) : l.memo.lookup r' = some x := by
  unfold allowedLevel at h
  cases hl : l.memo.lookup r with
  | none => simp only [hl] at h; exact h
  | some v => simp only [hl] at h; exact erase_entries _ _ _ _ h

theorem decLevel_entries (l : Lvl) (r r' : Rid) (x : Option Nat)
    (h : (decLevel l r).memo.lookup r' = some x) : l.memo.lookup r' = some x :=
  erase_entries _ _ _ _ h

/-- Some quota of the chain has no room for what the arrival counts there, given what has been charged
    to its current window. -/
def fullCharged (ss : SSt) (ch : List (QId × QuotaCfg)) (t : Nat) (h : Hdrs) : Bool :=
  ch.any fun (a, c) => decide (c.max < curCharged c.win t (ss.at (a, groupOf c h)) + costOf c h)

theorem fullCharged_congr (ss ss' : SSt) (t : Nat) (h : Hdrs) : ∀ (ch : List (QId × QuotaCfg)),
    (∀ p ∈ ch, ss.at (keyOf p h) = ss'.at (keyOf p h)) → fullCharged ss ch t h = fullCharged ss' ch t h := by
  intro ch
  induction ch with
  | nil => intro _; rfl
  | cons ac rest ih =>
    intro hc
    obtain ⟨a, c⟩ := ac
    have h0 := hc (a, c) (by simp)
    simp only [keyOf] at h0
    have ih' := ih (fun p hp => hc p (by simp [hp]))
    unfold fullCharged at ih' ⊢
    simp only [List.any_cons, h0, ih']

/-! ### Keys the walkers do not touch -/

theorem incChain_at_other (r t : Nat) (h : Hdrs) (k : Key) : ∀ (ch : List (QId × QuotaCfg)) (st : St),
    (∀ p ∈ ch, keyOf p h ≠ k) → (incChain st ch r t h).1.at k = st.at k := by
  intro ch
  induction ch with
  | nil => intro st _; rfl
  | cons ac rest ih =>
    intro st hk
    obtain ⟨a, c⟩ := ac
    have hk0 : (a, groupOf c h) ≠ k := hk (a, c) (by simp)
    have hrest := ih (KMap.set st (a, groupOf c h) (incLevel c.max c.win (st.at (a, groupOf c h)) r t (costOf c h)).1)
      (fun p hp => hk p (by simp [hp]))
    rw [incChain_cons]
    split
    · split
      · dsimp only
        rw [St.at_set]
        simp only [hk0, if_false]
        rw [hrest, St.at_set]; simp [hk0]
      · dsimp only
        rw [hrest, St.at_set]; simp [hk0]
    · dsimp only
      rw [St.at_set]; simp [hk0]

theorem sInc_at_other (t : Nat) (h : Hdrs) (k : Key) : ∀ (ch : List (QId × QuotaCfg)) (ss : SSt),
    (∀ p ∈ ch, keyOf p h ≠ k) → (sInc ss ch t h).1.at k = ss.at k := by
  intro ch
  induction ch with
  | nil => intro ss _; rfl
  | cons ac rest ih =>
    intro ss hk
    obtain ⟨a, c⟩ := ac
    have hk0 : (a, groupOf c h) ≠ k := hk (a, c) (by simp)
    have hrest := ih (KMap.set ss (a, groupOf c h) (chargeWin c.win t (costOf c h) (ss.at (a, groupOf c h))))
      (fun p hp => hk p (by simp [hp]))
    rw [sInc_cons]
    split
    · rfl
    · split
      · dsimp only
        rw [hrest, SSt.at_set]; simp [hk0]
      · dsimp only
        rw [SSt.at_set]
        simp only [hk0, if_false]
        rw [hrest, SSt.at_set]; simp [hk0]

theorem incChain_lookup_other (r t : Nat) (h : Hdrs) (r' : Rid) (hne : r' ≠ r) :
    ∀ (ch : List (QId × QuotaCfg)) (st : St), (∀ k, (st.at k).memo.lookup r' = none) →
      ∀ k, ((incChain st ch r t h).1.at k).memo.lookup r' = none := by
  intro ch
  induction ch with
  | nil => intro st hst k; exact hst k
  | cons ac rest ih =>
    intro st hst
    obtain ⟨a, c⟩ := ac
    have hset : ∀ k, (St.at (KMap.set st (a, groupOf c h)
        (incLevel c.max c.win (st.at (a, groupOf c h)) r t (costOf c h)).1) k).memo.lookup r' = none := by
      intro k
      rw [St.at_set]
      split
      · exact incLevel_lookup_other _ _ _ _ _ _ _ hne (hst _)
      · exact hst k
    have hrest := ih _ hset
    rw [incChain_cons]
    split
    · split
      · dsimp only
        intro k
        rw [St.at_set]
        split
        · exact refundLevel_lookup_other _ _ _ hne (hrest _)
        · exact hrest k
      · exact hrest
    · exact hset

theorem allowedChain_lookup_none (r : Rid) (h : Hdrs) (r' : Rid) :
    ∀ (ch : List (QId × QuotaCfg)) (st : St), (∀ k, (st.at k).memo.lookup r' = none) →
      ∀ k, ((allowedChain st ch r h).1.at k).memo.lookup r' = none := by
  intro ch
  induction ch with
  | nil => intro st hst k; exact hst k
  | cons ac rest ih =>
    intro st hst
    obtain ⟨a, c⟩ := ac
    have hset : ∀ k, (St.at (KMap.set st (a, groupOf c h) (allowedLevel (st.at (a, groupOf c h)) r).1) k).memo.lookup r' = none := by
      intro k
      rw [St.at_set]
      split
      · unfold allowedLevel
        cases hl : (st.at (a, groupOf c h)).memo.lookup r with
        | none => exact hst _
        | some v => exact lookup_filter_none _ _ _ (hst _)
      · exact hst k
    rw [allowedChain_cons]
    split
    · exact ih _ hset
    · exact hset

theorem decChain_lookup_none (r : Rid) (h : Hdrs) (r' : Rid) :
    ∀ (ch : List (QId × QuotaCfg)) (st : St), (∀ k, (st.at k).memo.lookup r' = none) →
      ∀ k, ((decChain st ch r h).at k).memo.lookup r' = none := by
  intro ch
  induction ch with
  | nil => intro st hst k; exact hst k
  | cons ac rest ih =>
    intro st hst
    obtain ⟨a, c⟩ := ac
    rw [decChain_cons]
    apply ih
    intro k
    rw [St.at_set]
    split
    · exact lookup_filter_none _ _ _ (hst _)
    · exact hst k

theorem incChain_entries (r t : Nat) (h : Hdrs) (r' : Rid) (amt : Nat) :
    ∀ (ch : List (QId × QuotaCfg)) (st : St) (k : Key),
      ((incChain st ch r t h).1.at k).memo.lookup r' = some (some amt) →
      (st.at k).memo.lookup r' = some (some amt) ∨ (r' = r ∧ ∃ p ∈ ch, keyOf p h = k ∧ amt = costOf p.2 h) := by
  intro ch
  induction ch with
  | nil => intro st k hl; exact Or.inl hl
  | cons ac rest ih =>
    intro st k hl
    obtain ⟨a, c⟩ := ac
    have hset : ∀ q, (St.at (KMap.set st (a, groupOf c h)
        (incLevel c.max c.win (st.at (a, groupOf c h)) r t (costOf c h)).1) q).memo.lookup r' = some (some amt) →
        (st.at q).memo.lookup r' = some (some amt) ∨ (r' = r ∧ ∃ p ∈ (a, c) :: rest, keyOf p h = q ∧ amt = costOf p.2 h) := by
      intro q hq
      rw [St.at_set] at hq
      by_cases hk : (a, groupOf c h) = q
      · simp only [hk, if_true] at hq
        rw [← hk] at hq
        rcases incLevel_entries _ _ _ _ _ _ _ _ hq with h1 | ⟨h1, h2⟩
        · left; rw [← hk]; exact h1
        · right; exact ⟨h1, (a, c), by simp, hk, h2⟩
      · simp only [hk, if_false] at hq; exact Or.inl hq
    have hrest : ∀ q, ((incChain (KMap.set st (a, groupOf c h)
        (incLevel c.max c.win (st.at (a, groupOf c h)) r t (costOf c h)).1) rest r t h).1.at q).memo.lookup r' = some (some amt) →
        (st.at q).memo.lookup r' = some (some amt) ∨ (r' = r ∧ ∃ p ∈ (a, c) :: rest, keyOf p h = q ∧ amt = costOf p.2 h) := by
      intro q hq
      rcases ih _ q hq with h1 | ⟨h1, p, hp, h2, h3⟩
      · exact hset q h1
      · exact Or.inr ⟨h1, p, by simp [hp], h2, h3⟩
    rw [incChain_cons] at hl
    split at hl
    · split at hl
      · dsimp only at hl
        rw [St.at_set] at hl
        by_cases hk : (a, groupOf c h) = k
        · simp only [hk, if_true] at hl
          have := refundLevel_entries _ _ _ _ hl
          rw [← hk] at this
          rw [← hk]
          exact hrest _ this
        · simp only [hk, if_false] at hl
          exact hrest k hl
      · exact hrest k hl
    · exact hset k hl

theorem allowedChain_entries (r : Rid) (h : Hdrs) (r' : Rid) (x : Option Nat) :
    ∀ (ch : List (QId × QuotaCfg)) (st : St) (k : Key),
      ((allowedChain st ch r h).1.at k).memo.lookup r' = some x → (st.at k).memo.lookup r' = some x := by
  intro ch
  induction ch with
  | nil => intro st k hl; exact hl
  | cons ac rest ih =>
    intro st k hl
    obtain ⟨a, c⟩ := ac
    have hset : ∀ q, (St.at (KMap.set st (a, groupOf c h) (allowedLevel (st.at (a, groupOf c h)) r).1) q).memo.lookup r' = some x →
        (st.at q).memo.lookup r' = some x := by
      intro q hq
      rw [St.at_set] at hq
      by_cases hk : (a, groupOf c h) = q
      · simp only [hk, if_true] at hq
        rw [← hk] at hq ⊢
        exact allowedLevel_entries _ _ _ _ hq
      · simp only [hk, if_false] at hq; exact hq
    rw [allowedChain_cons] at hl
    split at hl
    · exact hset k (ih _ k hl)
    · exact hset k hl

theorem decChain_entries (r : Rid) (h : Hdrs) (r' : Rid) (x : Option Nat) :
    ∀ (ch : List (QId × QuotaCfg)) (st : St) (k : Key),
      ((decChain st ch r h).at k).memo.lookup r' = some x → (st.at k).memo.lookup r' = some x := by
  intro ch
  induction ch with
  | nil => intro st k hl; exact hl
  | cons ac rest ih =>
    intro st k hl
    obtain ⟨a, c⟩ := ac
    rw [decChain_cons] at hl
    have := ih _ k hl
    rw [St.at_set] at this
    by_cases hk : (a, groupOf c h) = k
    · simp only [hk, if_true] at this
      rw [← hk] at this ⊢
      exact decLevel_entries _ _ _ _ this
    · simp only [hk, if_false] at this; exact this

/-! ### The walkers preserve the relation -/

theorem incChain_rel (cfg : Cfg) (r t : Nat) (h : Hdrs) : ∀ (ch : List (QId × QuotaCfg)) (st : St) (ss : SSt),
    (∀ p ∈ ch, validPair cfg p) → (ch.map (·.1)).Nodup → LevelsRel cfg st ss →
    (∀ p ∈ ch, (st.at (keyOf p h)).memo.lookup r = none) →
    LevelsRel cfg (incChain st ch r t h).1 (sInc ss ch t h).1 ∧
    ((incChain st ch r t h).2 = IncRes.blocked ↔ (sInc ss ch t h).2 = false) := by
  intro ch
  induction ch with
  | nil => intro st ss _ _ hrel _; exact ⟨hrel, by simp [incChain, sInc]⟩
  | cons ac rest ih =>
    intro st ss hv hnd hrel hfresh
    obtain ⟨a, c⟩ := ac
    have hac : cfg.quotas[a]? = some c := hv (a, c) (by simp)
    have hf0 : (st.at (a, groupOf c h)).memo.lookup r = none := hfresh (a, c) (by simp)
    have hinv := hrel (a, groupOf c h) c hac
    have hres := incLevel_res hinv c.win r t (costOf c h) hf0
    have hstep := incLevel_inv hinv c.win r t (costOf c h)
    rw [incChain_cons, sInc_cons]
    by_cases hblk : c.max < curCharged c.win t (ss.at (a, groupOf c h)) + costOf c h
    · simp only [hblk, if_true] at hres ⊢
      simp only [hres] at hstep ⊢
      have : (IncRes.blocked = IncRes.increased) = False := by simp
      simp only [this, if_false]
      exact ⟨hrel.setL (a, groupOf c h) c hac _ (by simpa using hstep), by simp⟩
    · simp only [hblk, if_false] at hres ⊢
      simp only [hres, if_true] at hstep ⊢
      simp only [List.map_cons, List.nodup_cons] at hnd
      have hother : ∀ q ∈ rest, keyOf q h ≠ (a, groupOf c h) := by
        intro q hq e
        have : q.1 = a := congrArg Prod.fst e
        exact hnd.1 (by rw [← this]; exact List.mem_map_of_mem hq)
      obtain ⟨ih1, ih2⟩ := ih (KMap.set st (a, groupOf c h) (incLevel c.max c.win (st.at (a, groupOf c h)) r t (costOf c h)).1)
        (KMap.set ss (a, groupOf c h) (chargeWin c.win t (costOf c h) (ss.at (a, groupOf c h))))
        (fun p hp => hv p (by simp [hp])) hnd.2 (hrel.set2 (a, groupOf c h) c hac _ _ hstep)
        (by
          intro p hp
          rw [St.at_set]
          simp only [Ne.symm (hother p hp), if_false]
          exact hfresh p (by simp [hp]))
      by_cases hup : (sInc (KMap.set ss (a, groupOf c h) (chargeWin c.win t (costOf c h) (ss.at (a, groupOf c h)))) rest t h).2 = true
      · have hnb : ¬ (incChain (KMap.set st (a, groupOf c h) (incLevel c.max c.win (st.at (a, groupOf c h)) r t (costOf c h)).1) rest r t h).2
            = IncRes.blocked := by
          intro hb; rw [ih2.mp hb] at hup; exact absurd hup (by simp)
        simp only [hup, hnb, if_true, if_false]
        exact ⟨ih1, by simp⟩
      · have hupf : (sInc (KMap.set ss (a, groupOf c h) (chargeWin c.win t (costOf c h) (ss.at (a, groupOf c h)))) rest t h).2 = false := by
          simpa using hup
        have hb := ih2.mpr hupf
        simp only [hb, hupf, if_true, Bool.false_eq_true, if_false]
        refine ⟨?_, by simp⟩
        -- the level is still as `Inc` left it: the request's entry is `true`, so the refund happens
        have hat : St.at (incChain (KMap.set st (a, groupOf c h) (incLevel c.max c.win (st.at (a, groupOf c h)) r t (costOf c h)).1) rest r t h).1
            (a, groupOf c h) = (incLevel c.max c.win (st.at (a, groupOf c h)) r t (costOf c h)).1 := by
          rw [incChain_at_other _ _ _ _ _ _ hother, St.at_set]; simp
        have hlk : (St.at (incChain (KMap.set st (a, groupOf c h)
            (incLevel c.max c.win (st.at (a, groupOf c h)) r t (costOf c h)).1) rest r t h).1 (a, groupOf c h)).memo.lookup r
            = some (some (costOf c h)) := by
          rw [hat]; exact incLevel_increased_lookup _ _ _ _ _ _ hres
        have hdid := refundLevel_did _ r _ hlk
        have hamt := pendingAmt_of_lookup _ r _ hlk
        have := refundLevel_inv (ih1 (a, groupOf c h) c hac) r
        simp only [hdid, if_true, hamt] at this
        exact ih1.set2 (a, groupOf c h) c hac _ _ this

/-- What is pending for `r` at the levels of the chain is what `r` counts there with headers `h`. -/
def AmtOk (st : St) (ch : List (QId × QuotaCfg)) (r : Rid) (h : Hdrs) : Prop :=
  ∀ p ∈ ch, ∀ amt, (st.at (keyOf p h)).memo.lookup r = some (some amt) → amt = costOf p.2 h

theorem allowedChain_rel (cfg : Cfg) (r : Rid) (h : Hdrs) : ∀ (ch : List (QId × QuotaCfg)) (st : St) (ss : SSt),
    (∀ p ∈ ch, validPair cfg p) → LevelsRel cfg st ss → AmtOk st ch r h →
    LevelsRel cfg (allowedChain st ch r h).1 (if (allowedChain st ch r h).2 = true then sAdmit ss ch h else ss) := by
  intro ch
  induction ch with
  | nil => intro st ss _ hrel _; simpa [allowedChain, sAdmit] using hrel
  | cons ac rest ih =>
    intro st ss hv hrel hamt
    obtain ⟨a, c⟩ := ac
    have hac : cfg.quotas[a]? = some c := hv (a, c) (by simp)
    have hinv := hrel (a, groupOf c h) c hac
    have hamt' : AmtOk (KMap.set st (a, groupOf c h) (allowedLevel (st.at (a, groupOf c h)) r).1) rest r h := by
      intro p hp amt hl
      rw [St.at_set] at hl
      by_cases hk : (a, groupOf c h) = keyOf p h
      · simp only [hk, if_true] at hl
        rw [← hk, allowedLevel_lookup_self] at hl
        exact absurd hl (by simp)
      · simp only [hk, if_false] at hl
        exact hamt p (by simp [hp]) amt hl
    rw [allowedChain_cons, sAdmit_cons]
    by_cases hb : (allowedLevel (st.at (a, groupOf c h)) r).2 = true
    · simp only [hb, if_true]
      have hv' : ∀ p ∈ rest, validPair cfg p := fun p hp => hv p (by simp [hp])
      by_cases hfin : (allowedChain (KMap.set st (a, groupOf c h) (allowedLevel (st.at (a, groupOf c h)) r).1) rest r h).2 = true
      · have hstrong := allowedLevel_inv hinv r
        obtain ⟨amt, hl⟩ := allowedLevel_true_iff _ r hb
        have hcost : pendingAmt (st.at (a, groupOf c h)) r = costOf c h := by
          rw [pendingAmt_of_lookup _ r amt hl]
          exact hamt (a, c) (by simp) amt hl
        simp only [hb, if_true, hcost] at hstrong
        have := ih _ _ hv' (hrel.set2 (a, groupOf c h) c hac _ _ hstrong) hamt'
        simpa [hfin] using this
      · have hweak := allowedLevel_inv_weak hinv r
        have := ih _ _ hv' (hrel.setL (a, groupOf c h) c hac _ hweak) hamt'
        simpa [hfin] using this
    · simp only [hb, Bool.false_eq_true, if_false]
      exact hrel.setL (a, groupOf c h) c hac _ (allowedLevel_inv_weak hinv r)

theorem decChain_rel (cfg : Cfg) (r : Rid) (h : Hdrs) : ∀ (ch : List (QId × QuotaCfg)) (st : St) (ss : SSt),
    (∀ p ∈ ch, validPair cfg p) → LevelsRel cfg st ss → LevelsRel cfg (decChain st ch r h) ss := by
  intro ch
  induction ch with
  | nil => intro st ss _ hrel; exact hrel
  | cons ac rest ih =>
    intro st ss hv hrel
    obtain ⟨a, c⟩ := ac
    have hac : cfg.quotas[a]? = some c := hv (a, c) (by simp)
    rw [decChain_cons]
    exact ih _ _ (fun p hp => hv p (by simp [hp])) (hrel.setL (a, groupOf c h) c hac _ (decLevel_inv (hrel (a, groupOf c h) c hac) r))

/-! ### The verdict of a limiter call is the flag of the reconstruction -/

theorem incChain_all_true (cfg : Cfg) (r t : Nat) (h : Hdrs) : ∀ (ch : List (QId × QuotaCfg)) (st : St) (ss : SSt),
    (∀ p ∈ ch, validPair cfg p) → (ch.map (·.1)).Nodup → LevelsRel cfg st ss →
    (∀ p ∈ ch, (st.at (keyOf p h)).memo.lookup r = none) →
    (sInc ss ch t h).2 = true →
    ∀ p ∈ ch, ((incChain st ch r t h).1.at (keyOf p h)).memo.lookup r = some (some (costOf p.2 h)) := by
  intro ch
  induction ch with
  | nil => intro st ss _ _ _ _ _ p hp; simp at hp
  | cons ac rest ih =>
    intro st ss hv hnd hrel hfresh hok p hp
    obtain ⟨a, c⟩ := ac
    have hac : cfg.quotas[a]? = some c := hv (a, c) (by simp)
    have hf0 : (st.at (a, groupOf c h)).memo.lookup r = none := hfresh (a, c) (by simp)
    have hinv := hrel (a, groupOf c h) c hac
    rw [sInc_cons] at hok
    have hroom : ¬ c.max < curCharged c.win t (ss.at (a, groupOf c h)) + costOf c h := by
      intro hb; simp [hb] at hok
    simp only [hroom, if_false] at hok
    have hup : (sInc (KMap.set ss (a, groupOf c h) (chargeWin c.win t (costOf c h) (ss.at (a, groupOf c h)))) rest t h).2 = true := by
      by_cases hu : (sInc (KMap.set ss (a, groupOf c h) (chargeWin c.win t (costOf c h) (ss.at (a, groupOf c h)))) rest t h).2 = true
      · exact hu
      · simp [hu] at hok
    have hres := incLevel_res hinv c.win r t (costOf c h) hf0
    simp only [hroom, if_false] at hres
    have hstep := incLevel_inv hinv c.win r t (costOf c h)
    simp only [hres, if_true] at hstep
    simp only [List.map_cons, List.nodup_cons] at hnd
    have hother : ∀ q ∈ rest, keyOf q h ≠ (a, groupOf c h) := by
      intro q hq e
      have : q.1 = a := congrArg Prod.fst e
      exact hnd.1 (by rw [← this]; exact List.mem_map_of_mem hq)
    have hrel1 := hrel.set2 (a, groupOf c h) c hac _ _ hstep
    have hfresh1 : ∀ q ∈ rest, (St.at (KMap.set st (a, groupOf c h) (incLevel c.max c.win (st.at (a, groupOf c h)) r t (costOf c h)).1)
        (keyOf q h)).memo.lookup r = none := by
      intro q hq
      rw [St.at_set]
      simp only [Ne.symm (hother q hq), if_false]
      exact hfresh q (by simp [hq])
    have hnb : ¬ (incChain (KMap.set st (a, groupOf c h) (incLevel c.max c.win (st.at (a, groupOf c h)) r t (costOf c h)).1) rest r t h).2
        = IncRes.blocked := by
      intro hb
      have := (incChain_rel cfg r t h rest _ _ (fun p hp => hv p (by simp [hp])) hnd.2 hrel1 hfresh1).2.mp hb
      rw [this] at hup; exact absurd hup (by simp)
    rw [incChain_cons]
    simp only [hres, hnb, if_true, if_false]
    simp only [List.mem_cons] at hp
    rcases hp with hp | hp
    · subst hp
      show ((incChain _ rest r t h).1.at (a, groupOf c h)).memo.lookup r = some (some (costOf c h))
      rw [incChain_at_other _ _ _ _ _ _ hother, St.at_set]
      simp only [if_true]
      exact incLevel_increased_lookup _ _ _ _ _ _ hres
    · exact ih _ _ (fun p hp => hv p (by simp [hp])) hnd.2 hrel1 hfresh1 hup p hp

theorem allowedChain_all_true (r : Rid) (h : Hdrs) : ∀ (ch : List (QId × QuotaCfg)) (st : St),
    (ch.map (·.1)).Nodup → (∀ p ∈ ch, ∃ c, (st.at (keyOf p h)).memo.lookup r = some (some c)) →
    (allowedChain st ch r h).2 = true := by
  intro ch
  induction ch with
  | nil => intro st _ _; rfl
  | cons ac rest ih =>
    intro st hnd hall
    obtain ⟨a, c⟩ := ac
    obtain ⟨c0, h0⟩ : ∃ c0, (st.at (a, groupOf c h)).memo.lookup r = some (some c0) := hall (a, c) (by simp)
    have hb : (allowedLevel (st.at (a, groupOf c h)) r).2 = true := by simp [allowedLevel, h0]
    simp only [List.map_cons, List.nodup_cons] at hnd
    rw [allowedChain_cons]
    simp only [hb, if_true]
    apply ih _ hnd.2
    intro p hp
    have : keyOf p h ≠ (a, groupOf c h) := by
      intro e
      have : p.1 = a := congrArg Prod.fst e
      exact hnd.1 (by rw [← this]; exact List.mem_map_of_mem hp)
    rw [St.at_set]
    simp only [Ne.symm this, if_false]
    exact hall p (by simp [hp])

/-- After a walk that answered `blocked` the entry of the request at the first level is not `true`. -/
theorem incChain_blocked_head (st : St) (a : QId) (c : QuotaCfg) (rest : List (QId × QuotaCfg)) (r t : Nat) (h : Hdrs)
    (hf : (st.at (a, groupOf c h)).memo.lookup r = none) (hnk : ∀ q ∈ rest, keyOf q h ≠ (a, groupOf c h))
    (hb : (incChain st ((a, c) :: rest) r t h).2 = IncRes.blocked) :
    ∀ c0, ((incChain st ((a, c) :: rest) r t h).1.at (a, groupOf c h)).memo.lookup r ≠ some (some c0) := by
  intro c0
  rw [incChain_cons] at hb ⊢
  by_cases hres : (incLevel c.max c.win (st.at (a, groupOf c h)) r t (costOf c h)).2 = IncRes.increased
  · simp only [hres, if_true] at hb ⊢
    by_cases hin : (incChain (KMap.set st (a, groupOf c h) (incLevel c.max c.win (st.at (a, groupOf c h)) r t (costOf c h)).1) rest r t h).2
        = IncRes.blocked
    · simp only [hin, if_true]
      rw [St.at_set]
      simp only [if_true]
      exact refundLevel_not_true _ r c0
    · simp [hin] at hb
  · simp only [hres, if_false] at hb ⊢
    rw [St.at_set]
    simp only [if_true]
    exact incLevel_blocked_lookup _ _ _ _ _ _ hf hres c0

/-- A limiter call with a fresh request id is let through exactly when the reconstruction says the
    arrival found room in every quota of the chain. -/
theorem limiter_verdict (cfg : Cfg) (st : St) (ss : SSt) (ch : List (QId × QuotaCfg)) (r t : Nat) (h : Hdrs)
    (hv : ∀ p ∈ ch, validPair cfg p) (hnd : (ch.map (·.1)).Nodup) (hrel : LevelsRel cfg st ss)
    (hfresh : ∀ p ∈ ch, (st.at (keyOf p h)).memo.lookup r = none) :
    (allowedChain (incChain st ch r t h).1 ch r h).2 = (sInc ss ch t h).2 := by
  cases hok : (sInc ss ch t h).2 with
  | true =>
    exact allowedChain_all_true r h ch _ hnd
      (fun p hp => ⟨_, incChain_all_true cfg r t h ch st ss hv hnd hrel hfresh hok p hp⟩)
  | false =>
    cases ch with
    | nil => simp [sInc] at hok
    | cons ac rest =>
      obtain ⟨a, c⟩ := ac
      have hb := (incChain_rel cfg r t h _ st ss hv hnd hrel hfresh).2.mpr hok
      simp only [List.map_cons, List.nodup_cons] at hnd
      have hother : ∀ q ∈ rest, keyOf q h ≠ (a, groupOf c h) := by
        intro q hq e
        have : q.1 = a := congrArg Prod.fst e
        exact hnd.1 (by rw [← this]; exact List.mem_map_of_mem hq)
      have := incChain_blocked_head st a c rest r t h (hfresh (a, c) (by simp)) hother hb
      rw [allowedChain_cons]
      simp [allowedLevel_false_of _ r this]

end LunarVerif.C01
