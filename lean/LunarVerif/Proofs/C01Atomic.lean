import LunarVerif.Proofs.C01Api
/-! C01: an API call executed without interleaving is a schedule of the interleaving semantics
(so every theorem about all schedules speaks about the API-level runs the harness drives). -/
namespace LunarVerif.C01

/-- One step of a single thread, forgetting the log. -/
def soloStep (cfg : Cfg) (now tid : Nat) (p : St × Thread) : St × Thread :=
  ((stepThread cfg p.1 now tid p.2).1, { p.2 with pc := (stepThread cfg p.1 now tid p.2).2.1 })

def solo (cfg : Cfg) (now tid : Nat) : Nat → St × Thread → St × Thread
  | 0, p => p
  | n + 1, p => solo cfg now tid n (soloStep cfg now tid p)

theorem solo_done (cfg : Cfg) (now tid : Nat) (st : St) (r : Rid) (q : QId) (h : Hdrs) (v : Option Bool) :
    ∀ n, solo cfg now tid n (st, ⟨r, q, h, .done v⟩) = (st, ⟨r, q, h, .done v⟩) := by
  intro n
  induction n with
  | zero => rfl
  | succ n ih => simp only [solo, soloStep, stepThread]; exact ih

theorem solo_allowed (cfg : Cfg) (now tid : Nat) (r : Rid) (q : QId) (h : Hdrs) :
    ∀ (todo : List (QId × QuotaCfg)) (st : St) (n : Nat), todo ≠ [] → todo.length ≤ n →
      solo cfg now tid n (st, ⟨r, q, h, .allowed todo⟩) =
        ((allowedChain st todo r h).1, ⟨r, q, h, .done (some (allowedChain st todo r h).2)⟩) := by
  intro todo
  induction todo with
  | nil => intro st n hne; exact absurd rfl hne
  | cons ac rest ih =>
    intro st n _ hn
    obtain ⟨a, c⟩ := ac
    cases n with
    | zero => simp at hn
    | succ n =>
      simp only [List.length_cons, Nat.add_le_add_iff_right] at hn
      rw [allowedChain_cons]
      simp only [solo, soloStep, stepThread]
      by_cases hb : (allowedLevel (st.at (a, groupOf c h)) r).2 = true
      · simp only [hb, if_true]
        cases rest with
        | nil =>
          simp only [allowedChain]
          exact solo_done cfg now tid _ r q h _ n
        | cons x xs => exact ih _ n (by simp) hn
      · simp only [hb, Bool.false_eq_true, if_false]
        exact solo_done cfg now tid _ r q h _ n

theorem solo_dec (cfg : Cfg) (now tid : Nat) (r : Rid) (q : QId) (h : Hdrs) :
    ∀ (todo : List (QId × QuotaCfg)) (st : St) (n : Nat), todo.length + 1 ≤ n →
      solo cfg now tid n (st, ⟨r, q, h, .dec todo⟩) = (decChain st todo r h, ⟨r, q, h, .done none⟩) := by
  intro todo
  induction todo with
  | nil =>
    intro st n hn
    cases n with
    | zero => simp at hn
    | succ n =>
      simp only [solo, soloStep, stepThread, decChain]
      exact solo_done cfg now tid _ r q h _ n
  | cons ac rest ih =>
    intro st n hn
    obtain ⟨a, c⟩ := ac
    cases n with
    | zero => simp at hn
    | succ n =>
      simp only [List.length_cons, Nat.add_le_add_iff_right] at hn
      rw [decChain_cons]
      simp only [solo, soloStep, stepThread]
      exact ih _ n hn

/-- Give back the charges of the listed levels, in order. -/
def refundAll (st : St) : List (QId × QuotaCfg) → Rid → Hdrs → St
  | [], _, _ => st
  | (a, c) :: rest, r, h =>
    refundAll (KMap.set st (a, groupOf c h) (refundLevel (st.at (a, groupOf c h)) r).1) rest r h

/-- What remains to be done once the `Inc` walk is over. -/
def finish (cfg : Cfg) (q : QId) (r : Rid) (h : Hdrs) (thenA : Bool) (st : St) : St × Thread :=
  if thenA then ((allowedChain st (chain cfg q) r h).1, ⟨r, q, h, .done (some (allowedChain st (chain cfg q) r h).2)⟩)
  else (st, ⟨r, q, h, .done none⟩)

theorem solo_after (cfg : Cfg) (now tid : Nat) (r : Rid) (q : QId) (h : Hdrs) (hq : chain cfg q ≠ []) (thenA : Bool)
    (st : St) (n : Nat) (hn : (chain cfg q).length ≤ n) :
    solo cfg now tid n (st, ⟨r, q, h, afterInc cfg q thenA⟩) = finish cfg q r h thenA st := by
  cases thenA with
  | true => simpa [afterInc, finish] using solo_allowed cfg now tid r q h _ st n hq hn
  | false => simpa [afterInc, finish] using solo_done cfg now tid st r q h none n

theorem solo_refund (cfg : Cfg) (now tid : Nat) (r : Rid) (q : QId) (h : Hdrs) (hq : chain cfg q ≠ []) (thenA : Bool) :
    ∀ (todo : List (QId × QuotaCfg)) (st : St) (n : Nat), todo ≠ [] → todo.length + (chain cfg q).length ≤ n →
      solo cfg now tid n (st, ⟨r, q, h, .refund todo thenA⟩) = finish cfg q r h thenA (refundAll st todo r h) := by
  intro todo
  induction todo with
  | nil => intro st n hne; exact absurd rfl hne
  | cons ac rest ih =>
    intro st n _ hn
    obtain ⟨a, c⟩ := ac
    cases n with
    | zero => simp at hn
    | succ n =>
      simp only [List.length_cons] at hn
      simp only [solo, soloStep, stepThread, refundAll]
      cases rest with
      | nil =>
        simp only [refundNext, refundAll]
        exact solo_after cfg now tid r q h hq thenA _ n (by simp at hn; omega)
      | cons x xs =>
        simp only [refundNext]
        exact ih _ n (by simp) (by simp only [List.length_cons] at hn ⊢; omega)

/-- State reached by the `Inc` walk over `todo` when the levels in `charged` were charged before it. -/
def incOutcome (st : St) (todo charged : List (QId × QuotaCfg)) (r : Rid) (t : Nat) (h : Hdrs) : St :=
  if (incChain st todo r t h).2 = IncRes.blocked then refundAll (incChain st todo r t h).1 charged r h
  else (incChain st todo r t h).1

theorem solo_inc (cfg : Cfg) (now tid : Nat) (r : Rid) (q : QId) (h : Hdrs) (hq : chain cfg q ≠ []) (thenA : Bool) :
    ∀ (todo charged : List (QId × QuotaCfg)) (st : St) (n : Nat), todo ≠ [] →
      2 * todo.length + charged.length + (chain cfg q).length ≤ n →
      solo cfg now tid n (st, ⟨r, q, h, .inc todo charged thenA⟩) =
        finish cfg q r h thenA (incOutcome st todo charged r now h) := by
  intro todo
  induction todo with
  | nil => intro charged st n hne; exact absurd rfl hne
  | cons ac rest ih =>
    intro charged st n _ hn
    obtain ⟨a, c⟩ := ac
    cases n with
    | zero => simp at hn
    | succ n =>
      simp only [List.length_cons] at hn
      simp only [solo, soloStep, stepThread]
      unfold incOutcome
      rw [incChain_cons]
      cases hres : (incLevel c.max c.win (st.at (a, groupOf c h)) r now (costOf c h)).2 with
      | increased =>
        simp only [if_true]
        cases rest with
        | nil =>
          simp only [incNext, incChain]
          have : ¬ (IncRes.increased = IncRes.blocked) := by simp
          simp only [this, if_false]
          exact solo_after cfg now tid r q h hq thenA _ n (by omega)
        | cons x xs =>
          simp only [incNext]
          rw [ih ((a, c) :: charged) _ n (by simp) (by simp only [List.length_cons] at hn ⊢; omega)]
          unfold incOutcome
          by_cases hin : (incChain (KMap.set st (a, groupOf c h) (incLevel c.max c.win (st.at (a, groupOf c h)) r now (costOf c h)).1)
              (x :: xs) r now h).2 = IncRes.blocked
          · simp only [hin, if_true, refundAll]
          · have : ¬ (IncRes.increased = IncRes.blocked) := by simp
            simp only [hin, if_false, this]
      | blocked =>
        have : ¬ (IncRes.blocked = IncRes.increased) := by simp
        simp only [this, if_false, if_true]
        cases charged with
        | nil =>
          simp only [incNext, refundAll]
          exact solo_after cfg now tid r q h hq thenA _ n (by omega)
        | cons y ys =>
          simp only [incNext]
          exact solo_refund cfg now tid r q h hq thenA _ _ n (by simp) (by simp only [List.length_cons] at hn ⊢; omega)
      | already =>
        have h1 : ¬ (IncRes.already = IncRes.increased) := by simp
        have h2 : ¬ (IncRes.already = IncRes.blocked) := by simp
        simp only [h1, h2, if_false, incNext]
        exact solo_after cfg now tid r q h hq thenA _ n (by omega)

theorem act_step_eq (cfg : Cfg) (tid : Nat) (s : Sys) (th : Thread) (hth : s.threads[tid]? = some th) :
    (Sys.act cfg s (.step tid)).st = (soloStep cfg s.now tid (s.st, th)).1 ∧
    (Sys.act cfg s (.step tid)).threads[tid]? = some (soloStep cfg s.now tid (s.st, th)).2 ∧
    (Sys.act cfg s (.step tid)).now = s.now := by
  have hlt : tid < s.threads.length := (List.getElem?_eq_some_iff.mp hth).1
  simp only [Sys.act, hth, soloStep]
  simp [List.getElem?_set_self hlt]

/-- `n` consecutive steps of thread `tid` change the level states and that thread exactly as `solo`. -/
theorem run_steps (cfg : Cfg) (tid : Nat) : ∀ (n : Nat) (s : Sys) (th : Thread), s.threads[tid]? = some th →
    (Sys.run cfg s (List.replicate n (.step tid))).st = (solo cfg s.now tid n (s.st, th)).1 ∧
    (Sys.run cfg s (List.replicate n (.step tid))).threads[tid]? = some (solo cfg s.now tid n (s.st, th)).2 ∧
    (Sys.run cfg s (List.replicate n (.step tid))).now = s.now := by
  intro n
  induction n with
  | zero => intro s th hth; exact ⟨rfl, hth, rfl⟩
  | succ n ih =>
    intro s th hth
    obtain ⟨h1, h2, h3⟩ := act_step_eq cfg tid s th hth
    have := ih (Sys.act cfg s (.step tid)) _ h2
    rw [h1, h3] at this
    simpa [List.replicate_succ, Sys.run, solo] using this

/-- A call on an existing quota, spawned and run to completion without interleaving (at most
    `3·depth + 1` steps; further steps of a finished thread do nothing), has exactly the effect and
    the answer of `apiStep` at the current instant. -/
theorem atomic_call (cfg : Cfg) (s : Sys) (kind : Kind) (q : QId) (r : Rid) (h : Hdrs)
    (hq : chain cfg q ≠ []) (n : Nat) (hn : 3 * (chain cfg q).length + 1 ≤ n) :
    let s' := Sys.run cfg s (.spawn kind q r h :: List.replicate n (.step s.threads.length))
    s'.st = (apiStep cfg s.st ⟨kind, q, r, s.now, h⟩).1 ∧
    s'.threads[s.threads.length]? = some ⟨r, q, h, .done (apiStep cfg s.st ⟨kind, q, r, s.now, h⟩).2⟩ ∧
    s'.now = s.now := by
  intro s'
  have hrun := run_steps cfg s.threads.length n (Sys.act cfg s (.spawn kind q r h)) ⟨r, q, h, spawnPc cfg kind q⟩
    (by simp [Sys.act])
  have hs' : s' = Sys.run cfg (Sys.act cfg s (.spawn kind q r h)) (List.replicate n (.step s.threads.length)) := rfl
  have hst : (Sys.act cfg s (.spawn kind q r h)).st = s.st := rfl
  have hnow : (Sys.act cfg s (.spawn kind q r h)).now = s.now := rfl
  rw [hst, hnow] at hrun
  rw [hs']
  have hsolo : solo cfg s.now s.threads.length n (s.st, ⟨r, q, h, spawnPc cfg kind q⟩) =
      ((apiStep cfg s.st ⟨kind, q, r, s.now, h⟩).1, ⟨r, q, h, .done (apiStep cfg s.st ⟨kind, q, r, s.now, h⟩).2⟩) := by
    cases kind with
    | inc =>
      have := solo_inc cfg s.now s.threads.length r q h hq false _ [] s.st n hq (by simp; omega)
      simpa [spawnPc, apiStep, finish, incOutcome, refundAll] using this
    | req =>
      have := solo_inc cfg s.now s.threads.length r q h hq true _ [] s.st n hq (by simp; omega)
      simpa [spawnPc, apiStep, limiter, finish, incOutcome, refundAll] using this
    | allowed => simpa [spawnPc, apiStep] using solo_allowed cfg s.now _ r q h _ s.st n hq (by omega)
    | dec => simpa [spawnPc, apiStep] using solo_dec cfg s.now _ r q h _ s.st n (by omega)
  rw [hsolo] at hrun
  exact hrun

/-- Non-decreasing instants, starting not before `now`. -/
def opsFrom : Nat → List Op → Prop
  | _, [] => True
  | now, o :: os => now ≤ o.t ∧ opsFrom o.t os

/-- Every one-at-a-time API run (calls on existing quotas at non-decreasing instants) is the run of a
    schedule. -/
theorem api_run_is_schedule (cfg : Cfg) : ∀ (ops : List Op) (s : Sys),
    (∀ o ∈ ops, chain cfg o.q ≠ []) → opsFrom s.now ops →
    ∃ sched : List Act, (Sys.run cfg s sched).st = apiFinal cfg s.st ops := by
  intro ops
  induction ops with
  | nil => intro s _ _; exact ⟨[], rfl⟩
  | cons o os ih =>
    intro s hq hm
    obtain ⟨hle, hm'⟩ := hm
    let s1 := Sys.act cfg s (.tick (o.t - s.now))
    have hnow1 : s1.now = o.t := by simp only [s1, Sys.act]; omega
    let n := 3 * (chain cfg o.q).length + 1
    let call := Act.spawn o.kind o.q o.r o.h :: List.replicate n (.step s1.threads.length)
    have hcall := atomic_call cfg s1 o.kind o.q o.r o.h (hq o (by simp)) n (Nat.le_refl _)
    simp only at hcall
    obtain ⟨h1, _, h3⟩ := hcall
    have hop : (⟨o.kind, o.q, o.r, s1.now, o.h⟩ : Op) = o := by rw [hnow1]
    rw [hop] at h1
    have hst1 : s1.st = s.st := rfl
    rw [hst1] at h1
    obtain ⟨rest, hrest⟩ := ih (Sys.run cfg s1 call) (fun o' ho' => hq o' (by simp [ho'])) (by rw [h3, hnow1]; exact hm')
    refine ⟨Act.tick (o.t - s.now) :: (call ++ rest), ?_⟩
    have : Sys.run cfg s (Act.tick (o.t - s.now) :: (call ++ rest)) = Sys.run cfg (Sys.run cfg s1 call) rest := by
      simp only [Sys.run, List.foldl_cons, List.foldl_append, s1]
    rw [this, hrest, h1]
    rfl

end LunarVerif.C01
