import LunarVerif.Proofs.C06
/-!
Helper lemmas for C06, part 3: every waiter the loop could serve is in the heap and every heap entry
carries the timestamp of its request's FIRST enqueue, so the minimum the loop pops is a minimum
over all waiting requests for (priority, arrival order).  Every schedule, shutdown included.
-/
namespace LunarVerif.C06

theorem hle_total (a b : HItem) : hle a b = false → hle b a = true := by
  unfold hle
  intro h
  split at h <;> split <;> simp_all <;> omega

theorem hle_trans (a b c : HItem) : hle a b = true → hle b c = true → hle a c = true := by
  unfold hle
  intro h1 h2
  split at h1 <;> split at h2 <;> split <;> simp_all <;> omega

theorem minItem_mem : ∀ (l : List HItem) (m : HItem), minItem l = some m → m ∈ l
  | [], m, h => by simp [minItem] at h
  | x :: xs, m, h => by
    unfold minItem at h
    cases hm : minItem xs with
    | none => simp [hm] at h; simp [h]
    | some m' =>
      simp only [hm] at h
      split at h
      · simp at h; simp [h]
      · simp at h; subst h; exact List.mem_cons_of_mem _ (minItem_mem xs m' hm)

theorem minItem_none : ∀ (l : List HItem), minItem l = none → l = []
  | [], _ => rfl
  | x :: xs, h => by
    unfold minItem at h
    cases hm : minItem xs <;> simp [hm] at h
    split at h <;> simp at h

theorem minItem_le : ∀ (l : List HItem) (m : HItem), minItem l = some m → ∀ h ∈ l, hle m h = true
  | [], m, hmin => by simp [minItem] at hmin
  | x :: xs, m, hmin => by
    intro h hh
    unfold minItem at hmin
    cases hm : minItem xs with
    | none =>
      simp [hm] at hmin
      have := minItem_none xs hm
      subst this; subst hmin
      simp at hh; subst hh
      unfold hle; simp
    | some m' =>
      simp only [hm] at hmin
      have ih := minItem_le xs m' hm
      split at hmin
      · rename_i hx
        simp at hmin; subst hmin
        rcases List.mem_cons.1 hh with e | e
        · subst e; unfold hle; simp
        · exact hle_trans _ _ _ hx (ih h e)
      · rename_i hx
        simp at hmin; subst hmin
        rcases List.mem_cons.1 hh with e | e
        · subst e; exact hle_total _ _ (by simpa using hx)
        · exact ih h e

theorem hle_prio (a b : HItem) (h : hle a b = true) : a.prio ≤ b.prio := by
  unfold hle at h
  split at h <;> simp_all <;> omega

structure InvH (s : St) : Prop where
  hi : ∀ h ∈ s.heap, h.id < s.n ∧ h.prio = (s.reqs h.id).prio ∧ (s.reqs h.id).pushed = true ∧
         h.ts = (s.reqs h.id).pushTs
  el : ∀ i, (s.reqs i).pc = .parked → (s.reqs i).st = .enqueued → s.loop ≠ .popped i → ∃ h ∈ s.heap, h.id = i
  rp : ∀ i, s.loop = .repushed i → ∃ h ∈ s.heap, h.id = i
  uw : ∀ i, ((s.reqs i).pc = .unwatched ∨ (s.reqs i).pc = .removed) → (s.reqs i).st = .processed
  pk : ∀ i, ((s.reqs i).pc = .parked ∨ (s.reqs i).pc = .registered) → (s.reqs i).inMap = true
  g1 : ∀ i, (s.reqs i).pushed = true → (s.reqs i).firstAt = none → (s.reqs i).pc = .removed
  g2 : ∀ i t, (s.reqs i).firstAt = some t → (s.reqs i).pushed = true ∧ t = (s.reqs i).pushTs
  g3 : ∀ i, (s.reqs i).pushed = true → (s.reqs i).pushTs < s.seq

local macro "h_auto" : tactic =>
  `(tactic| (constructor <;> (try intro j) <;> (try simp only [St.upd, St.emit, St.signal, St.enq]) <;>
      grind [holdsL, holdsW, isReturned, isDraining]))

theorem invH_init (t0 : Nat) : InvH (St.init t0) := by
  constructor <;> simp [St.init]

theorem invH_arrive (cfg : Cfg) (s : St) (p : Nat) (hA : InvA s) (h : InvH s) : InvH (stepArrive cfg s p) := by
  obtain ⟨hi, el, rp, uw, pk, g1, g2, g3⟩ := h
  have hn := hA.fresh s.n (Nat.le_refl _)
  have hid : ∀ h ∈ s.heap, h.id ≠ s.n := fun h hh e => by have := (hi h hh).1; omega
  unfold stepArrive
  split
  · h_auto
  · h_auto

theorem invH_register (s : St) (i : Nat) (hA : InvA s) (h : InvH s) : InvH (stepRegister s i) := by
  obtain ⟨hi, el, rp, uw, pk, g1, g2, g3⟩ := h
  unfold stepRegister
  split
  · h_auto
  · constructor <;> assumption

/-- What `Enqueue` of request `i` does to the stamp facts, given that `i` is a live request. -/
theorem enq_facts (s : St) (i : Nat) (hlt : i < s.n) (hlive : (s.reqs i).pc ≠ .removed) (h : InvH s) :
    let ts := match (s.reqs i).firstAt with | some t => t | none => s.seq
    let pt := if (s.reqs i).pushed then (s.reqs i).pushTs else ts
    ts = pt ∧ pt < s.seq + 1 ∧ (∀ x ∈ s.heap, x.id = i → x.ts = pt) := by
  obtain ⟨hi, el, rp, uw, pk, g1, g2, g3⟩ := h
  intro ts pt
  cases hf : (s.reqs i).firstAt with
  | some t =>
    have := g2 i t hf
    have h3 := g3 i this.1
    simp only [ts, pt, hf, this.1, if_true]
    refine ⟨this.2, by omega, fun x hx e => ?_⟩
    have := (hi x hx).2.2.2; rw [e] at this; exact this
  | none =>
    have hnp : (s.reqs i).pushed = false := by
      cases hp : (s.reqs i).pushed
      · rfl
      · exact absurd (g1 i hp hf) hlive
    simp only [ts, pt, hf, hnp, Bool.false_eq_true, if_false]
    refine ⟨?_, by omega, fun x hx e => ?_⟩
    · first | rfl | trivial
    · have := (hi x hx).2.2.1; rw [e, hnp] at this; cases this

theorem invH_push (s : St) (i : Nat) (hA : InvA s) (h : InvH s) : InvH (stepPush s i) := by
  unfold stepPush
  split
  · rename_i hg
    have hlt : i < s.n := by
      rcases Nat.lt_or_ge i s.n with h | h
      · exact h
      · have := (hA.fresh i h).1; rw [hg] at this; cases this
    have ef := enq_facts s i hlt (by rw [hg]; simp) h
    obtain ⟨hi, el, rp, uw, pk, g1, g2, g3⟩ := h
    simp only at ef
    obtain ⟨e1, e2, e3⟩ := ef
    refine ⟨?_, ?_, ?_, ?_, ?_, ?_, ?_, ?_⟩
    · intro h hh
      simp only [St.upd, St.emit, St.enq] at hh ⊢
      rcases List.mem_cons.1 hh with e | e
      · subst e; simp only [if_true]; exact ⟨hlt, (by first | rfl | trivial), (by first | rfl | trivial), e1⟩
      · have := hi h e
        have h3 := e3 h e
        by_cases hid : h.id = i
        · simp only [hid, if_true]; rw [hid] at this; exact ⟨hlt, this.2.1, (by first | rfl | trivial), h3 hid⟩
        · simp only [hid, if_false]; exact this
    · intro j hp hs hl
      simp only [St.upd, St.emit, St.enq] at hp hs hl ⊢
      by_cases hji : j = i
      · exact ⟨_, List.mem_cons_self, hji.symm⟩
      · simp only [hji, if_false] at hp hs
        obtain ⟨h, hh, he⟩ := el j hp hs hl
        exact ⟨h, List.mem_cons_of_mem _ hh, he⟩
    · intro j hl
      simp only [St.upd, St.emit, St.enq] at hl ⊢
      obtain ⟨h, hh, he⟩ := rp j hl
      exact ⟨h, List.mem_cons_of_mem _ hh, he⟩
    · intro j; simp only [St.upd, St.emit, St.enq]; grind
    · intro j; simp only [St.upd, St.emit, St.enq]; grind
    · intro j; simp only [St.upd, St.emit, St.enq]; grind
    · intro j t; simp only [St.upd, St.emit, St.enq]; grind
    · intro j; simp only [St.upd, St.emit, St.enq]
      have := g3 j
      split <;> grind
  · exact h

theorem invH_wake (s : St) (i : Nat) (hA : InvA s) (h : InvH s) : InvH (stepWake s i) := by
  obtain ⟨hi, el, rp, uw, pk, g1, g2, g3⟩ := h
  unfold stepWake
  split
  · h_auto
  · constructor <;> assumption

theorem invH_unwatch (s : St) (i : Nat) (hA : InvA s) (h : InvH s) : InvH (stepUnwatch s i) := by
  obtain ⟨hi, el, rp, uw, pk, g1, g2, g3⟩ := h
  have hret : isReturned (s.reqs i).pc = true → (s.reqs i).st = .processed := by
    intro h
    cases hp : (s.reqs i).pc <;> simp [isReturned, hp] at h
    exact (hA.rt i _ hp).1
  unfold stepUnwatch
  split
  · h_auto
  · constructor <;> assumption

theorem invH_heapRemove (s : St) (i : Nat) (hA : InvA s) (h : InvH s) : InvH (stepHeapRemove s i) := by
  obtain ⟨hi, el, rp, uw, pk, g1, g2, g3⟩ := h
  obtain ⟨np, own, excl, wg, dn, rt, rs, qk, gq, fresh⟩ := hA
  unfold stepHeapRemove
  split
  · rename_i hg
    have hpi : (s.reqs i).st = .processed := uw i (Or.inl hg)
    have keep : ∀ h ∈ s.heap, h.id ≠ i → h ∈ s.heap.eraseP fun h => h.id == i := by
      intro h hh hne
      exact (List.mem_eraseP_of_neg (by simpa using hne)).2 hh
    have sub : ∀ h, h ∈ (s.heap.eraseP fun h => h.id == i) → h ∈ s.heap := fun h hh => List.mem_of_mem_eraseP hh
    refine ⟨?_, ?_, ?_, ?_, ?_, ?_, ?_, ?_⟩
    · intro h hh
      have := hi h (sub h hh)
      simp only [St.upd]; grind
    · intro j hp hs hl
      simp only [St.upd] at hp hs hl ⊢
      have hji : j ≠ i := by grind
      simp only [hji, if_false] at hp hs
      obtain ⟨h, hh, he⟩ := el j hp hs hl
      exact ⟨h, keep h hh (by omega), he⟩
    · intro j hl
      simp only [St.upd] at hl ⊢
      obtain ⟨h, hh, he⟩ := rp j hl
      have hji : j ≠ i := by
        intro e; subst e
        have := (own j).2 (Or.inl (by simp [hl, holdsL])); rw [hpi] at this; cases this
      exact ⟨h, keep h hh (by omega), he⟩
    · intro j; simp only [St.upd]; grind
    · intro j; simp only [St.upd]; grind
    · intro j; simp only [St.upd]; grind
    · intro j t; simp only [St.upd]; grind
    · intro j; simp only [St.upd]; grind
  · constructor <;> assumption

theorem invH_loopFire (s : St) (hA : InvA s) (h : InvH s) : InvH (stepLoopFire s) := by
  obtain ⟨hi, el, rp, uw, pk, g1, g2, g3⟩ := h
  unfold stepLoopFire
  split
  · split <;> h_auto
  · constructor <;> assumption

theorem invH_scan (cfg : Cfg) (s : St) (h : InvH s) : InvH (stepScan cfg s) := by
  obtain ⟨hi, el, rp, uw, pk, g1, g2, g3⟩ := h
  unfold stepScan
  split
  · h_auto
  · constructor <;> assumption

theorem invH_cancel (s : St) (h : InvH s) : InvH (stepCancel s) := by
  obtain ⟨hi, el, rp, uw, pk, g1, g2, g3⟩ := h
  unfold stepCancel
  split
  · constructor <;> assumption
  · h_auto

theorem invH_loop (cfg : Cfg) (s : St) (k : Nat) (hA : InvA s) (h : InvH s) : InvH (stepLoop cfg s k) := by
  have h0 := h
  obtain ⟨hi, el, rp, uw, pk, g1, g2, g3⟩ := h
  obtain ⟨np, own, excl, wg, dn, rt, rs, qk, gq, fresh⟩ := hA
  unfold stepLoop
  split
  · constructor <;> assumption
  · constructor <;> assumption
  · rename_i heq
    split
    · h_auto
    · rename_i m hm
      have hmem := minItem_mem _ _ hm
      have keep : ∀ h ∈ s.heap, h.id ≠ m.id → h ∈ s.heap.erase m := by
        intro h hh hne
        exact (List.mem_erase_of_ne (by intro e; subst e; exact hne rfl)).2 hh
      have sub : ∀ h, h ∈ s.heap.erase m → h ∈ s.heap := fun h hh => List.mem_of_mem_erase hh
      refine ⟨?_, ?_, ?_, ?_, ?_, ?_, ?_, ?_⟩
      · intro h hh; exact hi h (sub h hh)
      · intro j hp hs hl
        simp only [St.emit] at hp hs hl ⊢
        have hjm : j ≠ m.id := by intro e; subst e; exact hl rfl
        obtain ⟨h, hh, he⟩ := el j hp hs (by simp [heq])
        exact ⟨h, keep h hh (by omega), he⟩
      · intro j hl; simp [St.emit] at hl
      · intro j; simp only [St.emit]; exact uw j
      · intro j; simp only [St.emit]; exact pk j
      · intro j; simp only [St.emit]; exact g1 j
      · intro j t; simp only [St.emit]; exact g2 j t
      · intro j; simp only [St.emit]; exact g3 j
  · rename_i i heq
    split
    · refine ⟨?_, ?_, ?_, ?_, ?_, ?_, ?_, ?_⟩
      · intro h hh; simp only [St.upd]; have := hi h hh; grind
      · intro j hp hs hl
        simp only [St.upd] at hp hs hl ⊢
        by_cases hji : j = i
        · simp [hji] at hs
        · simp only [hji, if_false] at hp hs
          exact el j hp hs (by rw [heq]; intro e; injection e with e; exact hji e.symm)
      · intro j hl; simp at hl
      · intro j; simp only [St.upd]; grind
      · intro j; simp only [St.upd]; grind
      · intro j; simp only [St.upd]; grind
      · intro j t; simp only [St.upd]; grind
      · intro j; simp only [St.upd]; grind
    · rename_i hg
      refine ⟨hi, ?_, ?_, uw, pk, g1, g2, g3⟩
      · intro j hp hs hl
        by_cases hji : j = i
        · subst hji
          exact absurd ⟨pk j (Or.inl hp), hs⟩ hg
        · exact el j hp hs (by rw [heq]; intro e; injection e with e; exact hji e.symm)
      · intro j hl; simp at hl
  · rename_i i heq
    have hp : (s.reqs i).st = .processing := (own i).2 (Or.inl (by simp [heq, holdsL]))
    generalize (quotaTry cfg s.q s.now).1 = q'
    generalize (quotaTry cfg s.q s.now).2 = ok
    cases ok <;> h_auto
  · rename_i i heq
    have hp : (s.reqs i).st = .processing := (own i).2 (Or.inl (by simp [heq, holdsL]))
    have hlt : i < s.n := by
      rcases Nat.lt_or_ge i s.n with h | h
      · exact h
      · have := (fresh i h).2.1; rw [hp] at this; cases this
    have hlive : (s.reqs i).pc ≠ .removed := by
      intro e; have := uw i (Or.inr e); rw [hp] at this; cases this
    have ef := enq_facts s i hlt hlive h0
    simp only at ef
    obtain ⟨e1, e2, e3⟩ := ef
    refine ⟨?_, ?_, ?_, ?_, ?_, ?_, ?_, ?_⟩
    · intro h hh
      simp only [St.emit, St.enq, St.upd] at hh ⊢
      rcases List.mem_cons.1 hh with e | e
      · subst e; simp only [if_true]; exact ⟨hlt, (by first | rfl | trivial), (by first | rfl | trivial), e1⟩
      · have := hi h e
        have h3 := e3 h e
        by_cases hid : h.id = i
        · simp only [hid, if_true]; rw [hid] at this; exact ⟨hlt, this.2.1, (by first | rfl | trivial), h3 hid⟩
        · simp only [hid, if_false]; exact this
    · intro j hp' hs hl
      simp only [St.emit, St.enq, St.upd] at hp' hs hl ⊢
      have hji : j ≠ i := by
        intro e; subst e; simp at hs; rw [hp] at hs; cases hs
      simp only [hji, if_false] at hp' hs
      obtain ⟨h, hh, he⟩ := el j hp' hs (by simp [heq])
      exact ⟨h, List.mem_cons_of_mem _ hh, he⟩
    · intro j hl
      simp only [St.emit, St.enq, St.upd] at hl ⊢
      injection hl with hl
      exact ⟨_, List.mem_cons_self, hl⟩
    · intro j; simp only [St.emit, St.enq, St.upd]; grind
    · intro j; simp only [St.emit, St.enq, St.upd]; grind
    · intro j; simp only [St.emit, St.enq, St.upd]; grind
    · intro j t; simp only [St.emit, St.enq, St.upd]; grind
    · intro j; simp only [St.emit, St.enq, St.upd]
      have := g3 j
      split <;> grind
  · rename_i i heq
    have hp : (s.reqs i).st = .processing := (own i).2 (Or.inl (by simp [heq, holdsL]))
    have hr := rp i heq
    refine ⟨?_, ?_, ?_, ?_, ?_, ?_, ?_, ?_⟩
    · intro h hh; simp only [St.upd]; have := hi h hh; grind
    · intro j hp' hs hl
      simp only [St.upd] at hp' hs hl ⊢
      by_cases hji : j = i
      · subst hji; exact hr
      · simp only [hji, if_false] at hp' hs
        exact el j hp' hs (by simp [heq])
    · intro j hl; simp at hl
    · intro j; simp only [St.upd]; grind
    · intro j; simp only [St.upd]; grind
    · intro j; simp only [St.upd]; grind
    · intro j t; simp only [St.upd]; grind
    · intro j; simp only [St.upd]; grind
  · rename_i i heq
    have hp : (s.reqs i).st = .processing := (own i).2 (Or.inl (by simp [heq, holdsL]))
    have hw : (s.reqs i).wg = 1 := by rw [wg i, hp]; simp
    have hlt : ¬ ((s.reqs i).wg - 1 < 0) := by omega
    unfold St.signal
    simp only [hlt, if_false]
    h_auto
  · rename_i todo heq
    split
    · split
      · h_auto
      · constructor <;> assumption
    · rename_i i hk
      split
      · rename_i hg
        have hw : (s.reqs i).wg = 1 := by rw [wg i, hg.2]; simp
        have hlt : ¬ ((s.reqs i).wg - 1 < 0) := by omega
        unfold St.signal
        simp only [hlt, if_false]
        h_auto
      · h_auto

theorem invH_watcher (s : St) (k : Nat) (hA : InvA s) (h : InvH s) : InvH (stepWatcher s k) := by
  obtain ⟨hi, el, rp, uw, pk, g1, g2, g3⟩ := h
  obtain ⟨np, own, excl, wg, dn, rt, rs, qk, gq, fresh⟩ := hA
  unfold stepWatcher
  split
  · constructor <;> assumption
  · rename_i todo heq
    split
    · split
      · h_auto
      · constructor <;> assumption
    · split
      · h_auto
      · h_auto
  · rename_i i todo heq
    have hp : (s.reqs i).st = .processing := (own i).2 (Or.inr (by simp [heq, holdsW]))
    have hw : (s.reqs i).wg = 1 := by rw [wg i, hp]; simp
    have hlt : ¬ ((s.reqs i).wg - 1 < 0) := by omega
    unfold St.signal
    simp only [hlt, if_false]
    h_auto

theorem invH_step (cfg : Cfg) (s : St) (a : Act) (hA : InvA s) (h : InvH s) :
    InvH (step cfg s a) := by
  unfold step
  rw [hA.np]
  simp only [Bool.false_eq_true, if_false]
  cases a with
  | advance d => obtain ⟨hi, el, rp, uw, pk, g1, g2, g3⟩ := h; constructor <;> assumption
  | arrive p => exact invH_arrive cfg s p hA h
  | register i => exact invH_register s i hA h
  | push i => exact invH_push s i hA h
  | wake i => exact invH_wake s i hA h
  | unwatch i => exact invH_unwatch s i hA h
  | heapRemove i => exact invH_heapRemove s i hA h
  | loopFire => exact invH_loopFire s hA h
  | loopStep k => exact invH_loop cfg s k hA h
  | wScan => exact invH_scan cfg s h
  | wStep k => exact invH_watcher s k hA h
  | cancel => exact invH_cancel s h

theorem invAH_run (cfg : Cfg) (acts : List Act) (s : St) (hA : InvA s) (hH : InvH s) :
    InvA (run cfg s acts) ∧ InvH (run cfg s acts) := by
  induction acts generalizing s with
  | nil => exact ⟨hA, hH⟩
  | cons a rest ih => exact ih (step cfg s a) (invA_step cfg s a hA) (invH_step cfg s a hA hH)

end LunarVerif.C06
