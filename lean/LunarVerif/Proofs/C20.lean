import LunarVerif.Spec.C20
/-! Helper lemmas for C20: the invariant tying the watcher state to the observable history. -/
namespace LunarVerif.C20

/-- Invariant between the watcher state and the history so far (most recent first). -/
structure Inv (cfg : Cfg) (w : W) (h : List Event) : Prop where
  lastState : w.lastState = (match h with | e :: _ => e.obs | [] => true)
  count : w.changeCount = (match h with | e :: older => (sameRun e.obs older).length + 1 | [] => 0)
  start : ∀ c, w.changeStart = some c → c ≤ w.now ∧ ∃ e older, h = e :: older ∧ c = runStart e older
  startNone : w.changeStart = none → w.stable = true ∧ w.lastState = true
  stable : w.stable = lastReaction h
  time : match h with
    | e :: _ => e.t ≤ w.now ∧ (e.react = some false → e.rt + cfg.cooldown ≤ w.now)
    | [] => True

theorem inv_init (cfg : Cfg) (t0 : Nat) : Inv cfg (W.init t0) [] := by
  constructor <;> simp [W.init, lastReaction]

theorem sameRun_cons_same (v : Bool) (e : Event) (older : List Event) (h : e.obs = v) :
    sameRun v (e :: older) = e :: sameRun v older := by
  simp [sameRun, h]

theorem sameRun_cons_diff (v : Bool) (e : Event) (older : List Event) (h : e.obs ≠ v) :
    sameRun v (e :: older) = [] := by
  simp [sameRun, h]

theorem runStart_cons_same (e p : Event) (older : List Event) (h : p.obs = e.obs) :
    runStart e (p :: older) = runStart p older := by
  unfold runStart
  rw [sameRun_cons_same _ _ _ h, h]
  cases hs : sameRun e.obs older with
  | nil => simp
  | cons a as =>
    simp only [List.getLast?_cons_cons]
    rcases hl : (a :: as).getLast? with _ | f
    · simp at hl
    · simp

theorem step_inv (cfg : Cfg) (w : W) (h : List Event) (i : Input) (hinv : Inv cfg w h) :
    Inv cfg (step cfg w i).1 ((step cfg w i).2 :: h) ∧ eventOk cfg (step cfg w i).2 h = true := by
  obtain ⟨hls, hcnt, hstart, hnone, hstab, htime⟩ := hinv
  unfold step
  by_cases hchg : (i.obs != w.lastState) = true
  · -- the observed value changed
    simp only [hchg, if_true]
    have hne : i.obs ≠ w.lastState := by simpa using hchg
    refine ⟨⟨rfl, ?_, ?_, ?_, ?_, ?_⟩, ?_⟩
    · cases h with
      | nil => simp [sameRun]
      | cons p older =>
        simp only at hls
        have : p.obs ≠ i.obs := by rw [← hls]; exact fun h => hne h.symm
        simp [sameRun_cons_diff _ _ _ this]
    · intro c hc
      simp only [Option.some.injEq] at hc
      subst hc
      refine ⟨Nat.le_refl _, _, _, rfl, ?_⟩
      cases h with
      | nil => simp [runStart, sameRun]
      | cons p older =>
        simp only at hls
        have : p.obs ≠ i.obs := by rw [← hls]; exact fun h => hne h.symm
        simp [runStart, sameRun_cons_diff _ _ _ this]
    · intro hc; simp at hc
    · simp [lastReaction, hstab]
    · simp
    · cases h with
      | nil => simp [eventOk]
      | cons p older =>
        simp only at htime
        simp only [eventOk, Bool.and_true, Bool.and_eq_true, Bool.or_eq_true, bne_iff_ne, ne_eq,
          decide_eq_true_eq]
        refine ⟨?_, by omega⟩
        by_cases hp : p.react = some false
        · right; have := htime.2 hp; omega
        · left; exact hp
  · -- same value as before
    simp only [hchg, Bool.false_eq_true, if_false]
    have heq : i.obs = w.lastState := by simpa using hchg
    by_cases hfire : (decide (cfg.n ≤ ((w.changeCount + 1 : Nat) : Int)) &&
        stableLongEnough cfg w.changeStart (w.now + waitBefore cfg w + i.latency)
        && !w.changeTriggered && (i.obs != w.stable)) = true
    · -- a reaction fires
      simp only [hfire, if_true]
      simp only [Bool.and_eq_true, decide_eq_true_eq, Bool.not_eq_true', bne_iff_ne, ne_eq] at hfire
      obtain ⟨⟨⟨hn, hlong⟩, _⟩, hns⟩ := hfire
      -- changeStart cannot be the zero time here
      have hsome : ∃ c, w.changeStart = some c := by
        cases hcs : w.changeStart with
        | some c => exact ⟨c, rfl⟩
        | none =>
          have := hnone hcs
          rw [this.1, ← this.2] at hns; exact absurd heq hns
      obtain ⟨c, hc⟩ := hsome
      obtain ⟨hcle, e0, older0, hh, hrs⟩ := hstart c hc
      subst hh
      simp only at hls hcnt htime
      have hobs : e0.obs = i.obs := by rw [heq, hls]
      refine ⟨⟨rfl, ?_, ?_, ?_, ?_, ?_⟩, ?_⟩
      · simp [sameRun_cons_same _ _ _ hobs, hcnt, hobs]
      · intro c' hc'
        simp only at hc'
        rw [hc] at hc'; simp only [Option.some.injEq] at hc'; subst hc'
        refine ⟨by dsimp only; split <;> omega, _, _, rfl, ?_⟩
        rw [runStart_cons_same _ _ _ hobs]; exact hrs
      · intro hc'; simp only at hc'; rw [hc] at hc'; simp at hc'
      · simp [lastReaction]
      · simp only
        refine ⟨by split <;> omega, ?_⟩
        intro hr
        simp only [Option.some.injEq] at hr
        simp [hr]
      · simp only [eventOk, Bool.and_eq_true, Bool.or_eq_true, bne_iff_ne, ne_eq,
          decide_eq_true_eq, beq_iff_eq, and_true]
        and_intros
        · by_cases hp : e0.react = some false
          · right; have := htime.2 hp; omega
          · left; exact hp
        · omega
        · rw [← hstab]; exact hns
        · simp [sameRun_cons_same _ _ _ hobs]
        · rw [sameRun_cons_same _ _ _ hobs]; simp only [List.length_cons]
          rw [hcnt] at hn; rw [hobs] at hn; exact_mod_cast hn
        · rw [runStart_cons_same _ _ _ hobs, ← hrs]
          simp only [stableLongEnough, hc, decide_eq_true_eq] at hlong
          omega
    · -- nothing fires
      have hfire' : (decide (cfg.n ≤ ((w.changeCount + 1 : Nat) : Int)) &&
        stableLongEnough cfg w.changeStart (w.now + waitBefore cfg w + i.latency)
        && !w.changeTriggered && (i.obs != w.stable)) = false := by simpa using hfire
      simp only [hfire', Bool.false_eq_true, if_false]
      refine ⟨⟨rfl, ?_, ?_, ?_, ?_, ?_⟩, ?_⟩
      · cases h with
        | nil => simp [sameRun, hcnt]
        | cons p older =>
          simp only at hls hcnt
          have hobs : p.obs = i.obs := by rw [heq, hls]
          simp [sameRun_cons_same _ _ _ hobs, hcnt, hobs]
      · intro c hc
        simp only at hc
        obtain ⟨hcle, e0, older0, hh, hrs⟩ := hstart c hc
        subst hh
        simp only at hls
        have hobs : e0.obs = i.obs := by rw [heq, hls]
        refine ⟨by simp only; omega, _, _, rfl, ?_⟩
        rw [runStart_cons_same _ _ _ hobs]; exact hrs
      · intro hc
        simp only at hc
        have := hnone hc
        exact ⟨this.1, by simp only; rw [heq]; exact this.2⟩
      · simp [lastReaction, hstab]
      · simp
      · cases h with
        | nil => simp [eventOk]
        | cons p older =>
          simp only at htime
          simp only [eventOk, Bool.and_true, Bool.and_eq_true, Bool.or_eq_true, bne_iff_ne, ne_eq,
            decide_eq_true_eq]
          refine ⟨?_, by omega⟩
          by_cases hp : p.react = some false
          · right; have := htime.2 hp; omega
          · left; exact hp

/-- Running any input sequence from a state related to history `h` extends a good history to a
    good history. -/
theorem run_holds (cfg : Cfg) (is : List Input) :
    ∀ (w : W) (h : List Event), Inv cfg w h → holdsRev cfg h = true →
      holdsRev cfg ((run cfg w is).reverse ++ h) = true := by
  induction is with
  | nil => intro w h _ hh; simpa [run] using hh
  | cons i is ih =>
    intro w h hinv hh
    have hs := step_inv cfg w h i hinv
    simp only [run, List.reverse_cons, List.append_assoc, List.singleton_append]
    apply ih _ _ hs.1
    simp only [holdsRev, Bool.and_eq_true]
    exact ⟨hs.2, hh⟩

end LunarVerif.C20

namespace LunarVerif.C20

theorem holdsRev_append_right (cfg : Cfg) (a b : List Event) (h : holdsRev cfg (a ++ b) = true) :
    holdsRev cfg b = true := by
  induction a with
  | nil => simpa using h
  | cons x xs ih =>
    simp only [List.cons_append, holdsRev, Bool.and_eq_true] at h
    exact ih h.2

theorem holdsRev_head (cfg : Cfg) (e : Event) (older : List Event)
    (h : holdsRev cfg (e :: older) = true) : eventOk cfg e older = true := by
  simp only [holdsRev, Bool.and_eq_true] at h; exact h.1

theorem alternating_snoc (b : Bool) (xs : List Bool) (x : Bool) :
    alternating b (xs ++ [x]) = (alternating b xs && (x == (if xs.length % 2 = 0 then b else !b))) := by
  induction xs generalizing b with
  | nil => simp [alternating]
  | cons y ys ih =>
    simp only [List.cons_append, alternating, ih, List.length_cons]
    have : (ys.length + 1) % 2 = 0 ↔ ¬ ys.length % 2 = 0 := by omega
    by_cases hl : ys.length % 2 = 0
    · have h2 : ¬ (ys.length + 1) % 2 = 0 := by omega
      simp [hl, h2, Bool.and_assoc]
    · have h2 : (ys.length + 1) % 2 = 0 := by omega
      simp [hl, h2, Bool.and_assoc]

/-- Reactions of a most-recent-first history, most recent first. -/
theorem reactions_reverse (h : List Event) :
    reactions h.reverse = (h.filterMap (·.react)).reverse := by
  simp [reactions, List.filterMap_reverse]

theorem lastReaction_eq (h : List Event) :
    lastReaction h = (match h.filterMap (·.react) with | s :: _ => s | [] => true) := by
  induction h with
  | nil => simp [lastReaction]
  | cons e older ih =>
    cases hr : e.react with
    | none => simp [lastReaction, hr, ih]
    | some s => simp [lastReaction, hr]

theorem alternating_of_holdsRev (cfg : Cfg) (h : List Event) (hh : holdsRev cfg h = true) :
    alternating false (h.filterMap (·.react)).reverse = true ∧
    (match h.filterMap (·.react) with | s :: _ => s | [] => true) =
      (if (h.filterMap (·.react)).length % 2 = 0 then true else false) := by
  induction h with
  | nil => simp [alternating]
  | cons e older ih =>
    simp only [holdsRev, Bool.and_eq_true] at hh
    obtain ⟨he, hold⟩ := hh
    obtain ⟨ih1, ih2⟩ := ih hold
    cases hr : e.react with
    | none => simpa [List.filterMap_cons, hr] using ⟨ih1, ih2⟩
    | some s =>
      have hne : s ≠ lastReaction older := by
        simp only [eventOk, hr, Bool.and_eq_true, bne_iff_ne, ne_eq] at he
        exact he.2.1.1.1.1.1
      rw [lastReaction_eq, ih2] at hne
      simp only [List.filterMap_cons, hr, List.reverse_cons, alternating_snoc, ih1, Bool.true_and,
        List.length_reverse, List.length_cons]
      by_cases hl : (List.filterMap (·.react) older).length % 2 = 0
      · have h2 : ¬ ((List.filterMap (·.react) older).length + 1) % 2 = 0 := by omega
        simp only [hl, if_true] at hne
        cases s <;> simp_all
      · have h2 : ((List.filterMap (·.react) older).length + 1) % 2 = 0 := by omega
        simp only [hl, if_false] at hne
        cases s <;> simp_all

theorem run_obs (cfg : Cfg) (is : List Input) (w : W) :
    (run cfg w is).map (·.obs) = is.map (·.obs) := by
  induction is generalizing w with
  | nil => simp [run]
  | cons i is ih =>
    simp only [run, List.map_cons, ih]
    congr 1
    unfold step; dsimp only; split
    · rfl
    · split <;> rfl

theorem flapping_mid (xs : List Bool) (a b : Bool) (ys : List Bool)
    (h : flapping (xs ++ a :: b :: ys) = true) : a ≠ b := by
  induction xs with
  | nil => simp only [List.nil_append, flapping, Bool.and_eq_true, bne_iff_ne] at h; exact h.1
  | cons x xs ih =>
    cases xs with
    | nil => simp only [List.cons_append, List.nil_append, flapping, Bool.and_eq_true] at h
             exact ih (by simpa [flapping] using h.2)
    | cons y ys' => simp only [List.cons_append, flapping, Bool.and_eq_true] at h
                    exact ih (by simpa using h.2)

end LunarVerif.C20
