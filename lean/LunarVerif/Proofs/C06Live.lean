import LunarVerif.Proofs.C06Drain
import LunarVerif.Proofs.C06
/-!
Helper lemmas for C06, part 12: liveness of the time-out under an explicit fairness hypothesis.
If the watcher starts a scan after a request's expiry instant while the loop is parked, and then gets
enough steps (`wStep 0`) before the loop's timer fires again — whatever else happens in between:
arrivals, returns, removals, clock advances, other watcher steps —, the request has its verdict.
-/
namespace LunarVerif.C06

def wRest : WPc → List Nat
  | .idle => []
  | .scanned t => t
  | .holding _ t => t

/-- Number of `wStep 0` steps the watcher still needs to finish its scan. -/
def wMeasure : WPc → Nat
  | .idle => 0
  | .scanned t => 2 * t.length + 1
  | .holding _ t => 2 * t.length + 2

/-- Request `i` has no verdict yet and the running scan will get to it. -/
def Pend (s : St) (i : Nat) : Prop :=
  s.loop = .idle ∧ (s.reqs i).inMap = true ∧
  (((s.reqs i).st = .enqueued ∧ i ∈ wRest s.watcher) ∨
   ((s.reqs i).st = .processing ∧ ∃ t, s.watcher = .holding i t))

def K (s : St) (i c : Nat) : Prop :=
  i < s.n ∧ (1 ≤ (s.reqs i).dones ∨ (Pend s i ∧ wMeasure s.watcher ≤ c))

def w0 (a : Act) : Nat := if a = .wStep 0 then 1 else 0

theorem signal_dones (s : St) (i : Nat) (r : RResult) (j : Nat) :
    ((s.signal i r).reqs j).dones = (if j = i then (s.reqs j).dones + 1 else (s.reqs j).dones) ∧
    ((s.signal i r).reqs j).inMap = (s.reqs j).inMap ∧ (s.signal i r).n = s.n ∧ (s.signal i r).loop = s.loop ∧
    (s.signal i r).watcher = s.watcher ∧
    ((s.signal i r).reqs j).st = (if j = i then .processed else (s.reqs j).st) := by
  simp only [St.signal]
  split <;> simp only [St.upd, St.emit] <;> split <;> simp_all

theorem K_frame (s s' : St) (i c : Nat) (hl : s'.loop = s.loop) (hw : s'.watcher = s.watcher) (hn : s.n ≤ s'.n)
    (hd : (s.reqs i).dones ≤ (s'.reqs i).dones) (hs : (s'.reqs i).st = (s.reqs i).st)
    (hm : (s.reqs i).st ≠ .processed → (s.reqs i).inMap = true → (s'.reqs i).inMap = true)
    (h : K s i c) : K s' i c := by
  obtain ⟨hi, h⟩ := h
  refine ⟨by omega, ?_⟩
  rcases h with h | ⟨⟨pl, pm, pd⟩, hc⟩
  · exact Or.inl (by omega)
  · right
    refine ⟨⟨by rw [hl]; exact pl, ?_, ?_⟩, by rw [hw]; exact hc⟩
    · refine hm ?_ pm
      rcases pd with h | h <;> rw [h.1] <;> simp
    · rw [hs, hw]; exact pd

theorem K_mono (s : St) (i c c' : Nat) (h : c ≤ c') (hk : K s i c) : K s i c' := by
  obtain ⟨hi, hk⟩ := hk
  refine ⟨hi, ?_⟩
  rcases hk with h' | ⟨hp, hc⟩
  · exact Or.inl h'
  · exact Or.inr ⟨hp, by omega⟩

theorem K_watcher (s : St) (k i c : Nat) (hA : InvA s) (h : K s i c) :
    K (stepWatcher s k) i (c - (if k = 0 then 1 else 0)) := by
  obtain ⟨hi, h⟩ := h
  rcases h with h | ⟨⟨pl, pm, pd⟩, hc⟩
  · -- verdict already there: `dones` never decreases
    refine ⟨?_, Or.inl ?_⟩ <;> unfold stepWatcher <;> split
    · exact hi
    · split
      · split <;> exact hi
      · split <;> exact hi
    · rw [(signal_dones s _ .timeout i).2.2.1]; exact hi
    · exact h
    · split
      · split <;> exact h
      · split
        · simp only [St.upd]; split <;> simp_all
        · exact h
    · rw [(signal_dones s _ .timeout i).1]; split <;> omega
  · unfold stepWatcher
    cases hwt : s.watcher with
    | idle =>
      rw [hwt] at pd
      rcases pd with h | ⟨_, t, h⟩
      · simp [wRest] at h
      · cases h
    | scanned todo =>
      rw [hwt] at pd hc
      simp only [wRest, wMeasure] at pd hc
      have hmem : i ∈ todo := by
        rcases pd with h | ⟨_, t, h⟩
        · exact h.2
        · cases h
      have hst : (s.reqs i).st = .enqueued := by
        rcases pd with h | ⟨_, t, h⟩
        · exact h.1
        · cases h
      simp only
      cases hk : todo[k]? with
      | none =>
        have hne : todo.isEmpty = false := by
          cases todo with
          | nil => cases hmem
          | cons a l => rfl
        have hk0 : k ≠ 0 := by
          intro e; subst e
          cases todo with
          | nil => cases hmem
          | cons a l => simp at hk
        simp only [hne, Bool.false_eq_true, if_false, hk0]
        exact ⟨hi, Or.inr ⟨⟨pl, pm, by rw [hwt]; exact Or.inl ⟨hst, hmem⟩⟩, by rw [hwt]; simp [wMeasure]; omega⟩⟩
      | some j =>
        have hjm : j ∈ todo := List.mem_of_getElem? hk
        have hlen : (todo.eraseIdx k).length = todo.length - 1 := by
          have := List.getElem?_eq_some_iff.1 hk
          obtain ⟨hlt, _⟩ := this
          exact List.length_eraseIdx_of_lt hlt
        have hpos : 0 < todo.length := List.length_pos_of_mem hjm
        simp only
        split
        · rename_i hg
          -- the watcher takes j
          by_cases hji : j = i
          · subst hji
            refine ⟨hi, Or.inr ⟨⟨pl, ?_, ?_⟩, ?_⟩⟩
            · simp [St.upd, pm]
            · right; simp [St.upd]
            · simp only [wMeasure, hlen]; split <;> omega
          · refine ⟨hi, Or.inr ⟨⟨pl, ?_, ?_⟩, ?_⟩⟩
            · simp [St.upd, Ne.symm hji, pm]
            · left
              simp only [St.upd, Ne.symm hji, if_false, wRest]
              refine ⟨hst, ?_⟩
              rcases mem_eraseIdx_or i j todo k hmem hk with e | e
              · exact absurd e.symm hji
              · exact e
            · simp only [wMeasure, hlen]; split <;> omega
        · rename_i hg
          have hji : j ≠ i := fun e => hg (by rw [e]; exact ⟨pm, hst⟩)
          refine ⟨hi, Or.inr ⟨⟨pl, pm, ?_⟩, ?_⟩⟩
          · left
            refine ⟨hst, ?_⟩
            simp only [wRest]
            rcases mem_eraseIdx_or i j todo k hmem hk with e | e
            · exact absurd e.symm hji
            · exact e
          · simp only [wMeasure, hlen]; split <;> omega
    | holding j todo =>
      rw [hwt] at pd hc
      simp only [wRest, wMeasure] at pd hc
      simp only
      have sd := signal_dones s j .timeout i
      by_cases hji : j = i
      · subst hji
        refine ⟨by rw [sd.2.2.1]; exact hi, Or.inl ?_⟩
        rw [sd.1]; simp
      · have hpend : (s.reqs i).st = .enqueued ∧ i ∈ todo := by
          rcases pd with h | ⟨_, t, h⟩
          · exact h
          · injection h with h1 h2; exact absurd h1 hji
        refine ⟨by rw [sd.2.2.1]; exact hi, Or.inr ⟨⟨?_, ?_, ?_⟩, ?_⟩⟩
        · show (s.signal j .timeout).loop = .idle
          rw [sd.2.2.2.1]; exact pl
        · show ((s.signal j .timeout).reqs i).inMap = true
          rw [sd.2.1]; exact pm
        · left
          show ((s.signal j .timeout).reqs i).st = .enqueued ∧ i ∈ wRest (.scanned todo)
          rw [sd.2.2.2.2.2]; simp [Ne.symm hji, hpend, wRest]
        · simp only [wMeasure]; split <;> omega

theorem K_step (cfg : Cfg) (s : St) (a : Act) (i c : Nat) (hA : InvA s) (ha : a ≠ .loopFire) (h : K s i c) :
    K (step cfg s a) i (c - w0 a) := by
  have hi := h.1
  have hloop : 1 ≤ (s.reqs i).dones ∨ s.loop = .idle := by
    rcases h.2 with h | h
    · exact Or.inl h
    · exact Or.inr h.1.1
  unfold step
  rw [hA.np]
  simp only [Bool.false_eq_true, if_false]
  cases a with
  | loopFire => exact absurd rfl ha
  | wStep k =>
    have := K_watcher s k i c hA h
    simp only [stepCore, w0]
    by_cases hk : k = 0
    · subst hk; simpa using this
    · simp only [hk, if_false] at this
      have hne : (Act.wStep k = Act.wStep 0) = False := by simp [hk]
      simp only [hne, if_false]; exact this
  | advance d => exact K_frame s _ i _ rfl rfl (Nat.le_refl _) (Nat.le_refl _) rfl (fun _ h => h) h
  | cancel =>
    simp only [stepCore, stepCancel, w0]
    split
    · exact h
    · exact K_frame s _ i _ rfl rfl (Nat.le_refl _) (Nat.le_refl _) rfl (fun _ h => h) h
  | wScan =>
    simp only [stepCore, stepScan, w0]
    split
    · rename_i hw
      -- a new scan starts only when the previous one is over: then the verdict is there
      obtain ⟨_, hk⟩ := h
      rcases hk with hk | ⟨⟨pl, pm, pd⟩, _⟩
      · exact ⟨hi, Or.inl hk⟩
      · rw [hw] at pd
        rcases pd with h' | ⟨_, t, h'⟩
        · simp [wRest] at h'
        · cases h'
    · exact h
  | loopStep k =>
    simp only [stepCore, w0]
    rcases hloop with hd | hl
    · -- verdict already there
      refine ⟨?_, Or.inl ?_⟩
      · unfold stepLoop
        split <;> try exact hi
        · split <;> exact hi
        · split <;> exact hi
        · rw [(signal_dones s _ .success i).2.2.1]; exact hi
        · split
          · split <;> exact hi
          · split
            · rw [(signal_dones s _ .timeout i).2.2.1]; exact hi
            · exact hi
      · unfold stepLoop
        split <;> try exact hd
        · split <;> exact hd
        · split
          · simp only [St.upd]; split <;> simp_all
          · exact hd
        · simp only [St.upd, St.emit]; split <;> simp_all
        · simp only [St.upd, St.emit, St.enq]; split <;> simp_all
        · simp only [St.upd]; split <;> simp_all
        · rw [(signal_dones s _ .success i).1]; split <;> omega
        · split
          · split <;> exact hd
          · split
            · rw [(signal_dones s _ .timeout i).1]; split <;> omega
            · exact hd
    · unfold stepLoop; rw [hl]; exact h
  | arrive p =>
    simp only [stepCore, stepArrive, w0]
    split <;>
    · refine K_frame s _ i _ rfl rfl (Nat.le_succ _) ?_ ?_ ?_ h <;> simp only [St.emit] <;>
        simp [show i ≠ s.n by omega]
  | register j =>
    simp only [stepCore, stepRegister, w0]
    split
    · refine K_frame s _ i _ rfl rfl (Nat.le_refl _) ?_ ?_ ?_ h <;> simp only [St.upd] <;> split <;> simp_all
    · exact h
  | push j =>
    simp only [stepCore, stepPush, w0]
    split
    · refine K_frame s _ i _ rfl rfl (Nat.le_refl _) ?_ ?_ ?_ h <;> simp only [St.upd, St.emit, St.enq] <;>
        split <;> simp_all
    · exact h
  | wake j =>
    simp only [stepCore, stepWake, w0]
    split
    · refine K_frame s _ i _ rfl rfl (Nat.le_refl _) ?_ ?_ ?_ h <;> simp only [St.upd, St.emit] <;> split <;> simp_all
    · exact h
  | unwatch j =>
    simp only [stepCore, stepUnwatch, w0]
    split
    · rename_i hg
      refine K_frame s _ i _ rfl rfl (Nat.le_refl _) ?_ ?_ ?_ h
      · simp only [St.upd, St.emit]; split <;> simp_all
      · simp only [St.upd, St.emit]; split <;> simp_all
      · intro hnp hm
        simp only [St.upd, St.emit]
        split
        · rename_i e; subst e
          exfalso
          cases hp : (s.reqs i).pc <;> simp [hp, isReturned] at hg
          exact hnp (hA.rt i _ hp).1
        · exact hm
    · exact h
  | heapRemove j =>
    simp only [stepCore, stepHeapRemove, w0]
    split
    · refine K_frame s _ i _ rfl rfl (Nat.le_refl _) ?_ ?_ ?_ h <;> simp only [St.upd] <;> split <;> simp_all
    · exact h

theorem K_run (cfg : Cfg) (mid : List Act) (s : St) (i c : Nat) (hA : InvA s)
    (hm : ∀ a ∈ mid, a ≠ .loopFire) (h : K s i c) :
    K (run cfg s mid) i (c - (mid.map w0).sum) := by
  induction mid generalizing s c with
  | nil => simpa [run] using h
  | cons a rest ih =>
    have h1 := K_step cfg s a i c hA (hm a List.mem_cons_self) h
    have := ih (step cfg s a) (c - w0 a) (invA_step cfg s a hA) (fun b hb => hm b (List.mem_cons_of_mem _ hb)) h1
    simp only [List.map_cons, List.sum_cons]
    show K (run cfg (step cfg s a) rest) i (c - (w0 a + (rest.map w0).sum))
    rw [← Nat.sub_sub]; exact this

theorem sum_w0 (mid : List Act) : (mid.map w0).sum = mid.count (.wStep 0) := by
  induction mid with
  | nil => rfl
  | cons a rest ih =>
    simp only [List.map_cons, List.sum_cons, List.count_cons, ih, w0]
    by_cases h : a = .wStep 0
    · simp [h]; omega
    · have : (a == Act.wStep 0) = false := by simpa using h
      simp [h, this]

/-- The liveness core: from a state in which the loop is parked, the watcher idle and `i` registered,
without verdict and past its TTL: a scan followed by any actions other than the loop's timer,
among them at least `2 n + 1` watcher steps `wStep 0`, delivers the verdict. -/
theorem scan_delivers (cfg : Cfg) (s : St) (mid : List Act) (i : Nat) (hA : InvA s)
    (hl : s.loop = .idle) (hw : s.watcher = .idle) (hi : i < s.n) (hm : (s.reqs i).inMap = true)
    (hd : (s.reqs i).dones = 0) (he : (s.reqs i).arrival + cfg.ttl < s.now)
    (hmid : ∀ a ∈ mid, a ≠ .loopFire) (hc : 2 * s.n + 1 ≤ mid.count (.wStep 0)) :
    let s' := run cfg s (.wScan :: mid)
    (s'.reqs i).dones = 1 ∧ (s'.reqs i).st = .processed ∧ s'.panicked = false := by
  intro s'
  have hst : (s.reqs i).st = .enqueued := by
    cases hs : (s.reqs i).st with
    | enqueued => rfl
    | processed => have := hA.dn i; rw [hs, hd] at this; simp at this
    | processing =>
      rcases (hA.own i).1 hs with h | h
      · rw [hl] at h; cases h
      · rw [hw] at h; cases h
  let todo := idsWhere s (fun r => r.inMap && decide (r.arrival + cfg.ttl < s.now))
  have hmem : i ∈ todo := by
    show i ∈ idsWhere s _
    unfold idsWhere
    simp [hi, hm, he]
  have hlen : todo.length ≤ s.n := by
    show (idsWhere s _).length ≤ s.n
    unfold idsWhere
    exact Nat.le_trans (List.length_filter_le _ _) (by simp)
  have hs1 : step cfg s .wScan = { s with watcher := .scanned todo } := by
    simp only [step, hA.np, Bool.false_eq_true, if_false, stepCore, stepScan, hw, if_true]
    rfl
  have hA1 : InvA (step cfg s .wScan) := invA_step cfg s _ hA
  have hK : K (step cfg s .wScan) i (2 * s.n + 1) := by
    rw [hs1]
    refine ⟨hi, Or.inr ⟨⟨hl, hm, Or.inl ⟨hst, hmem⟩⟩, ?_⟩⟩
    simp only [wMeasure]; omega
  have hrun := K_run cfg mid (step cfg s .wScan) i (2 * s.n + 1) hA1 hmid hK
  rw [sum_w0] at hrun
  have hAf : InvA s' := invA_run cfg _ s hA
  have hz : 2 * s.n + 1 - mid.count (.wStep 0) = 0 := by omega
  rw [hz] at hrun
  have hdone : 1 ≤ (s'.reqs i).dones := by
    rcases hrun.2 with h | ⟨⟨_, _, pd⟩, hc0⟩
    · exact h
    · exfalso
      cases hwt : (run cfg (step cfg s .wScan) mid).watcher with
      | idle =>
        rw [hwt] at pd
        rcases pd with h | ⟨_, t, h⟩
        · simp [wRest] at h
        · cases h
      | scanned t => rw [hwt] at hc0; simp [wMeasure] at hc0
      | holding j t => rw [hwt] at hc0; simp [wMeasure] at hc0
  have hdn := hAf.dn i
  refine ⟨?_, ?_, hAf.np⟩
  · split at hdn <;> omega
  · by_cases hp : (s'.reqs i).st = .processed
    · exact hp
    · rw [if_neg hp] at hdn; omega

end LunarVerif.C06
