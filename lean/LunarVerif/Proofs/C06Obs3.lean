import LunarVerif.Proofs.C06Obs2
/-!
Helper lemmas for C06, part 11: the Spec predicates (P) `prioOk`, (F) `fifoOk`, (B) `boundOk` and
(T-lower) `ttlLowerOk` hold of the history of every schedule.
-/
namespace LunarVerif.C06

theorem length_le_cnt (p : Req → Bool) (f : Nat → Req) :
    ∀ (n : Nat) (L : List Nat), L.Nodup → (∀ x ∈ L, x < n ∧ p (f x) = true) → L.length ≤ cnt p f n
  | 0, L, _, h => by
    cases L with
    | nil => simp
    | cons a l => have := (h a (by simp)).1; omega
  | n + 1, L, hnd, h => by
    simp only [cnt]
    by_cases hm : n ∈ L
    · have hpn := (h n hm).2
      have hl : (L.erase n).length = L.length - 1 := List.length_erase_of_mem hm
      have hpos : 0 < L.length := List.length_pos_of_mem hm
      have ih := length_le_cnt p f n (L.erase n) (hnd.erase n) (fun x hx => by
        have hx' := List.mem_of_mem_erase hx
        have hne : x ≠ n := fun e => by subst e; exact (List.Nodup.not_mem_erase hnd) hx
        have := h x hx'
        exact ⟨by omega, this.2⟩)
      simp [hpn]; omega
    · have ih := length_le_cnt p f n L hnd (fun x hx => by
        have := h x hx
        have hne : x ≠ n := fun e => by subst e; exact hm hx
        exact ⟨by omega, this.2⟩)
      split <;> omega

structure InvO4 (cfg : Cfg) (s : St) : Prop where
  tpr : allRev (prioOk cfg) s.trace = true
  tff : allRev (fifoOk cfg) s.trace = true
  tbd : allRev (boundOk cfg) s.trace = true
  ttl : allRev (ttlLowerOk cfg) s.trace = true

theorem invO4_init (cfg : Cfg) (t0 : Nat) : InvO4 cfg (St.init t0) := by
  constructor <;> simp [St.init, allRev]

/-- An event that is neither `queued` nor `done` keeps the four predicates. -/
theorem invO4_emit (cfg : Cfg) (s s' : St) (e : Ev) (ht : s'.trace = e :: s.trace)
    (h1 : ∀ i p t, e ≠ .queued i p t) (h2 : ∀ i b t, e ≠ .done i b t) (h : InvO4 cfg s) : InvO4 cfg s' := by
  obtain ⟨tpr, tff, tbd, ttl⟩ := h
  constructor <;> rw [ht] <;> simp only [allRev, Bool.and_eq_true] <;> refine ⟨?_, by assumption⟩ <;>
    cases e <;> first | rfl | (exfalso; first | exact h1 _ _ _ rfl | exact h2 _ _ _ rfl)

theorem invO4_same (cfg : Cfg) (s s' : St) (ht : s'.trace = s.trace) (h : InvO4 cfg s) : InvO4 cfg s' := by
  obtain ⟨tpr, tff, tbd, ttl⟩ := h
  constructor <;> rw [ht] <;> assumption

theorem invO4_queued (cfg : Cfg) (s s' : St) (i : Nat) (hg : (s.reqs i).pc = .registered)
    (ht : s'.trace = .queued i (s.reqs i).prio (s.reqs i).arrival :: s.trace)
    (hA : InvA s) (hT : InvT s) (hH : InvH s) (hB : InvB cfg s) (hO : InvO1 s) (h : InvO4 cfg s) : InvO4 cfg s' := by
  obtain ⟨tpr, tff, tbd, ttl⟩ := h
  have hnq := (hT.tf i (Or.inr (Or.inr hg))).1
  have hlt : i < s.n := by
    rcases Nat.lt_or_ge i s.n with h | h
    · exact h
    · have := (hA.fresh i h).1; rw [hg] at this; cases this
  have hL : ∀ x ∈ i :: (waiting s.trace).map (·.1), x < s.n ∧ inMapP (s.reqs x) = true := by
    intro x hx
    rcases List.mem_cons.1 hx with e | e
    · subst e; exact ⟨hlt, hH.pk x (Or.inr hg)⟩
    · obtain ⟨y, hy, rfl⟩ := List.mem_map.1 e
      have w := hO.w2 y hy
      exact ⟨(hO.wq y.1 w.1).1, hH.pk y.1 (Or.inl w.2.1)⟩
  have hnd : (i :: (waiting s.trace).map (·.1)).Nodup := by
    refine List.nodup_cons.2 ⟨?_, hO.nd⟩
    intro hm
    obtain ⟨y, hy, e⟩ := List.mem_map.1 hm
    have := (hO.w2 y hy).1; rw [e, hnq] at this; cases this
  have hc := length_le_cnt inMapP s.reqs s.n _ hnd hL
  simp only [List.length_cons, List.length_map] at hc
  have hcm := hB.cm
  have hbd := hB.bd
  constructor <;> rw [ht] <;> simp only [allRev, Bool.and_eq_true] <;> refine ⟨?_, by assumption⟩
  · rfl
  · rfl
  · simp only [boundOk, decide_eq_true_eq]; omega
  · rfl

theorem invO4_allowed (cfg : Cfg) (s s' : St) (i : Nat) (heq : s.loop = .granted i)
    (ht : s'.trace = .done i true s.now :: s.trace)
    (hO : InvO1 s) (hO3 : InvO3 cfg s) (h : InvO4 cfg s) : InvO4 cfg s' := by
  obtain ⟨tpr, tff, tbd, ttl⟩ := h
  have hatt : attempt s.loop i := by rw [heq]; rfl
  constructor <;> rw [ht] <;> simp only [allRev, Bool.and_eq_true] <;> refine ⟨?_, by assumption⟩
  · simp only [prioOk]
    cases hi : infoOf s.trace i with
    | none => rfl
    | some pa =>
      have hq := hO.wq i (infoOf_wasQueued _ _ _ hi)
      rw [hq.2.2.2] at hi
      cases hi
      simp only [List.all_eq_true]
      intro x hx
      have w := hO.w2 x hx
      by_cases hxi : x.1 = i
      · simp [hxi]
      · have := hO3.att i hatt x hx hxi
        simp only [Bool.or_eq_true, beq_iff_eq, Bool.not_eq_true', decide_eq_false_iff_not, decide_eq_true_eq]
        rw [w.2.2.2.1, w.2.2.2.2]
        unfold lexle at this
        rcases this with h | h | h
        · left; left; right; omega
        · left; right; exact h
        · right; exact h
  · simp only [fifoOk]
    cases hi : infoOf s.trace i with
    | none => rfl
    | some pa =>
      have hq := hO.wq i (infoOf_wasQueued _ _ _ hi)
      rw [hq.2.2.2] at hi
      cases hi
      simp only [List.all_eq_true]
      intro x hx
      have w := hO.w2 x hx
      by_cases hxi : x.1 = i
      · simp [hxi]
      · simp only [Bool.or_eq_true, beq_iff_eq, Bool.not_eq_true', decide_eq_true_eq, bne_iff_ne, ne_eq]
        by_cases hpr : x.2.1 = (s.reqs i).prio
        · by_cases hqb : queuedBefore s.trace x.1 i = true
          · right
            rw [w.2.2.2.2]
            exact hO3.ff i hatt x hx hxi (by rw [← w.2.2.2.1]; exact hpr) hqb
          · left; right; simpa using hqb
        · left; left; right; exact hpr
  · rfl
  · rfl

theorem invO4_rejected (cfg : Cfg) (s s' : St) (i : Nat)
    (ht : s'.trace = .done i false s.now :: s.trace)
    (hx : drainSeen s.trace = true ∨ (s.reqs i).arrival + cfg.ttl < s.now)
    (hO : InvO1 s) (h : InvO4 cfg s) : InvO4 cfg s' := by
  obtain ⟨tpr, tff, tbd, ttl⟩ := h
  constructor <;> rw [ht] <;> simp only [allRev, Bool.and_eq_true] <;> refine ⟨?_, by assumption⟩
  · rfl
  · rfl
  · rfl
  · simp only [ttlLowerOk, Bool.or_eq_true]
    rcases hx with h | h
    · exact Or.inl h
    · right
      cases hi : infoOf s.trace i with
      | none => rfl
      | some pa =>
        have hq := hO.wq i (infoOf_wasQueued _ _ _ hi)
        rw [hq.2.2.2] at hi
        cases hi
        simpa using h

theorem signal_trace (s : St) (i : Nat) (r : RResult) (hw : (s.reqs i).wg = 1) :
    (s.signal i r).trace = .done i (r == .success) s.now :: s.trace := by
  have hlt : ¬ ((s.reqs i).wg - 1 < 0) := by omega
  simp only [St.signal, hlt, if_false, St.emit, St.upd]

theorem invO4_step (cfg : Cfg) (s : St) (a : Act) (hA : InvA s) (hT : InvT s) (hH : InvH s) (hB : InvB cfg s)
    (hO : InvO1 s) (hO3 : InvO3 cfg s) (h : InvO4 cfg s) : InvO4 cfg (step cfg s a) := by
  unfold step
  rw [hA.np]
  simp only [Bool.false_eq_true, if_false]
  cases a with
  | advance d => exact invO4_same cfg s _ rfl h
  | arrive p =>
    simp only [stepCore, stepArrive]
    split
    · exact invO4_emit cfg s _ _ rfl (by intros; simp) (by intros; simp) h
    · exact invO4_emit cfg s _ _ rfl (by intros; simp) (by intros; simp) h
  | register i =>
    simp only [stepCore, stepRegister]
    split
    · exact invO4_same cfg s _ rfl h
    · exact h
  | push i =>
    simp only [stepCore, stepPush]
    split
    · rename_i hg
      exact invO4_queued cfg s _ i hg rfl hA hT hH hB hO h
    · exact h
  | wake i =>
    simp only [stepCore, stepWake]
    split
    · exact invO4_emit cfg s _ _ rfl (by intros; simp) (by intros; simp) h
    · exact h
  | unwatch i =>
    simp only [stepCore, stepUnwatch]
    split
    · exact invO4_emit cfg s _ _ rfl (by intros; simp) (by intros; simp) h
    · exact h
  | heapRemove i =>
    simp only [stepCore, stepHeapRemove]
    split
    · exact invO4_same cfg s _ rfl h
    · exact h
  | loopFire =>
    simp only [stepCore, stepLoopFire]
    split
    · split <;> exact invO4_same cfg s _ rfl h
    · exact h
  | wScan =>
    simp only [stepCore, stepScan]
    split
    · exact invO4_same cfg s _ rfl h
    · exact h
  | cancel =>
    simp only [stepCore, stepCancel]
    split
    · exact h
    · exact invO4_emit cfg s _ _ rfl (by intros; simp) (by intros; simp) h
  | wStep k =>
    simp only [stepCore, stepWatcher]
    split
    · exact h
    · split
      · split
        · exact invO4_same cfg s _ rfl h
        · exact h
      · split
        · exact invO4_same cfg s _ rfl h
        · exact invO4_same cfg s _ rfl h
    · rename_i i todo heq
      have hp' : (s.reqs i).st = .processing := (hA.own i).2 (Or.inr (by simp [heq, holdsW]))
      have hw : (s.reqs i).wg = 1 := by rw [hA.wg i, hp']; simp
      have ht := signal_trace s i .timeout hw
      rw [show (RResult.timeout == RResult.success) = false by decide] at ht
      have hex := (hO3.w1 i (by rw [heq]; simp [wtodo])).2
      exact invO4_rejected cfg s _ i (by simpa using ht) (Or.inr hex) hO h
  | loopStep k =>
    simp only [stepCore, stepLoop]
    split
    · exact h
    · exact h
    · split
      · exact invO4_same cfg s _ rfl h
      · exact invO4_emit cfg s _ _ rfl (by intros; simp) (by intros; simp) h
    · split
      · exact invO4_same cfg s _ rfl h
      · exact invO4_same cfg s _ rfl h
    · exact invO4_emit cfg s _ _ rfl (by intros; simp) (by intros; simp) h
    · exact invO4_emit cfg s _ _ rfl (by intros; simp) (by intros; simp) h
    · exact invO4_same cfg s _ rfl h
    · rename_i i heq
      have hp' : (s.reqs i).st = .processing := (hA.own i).2 (Or.inl (by simp [heq, holdsL]))
      have hw : (s.reqs i).wg = 1 := by rw [hA.wg i, hp']; simp
      have ht := signal_trace s i .success hw
      rw [show (RResult.success == RResult.success) = true by decide] at ht
      exact invO4_allowed cfg s _ i heq (by simpa using ht) hO hO3 h
    · rename_i todo heq
      split
      · split
        · exact invO4_same cfg s _ rfl h
        · exact h
      · split
        · rename_i i hk hg
          have hw : (s.reqs i).wg = 1 := by rw [hA.wg i, hg.2]; simp
          have ht := signal_trace s i .timeout hw
          rw [show (RResult.timeout == RResult.success) = false by decide] at ht
          have hds : drainSeen s.trace = true := hO3.dc.2 (hO3.dc.1 (by simp [heq, isDraining]))
          exact invO4_rejected cfg s _ i (by simpa using ht) (Or.inl hds) hO h
        · exact invO4_same cfg s _ rfl h

/-- All invariants together, along every schedule. -/
structure InvAll (cfg : Cfg) (s : St) : Prop where
  a : InvA s
  t : InvT s
  h : InvH s
  b : InvB cfg s
  o1 : InvO1 s
  o2 : InvO2 s
  o3 : InvO3 cfg s
  o4 : InvO4 cfg s

theorem invAll_init (cfg : Cfg) (t0 : Nat) : InvAll cfg (St.init t0) :=
  ⟨invA_init t0, invT_init t0, invH_init t0, invB_init cfg t0, invO1_init t0, invO2_init t0, invO3_init cfg t0,
   invO4_init cfg t0⟩

theorem invAll_step (cfg : Cfg) (s : St) (a : Act) (h : InvAll cfg s) : InvAll cfg (step cfg s a) :=
  ⟨invA_step cfg s a h.a, invT_step cfg s a h.a h.t, invH_step cfg s a h.a h.h, invB_step cfg s a h.b,
   invO1_step cfg s a h.a h.t h.h h.o1, invO2_step cfg s a h.a h.t h.h h.o1 h.o2,
   invO3_step cfg s a h.a h.t h.h h.o1 h.o2 h.o3, invO4_step cfg s a h.a h.t h.h h.b h.o1 h.o3 h.o4⟩

theorem invAll_run (cfg : Cfg) (acts : List Act) (s : St) (h : InvAll cfg s) : InvAll cfg (run cfg s acts) := by
  induction acts generalizing s with
  | nil => exact h
  | cons a rest ih => exact ih (step cfg s a) (invAll_step cfg s a h)

end LunarVerif.C06
