import LunarVerif.Proofs.C18Vacuum
import LunarVerif.Spec.C18Vacuum
/-! The invariant at quiescent instants (no pass in progress) that connects the judge's predicate
    `notForgotten` with the model: the pending list is sorted by deadline (monotone clock, constant ttl),
    so the expired prefix a pass removes is ALL expired entries. -/
namespace LunarVerif.C18.Vacuum

def Sorted (l : List (String × Nat)) : Prop := l.Pairwise (fun a b => a.2 ≤ b.2)

structure Q (s : St) : Prop where
  quiet : s.snap = none ∧ s.drop = none
  sorted : Sorted s.entries
  bound : ∀ e ∈ s.entries, e.2 ≤ s.now + s.ttl
  regd : ∀ e ∈ s.entries, ∃ dl, s.reg.lookup e.1 = some dl ∧ e.2 ≤ dl
  tracked : ∀ k ∈ s.map, ∃ e ∈ s.entries, e.1 = k
  fresh : ∀ p, s.lastPass = some p → p ≤ s.now ∧ ∀ e ∈ s.entries, p ≤ e.2

theorem lookup_filter_ne (t : List (String × Nat)) (k k' : String) (h : k' ≠ k) :
    (t.filter (·.1 != k)).lookup k' = t.lookup k' := by
  induction t with
  | nil => rfl
  | cons e r ih =>
    obtain ⟨a, b⟩ := e
    by_cases hak : a = k
    · subst hak
      have : (a != a) = false := by simp
      simp only [List.filter_cons, this, Bool.false_eq_true, if_false]
      rw [ih]
      have : (k' == a) = false := by simpa using h
      simp [List.lookup_cons, this]
    · have : (a != k) = true := by simpa using hak
      simp only [List.filter_cons, this, if_true, List.lookup_cons]
      rw [ih]

theorem lookup_set_self (t : List (String × Nat)) (k : String) (v : Nat) :
    ((k, v) :: t.filter (·.1 != k)).lookup k = some v := by
  simp [List.lookup_cons]

theorem lookup_set_other (t : List (String × Nat)) (k k' : String) (v : Nat) (h : k' ≠ k) :
    ((k, v) :: t.filter (·.1 != k)).lookup k' = t.lookup k' := by
  have : (k' == k) = false := by simpa using h
  simp only [List.lookup_cons, this]
  exact lookup_filter_ne t k k' h

theorem sorted_append_single (l : List (String × Nat)) (x : String × Nat) (hs : Sorted l)
    (hb : ∀ e ∈ l, e.2 ≤ x.2) : Sorted (l ++ [x]) := by
  unfold Sorted at *
  rw [List.pairwise_append]
  refine ⟨hs, by simp, ?_⟩
  intro a ha b hb'
  simp at hb'
  rw [hb']
  exact hb a ha

theorem after_expired_not_due (now : Nat) : ∀ (l : List (String × Nat)), Sorted l →
    ∀ e ∈ l.drop (expiredPrefix now l).length, now ≤ e.2 := by
  intro l
  induction l with
  | nil => intro _ e he; simp [expiredPrefix] at he
  | cons a r ih =>
    intro hs e he
    unfold Sorted at hs
    rw [List.pairwise_cons] at hs
    unfold expiredPrefix at he
    by_cases hd : due now a = true
    · simp only [hd, if_true, List.length_cons, List.drop_succ_cons] at he
      exact ih hs.2 e he
    · simp only [hd, Bool.false_eq_true, if_false, List.length_nil, List.drop_zero] at he
      have hna : now ≤ a.2 := by
        simp only [due, decide_eq_true_eq] at hd
        omega
      rcases List.mem_cons.1 he with rfl | h
      · exact hna
      · have := hs.1 e h
        omega

theorem addQ (s : St) (k : String) (h : Q s) : Q (step s (.add k)) := by
  obtain ⟨hq, hs, hb, hr, ht, hf⟩ := h
  refine ⟨hq, ?_, ?_, ?_, ?_, ?_⟩
  · exact sorted_append_single _ _ hs (by intro e he; exact hb e he)
  · intro e he
    simp only [step] at he ⊢
    rcases List.mem_append.1 he with h1 | h1
    · exact hb e h1
    · simp at h1; rw [h1]; exact Nat.le_refl _
  · intro e he
    simp only [step] at he ⊢
    by_cases hk : e.1 = k
    · refine ⟨s.now + s.ttl, by rw [hk]; exact lookup_set_self _ _ _, ?_⟩
      rcases List.mem_append.1 he with h1 | h1
      · exact hb e h1
      · simp at h1; rw [h1]; exact Nat.le_refl _
    · rcases List.mem_append.1 he with h1 | h1
      · obtain ⟨dl, h2, h3⟩ := hr e h1
        exact ⟨dl, by rw [lookup_set_other _ _ _ _ hk]; exact h2, h3⟩
      · simp at h1; rw [h1] at hk; exact absurd rfl hk
  · intro k' hk'
    simp only [step] at hk' ⊢
    rcases List.mem_cons.1 hk' with rfl | h1
    · exact ⟨(k', s.now + s.ttl), by simp, rfl⟩
    · obtain ⟨e, he, hek⟩ := ht k' (List.mem_filter.1 h1).1
      exact ⟨e, List.mem_append_left _ he, hek⟩
  · intro p hp
    simp only [step] at hp ⊢
    obtain ⟨h1, h2⟩ := hf p hp
    refine ⟨h1, ?_⟩
    intro e he
    rcases List.mem_append.1 he with h3 | h3
    · exact h2 e h3
    · simp at h3; rw [h3]; simp only; omega

theorem clockQ (s : St) (n : Nat) (w : Option Nat) (hn : s.now ≤ n) (h : Q s) :
    Q { s with now := n, wakeAt := w } := by
  obtain ⟨hq, hs, hb, hr, ht, hf⟩ := h
  refine ⟨hq, hs, ?_, hr, ht, ?_⟩
  · intro e he; have := hb e he; simp only; omega
  · intro p hp; obtain ⟨h1, h2⟩ := hf p hp; exact ⟨by simp only; omega, h2⟩

/-- one whole pass, run from a quiescent state, ends in a quiescent state in which nothing that is
    pending is due and the pass instant is recorded -/
theorem passQ (s : St) (during : Option String) (h : Q s) :
    Q (pass s during) ∧ (pass s during).lastPass = some s.now ∧ (pass s during).now = s.now
      ∧ (pass s during).ttl = s.ttl ∧ (pass s during).tick = s.tick := by
  have hq := h.quiet
  have hsnap : step s .snap = { s with snap := some s.entries } := by
    simp only [step, hq.1, hq.2, Option.isNone_none, Bool.and_self, if_true]
  have hp := expiredPrefix_prefix s.now s.entries
  have hlen : (expiredPrefix s.now s.entries).length ≤ s.entries.length := hp.length_le
  cases during with
  | none =>
    have hpass : pass s none = step (step (step s .snap) .del) .trim := rfl
    rw [hpass, hsnap]
    simp only [step]
    refine ⟨⟨⟨rfl, rfl⟩, ?_, ?_, ?_, ?_, ?_⟩, by simp⟩
    · exact List.Pairwise.sublist (List.drop_sublist _ _) h.sorted
    · intro x hx; exact h.bound x (List.mem_of_mem_drop hx)
    · intro x hx; exact h.regd x (List.mem_of_mem_drop hx)
    · intro k hk
      simp only [List.mem_filter, Bool.not_eq_true', List.contains_eq_mem, decide_eq_false_iff_not,
        List.mem_map, not_exists, not_and] at hk
      obtain ⟨x, hx, hxk⟩ := h.tracked k hk.1
      have hsplit := List.take_append_drop (expiredPrefix s.now s.entries).length s.entries
      rw [← hsplit] at hx
      rcases List.mem_append.1 hx with h1 | h1
      · rw [← List.prefix_iff_eq_take.1 hp] at h1
        exact absurd hxk (hk.2 x h1)
      · exact ⟨x, h1, hxk⟩
    · intro p hp'
      simp only [Option.some.injEq] at hp'
      subst hp'
      exact ⟨Nat.le_refl _, after_expired_not_due _ _ h.sorted⟩
  | some k =>
    have hA := addQ s k h
    have hpass : pass s (some k) = step (step (step (step s .snap) (.add k)) .del) .trim := rfl
    rw [hpass, hsnap]
    simp only [step]
    have hdrop : (s.entries ++ [(k, s.now + s.ttl)]).drop (expiredPrefix s.now s.entries).length
        = s.entries.drop (expiredPrefix s.now s.entries).length ++ [(k, s.now + s.ttl)] := by
      rw [List.drop_append_of_le_length hlen]
    have hAe : (step s (.add k)).entries = s.entries ++ [(k, s.now + s.ttl)] := by simp only [step]
    have hAr : (step s (.add k)).reg = (k, s.now + s.ttl) :: s.reg.filter (·.1 != k) := by simp only [step]
    refine ⟨⟨⟨rfl, rfl⟩, ?_, ?_, ?_, ?_, ?_⟩, by simp⟩
    · have := hA.sorted; rw [hAe] at this
      exact List.Pairwise.sublist (List.drop_sublist _ _) this
    · intro x hx
      have := hA.bound x (by rw [hAe]; exact List.mem_of_mem_drop hx)
      simpa [step] using this
    · intro x hx
      have := hA.regd x (by rw [hAe]; exact List.mem_of_mem_drop hx)
      rw [hAr] at this
      exact this
    · intro k' hk'
      simp only [List.mem_filter, Bool.not_eq_true', List.contains_eq_mem, decide_eq_false_iff_not,
        List.mem_map, not_exists, not_and] at hk'
      rw [hdrop]
      rcases List.mem_cons.1 hk'.1 with rfl | h1
      · exact ⟨(k', s.now + s.ttl), by simp, rfl⟩
      · obtain ⟨x, hx, hxk⟩ := h.tracked k' (List.mem_filter.1 h1).1
        have hsplit := List.take_append_drop (expiredPrefix s.now s.entries).length s.entries
        rw [← hsplit] at hx
        rcases List.mem_append.1 hx with h2 | h2
        · rw [← List.prefix_iff_eq_take.1 hp] at h2
          exact absurd hxk (hk'.2 x h2)
        · exact ⟨x, List.mem_append_left _ h2, hxk⟩
    · intro p hp'
      simp only [Option.some.injEq] at hp'
      subst hp'
      refine ⟨Nat.le_refl _, ?_⟩
      intro x hx
      rw [hdrop] at hx
      rcases List.mem_append.1 hx with h2 | h2
      · exact after_expired_not_due _ _ h.sorted x h2
      · simp at h2; rw [h2]; simp only; omega

/-- the judge's predicate follows from the quiescent invariant -/
theorem holds_of_Q (s : St) (h : Q s) : holds s s.map = true := by
  unfold holds notForgotten
  rw [List.all_eq_true]
  intro k hk
  obtain ⟨e, he, hek⟩ := h.tracked k hk
  obtain ⟨dl, h1, h2⟩ := h.regd e he
  rw [hek] at h1
  rw [h1]
  cases hp : s.lastPass with
  | none => rfl
  | some p =>
    have := (h.fresh p hp).2 e he
    simp only [Bool.not_eq_true', decide_eq_false_iff_not]
    omega

end LunarVerif.C18.Vacuum

namespace LunarVerif.C18.Vacuum

theorem Q_of_fields (s t : St) (h : Q s) (e1 : t.snap = s.snap) (e2 : t.drop = s.drop)
    (e3 : t.entries = s.entries) (e4 : t.map = s.map) (e5 : t.reg = s.reg)
    (e6 : t.lastPass = s.lastPass) (e7 : t.ttl = s.ttl) (hn : s.now ≤ t.now) : Q t := by
  obtain ⟨hq, hs, hb, hr, ht, hf⟩ := h
  refine ⟨by rw [e1, e2]; exact hq, by rw [e3]; exact hs, ?_, ?_, ?_, ?_⟩
  · intro e he; rw [e3] at he; have := hb e he; rw [e7]; omega
  · intro e he; rw [e3] at he; rw [e5]; exact hr e he
  · intro k hk; rw [e4] at hk; rw [e3]; exact ht k hk
  · intro p hp; rw [e6] at hp; obtain ⟨h1, h2⟩ := hf p hp
    exact ⟨by omega, by rw [e3]; exact h2⟩

theorem vaddQ (s : St) (k : String) (h : Q s) : Q (vadd s k) := by
  unfold vadd
  have hA := addQ s k h
  cases hw : (step s (.add k)).wakeAt with
  | some w => simp only [hw]; exact hA
  | none =>
    simp only [hw]
    obtain ⟨hP, _, hnow, httl, _⟩ := passQ _ none hA
    exact Q_of_fields _ _ hP rfl rfl rfl rfl rfl rfl rfl (Nat.le_refl _)

theorem advanceQ : ∀ (fuel : Nat) (s : St) (target : Nat) (d : Option String), Q s → s.now ≤ target →
    Q (advance fuel s target d) := by
  intro fuel
  induction fuel with
  | zero =>
    intro s t d h hle
    exact Q_of_fields s _ h rfl rfl rfl rfl rfl rfl rfl hle
  | succ f ih =>
    intro s t d h hle
    unfold advance
    split
    · exact Q_of_fields s _ h rfl rfl rfl rfl rfl rfl rfl hle
    · rename_i w _
      split
      · rename_i hwt
        have h1 : Q { s with now := max s.now w } :=
          Q_of_fields s _ h rfl rfl rfl rfl rfl rfl rfl (Nat.le_max_left _ _)
        obtain ⟨hP, _, hnow, httl, _⟩ := passQ _ d h1
        apply ih
        · exact Q_of_fields _ _ hP rfl rfl rfl rfl rfl rfl rfl (Nat.le_refl _)
        · show (pass { s with now := max s.now w } d).now ≤ t
          rw [hnow]
          show max s.now w ≤ t
          omega
      · exact Q_of_fields s _ h rfl rfl rfl rfl rfl rfl rfl hle

end LunarVerif.C18.Vacuum
