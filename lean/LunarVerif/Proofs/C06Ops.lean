import LunarVerif.Proofs.C06Trace
import LunarVerif.Proofs.C06Heap
import LunarVerif.Proofs.C06Drain
import LunarVerif.Proofs.C06Ttl
/-!
Helper lemmas for C06, part 5: a run of macro-operations (what the driver executes) is a run of
the interleaving model under the flat schedule `schedule`; without a `drain` op that schedule
contains no `cancel`.
-/
namespace LunarVerif.C06

theorem run_append (cfg : Cfg) (s : St) (a b : List Act) : run cfg s (a ++ b) = run cfg (run cfg s a) b := by
  simp [run, List.foldl_append]

theorem applyOp_s (cfg : Cfg) (x : Sim) (op : Op) : (applyOp cfg x op).s = run cfg x.s (opActs cfg x op) := by
  unfold applyOp
  cases op <;> rfl

theorem runOps_eq_run (cfg : Cfg) (ops : List Op) (x : Sim) :
    (runOps cfg x ops).s = run cfg x.s (schedule cfg x ops) := by
  induction ops generalizing x with
  | nil => rfl
  | cons op rest ih =>
    show (runOps cfg (applyOp cfg x op) rest).s = _
    rw [ih (applyOp cfg x op), schedule, run_append, applyOp_s]

theorem cancel_not_mem_settle (hold : Bool) (n : Nat) : Act.cancel ∉ settleActs hold n := by
  unfold settleActs
  intro h
  rcases List.mem_flatMap.1 h with ⟨i, _, hi⟩
  split at hi <;> simp at hi

theorem cancel_not_mem_repeat (acts : List Act) (h : Act.cancel ∉ acts) : ∀ k, Act.cancel ∉ repeatActs acts k
  | 0 => by simp [repeatActs]
  | k + 1 => by
    unfold repeatActs
    intro hm
    rcases List.mem_append.1 hm with e | e
    · exact h e
    · exact cancel_not_mem_repeat acts h k e

theorem cancel_not_mem_loopUntilGate (cfg : Cfg) (hold : Bool) :
    ∀ (fuel : Nat) (s : St), Act.cancel ∉ loopUntilGate cfg hold fuel s
  | 0, _ => by simp [loopUntilGate]
  | fuel + 1, s => by
    unfold loopUntilGate
    split <;> try simp
    exact ⟨cancel_not_mem_settle hold s.n, cancel_not_mem_loopUntilGate cfg hold fuel _⟩

theorem opActs_noCancel (cfg : Cfg) (x : Sim) (op : Op) (h : op ≠ .drain) : Act.cancel ∉ opActs cfg x op := by
  have hs := cancel_not_mem_settle x.hold x.s.n
  have hw : Act.cancel ∉ (Act.wStep 0 :: settleActs x.hold x.s.n) := by
    intro e; rcases List.mem_cons.1 e with e | e
    · cases e
    · exact hs e
  have hl : Act.cancel ∉ (Act.loopStep 0 :: settleActs x.hold x.s.n) := by
    intro e; rcases List.mem_cons.1 e with e | e
    · cases e
    · exact hs e
  cases op with
  | arrive p => simp [opActs]
  | arriveBegin p => simp [opActs]
  | arriveEnd i => simp [opActs]
  | tick =>
    simp only [opActs, List.mem_append, not_or]
    refine ⟨⟨⟨by simp, cancel_not_mem_repeat _ hw _⟩, by simp⟩, cancel_not_mem_repeat _ hl _⟩
  | holdRemove => simp [opActs]
  | flushRemove => exact cancel_not_mem_settle false x.s.n
  | drain => exact absurd rfl h
  | idle =>
    simp only [opActs, List.mem_cons, not_or]
    exact ⟨by simp, cancel_not_mem_repeat _ hw _⟩
  | tickHold =>
    simp only [opActs, tickPrefix, List.mem_append, not_or]
    exact ⟨⟨⟨by simp, cancel_not_mem_repeat _ hw _⟩, by simp⟩, cancel_not_mem_loopUntilGate cfg _ _ _⟩
  | tickRelease =>
    simp only [opActs, List.mem_append, List.mem_cons, not_or]
    exact ⟨cancel_not_mem_repeat _ hl _, by simp, cancel_not_mem_repeat _ hw _⟩
  | advance ms => simp [opActs]
  | nudge ms => simp [opActs]
  | tickAfter ms =>
    simp only [opActs, List.mem_append, not_or]
    refine ⟨⟨⟨by simp, cancel_not_mem_repeat _ hw _⟩, by simp⟩, cancel_not_mem_repeat _ hl _⟩
  | arriveTick p =>
    have hs' := cancel_not_mem_settle x.hold (x.s.n + 1)
    have hl' : Act.cancel ∉ (Act.loopStep 0 :: settleActs x.hold (x.s.n + 1)) := by
      intro e; rcases List.mem_cons.1 e with e | e
      · cases e
      · exact hs' e
    simp only [opActs, List.mem_append, not_or]
    exact ⟨⟨⟨by simp, cancel_not_mem_repeat _ hw _⟩, by simp⟩, cancel_not_mem_repeat _ hl' _⟩

theorem schedule_noCancel (cfg : Cfg) (ops : List Op) (x : Sim) (h : Op.drain ∉ ops) :
    noCancel (schedule cfg x ops) := by
  induction ops generalizing x with
  | nil => simp [schedule, noCancel]
  | cons op rest ih =>
    unfold schedule noCancel
    intro hm
    rcases List.mem_append.1 hm with e | e
    · exact opActs_noCancel cfg x op (fun e' => h (by simp [e'])) e
    · exact ih (applyOp cfg x op) (fun e' => h (by simp [e'])) e

end LunarVerif.C06
