import LunarVerif.Proofs.C04
import LunarVerif.Spec.C04Ref
/-!
Flow references: the direction built by `buildDirRef` is the graph of the flattened connection list
(`accOf`), so everything proved for reference-free flows applies to the synthetic representation `synthRep`;
when the flattened lists are the spliced lists (`refDiverges = false`) the reference interpreter on the
spliced configuration is refined.
-/
namespace LunarVerif.C04
open LunarVerif.FlowGraph LunarVerif.FlowExec

theorem lastEntry_eq (cs : List Conn) : lastEntry cs = entry cs := rfl

/-- the flattened connection list of a direction (`[]` if flattening fails) -/
def accOf (pts : List PType) (reps : List RFlowRep) (fuel : Nat) (rep : RFlowRep) (d : Dir) : List Conn :=
  match flattenDir pts reps fuel rep d with
  | .ok s => s.acc
  | .error _ => []

/-- the reference-free representation a flow with references is equivalent to -/
def synthRep (pts : List PType) (reps : List RFlowRep) (fuel : Nat) (rep : RFlowRep) : FlowRep :=
  ⟨rep.name, rep.procs, accOf pts reps fuel rep .req, accOf pts reps fuel rep .res⟩

theorem buildDirRef_inv {pts : List PType} {reps : List RFlowRep} {fuel : Nat} {rep : RFlowRep} {d : Dir}
    {g : DirGraph} {ow : List (String × String)} (h : buildDirRef pts reps fuel rep d = .ok (g, ow)) :
    Inv g (accOf pts reps fuel rep d) := by
  unfold buildDirRef at h
  unfold accOf
  cases hf : flattenDir pts reps fuel rep d with
  | error e => simp [hf] at h
  | ok s =>
    simp only [hf] at h ⊢
    cases hb : buildConnections [] s.procs d {} s.acc with
    | error e => simp [hb] at h
    | ok g' =>
      simp only [hb] at h
      split at h
      · simp at h
      · simp only [Except.ok.injEq, Prod.mk.injEq] at h
        rw [← h.1]
        exact build_inv hb

theorem built_of_buildFlowRef {pts : List PType} {reps : List RFlowRep} {fuel : Nat} {rep : RFlowRep} {fr : FlowR}
    (h : buildFlowRef pts reps fuel rep = .ok fr) : Built (synthRep pts reps fuel rep) fr.flow := by
  unfold buildFlowRef at h
  cases h1 : buildDirRef pts reps fuel rep .req with
  | error e => simp [h1] at h
  | ok p1 =>
    obtain ⟨rq, ro⟩ := p1
    cases h2 : buildDirRef pts reps fuel rep .res with
    | error e => simp [h1, h2] at h
    | ok p2 =>
      obtain ⟨rs, so⟩ := p2
      simp only [h1, h2] at h
      split at h
      · simp at h
      · split at h
        · simp at h
        · split at h
          · simp at h
          · simp only [Except.ok.injEq] at h
            subst h
            exact ⟨rfl, buildDirRef_inv h1, buildDirRef_inv h2⟩

/-! ### `buildAllR` declaration by declaration -/

theorem buildAllR_pairs {pts : List PType} {reps : List RFlowRep} {fuel : Nat} :
    ∀ (ds : List FlowDeclR) (fs : List (Kind × FlowR)), buildAllR pts reps fuel ds = .ok fs →
    ∃ pl : List (FlowDeclR × FlowR), pl.map (·.1) = ds ∧ fs = pl.map (fun p => (p.1.kind, p.2)) ∧
      ∀ p ∈ pl, buildFlowRef pts reps fuel p.1.rep = .ok p.2
  | [], fs, h => by
    simp only [buildAllR, Except.ok.injEq] at h
    subst h
    exact ⟨[], rfl, rfl, by simp⟩
  | d :: ds, fs, h => by
    unfold buildAllR at h
    cases h1 : buildFlowRef pts reps fuel d.rep with
    | error e => simp [h1] at h
    | ok f =>
      simp only [h1] at h
      cases h2 : buildAllR pts reps fuel ds with
      | error e => simp [h2] at h
      | ok fs' =>
        simp only [h2, Except.ok.injEq] at h
        subst h
        obtain ⟨pl, hp1, hp2, hp3⟩ := buildAllR_pairs ds fs' h2
        refine ⟨(d, f) :: pl, by simp [hp1], by simp [hp2], ?_⟩
        intro p hp
        rcases List.mem_cons.mp hp with rfl | hp'
        · exact h1
        · exact hp3 p hp'

/-! ### sorting by build order only permutes -/

theorem mem_insertByR (order : List String) (d x : FlowDeclR) : ∀ (l : List FlowDeclR),
    x ∈ insertByR order d l ↔ x = d ∨ x ∈ l
  | [] => by simp [insertByR]
  | y :: ys => by
    unfold insertByR
    split
    · simp
    · simp only [List.mem_cons, mem_insertByR order d x ys]
      constructor
      · rintro (h | h | h)
        · exact Or.inr (Or.inl h)
        · exact Or.inl h
        · exact Or.inr (Or.inr h)
      · rintro (h | h | h)
        · exact Or.inr (Or.inl h)
        · exact Or.inl h
        · exact Or.inr (Or.inr h)

theorem mem_sortByR (order : List String) (x : FlowDeclR) : ∀ (l : List FlowDeclR),
    x ∈ sortByR order l ↔ x ∈ l
  | [] => by simp [sortByR]
  | y :: ys => by
    simp only [sortByR, mem_insertByR, mem_sortByR order x ys, List.mem_cons]

/-! ### assembly for `loadR` -/

def pairsOfR (pts : List PType) (reps : List RFlowRep) (fuel : Nat) (kd : Kind) (pl : List (FlowDeclR × FlowR)) :
    Pairs :=
  (pl.filter (·.1.kind == kd)).map fun p => (synthRep pts reps fuel p.1.rep, p.2.flow)

theorem pairsOfR_ok {pts : List PType} {reps : List RFlowRep} {fuel : Nat} {pl : List (FlowDeclR × FlowR)}
    (h : ∀ p ∈ pl, buildFlowRef pts reps fuel p.1.rep = .ok p.2) (kd : Kind) :
    PairsOK (pairsOfR pts reps fuel kd pl) := by
  intro q hq
  simp only [pairsOfR, List.mem_map, List.mem_filter] at hq
  obtain ⟨p, ⟨hp, _⟩, rfl⟩ := hq
  exact built_of_buildFlowRef (h p hp)

theorem loadR_pairs {c : CfgR} {order : List String} {l : LoadedR} (hl : loadR c order = .ok l) :
    ∃ pl : List (FlowDeclR × FlowR),
      pl.map (·.1) = sortByR order (c.flows.filter yamlOkR) ++ (sysDecls sysConns c.quotas).map FlowDecl.toR ∧
      l.flows = pl.map (fun p => (p.1.kind, p.2)) ∧
      (∀ p ∈ pl, buildFlowRef (c.ptypes ++ sysPTypes) c.reps c.fuel p.1.rep = .ok p.2) ∧
      nodupNames (((sortByR order (c.flows.filter yamlOkR)).filter (·.kind == .user)).map (·.rep.name)) = true := by
  unfold loadR at hl
  simp only at hl
  split at hl
  · simp at hl
  · split at hl
    · simp at hl
    · rename_i hnd
      cases hb : buildAllR (c.ptypes ++ sysPTypes) c.reps c.fuel
          (sortByR order (c.flows.filter yamlOkR) ++ (sysDecls sysConns c.quotas).map FlowDecl.toR) with
      | error e => simp [hb] at hl
      | ok fs =>
        simp only [hb, Except.ok.injEq] at hl
        subst hl
        obtain ⟨pl, h1, h2, h3⟩ := buildAllR_pairs _ _ hb
        exact ⟨pl, h1, h2, h3, by simpa using hnd⟩

theorem selectedR_eq {pts : List PType} {reps : List RFlowRep} {fuel : Nat} {l : LoadedR}
    {pl : List (FlowDeclR × FlowR)} (h : l.flows = pl.map (fun p => (p.1.kind, p.2))) :
    l.toLoaded.selected =
      ⟨mflows (pairsOfR pts reps fuel .sysStart pl), mflows (pairsOfR pts reps fuel .user pl),
       mflows (pairsOfR pts reps fuel .sysEnd pl)⟩ := by
  have hfl : l.toLoaded.flows = pl.map (fun p => (p.1.kind, p.2.flow)) := by
    simp only [LoadedR.toLoaded, h, List.map_map]
    rfl
  have key : ∀ kd, ((l.toLoaded.flows.filter (·.1 == kd)).map (·.2)) = mflows (pairsOfR pts reps fuel kd pl) := by
    intro kd
    rw [hfl]
    clear h hfl
    induction pl with
    | nil => rfl
    | cons p pl ih =>
      simp only [mflows, pairsOfR, List.map_cons, List.filter_cons] at ih ⊢
      cases hk : p.1.kind == kd <;> simp [ih]
  unfold Loaded.selected
  rw [key, key, key]

/-- outside the class F04f every participating flow direction flattens to its spliced list -/
theorem convR_eq {c : CfgR} (hdiv : refDiverges c = false) {d : FlowDeclR} {fr : FlowR} (hd : d ∈ c.decls)
    (hb : buildFlowRef (c.ptypes ++ sysPTypes) c.reps c.fuel d.rep = .ok fr) :
    convR c.reps c.fuel d = sflowOf (synthRep (c.ptypes ++ sysPTypes) c.reps c.fuel d.rep) := by
  have hdir : ∀ dir, (spliceDir c.reps c.fuel d.rep dir).getD [] = accOf (c.ptypes ++ sysPTypes) c.reps c.fuel d.rep dir := by
    intro dir
    -- the direction was flattened successfully
    have hok : ∃ s, flattenDir (c.ptypes ++ sysPTypes) c.reps c.fuel d.rep dir = .ok s := by
      unfold buildFlowRef at hb
      cases h1 : buildDirRef (c.ptypes ++ sysPTypes) c.reps c.fuel d.rep .req with
      | error e => simp [h1] at hb
      | ok p1 =>
        cases h2 : buildDirRef (c.ptypes ++ sysPTypes) c.reps c.fuel d.rep .res with
        | error e => simp [h1, h2] at hb
        | ok p2 =>
          cases dir with
          | req =>
            unfold buildDirRef at h1
            cases hf : flattenDir (c.ptypes ++ sysPTypes) c.reps c.fuel d.rep .req with
            | error e => simp [hf] at h1
            | ok s => exact ⟨s, rfl⟩
          | res =>
            unfold buildDirRef at h2
            cases hf : flattenDir (c.ptypes ++ sysPTypes) c.reps c.fuel d.rep .res with
            | error e => simp [hf] at h2
            | ok s => exact ⟨s, rfl⟩
    obtain ⟨s, hs⟩ := hok
    unfold refDiverges at hdiv
    rw [List.any_eq_false] at hdiv
    have h1 := hdiv d hd
    simp only [Bool.not_eq_true] at h1
    rw [List.any_eq_false] at h1
    have h2 := h1 dir (by cases dir <;> simp)
    rw [hs] at h2
    simp only [Bool.not_eq_true, bne_eq_false_iff_eq] at h2
    unfold accOf
    rw [hs, ← h2]
    rfl
  unfold convR sflowOf synthRep
  simp only [hdir .req, hdir .res]

theorem filter_map_convR {c : CfgR} (hdiv : refDiverges c = false) (kd : Kind) :
    ∀ (pl : List (FlowDeclR × FlowR)),
      (∀ p ∈ pl, p.1 ∈ c.decls ∧ buildFlowRef (c.ptypes ++ sysPTypes) c.reps c.fuel p.1.rep = .ok p.2) →
      ((pl.map (·.1)).filter (·.kind == kd)).map (convR c.reps c.fuel) =
        sflows (pairsOfR (c.ptypes ++ sysPTypes) c.reps c.fuel kd pl)
  | [], _ => rfl
  | p :: pl, h => by
    have ih := filter_map_convR hdiv kd pl (fun q hq => h q (List.mem_cons_of_mem _ hq))
    have hp := h p (List.mem_cons_self ..)
    simp only [sflows, pairsOfR, List.map_cons, List.filter_cons] at ih ⊢
    cases hk : p.1.kind == kd
    · simpa using ih
    · simp only [if_true, List.map_cons, ih, convR_eq hdiv hp.1 hp.2]

theorem mem_decls_of_pl {c : CfgR} {order : List String} {pl : List (FlowDeclR × FlowR)}
    (h1 : pl.map (·.1) = sortByR order (c.flows.filter yamlOkR) ++ (sysDecls sysConns c.quotas).map FlowDecl.toR)
    {p : FlowDeclR × FlowR} (hp : p ∈ pl) : p.1 ∈ c.decls := by
  have : p.1 ∈ pl.map (·.1) := List.mem_map.mpr ⟨p, hp, rfl⟩
  rw [h1, List.mem_append] at this
  unfold CfgR.decls
  rw [List.mem_append]
  rcases this with h | h
  · exact Or.inl ((mem_sortByR order p.1 _).mp h)
  · exact Or.inr h

theorem specCfgR_eq {c : CfgR} {order : List String} {pl : List (FlowDeclR × FlowR)}
    (hdiv : refDiverges c = false)
    (h1 : pl.map (·.1) = sortByR order (c.flows.filter yamlOkR) ++ (sysDecls sysConns c.quotas).map FlowDecl.toR)
    (h3 : ∀ p ∈ pl, buildFlowRef (c.ptypes ++ sysPTypes) c.reps c.fuel p.1.rep = .ok p.2) :
    specCfgR c order =
      ⟨sflows (pairsOfR (c.ptypes ++ sysPTypes) c.reps c.fuel .sysStart pl),
       sflows (pairsOfR (c.ptypes ++ sysPTypes) c.reps c.fuel .user pl),
       sflows (pairsOfR (c.ptypes ++ sysPTypes) c.reps c.fuel .sysEnd pl)⟩ := by
  have hmem : ∀ p ∈ pl, p.1 ∈ c.decls ∧ buildFlowRef (c.ptypes ++ sysPTypes) c.reps c.fuel p.1.rep = .ok p.2 :=
    fun p hp => ⟨mem_decls_of_pl h1 hp, h3 p hp⟩
  unfold specCfgR
  simp only
  rw [← sysConns_eq, ← h1, filter_map_convR hdiv .sysStart pl hmem, filter_map_convR hdiv .user pl hmem,
    filter_map_convR hdiv .sysEnd pl hmem]

theorem sysDeclsR_no_user (qs : List Quota) :
    ((sysDecls sysConns qs).map FlowDecl.toR).filter (·.kind == .user) = [] := by
  have h := sysDecls_no_user sysConns qs
  generalize sysDecls sysConns qs = l at h
  induction l with
  | nil => rfl
  | cons d l ih =>
    simp only [List.filter_cons] at h
    cases hk : d.kind == .user
    · simp only [hk] at h
      simp only [List.map_cons, List.filter_cons, FlowDecl.toR, hk]
      exact ih h
    · simp [hk] at h

theorem user_names_injR {c : CfgR} {order : List String} {pl : List (FlowDeclR × FlowR)}
    {pts : List PType} {reps : List RFlowRep} {fuel : Nat}
    (h : pl.map (·.1) = sortByR order (c.flows.filter yamlOkR) ++ (sysDecls sysConns c.quotas).map FlowDecl.toR)
    (hnd : nodupNames (((sortByR order (c.flows.filter yamlOkR)).filter (·.kind == .user)).map (·.rep.name)) = true) :
    ∀ a ∈ pairsOfR pts reps fuel .user pl, ∀ b ∈ pairsOfR pts reps fuel .user pl, a.1.name = b.1.name → a = b := by
  have hn : (pairsOfR pts reps fuel .user pl).map (·.1.name) =
      ((sortByR order (c.flows.filter yamlOkR)).filter (·.kind == .user)).map (·.rep.name) := by
    have h1 : ((pl.map (·.1)).filter (·.kind == .user)).map (·.rep.name) =
        (pairsOfR pts reps fuel .user pl).map (·.1.name) := by
      clear h hnd
      induction pl with
      | nil => rfl
      | cons p pl ih =>
        simp only [pairsOfR, List.map_cons, List.filter_cons] at ih ⊢
        cases hk : p.1.kind == .user <;> simp [ih, synthRep]
    rw [← h1, h, List.filter_append, sysDeclsR_no_user, List.append_nil]
  intro a ha b hb hab
  exact nodupNames_inj (·.1.name) _ (by rw [hn]; exact hnd) a ha b hb hab

/-- **Transaction refinement with flow references** (all fuel values): outside the classes F04c (answering
    processor without response node) and F04f (a reference the engine builds differently from the splice) the
    engine model's transaction equals the reference interpreter's on the spliced configuration. -/
theorem txn_eq_ref (c : CfgR) (order : List String) (l : LoadedR) (o : Oracle) (d : Dir) (fuel : Nat)
    (hl : loadR c order = .ok l)
    (hdiv : refDiverges c = false)
    (hq : SysQuiet (specCfgR c order) o)
    (hf : finding (stxn (specCfgR c order) o fuel d) = none) :
    (transaction l.toLoaded.selected o fuel d).trace = (stxn (specCfgR c order) o fuel d).trace ∧
    (transaction l.toLoaded.selected o fuel d).err = (stxn (specCfgR c order) o fuel d).err := by
  obtain ⟨pl, h1, h2, h3, hnd⟩ := loadR_pairs hl
  have hsel := selectedR_eq (pts := c.ptypes ++ sysPTypes) (reps := c.reps) (fuel := c.fuel) h2
  have hspec := specCfgR_eq hdiv h1 h3
  rw [hspec] at hq hf ⊢
  rw [hsel]
  exact txn_eq_pairs _ _ _ o d fuel (pairsOfR_ok h3 .sysStart) (pairsOfR_ok h3 .user) (pairsOfR_ok h3 .sysEnd)
    (user_names_injR h1 hnd) hq hf

/-! ### the build order does not influence what is built -/

theorem loadR_flows_mem {c : CfgR} {order : List String} {l : LoadedR} (hl : loadR c order = .ok l)
    (k : Kind) (f : FlowR) :
    (k, f) ∈ l.flows ↔
      ∃ d ∈ c.decls, d.kind = k ∧ buildFlowRef (c.ptypes ++ sysPTypes) c.reps c.fuel d.rep = .ok f := by
  obtain ⟨pl, h1, h2, h3, _⟩ := loadR_pairs hl
  rw [h2]
  constructor
  · intro h
    obtain ⟨p, hp, hpe⟩ := List.mem_map.mp h
    simp only [Prod.mk.injEq] at hpe
    exact ⟨p.1, mem_decls_of_pl h1 hp, hpe.1, by rw [← hpe.2]; exact h3 p hp⟩
  · rintro ⟨d, hd, hk, hb⟩
    have hdm : d ∈ pl.map (·.1) := by
      rw [h1, List.mem_append]
      unfold CfgR.decls at hd
      rw [List.mem_append] at hd
      rcases hd with hd | hd
      · exact Or.inl ((mem_sortByR order d _).mpr hd)
      · exact Or.inr hd
    obtain ⟨p, hp, hpd⟩ := List.mem_map.mp hdm
    refine List.mem_map.mpr ⟨p, hp, ?_⟩
    have := h3 p hp
    rw [hpd, hb] at this
    simp only [Except.ok.injEq] at this
    simp [hpd, hk, this]

/-- **Order independence**: two build orders under which the configuration loads yield the same built flows
    (graphs, roots and node owners) — the order only decides the position of the flows in the filter tree. -/
theorem loadR_order_independent {c : CfgR} {o1 o2 : List String} {l1 l2 : LoadedR}
    (h1 : loadR c o1 = .ok l1) (h2 : loadR c o2 = .ok l2) (k : Kind) (f : FlowR) :
    (k, f) ∈ l1.flows ↔ (k, f) ∈ l2.flows := by
  rw [loadR_flows_mem h1, loadR_flows_mem h2]

end LunarVerif.C04
