import LunarVerif.Proofs.C05Txn
/-!
C05, part 2b: LOADING TERMINATES.  With the in-progress set of `incorporateFlow` (fix of F05b) the nesting of
incorporations is bounded by the number of flows (pigeonhole on the duplicate-free stack), every level
processes at most `maxConns` connections, so the fuel `buildFuel` the loader model gives to `buildX` is never
exhausted: the model's `crash` outcome is unreachable.
-/
namespace LunarVerif.C05
open LunarVerif.FlowGraph LunarVerif.FlowExec

def flowNames (fs : List XFlow) : List String := fs.map (·.name)

theorem findFlow_mem {fs : List XFlow} {tgt : String} {tf : XFlow} (h : findFlow fs tgt = some tf) :
    tf ∈ fs ∧ tf.name = tgt := by
  unfold findFlow at h
  have hm := List.mem_of_find?_eq_some h
  have hp : (tf.name == tgt) = true := List.find?_some (p := fun (x : XFlow) => x.name == tgt) h
  exact ⟨List.mem_reverse.mp hm, by simpa using hp⟩

theorem foldl_conns_ge (l : List XFlow) : ∀ (m : Nat),
    m ≤ l.foldl (fun m f => max m (max f.req.length f.res.length)) m := by
  induction l with
  | nil => intro m; exact Nat.le_refl _
  | cons x xs ih =>
    intro m
    simp only [List.foldl_cons]
    exact Nat.le_trans (Nat.le_max_left _ _) (ih _)

theorem foldl_conns_mem (l : List XFlow) : ∀ (m : Nat) (f : XFlow), f ∈ l →
    max f.req.length f.res.length ≤ l.foldl (fun m f => max m (max f.req.length f.res.length)) m := by
  induction l with
  | nil => intro m f h; simp at h
  | cons x xs ih =>
    intro m f h
    simp only [List.foldl_cons]
    rcases List.mem_cons.mp h with rfl | h'
    · exact Nat.le_trans (Nat.le_max_right _ _) (foldl_conns_ge xs _)
    · exact ih _ f h'

theorem conns_le_maxConns {fs : List XFlow} {tf : XFlow} (h : tf ∈ fs) (d : Dir) :
    (tf.conns d).length ≤ maxConns fs := by
  have := foldl_conns_mem fs 0 tf h
  unfold maxConns
  cases d with
  | req =>
    have h1 : tf.req.length ≤ max tf.req.length tf.res.length := Nat.le_max_left _ _
    simp only [XFlow.conns]; omega
  | res =>
    have h1 : tf.res.length ≤ max tf.req.length tf.res.length := Nat.le_max_right _ _
    simp only [XFlow.conns]; omega

/-- one connection never runs out of fuel if incorporation does not -/
theorem stepX_noFuel (pts : List PType) (fs : List XFlow) (home : String) (d : Dir)
    (inc : String → BS → Except XErr BS) (h : ∀ tgt s', inc tgt s' ≠ .error .fuel) (cur : String) (s : BS)
    (c : XConn) : stepX pts fs home d inc cur s c ≠ .error .fuel := by
  intro heq
  unfold stepX at heq
  simp only [] at heq
  repeat' (split at heq)
  all_goals first
    | (simp at heq; done)
    | (cases heq
       rename_i hinc
       exact h _ _ hinc)

theorem buildX_noFuel (pts : List PType) (fs : List XFlow) (home : String) (d : Dir) (M : Nat)
    (hM : ∀ tf ∈ fs, (tf.conns d).length ≤ M) :
    ∀ (fuel : Nat) (stack : List String) (cur : String) (s : BS) (cs : List XConn),
      stack.Nodup → stack ⊆ flowNames fs → cs.length + (fs.length - stack.length) * M ≤ fuel →
      buildX pts fs home d fuel stack cur s cs ≠ .error .fuel
  | fuel, stack, cur, s, [], _, _, _ => by
    cases fuel <;> simp [buildX]
  | 0, stack, cur, s, c :: cs, _, _, hb => by
    simp only [List.length_cons] at hb
    omega
  | fuel + 1, stack, cur, s, c :: cs, hnd, hsub, hb => by
    simp only [List.length_cons] at hb
    have hinc : ∀ tgt s', (match findFlow fs tgt with
        | none => Except.error XErr.flowRef
        | some tf =>
          if (stack.contains tgt || tgt == home) = true then Except.error XErr.refCycle
          else buildX pts fs home d fuel (tgt :: stack) tgt s' (tf.conns d)) ≠ .error .fuel := by
      intro tgt s'
      cases hf : findFlow fs tgt with
      | none => simp
      | some tf =>
        simp only []
        by_cases hc : (stack.contains tgt || tgt == home) = true
        · simp only [hc, if_true]
          simp
        · simp only [hc, Bool.false_eq_true, if_false]
          obtain ⟨hmem, hname⟩ := findFlow_mem hf
          have hnot : tgt ∉ stack := by
            intro hin
            apply hc
            simp [hin]
          have hnd' : (tgt :: stack).Nodup := List.nodup_cons.mpr ⟨hnot, hnd⟩
          have hsub' : (tgt :: stack) ⊆ flowNames fs := by
            intro a ha
            rcases List.mem_cons.mp ha with rfl | ha'
            · unfold flowNames
              rw [List.mem_map]
              exact ⟨tf, hmem, hname⟩
            · exact hsub ha'
          have hlen := List.Nodup.length_le_of_subset hnd' hsub'
          simp only [List.length_cons, flowNames, List.length_map] at hlen
          have hmul : (fs.length - stack.length) * M = (fs.length - (stack.length + 1)) * M + M := by
            have : fs.length - stack.length = (fs.length - (stack.length + 1)) + 1 := by omega
            rw [this, Nat.add_mul, Nat.one_mul]
          have hconn := hM tf hmem
          exact buildX_noFuel pts fs home d M hM fuel (tgt :: stack) tgt s' (tf.conns d) hnd' hsub' (by
            simp only [List.length_cons]
            omega)
    unfold buildX
    simp only []
    split
    · rename_i e he
      intro hc
      simp only [Except.error.injEq] at hc
      subst hc
      exact stepX_noFuel pts fs home d _ hinc cur s c he
    · exact buildX_noFuel pts fs home d M hM fuel stack cur _ cs hnd hsub (by omega)

theorem buildX_top_noFuel (pts : List PType) (fs : List XFlow) (x : XFlow) (hx : x ∈ fs) (d : Dir) (s : BS) :
    buildX pts fs x.name d (buildFuel fs) [] x.name s (x.conns d) ≠ .error .fuel := by
  apply buildX_noFuel pts fs x.name d (maxConns fs) (fun tf htf => conns_le_maxConns htf d)
  · exact List.nodup_nil
  · intro a ha; simp at ha
  · have := conns_le_maxConns hx d
    unfold buildFuel
    simp only [List.length_nil, Nat.sub_zero]
    rw [Nat.add_mul, Nat.one_mul]
    omega

theorem buildFlowX_noFuel (pts : List PType) (fs : List XFlow) (x : XFlow) (hx : x ∈ fs) (fo : Option String) :
    buildFlowX pts fs x fo ≠ .error .fuel := by
  intro h
  unfold buildFlowX at h
  split at h
  · rename_i e he
    simp only [Except.error.injEq] at h
    subst h
    exact buildX_top_noFuel pts fs x hx .req _ he
  · split at h
    · rename_i e he
      simp only [Except.error.injEq] at h
      subst h
      exact buildX_top_noFuel pts fs x hx .res _ he
    · repeat' (split at h)
      all_goals simp at h

theorem buildOne_noFuel (pts : List PType) (fs : List XFlow) (x : XFlow) (hx : x ∈ fs) (fo : Option String) :
    buildOne pts fs x fo ≠ .error .fuel := by
  unfold buildOne
  split
  · split <;> simp
  · exact buildFlowX_noFuel pts fs x hx fo

theorem buildAll_noFuel (pts : List PType) (fs : List XFlow) : ∀ (xs : List XFlow) (fo : Option String),
    (∀ x ∈ xs, x ∈ fs) → buildAll pts fs xs fo ≠ .error .fuel
  | [], _, _ => by simp [buildAll]
  | x :: xs, fo, h => by
    unfold buildAll
    split
    · rename_i e he
      intro hc
      simp only [Except.error.injEq] at hc
      subst hc
      exact buildOne_noFuel pts fs x (h x List.mem_cons_self) fo he
    · rename_i fl fo' _
      split
      · rename_i e he
        intro hc
        simp only [Except.error.injEq] at hc
        subst hc
        exact buildAll_noFuel pts fs xs fo' (fun y hy => h y (List.mem_cons_of_mem _ hy)) he
      · simp

/-- **the loader never crashes** -/
theorem load_no_crash (c : Cfg) : load c ≠ .crash := by
  intro h
  unfold load at h
  repeat' (split at h)
  all_goals first
    | (rename_i hb
       exact buildAll_noFuel c.ptypes c.flows c.flows none (fun _ hx => hx) hb)
    | (simp at h)

end LunarVerif.C05
