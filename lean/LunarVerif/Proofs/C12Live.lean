import LunarVerif.Proofs.C12
/-! C12: the converse direction for the raw cache — an entry whose key has no stale sleeper pending stays
readable until its own expiry (early deletion can ONLY come from a stale sleeper of the same key, a `Del`
or an overwrite). -/
set_option linter.unusedSectionVars false
set_option linter.unusedSimpArgs false
namespace LunarVerif.C12

section
variable {κ ν : Type} [DecidableEq κ]

def touchesKey (k : κ) : Ev κ ν → Bool
  | .set k' _ _ _ => decide (k' = k)
  | .del k' => decide (k' = k)
  | _ => false

/-- The entry (k ↦ v, expiry e) is stored and every pending sleeper of `k` is its own; or `e` has passed. -/
def Live (k : κ) (v : ν) (e : Int) (sz : Nat) (due : Int) (c : Cache κ ν) : Prop :=
  (find? k c.entries = some ⟨v, e, sz⟩ ∧ ∀ s, s ∈ c.pending → s.key = k → s.due = due) ∨ due ≤ c.mono

theorem mem_insertSleeper {s x : Sleeper κ} {l : List (Sleeper κ)} (h : x ∈ insertSleeper s l) :
    x = s ∨ x ∈ l := by
  induction l with
  | nil => simp [insertSleeper] at h; exact Or.inl h
  | cons p rest ih =>
    simp only [insertSleeper] at h
    by_cases hp : p.due ≤ s.due
    · simp only [hp, if_true, List.mem_cons] at h
      rcases h with h | h
      · exact Or.inr (by simp [h])
      · rcases ih h with h | h
        · exact Or.inl h
        · exact Or.inr (List.mem_cons_of_mem _ h)
    · simp only [hp, if_false, List.mem_cons] at h
      rcases h with h | h | h
      · exact Or.inl h
      · exact Or.inr (by simp [h])
      · exact Or.inr (List.mem_cons_of_mem _ h)

theorem takeWhile_mem_imp {α : Type} {p : α → Bool} {l : List α} {x : α} (h : x ∈ l.takeWhile p) : p x = true := by
  induction l with
  | nil => simp at h
  | cons a rest ih =>
    by_cases ha : p a = true
    · simp only [List.takeWhile_cons, ha, if_true, List.mem_cons] at h
      rcases h with h | h
      · rw [h]; exact ha
      · exact ih h
    · simp [List.takeWhile_cons, ha] at h

theorem find?_erase_ne {α : Type} {k k' : κ} (l : List (κ × α)) (h : k' ≠ k) :
    find? k' (erase k l) = find? k' l := by
  rw [find?_erase]; simp [h]

theorem find?_clearAll_other {c : Cache κ ν} {l : List (Sleeper κ)} {k : κ}
    (h : ∀ s, s ∈ l → s.key ≠ k) : find? k (clearAll c l).entries = find? k c.entries := by
  induction l generalizing c with
  | nil => rfl
  | cons s rest ih =>
    have h1 : k ≠ s.key := fun x => h s List.mem_cons_self x.symm
    rw [clearAll, ih (c := clearKey c s.key) (fun x hx => h x (List.mem_cons_of_mem _ hx))]
    simp only [clearKey_entries]
    exact find?_erase_ne _ h1

theorem clearAll_pending (c : Cache κ ν) (l : List (Sleeper κ)) : (clearAll c l).pending = c.pending := by
  induction l generalizing c with
  | nil => rfl
  | cons s rest ih => rw [clearAll, ih]; rfl

theorem step_mono_mono (c : Cache κ ν) (ev : Ev κ ν) : c.mono ≤ (step c ev).1.mono := by
  cases ev with
  | set k v ttl sz =>
    simp only [step]
    rcases set_cases c k v ttl sz with ⟨_, h1⟩ | ⟨hroom, _⟩
    · rw [h1]; exact Int.le_refl _
    · by_cases httl : ttl > 0
      · rw [set_eq_pos k v ttl sz hroom httl]; exact Int.le_refl _
      · rw [set_eq_nonpos k v ttl sz hroom httl]; exact Int.le_refl _
  | fire i =>
    simp only [step]
    rcases fire_cases c i with h1 | h1 | ⟨s, _, _, h1⟩ <;> rw [h1] <;> exact Int.le_refl _
  | adv d => simp only [step, adv]; omega
  | skip d => simp only [step, skip]; omega
  | wstep d => exact Int.le_refl _
  | get k => exact Int.le_refl _
  | has k => exact Int.le_refl _
  | del k => exact Int.le_refl _
  | probe => exact Int.le_refl _

theorem live_step {k : κ} {v : ν} {e : Int} {sz : Nat} {due : Int} {c : Cache κ ν} (ev : Ev κ ν)
    (hl : Live k v e sz due c) (hev : touchesKey k ev = false) : Live k v e sz due (step c ev).1 := by
  by_cases hpast : due ≤ c.mono
  · right; have := step_mono_mono c ev; omega
  have ⟨hf, hp⟩ : find? k c.entries = some ⟨v, e, sz⟩ ∧ ∀ s, s ∈ c.pending → s.key = k → s.due = due := by
    rcases hl with h | h
    · exact h
    · exact absurd h hpast
  cases ev with
  | set k' v' ttl' sz' =>
    have hk : k ≠ k' := by
      intro x; simp [touchesKey, x] at hev
    simp only [step]
    by_cases hfull : c.sizeOn = true ∧ c.tracked + (sz' : Nat) > c.max
    · rw [set_eq_full k' v' ttl' sz' hfull]; exact Or.inl ⟨hf, hp⟩
    · by_cases httl : ttl' > 0
      · rw [set_eq_pos k' v' ttl' sz' hfull httl]
        left
        refine ⟨?_, ?_⟩
        · have hk2 : ¬ k' = k := fun x => hk x.symm
          simp only [find?, hk2, if_false]
          rw [find?_erase_ne _ hk]; exact hf
        · intro s hs hsk
          rcases mem_insertSleeper hs with h1 | h1
          · rw [h1] at hsk; exact absurd hsk.symm hk
          · exact hp s h1 hsk
      · rw [set_eq_nonpos k' v' ttl' sz' hfull httl]
        left
        refine ⟨?_, hp⟩
        show find? k (erase k' c.entries) = _
        rw [find?_erase_ne _ hk]; exact hf
  | del k' =>
    have hk : k ≠ k' := by
      intro x; simp [touchesKey, x] at hev
    left
    refine ⟨?_, hp⟩
    show find? k (erase k' c.entries) = _
    rw [find?_erase_ne _ hk]; exact hf
  | get k' => exact Or.inl ⟨hf, hp⟩
  | has k' => exact Or.inl ⟨hf, hp⟩
  | probe => exact Or.inl ⟨hf, hp⟩
  | skip d => exact Or.inl ⟨hf, hp⟩
  | wstep d => exact Or.inl ⟨hf, hp⟩
  | fire i =>
    simp only [step]
    rcases fire_cases c i with h1 | h1 | ⟨s, hs, hd, h1⟩
    · rw [h1]; exact Or.inl ⟨hf, hp⟩
    · rw [h1]; exact Or.inl ⟨hf, hp⟩
    · rw [h1]
      have hmem : s ∈ c.pending := List.mem_of_getElem? hs
      by_cases hsk : s.key = k
      · right
        have := hp s hmem hsk
        show due ≤ c.mono
        omega
      · left
        refine ⟨?_, ?_⟩
        · show find? k (erase s.key c.entries) = _
          rw [find?_erase_ne _ (fun x => hsk x.symm)]; exact hf
        · intro x hx hxk
          exact hp x ((List.eraseIdx_sublist c.pending i).subset hx) hxk
  | adv d =>
    simp only [step]
    by_cases hany : ∃ s, s ∈ c.pending.filter (fun s => decide (s.due ≤ c.mono + (d : Nat))) ∧ s.key = k
    · obtain ⟨s, hs, hsk⟩ := hany
      right
      have hmem := (List.mem_filter.mp hs).1
      have hdue := (List.mem_filter.mp hs).2
      have := hp s hmem hsk
      simp only [decide_eq_true_eq] at hdue
      show due ≤ c.mono + (d : Nat)
      omega
    · left
      refine ⟨?_, ?_⟩
      · show find? k (clearAll c _).entries = _
        rw [find?_clearAll_other (fun s hs hsk => hany ⟨s, hs, hsk⟩)]; exact hf
      · intro x hx hxk
        exact hp x (List.mem_filter.mp hx).1 hxk

theorem live_final {k : κ} {v : ν} {e : Int} {sz : Nat} {due : Int} (evs : List (Ev κ ν)) (c : Cache κ ν)
    (hl : Live k v e sz due c) (hev : ∀ ev, ev ∈ evs → touchesKey k ev = false) :
    Live k v e sz due (final c evs) := by
  induction evs generalizing c with
  | nil => exact hl
  | cons ev evs ih =>
    exact ih _ (live_step ev hl (hev ev List.mem_cons_self)) (fun x hx => hev x (List.mem_cons_of_mem _ hx))

end

end LunarVerif.C12
