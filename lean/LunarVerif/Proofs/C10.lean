import LunarVerif.Spec.C10
/-!
Helper lemmas for C10: request-list updates, the minimum of the heap, the roll-over loop
(`rollLoop`), and the invariants that tie the model's hidden state (heap, counter, window index)
to the observer of `Spec/C10.lean`.
-/
namespace LunarVerif.C10

/-! ### request list -/

theorem getReq_lt {reqs : List Req} {r : Nat} (h : r < reqs.length) : getReq reqs r = reqs[r] := by
  simp [getReq, List.getD_eq_getElem?_getD, List.getElem?_eq_getElem h]

theorem getReq_ge {reqs : List Req} {r : Nat} (h : reqs.length ≤ r) : getReq reqs r = dummy := by
  simp [getReq, List.getD_eq_getElem?_getD, List.getElem?_eq_none h]

theorem phaseOf_ge {reqs : List Req} {r : Nat} (h : reqs.length ≤ r) : phaseOf reqs r = .passed := by
  simp [phaseOf, getReq_ge h, dummy]

theorem lt_of_live {reqs : List Req} {r : Nat} (h : (phaseOf reqs r).live = true) : r < reqs.length := by
  by_cases hr : r < reqs.length
  · exact hr
  · rw [phaseOf_ge (Nat.le_of_not_lt hr)] at h; simp [Phase.live] at h

theorem lt_of_waiting {reqs : List Req} {r : Nat} (h : (phaseOf reqs r).waiting = true) : r < reqs.length := by
  by_cases hr : r < reqs.length
  · exact hr
  · rw [phaseOf_ge (Nat.le_of_not_lt hr)] at h; simp [Phase.waiting] at h

theorem length_setPhase (reqs : List Req) (r : Nat) (ph : Phase) :
    (setPhase reqs r ph).length = reqs.length := by
  simp [setPhase]

theorem getReq_setPhase (reqs : List Req) (r x : Nat) (ph : Phase) :
    getReq (setPhase reqs r ph) x =
      if r = x ∧ r < reqs.length then { getReq reqs r with ph := ph } else getReq reqs x := by
  unfold getReq setPhase
  rw [List.getD_eq_getElem?_getD, List.getElem?_set]
  by_cases h : r = x
  · subst h
    by_cases h2 : r < reqs.length
    · simp [h2, getReq_lt h2]
    · simp [h2, List.getD_eq_getElem?_getD]
  · simp [h, List.getD_eq_getElem?_getD]

theorem phaseOf_setPhase_self {reqs : List Req} {r : Nat} (ph : Phase) (h : r < reqs.length) :
    phaseOf (setPhase reqs r ph) r = ph := by
  simp [phaseOf, getReq_setPhase, h]

theorem phaseOf_setPhase_ne {reqs : List Req} {r x : Nat} (ph : Phase) (h : r ≠ x) :
    phaseOf (setPhase reqs r ph) x = phaseOf reqs x := by
  simp [phaseOf, getReq_setPhase, h]

theorem prio_setPhase (reqs : List Req) (r x : Nat) (ph : Phase) :
    (getReq (setPhase reqs r ph) x).prio = (getReq reqs x).prio := by
  rw [getReq_setPhase]; split
  · next h => rw [← h.1]
  · rfl

theorem ts_setPhase (reqs : List Req) (r x : Nat) (ph : Phase) :
    (getReq (setPhase reqs r ph) x).ts = (getReq reqs x).ts := by
  rw [getReq_setPhase]; split
  · next h => rw [← h.1]
  · rfl

theorem ttl_setPhase (reqs : List Req) (r x : Nat) (ph : Phase) :
    (getReq (setPhase reqs r ph) x).ttl = (getReq reqs x).ttl := by
  rw [getReq_setPhase]; split
  · next h => rw [← h.1]
  · rfl

theorem keyLt_setPhase (reqs : List Req) (r : Nat) (ph : Phase) (a b : Nat) :
    keyLt (getReq (setPhase reqs r ph) a) (getReq (setPhase reqs r ph) b)
      = keyLt (getReq reqs a) (getReq reqs b) := by
  simp only [keyLt, prio_setPhase, ts_setPhase]

theorem getReq_append_lt {reqs : List Req} {q : Req} {x : Nat} (h : x < reqs.length) :
    getReq (reqs ++ [q]) x = getReq reqs x := by
  simp [getReq, List.getD_eq_getElem?_getD, List.getElem?_append, h]

theorem getReq_append_len (reqs : List Req) (q : Req) : getReq (reqs ++ [q]) reqs.length = q := by
  simp [getReq, List.getD_eq_getElem?_getD]

theorem phaseOf_append (reqs : List Req) (q : Req) (x : Nat) :
    phaseOf (reqs ++ [q]) x = if x < reqs.length then phaseOf reqs x
                              else if x = reqs.length then q.ph else .passed := by
  by_cases h : x < reqs.length
  · simp [phaseOf, getReq_append_lt h, h]
  · by_cases h2 : x = reqs.length
    · subst h2; simp [phaseOf, getReq_append_len]
    · have : (reqs ++ [q]).length ≤ x := by simp; omega
      simp [h, h2, phaseOf_ge this]

theorem waitingCount_append (reqs : List Req) (q : Req) :
    waitingCount (reqs ++ [q]) = waitingCount reqs + (if q.ph.waiting then 1 else 0) := by
  simp [waitingCount, List.countP_append, List.countP_cons]

theorem waitingCount_setPhase (reqs : List Req) (r : Nat) (ph : Phase) (h : r < reqs.length) :
    waitingCount (setPhase reqs r ph) =
      waitingCount reqs - (if (phaseOf reqs r).waiting then 1 else 0) + (if ph.waiting then 1 else 0) := by
  unfold waitingCount setPhase
  rw [List.countP_set h]
  simp [phaseOf, getReq_lt h]

theorem waitingCount_setPhase_same (reqs : List Req) (r : Nat) (ph : Phase)
    (h : (phaseOf reqs r).waiting = true) (h2 : ph.waiting = true) :
    waitingCount (setPhase reqs r ph) = waitingCount reqs := by
  have hr := lt_of_waiting h
  rw [waitingCount_setPhase _ _ _ hr, h, h2]
  have : 0 < waitingCount reqs := by
    unfold waitingCount
    apply List.countP_pos_iff.mpr
    exact ⟨reqs[r], List.getElem_mem hr, by simpa [phaseOf, getReq_lt hr] using h⟩
  simp; omega

theorem waitingCount_setPhase_le (reqs : List Req) (r : Nat) (ph : Phase)
    (h : (phaseOf reqs r).waiting = true) :
    waitingCount (setPhase reqs r ph) ≤ waitingCount reqs := by
  have hr := lt_of_waiting h
  rw [waitingCount_setPhase _ _ _ hr, h]
  have : 0 < waitingCount reqs := by
    unfold waitingCount
    apply List.countP_pos_iff.mpr
    exact ⟨reqs[r], List.getElem_mem hr, by simpa [phaseOf, getReq_lt hr] using h⟩
  cases ph.waiting <;> simp <;> omega

/-! ### keys -/

theorem keyLt_iff (a b : Req) :
    keyLt a b = true ↔ a.prio < b.prio ∨ (a.prio = b.prio ∧ a.ts < b.ts) := by
  unfold keyLt
  split
  · next h => simp [h]
  · next h => simp; omega

theorem keyLt_irrefl (a : Req) : keyLt a a = false := by
  have := keyLt_iff a a
  cases h : keyLt a a
  · rfl
  · rw [h] at this; simp at this

/-- `keyLt` is a strict weak order: if `x < best` and `¬ y < best` then `¬ y < x`. -/
theorem not_keyLt_of_lt {x best y : Req} (h1 : keyLt x best = true) (h2 : keyLt y best = false) :
    keyLt y x = false := by
  rw [keyLt_iff] at h1
  have h2' : ¬ (keyLt y best = true) := by simp [h2]
  rw [keyLt_iff] at h2'
  have : ¬ (keyLt y x = true) := by rw [keyLt_iff]; omega
  simpa using this

/-! ### minimum of the heap -/

theorem minOf_mem (reqs : List Req) (best : Nat) (xs : List Nat) : minOf reqs best xs ∈ best :: xs := by
  induction xs generalizing best with
  | nil => simp [minOf]
  | cons x xs ih =>
    simp only [minOf]
    split
    · have := ih x; simp only [List.mem_cons] at this ⊢; rcases this with h | h <;> simp [h]
    · have := ih best; simp only [List.mem_cons] at this ⊢; rcases this with h | h <;> simp [h]

/-- Nothing in `best :: xs` is strictly smaller than the selected minimum, provided nothing seen
    earlier (`ys`) is smaller than `best`. -/
theorem minOf_min (reqs : List Req) (best : Nat) (xs : List Nat) :
    ∀ y, y ∈ best :: xs → keyLt (getReq reqs y) (getReq reqs (minOf reqs best xs)) = false := by
  suffices H : ∀ (seen : List Nat) (best : Nat),
      (∀ y ∈ seen, keyLt (getReq reqs y) (getReq reqs best) = false) →
      ∀ y, y ∈ seen ++ xs → keyLt (getReq reqs y) (getReq reqs (minOf reqs best xs)) = false by
    intro y hy
    apply H [best] best
    · intro y hy; simp at hy; subst hy; exact keyLt_irrefl _
    · simpa using hy
  induction xs with
  | nil => intro seen best hs y hy; simp at hy; simpa [minOf] using hs y hy
  | cons x xs ih =>
    intro seen best hs y hy
    simp only [minOf]
    split
    · next hlt =>
      apply ih (seen ++ [x]) x
      · intro z hz
        simp only [List.mem_append, List.mem_singleton] at hz
        rcases hz with hz | hz
        · exact not_keyLt_of_lt hlt (hs z hz)
        · subst hz; exact keyLt_irrefl _
      · simpa using hy
    · next hlt =>
      apply ih (seen ++ [x]) best
      · intro z hz
        simp only [List.mem_append, List.mem_singleton] at hz
        rcases hz with hz | hz
        · exact hs z hz
        · subst hz; simpa using hlt
      · simpa using hy

theorem popMin_spec {reqs : List Req} {heap heap' : List Nat} {m : Nat}
    (h : popMin reqs heap = some (m, heap')) :
    m ∈ heap ∧ heap' = heap.erase m ∧
      ∀ y ∈ heap, keyLt (getReq reqs y) (getReq reqs m) = false := by
  cases heap with
  | nil => simp [popMin] at h
  | cons x xs =>
    simp only [popMin, Option.some.injEq, Prod.mk.injEq] at h
    obtain ⟨h1, h2⟩ := h
    subst h1
    exact ⟨minOf_mem reqs x xs, h2.symm, minOf_min reqs x xs⟩

theorem popMin_none {reqs : List Req} {heap : List Nat} (h : popMin reqs heap = none) : heap = [] := by
  cases heap with
  | nil => rfl
  | cons x xs => simp [popMin] at h

/-! ### the roll-over loop -/

theorem lt_of_parked {reqs : List Req} {r : Nat} (h : (phaseOf reqs r).isParked = true) : r < reqs.length := by
  apply lt_of_live
  cases hp : phaseOf reqs r <;> simp [hp, Phase.isParked, Phase.live] at h ⊢

theorem waiting_of_parked {ph : Phase} (h : ph.isParked = true) : ph.waiting = true := by
  cases ph <;> simp [Phase.isParked, Phase.waiting] at h ⊢

/-- Everything the proofs need about one execution of `processQueueItems` from loop state `x`
    with fuel `n`, ending in `l`, having handed off `new` (in pop order). -/
structure LoopFacts (cfg : Cfg) (n : Nat) (x l : Loop) (new : List Nat) : Prop where
  rel : l.rel = x.rel ++ new
  reqs : l.reqs = setAll x.reqs .wokeDone new
  counter : l.counter = x.counter + new.length
  parked : ∀ a ∈ new, (phaseOf x.reqs a).isParked = true
  nodup : new.Nodup
  heapSub : ∀ b ∈ l.heap, b ∈ x.heap
  relSub : ∀ a ∈ new, a ∈ x.heap
  keep : ∀ b ∈ x.heap, (phaseOf x.reqs b).isParked = true → b ∉ new → b ∈ l.heap
  order : ∀ a ∈ new, ∀ b ∈ l.heap, keyLt (getReq x.reqs b) (getReq x.reqs a) = false
  phase : ∀ b, phaseOf l.reqs b = if b ∈ new then .wokeDone else phaseOf x.reqs b
  wcount : waitingCount l.reqs = waitingCount x.reqs
  stop : x.heap.length ≤ n → cfg.quota ≤ l.counter ∨ l.heap = []
  le : x.counter ≤ cfg.quota → l.counter ≤ cfg.quota

theorem loopFacts_refl (cfg : Cfg) (n : Nat) (x : Loop)
    (hstop : x.heap.length ≤ n → cfg.quota ≤ x.counter ∨ x.heap = []) : LoopFacts cfg n x x [] where
  rel := by simp
  reqs := by simp [setAll]
  counter := by simp
  parked := by simp
  nodup := by simp
  heapSub := fun _ h => h
  relSub := by simp
  keep := fun _ h _ _ => h
  order := by simp
  phase := by simp
  wcount := rfl
  stop := hstop
  le := fun h => h

theorem rollLoop_facts (cfg : Cfg) (n : Nat) (x : Loop) :
    ∃ new, LoopFacts cfg n x (rollLoop cfg n x) new := by
  induction n generalizing x with
  | zero =>
    refine ⟨[], ?_⟩
    rw [rollLoop]
    exact loopFacts_refl cfg 0 x (fun h => Or.inr (List.length_eq_zero_iff.mp (Nat.le_zero.mp h)))
  | succ n ih =>
    rw [rollLoop]
    split
    · next hlt =>
      split
      · next hpop =>
        exact ⟨[], loopFacts_refl cfg _ x (fun _ => Or.inr (popMin_none hpop))⟩
      · next r heap' hpop =>
        obtain ⟨hmem, hheap, hmin⟩ := popMin_spec hpop
        have hlen : heap'.length = x.heap.length - 1 := by
          rw [hheap, List.length_erase_of_mem hmem]
        split
        · next hpark =>
          have hr := lt_of_parked hpark
          obtain ⟨new', f⟩ := ih { heap := heap', reqs := setPhase x.reqs r .wokeDone,
                                   counter := x.counter + 1, rel := x.rel ++ [r] }
          refine ⟨r :: new', ?_⟩
          have hrnot : r ∉ new' := by
            intro hin
            have := f.parked r hin
            simp only [phaseOf_setPhase_self _ hr, Phase.isParked] at this
            exact absurd this (by simp)
          constructor
          · rw [f.rel]; simp
          · rw [f.reqs]; simp [setAll]
          · rw [f.counter]; simp; omega
          · intro a ha
            simp only [List.mem_cons] at ha
            rcases ha with ha | ha
            · subst ha; exact hpark
            · by_cases har : r = a
              · subst har; exact hpark
              · have := f.parked a ha
                simpa only [phaseOf_setPhase_ne _ har] using this
          · exact List.nodup_cons.mpr ⟨hrnot, f.nodup⟩
          · intro b hb
            have := f.heapSub b hb
            simp only at this
            rw [hheap] at this
            exact List.mem_of_mem_erase this
          · intro a ha
            simp only [List.mem_cons] at ha
            rcases ha with ha | ha
            · subst ha; exact hmem
            · have := f.relSub a ha
              simp only at this
              rw [hheap] at this
              exact List.mem_of_mem_erase this
          · intro b hb hbp hbn
            simp only [List.mem_cons, not_or] at hbn
            apply f.keep b
            · simp only; rw [hheap]; exact (List.mem_erase_of_ne hbn.1).mpr hb
            · simp only; rw [phaseOf_setPhase_ne _ (Ne.symm hbn.1)]; exact hbp
            · exact hbn.2
          · intro a ha b hb
            have hbx : b ∈ x.heap := by
              have := f.heapSub b hb
              simp only at this
              rw [hheap] at this
              exact List.mem_of_mem_erase this
            simp only [List.mem_cons] at ha
            rcases ha with ha | ha
            · subst ha; exact hmin b hbx
            · have := f.order a ha b hb
              simpa only [keyLt_setPhase] using this
          · intro b
            rw [f.phase b]
            simp only [List.mem_cons]
            by_cases hb : b ∈ new'
            · simp [hb]
            · by_cases hbr : b = r
              · subst hbr; simp [phaseOf_setPhase_self _ hr]
              · simp [hb, hbr, phaseOf_setPhase_ne _ (Ne.symm hbr)]
          · rw [f.wcount]
            exact waitingCount_setPhase_same _ _ _ (waiting_of_parked hpark) rfl
          · intro h
            apply f.stop
            simp only; omega
          · intro _
            apply f.le
            simp only; omega
        · next hpark =>
          obtain ⟨new', f⟩ := ih { x with heap := heap' }
          refine ⟨new', ?_⟩
          constructor
          · exact f.rel
          · exact f.reqs
          · exact f.counter
          · exact f.parked
          · exact f.nodup
          · intro b hb
            have := f.heapSub b hb
            simp only at this
            rw [hheap] at this
            exact List.mem_of_mem_erase this
          · intro a ha
            have := f.relSub a ha
            simp only at this
            rw [hheap] at this
            exact List.mem_of_mem_erase this
          · intro b hb hbp hbn
            have hbr : b ≠ r := by intro h; subst h; exact hpark hbp
            apply f.keep b
            · simp only; rw [hheap]; exact (List.mem_erase_of_ne hbr).mpr hb
            · exact hbp
            · exact hbn
          · exact f.order
          · exact f.phase
          · exact f.wcount
          · intro h
            apply f.stop
            simp only; omega
          · exact f.le
    · next hge =>
      exact ⟨[], loopFacts_refl cfg _ x (fun _ => Or.inl (Nat.le_of_not_lt hge))⟩

/-! ### grants per window -/

theorem grantsIn_cons (cfg : Cfg) (w t : Nat) (g : List Nat) :
    grantsIn cfg w (t :: g) = grantsIn cfg w g + (if t / cfg.win = w then 1 else 0) := by
  simp [grantsIn, List.countP_cons]

theorem grantsIn_zero_of_lt (cfg : Cfg) (w k : Nat) (g : List Nat)
    (h : ∀ t ∈ g, t / cfg.win ≤ k) (hk : k < w) : grantsIn cfg w g = 0 := by
  unfold grantsIn
  rw [List.countP_eq_zero]
  intro t ht
  have := h t ht
  simp; omega

theorem grantsIn_release (cfg : Cfg) (w now : Nat) (new : List Nat) (g : List Nat) :
    grantsIn cfg w (new.map (fun _ => now) ++ g)
      = (if now / cfg.win = w then new.length else 0) + grantsIn cfg w g := by
  unfold grantsIn
  rw [List.countP_append, List.map_const', List.countP_replicate]
  simp

/-! ### safety invariant: hidden state vs. observer -/

structure Inv (cfg : Cfg) (s : State) (o : Obs) : Prop where
  reqs : o.reqs = s.reqs
  now : o.now = s.now
  widx_le : s.widx ≤ s.now / cfg.win
  served_le : o.served ≤ s.widx
  grants_le : ∀ t ∈ o.grants, t / cfg.win ≤ s.widx
  counter : s.counter = grantsIn cfg s.widx o.grants
  quota : ∀ w, grantsIn cfg w o.grants ≤ cfg.quota
  size : waitingCount s.reqs ≤ cfg.size

theorem inv_init (cfg : Cfg) (t0 : Nat) : Inv cfg (init cfg t0) (Obs.init cfg t0) where
  reqs := rfl
  now := rfl
  widx_le := Nat.le_refl _
  served_le := Nat.le_refl _
  grants_le := by simp [Obs.init]
  counter := by simp [init, Obs.init, grantsIn]
  quota := by simp [Obs.init, grantsIn]
  size := by simp [init, waitingCount]

theorem windowUpdate_spec {cfg : Cfg} {s : State} {o : Obs} (inv : Inv cfg s o) :
    windowUpdate cfg s.now s.widx s.counter
      = (s.now / cfg.win, grantsIn cfg (s.now / cfg.win) o.grants) := by
  unfold windowUpdate
  split
  · next h => rw [grantsIn_zero_of_lt cfg _ _ _ inv.grants_le h]
  · next h =>
    have : s.widx = s.now / cfg.win := by have := inv.widx_le; omega
    rw [inv.counter, this]

theorem step_inv {cfg : Cfg} {s s' : State} {o : Obs} {l : Label} {e : Ev}
    (inv : Inv cfg s o) (h : step cfg s l = some (s', e)) :
    safeOk cfg o e = true ∧ Inv cfg s' (obsStep cfg o e) := by
  have hq := inv.quota (s.now / cfg.win)
  cases l with
  | tick d =>
    simp only [step, Option.some.injEq, Prod.mk.injEq] at h
    obtain ⟨rfl, rfl⟩ := h
    refine ⟨rfl, ?_⟩
    constructor
    · exact inv.reqs
    · simp [obsStep, inv.now]
    · exact Nat.le_trans inv.widx_le (Nat.div_le_div_right (Nat.le_add_right _ _))
    · exact inv.served_le
    · exact inv.grants_le
    · exact inv.counter
    · exact inv.quota
    · exact inv.size
  | enq prio ttl =>
    simp only [step, windowUpdate_spec inv] at h
    split at h
    · next hlt =>
      simp only [Option.some.injEq, Prod.mk.injEq] at h
      obtain ⟨rfl, rfl⟩ := h
      refine ⟨by simp [safeOk, inv.now, hlt], ?_⟩
      constructor
      · simp [obsStep, inv.reqs, inv.now]
      · exact inv.now
      · exact Nat.le_refl _
      · exact Nat.le_trans inv.served_le inv.widx_le
      · intro t ht
        simp only [obsStep, List.mem_cons] at ht
        rcases ht with ht | ht
        · subst ht; rw [inv.now]; exact Nat.le_refl _
        · exact Nat.le_trans (inv.grants_le t ht) inv.widx_le
      · simp [obsStep, grantsIn_cons, inv.now]
      · intro w
        simp only [obsStep, grantsIn_cons, inv.now]
        split
        · next hw => subst hw; omega
        · exact inv.quota w
      · simp only [waitingCount_append, Phase.waiting]; simpa using inv.size
    · next hge =>
      split at h
      · next hfull =>
        simp only [Option.some.injEq, Prod.mk.injEq] at h
        obtain ⟨rfl, rfl⟩ := h
        refine ⟨by simp [safeOk, inv.now, inv.reqs, hfull]; omega, ?_⟩
        constructor
        · simp [obsStep, inv.reqs, inv.now]
        · exact inv.now
        · exact Nat.le_refl _
        · exact Nat.le_trans inv.served_le inv.widx_le
        · intro t ht
          exact Nat.le_trans (inv.grants_le t ht) inv.widx_le
        · simp [obsStep]
        · exact inv.quota
        · simp only [waitingCount_append, Phase.waiting]; simpa using inv.size
      · next hroom =>
        simp only [Option.some.injEq, Prod.mk.injEq] at h
        obtain ⟨rfl, rfl⟩ := h
        refine ⟨by simp [safeOk, inv.now, inv.reqs]; omega, ?_⟩
        constructor
        · simp [obsStep, inv.reqs, inv.now]
        · exact inv.now
        · exact Nat.le_refl _
        · exact Nat.le_trans inv.served_le inv.widx_le
        · intro t ht
          exact Nat.le_trans (inv.grants_le t ht) inv.widx_le
        · simp [obsStep]
        · exact inv.quota
        · simp only [waitingCount_append, Phase.waiting]; simp; omega
  | park r =>
    simp only [step] at h
    split at h
    · next hgap =>
      simp only [Option.some.injEq, Prod.mk.injEq] at h
      obtain ⟨rfl, rfl⟩ := h
      refine ⟨by simp [safeOk, inv.reqs, hgap], ?_⟩
      constructor
      · simp [obsStep, inv.reqs, inv.now]
      · exact inv.now
      · exact inv.widx_le
      · exact inv.served_le
      · exact inv.grants_le
      · exact inv.counter
      · exact inv.quota
      · simp only
        rw [waitingCount_setPhase_same _ _ _ (by rw [hgap]; rfl) rfl]
        exact inv.size
    · simp at h
  | expire r =>
    simp only [step] at h
    split at h
    · next dl hp =>
      split at h
      · next hdl =>
        simp only [Option.some.injEq, Prod.mk.injEq] at h
        obtain ⟨rfl, rfl⟩ := h
        refine ⟨by simp [safeOk, inv.reqs, hp, inv.now, hdl], ?_⟩
        constructor
        · simp [obsStep, inv.reqs]
        · exact inv.now
        · exact inv.widx_le
        · exact inv.served_le
        · exact inv.grants_le
        · exact inv.counter
        · exact inv.quota
        · simp only
          rw [waitingCount_setPhase_same _ _ _ (by rw [hp]; rfl) rfl]
          exact inv.size
      · simp at h
    · simp at h
  | finish r =>
    simp only [step] at h
    split at h
    · next hp =>
      simp only [Option.some.injEq, Prod.mk.injEq] at h
      obtain ⟨rfl, rfl⟩ := h
      refine ⟨by simp [safeOk, inv.reqs, hp], ?_⟩
      constructor
      · simp [obsStep, inv.reqs]
      · exact inv.now
      · exact inv.widx_le
      · exact inv.served_le
      · exact inv.grants_le
      · exact inv.counter
      · exact inv.quota
      · exact Nat.le_trans (waitingCount_setPhase_le _ _ _ (by rw [hp]; rfl)) inv.size
    · next hp =>
      simp only [Option.some.injEq, Prod.mk.injEq] at h
      obtain ⟨rfl, rfl⟩ := h
      refine ⟨by simp [safeOk, inv.reqs, hp], ?_⟩
      constructor
      · simp [obsStep, inv.reqs]
      · exact inv.now
      · exact inv.widx_le
      · exact inv.served_le
      · exact inv.grants_le
      · exact inv.counter
      · exact inv.quota
      · exact Nat.le_trans (waitingCount_setPhase_le _ _ _ (by rw [hp]; rfl)) inv.size
    · simp at h
  | roll =>
    simp only [step, windowUpdate_spec inv] at h
    split at h
    · next hdue =>
      obtain ⟨new, f⟩ := rollLoop_facts cfg s.heap.length
        ⟨s.heap, s.reqs, grantsIn cfg (s.now / cfg.win) o.grants, []⟩
      simp only [Option.some.injEq, Prod.mk.injEq] at h
      obtain ⟨rfl, rfl⟩ := h
      have hrel := f.rel
      simp only [List.nil_append] at hrel
      have hcnt := f.counter
      have hle := f.le hq
      simp only at hcnt hle
      refine ⟨?_, ?_⟩
      · simp only [safeOk, Bool.and_eq_true, List.all_eq_true, decide_eq_true_eq, hrel]
        refine ⟨⟨?_, f.nodup⟩, ?_⟩
        · intro a ha; rw [inv.reqs]; exact f.parked a ha
        · rw [inv.now]; omega
      · constructor
        · simp only [obsStep, hrel, inv.reqs]; exact f.reqs.symm
        · exact inv.now
        · exact Nat.le_refl _
        · simp [obsStep, inv.now]
        · intro t ht
          simp only [obsStep, hrel, List.mem_append, List.mem_map] at ht
          rcases ht with ⟨_, _, ht⟩ | ht
          · subst ht; rw [inv.now]; exact Nat.le_refl _
          · exact Nat.le_trans (inv.grants_le t ht) inv.widx_le
        · simp only [obsStep, hrel, grantsIn_release, inv.now]
          simp; omega
        · intro w
          simp only [obsStep, hrel, grantsIn_release, inv.now]
          split
          · next hw => subst hw; omega
          · simpa using inv.quota w
        · simp only; rw [f.wcount]; exact inv.size
    · simp at h

/-! ### fairness invariant (valid as long as no event falls in the class of F10a / F10b) -/

theorem mem_liveIds {reqs : List Req} {b : Nat} : b ∈ liveIds reqs ↔ (phaseOf reqs b).live = true := by
  simp only [liveIds, List.mem_filter, List.mem_range]
  exact ⟨fun h => h.2, fun h => ⟨lt_of_live h, h⟩⟩

theorem mem_gapIds {reqs : List Req} {b : Nat} : b ∈ gapIds reqs ↔ phaseOf reqs b = .gap := by
  simp only [gapIds, List.mem_filter, List.mem_range, beq_iff_eq]
  refine ⟨fun h => h.2, fun h => ⟨lt_of_live (by rw [h]; rfl), h⟩⟩

theorem live_of_live_setPhase {reqs : List Req} {r b : Nat} {ph : Phase}
    (hph : ph.live = true → (phaseOf reqs r).live = true)
    (h : (phaseOf (setPhase reqs r ph) b).live = true) : (phaseOf reqs b).live = true := by
  by_cases hb : r = b
  · subst hb
    by_cases hr : r < reqs.length
    · rw [phaseOf_setPhase_self _ hr] at h; exact hph h
    · have := lt_of_live h
      rw [length_setPhase] at this
      exact absurd this hr
  · rwa [phaseOf_setPhase_ne _ hb] at h

theorem parked_or_gap_of_live {ph : Phase} (h : ph.live = true) : ph.isParked = true ∨ ph = .gap := by
  cases ph <;> simp [Phase.live, Phase.isParked] at h ⊢

structure FInv (cfg : Cfg) (s : State) (o : Obs) : Prop where
  inHeap : ∀ b, (phaseOf s.reqs b).live = true → b ∈ s.heap
  served : s.widx = o.served → cfg.quota ≤ s.counter ∨ ∀ b, (phaseOf s.reqs b).live = false

theorem finv_init (cfg : Cfg) (t0 : Nat) : FInv cfg (init cfg t0) (Obs.init cfg t0) where
  inHeap := by intro b h; simp [init, phaseOf, getReq, dummy, Phase.live] at h
  served := by intro _; right; intro b; simp [init, phaseOf, getReq, dummy, Phase.live]

theorem step_finv {cfg : Cfg} {s s' : State} {o : Obs} {l : Label} {e : Ev}
    (inv : Inv cfg s o) (finv : FInv cfg s o) (h : step cfg s l = some (s', e))
    (ha : f10aEv o e = false) (hb : f10bEv cfg o e = false) :
    fairOk cfg o e = true ∧ FInv cfg s' (obsStep cfg o e) := by
  have hq := inv.quota (s.now / cfg.win)
  cases l with
  | tick d =>
    simp only [step, Option.some.injEq, Prod.mk.injEq] at h
    obtain ⟨rfl, rfl⟩ := h
    exact ⟨rfl, ⟨finv.inHeap, finv.served⟩⟩
  | enq prio ttl =>
    simp only [step, windowUpdate_spec inv] at h
    split at h
    · next hlt =>
      simp only [Option.some.injEq, Prod.mk.injEq] at h
      obtain ⟨rfl, rfl⟩ := h
      have hnone : ∀ b, (phaseOf s.reqs b).live = false := by
        by_cases hs : o.served = o.now / cfg.win
        · have hw : s.widx = s.now / cfg.win := by
            have h1 := inv.served_le; have h2 := inv.widx_le; rw [inv.now] at hs; omega
          rcases finv.served (by rw [hw, hs, inv.now]) with h1 | h1
          · rw [inv.counter, hw] at h1; omega
          · exact h1
        · simp only [f10bEv, Bool.and_eq_false_iff, Bool.not_eq_false', bne_eq_false_iff_eq] at hb
          rcases hb with hb | hb
          · intro b
            cases hl : (phaseOf s.reqs b).live
            · rfl
            · have : b ∈ liveIds o.reqs := by rw [inv.reqs]; exact mem_liveIds.mpr hl
              rw [List.isEmpty_iff.mp hb] at this
              simp at this
          · exact absurd hb hs
      have hnone' : ∀ b, (phaseOf (s.reqs ++ [⟨prio, s.now, ttl, Phase.passed⟩]) b).live = false := by
        intro b
        rw [phaseOf_append]
        split
        · exact hnone b
        · split <;> rfl
      refine ⟨?_, ⟨?_, ?_⟩⟩
      · simp only [fairOk, List.isEmpty_iff]
        apply List.eq_nil_iff_forall_not_mem.mpr
        intro b hb'
        have := mem_liveIds.mp hb'
        rw [inv.reqs, hnone b] at this
        simp at this
      · intro b hb'
        simp only at hb'
        rw [hnone' b] at hb'
        simp at hb'
      · intro _; right; exact hnone'
    · next hge =>
      split at h
      · next hfull =>
        simp only [Option.some.injEq, Prod.mk.injEq] at h
        obtain ⟨rfl, rfl⟩ := h
        refine ⟨rfl, ⟨?_, ?_⟩⟩
        · intro b hb'
          simp only at hb'
          rw [phaseOf_append] at hb'
          split at hb'
          · exact finv.inHeap b hb'
          · split at hb' <;> simp [Phase.live] at hb'
        · intro _; left; simp only; omega
      · next hroom =>
        simp only [Option.some.injEq, Prod.mk.injEq] at h
        obtain ⟨rfl, rfl⟩ := h
        refine ⟨rfl, ⟨?_, ?_⟩⟩
        · intro b hb'
          simp only at hb'
          rw [phaseOf_append] at hb'
          simp only [List.mem_append, List.mem_singleton]
          split at hb'
          · exact Or.inl (finv.inHeap b hb')
          · split at hb'
            · next hbl => exact Or.inr hbl
            · simp [Phase.live] at hb'
        · intro _; left; simp only; omega
  | park r =>
    simp only [step] at h
    split at h
    · next hgap =>
      simp only [Option.some.injEq, Prod.mk.injEq] at h
      obtain ⟨rfl, rfl⟩ := h
      have key : ∀ b, (phaseOf (setPhase s.reqs r (.parked (s.now + (getReq s.reqs r).ttl))) b).live = true →
          (phaseOf s.reqs b).live = true :=
        fun b hb' => live_of_live_setPhase (fun _ => by rw [hgap]; rfl) hb'
      refine ⟨rfl, ⟨fun b hb' => finv.inHeap b (key b hb'), ?_⟩⟩
      intro hw
      rcases finv.served hw with h1 | h1
      · exact Or.inl h1
      · right; intro b
        cases hl : (phaseOf (setPhase s.reqs r (.parked (s.now + (getReq s.reqs r).ttl))) b).live
        · rfl
        · have := key b hl; rw [h1 b] at this; simp at this
    · simp at h
  | expire r =>
    simp only [step] at h
    split at h
    · next dl hp =>
      split at h
      · next hdl =>
        simp only [Option.some.injEq, Prod.mk.injEq] at h
        obtain ⟨rfl, rfl⟩ := h
        have key : ∀ b, (phaseOf (setPhase s.reqs r .wokeTTL) b).live = true →
            (phaseOf s.reqs b).live = true :=
          fun b hb' => live_of_live_setPhase (fun h => by simp [Phase.live] at h) hb'
        refine ⟨rfl, ⟨fun b hb' => finv.inHeap b (key b hb'), ?_⟩⟩
        intro hw
        rcases finv.served hw with h1 | h1
        · exact Or.inl h1
        · right; intro b
          cases hl : (phaseOf (setPhase s.reqs r .wokeTTL) b).live
          · rfl
          · have := key b hl; rw [h1 b] at this; simp at this
      · simp at h
    · simp at h
  | finish r =>
    simp only [step] at h
    split at h
    · next hp =>
      simp only [Option.some.injEq, Prod.mk.injEq] at h
      obtain ⟨rfl, rfl⟩ := h
      have key : ∀ b, (phaseOf (setPhase s.reqs r .retT) b).live = true →
          (phaseOf s.reqs b).live = true :=
        fun b hb' => live_of_live_setPhase (fun h => by simp [Phase.live] at h) hb'
      refine ⟨rfl, ⟨fun b hb' => finv.inHeap b (key b hb'), ?_⟩⟩
      intro hw
      rcases finv.served hw with h1 | h1
      · exact Or.inl h1
      · right; intro b
        cases hl : (phaseOf (setPhase s.reqs r .retT) b).live
        · rfl
        · have := key b hl; rw [h1 b] at this; simp at this
    · next hp =>
      simp only [Option.some.injEq, Prod.mk.injEq] at h
      obtain ⟨rfl, rfl⟩ := h
      have key : ∀ b, (phaseOf (setPhase s.reqs r .retF) b).live = true →
          (phaseOf s.reqs b).live = true :=
        fun b hb' => live_of_live_setPhase (fun h => by simp [Phase.live] at h) hb'
      refine ⟨rfl, ⟨fun b hb' => finv.inHeap b (key b hb'), ?_⟩⟩
      intro hw
      rcases finv.served hw with h1 | h1
      · exact Or.inl h1
      · right; intro b
        cases hl : (phaseOf (setPhase s.reqs r .retF) b).live
        · rfl
        · have := key b hl; rw [h1 b] at this; simp at this
    · simp at h
  | roll =>
    simp only [step, windowUpdate_spec inv] at h
    split at h
    · next hdue =>
      obtain ⟨new, f⟩ := rollLoop_facts cfg s.heap.length
        ⟨s.heap, s.reqs, grantsIn cfg (s.now / cfg.win) o.grants, []⟩
      simp only [Option.some.injEq, Prod.mk.injEq] at h
      obtain ⟨rfl, rfl⟩ := h
      have hrel := f.rel
      simp only [List.nil_append] at hrel
      have hcnt := f.counter
      have hle := f.le hq
      have hstop := f.stop (Nat.le_refl _)
      simp only at hcnt hle hstop
      -- no request is in the gap (the event is outside the class of F10a)
      have hnogap : ∀ b, phaseOf s.reqs b ≠ .gap := by
        intro b hg
        simp only [f10aEv, Bool.not_eq_false', List.isEmpty_iff] at ha
        have : b ∈ gapIds o.reqs := by rw [inv.reqs]; exact mem_gapIds.mpr hg
        rw [ha] at this
        simp at this
      -- a waiting request that is not handed off stays in the heap
      have hstay : ∀ b, (phaseOf s.reqs b).live = true → b ∉ new →
          b ∈ (rollLoop cfg s.heap.length ⟨s.heap, s.reqs, grantsIn cfg (s.now / cfg.win) o.grants, []⟩).heap := by
        intro b hl hn
        rcases parked_or_gap_of_live hl with hp | hg
        · exact f.keep b (finv.inHeap b hl) hp hn
        · exact absurd hg (hnogap b)
      have hlive' : ∀ b, (phaseOf (rollLoop cfg s.heap.length
            ⟨s.heap, s.reqs, grantsIn cfg (s.now / cfg.win) o.grants, []⟩).reqs b).live = true →
          (phaseOf s.reqs b).live = true ∧ b ∉ new := by
        intro b hl
        rw [f.phase b] at hl
        split at hl
        · simp [Phase.live] at hl
        · next hn => exact ⟨hl, hn⟩
      refine ⟨?_, ⟨?_, ?_⟩⟩
      · simp only [fairOk, hrel, Bool.and_eq_true, Bool.or_eq_true, List.all_eq_true,
          List.contains_iff_mem, Bool.not_eq_true', decide_eq_true_eq]
        constructor
        · intro b hb'
          have hl := mem_liveIds.mp hb'
          rw [inv.reqs] at hl
          by_cases hn : b ∈ new
          · exact Or.inl hn
          · right
            intro a ha'
            rw [inv.reqs]
            exact f.order a ha' b (hstay b hl hn)
        · rcases hstop with h1 | h1
          · right; rw [inv.now]; omega
          · left
            intro b hb'
            have hl := mem_liveIds.mp hb'
            rw [inv.reqs] at hl
            by_cases hn : b ∈ new
            · exact hn
            · have := hstay b hl hn
              rw [h1] at this
              simp at this
      · intro b hl
        simp only at hl ⊢
        obtain ⟨h1, h2⟩ := hlive' b hl
        exact hstay b h1 h2
      · intro _
        simp only
        rcases hstop with h1 | h1
        · exact Or.inl h1
        · right
          intro b
          cases hl : (phaseOf (rollLoop cfg s.heap.length
              ⟨s.heap, s.reqs, grantsIn cfg (s.now / cfg.win) o.grants, []⟩).reqs b).live
          · rfl
          · obtain ⟨h2, h3⟩ := hlive' b hl
            have := hstay b h2 h3
            rw [h1] at this
            simp at this
    · simp at h

/-! ### whole runs -/

theorem run_inv {cfg : Cfg} (ls : List Label) {s s' : State} {o : Obs} {es : List Ev}
    (inv : Inv cfg s o) (h : run cfg s ls = some (s', es)) :
    safeFrom cfg o es = true ∧ Inv cfg s' (es.foldl (obsStep cfg) o) := by
  induction ls generalizing s o es with
  | nil =>
    simp only [run, Option.some.injEq, Prod.mk.injEq] at h
    obtain ⟨rfl, rfl⟩ := h
    exact ⟨rfl, inv⟩
  | cons l ls ih =>
    simp only [run] at h
    split at h
    · simp at h
    · next s1 e hstep =>
      split at h
      · simp at h
      · next s2 es' hrun =>
        simp only [Option.some.injEq, Prod.mk.injEq] at h
        obtain ⟨rfl, rfl⟩ := h
        obtain ⟨hs, inv1⟩ := step_inv inv hstep
        obtain ⟨hs', inv2⟩ := ih inv1 hrun
        exact ⟨by simp [safeFrom, hs, hs'], by simpa using inv2⟩

theorem run_finv {cfg : Cfg} (ls : List Label) {s s' : State} {o : Obs} {es : List Ev}
    (inv : Inv cfg s o) (finv : FInv cfg s o) (h : run cfg s ls = some (s', es))
    (hc : cleanFrom cfg o es = true) :
    fairFrom cfg o es = true ∧ FInv cfg s' (es.foldl (obsStep cfg) o) := by
  induction ls generalizing s o es with
  | nil =>
    simp only [run, Option.some.injEq, Prod.mk.injEq] at h
    obtain ⟨rfl, rfl⟩ := h
    exact ⟨rfl, finv⟩
  | cons l ls ih =>
    simp only [run] at h
    split at h
    · simp at h
    · next s1 e hstep =>
      split at h
      · simp at h
      · next s2 es' hrun =>
        simp only [Option.some.injEq, Prod.mk.injEq] at h
        obtain ⟨rfl, rfl⟩ := h
        simp only [cleanFrom, Bool.and_eq_true, Bool.not_eq_true'] at hc
        obtain ⟨⟨hc1, hc2⟩, hc3⟩ := hc
        obtain ⟨_, inv1⟩ := step_inv inv hstep
        obtain ⟨hf, finv1⟩ := step_finv inv finv hstep hc1 hc2
        obtain ⟨hf', finv2⟩ := ih inv1 finv1 hrun hc3
        exact ⟨by simp [fairFrom, hf, hf'], by simpa using finv2⟩

theorem safeFrom_split (cfg : Cfg) (pre : List Ev) (e : Ev) (post : List Ev) (o : Obs)
    (h : safeFrom cfg o (pre ++ e :: post) = true) : safeOk cfg (pre.foldl (obsStep cfg) o) e = true := by
  induction pre generalizing o with
  | nil => simp only [List.nil_append, safeFrom, Bool.and_eq_true] at h; exact h.1
  | cons p pre ih =>
    simp only [List.cons_append, safeFrom, Bool.and_eq_true] at h
    exact ih _ h.2

theorem fairFrom_split (cfg : Cfg) (pre : List Ev) (e : Ev) (post : List Ev) (o : Obs)
    (h : fairFrom cfg o (pre ++ e :: post) = true) : fairOk cfg (pre.foldl (obsStep cfg) o) e = true := by
  induction pre generalizing o with
  | nil => simp only [List.nil_append, fairFrom, Bool.and_eq_true] at h; exact h.1
  | cons p pre ih =>
    simp only [List.cons_append, fairFrom, Bool.and_eq_true] at h
    exact ih _ h.2

/-- One roll-over step from ANY state, unfolded into the loop facts. -/
theorem roll_facts {cfg : Cfg} {s s' : State} {rel : List Nat}
    (h : step cfg s .roll = some (s', .roll rel)) :
    ∃ c, LoopFacts cfg s.heap.length ⟨s.heap, s.reqs, c, []⟩ ⟨s'.heap, s'.reqs, s'.counter, rel⟩ rel := by
  simp only [step] at h
  split at h
  · obtain ⟨new, f⟩ := rollLoop_facts cfg s.heap.length
      ⟨s.heap, s.reqs, (windowUpdate cfg s.now s.widx s.counter).2, []⟩
    simp only [Option.some.injEq, Prod.mk.injEq, Ev.roll.injEq] at h
    obtain ⟨rfl, hrel⟩ := h
    have := f.rel
    simp only [List.nil_append] at this
    rw [this] at hrel
    subst hrel
    refine ⟨(windowUpdate cfg s.now s.widx s.counter).2, ?_⟩
    dsimp only
    have hL : ∀ L : Loop, L.rel = new → (⟨L.heap, L.reqs, L.counter, new⟩ : Loop) = L := by
      intro L h; cases L; simp only at h; subst h; rfl
    rw [hL _ this]
    exact f
  · simp at h

end LunarVerif.C10
