import LunarVerif.Spec.C10
/-!
Helper lemmas for C10: request-list updates, the minimum of the heap, the roll-over loop
(`rollLoop`), and the invariants that tie the model's hidden state (heap, counter, window index)
to the observer of `Spec/C10.lean`.
-/
namespace LunarVerif.C10

/-! ### request list -/

theorem getReq_lt {reqs : List Req} {r : Nat} (h : r < reqs.length) : getReq reqs r = reqs[r] := by
  simp [getReq, List.getD_eq_getElem?_getD, List.getElem?_eq_getElem h]

theorem getReq_ge {reqs : List Req} {r : Nat} (h : reqs.length ≤ r) : getReq reqs r = dummy := by
  simp [getReq, List.getD_eq_getElem?_getD, List.getElem?_eq_none h]

theorem phaseOf_ge {reqs : List Req} {r : Nat} (h : reqs.length ≤ r) : phaseOf reqs r = .passed := by
  simp [phaseOf, getReq_ge h, dummy]

theorem lt_of_eligible {reqs : List Req} {r : Nat} (h : (phaseOf reqs r).eligible = true) : r < reqs.length := by
  by_cases hr : r < reqs.length
  · exact hr
  · rw [phaseOf_ge (Nat.le_of_not_lt hr)] at h; simp [Phase.eligible] at h

theorem lt_of_waiting {reqs : List Req} {r : Nat} (h : (phaseOf reqs r).waiting = true) : r < reqs.length := by
  by_cases hr : r < reqs.length
  · exact hr
  · rw [phaseOf_ge (Nat.le_of_not_lt hr)] at h; simp [Phase.waiting] at h

theorem length_setPhase (reqs : List Req) (r : Nat) (ph : Phase) :
    (setPhase reqs r ph).length = reqs.length := by
  simp [setPhase]

theorem getReq_setPhase (reqs : List Req) (r x : Nat) (ph : Phase) :
    getReq (setPhase reqs r ph) x =
      if r = x ∧ r < reqs.length then { getReq reqs r with ph := ph } else getReq reqs x := by
  unfold getReq setPhase
  rw [List.getD_eq_getElem?_getD, List.getElem?_set]
  by_cases h : r = x
  · subst h
    by_cases h2 : r < reqs.length
    · simp [h2, getReq_lt h2]
    · simp [h2, List.getD_eq_getElem?_getD]
  · simp [h, List.getD_eq_getElem?_getD]

theorem phaseOf_setPhase_self {reqs : List Req} {r : Nat} (ph : Phase) (h : r < reqs.length) :
    phaseOf (setPhase reqs r ph) r = ph := by
  simp [phaseOf, getReq_setPhase, h]

theorem phaseOf_setPhase_ne {reqs : List Req} {r x : Nat} (ph : Phase) (h : r ≠ x) :
    phaseOf (setPhase reqs r ph) x = phaseOf reqs x := by
  simp [phaseOf, getReq_setPhase, h]

theorem prio_setPhase (reqs : List Req) (r x : Nat) (ph : Phase) :
    (getReq (setPhase reqs r ph) x).prio = (getReq reqs x).prio := by
  rw [getReq_setPhase]; split
  · next h => rw [← h.1]
  · rfl

theorem ts_setPhase (reqs : List Req) (r x : Nat) (ph : Phase) :
    (getReq (setPhase reqs r ph) x).ts = (getReq reqs x).ts := by
  rw [getReq_setPhase]; split
  · next h => rw [← h.1]
  · rfl

theorem ttl_setPhase (reqs : List Req) (r x : Nat) (ph : Phase) :
    (getReq (setPhase reqs r ph) x).ttl = (getReq reqs x).ttl := by
  rw [getReq_setPhase]; split
  · next h => rw [← h.1]
  · rfl

theorem keyLt_setPhase (reqs : List Req) (r : Nat) (ph : Phase) (a b : Nat) :
    keyLt (getReq (setPhase reqs r ph) a) (getReq (setPhase reqs r ph) b)
      = keyLt (getReq reqs a) (getReq reqs b) := by
  simp only [keyLt, prio_setPhase, ts_setPhase]

theorem getReq_append_lt {reqs : List Req} {q : Req} {x : Nat} (h : x < reqs.length) :
    getReq (reqs ++ [q]) x = getReq reqs x := by
  simp [getReq, List.getD_eq_getElem?_getD, List.getElem?_append, h]

theorem getReq_append_len (reqs : List Req) (q : Req) : getReq (reqs ++ [q]) reqs.length = q := by
  simp [getReq, List.getD_eq_getElem?_getD]

theorem phaseOf_append (reqs : List Req) (q : Req) (x : Nat) :
    phaseOf (reqs ++ [q]) x = if x < reqs.length then phaseOf reqs x
                              else if x = reqs.length then q.ph else .passed := by
  by_cases h : x < reqs.length
  · simp [phaseOf, getReq_append_lt h, h]
  · by_cases h2 : x = reqs.length
    · subst h2; simp [phaseOf, getReq_append_len]
    · have : (reqs ++ [q]).length ≤ x := by simp; omega
      simp [h, h2, phaseOf_ge this]

theorem waitingCount_append (reqs : List Req) (q : Req) :
    waitingCount (reqs ++ [q]) = waitingCount reqs + (if q.ph.waiting then 1 else 0) := by
  simp [waitingCount, List.countP_append, List.countP_cons]

theorem waitingCount_setPhase (reqs : List Req) (r : Nat) (ph : Phase) (h : r < reqs.length) :
    waitingCount (setPhase reqs r ph) =
      waitingCount reqs - (if (phaseOf reqs r).waiting then 1 else 0) + (if ph.waiting then 1 else 0) := by
  unfold waitingCount setPhase
  rw [List.countP_set h]
  simp [phaseOf, getReq_lt h]

theorem waitingCount_setPhase_same (reqs : List Req) (r : Nat) (ph : Phase)
    (h : (phaseOf reqs r).waiting = true) (h2 : ph.waiting = true) :
    waitingCount (setPhase reqs r ph) = waitingCount reqs := by
  have hr := lt_of_waiting h
  rw [waitingCount_setPhase _ _ _ hr, h, h2]
  have : 0 < waitingCount reqs := by
    unfold waitingCount
    apply List.countP_pos_iff.mpr
    exact ⟨reqs[r], List.getElem_mem hr, by simpa [phaseOf, getReq_lt hr] using h⟩
  simp; omega

theorem waitingCount_setPhase_le (reqs : List Req) (r : Nat) (ph : Phase)
    (h : (phaseOf reqs r).waiting = true) :
    waitingCount (setPhase reqs r ph) ≤ waitingCount reqs := by
  have hr := lt_of_waiting h
  rw [waitingCount_setPhase _ _ _ hr, h]
  have : 0 < waitingCount reqs := by
    unfold waitingCount
    apply List.countP_pos_iff.mpr
    exact ⟨reqs[r], List.getElem_mem hr, by simpa [phaseOf, getReq_lt hr] using h⟩
  cases ph.waiting <;> simp <;> omega

/-! ### keys -/

theorem keyLt_iff (a b : Req) :
    keyLt a b = true ↔ a.prio < b.prio ∨ (a.prio = b.prio ∧ a.ts < b.ts) := by
  unfold keyLt
  split
  · next h => simp [h]
  · next h => simp; omega

theorem keyLt_irrefl (a : Req) : keyLt a a = false := by
  have := keyLt_iff a a
  cases h : keyLt a a
  · rfl
  · rw [h] at this; simp at this

/-- `keyLt` is a strict weak order: if `x < best` and `¬ y < best` then `¬ y < x`. -/
theorem not_keyLt_of_lt {x best y : Req} (h1 : keyLt x best = true) (h2 : keyLt y best = false) :
    keyLt y x = false := by
  rw [keyLt_iff] at h1
  have h2' : ¬ (keyLt y best = true) := by simp [h2]
  rw [keyLt_iff] at h2'
  have : ¬ (keyLt y x = true) := by rw [keyLt_iff]; omega
  simpa using this

/-! ### minimum of the heap -/

theorem minOf_mem (reqs : List Req) (best : Nat) (xs : List Nat) : minOf reqs best xs ∈ best :: xs := by
  induction xs generalizing best with
  | nil => simp [minOf]
  | cons x xs ih =>
    simp only [minOf]
    split
    · have := ih x; simp only [List.mem_cons] at this ⊢; rcases this with h | h <;> simp [h]
    · have := ih best; simp only [List.mem_cons] at this ⊢; rcases this with h | h <;> simp [h]

/-- Nothing in `best :: xs` is strictly smaller than the selected minimum, provided nothing seen
    earlier (`ys`) is smaller than `best`. -/
theorem minOf_min (reqs : List Req) (best : Nat) (xs : List Nat) :
    ∀ y, y ∈ best :: xs → keyLt (getReq reqs y) (getReq reqs (minOf reqs best xs)) = false := by
  suffices H : ∀ (seen : List Nat) (best : Nat),
      (∀ y ∈ seen, keyLt (getReq reqs y) (getReq reqs best) = false) →
      ∀ y, y ∈ seen ++ xs → keyLt (getReq reqs y) (getReq reqs (minOf reqs best xs)) = false by
    intro y hy
    apply H [best] best
    · intro y hy; simp at hy; subst hy; exact keyLt_irrefl _
    · simpa using hy
  induction xs with
  | nil => intro seen best hs y hy; simp at hy; simpa [minOf] using hs y hy
  | cons x xs ih =>
    intro seen best hs y hy
    simp only [minOf]
    split
    · next hlt =>
      apply ih (seen ++ [x]) x
      · intro z hz
        simp only [List.mem_append, List.mem_singleton] at hz
        rcases hz with hz | hz
        · exact not_keyLt_of_lt hlt (hs z hz)
        · subst hz; exact keyLt_irrefl _
      · simpa using hy
    · next hlt =>
      apply ih (seen ++ [x]) best
      · intro z hz
        simp only [List.mem_append, List.mem_singleton] at hz
        rcases hz with hz | hz
        · exact hs z hz
        · subst hz; simpa using hlt
      · simpa using hy

theorem popMin_spec {reqs : List Req} {heap heap' : List Nat} {m : Nat}
    (h : popMin reqs heap = some (m, heap')) :
    m ∈ heap ∧ heap' = heap.erase m ∧
      ∀ y ∈ heap, keyLt (getReq reqs y) (getReq reqs m) = false := by
  cases heap with
  | nil => simp [popMin] at h
  | cons x xs =>
    simp only [popMin, Option.some.injEq, Prod.mk.injEq] at h
    obtain ⟨h1, h2⟩ := h
    subst h1
    exact ⟨minOf_mem reqs x xs, h2.symm, minOf_min reqs x xs⟩

theorem popMin_none {reqs : List Req} {heap : List Nat} (h : popMin reqs heap = none) : heap = [] := by
  cases heap with
  | nil => rfl
  | cons x xs => simp [popMin] at h

/-! ### phases -/

theorem waiting_of_eligible {ph : Phase} (h : ph.eligible = true) : ph.waiting = true := by
  cases ph <;> simp [Phase.eligible, Phase.waiting] at h ⊢

theorem handoff_not_eligible (ph : Phase) : ph.handoff.eligible = false := by
  cases ph <;> simp [Phase.handoff, Phase.eligible]

theorem handoff_waiting {ph : Phase} (h : ph.eligible = true) : ph.handoff.waiting = true := by
  cases ph <;> simp [Phase.eligible, Phase.handoff, Phase.waiting] at h ⊢

/-! ### the serving loop (`processQueueItems`) -/

/-- Everything the proofs need about one execution of `processQueueItems` from loop state `x`
    with fuel `n`, ending in `l`, having handed off `new` (in pop order). -/
structure LoopFacts (cfg : Cfg) (n : Nat) (x l : Loop) (new : List Nat) : Prop where
  rel : l.rel = x.rel ++ new
  reqs : l.reqs = handAll x.reqs new
  counter : l.counter = x.counter + new.length
  elig : ∀ a ∈ new, (phaseOf x.reqs a).eligible = true
  nodup : new.Nodup
  heapSub : ∀ b ∈ l.heap, b ∈ x.heap
  relSub : ∀ a ∈ new, a ∈ x.heap
  keep : ∀ b ∈ x.heap, (phaseOf x.reqs b).eligible = true → b ∉ new → b ∈ l.heap
  order : ∀ a ∈ new, ∀ b ∈ l.heap, keyLt (getReq x.reqs b) (getReq x.reqs a) = false
  phase : ∀ b, phaseOf l.reqs b = if b ∈ new then (phaseOf x.reqs b).handoff else phaseOf x.reqs b
  wcount : waitingCount l.reqs = waitingCount x.reqs
  len : l.reqs.length = x.reqs.length
  stop : x.heap.length ≤ n → cfg.quota ≤ l.counter ∨ l.heap = []
  le : x.counter ≤ cfg.quota → l.counter ≤ cfg.quota

theorem loopFacts_refl (cfg : Cfg) (n : Nat) (x : Loop)
    (hstop : x.heap.length ≤ n → cfg.quota ≤ x.counter ∨ x.heap = []) : LoopFacts cfg n x x [] where
  rel := by simp
  reqs := by simp [handAll]
  counter := by simp
  elig := by simp
  nodup := by simp
  heapSub := fun _ h => h
  relSub := by simp
  keep := fun _ h _ _ => h
  order := by simp
  phase := by simp
  wcount := rfl
  len := rfl
  stop := hstop
  le := fun h => h

theorem rollLoop_facts (cfg : Cfg) (n : Nat) (x : Loop) :
    ∃ new, LoopFacts cfg n x (rollLoop cfg n x) new := by
  induction n generalizing x with
  | zero =>
    refine ⟨[], ?_⟩
    rw [rollLoop]
    exact loopFacts_refl cfg 0 x (fun h => Or.inr (List.length_eq_zero_iff.mp (Nat.le_zero.mp h)))
  | succ n ih =>
    rw [rollLoop]
    split
    · next hlt =>
      split
      · next hpop =>
        exact ⟨[], loopFacts_refl cfg _ x (fun _ => Or.inr (popMin_none hpop))⟩
      · next r heap' hpop =>
        obtain ⟨hmem, hheap, hmin⟩ := popMin_spec hpop
        have hlen : heap'.length = x.heap.length - 1 := by
          rw [hheap, List.length_erase_of_mem hmem]
        split
        · next hel =>
          have hr := lt_of_eligible hel
          obtain ⟨new', f⟩ := ih { heap := heap', reqs := setPhase x.reqs r (phaseOf x.reqs r).handoff,
                                   counter := x.counter + 1, rel := x.rel ++ [r] }
          refine ⟨r :: new', ?_⟩
          have hrnot : r ∉ new' := by
            intro hin
            have := f.elig r hin
            simp only [phaseOf_setPhase_self _ hr, handoff_not_eligible] at this
            exact absurd this (by simp)
          constructor
          · rw [f.rel]; simp
          · rw [f.reqs]; simp [handAll]
          · rw [f.counter]; simp; omega
          · intro a ha
            simp only [List.mem_cons] at ha
            rcases ha with ha | ha
            · subst ha; exact hel
            · by_cases har : r = a
              · subst har; exact hel
              · have := f.elig a ha
                simpa only [phaseOf_setPhase_ne _ har] using this
          · exact List.nodup_cons.mpr ⟨hrnot, f.nodup⟩
          · intro b hb
            have := f.heapSub b hb
            simp only at this
            rw [hheap] at this
            exact List.mem_of_mem_erase this
          · intro a ha
            simp only [List.mem_cons] at ha
            rcases ha with ha | ha
            · subst ha; exact hmem
            · have := f.relSub a ha
              simp only at this
              rw [hheap] at this
              exact List.mem_of_mem_erase this
          · intro b hb hbp hbn
            simp only [List.mem_cons, not_or] at hbn
            apply f.keep b
            · simp only; rw [hheap]; exact (List.mem_erase_of_ne hbn.1).mpr hb
            · simp only; rw [phaseOf_setPhase_ne _ (Ne.symm hbn.1)]; exact hbp
            · exact hbn.2
          · intro a ha b hb
            have hbx : b ∈ x.heap := by
              have := f.heapSub b hb
              simp only at this
              rw [hheap] at this
              exact List.mem_of_mem_erase this
            simp only [List.mem_cons] at ha
            rcases ha with ha | ha
            · subst ha; exact hmin b hbx
            · have := f.order a ha b hb
              simpa only [keyLt_setPhase] using this
          · intro b
            rw [f.phase b]
            simp only [List.mem_cons]
            by_cases hb : b ∈ new'
            · by_cases hbr : b = r
              · subst hbr; exact absurd hb hrnot
              · simp [hb, phaseOf_setPhase_ne _ (Ne.symm hbr)]
            · by_cases hbr : b = r
              · subst hbr; simp [hb, phaseOf_setPhase_self _ hr]
              · simp [hb, hbr, phaseOf_setPhase_ne _ (Ne.symm hbr)]
          · rw [f.wcount]
            exact waitingCount_setPhase_same _ _ _ (waiting_of_eligible hel) (handoff_waiting hel)
          · rw [f.len]; simp [length_setPhase]
          · intro h
            apply f.stop
            simp only; omega
          · intro _
            apply f.le
            simp only; omega
        · next hel =>
          obtain ⟨new', f⟩ := ih { x with heap := heap' }
          refine ⟨new', ?_⟩
          constructor
          · exact f.rel
          · exact f.reqs
          · exact f.counter
          · exact f.elig
          · exact f.nodup
          · intro b hb
            have := f.heapSub b hb
            simp only at this
            rw [hheap] at this
            exact List.mem_of_mem_erase this
          · intro a ha
            have := f.relSub a ha
            simp only at this
            rw [hheap] at this
            exact List.mem_of_mem_erase this
          · intro b hb hbp hbn
            have hbr : b ≠ r := by intro h; subst h; exact hel hbp
            apply f.keep b
            · simp only; rw [hheap]; exact (List.mem_erase_of_ne hbr).mpr hb
            · exact hbp
            · exact hbn
          · exact f.order
          · exact f.phase
          · exact f.wcount
          · exact f.len
          · intro h
            apply f.stop
            simp only; omega
          · exact f.le
    · next hge =>
      exact ⟨[], loopFacts_refl cfg _ x (fun _ => Or.inl (Nat.le_of_not_lt hge))⟩

/-! ### grants per window -/

theorem grantsIn_cons (cfg : Cfg) (w t : Nat) (g : List Nat) :
    grantsIn cfg w (t :: g) = grantsIn cfg w g + (if t / cfg.win = w then 1 else 0) := by
  simp [grantsIn, List.countP_cons]

theorem grantsIn_zero_of_lt (cfg : Cfg) (w k : Nat) (g : List Nat)
    (h : ∀ t ∈ g, t / cfg.win ≤ k) (hk : k < w) : grantsIn cfg w g = 0 := by
  unfold grantsIn
  rw [List.countP_eq_zero]
  intro t ht
  have := h t ht
  simp; omega

theorem grantsIn_release (cfg : Cfg) (w now : Nat) (new : List Nat) (g : List Nat) :
    grantsIn cfg w (new.map (fun _ => now) ++ g)
      = (if now / cfg.win = w then new.length else 0) + grantsIn cfg w g := by
  unfold grantsIn
  rw [List.countP_append, List.map_const', List.countP_replicate]
  simp

/-! ### invariant: hidden state vs. observer -/

theorem mem_eligIds {reqs : List Req} {b : Nat} : b ∈ eligIds reqs ↔ (phaseOf reqs b).eligible = true := by
  simp only [eligIds, List.mem_filter, List.mem_range]
  exact ⟨fun h => h.2, fun h => ⟨lt_of_eligible h, h⟩⟩

theorem eligible_of_eligible_setPhase {reqs : List Req} {r b : Nat} {ph : Phase}
    (hph : ph.eligible = true → (phaseOf reqs r).eligible = true)
    (h : (phaseOf (setPhase reqs r ph) b).eligible = true) : (phaseOf reqs b).eligible = true := by
  by_cases hb : r = b
  · subst hb
    by_cases hr : r < reqs.length
    · rw [phaseOf_setPhase_self _ hr] at h; exact hph h
    · have := lt_of_eligible h
      rw [length_setPhase] at this
      exact absurd this hr
  · rwa [phaseOf_setPhase_ne _ hb] at h

structure Inv (cfg : Cfg) (s : State) (o : Obs) : Prop where
  reqs : o.reqs = s.reqs
  now : o.now = s.now
  widx_le : s.widx ≤ s.now / cfg.win
  grants_le : ∀ t ∈ o.grants, t / cfg.win ≤ s.widx
  counter : s.counter = grantsIn cfg s.widx o.grants
  quota : ∀ w, grantsIn cfg w o.grants ≤ cfg.quota
  size : waitingCount s.reqs ≤ cfg.size
  inHeap : ∀ b, (phaseOf s.reqs b).eligible = true → b ∈ s.heap

theorem inv_init (cfg : Cfg) (t0 : Nat) : Inv cfg (init cfg t0) (Obs.init cfg t0) where
  reqs := rfl
  now := rfl
  widx_le := Nat.le_refl _
  grants_le := by simp [Obs.init]
  counter := by simp [init, Obs.init, grantsIn]
  quota := by simp [Obs.init, grantsIn]
  size := by simp [init, waitingCount]
  inHeap := by intro b h; simp [init, phaseOf, getReq, dummy, Phase.eligible] at h

theorem windowUpdate_spec {cfg : Cfg} {s : State} {o : Obs} (inv : Inv cfg s o) :
    windowUpdate cfg s.now s.widx s.counter
      = (s.now / cfg.win, grantsIn cfg (s.now / cfg.win) o.grants) := by
  unfold windowUpdate
  split
  · next h => rw [grantsIn_zero_of_lt cfg _ _ _ inv.grants_le h]
  · next h =>
    have : s.widx = s.now / cfg.win := by have := inv.widx_le; omega
    rw [inv.counter, this]

/-- What one execution of the serving loop, started under the invariant after the window update,
    guarantees: the batch is safe and fair for the observer, and the invariant's heap clause survives. -/
structure Served (cfg : Cfg) (s : State) (o : Obs) (L : Loop) : Prop where
  facts : LoopFacts cfg s.heap.length
            ⟨s.heap, s.reqs, grantsIn cfg (s.now / cfg.win) o.grants, []⟩ L L.rel
  safe : relSafe cfg o L.rel = true
  fair : relFair cfg o L.rel = true
  counter : L.counter = grantsIn cfg (s.now / cfg.win) o.grants + L.rel.length
  le : L.counter ≤ cfg.quota
  reqs : L.reqs = handAll o.reqs L.rel
  wcount : waitingCount L.reqs = waitingCount s.reqs
  inHeap : ∀ b, (phaseOf L.reqs b).eligible = true → b ∈ L.heap
  drained : L.counter < cfg.quota → ∀ b, (phaseOf L.reqs b).eligible = false

theorem served {cfg : Cfg} {s : State} {o : Obs} (inv : Inv cfg s o) :
    Served cfg s o (rollLoop cfg s.heap.length
      ⟨s.heap, s.reqs, grantsIn cfg (s.now / cfg.win) o.grants, []⟩) := by
  obtain ⟨new, f⟩ := rollLoop_facts cfg s.heap.length
    ⟨s.heap, s.reqs, grantsIn cfg (s.now / cfg.win) o.grants, []⟩
  have hrel := f.rel
  simp only [List.nil_append] at hrel
  rw [← hrel] at f
  have hq := inv.quota (s.now / cfg.win)
  have hcnt := f.counter
  have hle := f.le hq
  have hstop := f.stop (Nat.le_refl _)
  simp only at hcnt hle hstop
  -- an eligible request that is not handed off stays in the heap
  have hstay : ∀ b, (phaseOf s.reqs b).eligible = true →
      b ∉ (rollLoop cfg s.heap.length ⟨s.heap, s.reqs, grantsIn cfg (s.now / cfg.win) o.grants, []⟩).rel →
      b ∈ (rollLoop cfg s.heap.length ⟨s.heap, s.reqs, grantsIn cfg (s.now / cfg.win) o.grants, []⟩).heap :=
    fun b hl hn => f.keep b (inv.inHeap b hl) hl hn
  have helig' : ∀ b, (phaseOf (rollLoop cfg s.heap.length
        ⟨s.heap, s.reqs, grantsIn cfg (s.now / cfg.win) o.grants, []⟩).reqs b).eligible = true →
      (phaseOf s.reqs b).eligible = true ∧
        b ∉ (rollLoop cfg s.heap.length ⟨s.heap, s.reqs, grantsIn cfg (s.now / cfg.win) o.grants, []⟩).rel := by
    intro b hl
    rw [f.phase b] at hl
    split at hl
    · rw [handoff_not_eligible] at hl; simp at hl
    · next hn => exact ⟨hl, hn⟩
  have hin : ∀ b, (phaseOf (rollLoop cfg s.heap.length
        ⟨s.heap, s.reqs, grantsIn cfg (s.now / cfg.win) o.grants, []⟩).reqs b).eligible = true →
      b ∈ (rollLoop cfg s.heap.length ⟨s.heap, s.reqs, grantsIn cfg (s.now / cfg.win) o.grants, []⟩).heap := by
    intro b hl
    obtain ⟨h1, h2⟩ := helig' b hl
    exact hstay b h1 h2
  constructor
  · exact f
  · simp only [relSafe, Bool.and_eq_true, List.all_eq_true, decide_eq_true_eq]
    refine ⟨⟨?_, f.nodup⟩, ?_⟩
    · intro a ha; rw [inv.reqs]; exact f.elig a ha
    · rw [inv.now]; omega
  · simp only [relFair, Bool.and_eq_true, Bool.or_eq_true, List.all_eq_true,
      List.contains_iff_mem, Bool.not_eq_true', decide_eq_true_eq]
    constructor
    · intro b hb'
      have hl := mem_eligIds.mp hb'
      rw [inv.reqs] at hl
      by_cases hn : b ∈ (rollLoop cfg s.heap.length
          ⟨s.heap, s.reqs, grantsIn cfg (s.now / cfg.win) o.grants, []⟩).rel
      · exact Or.inl hn
      · right
        intro a ha'
        rw [inv.reqs]
        exact f.order a ha' b (hstay b hl hn)
    · rcases hstop with h1 | h1
      · right; rw [inv.now]; omega
      · left
        intro b hb'
        have hl := mem_eligIds.mp hb'
        rw [inv.reqs] at hl
        by_cases hn : b ∈ (rollLoop cfg s.heap.length
            ⟨s.heap, s.reqs, grantsIn cfg (s.now / cfg.win) o.grants, []⟩).rel
        · exact hn
        · have := hstay b hl hn
          rw [h1] at this
          simp at this
  · exact hcnt
  · exact hle
  · rw [inv.reqs]; exact f.reqs
  · exact f.wcount
  · exact hin
  · intro hlt b
    rcases hstop with h1 | h1
    · omega
    · cases hl : (phaseOf (rollLoop cfg s.heap.length
          ⟨s.heap, s.reqs, grantsIn cfg (s.now / cfg.win) o.grants, []⟩).reqs b).eligible
      · rfl
      · have := hin b hl
        rw [h1] at this
        simp at this

theorem eligible_append {reqs : List Req} {q : Req} {b : Nat} (hq : q.ph.eligible = false)
    (h : (phaseOf (reqs ++ [q]) b).eligible = true) : (phaseOf reqs b).eligible = true := by
  rw [phaseOf_append] at h
  split at h
  · exact h
  · split at h
    · rw [hq] at h; simp at h
    · simp [Phase.eligible] at h

theorem step_inv {cfg : Cfg} {s s' : State} {o : Obs} {l : Label} {e : Ev}
    (inv : Inv cfg s o) (h : step cfg s l = some (s', e)) :
    safeOk cfg o e = true ∧ fairOk cfg o e = true ∧ Inv cfg s' (obsStep cfg o e) := by
  cases l with
  | tick d =>
    simp only [step, Option.some.injEq, Prod.mk.injEq] at h
    obtain ⟨rfl, rfl⟩ := h
    refine ⟨rfl, rfl, ?_⟩
    constructor
    · exact inv.reqs
    · simp [obsStep, inv.now]
    · exact Nat.le_trans inv.widx_le (Nat.div_le_div_right (Nat.le_add_right _ _))
    · exact inv.grants_le
    · exact inv.counter
    · exact inv.quota
    · exact inv.size
    · exact inv.inHeap
  | enq prio ttl =>
    simp only [step, windowUpdate_spec inv] at h
    have sv := served inv
    have hc := sv.counter
    have hle := sv.le
    split at h
    · next hlt =>
      simp only [Option.some.injEq, Prod.mk.injEq] at h
      obtain ⟨rfl, rfl⟩ := h
      refine ⟨?_, sv.fair, ?_⟩
      · simp only [safeOk, Bool.and_eq_true, decide_eq_true_eq]
        exact ⟨sv.safe, by rw [inv.now]; omega⟩
      · constructor
        · simp only [obsStep, inv.now]; rw [sv.reqs]
        · exact inv.now
        · exact Nat.le_refl _
        · intro t ht
          simp only [obsStep, List.mem_cons, List.mem_append, List.mem_map] at ht
          rcases ht with ht | ⟨_, _, ht⟩ | ht
          · subst ht; rw [inv.now]; exact Nat.le_refl _
          · subst ht; rw [inv.now]; exact Nat.le_refl _
          · exact Nat.le_trans (inv.grants_le t ht) inv.widx_le
        · simp only [obsStep, grantsIn_cons, grantsIn_release, inv.now]
          simp; omega
        · intro w
          simp only [obsStep, grantsIn_cons, grantsIn_release, inv.now]
          have := inv.quota w
          split <;> simp_all <;> omega
        · simp only [waitingCount_append, Phase.waiting]; rw [sv.wcount]; simpa using inv.size
        · intro b hb
          exact sv.inHeap b (eligible_append rfl hb)
    · next hge =>
      split at h
      · next hfull =>
        simp only [Option.some.injEq, Prod.mk.injEq] at h
        obtain ⟨rfl, rfl⟩ := h
        refine ⟨?_, sv.fair, ?_⟩
        · simp only [safeOk, Bool.and_eq_true, decide_eq_true_eq]
          refine ⟨⟨sv.safe, by rw [inv.now]; omega⟩, ?_⟩
          rw [inv.reqs, ← sv.wcount]; exact hfull
        · constructor
          · simp only [obsStep, inv.now]; rw [sv.reqs]
          · exact inv.now
          · exact Nat.le_refl _
          · intro t ht
            simp only [obsStep, List.mem_append, List.mem_map] at ht
            rcases ht with ⟨_, _, ht⟩ | ht
            · subst ht; rw [inv.now]; exact Nat.le_refl _
            · exact Nat.le_trans (inv.grants_le t ht) inv.widx_le
          · simp only [obsStep, grantsIn_release, inv.now]
            simp; omega
          · intro w
            simp only [obsStep, grantsIn_release, inv.now]
            have := inv.quota w
            split <;> simp_all <;> omega
          · simp only [waitingCount_append, Phase.waiting]; rw [sv.wcount]; simpa using inv.size
          · intro b hb
            exact sv.inHeap b (eligible_append rfl hb)
      · next hroom =>
        simp only [Option.some.injEq, Prod.mk.injEq] at h
        obtain ⟨rfl, rfl⟩ := h
        refine ⟨?_, sv.fair, ?_⟩
        · simp only [safeOk, Bool.and_eq_true, decide_eq_true_eq]
          refine ⟨⟨sv.safe, by rw [inv.now]; omega⟩, ?_⟩
          rw [inv.reqs, ← sv.wcount]; omega
        · constructor
          · simp only [obsStep, inv.now]; rw [sv.reqs]
          · exact inv.now
          · exact Nat.le_refl _
          · intro t ht
            simp only [obsStep, List.mem_append, List.mem_map] at ht
            rcases ht with ⟨_, _, ht⟩ | ht
            · subst ht; rw [inv.now]; exact Nat.le_refl _
            · exact Nat.le_trans (inv.grants_le t ht) inv.widx_le
          · simp only [obsStep, grantsIn_release, inv.now]
            simp; omega
          · intro w
            simp only [obsStep, grantsIn_release, inv.now]
            have := inv.quota w
            split <;> simp_all <;> omega
          · have hw := sv.wcount
            simp only [waitingCount_append, Phase.waiting]; simp; omega
          · intro b hb
            simp only at hb ⊢
            rw [phaseOf_append] at hb
            simp only [List.mem_append, List.mem_singleton]
            split at hb
            · exact Or.inl (sv.inHeap b hb)
            · split at hb
              · next hbl => exact Or.inr hbl
              · simp [Phase.eligible] at hb
  | park r =>
    simp only [step] at h
    split at h
    · next hgap =>
      simp only [Option.some.injEq, Prod.mk.injEq] at h
      obtain ⟨rfl, rfl⟩ := h
      refine ⟨by simp [safeOk, inv.reqs, hgap], rfl, ?_⟩
      have hpp : parkPhase o.now (getReq o.reqs r) = .parked (s.now + (getReq s.reqs r).ttl) := by
        have : (getReq s.reqs r).ph = .gap := hgap
        simp [parkPhase, inv.reqs, inv.now, this]
      constructor
      · simp only [obsStep, hpp]; rw [inv.reqs]
      · exact inv.now
      · exact inv.widx_le
      · exact inv.grants_le
      · exact inv.counter
      · exact inv.quota
      · simp only
        rw [waitingCount_setPhase_same _ _ _ (by rw [hgap]; rfl) rfl]
        exact inv.size
      · intro b hb
        exact inv.inHeap b (eligible_of_eligible_setPhase (fun _ => by rw [hgap]; rfl) hb)
    · next hgd =>
      simp only [Option.some.injEq, Prod.mk.injEq] at h
      obtain ⟨rfl, rfl⟩ := h
      refine ⟨by simp [safeOk, inv.reqs, hgd], rfl, ?_⟩
      have hpp : parkPhase o.now (getReq o.reqs r) = .wokeDone := by
        have : (getReq s.reqs r).ph = .gapDone := hgd
        simp [parkPhase, inv.reqs, this]
      constructor
      · simp only [obsStep, hpp]; rw [inv.reqs]
      · exact inv.now
      · exact inv.widx_le
      · exact inv.grants_le
      · exact inv.counter
      · exact inv.quota
      · simp only
        rw [waitingCount_setPhase_same _ _ _ (by rw [hgd]; rfl) rfl]
        exact inv.size
      · intro b hb
        exact inv.inHeap b (eligible_of_eligible_setPhase (fun h => by simp [Phase.eligible] at h) hb)
    · simp at h
  | expire r =>
    simp only [step] at h
    split at h
    · next dl hp =>
      split at h
      · next hdl =>
        simp only [Option.some.injEq, Prod.mk.injEq] at h
        obtain ⟨rfl, rfl⟩ := h
        refine ⟨by simp [safeOk, inv.reqs, hp, inv.now, hdl], rfl, ?_⟩
        constructor
        · simp [obsStep, inv.reqs]
        · exact inv.now
        · exact inv.widx_le
        · exact inv.grants_le
        · exact inv.counter
        · exact inv.quota
        · simp only
          rw [waitingCount_setPhase_same _ _ _ (by rw [hp]; rfl) rfl]
          exact inv.size
        · intro b hb
          exact inv.inHeap b (eligible_of_eligible_setPhase (fun _ => by rw [hp]; rfl) hb)
      · simp at h
    · simp at h
  | finish r =>
    simp only [step] at h
    split at h
    · next hp =>
      simp only [Option.some.injEq, Prod.mk.injEq] at h
      obtain ⟨rfl, rfl⟩ := h
      refine ⟨by simp [safeOk, inv.reqs, hp], rfl, ?_⟩
      constructor
      · simp [obsStep, inv.reqs]
      · exact inv.now
      · exact inv.widx_le
      · exact inv.grants_le
      · exact inv.counter
      · exact inv.quota
      · exact Nat.le_trans (waitingCount_setPhase_le _ _ _ (by rw [hp]; rfl)) inv.size
      · intro b hb
        exact inv.inHeap b (eligible_of_eligible_setPhase (fun h => by simp [Phase.eligible] at h) hb)
    · next hp =>
      simp only [Option.some.injEq, Prod.mk.injEq] at h
      obtain ⟨rfl, rfl⟩ := h
      refine ⟨by simp [safeOk, inv.reqs, hp], rfl, ?_⟩
      constructor
      · simp [obsStep, inv.reqs]
      · exact inv.now
      · exact inv.widx_le
      · exact inv.grants_le
      · exact inv.counter
      · exact inv.quota
      · exact Nat.le_trans (waitingCount_setPhase_le _ _ _ (by rw [hp]; rfl)) inv.size
      · intro b hb
        exact inv.inHeap b (eligible_of_eligible_setPhase (fun h => by simp [Phase.eligible] at h) hb)
    · next hp =>
      simp only [Option.some.injEq, Prod.mk.injEq] at h
      obtain ⟨rfl, rfl⟩ := h
      refine ⟨by simp [safeOk, inv.reqs, hp], rfl, ?_⟩
      constructor
      · simp [obsStep, inv.reqs]
      · exact inv.now
      · exact inv.widx_le
      · exact inv.grants_le
      · exact inv.counter
      · exact inv.quota
      · exact Nat.le_trans (waitingCount_setPhase_le _ _ _ (by rw [hp]; rfl)) inv.size
      · intro b hb
        exact inv.inHeap b (eligible_of_eligible_setPhase (fun h => by simp [Phase.eligible] at h) hb)
    · simp at h
  | roll =>
    simp only [step, windowUpdate_spec inv] at h
    have sv := served inv
    have hc := sv.counter
    have hle := sv.le
    split at h
    · next hdue =>
      simp only [Option.some.injEq, Prod.mk.injEq] at h
      obtain ⟨rfl, rfl⟩ := h
      refine ⟨sv.safe, sv.fair, ?_⟩
      constructor
      · simp only [obsStep]; rw [sv.reqs]
      · exact inv.now
      · exact Nat.le_refl _
      · intro t ht
        simp only [obsStep, List.mem_append, List.mem_map] at ht
        rcases ht with ⟨_, _, ht⟩ | ht
        · subst ht; rw [inv.now]; exact Nat.le_refl _
        · exact Nat.le_trans (inv.grants_le t ht) inv.widx_le
      · simp only [obsStep, grantsIn_release, inv.now]
        simp; omega
      · intro w
        simp only [obsStep, grantsIn_release, inv.now]
        have := inv.quota w
        split <;> simp_all <;> omega
      · simp only; rw [sv.wcount]; exact inv.size
      · exact sv.inHeap
    · simp at h

/-! ### whole runs -/

theorem run_inv {cfg : Cfg} (ls : List Label) {s s' : State} {o : Obs} {es : List Ev}
    (inv : Inv cfg s o) (h : run cfg s ls = some (s', es)) :
    safeFrom cfg o es = true ∧ fairFrom cfg o es = true ∧ Inv cfg s' (es.foldl (obsStep cfg) o) := by
  induction ls generalizing s o es with
  | nil =>
    simp only [run, Option.some.injEq, Prod.mk.injEq] at h
    obtain ⟨rfl, rfl⟩ := h
    exact ⟨rfl, rfl, inv⟩
  | cons l ls ih =>
    simp only [run] at h
    split at h
    · simp at h
    · next s1 e hstep =>
      split at h
      · simp at h
      · next s2 es' hrun =>
        simp only [Option.some.injEq, Prod.mk.injEq] at h
        obtain ⟨rfl, rfl⟩ := h
        obtain ⟨hs, hf, inv1⟩ := step_inv inv hstep
        obtain ⟨hs', hf', inv2⟩ := ih inv1 hrun
        exact ⟨by simp [safeFrom, hs, hs'], by simp [fairFrom, hf, hf'], by simpa using inv2⟩

theorem safeFrom_split (cfg : Cfg) (pre : List Ev) (e : Ev) (post : List Ev) (o : Obs)
    (h : safeFrom cfg o (pre ++ e :: post) = true) : safeOk cfg (pre.foldl (obsStep cfg) o) e = true := by
  induction pre generalizing o with
  | nil => simp only [List.nil_append, safeFrom, Bool.and_eq_true] at h; exact h.1
  | cons p pre ih =>
    simp only [List.cons_append, safeFrom, Bool.and_eq_true] at h
    exact ih _ h.2

theorem fairFrom_split (cfg : Cfg) (pre : List Ev) (e : Ev) (post : List Ev) (o : Obs)
    (h : fairFrom cfg o (pre ++ e :: post) = true) : fairOk cfg (pre.foldl (obsStep cfg) o) e = true := by
  induction pre generalizing o with
  | nil => simp only [List.nil_append, fairFrom, Bool.and_eq_true] at h; exact h.1
  | cons p pre ih =>
    simp only [List.cons_append, fairFrom, Bool.and_eq_true] at h
    exact ih _ h.2

/-- The batch of hand-offs of an event, if it has one. -/
def evRel : Ev → Option (List Nat)
  | .enq _ _ _ rel => some rel
  | .roll rel => some rel
  | _ => none

/-- One serving step (roll-over or Enqueue) from ANY state, unfolded into the loop facts. -/
theorem serve_facts {cfg : Cfg} {s s' : State} {l : Label} {e : Ev} {rel : List Nat}
    (h : step cfg s l = some (s', e)) (he : evRel e = some rel) :
    ∃ c L, LoopFacts cfg s.heap.length ⟨s.heap, s.reqs, c, []⟩ L rel ∧
      (s'.heap = L.heap ∨ s'.heap = L.heap ++ [s.reqs.length]) ∧
      (s'.counter = L.counter ∨ (s'.counter = L.counter + 1 ∧ L.counter < cfg.quota)) ∧
      (∀ b, b < s.reqs.length → phaseOf s'.reqs b = phaseOf L.reqs b) := by
  cases l with
  | tick d =>
    simp only [step, Option.some.injEq, Prod.mk.injEq] at h
    obtain ⟨rfl, rfl⟩ := h; simp [evRel] at he
  | park r =>
    simp only [step] at h
    split at h <;> simp only [Option.some.injEq, Prod.mk.injEq, reduceCtorEq] at h
    all_goals (obtain ⟨rfl, rfl⟩ := h; simp [evRel] at he)
  | expire r =>
    simp only [step] at h
    split at h
    · split at h
      · simp only [Option.some.injEq, Prod.mk.injEq] at h
        obtain ⟨rfl, rfl⟩ := h; simp [evRel] at he
      · simp at h
    · simp at h
  | finish r =>
    simp only [step] at h
    split at h <;> simp only [Option.some.injEq, Prod.mk.injEq, reduceCtorEq] at h
    all_goals (obtain ⟨rfl, rfl⟩ := h; simp [evRel] at he)
  | roll =>
    simp only [step] at h
    split at h
    · obtain ⟨new, f⟩ := rollLoop_facts cfg s.heap.length
        ⟨s.heap, s.reqs, (windowUpdate cfg s.now s.widx s.counter).2, []⟩
      simp only [Option.some.injEq, Prod.mk.injEq] at h
      obtain ⟨rfl, rfl⟩ := h
      simp only [evRel, Option.some.injEq] at he
      have := f.rel
      simp only [List.nil_append] at this
      rw [this] at he
      subst he
      exact ⟨_, _, f, Or.inl rfl, Or.inl rfl, fun _ _ => rfl⟩
    · simp at h
  | enq prio ttl =>
    simp only [step] at h
    obtain ⟨new, f⟩ := rollLoop_facts cfg s.heap.length
      ⟨s.heap, s.reqs, (windowUpdate cfg s.now s.widx s.counter).2, []⟩
    have hr := f.rel
    simp only [List.nil_append] at hr
    have hlen := f.len
    simp only at hlen
    split at h
    · next hlt =>
      simp only [Option.some.injEq, Prod.mk.injEq] at h
      obtain ⟨rfl, rfl⟩ := h
      simp only [evRel, Option.some.injEq] at he
      rw [hr] at he; subst he
      refine ⟨_, _, f, Or.inl rfl, Or.inr ⟨rfl, hlt⟩, ?_⟩
      intro b hb
      simp only [phaseOf_append, hlen, hb, if_true]
    · split at h
      · simp only [Option.some.injEq, Prod.mk.injEq] at h
        obtain ⟨rfl, rfl⟩ := h
        simp only [evRel, Option.some.injEq] at he
        rw [hr] at he; subst he
        refine ⟨_, _, f, Or.inl rfl, Or.inl rfl, ?_⟩
        intro b hb
        simp only [phaseOf_append, hlen, hb, if_true]
      · simp only [Option.some.injEq, Prod.mk.injEq] at h
        obtain ⟨rfl, rfl⟩ := h
        simp only [evRel, Option.some.injEq] at he
        rw [hr] at he; subst he
        refine ⟨_, _, f, Or.inr (by rw [hlen]), Or.inl rfl, ?_⟩
        intro b hb
        simp only [phaseOf_append, hlen, hb, if_true]

/-! ### bursts: only Enqueue steps, the clock stands still -/

theorem step_enq_event {cfg : Cfg} {s s' : State} {p ttl : Nat} {e : Ev}
    (h : step cfg s (.enq p ttl) = some (s', e)) : ∃ res rel, e = .enq p ttl res rel := by
  simp only [step] at h
  split at h
  · simp only [Option.some.injEq, Prod.mk.injEq] at h; exact ⟨_, _, h.2.symm⟩
  · split at h
    · simp only [Option.some.injEq, Prod.mk.injEq] at h; exact ⟨_, _, h.2.symm⟩
    · simp only [Option.some.injEq, Prod.mk.injEq] at h; exact ⟨_, _, h.2.symm⟩

/-- All events are Enqueue results. -/
def allEnq : List Ev → Prop
  | [] => True
  | .enq _ _ _ _ :: es => allEnq es
  | _ :: _ => False

theorem run_replicate_enq {cfg : Cfg} {p ttl : Nat} (k : Nat) {s s' : State} {es : List Ev}
    (h : run cfg s (List.replicate k (.enq p ttl)) = some (s', es)) : allEnq es := by
  induction k generalizing s es with
  | zero =>
    simp only [List.replicate, run, Option.some.injEq, Prod.mk.injEq] at h
    obtain ⟨_, rfl⟩ := h; trivial
  | succ k ih =>
    simp only [List.replicate, run] at h
    split at h
    · simp at h
    · next s1 e hstep =>
      split at h
      · simp at h
      · next s2 es' hrun =>
        simp only [Option.some.injEq, Prod.mk.injEq] at h
        obtain ⟨rfl, rfl⟩ := h
        obtain ⟨res, rel, rfl⟩ := step_enq_event hstep
        show allEnq es'
        exact ih hrun

/-- While only Enqueue events happen the observer's clock stands still and every immediate pass
    is a grant in the window of that instant. -/
theorem passCount_le_grants (cfg : Cfg) (es : List Ev) (o : Obs) (h : allEnq es) :
    (es.foldl (obsStep cfg) o).now = o.now ∧
    grantsIn cfg (o.now / cfg.win) o.grants + passCount es
      ≤ grantsIn cfg (o.now / cfg.win) (es.foldl (obsStep cfg) o).grants := by
  induction es generalizing o with
  | nil => simp [passCount]
  | cons e es ih =>
    cases e with
    | enq p ttl res rel =>
      have ih' := ih (obsStep cfg o (.enq p ttl res rel)) h
      cases res <;> simp only [obsStep, List.foldl_cons, passCount] at ih' ⊢
      · refine ⟨ih'.1, ?_⟩
        have := ih'.2
        simp only [grantsIn_cons, grantsIn_release] at this
        simp at this; omega
      · refine ⟨ih'.1, ?_⟩
        have := ih'.2
        simp only [grantsIn_release] at this
        simp at this; omega
      · refine ⟨ih'.1, ?_⟩
        have := ih'.2
        simp only [grantsIn_release] at this
        simp at this; omega
    | tick d => exact absurd h (by simp [allEnq])
    | park r => exact absurd h (by simp [allEnq])
    | roll rel => exact absurd h (by simp [allEnq])
    | expire r => exact absurd h (by simp [allEnq])
    | finish r ok => exact absurd h (by simp [allEnq])

end LunarVerif.C10
