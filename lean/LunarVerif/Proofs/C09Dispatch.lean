import LunarVerif.Model.C09Dispatch
import LunarVerif.Proofs.C09
/-! Helper lemmas for the dispatcher level of C09. -/
namespace LunarVerif.C09

theorem nodup_iff_count_le_one (l : List String) : (∀ x ∈ l, List.count x l ≤ 1) ↔ l.Nodup := by
  induction l with
  | nil => simp
  | cons a l ih =>
    rw [List.nodup_cons]
    constructor
    · intro h
      have ha := h a (by simp)
      rw [List.count_cons_self] at ha
      have ha0 : List.count a l = 0 := by omega
      refine ⟨List.count_eq_zero.mp ha0, ih.mp ?_⟩
      intro x hx
      have := h x (by simp [hx])
      rw [List.count_cons] at this
      omega
    · intro ⟨hna, hnd⟩ x hx
      rw [List.count_cons]
      by_cases hxa : a = x
      · subst hxa
        have : List.count a l = 0 := List.count_eq_zero.mpr hna
        simp [this]
      · have hxl : x ∈ l := by
          simp only [List.mem_cons] at hx
          rcases hx with h | h
          · exact absurd h.symm hxa
          · exact h
        have := ih.mpr hnd x hxl
        simp [hxa]
        exact this

theorem accepted_iff_nodup (ps : List DPol) : accepted ps = true ↔ (ps.map (·.name)).Nodup := by
  rw [← nodup_iff_count_le_one]
  simp only [accepted, hasDuplicateNames, Bool.not_eq_true', List.any_eq_false, decide_eq_true_eq]
  constructor
  · intro h x hx; have := h x hx; omega
  · intro h x hx; have := h x hx; omega

/-- policies that are a throttling remedy or can never answer a request -/
def plain (p : DPol) : Bool := isTransparent p || (remedyOf p).isSome

theorem stepPol_transparent (cap : CapFn) (url method : String) (hs : List (String × String)) (t : Nat)
    (p : DPol) (s : DState) (h : isTransparent p = true) :
    ∃ rep, stepPol cap url method hs t p s = (s, .pass, none, rep) := by
  unfold isTransparent at h
  unfold stepPol
  split <;> simp_all

theorem stepPol_throttle (cap : CapFn) (url method : String) (hs : List (String × String)) (t : Nat)
    (p : DPol) (s : DState) (r : Remedy) (h : remedyOf p = some r) :
    stepPol cap url method hs t p s
      = ({ s with lim := (pluginStep cap s.lim r hs t).1 }, toDAns (pluginStep cap s.lim r hs t).2, none, []) := by
  unfold remedyOf at h
  unfold stepPol
  split at h <;> simp_all

theorem runChain_no_throttle (cap : CapFn) (url method : String) (hs : List (String × String)) (t : Nat)
    (l : List DPol) (s : DState) (ans : DAns) (hp : l.all plain = true) (h : l.filterMap remedyOf = []) :
    runChain cap url method t l s hs ans = (s, ans) := by
  induction l generalizing s ans with
  | nil => rfl
  | cons p ps ih =>
    simp only [List.all_cons, Bool.and_eq_true] at hp
    cases hr : remedyOf p with
    | none =>
      simp only [List.filterMap_cons, hr] at h
      have htr : isTransparent p = true := by
        have := hp.1; simp only [plain, hr, Option.isSome_none, Bool.or_false] at this; exact this
      obtain ⟨rep, hst⟩ := stepPol_transparent cap url method hs t p s htr
      simp only [runChain, hst]
      have : (if ans == DAns.pass then DAns.pass else ans) = ans := by
        by_cases ha : ans = .pass <;> simp [ha]
      rw [this]
      exact ih s ans hp.2 h
    | some r => simp [List.filterMap_cons, hr] at h

theorem runChain_single_throttle (cap : CapFn) (url method : String) (hs : List (String × String)) (t : Nat)
    (l : List DPol) (s : DState) (r : Remedy) (hp : l.all plain = true) (h : l.filterMap remedyOf = [r]) :
    runChain cap url method t l s hs .pass
      = ({ s with lim := (pluginStep cap s.lim r hs t).1 }, toDAns (pluginStep cap s.lim r hs t).2) := by
  induction l generalizing s with
  | nil => simp at h
  | cons p ps ih =>
    simp only [List.all_cons, Bool.and_eq_true] at hp
    cases hr : remedyOf p with
    | none =>
      simp only [List.filterMap_cons, hr] at h
      have htr : isTransparent p = true := by
        have := hp.1; simp only [plain, hr, Option.isSome_none, Bool.or_false] at this; exact this
      obtain ⟨rep, hst⟩ := stepPol_transparent cap url method hs t p s htr
      simp only [runChain, hst]
      exact ih s hp.2 h
    | some r' =>
      simp only [List.filterMap_cons, hr, List.cons.injEq] at h
      obtain ⟨hrr, hrest⟩ := h
      subst hrr
      simp only [runChain, stepPol_throttle cap url method hs t p s r' hr]
      rw [runChain_no_throttle cap url method hs t ps _ _ hp.2 hrest]
      simp

end LunarVerif.C09
