import LunarVerif.Model.C09Dispatch
import LunarVerif.Proofs.C09
/-! Helper lemmas for the dispatcher level of C09. -/
namespace LunarVerif.C09

theorem nodup_iff_count_le_one (l : List String) : (∀ x ∈ l, List.count x l ≤ 1) ↔ l.Nodup := by
  induction l with
  | nil => simp
  | cons a l ih =>
    rw [List.nodup_cons]
    constructor
    · intro h
      have ha := h a (by simp)
      rw [List.count_cons_self] at ha
      have ha0 : List.count a l = 0 := by omega
      refine ⟨List.count_eq_zero.mp ha0, ih.mp ?_⟩
      intro x hx
      have := h x (by simp [hx])
      rw [List.count_cons] at this
      omega
    · intro ⟨hna, hnd⟩ x hx
      rw [List.count_cons]
      by_cases hxa : a = x
      · subst hxa
        have : List.count a l = 0 := List.count_eq_zero.mpr hna
        simp [this]
      · have hxl : x ∈ l := by
          simp only [List.mem_cons] at hx
          rcases hx with h | h
          · exact absurd h.symm hxa
          · exact h
        have := ih.mpr hnd x hxl
        simp [hxa]
        exact this

theorem accepted_iff_nodup (ps : List DPol) : accepted ps = true ↔ (ps.map (·.name)).Nodup := by
  rw [← nodup_iff_count_le_one]
  simp only [accepted, hasDuplicateNames, Bool.not_eq_true', List.any_eq_false, decide_eq_true_eq]
  constructor
  · intro h x hx; have := h x hx; omega
  · intro h x hx; have := h x hx; omega

theorem runChain_no_throttle (cap : CapFn) (hs : List (String × String)) (t : Nat) (l : List DPol)
    (st : State Key) (ans : Answer) (h : l.filterMap remedyOf = []) :
    runChain cap hs t l st ans = (st, ans) := by
  induction l generalizing st ans with
  | nil => rfl
  | cons p ps ih =>
    cases hp : remedyOf p with
    | none =>
      simp only [List.filterMap_cons, hp] at h
      simp only [runChain, hp]
      exact ih st ans h
    | some r => simp [List.filterMap_cons, hp] at h

theorem runChain_single_throttle (cap : CapFn) (hs : List (String × String)) (t : Nat) (l : List DPol)
    (st : State Key) (r : Remedy) (h : l.filterMap remedyOf = [r]) :
    runChain cap hs t l st .noop = pluginStep cap st r hs t := by
  induction l generalizing st with
  | nil => simp at h
  | cons p ps ih =>
    cases hp : remedyOf p with
    | none =>
      simp only [List.filterMap_cons, hp] at h
      simp only [runChain, hp]
      exact ih st h
    | some r' =>
      simp only [List.filterMap_cons, hp, List.cons.injEq] at h
      obtain ⟨hr, hrest⟩ := h
      subst hr
      simp only [runChain, hp]
      rw [runChain_no_throttle cap hs t ps _ _ hrest]
      simp

end LunarVerif.C09
