import LunarVerif.Proofs.C01Api
/-! C01: at a `fixed_window` quota (no custom counter) every charge, admission and refund counts 1, so
the cost sums of the reconstructed windows are numbers of requests. -/
namespace LunarVerif.C01

/-- Pending amounts at the levels of plain `fixed_window` quotas are 1. -/
def UnitSt (cfg : Cfg) (st : St) : Prop :=
  ∀ (k : Key) (c : QuotaCfg), cfg.quotas[k.1]? = some c → c.cc = none →
    ∀ r amt, (st.at k).memo.lookup r = some (some amt) → amt = 1

/-- The amount carried by an event that changes a window of level `k`. -/
def LEv.unitAt (k : Key) : LEv → Prop
  | .inc k' _ _ cost .increased => k' = k → cost = 1
  | .allowed k' _ true amt => k' = k → amt = 1
  | .refund k' _ true amt => k' = k → amt = 1
  | _ => True

theorem costOf_unit (c : QuotaCfg) (h : Hdrs) (hc : c.cc = none) : costOf c h = 1 := by
  simp [costOf, hc]

theorem pendingAmt_unit {l : Lvl} {r : Rid} (hu : ∀ r amt, l.memo.lookup r = some (some amt) → amt = 1)
    (hb : ∃ c, l.memo.lookup r = some (some c)) : pendingAmt l r = 1 := by
  obtain ⟨c, hc⟩ := hb
  rw [pendingAmt_of_lookup l r c hc]
  exact hu r c hc

theorem refundLevel_true_iff (l : Lvl) (r : Rid) (h : (refundLevel l r).2 = true) :
    ∃ c, l.memo.lookup r = some (some c) := by
  unfold refundLevel at h
  cases hl : l.memo.lookup r with
  | none => simp [hl] at h
  | some v =>
    cases v with
    | none => simp [hl] at h
    | some c => exact ⟨c, rfl⟩

theorem stepThread_unit (cfg : Cfg) (st : St) (now tid : Nat) (th : Thread)
    (hu : UnitSt cfg st) (hv : ∀ p ∈ th.pc.todo, validPair cfg p) :
    UnitSt cfg (stepThread cfg st now tid th).1 ∧
    ∀ (k : Key) (c : QuotaCfg), cfg.quotas[k.1]? = some c → c.cc = none →
      ∀ e ∈ (stepThread cfg st now tid th).2.2, LEv.unitAt k e := by
  unfold stepThread
  cases hpc : th.pc with
  | done v => exact ⟨hu, fun _ _ _ _ e he => by simp at he⟩
  | inc todo charged thenA =>
    cases todo with
    | nil => exact ⟨hu, fun _ _ _ _ e he => by simp at he⟩
    | cons ac rest =>
      obtain ⟨a, c⟩ := ac
      rw [hpc] at hv
      have hac : cfg.quotas[a]? = some c := hv (a, c) (by simp [Pc.todo])
      dsimp only
      constructor
      · intro k c' hk hcc r amt hl
        rw [St.at_set] at hl
        by_cases hkk : (a, groupOf c th.h) = k
        · simp only [hkk, if_true] at hl
          rw [← hkk] at hl
          have hc' : c' = c := by
            rw [← hkk] at hk; simp only at hk; rw [hac] at hk; exact (Option.some.inj hk).symm
          subst hc'
          rcases incLevel_entries _ _ _ _ _ _ _ _ hl with h1 | ⟨_, h2⟩
          · exact hu (a, groupOf c' th.h) c' hac hcc r amt h1
          · rw [h2]; exact costOf_unit c' th.h hcc
        · simp only [hkk, if_false] at hl
          exact hu k c' hk hcc r amt hl
      · intro k c' hk hcc e he
        simp only [List.mem_singleton] at he
        subst he
        cases hres : (incLevel c.max c.win (st.at (a, groupOf c th.h)) th.r now (costOf c th.h)).2 <;>
          simp only [LEv.unitAt]
        intro hkk
        have hc' : c' = c := by
          rw [← hkk] at hk; simp only at hk; rw [hac] at hk; exact (Option.some.inj hk).symm
        subst hc'
        exact costOf_unit c' th.h hcc
  | refund todo thenA =>
    cases todo with
    | nil => exact ⟨hu, fun _ _ _ _ e he => by simp at he⟩
    | cons ac rest =>
      obtain ⟨a, c⟩ := ac
      rw [hpc] at hv
      have hac : cfg.quotas[a]? = some c := hv (a, c) (by simp [Pc.todo])
      dsimp only
      constructor
      · intro k c' hk hcc r amt hl
        rw [St.at_set] at hl
        by_cases hkk : (a, groupOf c th.h) = k
        · simp only [hkk, if_true] at hl
          rw [← hkk] at hl hk
          exact hu _ c' hk hcc r amt (refundLevel_entries _ _ _ _ hl)
        · simp only [hkk, if_false] at hl
          exact hu k c' hk hcc r amt hl
      · intro k c' hk hcc e he
        simp only [List.mem_singleton] at he
        subst he
        cases hres : (refundLevel (st.at (a, groupOf c th.h)) th.r).2 <;> simp only [LEv.unitAt]
        intro hkk
        rw [← hkk] at hk
        exact pendingAmt_unit (hu _ c' hk hcc) (refundLevel_true_iff _ _ hres)
  | allowed todo =>
    cases todo with
    | nil => exact ⟨hu, fun _ _ _ _ e he => by simp at he⟩
    | cons ac rest =>
      obtain ⟨a, c⟩ := ac
      rw [hpc] at hv
      have hac : cfg.quotas[a]? = some c := hv (a, c) (by simp [Pc.todo])
      dsimp only
      have hst : UnitSt cfg (KMap.set st (a, groupOf c th.h) (allowedLevel (st.at (a, groupOf c th.h)) th.r).1) := by
        intro k c' hk hcc r amt hl
        rw [St.at_set] at hl
        by_cases hkk : (a, groupOf c th.h) = k
        · simp only [hkk, if_true] at hl
          rw [← hkk] at hl hk
          exact hu _ c' hk hcc r amt (allowedLevel_entries _ _ _ _ hl)
        · simp only [hkk, if_false] at hl
          exact hu k c' hk hcc r amt hl
      have hev : ∀ (b : Bool), (allowedLevel (st.at (a, groupOf c th.h)) th.r).2 = b →
          ∀ (k : Key) (c' : QuotaCfg), cfg.quotas[k.1]? = some c' → c'.cc = none →
            LEv.unitAt k (LEv.allowed (a, groupOf c th.h) th.r b (pendingAmt (st.at (a, groupOf c th.h)) th.r)) := by
        intro b hb k c' hk hcc
        cases b with
        | false => simp only [LEv.unitAt]
        | true =>
          simp only [LEv.unitAt]
          intro hkk
          rw [← hkk] at hk
          exact pendingAmt_unit (hu _ c' hk hcc) (allowedLevel_true_iff _ _ hb)
      cases hb : (allowedLevel (st.at (a, groupOf c th.h)) th.r).2 with
      | false =>
        simp only [Bool.false_eq_true, if_false]
        refine ⟨hst, ?_⟩
        intro k c' hk hcc e he
        simp only [List.mem_cons, List.mem_nil_iff, or_false] at he
        rcases he with he | he
        · subst he; simp only [LEv.unitAt]
        · subst he; exact hev false hb k c' hk hcc
      | true =>
        simp only [if_true]
        cases rest with
        | nil =>
          refine ⟨hst, ?_⟩
          intro k c' hk hcc e he
          simp only [List.mem_cons, List.mem_nil_iff, or_false] at he
          rcases he with he | he
          · subst he; simp only [LEv.unitAt]
          · subst he; exact hev true hb k c' hk hcc
        | cons x xs =>
          refine ⟨hst, ?_⟩
          intro k c' hk hcc e he
          simp only [List.mem_singleton] at he
          subst he; exact hev true hb k c' hk hcc
  | dec todo =>
    cases todo with
    | nil => exact ⟨hu, fun _ _ _ _ e he => by simp at he⟩
    | cons ac rest =>
      obtain ⟨a, c⟩ := ac
      dsimp only
      constructor
      · intro k c' hk hcc r amt hl
        rw [St.at_set] at hl
        by_cases hkk : (a, groupOf c th.h) = k
        · simp only [hkk, if_true] at hl
          rw [← hkk] at hl hk
          exact hu _ c' hk hcc r amt (decLevel_entries _ _ _ _ hl)
        · simp only [hkk, if_false] at hl
          exact hu k c' hk hcc r amt hl
      · intro k c' hk hcc e he
        simp only [List.mem_singleton] at he
        subst he; simp only [LEv.unitAt]

structure UInv (cfg : Cfg) (s : Sys) : Prop where
  sys : SysInv cfg s
  st : UnitSt cfg s.st
  log : ∀ (k : Key) (c : QuotaCfg), cfg.quotas[k.1]? = some c → c.cc = none → ∀ e ∈ s.log, LEv.unitAt k e

theorem UInv.init (cfg : Cfg) (t0 : Nat) : UInv cfg (Sys.init t0) := by
  refine ⟨SysInv.init cfg t0, ?_, ?_⟩
  · intro k c _ _ r amt hl; simp [Sys.init, St.at_init, Lvl.init] at hl
  · intro k c _ _ e he; simp [Sys.init] at he

theorem UInv.act (cfg : Cfg) (s : Sys) (a : Act) (inv : UInv cfg s) : UInv cfg (Sys.act cfg s a) := by
  have hsys := SysInv.act cfg s a inv.sys
  cases a with
  | tick d => exact ⟨hsys, inv.st, inv.log⟩
  | spawn kind q r h => exact ⟨hsys, inv.st, inv.log⟩
  | step tid =>
    refine ⟨hsys, ?_, ?_⟩
    · simp only [Sys.act]
      cases hth : s.threads[tid]? with
      | none => exact inv.st
      | some th =>
        exact (stepThread_unit cfg s.st s.now tid th inv.st (inv.sys.thr th (List.mem_of_getElem? hth))).1
    · simp only [Sys.act]
      cases hth : s.threads[tid]? with
      | none => exact inv.log
      | some th =>
        have h1 := stepThread_unit cfg s.st s.now tid th inv.st (inv.sys.thr th (List.mem_of_getElem? hth))
        intro k c hk hcc e he
        simp only [List.mem_append] at he
        rcases he with he | he
        · exact h1.2 k c hk hcc e he
        · exact inv.log k c hk hcc e he

theorem UInv.run (cfg : Cfg) (acts : List Act) : ∀ (s : Sys), UInv cfg s → UInv cfg (Sys.run cfg s acts) := by
  induction acts with
  | nil => intro s h; exact h
  | cons a acts ih => intro s h; exact ih _ (UInv.act cfg s a h)

end LunarVerif.C01
