import LunarVerif.Spec.UrlMatch
/-! Shared lemmas about the trie model (`Model/UrlTree.lean`) against the declarative matcher
(`Spec/UrlMatch.lean`).  Everything is an induction over the URL parts on residual lists. -/
namespace LunarVerif.UrlTree
open LunarVerif.UrlMatch

variable {V V' : Type}

/-! ### `firstSome?` / `lastSome?` -/

theorem firstSome?_some {α β : Type} {f : α → Option β} {l : List α} {b : β}
    (h : firstSome? f l = some b) : ∃ a ∈ l, f a = some b := by
  induction l with
  | nil => simp [firstSome?] at h
  | cons a as ih =>
    unfold firstSome? at h
    cases hfa : f a with
    | some b' =>
      rw [hfa] at h
      exact ⟨a, by simp, by rw [hfa]; exact h⟩
    | none =>
      rw [hfa] at h
      obtain ⟨x, hx, hfx⟩ := ih h
      exact ⟨x, by simp [hx], hfx⟩

theorem firstSome?_none {α β : Type} {f : α → Option β} {l : List α}
    (h : firstSome? f l = none) : ∀ a ∈ l, f a = none := by
  induction l with
  | nil => simp
  | cons a as ih =>
    unfold firstSome? at h
    cases hfa : f a with
    | some b' => rw [hfa] at h; simp at h
    | none =>
      rw [hfa] at h
      intro x hx
      rcases List.mem_cons.mp hx with rfl | hx
      · exact hfa
      · exact ih h x hx

theorem lastSome?_some {α β : Type} {f : α → Option β} {l : List α} {b : β}
    (h : lastSome? f l = some b) : ∃ a ∈ l, f a = some b := by
  induction l with
  | nil => simp [lastSome?] at h
  | cons a as ih =>
    unfold lastSome? at h
    cases hl : lastSome? f as with
    | some b' =>
      rw [hl] at h
      simp only [Option.some.injEq] at h
      subst h
      obtain ⟨x, hx, hfx⟩ := ih hl
      exact ⟨x, by simp [hx], hfx⟩
    | none =>
      rw [hl] at h
      exact ⟨a, by simp, h⟩

theorem lastSome?_none {α β : Type} {f : α → Option β} {l : List α}
    (h : lastSome? f l = none) : ∀ a ∈ l, f a = none := by
  induction l with
  | nil => simp
  | cons a as ih =>
    unfold lastSome? at h
    cases hl : lastSome? f as with
    | some b' => rw [hl] at h; simp at h
    | none =>
      rw [hl] at h
      intro x hx
      rcases List.mem_cons.mp hx with rfl | hx
      · exact h
      · exact ih hl x hx

/-! ### residual steps -/

theorem mem_step {k : Key} {res : Res V} {rest : List Part} {v : Option V} :
    (rest, v) ∈ step k res ↔ ∃ p, (p :: rest, v) ∈ res ∧ p.seg.key = k := by
  unfold step
  rw [List.mem_filterMap]
  constructor
  · rintro ⟨⟨ps, v'⟩, hmem, hst⟩
    unfold stepEntry at hst
    cases ps with
    | nil => simp at hst
    | cons p rest' =>
      by_cases hk : p.seg.key = k
      · simp [hk] at hst
        obtain ⟨h1, h2⟩ := hst
        subst h1; subst h2
        exact ⟨p, hmem, hk⟩
      · simp [hk] at hst
  · rintro ⟨p, hmem, hk⟩
    exact ⟨(p :: rest, v), hmem, by simp [stepEntry, hk]⟩

theorem constFlag?_some {res : Res V} {s : String} {b : Bool} (h : constFlag? res s = some b) :
    ∃ p rest v, (p :: rest, v) ∈ res ∧ p.seg = .lit s ∧ p.host = b := by
  obtain ⟨⟨ps, v⟩, hmem, hc⟩ := firstSome?_some h
  unfold constHead at hc
  cases ps with
  | nil => simp at hc
  | cons p rest =>
    by_cases hp : p.seg = .lit s
    · simp [hp] at hc
      exact ⟨p, rest, v, hmem, hp, hc⟩
    · simp [hp] at hc

theorem constFlag?_none {res : Res V} {s : String} (h : constFlag? res s = none)
    {p : Part} {rest : List Part} {v : Option V} (hmem : (p :: rest, v) ∈ res) : p.seg ≠ .lit s := by
  have := firstSome?_none h _ hmem
  intro hp
  simp [constHead, hp] at this

theorem parChild?_some {res : Res V} {n : String} {b : Bool} (h : parChild? res = some (n, b)) :
    ∃ p rest v, (p :: rest, v) ∈ res ∧ p.seg = .par n ∧ p.host = b := by
  obtain ⟨⟨ps, v⟩, hmem, hc⟩ := firstSome?_some h
  unfold parHead at hc
  cases ps with
  | nil => simp at hc
  | cons p rest =>
    cases hs : p.seg with
    | par n' =>
      simp [hs] at hc
      obtain ⟨h1, h2⟩ := hc
      subst h1
      exact ⟨p, rest, v, hmem, hs, h2⟩
    | lit s => simp [hs] at hc
    | wild => simp [hs] at hc

theorem parChild?_none {res : Res V} (h : parChild? res = none)
    {p : Part} {rest : List Part} {v : Option V} (hmem : (p :: rest, v) ∈ res) : p.seg.isPar = false := by
  have := firstSome?_none h _ hmem
  cases hs : p.seg with
  | par n => simp [parHead, hs] at this
  | lit s => rfl
  | wild => rfl

theorem wildChild?_some {res : Res V} {wv : Option V} (h : wildChild? res = some wv) :
    ∃ p rest, (p :: rest, wv) ∈ res ∧ p.seg = .wild := by
  obtain ⟨⟨ps, v⟩, hmem, hc⟩ := lastSome?_some h
  unfold wildHead at hc
  cases ps with
  | nil => simp at hc
  | cons p rest =>
    by_cases hp : p.seg = .wild
    · simp [hp] at hc
      subst hc
      exact ⟨p, rest, hmem, hp⟩
    · simp [hp] at hc

theorem wildChild?_none {res : Res V} (h : wildChild? res = none)
    {p : Part} {rest : List Part} {v : Option V} (hmem : (p :: rest, v) ∈ res) : p.seg ≠ .wild := by
  have := lastSome?_none h _ hmem
  intro hp
  simp [wildHead, hp] at this

theorem nodeValue_some {res : Res V} {v : V} (h : nodeValue res = some v) : ([], some v) ∈ res := by
  obtain ⟨⟨ps, ov⟩, hmem, hc⟩ := lastSome?_some h
  unfold endHead at hc
  cases ps with
  | nil => simp at hc; subst hc; exact hmem
  | cons p rest => simp at hc

theorem nodeValue_none {res : Res V} (h : nodeValue res = none) {ov : Option V}
    (hmem : ([], ov) ∈ res) : ov = none := by
  have := lastSome?_none h _ hmem
  simpa [endHead] using this

/-! ### well-formedness of residual lists -/

/-- `*` only as last part of every entry. -/
def WildLast (res : Res V) : Prop := ∀ e ∈ res, wildLast e.1 = true

theorem WildLast.step {res : Res V} (h : WildLast res) (k : Key) : WildLast (step k res) := by
  intro ⟨rest, v⟩ hmem
  obtain ⟨p, hp, _⟩ := mem_step.mp hmem
  have := h _ hp
  simp only [wildLast] at this
  by_cases hw : p.seg = .wild
  · simp [hw] at this
    subst this
    rfl
  · simpa [hw] using this

theorem wildLast_wild_head {p : Part} {rest : List Part} (h : wildLast (p :: rest) = true)
    (hp : p.seg = .wild) : rest = [] := by
  simpa [wildLast, hp] using h

/-! ### lax soundness of the lookup (no hypothesis on host flags) -/

theorem urlNonEmpty_cons {u : Part} {us : List Part} (h : urlNonEmpty (u :: us) = true) :
    u.seg ≠ .lit "" ∧ urlNonEmpty us = true := by
  simpa [urlNonEmpty] using h

theorem matches_of_lax (q : Pattern) : ∀ (us : Url), matchesLax q us = true → flagsOK q us = true →
    «matches» q us = true := by
  induction q with
  | nil => intro us h _; cases us <;> simp_all [matchesLax, «matches», matchesG]
  | cons p ps ih =>
    intro us h hf
    cases hs : p.seg with
    | wild =>
      cases us with
      | nil => simp_all [matchesLax, «matches», matchesG]
      | cons u us' =>
        simp [matchesLax, matchesG, hs] at h
        simp [flagsOK, hs] at hf
        simp [«matches», matchesG, hs, h, hf]
    | lit s =>
      cases us with
      | nil => simp [matchesLax, matchesG, hs] at h
      | cons u us' =>
        simp [matchesLax, matchesG, hs, segAccepts] at h
        simp [flagsOK, hs, h.1] at hf
        simp [«matches», matchesG, hs, segAccepts, h.1, hf.1]
        exact ih us' h.2 hf.2
    | par n =>
      cases us with
      | nil => simp [matchesLax, matchesG, hs] at h
      | cons u us' =>
        simp [matchesLax, matchesG, hs, segAccepts] at h
        simp [flagsOK, hs] at hf
        simp [«matches», matchesG, hs, segAccepts, h.1, hf.1]
        exact ih us' h.2 hf.2

theorem lax_of_matches (q : Pattern) (us : Url) (h : «matches» q us = true) : matchesLax q us = true := by
  induction q generalizing us with
  | nil => cases us <;> simp_all [matchesLax, «matches», matchesG]
  | cons p ps ih =>
    cases hs : p.seg with
    | wild =>
      cases us <;> simp_all [matchesLax, «matches», matchesG]
    | lit s =>
      cases us with
      | nil => simp [«matches», matchesG, hs] at h
      | cons u us' =>
        simp [«matches», matchesG, hs] at h
        simp [matchesLax, matchesG, hs, h.1.2]
        exact ih us' h.2
    | par n =>
      cases us with
      | nil => simp [«matches», matchesG, hs] at h
      | cons u us' =>
        simp [«matches», matchesG, hs] at h
        simp [matchesLax, matchesG, hs, h.1.2]
        exact ih us' h.2


/-! ### insert -/

theorem wildLast_trunc (ps : List Part) : wildLast (trunc ps) = true := by
  induction ps with
  | nil => rfl
  | cons p ps ih =>
    unfold trunc
    by_cases h : p.seg = .wild
    · simp [h, wildLast]
    · simp [h, wildLast, ih]

theorem trunc_of_wildLast (ps : List Part) (h : wildLast ps = true) : trunc ps = ps := by
  induction ps with
  | nil => rfl
  | cons p ps ih =>
    unfold trunc
    by_cases hw : p.seg = .wild
    · simp [wildLast, hw] at h; simp [hw, h]
    · simp [wildLast, hw] at h; simp [hw, ih h]

theorem trunc_length_le (ps : List Part) : (trunc ps).length ≤ ps.length := by
  induction ps with
  | nil => simp [trunc]
  | cons p ps ih => unfold trunc; split <;> simp <;> omega

theorem trunc_eq_of_length (ps : List Part) (h : ¬ (trunc ps).length < ps.length) : trunc ps = ps := by
  induction ps with
  | nil => rfl
  | cons p ps ih =>
    unfold trunc at h ⊢
    by_cases hw : p.seg = .wild
    · simp [hw] at h ⊢
      cases ps with
      | nil => rfl
      | cons a b => simp at h
    · simp [hw] at h ⊢
      exact ih (by omega)

theorem except_map_ok {ε α β : Type} {f : α → β} {x : Except ε α} {b : β}
    (h : x.map f = .ok b) : ∃ a, x = .ok a ∧ f a = b := by
  cases x with
  | error e => simp [Except.map] at h
  | ok a => simp [Except.map] at h; exact ⟨a, rfl, h⟩

/-- A declared insert files the pattern under its own parts (cut after the first `*`). -/
theorem insGo_declared (ps : List Part) : ∀ (res : Res V) (eff : List Part),
    insGo true res ps = .ok eff → eff = trunc ps := by
  induction ps with
  | nil => intro res eff h; simp [insGo] at h; subst h; rfl
  | cons p ps ih =>
    intro res eff h
    unfold insGo at h
    unfold trunc
    cases hs : p.seg with
    | wild => simp [hs] at h ⊢; exact h.symm
    | par n =>
      simp only [hs] at h
      have hne : ¬ (Seg.par n = Seg.wild) := by simp
      simp only [hne, if_false]
      split at h
      · split at h
        · simp at h
        · obtain ⟨a, ha, hf⟩ := except_map_ok h
          rw [← hf, ih _ _ ha]
      · obtain ⟨a, ha, hf⟩ := except_map_ok h
        rw [← hf, ih _ _ ha]
    | lit s =>
      simp only [hs] at h
      have hne : ¬ (Seg.lit s = Seg.wild) := by simp
      simp only [hne, if_false]
      split at h
      · obtain ⟨a, ha, hf⟩ := except_map_ok h
        rw [← hf, ih _ _ ha]
      · simp only [if_true] at h
        obtain ⟨a, ha, hf⟩ := except_map_ok h
        rw [← hf, ih _ _ ha]

theorem insGo_wildLast (d : Bool) (ps : List Part) : ∀ (res : Res V) (eff : List Part),
    insGo d res ps = .ok eff → wildLast eff = true := by
  induction ps with
  | nil => intro res eff h; simp [insGo] at h; subst h; rfl
  | cons p ps ih =>
    intro res eff h
    unfold insGo at h
    cases hs : p.seg with
    | wild => simp [hs] at h; subst h; simp [wildLast, hs]
    | par n =>
      simp only [hs] at h
      split at h
      · split at h
        · simp at h
        · obtain ⟨a, ha, hf⟩ := except_map_ok h
          subst hf; simp [wildLast, hs, ih _ _ ha]
      · obtain ⟨a, ha, hf⟩ := except_map_ok h
        subst hf; simp [wildLast, hs, ih _ _ ha]
    | lit s =>
      simp only [hs] at h
      split at h
      · obtain ⟨a, ha, hf⟩ := except_map_ok h
        subst hf; simp [wildLast, hs, ih _ _ ha]
      · split at h
        · obtain ⟨a, ha, hf⟩ := except_map_ok h
          subst hf; simp [wildLast, ih _ _ ha]
        · obtain ⟨a, ha, hf⟩ := except_map_ok h
          subst hf; simp [wildLast, hs, ih _ _ ha]

/-- Shape of a successful insert. -/
theorem insertParts_ok {t t' : Tree V} {ps : List Part} {v : V} {d : Bool}
    (h : insertParts t ps v d = .ok t') :
    validateParts ps = none ∧ ∃ eff, insGo d t ps = .ok eff ∧
      t' = t ++ [(eff, if eff.length < ps.length then none else some v)] := by
  unfold insertParts at h
  split at h
  · simp at h
  · rename_i hv
    split at h
    · simp at h
    · rename_i eff he
      simp at h
      exact ⟨hv, eff, he, h.symm⟩

theorem insertParts_wildLast {t t' : Tree V} {ps : List Part} {v : V} {d : Bool}
    (hwl : WildLast t) (h : insertParts t ps v d = .ok t') : WildLast t' := by
  obtain ⟨_, eff, he, rfl⟩ := insertParts_ok h
  intro e hmem
  rcases List.mem_append.mp hmem with hm | hm
  · exact hwl e hm
  · simp at hm; subst hm; exact insGo_wildLast d ps t eff he

/-- A successful declared insert appends `(trunc ps, value?)`, the value being kept iff nothing was cut. -/
theorem insertParts_declared {t t' : Tree V} {ps : List Part} {v : V}
    (h : insertParts t ps v true = .ok t') :
    t' = t ++ [(trunc ps, if (trunc ps).length < ps.length then none else some v)] := by
  obtain ⟨_, eff, he, rfl⟩ := insertParts_ok h
  rw [insGo_declared ps t eff he]


/-! ### hypotheses on a residual list relative to a URL, and their preservation along a step -/

/-- No entry follows the URL across the host/path boundary. -/
def Aligned (res : Res V) (us : Url) : Prop := ∀ e ∈ res, flagsOK e.1 us = true

/-- No `*` entry is reached with zero segments or walked past (see `UrlMatch.displaced`). -/
def Clean (res : Res V) (us : Url) : Prop :=
  ∀ w ∈ res, ∀ n, wildPos w.1 us = some n → us.length ≠ n ∧ ∀ e ∈ res, followsPast n e.1 us = false

/-- Two patterns give the same name to a parameter they share the trie node of. -/
def namesAgree : Pattern → Pattern → Bool
  | p :: ps, q :: qs => if p.seg.key = q.seg.key then decide (p.seg = q.seg) && namesAgree ps qs else true
  | _, _ => true

def NamesOK (res : Res V) : Prop := ∀ e1 ∈ res, ∀ e2 ∈ res, namesAgree e1.1 e2.1 = true

/-- The trie lets pattern part `p` follow URL part `u` (literal equal / any parameter). -/
def trieStep (p u : Part) : Prop := (∃ s, p.seg = .lit s ∧ u.seg = .lit s) ∨ (p.seg.isPar = true)

theorem trieStep_accepts {p u : Part} (h : trieStep p u) (hu : u.seg ≠ .lit "") :
    segAccepts p.seg u.seg = true := by
  rcases h with ⟨s, h1, h2⟩ | h
  · simp [h1, h2, segAccepts]
  · cases hs : p.seg with
    | par n => simp [segAccepts, hu]
    | lit s => simp [hs, Seg.isPar] at h
    | wild => simp [hs, Seg.isPar] at h

theorem trieStep_not_wild {p u : Part} (h : trieStep p u) : p.seg ≠ .wild := by
  rcases h with ⟨s, h1, _⟩ | h
  · simp [h1]
  · intro hw; simp [hw, Seg.isPar] at h

theorem Aligned.step {res : Res V} {u : Part} {us : Url} {k : Key} (h : Aligned res (u :: us))
    (hk : ∀ p, p.seg.key = k → trieStep p u) : Aligned (step k res) us := by
  intro ⟨rest, v⟩ hmem
  obtain ⟨p, hp, hpk⟩ := mem_step.mp hmem
  have := h _ hp
  rcases hk p hpk with ⟨s, h1, h2⟩ | hpar
  · simp [flagsOK, h1, h2] at this; exact this.2
  · cases hs : p.seg with
    | par n => simp [flagsOK, hs] at this; exact this.2
    | lit s => simp [hs, Seg.isPar] at hpar
    | wild => simp [hs, Seg.isPar] at hpar

theorem Aligned.head {res : Res V} {u : Part} {us : Url} (h : Aligned res (u :: us))
    {p : Part} {rest : List Part} {v : Option V} (hmem : (p :: rest, v) ∈ res)
    (hs : trieStep p u ∨ p.seg = .wild) : p.host = u.host := by
  have := h _ hmem
  rcases hs with (⟨s, h1, h2⟩ | hpar) | hw
  · simp [flagsOK, h1, h2] at this; exact this.1.symm
  · cases hs : p.seg with
    | par n => simp [flagsOK, hs] at this; exact this.1.symm
    | lit s => simp [hs, Seg.isPar] at hpar
    | wild => simp [hs, Seg.isPar] at hpar
  · simp [flagsOK, hw] at this; exact this.symm

theorem Clean.step {res : Res V} {u : Part} {us : Url} {k : Key} (h : Clean res (u :: us))
    (hu : u.seg ≠ .lit "") (hk : ∀ p, p.seg.key = k → trieStep p u) : Clean (step k res) us := by
  intro ⟨wrest, wv⟩ hw n hn
  obtain ⟨p, hp, hpk⟩ := mem_step.mp hw
  have hacc := trieStep_accepts (hk p hpk) hu
  have hnw := trieStep_not_wild (hk p hpk)
  have hpos : wildPos (p :: wrest) (u :: us) = some (n + 1) := by
    cases hs : p.seg with
    | wild => exact absurd hs hnw
    | lit s => rw [hs] at hacc; simp [wildPos, hs, hacc, hn]
    | par m => rw [hs] at hacc; simp [wildPos, hs, hacc, hn]
  obtain ⟨h1, h2⟩ := h _ hp (n + 1) hpos
  refine ⟨by simpa using h1, ?_⟩
  intro ⟨erest, ev⟩ he
  obtain ⟨p', hp', hpk'⟩ := mem_step.mp he
  have := h2 _ hp'
  have hacc' := trieStep_accepts (hk p' hpk') hu
  simpa [followsPast, hacc'] using this

theorem NamesOK.step {res : Res V} (h : NamesOK res) (k : Key) : NamesOK (step k res) := by
  intro ⟨r1, v1⟩ h1 ⟨r2, v2⟩ h2
  obtain ⟨p1, hp1, hk1⟩ := mem_step.mp h1
  obtain ⟨p2, hp2, hk2⟩ := mem_step.mp h2
  have := h _ hp1 _ hp2
  simp [namesAgree, hk1, hk2] at this
  exact this.2

/-- Parameter bindings the walk along pattern `q` adds (Go map assignments, in order). -/
def bindParams : List (String × String) → Pattern → Url → List (String × String)
  | ps, p :: q, u :: us =>
    match p.seg with
    | .par n => bindParams (if u.seg.isPar then ps else setParam n u.seg.text ps) q us
    | _ => bindParams ps q us
  | ps, _, _ => ps

theorem setParam_mem {k v n x : String} {ps : List (String × String)} (h : (k, v) ∈ setParam n x ps) :
    (k = n ∧ v = x) ∨ (k, v) ∈ ps := by
  induction ps with
  | nil => simp [setParam] at h; exact .inl h
  | cons kv rest ih =>
    obtain ⟨k', v'⟩ := kv
    unfold setParam at h
    by_cases hk : k' = n
    · simp [hk] at h
      rcases h with h | h
      · exact .inl h
      · exact .inr (List.mem_cons_of_mem _ h)
    · simp [hk] at h
      rcases h with h | h
      · exact .inr (by simp [h])
      · rcases ih h with h | h
        · exact .inl h
        · exact .inr (List.mem_cons_of_mem _ h)

/-- Every binding produced along `q` is `{k}` in `q` at a position where the URL has segment `v`. -/
theorem bindParams_mem (q : Pattern) : ∀ (us : Url) (ps : List (String × String)) (k v : String),
    (k, v) ∈ bindParams ps q us →
    (k, v) ∈ ps ∨ ∃ pu ∈ q.zip us, pu.1.seg = .par k ∧ pu.2.seg.text = v := by
  induction q with
  | nil => intro us ps k v h; simp [bindParams] at h; exact .inl h
  | cons p q ih =>
    intro us ps k v h
    cases us with
    | nil => simp [bindParams] at h; exact .inl h
    | cons u us =>
      have lift : (∃ pu ∈ q.zip us, pu.1.seg = .par k ∧ pu.2.seg.text = v) →
          ∃ pu ∈ (p :: q).zip (u :: us), pu.1.seg = .par k ∧ pu.2.seg.text = v := by
        rintro ⟨pu, hpu, h1⟩
        exact ⟨pu, by simp [hpu], h1⟩
      cases hs : p.seg with
      | par n =>
        simp only [bindParams, hs] at h
        rcases ih us _ k v h with h | h
        · split at h
          · exact .inl h
          · rcases setParam_mem h with ⟨rfl, rfl⟩ | h
            · exact .inr ⟨(p, u), by simp, hs, rfl⟩
            · exact .inl h
        · exact .inr (lift h)
      | lit s =>
        simp only [bindParams, hs] at h
        rcases ih us _ k v h with h | h
        · exact .inl h
        · exact .inr (lift h)
      | wild =>
        simp only [bindParams, hs] at h
        rcases ih us _ k v h with h | h
        · exact .inl h
        · exact .inr (lift h)

/-! ### parameter names are consistent in every reachable trie -/

theorem key_eq_par {s : Seg} (h : s.key = Key.par) : ∃ n, s = .par n := by
  cases s <;> simp [Seg.key] at h ⊢

theorem key_eq_wild {s : Seg} (h : s.key = Key.wild) : s = .wild := by
  cases s <;> simp [Seg.key] at h ⊢

theorem key_eq_lit {s : Seg} {x : String} (h : s.key = Key.lit x) : s = .lit x := by
  cases s <;> simp [Seg.key] at h ⊢
  exact h

theorem namesAgree_refl (p : Pattern) : namesAgree p p = true := by
  induction p with
  | nil => rfl
  | cons a p ih => simp [namesAgree, ih]

theorem namesAgree_symm (p : Pattern) : ∀ q, namesAgree p q = true → namesAgree q p = true := by
  induction p with
  | nil => intro q _; cases q <;> rfl
  | cons a p ih =>
    intro q h
    cases q with
    | nil => rfl
    | cons b q =>
      unfold namesAgree at h ⊢
      by_cases hk : a.seg.key = b.seg.key
      · simp only [hk, if_true, Bool.and_eq_true, decide_eq_true_eq] at h ⊢
        exact ⟨h.1.symm, ih q h.2⟩
      · have : ¬ b.seg.key = a.seg.key := fun h' => hk h'.symm
        simp [this]

/-- All parameter heads of a names-consistent residual list carry the name of the first one. -/
theorem NamesOK.par_name {res : Res V} (h : NamesOK res) {n : String} {b : Bool}
    (hpc : parChild? res = some (n, b)) {q : Part} {qs : List Part} {v : Option V}
    (hmem : (q :: qs, v) ∈ res) (hk : q.seg.key = Key.par) : q.seg = .par n := by
  obtain ⟨p0, rest0, v0, hmem0, hp0, _⟩ := parChild?_some hpc
  have := h _ hmem _ hmem0
  have hkk : q.seg.key = p0.seg.key := by rw [hk, hp0]; rfl
  simp only [namesAgree, hkk, if_true, Bool.and_eq_true, decide_eq_true_eq] at this
  rw [this.1, hp0]

theorem insGo_namesAgree (d : Bool) (ps : List Part) : ∀ (res : Res V) (eff : List Part),
    NamesOK res → insGo d res ps = .ok eff → ∀ e ∈ res, namesAgree eff e.1 = true := by
  induction ps with
  | nil => intro res eff _ h e _; simp [insGo] at h; subst h; cases e.1 <;> rfl
  | cons p ps ih =>
    intro res eff hnm h ⟨qs, v⟩ hmem
    -- common tail argument
    have tail : ∀ (k : Key) (hd : Part) (eff' : List Part), hd.seg.key = k →
        insGo d (step k res) ps = .ok eff' →
        (∀ q qs', qs = q :: qs' → q.seg.key = k → hd.seg = q.seg) →
        namesAgree (hd :: eff') qs = true := by
      intro k hd eff' hhd hrec hseg
      cases qs with
      | nil => rfl
      | cons q qs' =>
        unfold namesAgree
        by_cases hk : hd.seg.key = q.seg.key
        · simp only [hk, if_true, Bool.and_eq_true, decide_eq_true_eq]
          have hqk : q.seg.key = k := by rw [← hk, hhd]
          refine ⟨hseg q qs' rfl hqk, ?_⟩
          exact ih (step k res) eff' (hnm.step k) hrec (qs', v) (mem_step.mpr ⟨q, hmem, hqk⟩)
        · simp [hk]
    unfold insGo at h
    cases hs : p.seg with
    | wild =>
      simp [hs] at h; subst h
      cases qs with
      | nil => rfl
      | cons q qs' =>
        unfold namesAgree
        by_cases hk : p.seg.key = q.seg.key
        · have : q.seg = .wild := key_eq_wild (by rw [← hk, hs]; rfl)
          simp [hs, this, namesAgree]
        · simp [hk]
    | par n =>
      simp only [hs] at h
      split at h
      · rename_i n' b hpc
        split at h
        · simp at h
        · rename_i hnn
          have hnn' : n = n' := by simpa using hnn
          obtain ⟨a, ha, hf⟩ := except_map_ok h
          subst hf
          apply tail Key.par p a (by rw [hs]; rfl) ha
          intro q qs' hq hqk
          subst hq
          rw [hs, hnm.par_name hpc hmem hqk, hnn']
      · rename_i hpc
        obtain ⟨a, ha, hf⟩ := except_map_ok h
        subst hf
        apply tail Key.par p a (by rw [hs]; rfl) ha
        intro q qs' hq hqk
        subst hq
        have := parChild?_none hpc hmem
        obtain ⟨m, hm⟩ := key_eq_par hqk
        simp [hm, Seg.isPar] at this
    | lit s =>
      simp only [hs] at h
      have litcase : ∀ a, insGo d (step (Key.lit s) res) ps = .ok a → namesAgree (p :: a) qs = true := by
        intro a ha
        apply tail (Key.lit s) p a (by rw [hs]; rfl) ha
        intro q qs' _ hqk
        rw [hs, key_eq_lit hqk]
      split at h
      · obtain ⟨a, ha, hf⟩ := except_map_ok h
        subst hf; exact litcase a ha
      · split at h
        · rename_i n' b hpc
          obtain ⟨a, ha, hf⟩ := except_map_ok h
          subst hf
          have hpc' : parChild? res = some (n', b) := by
            cases d <;> simp_all
          apply tail Key.par ⟨p.host, .par n'⟩ a rfl ha
          intro q qs' hq hqk
          subst hq
          rw [hnm.par_name hpc' hmem hqk]
        · obtain ⟨a, ha, hf⟩ := except_map_ok h
          subst hf; exact litcase a ha

theorem insertParts_namesOK {t t' : Tree V} {ps : List Part} {v : V} {d : Bool}
    (hnm : NamesOK t) (h : insertParts t ps v d = .ok t') : NamesOK t' := by
  obtain ⟨_, eff, he, rfl⟩ := insertParts_ok h
  have hnew := insGo_namesAgree d ps t eff hnm he
  intro e1 h1 e2 h2
  rcases List.mem_append.mp h1 with h1 | h1 <;> rcases List.mem_append.mp h2 with h2 | h2
  · exact hnm e1 h1 e2 h2
  · simp at h2; subst h2; exact namesAgree_symm _ _ (hnew e1 h1)
  · simp at h1; subst h1; exact hnew e2 h2
  · simp at h1 h2; subst h1; subst h2; exact namesAgree_refl _


theorem flagsOK_trunc (q : Pattern) : ∀ (us : Url), flagsOK (trunc q) us = flagsOK q us := by
  induction q with
  | nil => intro us; rfl
  | cons p q ih =>
    intro us
    unfold trunc
    by_cases hw : p.seg = .wild
    · cases us <;> simp [hw, flagsOK]
    · cases us with
      | nil => simp [hw, flagsOK]
      | cons u us =>
        cases hs : p.seg with
        | wild => exact absurd hs hw
        | lit s => simp [hs, flagsOK, ih]
        | par n => simp [hs, flagsOK, ih]


/-! ### most specific, as far as a non-backtracking walk goes -/

theorem rank_lit (s : String) : Seg.rank (.lit s) = 2 := rfl
theorem rank_par (s : String) : Seg.rank (.par s) = 1 := rfl
theorem rank_wild : Seg.rank .wild = 0 := rfl

/-- lifting the "at least as specific / passed over" alternative through a common head edge -/
theorem spec_lift {a p : Part} {rest q' : Pattern} (hk : a.seg.key = p.seg.key)
    (h : specLE rest q' = true ∨ passedOver q' rest = true) :
    specLE (a :: rest) (p :: q') = true ∨ passedOver (p :: q') (a :: rest) = true := by
  have hr : Seg.rank a.seg = Seg.rank p.seg := by
    cases ha : a.seg <;> cases hp : p.seg <;> simp [ha, hp, Seg.key] at hk <;> rfl
  rcases h with h | h
  · left; simp [specLE, hr, h]
  · right
    cases q' with
    | nil => simp [passedOver] at h
    | cons x q'' => simp [passedOver, hk, h]

theorem matchesLax_cons_inv {a : Part} {rest : Pattern} {u : Part} {us : Url}
    (h : matchesLax (a :: rest) (u :: us) = true) :
    (a.seg = .wild ∧ rest = []) ∨ (a.seg ≠ .wild ∧ segAccepts a.seg u.seg = true ∧ matchesLax rest us = true) := by
  cases hs : a.seg with
  | wild => left; simp [matchesLax, matchesG, hs] at h; exact ⟨rfl, by simpa using h⟩
  | lit s => right; simp [matchesLax, matchesG, hs] at h; simp [matchesLax, h]
  | par n => right; simp [matchesLax, matchesG, hs] at h; simp [matchesLax, h]

theorem wildLast_of_matchesLax (p : Pattern) : ∀ (us : Url), matchesLax p us = true → wildLast p = true := by
  induction p with
  | nil => intro _ _; rfl
  | cons a p ih =>
    intro us h
    cases hs : a.seg with
    | wild => simp [matchesLax, matchesG, hs] at h; simp [wildLast, hs, h.1]
    | lit s =>
      cases us with
      | nil => simp [matchesLax, matchesG, hs] at h
      | cons u us => simp [matchesLax, matchesG, hs] at h; simp [wildLast, hs]; exact ih us h.2
    | par n =>
      cases us with
      | nil => simp [matchesLax, matchesG, hs] at h
      | cons u us => simp [matchesLax, matchesG, hs] at h; simp [wildLast, hs]; exact ih us h.2

/-! ### order independence of the lookup -/

/-- Two patterns carry EQUAL parts (name and host flag) along the trie path they share. -/
def partsAgree : Pattern → Pattern → Bool
  | p :: ps, q :: qs => if p.seg.key = q.seg.key then decide (p = q) && partsAgree ps qs else true
  | _, _ => true

def PartsOK (res : Res V) : Prop := ∀ e1 ∈ res, ∀ e2 ∈ res, partsAgree e1.1 e2.1 = true

/-- Entries with the same (residual) pattern carry the same value. -/
def RCoh (res : Res V) : Prop := ∀ e1 ∈ res, ∀ e2 ∈ res, e1.1 = e2.1 → e1.2 = e2.2

theorem PartsOK.head_eq {res : Res V} (h : PartsOK res) {p1 p2 : Part} {r1 r2 : List Part} {v1 v2 : Option V}
    (h1 : (p1 :: r1, v1) ∈ res) (h2 : (p2 :: r2, v2) ∈ res) (hk : p1.seg.key = p2.seg.key) : p1 = p2 := by
  have := h _ h1 _ h2
  simp only [partsAgree, hk, if_true, Bool.and_eq_true, decide_eq_true_eq] at this
  exact this.1

theorem PartsOK.step {res : Res V} (h : PartsOK res) (k : Key) : PartsOK (step k res) := by
  intro ⟨r1, v1⟩ h1 ⟨r2, v2⟩ h2
  obtain ⟨p1, hp1, hk1⟩ := mem_step.mp h1
  obtain ⟨p2, hp2, hk2⟩ := mem_step.mp h2
  have := h _ hp1 _ hp2
  have hk : p1.seg.key = p2.seg.key := by rw [hk1, hk2]
  simp only [partsAgree, hk, if_true, Bool.and_eq_true, decide_eq_true_eq] at this
  exact this.2

theorem RCoh.step {res : Res V} (h : RCoh res) (hp : PartsOK res) (k : Key) : RCoh (step k res) := by
  intro ⟨r1, v1⟩ h1 ⟨r2, v2⟩ h2 heq
  obtain ⟨p1, hp1, hk1⟩ := mem_step.mp h1
  obtain ⟨p2, hp2, hk2⟩ := mem_step.mp h2
  have hpp := hp.head_eq hp1 hp2 (by rw [hk1, hk2])
  simp only at heq
  subst heq; subst hpp
  exact h (p1 :: r1, v1) hp1 (p1 :: r1, v2) hp2 rfl

/-- Same patterns on both sides, values related by `R`. -/
structure Sim (R : Option V → Option V' → Prop) (res : Res V) (res' : Res V') : Prop where
  lr : ∀ q ov, (q, ov) ∈ res → ∃ ov', (q, ov') ∈ res' ∧ R ov ov'
  rl : ∀ q ov', (q, ov') ∈ res' → ∃ ov, (q, ov) ∈ res ∧ R ov ov'

theorem Sim.step {R : Option V → Option V' → Prop} {res : Res V} {res' : Res V'} (h : Sim R res res')
    (k : Key) : Sim R (step k res) (step k res') := by
  constructor
  · intro q ov hm
    obtain ⟨p, hp, hk⟩ := mem_step.mp hm
    obtain ⟨ov', hov', hr⟩ := h.lr _ _ hp
    exact ⟨ov', mem_step.mpr ⟨p, hov', hk⟩, hr⟩
  · intro q ov' hm
    obtain ⟨p, hp, hk⟩ := mem_step.mp hm
    obtain ⟨ov, hov, hr⟩ := h.rl _ _ hp
    exact ⟨ov, mem_step.mpr ⟨p, hov, hk⟩, hr⟩

section queries
variable {R : Option V → Option V' → Prop} {res : Res V} {res' : Res V'}

theorem Sim.constFlag (h : Sim R res res') (hp : PartsOK res) (s : String) :
    constFlag? res s = constFlag? res' s := by
  cases hc : constFlag? res s with
  | none =>
    cases hc' : constFlag? res' s with
    | none => rfl
    | some f' =>
      obtain ⟨p, rest, v, hm, hps, _⟩ := constFlag?_some hc'
      obtain ⟨ov, hov, _⟩ := h.rl _ _ hm
      exact absurd hps (constFlag?_none hc hov)
  | some f =>
    obtain ⟨p, rest, v, hm, hps, hf⟩ := constFlag?_some hc
    cases hc' : constFlag? res' s with
    | none =>
      obtain ⟨ov', hov', _⟩ := h.lr _ _ hm
      exact absurd hps (constFlag?_none hc' hov')
    | some f' =>
      obtain ⟨p', rest', v', hm', hps', hf'⟩ := constFlag?_some hc'
      obtain ⟨ov, hov, _⟩ := h.rl _ _ hm'
      have := hp.head_eq hm hov (by rw [hps, hps'])
      rw [← hf, ← hf', this]

theorem Sim.parChild (h : Sim R res res') (hp : PartsOK res) : parChild? res = parChild? res' := by
  cases hc : parChild? res with
  | none =>
    cases hc' : parChild? res' with
    | none => rfl
    | some nf' =>
      obtain ⟨n', f'⟩ := nf'
      obtain ⟨p, rest, v, hm, hps, _⟩ := parChild?_some hc'
      obtain ⟨ov, hov, _⟩ := h.rl _ _ hm
      have := parChild?_none hc hov
      simp [hps, Seg.isPar] at this
  | some nf =>
    obtain ⟨n, f⟩ := nf
    obtain ⟨p, rest, v, hm, hps, hf⟩ := parChild?_some hc
    cases hc' : parChild? res' with
    | none =>
      obtain ⟨ov', hov', _⟩ := h.lr _ _ hm
      have := parChild?_none hc' hov'
      simp [hps, Seg.isPar] at this
    | some nf' =>
      obtain ⟨n', f'⟩ := nf'
      obtain ⟨p', rest', v', hm', hps', hf'⟩ := parChild?_some hc'
      obtain ⟨ov, hov, _⟩ := h.rl _ _ hm'
      have := hp.head_eq hm hov (by rw [hps, hps']; rfl)
      subst this
      rw [hps] at hps'
      simp only [Seg.par.injEq] at hps'
      rw [← hf, ← hf', hps']

theorem Sim.wildChild (h : Sim R res res') (hp : PartsOK res) (hwl : WildLast res) (hc : RCoh res) :
    (wildChild? res = none ∧ wildChild? res' = none) ∨
    ∃ wv wv', wildChild? res = some wv ∧ wildChild? res' = some wv' ∧ R wv wv' := by
  cases hw : wildChild? res with
  | none =>
    cases hw' : wildChild? res' with
    | none => exact .inl ⟨rfl, rfl⟩
    | some wv' =>
      obtain ⟨p, rest, hm, hps⟩ := wildChild?_some hw'
      obtain ⟨ov, hov, _⟩ := h.rl _ _ hm
      exact absurd hps (wildChild?_none hw hov)
  | some wv =>
    obtain ⟨p, rest, hm, hps⟩ := wildChild?_some hw
    cases hw' : wildChild? res' with
    | none =>
      obtain ⟨ov', hov', _⟩ := h.lr _ _ hm
      exact absurd hps (wildChild?_none hw' hov')
    | some wv' =>
      right
      obtain ⟨p', rest', hm', hps'⟩ := wildChild?_some hw'
      obtain ⟨ov, hov, hr⟩ := h.rl _ _ hm'
      have hpp := hp.head_eq hm hov (by rw [hps, hps'])
      have h1 := wildLast_wild_head (hwl _ hm) hps
      have h2 := wildLast_wild_head (hwl _ hov) hps'
      subst h1; subst h2; subst hpp
      have := hc _ hm _ hov rfl
      simp only at this
      subst this
      exact ⟨_, _, rfl, rfl, hr⟩

theorem nodeValue_eq_of_mem {res : Res V} (hc : RCoh res) {v : V} (hm : ([], some v) ∈ res) :
    nodeValue res = some v := by
  cases hn : nodeValue res with
  | none => have := nodeValue_none hn hm; simp at this
  | some v' =>
    have := hc _ (nodeValue_some hn) _ hm rfl
    simp only [Option.some.injEq] at this
    rw [this]

end queries

/-- Relation between two lookup results. -/
def ResultSim (R : Option V → Option V' → Prop) (r : LookupResult V) (r' : LookupResult V') : Prop :=
  r.isMatch = r'.isMatch ∧ R r.value r'.value ∧ r.params = r'.params ∧ r.norm = r'.norm

/-- Host flags agree along the shared trie path. -/
def hostsAgree : Pattern → Pattern → Bool
  | p :: ps, q :: qs => if p.seg.key = q.seg.key then p.host == q.host && hostsAgree ps qs else true
  | _, _ => true

theorem partsAgree_of (p : Pattern) : ∀ q, namesAgree p q = true → hostsAgree p q = true → partsAgree p q = true := by
  induction p with
  | nil => intro q _ _; cases q <;> rfl
  | cons a p ih =>
    intro q hn hh
    cases q with
    | nil => rfl
    | cons b q =>
      unfold partsAgree
      unfold namesAgree at hn
      unfold hostsAgree at hh
      by_cases hk : a.seg.key = b.seg.key
      · simp only [hk, if_true, Bool.and_eq_true, decide_eq_true_eq, beq_iff_eq] at hn hh ⊢
        refine ⟨?_, ih q hn.2 hh.2⟩
        cases a; cases b; simp_all
      · simp [hk]

theorem hostsAgree_of_flagsOK (p : Pattern) : ∀ q, flagsOK p q = true → hostsAgree (trunc p) (trunc q) = true := by
  induction p with
  | nil => intro q _; simp [trunc, hostsAgree]
  | cons a p ih =>
    intro q h
    cases q with
    | nil => simp [trunc]; unfold trunc; split <;> simp [hostsAgree]
    | cons b q =>
      by_cases hk : a.seg.key = b.seg.key
      · cases has : a.seg with
        | wild =>
          have hbs : b.seg = .wild := key_eq_wild (by rw [← hk, has]; rfl)
          simp [flagsOK, has] at h
          simp [trunc, has, hbs, hostsAgree, h]
        | lit s =>
          have hbs : b.seg = .lit s := key_eq_lit (by rw [← hk, has]; rfl)
          simp [flagsOK, has, hbs] at h
          simp [trunc, has, hbs, hostsAgree, h.1, ih q h.2]
        | par n =>
          obtain ⟨m, hbs⟩ := key_eq_par (show b.seg.key = Key.par by rw [← hk, has]; rfl)
          simp [flagsOK, has] at h
          simp [trunc, has, hbs, hostsAgree, Seg.key, h.1, ih q h.2]
      · have : (trunc (a :: p)) = a :: (trunc (a :: p)).tail := by unfold trunc; split <;> simp
        have hb : (trunc (b :: q)) = b :: (trunc (b :: q)).tail := by unfold trunc; split <;> simp
        rw [this, hb]
        simp [hostsAgree, hk]

theorem matchesLax_trunc_self (p : Pattern) : matchesLax (trunc p) p = true := by
  induction p with
  | nil => simp [trunc, matchesLax, matchesG]
  | cons a p ih =>
    cases has : a.seg with
    | wild => simp [trunc, has, matchesLax, matchesG]
    | lit s => simp [trunc, has, matchesLax, matchesG, segAccepts]; exact ih
    | par n => simp [trunc, has, matchesLax, matchesG, segAccepts]; exact ih


/-! ### the repaired lookup (fixes F13b, F13c-wildcard, F13d, F13f) -/

theorem wildNode?_some {res : Res V} {wv : Option V} {h : Bool} (hw : wildNode? res = some (wv, h)) :
    ∃ p rest, (p :: rest, wv) ∈ res ∧ p.seg = .wild ∧ p.host = h := by
  obtain ⟨⟨ps, v⟩, hmem, hc⟩ := lastSome?_some hw
  unfold wildNodeHead at hc
  cases ps with
  | nil => simp at hc
  | cons p rest =>
    by_cases hp : p.seg = .wild
    · simp [hp] at hc
      obtain ⟨h1, h2⟩ := hc
      subst h1
      exact ⟨p, rest, hmem, hp, h2⟩
    · simp [hp] at hc

theorem wildNode?_none {res : Res V} (hw : wildNode? res = none)
    {p : Part} {rest : List Part} {v : Option V} (hmem : (p :: rest, v) ∈ res) : p.seg ≠ .wild := by
  have := lastSome?_none hw _ hmem
  intro hp
  simp [wildNodeHead, hp] at this

theorem validateGo_none (ps : List Part) (h : validateGo ps = none) :
    (∀ p ∈ ps, p.seg ≠ .lit "") ∧ wildLast ps = true := by
  induction ps with
  | nil => simp [wildLast]
  | cons p ps ih =>
    unfold validateGo at h
    split at h
    · simp at h
    · rename_i hp
      split at h
      · simp at h
      · rename_i hw
        obtain ⟨h1, h2⟩ := ih h
        refine ⟨?_, ?_⟩
        · intro x hx
          rcases List.mem_cons.mp hx with rfl | hx
          · exact hp
          · exact h1 x hx
        · unfold wildLast
          by_cases hpw : p.seg = .wild
          · have : ps = [] := by
              cases ps with
              | nil => rfl
              | cons a b => exact absurd ⟨hpw, by simp⟩ hw
            simp [hpw, this]
          · simp [hpw, h2]

theorem validateParts_none {ps : List Part} (h : validateParts ps = none) : urlNonEmpty ps = true := by
  unfold urlNonEmpty
  rw [List.all_eq_true]
  intro p hp
  simpa using (validateGo_none ps h).1 p hp

/-- A pattern `validateURL` accepts has `*` only as its last part. -/
theorem validateParts_wildLast {ps : List Part} (h : validateParts ps = none) : wildLast ps = true :=
  (validateGo_none ps h).2

theorem stuck_value {fw : Option (Fallback V)} {u : Part} {v : V}
    (h : (stuck fw u).value = some v) : ∃ f, fw = some f ∧ f.value = some v := by
  unfold stuck at h
  split at h
  · simp [LookupResult.none] at h
  · cases fw with
    | none => simp [LookupResult.none] at h
    | some f => exact ⟨f, rfl, by simpa using h⟩

theorem stuck_match {fw : Option (Fallback V)} {u : Part} (h : (stuck fw u).isMatch = true) :
    ∃ f, fw = some f ∧ stuck fw u = ⟨true, f.value, f.params, f.path⟩ := by
  unfold stuck at h ⊢
  split at h
  · simp [LookupResult.none] at h
  · rename_i hp
    cases fw with
    | none => simp [LookupResult.none] at h
    | some f => exact ⟨f, rfl, by simp [hp]⟩

theorem stuck_value_isMatch {fw : Option (Fallback V)} {u : Part} {v : V}
    (h : (stuck fw u).value = some v) : (stuck fw u).isMatch = true := by
  unfold stuck at h ⊢
  split
  · rename_i hp; simp [hp, LookupResult.none] at h
  · rename_i hp
    cases fw with
    | none => simp [hp, LookupResult.none] at h
    | some f => rfl

/-- The fallback after a node, as `lookGo` computes it. -/
def nextFw (res : Res V) (fw : Option (Fallback V)) (params : List (String × String)) (path : List Part)
    (u : Part) : Option (Fallback V) :=
  match wildNode? res with
  | some (wv, h) => if h = u.host then some ⟨wv, params, path ++ [⟨u.host, .wild⟩]⟩ else fw
  | none => fw

/-- One iteration of `lookGo`, by cases (the branch conditions in a usable form). -/
theorem lookGo_cons (res : Res V) (fw : Option (Fallback V)) (params : List (String × String))
    (path : List Part) (u : Part) (us : List Part) :
    (∃ s, u.seg = .lit s ∧ constFlag? res s = some u.host ∧
      lookGo res fw params path (u :: us) =
        lookGo (step (.lit s) res) (nextFw res fw params path u) params (path ++ [u]) us) ∨
    ((∀ s, u.seg = .lit s → constFlag? res s ≠ some u.host) ∧
      ((∃ n, parChild? res = some (n, u.host) ∧ u.seg ≠ .lit "" ∧
          lookGo res fw params path (u :: us) =
            lookGo (step .par res) (nextFw res fw params path u)
              (if u.seg.isPar then params else setParam n u.seg.text params)
              (path ++ [⟨u.host, .par n⟩]) us) ∨
       ((∀ n, parChild? res = some (n, u.host) → u.seg = .lit "") ∧
          lookGo res fw params path (u :: us) = stuck (nextFw res fw params path u) u))) := by
  have hfw : (match wildNode? res with
      | some (wv, h) => if h = u.host then some (⟨wv, params, path ++ [⟨u.host, .wild⟩]⟩ : Fallback V) else fw
      | none => fw) = nextFw res fw params path u := rfl
  cases hseg : u.seg with
  | lit s =>
    by_cases hc : constFlag? res s = some u.host
    · left
      refine ⟨s, rfl, hc, ?_⟩
      conv => lhs; unfold lookGo
      simp only [hseg, hc, if_true]
      rfl
    · right
      refine ⟨fun s' hs' => by cases hs'; exact hc, ?_⟩
      cases hpc : parChild? res with
      | none =>
        right
        refine ⟨fun n hn => by simp at hn, ?_⟩
        conv => lhs; unfold lookGo
        simp only [hseg, hc, if_false, hpc]
        rfl
      | some nf =>
        obtain ⟨n, h⟩ := nf
        by_cases hh : h = u.host ∧ u.seg ≠ .lit ""
        · left
          refine ⟨n, by rw [hh.1], by rw [← hseg]; exact hh.2, ?_⟩
          conv => lhs; unfold lookGo
          simp only [hseg, hc, if_false, hpc]
          rw [hseg] at hh
          have hh1 := hh.1
          subst hh1
          rw [if_pos ⟨rfl, hh.2⟩]
          rfl
        · right
          refine ⟨?_, ?_⟩
          · intro n' hn'
            simp only [Option.some.injEq, Prod.mk.injEq] at hn'
            rw [← hseg]
            by_cases hl : u.seg = .lit ""
            · exact hl
            · exact absurd ⟨hn'.2, hl⟩ hh
          · conv => lhs; unfold lookGo
            simp only [hseg, hc, if_false, hpc]
            rw [hseg] at hh
            simp only [hh, if_false]
            rfl
  | par m =>
    right
    refine ⟨fun s' hs' => by simp at hs', ?_⟩
    cases hpc : parChild? res with
    | none =>
      right
      refine ⟨fun n hn => by simp at hn, ?_⟩
      conv => lhs; unfold lookGo
      simp only [hseg, hpc]
      rfl
    | some nf =>
      obtain ⟨n, h⟩ := nf
      by_cases hh : h = u.host
      · left
        refine ⟨n, by rw [hh], by simp, ?_⟩
        conv => lhs; unfold lookGo
        simp only [hseg, hpc, hh]
        simp
        rfl
      · right
        refine ⟨fun n' hn' => by simp at hn'; exact absurd hn'.2 hh, ?_⟩
        conv => lhs; unfold lookGo
        simp only [hseg, hpc]
        simp [hh]
        rfl
  | wild =>
    right
    refine ⟨fun s' hs' => by simp at hs', ?_⟩
    cases hpc : parChild? res with
    | none =>
      right
      refine ⟨fun n hn => by simp at hn, ?_⟩
      conv => lhs; unfold lookGo
      simp only [hseg, hpc]
      rfl
    | some nf =>
      obtain ⟨n, h⟩ := nf
      by_cases hh : h = u.host
      · left
        refine ⟨n, by rw [hh], by simp, ?_⟩
        conv => lhs; unfold lookGo
        simp only [hseg, hpc, hh]
        simp
        rfl
      · right
        refine ⟨fun n' hn' => by simp at hn'; exact absurd hn'.2 hh, ?_⟩
        conv => lhs; unfold lookGo
        simp only [hseg, hpc]
        simp [hh]
        rfl

/-- The end of the URL, by cases. -/
theorem lookGo_nil (res : Res V) (fw : Option (Fallback V)) (params : List (String × String)) (path : List Part) :
    (∃ v, nodeValue res = some v ∧ lookGo res fw params path [] = ⟨true, some v, params, path⟩) ∨
    (nodeValue res = none ∧
      ((∃ wv h, wildNode? res = some (wv, h) ∧
          lookGo res fw params path [] = ⟨true, wv, params, path ++ [⟨h, .wild⟩]⟩) ∨
       (wildNode? res = none ∧
          ((∃ f, fw = some f ∧ lookGo res fw params path [] = ⟨true, f.value, f.params, f.path⟩) ∨
           (fw = none ∧ lookGo res fw params path [] = .none))))) := by
  unfold lookGo
  cases hn : nodeValue res with
  | some v => exact .inl ⟨v, rfl, rfl⟩
  | none =>
    right
    refine ⟨rfl, ?_⟩
    cases hw : wildNode? res with
    | some wh => obtain ⟨wv, h⟩ := wh; exact .inl ⟨wv, h, rfl, rfl⟩
    | none =>
      right
      refine ⟨rfl, ?_⟩
      cases fw with
      | some f => exact .inl ⟨f, rfl, rfl⟩
      | none => exact .inr ⟨rfl, rfl⟩


theorem nextFw_cases (res : Res V) (fw : Option (Fallback V)) (params : List (String × String))
    (path : List Part) (u : Part) :
    nextFw res fw params path u = fw ∨
    ∃ wv, wildNode? res = some (wv, u.host) ∧
      nextFw res fw params path u = some ⟨wv, params, path ++ [⟨u.host, .wild⟩]⟩ := by
  unfold nextFw
  cases hw : wildNode? res with
  | none => exact .inl rfl
  | some wh =>
    obtain ⟨wv, h⟩ := wh
    by_cases hh : h = u.host
    · subst hh; exact .inr ⟨wv, rfl, by simp⟩
    · exact .inl (by simp [hh])

/-- the wildcard child of this node as an entry -/
theorem wildNode_entry {res : Res V} (hwl : WildLast res) {wv : Option V} {h : Bool}
    (hw : wildNode? res = some (wv, h)) : ∃ w, ([w], wv) ∈ res ∧ w.seg = .wild ∧ w.host = h := by
  obtain ⟨p, rest, hmem, hp, hh⟩ := wildNode?_some hw
  have := wildLast_wild_head (hwl _ hmem) hp
  subst this
  exact ⟨p, hmem, hp, hh⟩

theorem lookGo_sound_lax (us : List Part) :
    ∀ (res : Res V) (fw : Option (Fallback V)) (params : List (String × String)) (path : List Part) (v : V),
    WildLast res → (lookGo res fw params path us).value = some v →
    (∃ q, (q, some v) ∈ res ∧ matchesLax q us = true) ∨ (∃ f, fw = some f ∧ f.value = some v) := by
  induction us with
  | nil =>
    intro res fw params path v hwl h
    rcases lookGo_nil res fw params path with ⟨v', hn, heq⟩ | ⟨_, ⟨wv, hh, hw, heq⟩ | ⟨_, ⟨f, hf, heq⟩ | ⟨_, heq⟩⟩⟩
    · rw [heq] at h; simp at h; subst h
      exact .inl ⟨[], nodeValue_some hn, by simp [matchesLax, matchesG]⟩
    · rw [heq] at h; simp at h; subst h
      obtain ⟨w, hm, hws, _⟩ := wildNode_entry hwl hw
      exact .inl ⟨[w], hm, by simp [matchesLax, matchesG, hws]⟩
    · rw [heq] at h; exact .inr ⟨f, hf, by simpa using h⟩
    · rw [heq] at h; simp [LookupResult.none] at h
  | cons u us ih =>
    intro res fw params path v hwl h
    have hfw : (∃ f, nextFw res fw params path u = some f ∧ f.value = some v) →
        (∃ q, (q, some v) ∈ res ∧ matchesLax q (u :: us) = true) ∨ (∃ f, fw = some f ∧ f.value = some v) := by
      rintro ⟨f, hf, hv⟩
      rcases nextFw_cases res fw params path u with he | ⟨wv, hw, he⟩
      · rw [he] at hf; exact .inr ⟨f, hf, hv⟩
      · rw [he] at hf; simp at hf; subst hf
        simp at hv; subst hv
        obtain ⟨w, hm, hws, _⟩ := wildNode_entry hwl hw
        exact .inl ⟨[w], hm, by simp [matchesLax, matchesG, hws]⟩
    rcases lookGo_cons res fw params path u us with ⟨s, hs, hc, heq⟩ | ⟨_, ⟨n, hpc, hne, heq⟩ | ⟨_, heq⟩⟩
    · rw [heq] at h
      rcases ih _ _ _ _ v (hwl.step _) h with ⟨q, hq, hm⟩ | hr
      · obtain ⟨p, hp, hk⟩ := mem_step.mp hq
        refine .inl ⟨p :: q, hp, ?_⟩
        simp [matchesLax, matchesG, key_eq_lit hk, segAccepts, hs]; exact hm
      · exact hfw hr
    · rw [heq] at h
      rcases ih _ _ _ _ v (hwl.step _) h with ⟨q, hq, hm⟩ | hr
      · obtain ⟨p, hp, hk⟩ := mem_step.mp hq
        obtain ⟨n', hn'⟩ := key_eq_par hk
        refine .inl ⟨p :: q, hp, ?_⟩
        simp [matchesLax, matchesG, hn', segAccepts, hne]; exact hm
      · exact hfw hr
    · rw [heq] at h
      exact hfw (stuck_value h)

theorem lookGo_value_mem (us : List Part) :
    ∀ (res : Res V) (fw : Option (Fallback V)) (params : List (String × String)) (path : List Part) (v : V),
    (lookGo res fw params path us).value = some v →
    (∃ q, (q, some v) ∈ res) ∨ (∃ f, fw = some f ∧ f.value = some v) := by
  induction us with
  | nil =>
    intro res fw params path v h
    rcases lookGo_nil res fw params path with ⟨v', hn, heq⟩ | ⟨_, ⟨wv, hh, hw, heq⟩ | ⟨_, ⟨f, hf, heq⟩ | ⟨_, heq⟩⟩⟩
    · rw [heq] at h; simp at h; subst h; exact .inl ⟨[], nodeValue_some hn⟩
    · rw [heq] at h; simp at h; subst h
      obtain ⟨p, rest, hm, _, _⟩ := wildNode?_some hw
      exact .inl ⟨_, hm⟩
    · rw [heq] at h; exact .inr ⟨f, hf, by simpa using h⟩
    · rw [heq] at h; simp [LookupResult.none] at h
  | cons u us ih =>
    intro res fw params path v h
    have hfw : (∃ f, nextFw res fw params path u = some f ∧ f.value = some v) →
        (∃ q, (q, some v) ∈ res) ∨ (∃ f, fw = some f ∧ f.value = some v) := by
      rintro ⟨f, hf, hv⟩
      rcases nextFw_cases res fw params path u with he | ⟨wv, hw, he⟩
      · rw [he] at hf; exact .inr ⟨f, hf, hv⟩
      · rw [he] at hf; simp at hf; subst hf
        simp at hv; subst hv
        obtain ⟨p, rest, hm, _, _⟩ := wildNode?_some hw
        exact .inl ⟨_, hm⟩
    have lift : ∀ k, (∃ q, (q, some v) ∈ step k res) → ∃ q, (q, some v) ∈ res := by
      rintro k ⟨q, hq⟩
      obtain ⟨p, hp, _⟩ := mem_step.mp hq
      exact ⟨_, hp⟩
    rcases lookGo_cons res fw params path u us with ⟨s, hs, hc, heq⟩ | ⟨_, ⟨n, hpc, hne, heq⟩ | ⟨_, heq⟩⟩
    · rw [heq] at h
      rcases ih _ _ _ _ v h with hq | hr
      · exact .inl (lift _ hq)
      · exact hfw hr
    · rw [heq] at h
      rcases ih _ _ _ _ v h with hq | hr
      · exact .inl (lift _ hq)
      · exact hfw hr
    · rw [heq] at h; exact hfw (stuck_value h)

theorem lookupParts_value_mem (t : Tree V) (us : List Part) (v : V)
    (h : (lookupParts t us).value = some v) : ∃ q, (q, some v) ∈ t := by
  rcases lookGo_value_mem us t none [] [] v h with h | ⟨f, hf, _⟩
  · exact h
  · simp at hf

/-- Soundness of `Lookup` (repaired trie: no hypothesis on empty segments any more): a returned value belongs
    to an inserted pattern that (laxly) matches the URL. -/
theorem lookupParts_sound_lax' (t : Tree V) (us : List Part) (v : V)
    (hwl : WildLast t) (h : (lookupParts t us).value = some v) :
    ∃ q, (q, some v) ∈ t ∧ matchesLax q us = true := by
  rcases lookGo_sound_lax us t none [] [] v hwl h with h | ⟨f, hf, _⟩
  · exact h
  · simp at hf

/-- Same statement with the signature it had before the repair (`_hne` is no longer needed). -/
theorem lookupParts_sound_lax (t : Tree V) (us : List Part) (v : V)
    (hwl : WildLast t) (_hne : urlNonEmpty us = true) (h : (lookupParts t us).value = some v) :
    ∃ q, (q, some v) ∈ t ∧ matchesLax q us = true := lookupParts_sound_lax' t us v hwl h

/-- ... and strictly, when no inserted pattern follows the URL across the host/path boundary. -/
theorem lookupParts_sound (t : Tree V) (us : List Part) (v : V)
    (hwl : WildLast t) (_hne : urlNonEmpty us = true) (hfl : ∀ e ∈ t, flagsOK e.1 us = true)
    (h : (lookupParts t us).value = some v) :
    ∃ q, (q, some v) ∈ t ∧ «matches» q us = true := by
  obtain ⟨q, hq, hm⟩ := lookupParts_sound_lax' t us v hwl h
  exact ⟨q, hq, matches_of_lax q us hm (hfl _ hq)⟩

theorem lookGo_value_isMatch (us : List Part) : ∀ (res : Res V) (fw : Option (Fallback V))
    (params : List (String × String)) (path : List Part) (v : V),
    (lookGo res fw params path us).value = some v → (lookGo res fw params path us).isMatch = true := by
  induction us with
  | nil =>
    intro res fw params path v h
    rcases lookGo_nil res fw params path with ⟨v', hn, heq⟩ | ⟨_, ⟨wv, hh, hw, heq⟩ | ⟨_, ⟨f, hf, heq⟩ | ⟨_, heq⟩⟩⟩
    · rw [heq]
    · rw [heq]
    · rw [heq]
    · rw [heq] at h; simp [LookupResult.none] at h
  | cons u us ih =>
    intro res fw params path v h
    rcases lookGo_cons res fw params path u us with ⟨s, hs, hc, heq⟩ | ⟨_, ⟨n, hpc, hne, heq⟩ | ⟨_, heq⟩⟩
    · rw [heq] at h ⊢; exact ih _ _ _ _ v h
    · rw [heq] at h ⊢; exact ih _ _ _ _ v h
    · rw [heq] at h ⊢; exact stuck_value_isMatch h


theorem trieStep_lit {p u : Part} {s : String} (hk : p.seg.key = Key.lit s) (hu : u.seg = .lit s) :
    trieStep p u := .inl ⟨s, key_eq_lit hk, hu⟩

theorem trieStep_par {p u : Part} (hk : p.seg.key = Key.par) : trieStep p u := by
  obtain ⟨n, hn⟩ := key_eq_par hk
  exact .inr (by simp [hn, Seg.isPar])

/-- Exact description of a successful lookup in the repaired trie (no displaced class any more): the
    selected entry, the normalised URL (= the path walked to the node of the selected entry, followed by the
    selected pattern) and the parameters collected along it. -/
theorem lookGo_exact (us : List Part) :
    ∀ (res : Res V) (fw : Option (Fallback V)) (params : List (String × String)) (path : List Part),
    WildLast res → NamesOK res → Aligned res us →
    (lookGo res fw params path us).isMatch = true →
    (∃ q, (q, (lookGo res fw params path us).value) ∈ res ∧ matchesLax q us = true ∧
      (lookGo res fw params path us).norm = path ++ q ∧
      (lookGo res fw params path us).params = bindParams params q us) ∨
    (∃ f, fw = some f ∧ (lookGo res fw params path us).value = f.value ∧
      (lookGo res fw params path us).norm = f.path ∧ (lookGo res fw params path us).params = f.params) := by
  induction us with
  | nil =>
    intro res fw params path hwl _ _ h
    rcases lookGo_nil res fw params path with ⟨v', hn, heq⟩ | ⟨_, ⟨wv, hh, hw, heq⟩ | ⟨_, ⟨f, hf, heq⟩ | ⟨_, heq⟩⟩⟩
    · rw [heq]
      exact .inl ⟨[], nodeValue_some hn, by simp [matchesLax, matchesG], by simp, by simp [bindParams]⟩
    · rw [heq]
      obtain ⟨w, hm, hws, hwh⟩ := wildNode_entry hwl hw
      refine .inl ⟨[w], hm, by simp [matchesLax, matchesG, hws], ?_, by simp [bindParams]⟩
      cases w; simp_all
    · rw [heq]; exact .inr ⟨f, hf, rfl, rfl, rfl⟩
    · rw [heq] at h; simp [LookupResult.none] at h
  | cons u us ih =>
    intro res fw params path hwl hnm hal h
    -- what a fallback to `nextFw` means at this node
    have hfw : ∀ (r : LookupResult V), (∃ f, nextFw res fw params path u = some f ∧ r.value = f.value ∧
          r.norm = f.path ∧ r.params = f.params) →
        (∃ q, (q, r.value) ∈ res ∧ matchesLax q (u :: us) = true ∧ r.norm = path ++ q ∧
          r.params = bindParams params q (u :: us)) ∨
        (∃ f, fw = some f ∧ r.value = f.value ∧ r.norm = f.path ∧ r.params = f.params) := by
      rintro r ⟨f, hf, hv, hn, hp⟩
      rcases nextFw_cases res fw params path u with he | ⟨wv, hw, he⟩
      · rw [he] at hf; exact .inr ⟨f, hf, hv, hn, hp⟩
      · rw [he] at hf; simp at hf; subst hf
        obtain ⟨w, hm, hws, hwh⟩ := wildNode_entry hwl hw
        refine .inl ⟨[w], by rw [hv]; exact hm, by simp [matchesLax, matchesG, hws], ?_, ?_⟩
        · rw [hn]; cases w; simp_all
        · rw [hp]; simp [bindParams, hws]
    rcases lookGo_cons res fw params path u us with ⟨s, hs, hc, heq⟩ | ⟨_, ⟨n, hpc, hne, heq⟩ | ⟨_, heq⟩⟩
    · rw [heq] at h ⊢
      have hk : ∀ p : Part, p.seg.key = Key.lit s → trieStep p u := fun p hp => trieStep_lit hp hs
      rcases ih _ _ params (path ++ [u]) (hwl.step _) (hnm.step _) (hal.step hk) h with ⟨q, hq, hm, hnorm, hpar⟩ | hr
      · obtain ⟨p, hp, hpk⟩ := mem_step.mp hq
        have hps : p.seg = .lit s := key_eq_lit hpk
        have hpu : p = u := by
          have hh := hal.head hp (.inl (hk p hpk))
          cases p; cases u; simp_all
        refine .inl ⟨p :: q, hp, ?_, ?_, ?_⟩
        · simp [matchesLax, matchesG, hps, segAccepts, hs]; exact hm
        · rw [hnorm, hpu]; simp
        · rw [hpar]; simp [bindParams, hps]
      · exact hfw _ hr
    · rw [heq] at h ⊢
      have hk : ∀ p : Part, p.seg.key = Key.par → trieStep p u := fun p hp => trieStep_par hp
      rcases ih _ _ _ (path ++ [⟨u.host, .par n⟩]) (hwl.step _) (hnm.step _) (hal.step hk) h with ⟨q, hq, hm, hnorm, hpar⟩ | hr
      · obtain ⟨p, hp, hpk⟩ := mem_step.mp hq
        have hps : p.seg = .par n := hnm.par_name hpc hp hpk
        have hpu : p = ⟨u.host, .par n⟩ := by
          have hh := hal.head hp (.inl (hk p hpk))
          cases p; simp_all
        refine .inl ⟨p :: q, hp, ?_, ?_, ?_⟩
        · simp [matchesLax, matchesG, hps, segAccepts, hne]; exact hm
        · rw [hnorm, hpu]; simp
        · rw [hpar]; simp [bindParams, hps]
      · exact hfw _ hr
    · rw [heq] at h ⊢
      obtain ⟨f, hf, hst⟩ := stuck_match h
      rw [hst]
      exact hfw _ ⟨f, hf, rfl, rfl, rfl⟩

/-- What the greedy, non-backtracking walk guarantees about the selected entry (repaired trie). -/
theorem lookGo_most_specific (us : List Part) :
    ∀ (res : Res V) (fw : Option (Fallback V)) (params : List (String × String)) (path : List Part),
    WildLast res → Aligned res us →
    (lookGo res fw params path us).isMatch = true →
    (∃ q, (q, (lookGo res fw params path us).value) ∈ res ∧ matchesLax q us = true ∧
      ∀ e ∈ res, e.2 ≠ none → matchesLax e.1 us = true →
        specLE e.1 q = true ∨ passedOver q e.1 = true) ∨
    (∃ f, fw = some f ∧ (lookGo res fw params path us).value = f.value) := by
  induction us with
  | nil =>
    intro res fw params path hwl _ h
    rcases lookGo_nil res fw params path with ⟨v', hn, heq⟩ | ⟨hnv, ⟨wv, hh, hw, heq⟩ | ⟨_, ⟨f, hf, heq⟩ | ⟨_, heq⟩⟩⟩
    · rw [heq]
      refine .inl ⟨[], nodeValue_some hn, by simp [matchesLax, matchesG], ?_⟩
      intro ⟨q, ov⟩ _ _ _
      cases q <;> exact .inl rfl
    · rw [heq]
      obtain ⟨w, hwm, hws, _⟩ := wildNode_entry hwl hw
      refine .inl ⟨[w], hwm, by simp [matchesLax, matchesG, hws], ?_⟩
      intro ⟨q, ov⟩ hmem hov hm
      cases q with
      | nil => exact absurd (nodeValue_none hnv hmem) hov
      | cons a rest =>
        have hm' : matchesLax (a :: rest) [] = true := hm
        cases has : a.seg with
        | wild =>
          have := wildLast_wild_head (hwl _ hmem) has
          subst this
          left; simp [specLE, has, hws]
        | lit s => simp [matchesLax, matchesG, has] at hm'
        | par n => simp [matchesLax, matchesG, has] at hm'
    · rw [heq]; exact .inr ⟨f, hf, rfl⟩
    · rw [heq] at h; simp [LookupResult.none] at h
  | cons u us ih =>
    intro res fw params path hwl hal h
    have hconst : ∀ (a : Part) (rest : List Part) (v : Option V) (s : String),
        (a :: rest, v) ∈ res → a.seg = .lit s → u.seg = .lit s → constFlag? res s = some u.host := by
      intro a rest v s hmem has hus
      cases hc : constFlag? res s with
      | none => exact absurd has (constFlag?_none hc hmem)
      | some f =>
        obtain ⟨p0, r0, v0, hm0, hp0, hf0⟩ := constFlag?_some hc
        have := hal.head hm0 (.inl (.inl ⟨s, hp0, hus⟩))
        rw [← hf0, this]
    -- the answer is this node's wildcard child
    have viaWild : ∀ (wv : Option V) (h : Bool), wildNode? res = some (wv, h) →
        ∃ q, (q, wv) ∈ res ∧ matchesLax q (u :: us) = true ∧
          ∀ e ∈ res, e.2 ≠ none → matchesLax e.1 (u :: us) = true →
            specLE e.1 q = true ∨ passedOver q e.1 = true := by
      intro wv h hw
      obtain ⟨w, hwm, hws, _⟩ := wildNode_entry hwl hw
      refine ⟨[w], hwm, by simp [matchesLax, matchesG, hws], ?_⟩
      intro ⟨q, ov⟩ hmem _ hm
      cases q with
      | nil => simp [matchesLax, matchesG] at hm
      | cons a rest =>
        by_cases has : a.seg = .wild
        · have := wildLast_wild_head (hwl _ hmem) has
          subst this
          left; simp [specLE, has, hws]
        · right; simp [passedOver, hws, has]
    have hfw : ∀ (val : Option V), (∃ f, nextFw res fw params path u = some f ∧ val = f.value) →
        (∃ q, (q, val) ∈ res ∧ matchesLax q (u :: us) = true ∧
          ∀ e ∈ res, e.2 ≠ none → matchesLax e.1 (u :: us) = true →
            specLE e.1 q = true ∨ passedOver q e.1 = true) ∨ (∃ f, fw = some f ∧ val = f.value) := by
      rintro val ⟨f, hf, hv⟩
      rcases nextFw_cases res fw params path u with he | ⟨wv, hw, he⟩
      · rw [he] at hf; exact .inr ⟨f, hf, hv⟩
      · rw [he] at hf; simp at hf; subst hf
        simp at hv; subst hv
        exact .inl (viaWild _ _ hw)
    rcases lookGo_cons res fw params path u us with ⟨s, hs, hc, heq⟩ | ⟨hnc, ⟨n, hpc, hne2, heq⟩ | ⟨_, heq⟩⟩
    · rw [heq] at h ⊢
      have hk : ∀ p : Part, p.seg.key = Key.lit s → trieStep p u := fun p hp => trieStep_lit hp hs
      rcases ih _ _ params (path ++ [u]) (hwl.step _) (hal.step hk) h with ⟨q', hq', hm', hall⟩ | hr
      · left
        obtain ⟨p, hp, hpk⟩ := mem_step.mp hq'
        have hps : p.seg = .lit s := key_eq_lit hpk
        refine ⟨p :: q', hp, by simp [matchesLax, matchesG, hps, segAccepts, hs]; exact hm', ?_⟩
        intro ⟨q, ov⟩ hmem hov hm
        cases q with
        | nil => simp [matchesLax, matchesG] at hm
        | cons a rest =>
          rcases matchesLax_cons_inv hm with ⟨haw, _⟩ | ⟨_, hacc, hmr⟩
          · left; simp [specLE, haw, hps, Seg.rank]
          · cases has : a.seg with
            | wild => left; simp [specLE, has, hps, Seg.rank]
            | par n => left; simp [specLE, has, hps, Seg.rank]
            | lit s' =>
              rw [has, hs] at hacc
              simp [segAccepts] at hacc
              subst hacc
              have hak : a.seg.key = Key.lit s := by rw [has]; rfl
              have := hall (rest, ov) (mem_step.mpr ⟨a, hmem, hak⟩) hov hmr
              exact spec_lift (by rw [hak, hpk]) this
      · exact hfw _ hr
    · rw [heq] at h ⊢
      have hk : ∀ p : Part, p.seg.key = Key.par → trieStep p u := fun p hp => trieStep_par hp
      have hnolit : ∀ (a : Part) (rest : List Part) (v : Option V) (s : String),
          (a :: rest, v) ∈ res → a.seg = .lit s → u.seg ≠ .lit s := by
        intro a rest v s hmem has hus
        exact hnc s hus (hconst a rest v s hmem has hus)
      rcases ih _ _ _ (path ++ [⟨u.host, .par n⟩]) (hwl.step _) (hal.step hk) h with ⟨q', hq', hm', hall⟩ | hr
      · left
        obtain ⟨p, hp, hpk⟩ := mem_step.mp hq'
        obtain ⟨n', hps⟩ := key_eq_par hpk
        refine ⟨p :: q', hp, by simp [matchesLax, matchesG, hps, segAccepts, hne2]; exact hm', ?_⟩
        intro ⟨q, ov⟩ hmem hov hm
        cases q with
        | nil => simp [matchesLax, matchesG] at hm
        | cons a rest =>
          rcases matchesLax_cons_inv hm with ⟨haw, _⟩ | ⟨_, hacc, hmr⟩
          · left; simp [specLE, haw, hps, Seg.rank]
          · cases has : a.seg with
            | wild => left; simp [specLE, has, hps, Seg.rank]
            | lit s' =>
              rw [has] at hacc
              simp [segAccepts] at hacc
              exact absurd hacc (hnolit a rest ov s' hmem has)
            | par m =>
              have hak : a.seg.key = Key.par := by rw [has]; rfl
              have := hall (rest, ov) (mem_step.mpr ⟨a, hmem, hak⟩) hov hmr
              exact spec_lift (by rw [hak, hpk]) this
      · exact hfw _ hr
    · rw [heq] at h ⊢
      obtain ⟨f, hf, hst⟩ := stuck_match h
      rw [hst]
      exact hfw _ ⟨f, hf, rfl⟩

theorem lookupParts_most_specific' (t : Tree V) (us : List Part)
    (hwl : WildLast t) (hal : Aligned t us)
    (h : (lookupParts t us).isMatch = true) :
    ∃ q, (q, (lookupParts t us).value) ∈ t ∧ matchesLax q us = true ∧
      ∀ e ∈ t, e.2 ≠ none → matchesLax e.1 us = true →
        specLE e.1 q = true ∨ passedOver q e.1 = true := by
  rcases lookGo_most_specific us t none [] [] hwl hal h with h | ⟨f, hf, _⟩
  · exact h
  · simp at hf

/-- Same statement with the signature it had before the repair (`_hne` is no longer needed). -/
theorem lookupParts_most_specific (t : Tree V) (us : List Part)
    (hwl : WildLast t) (_hne : urlNonEmpty us = true) (hal : Aligned t us)
    (h : (lookupParts t us).isMatch = true) :
    ∃ q, (q, (lookupParts t us).value) ∈ t ∧ matchesLax q us = true ∧
      ∀ e ∈ t, e.2 ≠ none → matchesLax e.1 us = true →
        specLE e.1 q = true ∨ passedOver q e.1 = true := lookupParts_most_specific' t us hwl hal h


section
variable {R : Option V → Option V' → Prop} {res : Res V} {res' : Res V'}

theorem Sim.wildNode (h : Sim R res res') (hp : PartsOK res) (hwl : WildLast res) (hc : RCoh res) :
    (wildNode? res = none ∧ wildNode? res' = none) ∨
    ∃ wv wv' f, wildNode? res = some (wv, f) ∧ wildNode? res' = some (wv', f) ∧ R wv wv' := by
  cases hw : wildNode? res with
  | none =>
    cases hw' : wildNode? res' with
    | none => exact .inl ⟨rfl, rfl⟩
    | some wf' =>
      obtain ⟨wv', f'⟩ := wf'
      obtain ⟨p, rest, hm, hps, _⟩ := wildNode?_some hw'
      obtain ⟨ov, hov, _⟩ := h.rl _ _ hm
      exact absurd hps (wildNode?_none hw hov)
  | some wf =>
    obtain ⟨wv, f⟩ := wf
    obtain ⟨p, rest, hm, hps, hpf⟩ := wildNode?_some hw
    cases hw' : wildNode? res' with
    | none =>
      obtain ⟨ov', hov', _⟩ := h.lr _ _ hm
      exact absurd hps (wildNode?_none hw' hov')
    | some wf' =>
      obtain ⟨wv', f'⟩ := wf'
      right
      obtain ⟨p', rest', hm', hps', hpf'⟩ := wildNode?_some hw'
      obtain ⟨ov, hov, hr⟩ := h.rl _ _ hm'
      have hpp := hp.head_eq hm hov (by rw [hps, hps'])
      have h1 := wildLast_wild_head (hwl _ hm) hps
      have h2 := wildLast_wild_head (hwl _ hov) hps'
      subst h1; subst h2; subst hpp
      have := hc _ hm _ hov rfl
      simp only at this
      subst this
      exact ⟨_, _, f, rfl, by rw [← hpf, hpf'], hr⟩

end

/-- Two fallbacks correspond. -/
def FwSim (R : Option V → Option V' → Prop) (fw : Option (Fallback V)) (fw' : Option (Fallback V')) : Prop :=
  (fw = none ∧ fw' = none) ∨
  ∃ f f', fw = some f ∧ fw' = some f' ∧ R f.value f'.value ∧ f.params = f'.params ∧ f.path = f'.path

theorem stuck_sim {R : Option V → Option V' → Prop} (hR0 : R none none)
    {fw : Option (Fallback V)} {fw' : Option (Fallback V')} (hfw : FwSim R fw fw') (u : Part) :
    ResultSim R (stuck fw u) (stuck fw' u) := by
  unfold stuck
  split
  · exact ⟨rfl, hR0, rfl, rfl⟩
  · rcases hfw with ⟨h1, h2⟩ | ⟨f, f', h1, h2, hr, hp, hpa⟩
    · subst h1; subst h2; exact ⟨rfl, hR0, rfl, rfl⟩
    · subst h1; subst h2; exact ⟨rfl, hr, hp, hpa⟩

/-- The lookup depends on the inserted patterns only as a SET, provided entries on one trie path are equal
    (`PartsOK`, `RCoh`) — values may differ between the two sides as long as they are `R`-related. -/
theorem lookGo_sim {R : Option V → Option V' → Prop} (hR0 : R none none)
    (hRsome : ∀ ov ov', R ov ov' → (ov = none ↔ ov' = none)) (us : List Part) :
    ∀ (res : Res V) (res' : Res V') (fw : Option (Fallback V)) (fw' : Option (Fallback V'))
      (params : List (String × String)) (path : List Part),
    Sim R res res' → PartsOK res → WildLast res → RCoh res → RCoh res' → FwSim R fw fw' →
    ResultSim R (lookGo res fw params path us) (lookGo res' fw' params path us) := by
  induction us with
  | nil =>
    intro res res' fw fw' params path hs hp hwl hc hc' hfw
    unfold lookGo
    cases hn : nodeValue res with
    | some v =>
      have hm := nodeValue_some hn
      obtain ⟨ov', hov', hr⟩ := hs.lr _ _ hm
      cases ov' with
      | none => have := (hRsome _ _ hr).mpr rfl; simp at this
      | some v' =>
        rw [nodeValue_eq_of_mem hc' hov']
        exact ⟨rfl, hr, rfl, rfl⟩
    | none =>
      cases hn' : nodeValue res' with
      | some v' =>
        have hm' := nodeValue_some hn'
        obtain ⟨ov, hov, hr⟩ := hs.rl _ _ hm'
        cases ov with
        | none => have := (hRsome _ _ hr).mp rfl; simp at this
        | some v => rw [nodeValue_eq_of_mem hc hov] at hn; simp at hn
      | none =>
        simp only
        rcases hs.wildNode hp hwl hc with ⟨h1, h2⟩ | ⟨wv, wv', f, h1, h2, hr⟩
        · rw [h1, h2]
          simp only
          rcases hfw with ⟨h1, h2⟩ | ⟨f, f', h1, h2, hr, hpp, hpa⟩
          · subst h1; subst h2; exact ⟨rfl, hR0, rfl, rfl⟩
          · subst h1; subst h2; exact ⟨rfl, hr, hpp, hpa⟩
        · rw [h1, h2]
          exact ⟨rfl, hr, rfl, rfl⟩
  | cons u us ih =>
    intro res res' fw fw' params path hs hp hwl hc hc' hfw
    have hfwn : FwSim R (nextFw res fw params path u) (nextFw res' fw' params path u) := by
      unfold nextFw
      rcases hs.wildNode hp hwl hc with ⟨h1, h2⟩ | ⟨wv, wv', f, h1, h2, hr⟩
      · rw [h1, h2]; exact hfw
      · rw [h1, h2]
        by_cases hf : f = u.host
        · simp only [hf, if_true]
          exact .inr ⟨_, _, rfl, rfl, hr, rfl, rfl⟩
        · simp only [hf, if_false]; exact hfw
    have hp' : PartsOK res' := by
      intro e1 h1 e2 h2
      obtain ⟨_, ho1, _⟩ := hs.rl _ _ h1
      obtain ⟨_, ho2, _⟩ := hs.rl _ _ h2
      exact hp _ ho1 _ ho2
    have hcf : ∀ s, constFlag? res s = constFlag? res' s := hs.constFlag hp
    have hpc : parChild? res = parChild? res' := hs.parChild hp
    rcases lookGo_cons res fw params path u us with ⟨s, hsg, hcc, heq⟩ | ⟨hnc, ⟨n, hpcn, hne, heq⟩ | ⟨hnp, heq⟩⟩
    · rcases lookGo_cons res' fw' params path u us with ⟨s', hsg', hcc', heq'⟩ | ⟨hnc', _⟩
      · rw [hsg] at hsg'; simp at hsg'; subst hsg'
        rw [heq, heq']
        exact ih _ _ _ _ params (path ++ [u]) (hs.step _) (hp.step _) (hwl.step _) (hc.step hp _)
          (hc'.step hp' _) hfwn
      · exact absurd (by rw [← hcf s]; exact hcc) (hnc' s hsg)
    · rcases lookGo_cons res' fw' params path u us with ⟨s', hsg', hcc', _⟩ | ⟨_, ⟨n', hpcn', _, heq'⟩ | ⟨hnp', _⟩⟩
      · exact absurd (by rw [hcf s']; exact hcc') (hnc s' hsg')
      · rw [hpc, hpcn'] at hpcn; simp at hpcn; subst hpcn
        rw [heq, heq']
        exact ih _ _ _ _ _ _ (hs.step _) (hp.step _) (hwl.step _) (hc.step hp _) (hc'.step hp' _) hfwn
      · exact absurd (hnp' n (by rw [← hpc]; exact hpcn)) hne
    · rcases lookGo_cons res' fw' params path u us with ⟨s', hsg', hcc', _⟩ | ⟨hnc', ⟨n', hpcn', hne', _⟩ | ⟨_, heq'⟩⟩
      · exact absurd (by rw [hcf s']; exact hcc') (hnc s' hsg')
      · exact absurd (hnp n' (by rw [hpc]; exact hpcn')) hne'
      · rw [heq, heq']
        exact stuck_sim hR0 hfwn u

/-- Looking an inserted pattern up as if it were a URL finds that very pattern, provided no OTHER entry
    (laxly) matches it and entries on one trie path are equal. -/
theorem lookGo_self (rem : List Part) :
    ∀ (res : Res V) (fw : Option (Fallback V)) (params : List (String × String)) (path : List Part) (j : V),
    WildLast res → PartsOK res → RCoh res → (rem, some j) ∈ res →
    (∀ e ∈ res, e.1 ≠ rem → matchesLax e.1 rem = false) →
    (lookGo res fw params path rem).value = some j := by
  induction rem with
  | nil =>
    intro res fw params path j _ _ hc hm _
    unfold lookGo
    rw [nodeValue_eq_of_mem hc hm]
  | cons u rest ih =>
    intro res fw params path j hwl hp hc hm hnc
    have hstep : u.seg ≠ .wild → ∀ e ∈ step u.seg.key res, e.1 ≠ rest → matchesLax e.1 rest = false := by
      intro hnw ⟨r', v'⟩ hm' hner
      obtain ⟨p', hp', hk'⟩ := mem_step.mp hm'
      have hpu : p' = u := hp.head_eq hp' hm hk'
      subst hpu
      have := hnc _ hp' (by simpa using hner)
      cases hs : p'.seg with
      | wild => exact absurd hs hnw
      | lit s => simp [matchesLax, matchesG, hs, segAccepts] at this ⊢; exact this
      | par n => simp [matchesLax, matchesG, hs, segAccepts] at this ⊢; exact this
    have hmem' : (rest, some j) ∈ step u.seg.key res := mem_step.mpr ⟨u, hm, rfl⟩
    rcases lookGo_cons res fw params path u rest with ⟨s, hs, hcf, heq⟩ | ⟨hncst, ⟨n, hpc, _, heq⟩ | ⟨hnp, heq⟩⟩
    · rw [heq]
      rw [hs] at hstep hmem'
      exact ih _ _ _ _ j (hwl.step _) (hp.step _) (hc.step hp _) hmem' (hstep (by simp))
    · -- parametric child entered
      cases hs : u.seg with
      | lit s =>
        -- own literal child exists with the right flag: contradiction with "no constant branch"
        exfalso
        have hcf : constFlag? res s = some u.host := by
          cases hcf : constFlag? res s with
          | none => exact absurd hs (constFlag?_none hcf hm)
          | some f =>
            obtain ⟨p0, r0, v0, hm0, hp0, hf0⟩ := constFlag?_some hcf
            have := hp.head_eq hm0 hm (by rw [hp0, hs])
            rw [← hf0, this]
        exact hncst s hs hcf
      | par m =>
        rw [heq]
        rw [hs] at hstep hmem'
        exact ih _ _ _ _ j (hwl.step _) (hp.step _) (hc.step hp _) hmem' (hstep (by simp))
      | wild =>
        -- diverted into the parameter child with nothing left: that node answers nothing, the fallback is us
        have hrest : rest = [] := wildLast_wild_head (hwl _ hm) hs
        subst hrest
        rw [heq]
        have hw : ∃ wv, wildNode? res = some (wv, u.host) ∧ wv = some j := by
          cases hw : wildNode? res with
          | none => exact absurd hs (wildNode?_none hw hm)
          | some wf =>
            obtain ⟨wv, f⟩ := wf
            obtain ⟨p0, r0, hm0, hp0, hf0⟩ := wildNode?_some hw
            have hpp := hp.head_eq hm0 hm (by rw [hp0, hs])
            have hr0 := wildLast_wild_head (hwl _ hm0) hp0
            subst hpp; subst hr0
            have := hc _ hm0 _ hm rfl
            simp only at this
            exact ⟨wv, by rw [hf0], this⟩
        obtain ⟨wv, hwn, hwv⟩ := hw
        have hnf : nextFw res fw params path u = some ⟨some j, params, path ++ [⟨u.host, .wild⟩]⟩ := by
          unfold nextFw; rw [hwn, hwv]; simp
        rw [hnf]
        have hnv : nodeValue (step Key.par res) = none := by
          cases hnv : nodeValue (step Key.par res) with
          | none => rfl
          | some v =>
            obtain ⟨p0, hm0, hk0⟩ := mem_step.mp (nodeValue_some hnv)
            obtain ⟨m, hm'⟩ := key_eq_par hk0
            have := hnc _ hm0 (by simp; intro h; rw [h, hs] at hm'; simp at hm')
            simp [matchesLax, matchesG, hm', segAccepts, hs] at this
        have hwc : wildNode? (step Key.par res) = none := by
          cases hwc : wildNode? (step Key.par res) with
          | none => rfl
          | some wf =>
            obtain ⟨wv', f'⟩ := wf
            obtain ⟨w', r', hmw, hws, _⟩ := wildNode?_some hwc
            have hr' := wildLast_wild_head ((hwl.step _) _ hmw) hws
            subst hr'
            obtain ⟨p0, hm0, hk0⟩ := mem_step.mp hmw
            obtain ⟨m, hm'⟩ := key_eq_par hk0
            have := hnc _ hm0 (by simp)
            simp [matchesLax, matchesG, hm', segAccepts, hs, hws] at this
        unfold lookGo
        simp [hnv, hwc]
    · -- stuck at this part: only possible for the pattern's own `*`
      rw [heq]
      cases hs : u.seg with
      | lit s =>
        exfalso
        have hcf : constFlag? res s = some u.host := by
          cases hcf : constFlag? res s with
          | none => exact absurd hs (constFlag?_none hcf hm)
          | some f =>
            obtain ⟨p0, r0, v0, hm0, hp0, hf0⟩ := constFlag?_some hcf
            have := hp.head_eq hm0 hm (by rw [hp0, hs])
            rw [← hf0, this]
        exact hncst s hs hcf
      | par m =>
        exfalso
        have hpc : parChild? res = some (m, u.host) := by
          cases hpc : parChild? res with
          | none => have := parChild?_none hpc hm; simp [hs, Seg.isPar] at this
          | some nf =>
            obtain ⟨n0, f0⟩ := nf
            obtain ⟨p0, r0, v0, hm0, hp0, hf0⟩ := parChild?_some hpc
            have := hp.head_eq hm0 hm (by rw [hp0, hs]; rfl)
            subst this
            rw [hs] at hp0
            simp only [Seg.par.injEq] at hp0
            rw [← hf0, hp0]
        have := hnp m hpc
        rw [hs] at this; simp at this
      | wild =>
        have hrest : rest = [] := wildLast_wild_head (hwl _ hm) hs
        subst hrest
        have hw : ∃ wv, wildNode? res = some (wv, u.host) ∧ wv = some j := by
          cases hw : wildNode? res with
          | none => exact absurd hs (wildNode?_none hw hm)
          | some wf =>
            obtain ⟨wv, f⟩ := wf
            obtain ⟨p0, r0, hm0, hp0, hf0⟩ := wildNode?_some hw
            have hpp := hp.head_eq hm0 hm (by rw [hp0, hs])
            have hr0 := wildLast_wild_head (hwl _ hm0) hp0
            subst hpp; subst hr0
            have := hc _ hm0 _ hm rfl
            simp only at this
            exact ⟨wv, by rw [hf0], this⟩
        obtain ⟨wv, hwn, hwv⟩ := hw
        have hnf : nextFw res fw params path u = some ⟨some j, params, path ++ [⟨u.host, .wild⟩]⟩ := by
          unfold nextFw; rw [hwn, hwv]; simp
        rw [hnf]
        simp [stuck, hs, Seg.isPar]


end LunarVerif.UrlTree
