import LunarVerif.Spec.UrlMatch
/-! Shared lemmas about the trie model (`Model/UrlTree.lean`) against the declarative matcher
(`Spec/UrlMatch.lean`).  Everything is an induction over the URL parts on residual lists. -/
namespace LunarVerif.UrlTree
open LunarVerif.UrlMatch

variable {V : Type}

/-! ### `firstSome?` / `lastSome?` -/

theorem firstSome?_some {α β : Type} {f : α → Option β} {l : List α} {b : β}
    (h : firstSome? f l = some b) : ∃ a ∈ l, f a = some b := by
  induction l with
  | nil => simp [firstSome?] at h
  | cons a as ih =>
    unfold firstSome? at h
    cases hfa : f a with
    | some b' =>
      rw [hfa] at h
      exact ⟨a, by simp, by rw [hfa]; exact h⟩
    | none =>
      rw [hfa] at h
      obtain ⟨x, hx, hfx⟩ := ih h
      exact ⟨x, by simp [hx], hfx⟩

theorem firstSome?_none {α β : Type} {f : α → Option β} {l : List α}
    (h : firstSome? f l = none) : ∀ a ∈ l, f a = none := by
  induction l with
  | nil => simp
  | cons a as ih =>
    unfold firstSome? at h
    cases hfa : f a with
    | some b' => rw [hfa] at h; simp at h
    | none =>
      rw [hfa] at h
      intro x hx
      rcases List.mem_cons.mp hx with rfl | hx
      · exact hfa
      · exact ih h x hx

theorem lastSome?_some {α β : Type} {f : α → Option β} {l : List α} {b : β}
    (h : lastSome? f l = some b) : ∃ a ∈ l, f a = some b := by
  induction l with
  | nil => simp [lastSome?] at h
  | cons a as ih =>
    unfold lastSome? at h
    cases hl : lastSome? f as with
    | some b' =>
      rw [hl] at h
      simp only [Option.some.injEq] at h
      subst h
      obtain ⟨x, hx, hfx⟩ := ih hl
      exact ⟨x, by simp [hx], hfx⟩
    | none =>
      rw [hl] at h
      exact ⟨a, by simp, h⟩

theorem lastSome?_none {α β : Type} {f : α → Option β} {l : List α}
    (h : lastSome? f l = none) : ∀ a ∈ l, f a = none := by
  induction l with
  | nil => simp
  | cons a as ih =>
    unfold lastSome? at h
    cases hl : lastSome? f as with
    | some b' => rw [hl] at h; simp at h
    | none =>
      rw [hl] at h
      intro x hx
      rcases List.mem_cons.mp hx with rfl | hx
      · exact h
      · exact ih hl x hx

/-! ### residual steps -/

theorem mem_step {k : Key} {res : Res V} {rest : List Part} {v : Option V} :
    (rest, v) ∈ step k res ↔ ∃ p, (p :: rest, v) ∈ res ∧ p.seg.key = k := by
  unfold step
  rw [List.mem_filterMap]
  constructor
  · rintro ⟨⟨ps, v'⟩, hmem, hst⟩
    unfold stepEntry at hst
    cases ps with
    | nil => simp at hst
    | cons p rest' =>
      by_cases hk : p.seg.key = k
      · simp [hk] at hst
        obtain ⟨h1, h2⟩ := hst
        subst h1; subst h2
        exact ⟨p, hmem, hk⟩
      · simp [hk] at hst
  · rintro ⟨p, hmem, hk⟩
    exact ⟨(p :: rest, v), hmem, by simp [stepEntry, hk]⟩

theorem constFlag?_some {res : Res V} {s : String} {b : Bool} (h : constFlag? res s = some b) :
    ∃ p rest v, (p :: rest, v) ∈ res ∧ p.seg = .lit s ∧ p.host = b := by
  obtain ⟨⟨ps, v⟩, hmem, hc⟩ := firstSome?_some h
  unfold constHead at hc
  cases ps with
  | nil => simp at hc
  | cons p rest =>
    by_cases hp : p.seg = .lit s
    · simp [hp] at hc
      exact ⟨p, rest, v, hmem, hp, hc⟩
    · simp [hp] at hc

theorem constFlag?_none {res : Res V} {s : String} (h : constFlag? res s = none)
    {p : Part} {rest : List Part} {v : Option V} (hmem : (p :: rest, v) ∈ res) : p.seg ≠ .lit s := by
  have := firstSome?_none h _ hmem
  intro hp
  simp [constHead, hp] at this

theorem parChild?_some {res : Res V} {n : String} {b : Bool} (h : parChild? res = some (n, b)) :
    ∃ p rest v, (p :: rest, v) ∈ res ∧ p.seg = .par n ∧ p.host = b := by
  obtain ⟨⟨ps, v⟩, hmem, hc⟩ := firstSome?_some h
  unfold parHead at hc
  cases ps with
  | nil => simp at hc
  | cons p rest =>
    cases hs : p.seg with
    | par n' =>
      simp [hs] at hc
      obtain ⟨h1, h2⟩ := hc
      subst h1
      exact ⟨p, rest, v, hmem, hs, h2⟩
    | lit s => simp [hs] at hc
    | wild => simp [hs] at hc

theorem parChild?_none {res : Res V} (h : parChild? res = none)
    {p : Part} {rest : List Part} {v : Option V} (hmem : (p :: rest, v) ∈ res) : p.seg.isPar = false := by
  have := firstSome?_none h _ hmem
  cases hs : p.seg with
  | par n => simp [parHead, hs] at this
  | lit s => rfl
  | wild => rfl

theorem wildChild?_some {res : Res V} {wv : Option V} (h : wildChild? res = some wv) :
    ∃ p rest, (p :: rest, wv) ∈ res ∧ p.seg = .wild := by
  obtain ⟨⟨ps, v⟩, hmem, hc⟩ := lastSome?_some h
  unfold wildHead at hc
  cases ps with
  | nil => simp at hc
  | cons p rest =>
    by_cases hp : p.seg = .wild
    · simp [hp] at hc
      subst hc
      exact ⟨p, rest, hmem, hp⟩
    · simp [hp] at hc

theorem wildChild?_none {res : Res V} (h : wildChild? res = none)
    {p : Part} {rest : List Part} {v : Option V} (hmem : (p :: rest, v) ∈ res) : p.seg ≠ .wild := by
  have := lastSome?_none h _ hmem
  intro hp
  simp [wildHead, hp] at this

theorem nodeValue_some {res : Res V} {v : V} (h : nodeValue res = some v) : ([], some v) ∈ res := by
  obtain ⟨⟨ps, ov⟩, hmem, hc⟩ := lastSome?_some h
  unfold endHead at hc
  cases ps with
  | nil => simp at hc; subst hc; exact hmem
  | cons p rest => simp at hc

theorem nodeValue_none {res : Res V} (h : nodeValue res = none) {ov : Option V}
    (hmem : ([], ov) ∈ res) : ov = none := by
  have := lastSome?_none h _ hmem
  simpa [endHead] using this

/-! ### well-formedness of residual lists -/

/-- `*` only as last part of every entry. -/
def WildLast (res : Res V) : Prop := ∀ e ∈ res, wildLast e.1 = true

theorem WildLast.step {res : Res V} (h : WildLast res) (k : Key) : WildLast (step k res) := by
  intro ⟨rest, v⟩ hmem
  obtain ⟨p, hp, _⟩ := mem_step.mp hmem
  have := h _ hp
  simp only [wildLast] at this
  by_cases hw : p.seg = .wild
  · simp [hw] at this
    subst this
    rfl
  · simpa [hw] using this

theorem wildLast_wild_head {p : Part} {rest : List Part} (h : wildLast (p :: rest) = true)
    (hp : p.seg = .wild) : rest = [] := by
  simpa [wildLast, hp] using h

/-! ### lax soundness of the lookup (no hypothesis on host flags) -/

theorem urlNonEmpty_cons {u : Part} {us : List Part} (h : urlNonEmpty (u :: us) = true) :
    u.seg ≠ .lit "" ∧ urlNonEmpty us = true := by
  simpa [urlNonEmpty] using h

theorem stuck_value {fw : Option (Option V)} {params path u} {v : V}
    (h : (stuck fw params path u).value = some v) : fw = some (some v) := by
  unfold stuck at h
  split at h
  · simp [LookupResult.none] at h
  · split at h
    · simp at h; subst h; rfl
    · simp [LookupResult.none] at h

theorem lookGo_sound_lax (us : List Part) :
    ∀ (res : Res V) (fw : Option (Option V)) (params : List (String × String)) (path : List Part) (v : V),
    WildLast res → urlNonEmpty us = true →
    (lookGo res fw params path us).value = some v →
    (∃ q, (q, some v) ∈ res ∧ matchesLax q us = true) ∨ fw = some (some v) := by
  induction us with
  | nil =>
    intro res fw params path v hwl _ h
    unfold lookGo at h
    split at h
    · rename_i v' hv'
      simp at h; subst h
      exact .inl ⟨[], nodeValue_some hv', by simp [matchesLax, matchesG]⟩
    · split at h
      · rename_i wv hw
        simp at h; subst h
        obtain ⟨p, rest, hmem, hp⟩ := wildChild?_some hw
        have := wildLast_wild_head (hwl _ hmem) hp
        subst this
        exact .inl ⟨[p], hmem, by simp [matchesLax, matchesG, hp]⟩
      · split at h
        · simp at h; subst h; exact .inr rfl
        · simp [LookupResult.none] at h
  | cons u us ih =>
    intro res fw params path v hwl hne h
    obtain ⟨hu, hne'⟩ := urlNonEmpty_cons hne
    unfold lookGo at h
    simp only at h
    -- the fallback wildcard after this node
    have hfw : ∀ {fw' : Option (Option V)},
        fw' = (match wildChild? res with | some wv => some wv | none => fw) →
        fw' = some (some v) →
        (∃ q, (q, some v) ∈ res ∧ matchesLax q (u :: us) = true) ∨ fw = some (some v) := by
      intro fw' hdef hfw'
      cases hw : wildChild? res with
      | none => rw [hw] at hdef; simp at hdef; subst hdef; exact .inr hfw'
      | some wv =>
        rw [hw] at hdef; simp at hdef; subst hdef
        simp at hfw'; subst hfw'
        obtain ⟨p, rest, hmem, hp⟩ := wildChild?_some hw
        have := wildLast_wild_head (hwl _ hmem) hp
        subst this
        exact .inl ⟨[p], hmem, by simp [matchesLax, matchesG, hp]⟩
    split at h
    · -- constant child
      rename_i s hvc
      have hus : u.seg = .lit s ∧ constFlag? res s = some u.host := by
        cases hs : u.seg with
        | lit s' =>
          rw [hs] at hvc; simp at hvc
          obtain ⟨h1, h2⟩ := hvc
          subst h2; exact ⟨rfl, h1⟩
        | par n => rw [hs] at hvc; simp at hvc
        | wild => rw [hs] at hvc; simp at hvc
      rcases ih _ _ _ _ v (hwl.step _) hne' h with ⟨q, hq, hm⟩ | hfw'
      · obtain ⟨p, hp, hk⟩ := mem_step.mp hq
        refine .inl ⟨p :: q, hp, ?_⟩
        cases hps : p.seg with
        | lit s' =>
          rw [hps] at hk; simp [Seg.key] at hk; subst hk
          simp [matchesLax, matchesG, hps, segAccepts, hus.1]
          exact hm
        | par n => rw [hps] at hk; simp [Seg.key] at hk
        | wild => rw [hps] at hk; simp [Seg.key] at hk
      · exact hfw rfl hfw'
    · split at h
      · rename_i n hh hpc
        split at h
        · -- parametric child
          rcases ih _ _ _ _ v (hwl.step _) hne' h with ⟨q, hq, hm⟩ | hfw'
          · obtain ⟨p, hp, hk⟩ := mem_step.mp hq
            refine .inl ⟨p :: q, hp, ?_⟩
            cases hps : p.seg with
            | par n' =>
              simp [matchesLax, matchesG, hps, segAccepts, hu]
              exact hm
            | lit s' => rw [hps] at hk; simp [Seg.key] at hk
            | wild => rw [hps] at hk; simp [Seg.key] at hk
          · exact hfw rfl hfw'
        · exact hfw rfl (stuck_value h)
      · exact hfw rfl (stuck_value h)


theorem matches_of_lax (q : Pattern) : ∀ (us : Url), matchesLax q us = true → flagsOK q us = true →
    «matches» q us = true := by
  induction q with
  | nil => intro us h _; cases us <;> simp_all [matchesLax, «matches», matchesG]
  | cons p ps ih =>
    intro us h hf
    cases hs : p.seg with
    | wild =>
      cases us with
      | nil => simp_all [matchesLax, «matches», matchesG]
      | cons u us' =>
        simp [matchesLax, matchesG, hs] at h
        simp [flagsOK, hs] at hf
        simp [«matches», matchesG, hs, h, hf]
    | lit s =>
      cases us with
      | nil => simp [matchesLax, matchesG, hs] at h
      | cons u us' =>
        simp [matchesLax, matchesG, hs, segAccepts] at h
        simp [flagsOK, hs, h.1] at hf
        simp [«matches», matchesG, hs, segAccepts, h.1, hf.1]
        exact ih us' h.2 hf.2
    | par n =>
      cases us with
      | nil => simp [matchesLax, matchesG, hs] at h
      | cons u us' =>
        simp [matchesLax, matchesG, hs, segAccepts] at h
        simp [flagsOK, hs] at hf
        simp [«matches», matchesG, hs, segAccepts, h.1, hf.1]
        exact ih us' h.2 hf.2

theorem lax_of_matches (q : Pattern) (us : Url) (h : «matches» q us = true) : matchesLax q us = true := by
  induction q generalizing us with
  | nil => cases us <;> simp_all [matchesLax, «matches», matchesG]
  | cons p ps ih =>
    cases hs : p.seg with
    | wild =>
      cases us <;> simp_all [matchesLax, «matches», matchesG]
    | lit s =>
      cases us with
      | nil => simp [«matches», matchesG, hs] at h
      | cons u us' =>
        simp [«matches», matchesG, hs] at h
        simp [matchesLax, matchesG, hs, h.1.2]
        exact ih us' h.2
    | par n =>
      cases us with
      | nil => simp [«matches», matchesG, hs] at h
      | cons u us' =>
        simp [«matches», matchesG, hs] at h
        simp [matchesLax, matchesG, hs, h.1.2]
        exact ih us' h.2

/-- Soundness of `Lookup`: a returned value belongs to an inserted pattern that (laxly) matches the URL. -/
theorem lookupParts_sound_lax (t : Tree V) (us : List Part) (v : V)
    (hwl : WildLast t) (hne : urlNonEmpty us = true) (h : (lookupParts t us).value = some v) :
    ∃ q, (q, some v) ∈ t ∧ matchesLax q us = true := by
  rcases lookGo_sound_lax us t none [] [] v hwl hne h with h | h
  · exact h
  · simp at h

/-- ... and strictly, when no inserted pattern follows the URL across the host/path boundary. -/
theorem lookupParts_sound (t : Tree V) (us : List Part) (v : V)
    (hwl : WildLast t) (hne : urlNonEmpty us = true) (hfl : ∀ e ∈ t, flagsOK e.1 us = true)
    (h : (lookupParts t us).value = some v) :
    ∃ q, (q, some v) ∈ t ∧ «matches» q us = true := by
  obtain ⟨q, hq, hm⟩ := lookupParts_sound_lax t us v hwl hne h
  exact ⟨q, hq, matches_of_lax q us hm (hfl _ hq)⟩


/-! ### insert -/

theorem wildLast_trunc (ps : List Part) : wildLast (trunc ps) = true := by
  induction ps with
  | nil => rfl
  | cons p ps ih =>
    unfold trunc
    by_cases h : p.seg = .wild
    · simp [h, wildLast]
    · simp [h, wildLast, ih]

theorem trunc_of_wildLast (ps : List Part) (h : wildLast ps = true) : trunc ps = ps := by
  induction ps with
  | nil => rfl
  | cons p ps ih =>
    unfold trunc
    by_cases hw : p.seg = .wild
    · simp [wildLast, hw] at h; simp [hw, h]
    · simp [wildLast, hw] at h; simp [hw, ih h]

theorem trunc_length_le (ps : List Part) : (trunc ps).length ≤ ps.length := by
  induction ps with
  | nil => simp [trunc]
  | cons p ps ih => unfold trunc; split <;> simp <;> omega

theorem trunc_eq_of_length (ps : List Part) (h : ¬ (trunc ps).length < ps.length) : trunc ps = ps := by
  induction ps with
  | nil => rfl
  | cons p ps ih =>
    unfold trunc at h ⊢
    by_cases hw : p.seg = .wild
    · simp [hw] at h ⊢
      cases ps with
      | nil => rfl
      | cons a b => simp at h
    · simp [hw] at h ⊢
      exact ih (by omega)

theorem except_map_ok {ε α β : Type} {f : α → β} {x : Except ε α} {b : β}
    (h : x.map f = .ok b) : ∃ a, x = .ok a ∧ f a = b := by
  cases x with
  | error e => simp [Except.map] at h
  | ok a => simp [Except.map] at h; exact ⟨a, rfl, h⟩

/-- A declared insert files the pattern under its own parts (cut after the first `*`). -/
theorem insGo_declared (ps : List Part) : ∀ (res : Res V) (eff : List Part),
    insGo true res ps = .ok eff → eff = trunc ps := by
  induction ps with
  | nil => intro res eff h; simp [insGo] at h; subst h; rfl
  | cons p ps ih =>
    intro res eff h
    unfold insGo at h
    unfold trunc
    cases hs : p.seg with
    | wild => simp [hs] at h ⊢; exact h.symm
    | par n =>
      simp only [hs] at h
      have hne : ¬ (Seg.par n = Seg.wild) := by simp
      simp only [hne, if_false]
      split at h
      · split at h
        · simp at h
        · obtain ⟨a, ha, hf⟩ := except_map_ok h
          rw [← hf, ih _ _ ha]
      · obtain ⟨a, ha, hf⟩ := except_map_ok h
        rw [← hf, ih _ _ ha]
    | lit s =>
      simp only [hs] at h
      have hne : ¬ (Seg.lit s = Seg.wild) := by simp
      simp only [hne, if_false]
      split at h
      · obtain ⟨a, ha, hf⟩ := except_map_ok h
        rw [← hf, ih _ _ ha]
      · simp only [if_true] at h
        obtain ⟨a, ha, hf⟩ := except_map_ok h
        rw [← hf, ih _ _ ha]

theorem insGo_wildLast (d : Bool) (ps : List Part) : ∀ (res : Res V) (eff : List Part),
    insGo d res ps = .ok eff → wildLast eff = true := by
  induction ps with
  | nil => intro res eff h; simp [insGo] at h; subst h; rfl
  | cons p ps ih =>
    intro res eff h
    unfold insGo at h
    cases hs : p.seg with
    | wild => simp [hs] at h; subst h; simp [wildLast, hs]
    | par n =>
      simp only [hs] at h
      split at h
      · split at h
        · simp at h
        · obtain ⟨a, ha, hf⟩ := except_map_ok h
          subst hf; simp [wildLast, hs, ih _ _ ha]
      · obtain ⟨a, ha, hf⟩ := except_map_ok h
        subst hf; simp [wildLast, hs, ih _ _ ha]
    | lit s =>
      simp only [hs] at h
      split at h
      · obtain ⟨a, ha, hf⟩ := except_map_ok h
        subst hf; simp [wildLast, hs, ih _ _ ha]
      · split at h
        · obtain ⟨a, ha, hf⟩ := except_map_ok h
          subst hf; simp [wildLast, ih _ _ ha]
        · obtain ⟨a, ha, hf⟩ := except_map_ok h
          subst hf; simp [wildLast, hs, ih _ _ ha]

/-- Shape of a successful insert. -/
theorem insertParts_ok {t t' : Tree V} {ps : List Part} {v : V} {d : Bool}
    (h : insertParts t ps v d = .ok t') :
    validateParts ps = none ∧ ∃ eff, insGo d t ps = .ok eff ∧
      t' = t ++ [(eff, if eff.length < ps.length then none else some v)] := by
  unfold insertParts at h
  split at h
  · simp at h
  · rename_i hv
    split at h
    · simp at h
    · rename_i eff he
      simp at h
      exact ⟨hv, eff, he, h.symm⟩

theorem insertParts_wildLast {t t' : Tree V} {ps : List Part} {v : V} {d : Bool}
    (hwl : WildLast t) (h : insertParts t ps v d = .ok t') : WildLast t' := by
  obtain ⟨_, eff, he, rfl⟩ := insertParts_ok h
  intro e hmem
  rcases List.mem_append.mp hmem with hm | hm
  · exact hwl e hm
  · simp at hm; subst hm; exact insGo_wildLast d ps t eff he

/-- A successful declared insert appends `(trunc ps, value?)`, the value being kept iff nothing was cut. -/
theorem insertParts_declared {t t' : Tree V} {ps : List Part} {v : V}
    (h : insertParts t ps v true = .ok t') :
    t' = t ++ [(trunc ps, if (trunc ps).length < ps.length then none else some v)] := by
  obtain ⟨_, eff, he, rfl⟩ := insertParts_ok h
  rw [insGo_declared ps t eff he]


theorem validateGo_none (last : Part) (ps : List Part) (h : validateGo last ps = none) :
    ∀ p ∈ ps, p.seg ≠ .lit "" := by
  induction ps with
  | nil => simp
  | cons p ps ih =>
    unfold validateGo at h
    split at h
    · simp at h
    · rename_i hp
      split at h
      · simp at h
      · intro x hx
        rcases List.mem_cons.mp hx with rfl | hx
        · exact hp
        · exact ih h x hx

theorem validateParts_none {ps : List Part} (h : validateParts ps = none) : urlNonEmpty ps = true := by
  unfold validateParts at h
  unfold urlNonEmpty
  rw [List.all_eq_true]
  intro p hp
  split at h
  · rename_i l _
    have := validateGo_none l ps h p hp
    simpa using this
  · rename_i hl
    simp at hl
    subst hl
    simp at hp

end LunarVerif.UrlTree
