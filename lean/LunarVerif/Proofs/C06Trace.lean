import LunarVerif.Proofs.C06
/-!
Helper lemmas for C06, part 2: the ghost trace of every schedule without shutdown satisfies the
observable predicates (V) `verdictOk`, (Q) `quotaOk` and `noPanic` of `Spec/C06.lean` (every schedule,
shutdown included).
-/
namespace LunarVerif.C06

/-- `p` holds for every event of a most-recent-first history w.r.t. the events before it. -/
def allRev (p : List Ev → Ev → Bool) : List Ev → Bool
  | [] => true
  | e :: older => p older e && allRev p older

theorem scan_append (p : List Ev → Ev → Bool) (xs : List Ev) (e : Ev) (older : List Ev) :
    scan p older (xs ++ [e]) = (scan p older xs && p (xs.reverse ++ older) e) := by
  induction xs generalizing older with
  | nil => simp [scan]
  | cons x xs ih => simp [scan, ih, Bool.and_assoc]

theorem scan_reverse (p : List Ev → Ev → Bool) (tr : List Ev) :
    scan p [] tr.reverse = allRev p tr := by
  induction tr with
  | nil => rfl
  | cons e tr ih => simp [scan_append, ih, allRev, Bool.and_comm]

structure InvT (s : St) : Prop where
  tv : allRev verdictOk s.trace = true
  tq : allRev quotaOk s.trace = true
  tp : allRev noPanic s.trace = true
  td : ∀ i, wasDone s.trace i = true ↔ (s.reqs i).st = .processed
  tc : ∀ i, ((s.reqs i).pc = .checked ∨ (s.reqs i).inMap = true) → wasChecked s.trace i = true
  tf : ∀ i, ((s.reqs i).pc = .absent ∨ (s.reqs i).pc = .checked ∨ (s.reqs i).pc = .registered) →
         wasQueued s.trace i = false ∧ wasRejected s.trace i = false
  gt : ∀ i, s.loop = .granted i → lastQtry s.trace i = some true
  pm : ∀ i, (s.reqs i).st = .processing → (s.reqs i).inMap = true

theorem wasDone_cons (e : Ev) (tr : List Ev) (i : Nat) :
    wasDone (e :: tr) i = ((match e with | .done j _ _ => j == i | _ => false) || wasDone tr i) := by
  simp only [wasDone, List.any_cons]; cases e <;> rfl

theorem wasChecked_cons (e : Ev) (tr : List Ev) (i : Nat) :
    wasChecked (e :: tr) i = ((match e with | .checked j => j == i | _ => false) || wasChecked tr i) := by
  simp only [wasChecked, List.any_cons]; cases e <;> rfl

theorem wasQueued_cons (e : Ev) (tr : List Ev) (i : Nat) :
    wasQueued (e :: tr) i = ((match e with | .queued j _ _ => j == i | _ => false) || wasQueued tr i) := by
  simp only [wasQueued, List.any_cons]; cases e <;> rfl

theorem wasRejected_cons (e : Ev) (tr : List Ev) (i : Nat) :
    wasRejected (e :: tr) i = ((match e with | .rejected j _ => j == i | _ => false) || wasRejected tr i) := by
  simp only [wasRejected, List.any_cons]; cases e <;> rfl

local macro "tr_auto" : tactic =>
  `(tactic| (constructor <;> (try intro j) <;>
      (try simp only [St.upd, St.emit, St.enq, allRev, verdictOk, quotaOk, noPanic, wasDone_cons, wasChecked_cons, wasQueued_cons,
        wasRejected_cons, lastQtry, Bool.or_eq_true, Bool.and_eq_true, beq_iff_eq, Bool.or_eq_false_iff,
        beq_eq_false_iff_ne, Bool.not_eq_true', Bool.false_or, Bool.true_and, Bool.and_true]) <;>
      grind [holdsL, holdsW, isReturned, isDraining]))

theorem invT_init (t0 : Nat) : InvT (St.init t0) := by
  constructor <;> simp [St.init, allRev, wasDone, wasChecked, wasQueued, wasRejected]

theorem invT_advance (s : St) (d : Nat) (h : InvT s) : InvT { s with now := s.now + d } := by
  obtain ⟨tv, tq, tp, td, tc, tf, gt, pm⟩ := h
  constructor <;> assumption

theorem invT_arrive (cfg : Cfg) (s : St) (p : Nat) (hA : InvA s) (h : InvT s) : InvT (stepArrive cfg s p) := by
  obtain ⟨tv, tq, tp, td, tc, tf, gt, pm⟩ := h
  have hn := hA.fresh s.n (Nat.le_refl _)
  have hf := tf s.n (Or.inl hn.1)
  unfold stepArrive
  split
  · tr_auto
  · tr_auto

theorem invT_register (s : St) (i : Nat) (hA : InvA s) (h : InvT s) : InvT (stepRegister s i) := by
  obtain ⟨tv, tq, tp, td, tc, tf, gt, pm⟩ := h
  unfold stepRegister
  split
  · tr_auto
  · constructor <;> assumption

theorem invT_push (s : St) (i : Nat) (hA : InvA s) (h : InvT s) : InvT (stepPush s i) := by
  obtain ⟨tv, tq, tp, td, tc, tf, gt, pm⟩ := h
  unfold stepPush
  split
  · rename_i hg
    have hf := tf i (Or.inr (Or.inr hg))
    tr_auto
  · constructor <;> assumption

theorem invT_wake (s : St) (i : Nat) (hA : InvA s) (h : InvT s) : InvT (stepWake s i) := by
  obtain ⟨tv, tq, tp, td, tc, tf, gt, pm⟩ := h
  unfold stepWake
  split
  · tr_auto
  · constructor <;> assumption

theorem invT_unwatch (s : St) (i : Nat) (hA : InvA s) (h : InvT s) : InvT (stepUnwatch s i) := by
  obtain ⟨tv, tq, tp, td, tc, tf, gt, pm⟩ := h
  obtain ⟨np, own, excl, wg, dn, rt, rs, qk, gq, fresh⟩ := hA
  have hret : isReturned (s.reqs i).pc = true → (s.reqs i).st = .processed := by
    intro h
    cases hp : (s.reqs i).pc <;> simp [isReturned, hp] at h
    exact (rt i _ hp).1
  unfold stepUnwatch
  split
  · tr_auto
  · constructor <;> assumption

theorem invT_heapRemove (s : St) (i : Nat) (hA : InvA s) (h : InvT s) : InvT (stepHeapRemove s i) := by
  obtain ⟨tv, tq, tp, td, tc, tf, gt, pm⟩ := h
  unfold stepHeapRemove
  split
  · tr_auto
  · constructor <;> assumption

theorem invT_loopFire (s : St) (hA : InvA s) (h : InvT s) : InvT (stepLoopFire s) := by
  obtain ⟨tv, tq, tp, td, tc, tf, gt, pm⟩ := h
  unfold stepLoopFire
  split
  · split <;> tr_auto
  · constructor <;> assumption

theorem invT_scan (cfg : Cfg) (s : St) (h : InvT s) : InvT (stepScan cfg s) := by
  obtain ⟨tv, tq, tp, td, tc, tf, gt, pm⟩ := h
  unfold stepScan
  split
  · tr_auto
  · constructor <;> assumption

theorem invT_loop (cfg : Cfg) (s : St) (k : Nat) (hA : InvA s) (h : InvT s) : InvT (stepLoop cfg s k) := by
  obtain ⟨tv, tq, tp, td, tc, tf, gt, pm⟩ := h
  obtain ⟨np, own, excl, wg, dn, rt, rs, qk, gq, fresh⟩ := hA
  unfold stepLoop
  split
  · constructor <;> assumption
  · constructor <;> assumption
  · rename_i heq
    split
    · tr_auto
    · tr_auto
  · rename_i i heq
    split
    · tr_auto
    · tr_auto
  · rename_i i heq
    have hp : (s.reqs i).st = .processing := (own i).2 (Or.inl (by simp [heq, holdsL]))
    generalize (quotaTry cfg s.q s.now).1 = q'
    generalize (quotaTry cfg s.q s.now).2 = ok
    cases ok <;> tr_auto
  · rename_i i heq
    tr_auto
  · rename_i i heq
    have hp : (s.reqs i).st = .processing := (own i).2 (Or.inl (by simp [heq, holdsL]))
    tr_auto
  · rename_i i heq
    have hp : (s.reqs i).st = .processing := (own i).2 (Or.inl (by simp [heq, holdsL]))
    have hw : (s.reqs i).wg = 1 := by rw [wg i, hp]; simp
    have hlt : ¬ ((s.reqs i).wg - 1 < 0) := by omega
    have hq := gt i heq
    have hm := pm i hp
    have hc := tc i (Or.inr hm)
    have hd : wasDone s.trace i = false := by
      cases hx : wasDone s.trace i
      · rfl
      · have := (td i).1 hx; rw [hp] at this; cases this
    have hb : (RResult.success == RResult.success) = true := by decide
    unfold St.signal
    simp only [hlt, if_false, hb]
    tr_auto
  · rename_i todo heq
    split
    · split
      · tr_auto
      · constructor <;> assumption
    · rename_i i hk
      split
      · rename_i hg
        have hw : (s.reqs i).wg = 1 := by rw [wg i, hg.2]; simp
        have hlt : ¬ ((s.reqs i).wg - 1 < 0) := by omega
        have hc := tc i (Or.inr hg.1)
        have hd : wasDone s.trace i = false := by
          cases hx : wasDone s.trace i
          · rfl
          · have := (td i).1 hx; rw [hg.2] at this; cases this
        have hb : (RResult.timeout == RResult.success) = false := by decide
        unfold St.signal
        simp only [hlt, if_false, hb]
        tr_auto
      · tr_auto

theorem invT_cancel (s : St) (h : InvT s) : InvT (stepCancel s) := by
  obtain ⟨tv, tq, tp, td, tc, tf, gt, pm⟩ := h
  unfold stepCancel
  split
  · constructor <;> assumption
  · tr_auto

theorem invT_watcher (s : St) (k : Nat) (hA : InvA s) (h : InvT s) : InvT (stepWatcher s k) := by
  obtain ⟨tv, tq, tp, td, tc, tf, gt, pm⟩ := h
  obtain ⟨np, own, excl, wg, dn, rt, rs, qk, gq, fresh⟩ := hA
  unfold stepWatcher
  split
  · constructor <;> assumption
  · rename_i todo heq
    split
    · split
      · tr_auto
      · constructor <;> assumption
    · split
      · tr_auto
      · tr_auto
  · rename_i i todo heq
    have hp : (s.reqs i).st = .processing := (own i).2 (Or.inr (by simp [heq, holdsW]))
    have hw : (s.reqs i).wg = 1 := by rw [wg i, hp]; simp
    have hlt : ¬ ((s.reqs i).wg - 1 < 0) := by omega
    have hm := pm i hp
    have hc := tc i (Or.inr hm)
    have hd : wasDone s.trace i = false := by
      cases hx : wasDone s.trace i
      · rfl
      · have := (td i).1 hx; rw [hp] at this; cases this
    have hb : (RResult.timeout == RResult.success) = false := by decide
    have hl : ∀ j, s.loop = .granted j → j ≠ i := by
      intro j hj e
      exact excl i ⟨by simp [hj, holdsL, e], by simp [heq, holdsW]⟩
    unfold St.signal
    simp only [hlt, if_false, hb]
    tr_auto

theorem invT_step (cfg : Cfg) (s : St) (a : Act) (hA : InvA s) (h : InvT s) :
    InvT (step cfg s a) := by
  unfold step
  rw [hA.np]
  simp only [Bool.false_eq_true, if_false]
  cases a with
  | advance d => exact invT_advance s d h
  | arrive p => exact invT_arrive cfg s p hA h
  | register i => exact invT_register s i hA h
  | push i => exact invT_push s i hA h
  | wake i => exact invT_wake s i hA h
  | unwatch i => exact invT_unwatch s i hA h
  | heapRemove i => exact invT_heapRemove s i hA h
  | loopFire => exact invT_loopFire s hA h
  | loopStep k => exact invT_loop cfg s k hA h
  | wScan => exact invT_scan cfg s h
  | wStep k => exact invT_watcher s k hA h
  | cancel => exact invT_cancel s h

theorem invAT_run (cfg : Cfg) (acts : List Act) (s : St) (hA : InvA s) (hT : InvT s) :
    InvA (run cfg s acts) ∧ InvT (run cfg s acts) := by
  induction acts generalizing s with
  | nil => exact ⟨hA, hT⟩
  | cons a rest ih => exact ih (step cfg s a) (invA_step cfg s a hA) (invT_step cfg s a hA hT)

end LunarVerif.C06
