import LunarVerif.Model.C02Sched
import LunarVerif.Proofs.C02
/-! Invariants of the thread-level model (all schedules). -/
namespace LunarVerif.C02

/-- Transaction `r` has no member in quota `q`'s set. -/
def NoMem (s : S) (q r : Nat) : Prop := ∀ m ∈ s.members q, m.req ≠ r

/-- `m` is the only member of its transaction that may be in quota `q`'s set. -/
def OnlyM (s : S) (q : Nat) (r : Nat) (m : Member) : Prop := ∀ m' ∈ s.members q, m'.req = r → m' = m

def Instr.isInc : Instr → Bool
  | .chk _ | .sadd _ | .setst _ | .chkA _ | .finish _ | .resetGo => true
  | _ => false

/-- Every `sadd q` is immediately preceded by `chk q` (`prev` = the level of a `chk` just before the list). -/
def sOk (prev : Option Nat) : List Instr → Bool
  | [] => true
  | .sadd q :: t => (prev == some q) && sOk none t
  | .chk q :: t => sOk (some q) t
  | _ :: t => sOk none t

/-- Every `del q` comes after a `srem q` of the same thread (`c` = levels already cleared). -/
def delOk (c : Nat → Bool) : List Instr → Bool
  | [] => true
  | .read q :: t => delOk (upd c q true) t
  | .recheck q _ :: t => delOk (upd c q true) t
  | .srem q _ _ :: t => delOk (upd c q true) t
  | .del q :: t => c q && delOk c t
  | _ :: t => delOk c t

theorem sOk_mono (p : Option Nat) : ∀ l, sOk none l = true → sOk p l = true := by
  intro l h
  cases l with
  | nil => rfl
  | cons i t => cases i <;> simp_all [sOk]

theorem sOk_append : ∀ (a b : List Instr) (p : Option Nat), sOk p a = true → sOk none b = true →
    sOk p (a ++ b) = true := by
  intro a
  induction a with
  | nil => intro b p _ hb; exact sOk_mono p b hb
  | cons i t ih =>
    intro b p ha hb
    cases i <;> simp_all [sOk]

theorem delOk_mono (c c' : Nat → Bool) (hc : ∀ q, c q = true → c' q = true) :
    ∀ l, delOk c l = true → delOk c' l = true := by
  intro l
  induction l generalizing c c' with
  | nil => intro _; rfl
  | cons i t ih =>
    intro h
    have hu : ∀ q q', upd c q true q' = true → upd c' q true q' = true := by
      intro q q' hq'; simp only [upd] at hq' ⊢; split <;> simp_all
    cases i with
    | read q => simp only [delOk] at h ⊢; exact ih _ _ (hu q) h
    | recheck q x => simp only [delOk] at h ⊢; exact ih _ _ (hu q) h
    | srem q x lv => simp only [delOk] at h ⊢; exact ih _ _ (hu q) h
    | del q => simp only [delOk, Bool.and_eq_true] at h ⊢; exact ⟨hc q h.1, ih c c' hc h.2⟩
    | _ => simp only [delOk] at h ⊢; exact ih c c' hc h

theorem delOk_append : ∀ (a b : List Instr) (c : Nat → Bool), delOk c a = true → delOk c b = true →
    delOk c (a ++ b) = true := by
  intro a
  induction a with
  | nil => intro b c _ hb; exact hb
  | cons i t ih =>
    intro b c ha hb
    have hu : ∀ q q', c q' = true → upd c q true q' = true := by
      intro q q' hq'; simp only [upd]; split <;> simp_all
    cases i with
    | read q => simp only [List.cons_append, delOk] at ha ⊢; exact ih b _ ha (delOk_mono c _ (hu q) b hb)
    | recheck q x => simp only [List.cons_append, delOk] at ha ⊢; exact ih b _ ha (delOk_mono c _ (hu q) b hb)
    | srem q x lv => simp only [List.cons_append, delOk] at ha ⊢; exact ih b _ ha (delOk_mono c _ (hu q) b hb)
    | del q => simp only [List.cons_append, delOk, Bool.and_eq_true] at ha ⊢; exact ⟨ha.1, ih b c ha.2 hb⟩
    | _ => simp only [List.cons_append, delOk] at ha ⊢; exact ih b c ha hb


/-! ### Shapes of the programs -/

def Instr.isDel : Instr → Bool | .del _ => true | _ => false
def Instr.isSadd : Instr → Bool | .sadd _ => true | _ => false

theorem delOk_of_noDel (c : Nat → Bool) : ∀ l : List Instr, (∀ i ∈ l, i.isDel = false) → delOk c l = true := by
  intro l
  induction l generalizing c with
  | nil => intro _; rfl
  | cons i t ih =>
    intro h
    have ht : ∀ i ∈ t, i.isDel = false := fun i hi => h i (List.mem_cons_of_mem _ hi)
    have hi := h i List.mem_cons_self
    cases i <;> simp_all [delOk, Instr.isDel]

theorem sOk_of_noSadd (p : Option Nat) : ∀ l : List Instr, (∀ i ∈ l, i.isSadd = false) → sOk p l = true := by
  intro l
  induction l generalizing p with
  | nil => intro _; rfl
  | cons i t ih =>
    intro h
    have ht : ∀ i ∈ t, i.isSadd = false := fun i hi => h i (List.mem_cons_of_mem _ hi)
    have hi := h i List.mem_cons_self
    cases i <;> simp_all [sOk, Instr.isSadd]

theorem sOk_incPairs (ch : List Nat) (rest : List Instr) (h : sOk none rest = true) :
    sOk none ((ch.flatMap fun q => [Instr.chk q, Instr.sadd q]) ++ rest) = true := by
  induction ch with
  | nil => simpa using h
  | cons q t ih => simpa [sOk] using ih

theorem sOk_incProg (ch : List Nat) : sOk none (incProg ch) = true := by
  apply sOk_incPairs
  apply sOk_of_noSadd
  intro i hi
  simp only [List.mem_map] at hi
  obtain ⟨q, _, rfl⟩ := hi; rfl

theorem sOk_allowedProg : ∀ ch : List Nat, sOk none (allowedProg ch) = true
  | [] => rfl
  | q :: rest => by
    simp only [allowedProg]
    refine sOk_append _ _ none (sOk_append _ _ none (sOk_incProg _) ?_) (sOk_allowedProg rest)
    rfl

theorem sOk_limiterProg (cfg : Cfg) (q0 : Nat) : sOk none (limiterProg cfg q0) = true := by
  simp only [limiterProg]
  split
  · show sOk none ([Instr.resetGo] ++ incProg (cfg.chainOf q0) ++ [Instr.resetGo] ++ allowedProg (cfg.chainOf q0)) = true
    exact sOk_append _ _ none (sOk_append _ _ none (sOk_append _ _ none rfl (sOk_incProg _)) rfl) (sOk_allowedProg _)
  · rfl

theorem sOk_sysIncProg (cfg : Cfg) (q0 : Nat) : sOk none (sysIncProg cfg q0) = true := by
  simp only [sysIncProg]
  split
  · show sOk none (incProg (cfg.chainOf q0)) = true
    exact sOk_incProg _
  · rfl

theorem sOk_flatMap (f : Nat → List Instr) (hf : ∀ q, sOk none (f q) = true) :
    ∀ l : List Nat, sOk none (l.flatMap f) = true
  | [] => rfl
  | q :: t => by simpa using sOk_append _ _ none (hf q) (sOk_flatMap f hf t)

theorem sOk_requestProg (cfg : Cfg) (post : Bool) : sOk none (requestProg cfg post) = true := by
  simp only [requestProg]
  exact sOk_append _ _ none (sOk_append _ _ none (sOk_flatMap _ (sOk_sysIncProg cfg) _)
    (sOk_flatMap _ (sOk_limiterProg cfg) _)) rfl

theorem mem_decProg (ch : List Nat) (i : Instr) (hi : i ∈ decProg ch) : (∃ q, i = .read q) ∨ ∃ q, i = .del q := by
  simp only [decProg, List.mem_append, List.mem_map] at hi
  rcases hi with ⟨q, _, rfl⟩ | ⟨q, _, rfl⟩
  · exact Or.inl ⟨q, rfl⟩
  · exact Or.inr ⟨q, rfl⟩

theorem noSadd_decProg (ch : List Nat) : ∀ i ∈ decProg ch, i.isSadd = false := by
  intro i hi
  rcases mem_decProg ch i hi with ⟨q, rfl⟩ | ⟨q, rfl⟩ <;> rfl

theorem noSadd_decAll (cfg : Cfg) (qs : List Nat) : ∀ i ∈ decAll cfg qs, i.isSadd = false := by
  intro i hi
  simp only [decAll, List.mem_flatMap] at hi
  obtain ⟨q0, _, h⟩ := hi
  split at h
  · exact noSadd_decProg _ i h
  · cases h

theorem noSadd_endProg (cfg : Cfg) : ∀ i ∈ endProg cfg, i.isSadd = false := by
  intro i hi
  simp only [endProg, List.mem_append, List.mem_flatMap, List.mem_cons, List.mem_singleton] at hi
  rcases hi with ⟨q0, _, rfl | h⟩ | h
  · rfl
  · exact noSadd_decProg _ i h
  · rcases h with rfl | h
    · rfl
    · cases h

theorem delOk_reads (ch : List Nat) (rest : List Instr) :
    ∀ c, delOk (fun q => c q || ch.contains q) rest = true →
      delOk c (ch.map Instr.read ++ rest) = true := by
  induction ch with
  | nil => intro c h; simpa using h
  | cons q t ih =>
    intro c h
    simp only [List.map_cons, List.cons_append, delOk]
    apply ih
    refine delOk_mono _ _ ?_ rest h
    intro q' hq'
    simp only [upd, Bool.or_eq_true, List.contains_cons, beq_iff_eq] at hq' ⊢
    by_cases e : q' = q <;> simp_all

theorem delOk_dels (c : Nat → Bool) : ∀ l : List Nat, (∀ q ∈ l, c q = true) → delOk c (l.map Instr.del) = true
  | [], _ => rfl
  | q :: t, h => by
    simp only [List.map_cons, delOk, Bool.and_eq_true]
    exact ⟨h q List.mem_cons_self, delOk_dels c t (fun q' hq' => h q' (List.mem_cons_of_mem _ hq'))⟩

theorem delOk_decProg (c : Nat → Bool) (ch : List Nat) : delOk c (decProg ch) = true := by
  simp only [decProg]
  apply delOk_reads
  apply delOk_dels
  intro q hq
  simp [List.mem_reverse.mp hq]

theorem delOk_decAll (cfg : Cfg) (c : Nat → Bool) : ∀ qs, delOk c (decAll cfg qs) = true
  | [] => rfl
  | q0 :: t => by
    simp only [decAll, List.flatMap_cons]
    apply delOk_append
    · split
      · exact delOk_decProg c _
      · rfl
    · exact delOk_decAll cfg c t

theorem delOk_endProg (cfg : Cfg) (c : Nat → Bool) : delOk c (endProg cfg) = true := by
  simp only [endProg]
  apply delOk_append
  · generalize cfg.sysDecs = l
    induction l with
    | nil => rfl
    | cons q0 t ih =>
      simp only [List.flatMap_cons]
      exact delOk_append _ _ c (by simpa [delOk] using delOk_decProg c _) ih
  · rfl


/-! ### No second `Inc` at a level while the first one's status write is pending -/

/-- `pd`: levels at which a status write may be pending.  No `chk q` / `sadd q` until the `setst q`, and every
    pending write is eventually done. -/
def mOk (pd : List Nat) : List Instr → Bool
  | [] => pd.isEmpty
  | .chk q :: t => !pd.contains q && mOk pd t
  | .sadd q :: t => !pd.contains q && mOk (q :: pd) t
  | .setst q :: t => mOk (pd.erase q) t
  | _ :: t => mOk pd t

theorem mOk_setst : ∀ (l : List Instr) (pd : List Nat), mOk pd l = true → ∀ q ∈ pd, Instr.setst q ∈ l := by
  intro l
  induction l with
  | nil => intro pd h q hq; simp [mOk] at h; subst h; cases hq
  | cons i t ih =>
    intro pd h q hq
    cases i with
    | chk q' => simp only [mOk, Bool.and_eq_true] at h; exact List.mem_cons_of_mem _ (ih pd h.2 q hq)
    | sadd q' =>
      simp only [mOk, Bool.and_eq_true] at h
      exact List.mem_cons_of_mem _ (ih _ h.2 q (List.mem_cons_of_mem _ hq))
    | setst q' =>
      simp only [mOk] at h
      by_cases e : q = q'
      · subst e; exact List.mem_cons_self
      · exact List.mem_cons_of_mem _ (ih _ h q ((List.mem_erase_of_ne e).mpr hq))
    | _ => simp only [mOk] at h; exact List.mem_cons_of_mem _ (ih pd h q hq)

/-- `finish` (the end of the request walk) is the last instruction of its program. -/
def finOk : List Instr → Bool
  | [] => true
  | .finish _ :: t => t.isEmpty
  | _ :: t => finOk t

theorem finOk_append_nonInc : ∀ (a b : List Instr), (∀ i ∈ a, i.isInc = false) → finOk b = true → finOk (a ++ b) = true := by
  intro a
  induction a with
  | nil => intro b _ h; exact h
  | cons i t ih =>
    intro b ha hb
    have hi := ha i List.mem_cons_self
    have := ih b (fun i hi => ha i (List.mem_cons_of_mem _ hi)) hb
    cases i <;> simp_all [finOk, Instr.isInc]

theorem finOk_append_last : ∀ (a : List Instr) (b : Bool), (∀ i ∈ a, ∀ b', i ≠ .finish b') → finOk (a ++ [.finish b]) = true := by
  intro a
  induction a with
  | nil => intro b _; rfl
  | cons i t ih =>
    intro b ha
    have hi := ha i List.mem_cons_self
    have := ih b (fun i hi => ha i (List.mem_cons_of_mem _ hi))
    cases i <;> simp_all [finOk]

/-- Program `a` can run in front of anything that is fine with `pd`, and leaves `pd` as it was. -/
def Thru (pd : List Nat) (a : List Instr) : Prop := ∀ rest, mOk pd rest = true → mOk pd (a ++ rest) = true

theorem Thru.nil (pd : List Nat) : Thru pd [] := fun _ h => h
theorem Thru.append {pd : List Nat} {a b : List Instr} (ha : Thru pd a) (hb : Thru pd b) : Thru pd (a ++ b) := by
  intro rest h; rw [List.append_assoc]; exact ha _ (hb _ h)
theorem Thru.flatMap {pd : List Nat} (f : Nat → List Instr) (hf : ∀ q, Thru pd (f q)) :
    ∀ l : List Nat, Thru pd (l.flatMap f)
  | [] => Thru.nil pd
  | q :: t => by simpa using (hf q).append (Thru.flatMap f hf t)
theorem Thru.single (pd : List Nat) (i : Instr) (h : i.isInc = false ∨ i = .resetGo ∨ (∃ q, i = .chkA q) ∨ ∃ b, i = .finish b) :
    Thru pd [i] := by
  intro rest hr
  rcases h with h | rfl | ⟨q, rfl⟩ | ⟨b, rfl⟩
  · cases i <;> simp_all [mOk, Instr.isInc]
  all_goals simpa [mOk] using hr

theorem thru_incProg (pd : List Nat) : ∀ ch : List Nat, ch.Nodup → (∀ q ∈ ch, q ∉ pd) → Thru pd (incProg ch) := by
  intro ch
  induction ch generalizing pd with
  | nil => intro _ _ rest h; simpa [incProg] using h
  | cons a t ih =>
    intro hnd hpd rest hr
    have ha : a ∉ pd := hpd a List.mem_cons_self
    have hat : a ∉ t := (List.nodup_cons.mp hnd).1
    have h1 : ∀ q ∈ t, q ∉ a :: pd := by
      intro q hq hin
      rcases List.mem_cons.mp hin with e | e
      · exact hat (e ▸ hq)
      · exact hpd q (List.mem_cons_of_mem _ hq) e
    have := ih (a :: pd) (List.nodup_cons.mp hnd).2 h1 (Instr.setst a :: rest)
      (by simp only [mOk, List.erase_cons_head]; exact hr)
    simp only [incProg, List.flatMap_cons, List.reverse_cons, List.map_append, List.map_cons, List.map_nil,
      List.append_assoc, List.cons_append, List.nil_append, mOk, Bool.and_eq_true, Bool.not_eq_true',
      List.contains_eq_mem, decide_eq_false_iff_not] at this ⊢
    exact ⟨ha, ha, this⟩

theorem thru_allowedProg (pd : List Nat) : ∀ ch : List Nat, ch.Nodup → (∀ q ∈ ch, q ∉ pd) →
    Thru pd (allowedProg ch)
  | [], _, _ => Thru.nil pd
  | q :: rest, hnd, hpd => by
    simp only [allowedProg]
    exact ((thru_incProg pd _ hnd hpd).append (Thru.single pd _ (Or.inr (Or.inr (Or.inl ⟨q, rfl⟩))))).append
      (thru_allowedProg pd rest (List.nodup_cons.mp hnd).2 (fun q' hq' => hpd q' (List.mem_cons_of_mem _ hq')))

theorem thru_nonInc (pd : List Nat) : ∀ l : List Instr, (∀ i ∈ l, i.isInc = false) → Thru pd l := by
  intro l h rest hr
  induction l with
  | nil => exact hr
  | cons i t ih =>
    have hi := h i List.mem_cons_self
    have := ih (fun i hi => h i (List.mem_cons_of_mem _ hi))
    cases i <;> simp_all [mOk, Instr.isInc]

theorem nonInc_decProg (ch : List Nat) : ∀ i ∈ decProg ch, i.isInc = false := by
  intro i hi
  rcases mem_decProg ch i hi with ⟨q, rfl⟩ | ⟨q, rfl⟩ <;> rfl

theorem nonInc_decAll (cfg : Cfg) (qs : List Nat) : ∀ i ∈ decAll cfg qs, i.isInc = false := by
  intro i hi
  simp only [decAll, List.mem_flatMap] at hi
  obtain ⟨q0, _, h⟩ := hi
  split at h
  · exact nonInc_decProg _ i h
  · cases h

theorem nonInc_endProg (cfg : Cfg) : ∀ i ∈ endProg cfg, i.isInc = false := by
  intro i hi
  simp only [endProg, List.mem_append, List.mem_flatMap, List.mem_cons] at hi
  rcases hi with ⟨q0, _, rfl | h⟩ | h
  · rfl
  · exact nonInc_decProg _ i h
  · rcases h with rfl | h
    · rfl
    · cases h

theorem thru_requestProg (cfg : Cfg) (hwf : cfg.wf = true) (post : Bool) :
    mOk [] (requestProg cfg post) = true := by
  have hch : ∀ q0, cfg.isConc q0 = true → Thru [] (incProg (cfg.chainOf q0)) ∧
      Thru [] (allowedProg (cfg.chainOf q0)) := fun q0 hc =>
    ⟨thru_incProg _ _ (wf_chain cfg hwf q0 hc).1 (fun _ _ h => by cases h),
     thru_allowedProg _ _ (wf_chain cfg hwf q0 hc).1 (fun _ _ h => by cases h)⟩
  have hlim : ∀ q0, Thru [] (limiterProg cfg q0) := by
    intro q0
    simp only [limiterProg]
    split
    · rename_i hc
      show Thru _ ([Instr.touch q0] ++ ([Instr.resetGo] ++ incProg (cfg.chainOf q0) ++ [Instr.resetGo] ++
        allowedProg (cfg.chainOf q0)))
      exact (Thru.single _ _ (Or.inl rfl)).append
        ((((Thru.single _ _ (Or.inr (Or.inl rfl))).append (hch q0 hc).1).append
          (Thru.single _ _ (Or.inr (Or.inl rfl)))).append (hch q0 hc).2)
    · exact Thru.single _ _ (Or.inl rfl)
  have hsys : ∀ q0, Thru [] (sysIncProg cfg q0) := by
    intro q0
    simp only [sysIncProg]
    split
    · rename_i hc
      show Thru _ ([Instr.touch q0] ++ ([Instr.resetGo] ++ incProg (cfg.chainOf q0)))
      exact (Thru.single _ _ (Or.inl rfl)).append ((Thru.single _ _ (Or.inr (Or.inl rfl))).append (hch q0 hc).1)
    · exact Thru.single _ _ (Or.inl rfl)
  have := ((Thru.flatMap _ hsys cfg.sysStart).append (Thru.flatMap _ hlim cfg.order)).append
    (Thru.single [] (Instr.finish post) (Or.inr (Or.inr (Or.inr ⟨post, rfl⟩)))) [] rfl
  simpa [requestProg] using this

/-! ### Invariants -/

def Instr.isGc : Instr → Bool | .gsrem _ _ | .gdel _ _ => true | _ => false
def Instr.isDecI : Instr → Bool
  | .read _ | .recheck _ _ | .srem _ _ _ | .del _ | .pop | .dropPop => true
  | _ => false
/-- The instruction will (lead to) run the `SRem` section of `Dec` at level `q`. -/
def Instr.clears (q : Nat) : Instr → Bool
  | .read q' | .recheck q' _ | .srem q' _ _ => q' == q
  | _ => false

/-- What the values carried by a pending `Dec` continuation are known to mean. -/
def PayOk (s : S) (r : Nat) : Instr → Prop
  | .recheck q x => (x = none → NoMem s q r) ∧ ∀ m, x = some m → OnlyM s q r m
  | .srem q x lv => ((x = none ∨ lv = false) → NoMem s q r) ∧ ∀ m, x = some m → OnlyM s q r m
  | _ => True

/-- What a thread knows, relative to the shared state. -/
structure TInv (cfg : Cfg) (s : S) (t : Thread) : Prop where
  mine : ∀ q m, t.loc.mine q = some m → m.req = t.owner ∧ s.allowed q t.owner = none
  fresh : ∀ q, t.loc.fresh q = true → NoMem s q t.owner ∧ s.allowed q t.owner = none ∧ t.loc.mine q = none
  hd : ∃ p, sOk p t.todo = true ∧ ∀ q, p = some q → t.loc.ok = true → t.loc.go = true → t.loc.fresh q = true
  mok : ∃ pd, mOk pd t.todo = true ∧ ∀ q, (t.loc.mine q).isSome = true → q ∈ pd
  fin : finOk t.todo = true
  incfree : (∃ i ∈ t.todo, i.isInc = true) → ∀ q, t.loc.clr q = false
  delok : delOk t.loc.clr t.todo = true
  clrNo : ∀ q, t.loc.clr q = true → NoMem s q t.owner
  pay : ∀ i ∈ t.todo, PayOk s t.owner i
  gcShape : t.kind = .gc →
    (∃ q m, m.req = t.owner ∧ t.todo = [.gsrem q m, .gdel q t.owner] ∧ OnlyM s q t.owner m) ∨
    (∃ q, t.todo = [.gdel q t.owner] ∧ NoMem s q t.owner) ∨ t.todo = []
  noGc : t.kind ≠ .gc → ∀ i ∈ t.todo, i.isGc = false
  noInc : t.kind ≠ .request → ∀ i ∈ t.todo, i.isInc = false ∧ i.isSadd = false
  phase : t.kind = .request → (t.loc.rel = false → ∀ i ∈ t.todo, i.isDecI = false) ∧
    (t.loc.rel = true → ∀ i ∈ t.todo, i.isInc = false ∧ i.isSadd = false)
  covers : (t.kind = .resp ∨ (t.kind = .request ∧ t.loc.rel = true)) →
    ∀ q, cfg.isConc q = true → t.loc.clr q = true ∨ ∃ i ∈ t.todo, i.clears q = true

theorem PayOk.frame {s s' : S} {r : Nat} {i : Instr} (h : PayOk s r i)
    (hno : ∀ q, NoMem s q r → NoMem s' q r) (honly : ∀ q m, OnlyM s q r m → OnlyM s' q r m) : PayOk s' r i := by
  cases i with
  | recheck q x => exact ⟨fun e => hno q (h.1 e), fun m e => honly q m (h.2 m e)⟩
  | srem q x lv => exact ⟨fun e => hno q (h.1 e), fun m e => honly q m (h.2 m e)⟩
  | _ => trivial

/-- A step of somebody else: it adds no member of this thread's transaction and gives it no status. -/
theorem TInv.frame {cfg : Cfg} {s s' : S} {t : Thread} (h : TInv cfg s t)
    (hmem : ∀ q m, m ∈ s'.members q → m ∈ s.members q ∨ m.req ≠ t.owner)
    (hal : ∀ q, s.allowed q t.owner = none → s'.allowed q t.owner = none) : TInv cfg s' t := by
  have hno : ∀ q, NoMem s q t.owner → NoMem s' q t.owner := by
    intro q hn m hm
    rcases hmem q m hm with h1 | h1
    · exact hn m h1
    · exact h1
  have honly : ∀ q m, OnlyM s q t.owner m → OnlyM s' q t.owner m := by
    intro q m ho m' hm' hr
    rcases hmem q m' hm' with h1 | h1
    · exact ho m' h1 hr
    · exact absurd hr h1
  refine ⟨?_, ?_, h.hd, h.mok, h.fin, h.incfree, h.delok, ?_, ?_, ?_, h.noGc, h.noInc, h.phase, h.covers⟩
  · intro q m hm
    obtain ⟨a, c⟩ := h.mine q m hm
    exact ⟨a, hal q c⟩
  · intro q hf
    obtain ⟨b, c, d⟩ := h.fresh q hf
    exact ⟨hno q b, hal q c, d⟩
  · intro q hc; exact hno q (h.clrNo q hc)
  · intro i hi; exact (h.pay i hi).frame hno honly
  · intro hk
    rcases h.gcShape hk with ⟨q, m, a, b, c⟩ | ⟨q, a, b⟩ | a
    · exact Or.inl ⟨q, m, a, b, honly q m c⟩
    · exact Or.inr (Or.inl ⟨q, a, hno q b⟩)
    · exact Or.inr (Or.inr a)

structure GInv (cfg : Cfg) (g : G) : Prop where
  reach : Reach cfg g.s
  nodup : ∀ q, (g.s.members q).Nodup
  pend : ∀ q m, m ∈ g.s.members q → g.s.allowed q m.req = some m ∨
    ∃ tid t, g.th tid = some t ∧ t.kind = .request ∧ t.owner = m.req ∧ t.loc.mine q = some m
  src : ∀ q m, m ∈ g.s.members q → (g.reqTid m.req).isSome = true
  req1 : ∀ tid t, g.th tid = some t → t.kind = .request → g.reqTid t.owner = some tid
  req2 : ∀ r tid, g.reqTid r = some tid → ∃ t, g.th tid = some t ∧ t.kind = .request ∧ t.owner = r
  late : ∀ tid t, g.th tid = some t → t.kind ≠ .request → g.reqDone t.owner = true
  thr : ∀ tid t, g.th tid = some t → TInv cfg g.s t

theorem GInv.init (cfg : Cfg) : GInv cfg (G.init cfg) := by
  refine ⟨.init, ?_, ?_, ?_, ?_, ?_, ?_, ?_⟩ <;> intros <;> simp_all [G.init, S.init]

/-- `TInv` of a freshly spawned thread whose locals are the initial ones. -/
theorem TInv.spawn (cfg : Cfg) (s : S) (r : Nat) (k : TKind) (prog : List Instr)
    (hs : sOk none prog = true) (hd : delOk (fun _ => false) prog = true)
    (hm : mOk [] prog = true) (hfin : finOk prog = true)
    (hpay : ∀ i ∈ prog, PayOk s r i)
    (hgc : k ≠ .gc → ∀ i ∈ prog, i.isGc = false)
    (hinc : k ≠ .request → ∀ i ∈ prog, i.isInc = false ∧ i.isSadd = false)
    (hshape : k = .gc →
      (∃ q m, m.req = r ∧ prog = [.gsrem q m, .gdel q r] ∧ OnlyM s q r m) ∨
      (∃ q, prog = [.gdel q r] ∧ NoMem s q r) ∨ prog = [])
    (hph : k = .request → ∀ i ∈ prog, i.isDecI = false)
    (hcov : k = .resp → ∀ q, cfg.isConc q = true → ∃ i ∈ prog, i.clears q = true) :
    TInv cfg s ⟨r, k, prog, Loc.init⟩ := by
  refine ⟨?_, ?_, ⟨none, hs, by intro q h; cases h⟩, ⟨_, hm, by intro q h; simp [Loc.init] at h⟩, hfin, ?_, hd, ?_, hpay,
    hshape, hgc, hinc, fun hk => ⟨fun _ => hph hk, by intro h; simp [Loc.init] at h⟩, ?_⟩
  · intro q m h; simp [Loc.init] at h
  · intro q h; simp [Loc.init] at h
  · intro _ q; simp [Loc.init]
  · intro q h; simp [Loc.init] at h
  · intro hk q hc
    rcases hk with hk | ⟨_, hr⟩
    · exact Or.inr (hcov hk q hc)
    · simp [Loc.init] at hr


/-! ### One instruction of the stepping thread -/

theorem incfree_tail {cfg : Cfg} {s : S} {t : Thread} {i : Instr} {rest : List Instr} (h : TInv cfg s t)
    (htodo : t.todo = i :: rest) : (∃ j ∈ rest, j.isInc = true) → ∀ q, t.loc.clr q = false := by
  rintro ⟨j, hj, hji⟩
  exact h.incfree ⟨j, by rw [htodo]; exact List.mem_cons_of_mem _ hj, hji⟩

theorem gc_not {cfg : Cfg} {s : S} {t : Thread} {i : Instr} {rest : List Instr} (h : TInv cfg s t)
    (htodo : t.todo = i :: rest) (hi : i.isGc = false) : t.kind ≠ .gc := by
  intro hk
  rcases h.gcShape hk with ⟨q, m, _, b, _⟩ | ⟨q, b, _⟩ | b
  · rw [htodo] at b; injection b with b1 _; rw [b1] at hi; cases hi
  · rw [htodo] at b; injection b with b1 _; rw [b1] at hi; cases hi
  · rw [htodo] at b; cases b

/-- The head is a `Dec`-side instruction: no `Inc`-side instruction is left in this thread. -/
theorem decI_noInc {cfg : Cfg} {s : S} {t : Thread} {i : Instr} {rest : List Instr} (h : TInv cfg s t)
    (htodo : t.todo = i :: rest) (hi : i.isDecI = true) : ∀ j ∈ t.todo, j.isInc = false := by
  by_cases hk : t.kind = .request
  · obtain ⟨a, b⟩ := h.phase hk
    cases hr : t.loc.rel with
    | false =>
      have := a hr i (by rw [htodo]; exact List.mem_cons_self)
      rw [hi] at this; cases this
    | true => exact fun j hj => (b hr j hj).1
  · exact fun j hj => (h.noInc hk j hj).1

/-- Generic step of the stepping thread for instructions that keep `mine` / `rel`, add no member and give the
    owner no status; the new program is the old tail, possibly behind new `Dec` continuation instructions. -/
theorem TInv.stepGen' {cfg : Cfg} {s s' : S} {t : Thread} {i : Instr} {rest todo' : List Instr} {l' : Loc}
    (h : TInv cfg s t) (htodo : t.todo = i :: rest)
    (hmemS : ∀ q m, m ∈ s'.members q → m ∈ s.members q)
    (halS : ∀ q, s.allowed q t.owner = none → s'.allowed q t.owner = none)
    (hm : l'.mine = t.loc.mine) (hr : l'.rel = t.loc.rel)
    (hrest : ∀ j ∈ rest, j ∈ todo')
    (hnew : ∀ j ∈ todo', j ∈ rest ∨ (j.isInc = false ∧ j.isSadd = false ∧ j.isGc = false ∧ i.isDecI = true ∧
      PayOk s' t.owner j))
    (hfresh : ∀ q, l'.fresh q = true → t.loc.fresh q = true ∨
      (NoMem s' q t.owner ∧ s'.allowed q t.owner = none ∧ t.loc.mine q = none))
    (hclr : ∀ q, l'.clr q = true → t.loc.clr q = true ∨ NoMem s' q t.owner)
    (hclrMono : ∀ q, t.loc.clr q = true → l'.clr q = true)
    (hinc : (∃ j ∈ todo', j.isInc = true) → ∀ q, l'.clr q = false)
    (hhd : ∃ p, sOk p todo' = true ∧ ∀ q, p = some q → l'.ok = true → l'.go = true → l'.fresh q = true)
    (hdel : delOk l'.clr todo' = true)
    (hmok : ∀ pd, mOk pd (i :: rest) = true → (∀ q, (t.loc.mine q).isSome = true → q ∈ pd) →
      ∃ pd', mOk pd' todo' = true ∧ ∀ q, (t.loc.mine q).isSome = true → q ∈ pd')
    (hfin : finOk todo' = true)
    (hcov : ∀ q, i.clears q = true → l'.clr q = true ∨ ∃ j ∈ todo', j.clears q = true)
    (hgc : t.kind = .gc →
      (∃ q m, m.req = t.owner ∧ todo' = [.gsrem q m, .gdel q t.owner] ∧ OnlyM s' q t.owner m) ∨
      (∃ q, todo' = [.gdel q t.owner] ∧ NoMem s' q t.owner) ∨ todo' = []) :
    TInv cfg s' { t with todo := todo', loc := l' } := by
  have hsub : ∀ j ∈ rest, j ∈ t.todo := fun j hj => by rw [htodo]; exact List.mem_cons_of_mem _ hj
  have hNo : ∀ q r, NoMem s q r → NoMem s' q r := fun q r hn m hm' => hn m (hmemS q m hm')
  have hOn : ∀ q r m, OnlyM s q r m → OnlyM s' q r m := fun q r m ho m' hm' => ho m' (hmemS q m' hm')
  refine ⟨?_, ?_, hhd, ?_, hfin, hinc, hdel, ?_, ?_, hgc, ?_, ?_, ?_, ?_⟩
  · intro q m hq
    simp only [hm] at hq
    obtain ⟨a, c⟩ := h.mine q m hq
    exact ⟨a, halS q c⟩
  · intro q hq
    rcases hfresh q hq with hq' | ⟨a, b, c⟩
    · obtain ⟨a, b, c⟩ := h.fresh q hq'
      exact ⟨hNo q _ a, halS q b, by simp only [hm]; exact c⟩
    · exact ⟨a, b, by simp only [hm]; exact c⟩
  · obtain ⟨pd, hp, hq⟩ := h.mok
    rw [htodo] at hp
    obtain ⟨pd', a, b⟩ := hmok pd hp hq
    exact ⟨pd', a, by simpa only [hm] using b⟩
  · intro q hq
    rcases hclr q hq with a | a
    · exact hNo q _ (h.clrNo q a)
    · exact a
  · intro j hj
    rcases hnew j hj with a | ⟨_, _, _, _, a⟩
    · exact (h.pay j (hsub j a)).frame (fun q => hNo q _) (fun q m => hOn q _ m)
    · exact a
  · intro hk j hj
    rcases hnew j hj with a | ⟨_, _, a, _⟩
    · exact h.noGc hk j (hsub j a)
    · exact a
  · intro hk j hj
    rcases hnew j hj with a | ⟨a, b, _⟩
    · exact h.noInc hk j (hsub j a)
    · exact ⟨a, b⟩
  · intro hk
    obtain ⟨a, b⟩ := h.phase hk
    constructor
    · intro hrel j hj
      have hrel' : t.loc.rel = false := by simpa only [hr] using hrel
      rcases hnew j hj with c | ⟨_, _, _, c, _⟩
      · exact a hrel' j (hsub j c)
      · have := a hrel' i (by rw [htodo]; exact List.mem_cons_self)
        rw [c] at this; cases this
    · intro hrel j hj
      have hrel' : t.loc.rel = true := by simpa only [hr] using hrel
      rcases hnew j hj with c | ⟨c, d, _⟩
      · exact b hrel' j (hsub j c)
      · exact ⟨c, d⟩
  · intro hk q hq
    have hk' : t.kind = .resp ∨ (t.kind = .request ∧ t.loc.rel = true) := by simpa only [hr] using hk
    rcases h.covers hk' q hq with a | ⟨j, hj, hjc⟩
    · left; exact hclrMono q a
    · rw [htodo] at hj
      rcases List.mem_cons.mp hj with e | e
      · subst e; exact hcov q hjc
      · right; exact ⟨j, hrest j e, hjc⟩


/-- `stepGen'` for the instructions that neither start nor finish a pending status write. -/
theorem TInv.stepGen {cfg : Cfg} {s s' : S} {t : Thread} {i : Instr} {rest todo' : List Instr} {l' : Loc}
    (h : TInv cfg s t) (htodo : t.todo = i :: rest)
    (hmemS : ∀ q m, m ∈ s'.members q → m ∈ s.members q)
    (halS : ∀ q, s.allowed q t.owner = none → s'.allowed q t.owner = none)
    (hm : l'.mine = t.loc.mine) (hr : l'.rel = t.loc.rel)
    (hrest : ∀ j ∈ rest, j ∈ todo')
    (hnew : ∀ j ∈ todo', j ∈ rest ∨ (j.isInc = false ∧ j.isSadd = false ∧ j.isGc = false ∧ i.isDecI = true ∧
      PayOk s' t.owner j))
    (hfresh : ∀ q, l'.fresh q = true → t.loc.fresh q = true ∨
      (NoMem s' q t.owner ∧ s'.allowed q t.owner = none ∧ t.loc.mine q = none))
    (hclr : ∀ q, l'.clr q = true → t.loc.clr q = true ∨ NoMem s' q t.owner)
    (hclrMono : ∀ q, t.loc.clr q = true → l'.clr q = true)
    (hinc : (∃ j ∈ todo', j.isInc = true) → ∀ q, l'.clr q = false)
    (hhd : ∃ p, sOk p todo' = true ∧ ∀ q, p = some q → l'.ok = true → l'.go = true → l'.fresh q = true)
    (hdel : delOk l'.clr todo' = true)
    (hmok : ∀ pd, mOk pd (i :: rest) = true → mOk pd todo' = true)
    (_hnset : ∀ q, i ≠ .setst q)
    (hcov : ∀ q, i.clears q = true → l'.clr q = true ∨ ∃ j ∈ todo', j.clears q = true)
    (hgc : t.kind = .gc →
      (∃ q m, m.req = t.owner ∧ todo' = [.gsrem q m, .gdel q t.owner] ∧ OnlyM s' q t.owner m) ∨
      (∃ q, todo' = [.gdel q t.owner] ∧ NoMem s' q t.owner) ∨ todo' = [])
    (hfin : finOk todo' = true) :
    TInv cfg s' { t with todo := todo', loc := l' } :=
  h.stepGen' htodo hmemS halS hm hr hrest hnew hfresh hclr hclrMono hinc hhd hdel
    (fun pd hp hq => ⟨pd, hmok pd hp, hq⟩) hfin hcov hgc

theorem finOk_tail {cfg : Cfg} {s : S} {t : Thread} {i : Instr} {rest : List Instr} (h : TInv cfg s t)
    (htodo : t.todo = i :: rest) : finOk rest = true := by
  have := h.fin
  rw [htodo] at this
  cases i <;> simp_all [finOk]

/-- `touch`, `resetGo`, `chkA`, `pop`: only `reqIDToQuota` and control flags change. -/
theorem TInv.step_ctl {cfg : Cfg} {s s' : S} {t : Thread} {i : Instr} {rest : List Instr} {l' : Loc}
    (h : TInv cfg s t) (htodo : t.todo = i :: rest)
    (hi : (∃ q, i = .touch q) ∨ i = .resetGo ∨ (∃ q, i = .chkA q) ∨ i = .pop)
    (hmem : s'.members = s.members) (hal : s'.allowed = s.allowed)
    (hl : l'.mine = t.loc.mine ∧ l'.fresh = t.loc.fresh ∧ l'.clr = t.loc.clr ∧ l'.rel = t.loc.rel) :
    TInv cfg s' { t with todo := rest, loc := l' } := by
  obtain ⟨hm, hf, hc, hr⟩ := hl
  have hgcn : i.isGc = false := by rcases hi with ⟨q, rfl⟩ | rfl | ⟨q, rfl⟩ | rfl <;> rfl
  apply h.stepGen htodo (by intro q m; rw [hmem]; exact id) (by intro q; rw [hal]; exact id) hm hr
    (fun _ hj => hj) (fun _ hj => Or.inl hj)
  · intro q hq; left; simpa only [hf] using hq
  · intro q hq; left; simpa only [hc] using hq
  · intro q hq; simpa only [hc] using hq
  · simpa only [hc] using incfree_tail h htodo
  · obtain ⟨p, hp, _⟩ := h.hd
    rw [htodo] at hp
    refine ⟨none, ?_, by intro q e; cases e⟩
    rcases hi with ⟨q, rfl⟩ | rfl | ⟨q, rfl⟩ | rfl <;> simpa [sOk] using hp
  · have := h.delok
    rw [htodo] at this
    rw [hc]
    rcases hi with ⟨q, rfl⟩ | rfl | ⟨q, rfl⟩ | rfl <;> simpa [delOk] using this
  · intro pd hp
    rcases hi with ⟨q, rfl⟩ | rfl | ⟨q, rfl⟩ | rfl <;> simpa [mOk] using hp
  · intro q e; rcases hi with ⟨q', rfl⟩ | rfl | ⟨q', rfl⟩ | rfl <;> cases e
  · intro q e; rcases hi with ⟨q', rfl⟩ | rfl | ⟨q', rfl⟩ | rfl <;> simp [Instr.clears] at e
  · intro hk; exact absurd hk (gc_not h htodo hgcn)
  · exact finOk_tail h htodo

theorem TInv.step_chk {cfg : Cfg} {s : S} {t : Thread} {q : Nat} {rest : List Instr}
    (h : TInv cfg s t) (htodo : t.todo = .chk q :: rest)
    (hN : s.allowed q t.owner = none → t.loc.mine q = none → NoMem s q t.owner) :
    TInv cfg (exec cfg s t (.chk q) rest).1 (exec cfg s t (.chk q) rest).2 := by
  obtain ⟨p, hp, hpq⟩ := h.hd
  rw [htodo] at hp
  simp only [sOk] at hp
  obtain ⟨pd, hpd, hpdq⟩ := h.mok
  rw [htodo] at hpd
  simp only [mOk, Bool.and_eq_true, Bool.not_eq_true', List.contains_eq_mem, decide_eq_false_iff_not] at hpd
  have hmq : t.loc.mine q = none := by
    cases hmq : t.loc.mine q with
    | none => rfl
    | some m => exact absurd (hpdq q (by simp [hmq])) hpd.1
  have common : ∀ (l' : Loc), l'.mine = t.loc.mine → l'.rel = t.loc.rel → l'.clr = t.loc.clr →
      (∀ q', l'.fresh q' = true → t.loc.fresh q' = true ∨
        (NoMem s q' t.owner ∧ s.allowed q' t.owner = none ∧ t.loc.mine q' = none)) →
      (l'.ok = true → l'.go = true → l'.fresh q = true) →
      TInv cfg s { t with todo := rest, loc := l' } := by
    intro l' hm hr hc hf hq
    apply h.stepGen htodo (fun _ _ => id) (fun _ => id) hm hr (fun _ hj => hj) (fun _ hj => Or.inl hj) hf
    · intro q' hq'; left; simpa only [hc] using hq'
    · intro q' hq'; simpa only [hc] using hq'
    · simpa only [hc] using incfree_tail h htodo
    · exact ⟨some q, hp, by intro q' e; cases e; exact hq⟩
    · have := h.delok; rw [htodo] at this; rw [hc]; simpa [delOk] using this
    · intro pd' hp'; simp only [mOk, Bool.and_eq_true] at hp'; exact hp'.2
    · intro q' e; cases e
    · intro q' e; simp [Instr.clears] at e
    · intro hk; exact absurd hk (gc_not h htodo rfl)
    · exact finOk_tail h htodo
  simp only [exec]
  split
  · rename_i hog
    simp only [Bool.and_eq_true] at hog
    split
    · exact common _ rfl rfl rfl (fun q' hq' => Or.inl hq') (by intro _ hgo; cases hgo)
    · rename_i hst
      have hnone : s.allowed q t.owner = none := by simpa using hst
      refine common _ rfl rfl rfl ?_ (by intro _ _; simp [upd])
      intro q' hq'
      simp only [upd] at hq'
      split at hq'
      · rename_i e; subst e; exact Or.inr ⟨hN hnone hmq, hnone, hmq⟩
      · exact Or.inl hq'
  · rename_i hog
    refine common _ rfl rfl rfl (fun q' hq' => Or.inl hq') ?_
    intro hok hgo
    exact absurd (by simp [hok, hgo]) hog


theorem noMem_of_status {s : S} {q r : Nat}
    (hP : ∀ m, m ∈ s.members q → m.req = r → s.allowed q r = some m) (hn : s.allowed q r = none) : NoMem s q r := by
  intro m hm hr
  have := hP m hm hr
  rw [hn] at this; cases this

theorem onlyM_of_status {s : S} {q r : Nat} {m : Member}
    (hP : ∀ m, m ∈ s.members q → m.req = r → s.allowed q r = some m) (hs : s.allowed q r = some m) : OnlyM s q r m := by
  intro m' hm' hr
  have := hP m' hm' hr
  rw [hs] at this; exact (Option.some.inj this).symm

theorem noMem_erase {s : S} {q r : Nat} {m : Member} (hnd : (s.members q).Nodup) (ho : OnlyM s q r m) :
    ∀ m' ∈ (s.members q).erase m, m'.req ≠ r := by
  intro m' hm' hr
  have := ho m' (List.mem_of_mem_erase hm') hr
  subst this
  exact (List.Nodup.not_mem_erase hnd) hm'

/-- `read` / `recheck`: the `Dec` continuation with what was read. -/
theorem TInv.step_look {cfg : Cfg} {s : S} {t : Thread} {i j : Instr} {rest : List Instr}
    (h : TInv cfg s t) (htodo : t.todo = i :: rest)
    (hij : (∃ q, i = .read q ∧ j = .recheck q (s.allowed q t.owner)) ∨
           (∃ q x, i = .recheck q x ∧ j = .srem q x (s.allowed q t.owner).isSome))
    (hP : ∀ q m, m ∈ s.members q → m.req = t.owner → s.allowed q t.owner = some m) :
    TInv cfg s { t with todo := j :: rest } := by
  have hdi : i.isDecI = true := by rcases hij with ⟨q, rfl, _⟩ | ⟨q, x, rfl, _⟩ <;> rfl
  have hnoinc := decI_noInc h htodo hdi
  have hpayj : PayOk s t.owner j := by
    rcases hij with ⟨q, rfl, rfl⟩ | ⟨q, x, rfl, rfl⟩
    · exact ⟨fun e => noMem_of_status (hP q) e, fun m e => onlyM_of_status (hP q) e⟩
    · have hold := h.pay (.recheck q x) (by rw [htodo]; exact List.mem_cons_self)
      refine ⟨?_, hold.2⟩
      rintro (e | e)
      · exact hold.1 e
      · exact noMem_of_status (hP q) (by simpa using e)
  have hjp : j.isInc = false ∧ j.isSadd = false ∧ j.isGc = false := by
    rcases hij with ⟨q, _, rfl⟩ | ⟨q, x, _, rfl⟩ <;> exact ⟨rfl, rfl, rfl⟩
  have := h.stepGen (l' := t.loc) (todo' := j :: rest) htodo (fun _ _ => id) (fun _ => id) rfl rfl
    (fun _ hk => List.mem_cons_of_mem _ hk)
    (by
      intro k hk
      rcases List.mem_cons.mp hk with e | e
      · subst e; exact Or.inr ⟨hjp.1, hjp.2.1, hjp.2.2, hdi, hpayj⟩
      · exact Or.inl e)
    (fun _ hq => Or.inl hq) (fun _ hq => Or.inl hq) (fun _ hq => hq)
    (by
      rintro ⟨k, hk, hki⟩
      rcases List.mem_cons.mp hk with e | e
      · subst e; rw [hjp.1] at hki; cases hki
      · have := hnoinc k (by rw [htodo]; exact List.mem_cons_of_mem _ e)
        rw [this] at hki; cases hki)
    (by
      obtain ⟨p, hp, _⟩ := h.hd
      rw [htodo] at hp
      refine ⟨none, ?_, by intro q e; cases e⟩
      rcases hij with ⟨q, rfl, rfl⟩ | ⟨q, x, rfl, rfl⟩ <;> simpa [sOk] using hp)
    (by
      have := h.delok
      rw [htodo] at this
      rcases hij with ⟨q, rfl, rfl⟩ | ⟨q, x, rfl, rfl⟩ <;> simpa [delOk] using this)
    (by
      intro pd hp
      rcases hij with ⟨q, rfl, rfl⟩ | ⟨q, x, rfl, rfl⟩ <;> simpa [mOk] using hp)
    (by intro q e; rcases hij with ⟨q', rfl, _⟩ | ⟨q', x, rfl, _⟩ <;> cases e)
    (by
      intro q' hc
      right
      refine ⟨j, List.mem_cons_self, ?_⟩
      rcases hij with ⟨q, rfl, rfl⟩ | ⟨q, x, rfl, rfl⟩ <;> simpa [Instr.clears] using hc)
    (by
      intro hk
      refine absurd hk (gc_not h htodo ?_)
      rcases hij with ⟨q, rfl, _⟩ | ⟨q, x, rfl, _⟩ <;> rfl)
    (by
      have := finOk_tail h htodo
      rcases hij with ⟨q, _, rfl⟩ | ⟨q, x, _, rfl⟩ <;> simpa [finOk] using this)
  exact this


theorem TInv.step_srem {cfg : Cfg} {s : S} {t : Thread} {q : Nat} {x : Option Member} {lv : Bool} {rest : List Instr}
    (h : TInv cfg s t) (htodo : t.todo = .srem q x lv :: rest) (hnd : (s.members q).Nodup) :
    TInv cfg (exec cfg s t (.srem q x lv) rest).1 (exec cfg s t (.srem q x lv) rest).2 := by
  have hnoinc := decI_noInc h htodo rfl
  have hpay := h.pay _ (by rw [htodo]; exact List.mem_cons_self)
  have aux : ∀ s' : S, (∀ q' m, m ∈ s'.members q' → m ∈ s.members q') → s'.allowed = s.allowed →
      NoMem s' q t.owner →
      TInv cfg s' { t with todo := rest, loc := { t.loc with clr := upd t.loc.clr q true } } := by
    intro s' hmemS hal hno
    apply h.stepGen (l' := { t.loc with clr := upd t.loc.clr q true }) htodo hmemS
      (by intro q'; rw [hal]; exact id) rfl rfl (fun _ hj => hj) (fun _ hj => Or.inl hj)
      (fun _ hq => Or.inl hq)
    · intro q' hq'
      simp only [upd] at hq'
      split at hq'
      · rename_i e; subst e; exact Or.inr hno
      · exact Or.inl hq'
    · intro q' hq'; simp only [upd]; split <;> simp_all
    · rintro ⟨k, hk, hki⟩
      have := hnoinc k (by rw [htodo]; exact List.mem_cons_of_mem _ hk)
      rw [this] at hki; cases hki
    · obtain ⟨p, hp, _⟩ := h.hd
      rw [htodo] at hp
      exact ⟨none, by simpa [sOk] using hp, by intro q' e; cases e⟩
    · have := h.delok; rw [htodo] at this; simpa [delOk] using this
    · intro pd hp; simpa [mOk] using hp
    · intro q' e; cases e
    · intro q' hc; left; simp only [Instr.clears, beq_iff_eq] at hc; simp [upd, hc]
    · intro hk; exact absurd hk (gc_not h htodo rfl)
    · exact finOk_tail h htodo
  have hsame : ((x = none ∨ lv = false)) → TInv cfg s
      { t with todo := rest, loc := { t.loc with clr := upd t.loc.clr q true } } :=
    fun e => aux s (fun _ _ => id) rfl (hpay.1 e)
  simp only [exec]
  cases lv with
  | false => exact hsame (Or.inr rfl)
  | true =>
    cases x with
    | none => exact hsame (Or.inl rfl)
    | some m =>
      apply aux
      · intro q' m' hm'
        rw [srem_members] at hm'
        split at hm'
        · rename_i e; subst e; exact List.mem_of_mem_erase hm'
        · exact hm'
      · simp
      · intro m' hm'
        rw [srem_members] at hm'; simp only [if_true] at hm'
        exact noMem_erase hnd (hpay.2 m rfl) m' hm'

theorem TInv.step_del {cfg : Cfg} {s : S} {t : Thread} {q : Nat} {rest : List Instr}
    (h : TInv cfg s t) (htodo : t.todo = .del q :: rest) :
    TInv cfg (exec cfg s t (.del q) rest).1 (exec cfg s t (.del q) rest).2 := by
  have hnoinc := decI_noInc h htodo rfl
  simp only [exec]
  apply h.stepGen (l' := t.loc) htodo (by intro q' m; simp) (by intro q' hq'; rw [del_allowed]; split <;> simp_all) rfl rfl
    (fun _ hj => hj) (fun _ hj => Or.inl hj) (fun _ hq => Or.inl hq) (fun _ hq => Or.inl hq) (fun _ hq => hq)
  · rintro ⟨k, hk, hki⟩
    have := hnoinc k (by rw [htodo]; exact List.mem_cons_of_mem _ hk)
    rw [this] at hki; cases hki
  · obtain ⟨p, hp, _⟩ := h.hd
    rw [htodo] at hp
    exact ⟨none, by simpa [sOk] using hp, by intro q' e; cases e⟩
  · have := h.delok; rw [htodo] at this; simp only [delOk, Bool.and_eq_true] at this; exact this.2
  · intro pd hp; simpa [mOk] using hp
  · intro q' e; cases e
  · intro q' hc; simp [Instr.clears] at hc
  · intro hk; exact absurd hk (gc_not h htodo rfl)
  · exact finOk_tail h htodo

theorem TInv.step_dropPop {cfg : Cfg} {s : S} {t : Thread} {rest : List Instr}
    (h : TInv cfg s t) (htodo : t.todo = .dropPop :: rest) :
    TInv cfg (exec cfg s t .dropPop rest).1 (exec cfg s t .dropPop rest).2 := by
  have hnoinc := decI_noInc h htodo rfl
  simp only [exec]
  have hnew : ∀ j ∈ decAll cfg (s.rm t.owner), j.isInc = false ∧ j.isSadd = false ∧ j.isGc = false ∧
      PayOk (micro cfg s (.rmPop t.owner)) t.owner j := by
    intro j hj
    refine ⟨nonInc_decAll cfg _ j hj, noSadd_decAll cfg _ j hj, ?_, ?_⟩
    all_goals
      simp only [decAll, List.mem_flatMap] at hj
      obtain ⟨q0, _, hj⟩ := hj
      split at hj
      · rcases mem_decProg _ j hj with ⟨q, rfl⟩ | ⟨q, rfl⟩ <;> first | rfl | trivial
      · cases hj
  apply h.stepGen (l' := t.loc) htodo (by intro q' m; simp) (by intro q' hq'; simpa using hq') rfl rfl
    (fun _ hj => List.mem_append_right _ hj)
    (by
      intro j hj
      rcases List.mem_append.mp hj with e | e
      · obtain ⟨a, b, c, d⟩ := hnew j e
        exact Or.inr ⟨a, b, c, rfl, d⟩
      · exact Or.inl e)
    (fun _ hq => Or.inl hq) (fun _ hq => Or.inl hq) (fun _ hq => hq)
  · rintro ⟨k, hk, hki⟩
    rcases List.mem_append.mp hk with e | e
    · rw [(hnew k e).1] at hki; cases hki
    · have := hnoinc k (by rw [htodo]; exact List.mem_cons_of_mem _ e)
      rw [this] at hki; cases hki
  · obtain ⟨p, hp, _⟩ := h.hd
    rw [htodo] at hp
    refine ⟨none, sOk_append _ _ none (sOk_of_noSadd none _ (noSadd_decAll cfg _)) (by simpa [sOk] using hp),
      by intro q' e; cases e⟩
  · have := h.delok; rw [htodo] at this
    exact delOk_append _ _ _ (delOk_decAll cfg _ _) (by simpa [delOk] using this)
  · intro pd hp
    exact thru_nonInc pd _ (nonInc_decAll cfg _) rest (by simpa [mOk] using hp)
  · intro q' e; cases e
  · intro q' hc; simp [Instr.clears] at hc
  · intro hk; exact absurd hk (gc_not h htodo rfl)
  · exact finOk_append_nonInc _ _ (nonInc_decAll cfg _) (finOk_tail h htodo)


/-- The two steps of a GC agent. -/
theorem TInv.step_gc {cfg : Cfg} {s : S} {t : Thread} {i : Instr} {rest : List Instr}
    (h : TInv cfg s t) (htodo : t.todo = i :: rest) (hi : i.isGc = true) (hnd : ∀ q, (s.members q).Nodup) :
    TInv cfg (exec cfg s t i rest).1 (exec cfg s t i rest).2 := by
  have hk : t.kind = .gc := by
    cases hk : t.kind with
    | gc => rfl
    | _ =>
      have := h.noGc (by rw [hk]; intro e; cases e) i (by rw [htodo]; exact List.mem_cons_self)
      rw [hi] at this; cases this
  have fin : ∀ (s' : S) (todo' : List Instr),
      (∀ q m, m ∈ s'.members q → m ∈ s.members q) →
      (∀ q, s.allowed q t.owner = none → s'.allowed q t.owner = none) →
      ((∃ q, todo' = [.gdel q t.owner] ∧ NoMem s' q t.owner) ∨ todo' = []) → todo' = rest →
      TInv cfg s' { t with todo := rest } := by
    intro s' todo' hmemS halS hshape hre
    subst hre
    have hnoinc : ∀ j ∈ todo', j.isInc = false := by
      intro j hj
      rcases hshape with ⟨q, e, _⟩ | e
      · rw [e] at hj; simp at hj; subst hj; rfl
      · rw [e] at hj; cases hj
    apply h.stepGen (l' := t.loc) htodo hmemS halS rfl rfl (fun _ hj => hj) (fun _ hj => Or.inl hj)
      (fun _ hq => Or.inl hq) (fun _ hq => Or.inl hq) (fun _ hq => hq)
    · rintro ⟨j, hj, hji⟩; rw [hnoinc j hj] at hji; cases hji
    · refine ⟨none, ?_, by intro q e; cases e⟩
      rcases hshape with ⟨q, e, _⟩ | e <;> rw [e] <;> rfl
    · rcases hshape with ⟨q, e, _⟩ | e <;> rw [e] <;> rfl
    · intro pd hp
      cases i <;> simp_all [mOk, Instr.isGc]
    · intro q e; subst e; cases hi
    · intro q hc; cases i <;> simp_all [Instr.clears, Instr.isGc]
    · intro _
      rcases hshape with ⟨q, e, hn⟩ | e
      · exact Or.inr (Or.inl ⟨q, e, hn⟩)
      · exact Or.inr (Or.inr e)
    · rcases hshape with ⟨q, e, _⟩ | e <;> rw [e] <;> rfl
  rcases h.gcShape hk with ⟨q, m, hmr, b, hon⟩ | ⟨q, b, hn⟩ | b
  · rw [htodo] at b
    injection b with b1 b2
    subst b1
    simp only [exec]
    refine fin _ [.gdel q t.owner] ?_ (by simp) (Or.inl ⟨q, rfl, ?_⟩) b2.symm
    · intro q' m' hm'
      rw [srem_members] at hm'
      split at hm'
      · rename_i e; subst e; exact List.mem_of_mem_erase hm'
      · exact hm'
    · intro m' hm'
      rw [srem_members] at hm'; simp only [if_true] at hm'
      exact noMem_erase (hnd q) hon m' hm'
  · rw [htodo] at b
    injection b with b1 b2
    subst b1
    simp only [exec]
    refine fin _ [] (by intro q' m'; simp) ?_ (Or.inr rfl) b2.symm
    intro q' hq'; rw [del_allowed]; split <;> simp_all
  · rw [htodo] at b; cases b


/-- The head is an `Inc`-side instruction: this is a request thread still in its walk. -/
theorem inc_head {cfg : Cfg} {s : S} {t : Thread} {i : Instr} {rest : List Instr} (h : TInv cfg s t)
    (htodo : t.todo = i :: rest) (hi : i.isInc = true) :
    t.kind = .request ∧ t.loc.rel = false ∧ (∀ j ∈ t.todo, j.isDecI = false) ∧ (∀ q, t.loc.clr q = false) := by
  have hmem : i ∈ t.todo := by rw [htodo]; exact List.mem_cons_self
  have hk : t.kind = .request := by
    cases hk : t.kind with
    | request => rfl
    | _ =>
      have := (h.noInc (by rw [hk]; intro e; cases e) i hmem).1
      rw [hi] at this; cases this
  obtain ⟨a, b⟩ := h.phase hk
  have hr : t.loc.rel = false := by
    cases hr : t.loc.rel with
    | false => rfl
    | true => have := (b hr i hmem).1; rw [hi] at this; cases this
  exact ⟨hk, hr, a hr, h.incfree ⟨i, hmem, hi⟩⟩

/-- Build `TInv` for a request thread in its walk (no `Dec`-side instruction, nothing cleared yet). -/
theorem TInv.mkInc {cfg : Cfg} {s : S} {t : Thread}
    (hk : t.kind = .request) (hrel : t.loc.rel = false) (hclr : ∀ q, t.loc.clr q = false)
    (hdec : ∀ j ∈ t.todo, j.isDecI = false) (hgc : ∀ j ∈ t.todo, j.isGc = false)
    (hmine : ∀ q m, t.loc.mine q = some m → m.req = t.owner ∧ s.allowed q t.owner = none)
    (hfresh : ∀ q, t.loc.fresh q = true → NoMem s q t.owner ∧ s.allowed q t.owner = none ∧ t.loc.mine q = none)
    (hhd : ∃ p, sOk p t.todo = true ∧ ∀ q, p = some q → t.loc.ok = true → t.loc.go = true → t.loc.fresh q = true)
    (hmok : ∃ pd, mOk pd t.todo = true ∧ ∀ q, (t.loc.mine q).isSome = true → q ∈ pd)
    (hfin : finOk t.todo = true) : TInv cfg s t := by
  refine ⟨hmine, hfresh, hhd, hmok, hfin, fun _ => hclr, ?_, ?_, ?_, ?_, fun _ => hgc, ?_, ?_, ?_⟩
  · apply delOk_of_noDel
    intro i hi
    have := hdec i hi
    cases i <;> simp_all [Instr.isDel, Instr.isDecI]
  · intro q hq; rw [hclr q] at hq; cases hq
  · intro i hi
    have := hdec i hi
    cases i <;> simp_all [PayOk, Instr.isDecI]
  · intro e; rw [hk] at e; cases e
  · intro e; exact absurd hk e
  · intro _
    exact ⟨fun _ => hdec, fun e => by rw [hrel] at e; cases e⟩
  · rintro (e | ⟨_, e⟩)
    · rw [hk] at e; cases e
    · rw [hrel] at e; cases e


theorem TInv.step_sadd {cfg : Cfg} {s : S} {t : Thread} {q : Nat} {rest : List Instr}
    (h : TInv cfg s t) (htodo : t.todo = .sadd q :: rest) :
    TInv cfg (exec cfg s t (.sadd q) rest).1 (exec cfg s t (.sadd q) rest).2 := by
  obtain ⟨hk, hrel, hdec, hclr⟩ := inc_head h htodo rfl
  have hsub : ∀ j ∈ rest, j ∈ t.todo := fun j hj => by rw [htodo]; exact List.mem_cons_of_mem _ hj
  have hdec' : ∀ j ∈ rest, j.isDecI = false := fun j hj => hdec j (hsub j hj)
  have hgc' : ∀ j ∈ rest, j.isGc = false := fun j hj => h.noGc (by rw [hk]; intro e; cases e) j (hsub j hj)
  obtain ⟨p, hp, hpq⟩ := h.hd
  rw [htodo] at hp
  simp only [sOk, Bool.and_eq_true, beq_iff_eq] at hp
  obtain ⟨pd, hpd, hpdq⟩ := h.mok
  rw [htodo] at hpd
  simp only [mOk, Bool.and_eq_true, Bool.not_eq_true', List.contains_eq_mem, decide_eq_false_iff_not] at hpd
  have hmq : t.loc.mine q = none := by
    cases hmq : t.loc.mine q with
    | none => rfl
    | some m => exact absurd (hpdq q (by simp [hmq])) hpd.1
  have hmok' : ∀ mine' : Nat → Option Member, (∀ q', (mine' q').isSome = true → q' = q ∨ (t.loc.mine q').isSome = true) →
      ∃ pd', mOk pd' rest = true ∧ ∀ q', (mine' q').isSome = true → q' ∈ pd' := by
    intro mine' hm'
    refine ⟨q :: pd, hpd.2, ?_⟩
    intro q' hq'
    rcases hm' q' hq' with e | e
    · subst e; exact List.mem_cons_self
    · exact List.mem_cons_of_mem _ (hpdq q' e)
  have hfin := finOk_tail h htodo
  simp only [exec]
  split
  · rename_i hog
    simp only [Bool.and_eq_true] at hog
    have hfq := h.fresh q (hpq q hp.1 hog.1 hog.2)
    split
    · rename_i hroom
      dsimp only
      apply TInv.mkInc (cfg := cfg) (t := ⟨t.owner, t.kind, rest, _⟩) hk (by exact hrel) (by exact hclr) hdec' hgc'
      · intro q' m hm
        simp only [upd] at hm
        split at hm
        · rename_i e; subst e
          have : m = ⟨s.now + cfg.exp q', t.owner⟩ := (Option.some.inj hm).symm
          subst this
          exact ⟨rfl, by simpa using hfq.2.1⟩
        · obtain ⟨a, b⟩ := h.mine q' m hm
          exact ⟨a, by simpa using b⟩
      · intro q' hq'
        simp only [upd] at hq'
        split at hq'
        · cases hq'
        · rename_i hne
          obtain ⟨a, b, c⟩ := h.fresh q' hq'
          refine ⟨?_, by simpa using b, by simp [upd, hne, c]⟩
          intro m hm
          rw [sadd_members] at hm
          simp only [hne, false_and, if_false] at hm
          exact a m hm
      · exact ⟨none, hp.2, by intro q' e; cases e⟩
      · apply hmok'
        intro q' hq'
        simp only [upd] at hq'
        split at hq'
        · left; assumption
        · right; exact hq'
      · exact hfin
    · dsimp only
      apply TInv.mkInc (cfg := cfg) (t := ⟨t.owner, t.kind, rest, _⟩) hk (by exact hrel) (by exact hclr) hdec' hgc' (by exact h.mine)
      · intro q' hq'
        simp only [upd] at hq'
        split at hq'
        · cases hq'
        · exact h.fresh q' hq'
      · exact ⟨none, hp.2, by intro q' e; cases e⟩
      · exact hmok' _ (fun q' hq' => Or.inr hq')
      · exact hfin
  · dsimp only
    exact TInv.mkInc (cfg := cfg) (t := ⟨t.owner, t.kind, rest, _⟩) hk (by exact hrel) (by exact hclr) hdec' hgc' (by exact h.mine) (by exact h.fresh) ⟨none, hp.2, by intro q' e; cases e⟩
      (hmok' _ (fun q' hq' => Or.inr hq')) hfin

theorem TInv.step_setst {cfg : Cfg} {s : S} {t : Thread} {q : Nat} {rest : List Instr}
    (h : TInv cfg s t) (htodo : t.todo = .setst q :: rest) :
    TInv cfg (exec cfg s t (.setst q) rest).1 (exec cfg s t (.setst q) rest).2 := by
  obtain ⟨hk, hrel, hdec, hclr⟩ := inc_head h htodo rfl
  have hsub : ∀ j ∈ rest, j ∈ t.todo := fun j hj => by rw [htodo]; exact List.mem_cons_of_mem _ hj
  have hdec' : ∀ j ∈ rest, j.isDecI = false := fun j hj => hdec j (hsub j hj)
  have hgc' : ∀ j ∈ rest, j.isGc = false := fun j hj => h.noGc (by rw [hk]; intro e; cases e) j (hsub j hj)
  obtain ⟨p, hp, _⟩ := h.hd
  rw [htodo] at hp
  simp only [sOk] at hp
  obtain ⟨pd, hpd, hpdq⟩ := h.mok
  rw [htodo] at hpd
  simp only [mOk] at hpd
  have hfin := finOk_tail h htodo
  simp only [exec]
  split
  · rename_i m hm
    dsimp only
    apply TInv.mkInc (cfg := cfg) (t := ⟨t.owner, t.kind, rest, _⟩) hk (by exact hrel) (by exact hclr) hdec' hgc'
    · intro q' m' hm'
      simp only [upd] at hm'
      split at hm'
      · cases hm'
      · rename_i hne
        obtain ⟨a, b⟩ := h.mine q' m' hm'
        exact ⟨a, by rw [setst_allowed]; simp [hne, b]⟩
    · intro q' hq'
      obtain ⟨a, b, c⟩ := h.fresh q' hq'
      have hne : q' ≠ q := by intro e; subst e; rw [hm] at c; cases c
      exact ⟨by intro m' hm'; exact a m' (by simpa using hm'), by rw [setst_allowed]; simp [hne, b],
        by simp [upd, hne, c]⟩
    · exact ⟨none, hp, by intro q' e; cases e⟩
    · refine ⟨pd.erase q, hpd, ?_⟩
      intro q' hq'
      simp only [upd] at hq'
      split at hq'
      · cases hq'
      · rename_i hne
        exact (List.mem_erase_of_ne hne).mpr (hpdq q' hq')
    · exact hfin
  · rename_i hm
    dsimp only
    apply TInv.mkInc (cfg := cfg) (t := ⟨t.owner, t.kind, rest, _⟩) hk (by exact hrel) (by exact hclr) hdec' hgc' (by exact h.mine) (by exact h.fresh) ⟨none, hp, by intro q' e; cases e⟩ ?_ hfin
    refine ⟨pd.erase q, hpd, ?_⟩
    intro q' hq'
    have hne : q' ≠ q := by intro e; subst e; rw [hm] at hq'; cases hq'
    exact (List.mem_erase_of_ne hne).mpr (hpdq q' hq')


theorem mem_endProg (cfg : Cfg) (i : Instr) (hi : i ∈ endProg cfg) :
    (∃ q, i = .touch q) ∨ (∃ q, i = .read q) ∨ (∃ q, i = .del q) ∨ i = .dropPop := by
  simp only [endProg, List.mem_append, List.mem_flatMap, List.mem_cons] at hi
  rcases hi with ⟨q0, _, rfl | h⟩ | h
  · exact Or.inl ⟨q0, rfl⟩
  · rcases mem_decProg _ i h with ⟨q, rfl⟩ | ⟨q, rfl⟩
    · exact Or.inr (Or.inl ⟨q, rfl⟩)
    · exact Or.inr (Or.inr (Or.inl ⟨q, rfl⟩))
  · rcases h with rfl | h
    · exact Or.inr (Or.inr (Or.inr rfl))
    · cases h

theorem endProg_clears (cfg : Cfg) (hwf : cfg.wf = true) (q : Nat) (hc : cfg.isConc q = true) :
    ∃ i ∈ endProg cfg, i.clears q = true := by
  refine ⟨.read q, ?_, by simp [Instr.clears]⟩
  obtain ⟨tl, htl⟩ := chainOf_head cfg q
  simp only [endProg, List.mem_append, List.mem_flatMap, List.mem_cons]
  left
  refine ⟨q, wf_sysDecs cfg hwf q hc, Or.inr ?_⟩
  simp [decProg, htl]

theorem endProg_props (cfg : Cfg) (s : S) (r : Nat) :
    (∀ i ∈ endProg cfg, i.isGc = false) ∧ (∀ i ∈ endProg cfg, PayOk s r i) := by
  constructor <;> intro i hi <;>
    rcases mem_endProg cfg i hi with ⟨q, rfl⟩ | ⟨q, rfl⟩ | ⟨q, rfl⟩ | rfl <;> first | rfl | trivial

theorem TInv.step_finish {cfg : Cfg} (hwf : cfg.wf = true) {s : S} {t : Thread} {post : Bool} {rest : List Instr}
    (h : TInv cfg s t) (htodo : t.todo = .finish post :: rest) :
    TInv cfg (exec cfg s t (.finish post) rest).1 (exec cfg s t (.finish post) rest).2 := by
  obtain ⟨hk, hrel, hdec, hclr⟩ := inc_head h htodo rfl
  have hrest : rest = [] := by
    have := h.fin; rw [htodo] at this; simpa [finOk] using this
  subst hrest
  obtain ⟨pd, hpd, hpdq⟩ := h.mok
  rw [htodo] at hpd
  simp only [mOk, List.isEmpty_iff] at hpd
  subst hpd
  have hmnone : ∀ q, t.loc.mine q = none := by
    intro q
    cases hm : t.loc.mine q with
    | none => rfl
    | some m => have := hpdq q (by simp [hm]); cases this
  simp only [exec]
  split
  · -- refused / answered early: OnRequestDrop, then the response flows
    have hni : ∀ i ∈ Instr.dropPop :: endProg cfg, i.isInc = false ∧ i.isSadd = false := by
      intro i hi
      rcases List.mem_cons.mp hi with rfl | hi
      · exact ⟨rfl, rfl⟩
      · exact ⟨nonInc_endProg cfg i hi, noSadd_endProg cfg i hi⟩
    refine ⟨?_, ?_, ⟨none, sOk_of_noSadd none _ (fun i hi => (hni i hi).2), by intro q e; cases e⟩,
      ⟨[], by simpa using thru_nonInc [] _ (fun i hi => (hni i hi).1) [] rfl, ?_⟩, ?_, ?_, ?_, ?_, ?_, ?_, ?_, ?_, ?_, ?_⟩
    · intro q m hm; rw [hmnone q] at hm; cases hm
    · exact h.fresh
    · intro q hq; rw [hmnone q] at hq; cases hq
    · have := finOk_append_nonInc (Instr.dropPop :: endProg cfg) [] (fun i hi => (hni i hi).1) rfl
      simpa using this
    · rintro ⟨i, hi, hii⟩; rw [(hni i hi).1] at hii; cases hii
    · simpa [delOk] using delOk_endProg cfg t.loc.clr
    · intro q hq; rw [hclr q] at hq; cases hq
    · intro i hi
      rcases List.mem_cons.mp hi with rfl | hi
      · trivial
      · exact (endProg_props cfg s t.owner).2 i hi
    · intro e; rw [hk] at e; cases e
    · intro _ i hi
      rcases List.mem_cons.mp hi with rfl | hi
      · rfl
      · exact (endProg_props cfg s t.owner).1 i hi
    · intro e; exact absurd hk e
    · intro _
      exact ⟨(fun e => by cases e), fun _ => hni⟩
    · intro _ q hc
      right
      obtain ⟨i, hi, hic⟩ := endProg_clears cfg hwf q hc
      exact ⟨i, List.mem_cons_of_mem _ hi, hic⟩
  · dsimp only
    apply TInv.mkInc (cfg := cfg) (t := ⟨t.owner, t.kind, [], _⟩) hk (by exact hrel) (by exact hclr)
      (by intro j hj; cases hj) (by intro j hj; cases hj) (by exact h.mine) (by exact h.fresh)
      ⟨none, rfl, by intro q e; cases e⟩ ⟨[], rfl, ?_⟩ rfl
    intro q hq; rw [hmnone q] at hq; cases hq


/-- One instruction of the stepping thread keeps its invariant. -/
theorem TInv.step {cfg : Cfg} (hwf : cfg.wf = true) {s : S} {t : Thread} {i : Instr} {rest : List Instr}
    (h : TInv cfg s t) (htodo : t.todo = i :: rest) (hnd : ∀ q, (s.members q).Nodup)
    (hN : ∀ q, s.allowed q t.owner = none → t.loc.mine q = none → NoMem s q t.owner)
    (hP : i.isDecI = true → ∀ q m, m ∈ s.members q → m.req = t.owner → s.allowed q t.owner = some m) :
    TInv cfg (exec cfg s t i rest).1 (exec cfg s t i rest).2 := by
  cases i with
  | touch q =>
    simp only [exec]
    exact h.step_ctl htodo (Or.inl ⟨q, rfl⟩) (by split <;> simp) (by split <;> simp) ⟨rfl, rfl, rfl, rfl⟩
  | resetGo => exact h.step_ctl htodo (Or.inr (Or.inl rfl)) rfl rfl ⟨rfl, rfl, rfl, rfl⟩
  | chk q => exact h.step_chk htodo (hN q)
  | sadd q => exact h.step_sadd htodo
  | setst q => exact h.step_setst htodo
  | chkA q =>
    simp only [exec]
    split
    · exact h.step_ctl htodo (Or.inr (Or.inr (Or.inl ⟨q, rfl⟩))) rfl rfl ⟨rfl, rfl, rfl, rfl⟩
    · exact h.step_ctl htodo (Or.inr (Or.inr (Or.inl ⟨q, rfl⟩))) rfl rfl ⟨rfl, rfl, rfl, rfl⟩
  | finish post => exact h.step_finish hwf htodo
  | read q => exact h.step_look htodo (Or.inl ⟨q, rfl, rfl⟩) (hP rfl)
  | recheck q x => exact h.step_look htodo (Or.inr ⟨q, x, rfl, rfl⟩) (hP rfl)
  | srem q x lv => exact h.step_srem htodo (hnd q)
  | del q => exact h.step_del htodo
  | pop => exact h.step_ctl htodo (Or.inr (Or.inr (Or.inr rfl))) rfl rfl ⟨rfl, rfl, rfl, rfl⟩
  | dropPop => exact h.step_dropPop htodo
  | gsrem q m => exact h.step_gc htodo rfl hnd
  | gdel q r => exact h.step_gc htodo rfl hnd


/-! ### What one instruction does to the shared state -/

theorem exec_members (cfg : Cfg) (s : S) (t : Thread) (i : Instr) (rest : List Instr) (q' : Nat) (m : Member)
    (hm : m ∈ (exec cfg s t i rest).1.members q') :
    m ∈ s.members q' ∨ (i.isSadd = true ∧ m.req = t.owner) := by
  cases i with
  | sadd q =>
    simp only [exec] at hm
    split at hm
    · split at hm
      · rw [sadd_members] at hm
        split at hm
        · rcases List.mem_append.mp hm with h | h
          · left; rename_i e; rw [e.1]; exact h
          · right; simp at h; subst h; exact ⟨rfl, rfl⟩
        · left; exact hm
      · left; exact hm
    · left; exact hm
  | srem q x lv =>
    left
    simp only [exec] at hm
    split at hm
    · rw [srem_members] at hm
      split at hm
      · rename_i e; subst e; exact List.mem_of_mem_erase hm
      · exact hm
    · exact hm
  | gsrem q m0 =>
    left
    simp only [exec, srem_members] at hm
    split at hm
    · rename_i e; subst e; exact List.mem_of_mem_erase hm
    · exact hm
  | touch q => left; simp only [exec] at hm; split at hm <;> simpa using hm
  | chk q => left; simp only [exec] at hm; split at hm <;> (try split at hm) <;> exact hm
  | setst q => left; simp only [exec] at hm; split at hm <;> simpa using hm
  | chkA q => left; simp only [exec] at hm; split at hm <;> exact hm
  | finish b => left; simp only [exec] at hm; split at hm <;> exact hm
  | resetGo => left; exact hm
  | read q => left; exact hm
  | recheck q x => left; exact hm
  | del q => left; simpa [exec] using hm
  | pop => left; simpa [exec] using hm
  | dropPop => left; simpa [exec] using hm
  | gdel q r => left; simpa [exec] using hm

theorem exec_allowed (cfg : Cfg) (s : S) (t : Thread) (i : Instr) (rest : List Instr) (q' r : Nat) :
    (exec cfg s t i rest).1.allowed q' r = s.allowed q' r ∨
    (i = .setst q' ∧ r = t.owner ∧ (exec cfg s t i rest).1.allowed q' r = t.loc.mine q' ∧ (t.loc.mine q').isSome = true) ∨
    ((i = .del q' ∧ r = t.owner ∨ i = .gdel q' r) ∧ (exec cfg s t i rest).1.allowed q' r = none) := by
  cases i with
  | setst q =>
    simp only [exec]
    split
    · rename_i m hm
      rw [setst_allowed]
      split
      · rename_i e; right; left; obtain ⟨e1, e2⟩ := e; subst e1; subst e2; exact ⟨rfl, rfl, hm.symm, by simp [hm]⟩
      · left; rfl
    · left; rfl
  | del q =>
    simp only [exec, del_allowed]
    split
    · rename_i e; right; right; obtain ⟨e1, e2⟩ := e; subst e1; subst e2; exact ⟨Or.inl ⟨rfl, rfl⟩, rfl⟩
    · left; rfl
  | gdel q r0 =>
    simp only [exec, del_allowed]
    split
    · rename_i e; right; right; obtain ⟨e1, e2⟩ := e; subst e1; subst e2; exact ⟨Or.inr rfl, rfl⟩
    · left; rfl
  | touch q => left; simp only [exec]; split <;> simp
  | chk q => left; simp only [exec]; split <;> (try split) <;> rfl
  | sadd q => left; simp only [exec]; split <;> (try split) <;> simp
  | chkA q => left; simp only [exec]; split <;> rfl
  | finish b => left; simp only [exec]; split <;> rfl
  | srem q x lv => left; simp only [exec]; split <;> simp
  | resetGo => left; rfl
  | read q => left; rfl
  | recheck q x => left; rfl
  | pop => left; rfl
  | dropPop => left; rfl
  | gsrem q m => left; simp [exec]

theorem exec_reach (cfg : Cfg) (s : S) (t : Thread) (i : Instr) (rest : List Instr) (h : Reach cfg s) :
    Reach cfg (exec cfg s t i rest).1 := by
  cases i <;> simp only [exec] <;> (try split) <;> (try split) <;> (try dsimp only) <;>
    first | exact h | exact .step _ _ h

theorem exec_thread (cfg : Cfg) (s : S) (t : Thread) (i : Instr) (rest : List Instr) :
    (exec cfg s t i rest).2.owner = t.owner ∧ (exec cfg s t i rest).2.kind = t.kind := by
  cases i <;> simp only [exec] <;> (try split) <;> (try split) <;> simp


theorem exec_mine (cfg : Cfg) (s : S) (t : Thread) (i : Instr) (rest : List Instr) (q' : Nat) :
    (exec cfg s t i rest).2.loc.mine q' = t.loc.mine q' ∨ i = .sadd q' ∨ i = .setst q' := by
  cases i with
  | sadd q =>
    simp only [exec]
    split
    · split
      · simp only [upd]; split
        · rename_i e; subst e; right; left; rfl
        · left; rfl
      · left; rfl
    · left; rfl
  | setst q =>
    simp only [exec]
    split
    · simp only [upd]; split
      · rename_i e; subst e; right; right; rfl
      · left; rfl
    · left; rfl
  | _ => left; simp only [exec] <;> (try split) <;> (try split) <;> rfl

theorem exec_new_member (cfg : Cfg) (s : S) (t : Thread) (i : Instr) (rest : List Instr) (q' : Nat) (m : Member)
    (hm : m ∈ (exec cfg s t i rest).1.members q') (hn : m ∉ s.members q') :
    i = .sadd q' ∧ (exec cfg s t i rest).2.loc.mine q' = some m ∧ m.req = t.owner ∧
      t.loc.ok = true ∧ t.loc.go = true := by
  rcases exec_members cfg s t i rest q' m hm with h | ⟨hs, _⟩
  · exact absurd h hn
  · cases i with
    | sadd q =>
      simp only [exec] at hm ⊢
      split at hm
      · rename_i hog
        simp only [Bool.and_eq_true] at hog
        split at hm
        · rename_i hroom
          rw [sadd_members] at hm
          split at hm
          · rename_i e
            obtain ⟨e1, _⟩ := e
            subst e1
            rcases List.mem_append.mp hm with h | h
            · exact absurd h hn
            · simp at h; subst h
              simp [hog, hroom, upd]
          · exact absurd hm hn
        · exact absurd hm hn
      · exact absurd hm hn
    | _ => cases hs

theorem exec_nodup (cfg : Cfg) (s : S) (t : Thread) (i : Instr) (rest : List Instr)
    (hnd : ∀ q, (s.members q).Nodup)
    (hfr : ∀ q, i = .sadd q → t.loc.ok = true → t.loc.go = true → NoMem s q t.owner) :
    ∀ q, ((exec cfg s t i rest).1.members q).Nodup := by
  intro q'
  cases i with
  | sadd q =>
    simp only [exec]
    split
    · rename_i hog
      simp only [Bool.and_eq_true] at hog
      split
      · rw [sadd_members]
        split
        · rename_i e
          refine List.nodup_append.mpr ⟨hnd q, by simp, ?_⟩
          intro a ha b hb
          simp at hb; subst hb
          intro e2; subst e2
          exact hfr q rfl hog.1 hog.2 _ ha rfl
        · exact hnd q'
      · exact hnd q'
    · exact hnd q'
  | srem q x lv =>
    simp only [exec]
    split
    · rw [srem_members]; split
      · exact (hnd q).erase _
      · exact hnd q'
    · exact hnd q'
  | gsrem q m =>
    simp only [exec, srem_members]; split
    · exact (hnd q).erase _
    · exact hnd q'
  | touch q => simp only [exec]; split <;> simpa using hnd q'
  | chk q => simp only [exec]; split <;> (try split) <;> exact hnd q'
  | setst q => simp only [exec]; split <;> simpa using hnd q'
  | chkA q => simp only [exec]; split <;> exact hnd q'
  | finish b => simp only [exec]; split <;> exact hnd q'
  | resetGo => exact hnd q'
  | read q => exact hnd q'
  | recheck q x => exact hnd q'
  | del q => simpa [exec] using hnd q'
  | pop => simpa [exec] using hnd q'
  | dropPop => simpa [exec] using hnd q'
  | gdel q r => simpa [exec] using hnd q'


/-! ### One scheduling step keeps the global invariant -/

theorem finished_mine_none {cfg : Cfg} {s : S} {t : Thread} (h : TInv cfg s t) (hf : t.todo = []) :
    ∀ q, t.loc.mine q = none := by
  intro q
  obtain ⟨pd, hp, hq⟩ := h.mok
  rw [hf] at hp
  simp only [mOk, List.isEmpty_iff] at hp
  subst hp
  cases hm : t.loc.mine q with
  | none => rfl
  | some m => have := hq q (by simp [hm]); cases this

theorem reqDone_spec {g : G} {r : Nat} (h : g.reqDone r = true) :
    ∃ tid t, g.reqTid r = some tid ∧ g.th tid = some t ∧ t.todo = [] := by
  simp only [G.reqDone] at h
  split at h
  · rename_i tid htid
    split at h
    · rename_i t ht
      exact ⟨tid, t, htid, ht, List.isEmpty_iff.mp h⟩
    · cases h
  · cases h

/-- A running request thread is the only thread of its transaction. -/
theorem same_owner_absurd {cfg : Cfg} {g : G} (hG : GInv cfg g) {tid tid1 : Nat} {t t1 : Thread} {i : Instr}
    {rest : List Instr} (ht : g.th tid = some t) (htodo : t.todo = i :: rest) (hk : t.kind = .request)
    (ht1 : g.th tid1 = some t1) (hne : tid1 ≠ tid) (ho : t1.owner = t.owner) : False := by
  have h1 := hG.req1 tid t ht hk
  by_cases hk1 : t1.kind = .request
  · have h2 := hG.req1 tid1 t1 ht1 hk1
    rw [ho, h1] at h2
    exact hne (Option.some.inj h2).symm
  · obtain ⟨tid0, t0, a, b, c⟩ := reqDone_spec (hG.late tid1 t1 ht1 hk1)
    rw [ho, h1] at a
    have := Option.some.inj a
    subst this
    rw [ht] at b
    have := Option.some.inj b
    subst this
    rw [htodo] at c; cases c

/-- Members of the stepping thread's transaction are all recorded in its status — when it has no pending
    status write of its own. -/
theorem pend_for_owner {cfg : Cfg} {g : G} (hG : GInv cfg g) {tid : Nat} {t : Thread} (ht : g.th tid = some t)
    (hnomine : t.kind = .request → ∀ q, t.loc.mine q = none) :
    ∀ q m, m ∈ g.s.members q → m.req = t.owner → g.s.allowed q t.owner = some m := by
  intro q m hm hr
  rcases hG.pend q m hm with h | ⟨tid1, t1, a, b, c, d⟩
  · rw [hr] at h; exact h
  · exfalso
    have h1 := hG.req1 tid1 t1 a b
    by_cases hk : t.kind = .request
    · have h2 := hG.req1 tid t ht hk
      rw [c, hr, h2] at h1
      have := Option.some.inj h1
      subst this
      rw [ht] at a
      have := Option.some.inj a
      subst this
      rw [hnomine hk q] at d; cases d
    · obtain ⟨tid0, t0, a0, b0, c0⟩ := reqDone_spec (hG.late tid t ht hk)
      rw [c, hr, a0] at h1
      have := Option.some.inj h1
      subst this
      rw [a] at b0
      have := Option.some.inj b0
      subst this
      rw [finished_mine_none (hG.thr _ _ a) c0 q] at d; cases d


theorem GInv.run {cfg : Cfg} (hwf : cfg.wf = true) {g : G} (hG : GInv cfg g) {tid : Nat} {t : Thread}
    {i : Instr} {rest : List Instr} (ht : g.th tid = some t) (htodo : t.todo = i :: rest) :
    GInv cfg { (g.setTh tid (exec cfg g.s t i rest).2) with s := (exec cfg g.s t i rest).1 } := by
  have hT := hG.thr tid t ht
  obtain ⟨hown, hkind⟩ := exec_thread cfg g.s t i rest
  -- facts about the stepping thread
  have hNoMine : i.isDecI = true → t.kind = .request → ∀ q, t.loc.mine q = none := by
    intro hd _ q
    have hnoinc := decI_noInc hT htodo hd
    obtain ⟨pd, hp, hq⟩ := hT.mok
    cases hm : t.loc.mine q with
    | none => rfl
    | some m =>
      have := hnoinc _ (mOk_setst _ pd hp q (hq q (by simp [hm])))
      cases this
  have hP : i.isDecI = true → ∀ q m, m ∈ g.s.members q → m.req = t.owner → g.s.allowed q t.owner = some m :=
    fun hd => pend_for_owner hG ht (hNoMine hd)
  have hN : ∀ q, g.s.allowed q t.owner = none → t.loc.mine q = none → NoMem g.s q t.owner := by
    intro q hn hm m hmem hr
    rcases hG.pend q m hmem with h | ⟨tid1, t1, a, b, c, d⟩
    · rw [hr, hn] at h; cases h
    · have h1 := hG.req1 tid1 t1 a b
      by_cases hk : t.kind = .request
      · have h2 := hG.req1 tid t ht hk
        rw [c, hr, h2] at h1
        have := Option.some.inj h1; subst this
        rw [ht] at a
        have := Option.some.inj a; subst this
        rw [hm] at d; cases d
      · obtain ⟨tid0, t0, a0, b0, c0⟩ := reqDone_spec (hG.late tid t ht hk)
        rw [c, hr, a0] at h1
        have := Option.some.inj h1; subst this
        rw [a] at b0
        have := Option.some.inj b0; subst this
        rw [finished_mine_none (hG.thr _ _ a) c0 q] at d; cases d
  have hfr : ∀ q, i = .sadd q → t.loc.ok = true → t.loc.go = true → NoMem g.s q t.owner := by
    intro q e hok hgo
    obtain ⟨p, hp, hpq⟩ := hT.hd
    rw [htodo, e] at hp
    simp only [sOk, Bool.and_eq_true, beq_iff_eq] at hp
    exact (hT.fresh q (hpq q hp.1 hok hgo)).1
  have hIncReq : i.isInc = true → t.kind = .request := fun hi => (inc_head hT htodo hi).1
  have hth : ∀ k t1, (if k = tid then some (exec cfg g.s t i rest).2 else g.th k) = some t1 →
      (k = tid ∧ t1 = (exec cfg g.s t i rest).2) ∨ (k ≠ tid ∧ g.th k = some t1) := by
    intro k t1 h
    split at h
    · rename_i e; exact Or.inl ⟨e, (Option.some.inj h).symm⟩
    · rename_i e; exact Or.inr ⟨e, h⟩
  refine ⟨exec_reach cfg g.s t i rest hG.reach, exec_nodup cfg g.s t i rest hG.nodup hfr, ?_, ?_, ?_, ?_, ?_, ?_⟩
  · -- pend
    intro q m hm
    show (exec cfg g.s t i rest).1.allowed q m.req = some m ∨ _
    by_cases hold : m ∈ g.s.members q
    · rcases hG.pend q m hold with hA | ⟨tid1, t1, a, b, c, d⟩
      · rcases exec_allowed cfg g.s t i rest q m.req with e | ⟨e1, e2, _, e4⟩ | ⟨e1, _⟩
        · left; rw [e]; exact hA
        · exfalso
          obtain ⟨mm, hmm⟩ := Option.isSome_iff_exists.mp e4
          have := (hT.mine q mm hmm).2
          rw [← e2, hA] at this; cases this
        · exfalso
          rcases e1 with ⟨e1, e2⟩ | e1
          · have hd := hT.delok
            rw [htodo, e1] at hd
            simp only [delOk, Bool.and_eq_true] at hd
            exact hT.clrNo q hd.1 m hold e2
          · have hk : t.kind = .gc := by
              cases hk : t.kind with
              | gc => rfl
              | _ =>
                have := hT.noGc (by rw [hk]; intro e; cases e) i (by rw [htodo]; exact List.mem_cons_self)
                rw [e1] at this; cases this
            rcases hT.gcShape hk with ⟨q0, m0, _, b0, _⟩ | ⟨q0, b0, hn⟩ | b0
            · rw [htodo, e1] at b0; injection b0 with b1 _; cases b1
            · rw [htodo, e1] at b0; injection b0 with b1 _; injection b1 with b2 b3
              subst b2
              exact hn m hold b3
            · rw [htodo] at b0; cases b0
      · by_cases e : tid1 = tid
        · subst e
          rw [ht] at a
          have := Option.some.inj a; subst this
          rcases exec_mine cfg g.s t i rest q with hmn | hs | hs
          · right
            exact ⟨tid1, (exec cfg g.s t i rest).2, by simp [G.setTh], by rw [hkind]; exact b, by rw [hown]; exact c,
              by rw [hmn]; exact d⟩
          · exfalso
            obtain ⟨pd, hp, hq⟩ := hT.mok
            rw [htodo, hs] at hp
            simp only [mOk, Bool.and_eq_true, Bool.not_eq_true', List.contains_eq_mem, decide_eq_false_iff_not] at hp
            exact hp.1 (hq q (by simp [d]))
          · left
            subst hs
            simp only [exec, d, setst_allowed, c]
            simp
        · right
          exact ⟨tid1, t1, by simp [G.setTh, e, a], b, c, d⟩
    · obtain ⟨e1, e2, e3, _, _⟩ := exec_new_member cfg g.s t i rest q m hm hold
      right
      exact ⟨tid, (exec cfg g.s t i rest).2, by simp [G.setTh], by rw [hkind]; exact hIncReq (by rw [e1]; rfl),
        by rw [hown, e3], e2⟩
  · -- src
    intro q m hm
    show (g.reqTid m.req).isSome = true
    by_cases hold : m ∈ g.s.members q
    · exact hG.src q m hold
    · obtain ⟨e1, _, e3, _, _⟩ := exec_new_member cfg g.s t i rest q m hm hold
      rw [e3, hG.req1 tid t ht (hIncReq (by rw [e1]; rfl))]; rfl
  · -- req1
    intro k t1 hk1 hkk
    rcases hth k t1 hk1 with ⟨e, e2⟩ | ⟨_, e2⟩
    · subst e; subst e2
      show g.reqTid _ = _
      rw [hown]; exact hG.req1 k t ht (by rw [← hkind]; exact hkk)
    · exact hG.req1 k t1 e2 hkk
  · -- req2
    intro r k hr
    obtain ⟨t0, a, b, c⟩ := hG.req2 r k hr
    by_cases e : k = tid
    · subst e
      rw [ht] at a
      have := Option.some.inj a; subst this
      exact ⟨(exec cfg g.s t i rest).2, by simp [G.setTh], by rw [hkind]; exact b, by rw [hown]; exact c⟩
    · exact ⟨t0, by simp [G.setTh, e, a], b, c⟩
  · -- late
    intro k t1 hk1 hkk
    have key : ∀ r, g.reqDone r = true →
        G.reqDone { (g.setTh tid (exec cfg g.s t i rest).2) with s := (exec cfg g.s t i rest).1 } r = true := by
      intro r hr
      obtain ⟨tid0, t0, a0, b0, c0⟩ := reqDone_spec hr
      have hne : tid0 ≠ tid := by
        intro e; subst e
        rw [ht] at b0
        have := Option.some.inj b0; subst this
        rw [htodo] at c0; cases c0
      simp [G.reqDone, G.setTh, a0, hne, b0, c0]
    rcases hth k t1 hk1 with ⟨e, e2⟩ | ⟨_, e2⟩
    · subst e; subst e2
      rw [hown]
      exact key _ (hG.late k t ht (by rw [← hkind]; exact hkk))
    · exact key _ (hG.late k t1 e2 hkk)
  · -- thr
    intro k t1 hk1
    rcases hth k t1 hk1 with ⟨e, e2⟩ | ⟨e, e2⟩
    · subst e; subst e2
      exact TInv.step hwf hT htodo hG.nodup hN hP
    · apply (hG.thr k t1 e2).frame
      · intro q m hm
        rcases exec_members cfg g.s t i rest q m hm with h | ⟨hs, hr⟩
        · exact Or.inl h
        · right
          intro e3
          have hk : t.kind = .request := hIncReq (by cases i <;> simp_all [Instr.isSadd, Instr.isInc])
          exact same_owner_absurd hG ht htodo hk e2 e (by rw [← e3, hr])
      · intro q hn
        rcases exec_allowed cfg g.s t i rest q t1.owner with e3 | ⟨e3, e4, _, _⟩ | ⟨_, e3⟩
        · rw [e3]; exact hn
        · exfalso
          have hk : t.kind = .request := hIncReq (by rw [e3]; rfl)
          exact same_owner_absurd hG ht htodo hk e2 e e4
        · exact e3


/-! ### Spawning threads, the clock -/

def Instr.isWalk : Instr → Bool
  | .touch _ | .resetGo | .chk _ | .sadd _ | .setst _ | .chkA _ => true
  | _ => false

theorem walk_incProg (ch : List Nat) : ∀ i ∈ incProg ch, i.isWalk = true := by
  intro i hi
  simp only [incProg, List.mem_append, List.mem_flatMap, List.mem_map] at hi
  rcases hi with ⟨q, _, hq⟩ | ⟨q, _, rfl⟩
  · simp at hq; rcases hq with rfl | rfl <;> rfl
  · rfl

theorem walk_allowedProg : ∀ ch : List Nat, ∀ i ∈ allowedProg ch, i.isWalk = true
  | [], i, hi => by cases hi
  | q :: rest, i, hi => by
    simp only [allowedProg, List.mem_append, List.mem_singleton] at hi
    rcases hi with (h | rfl) | h
    · exact walk_incProg _ i h
    · rfl
    · exact walk_allowedProg rest i h

theorem walk_request (cfg : Cfg) (post : Bool) :
    ∃ a, requestProg cfg post = a ++ [.finish post] ∧ ∀ i ∈ a, i.isWalk = true := by
  refine ⟨_, rfl, ?_⟩
  intro i hi
  simp only [List.mem_append, List.mem_flatMap] at hi
  rcases hi with ⟨q0, _, h⟩ | ⟨q0, _, h⟩
  · simp only [sysIncProg, List.mem_cons] at h
    rcases h with rfl | h
    · rfl
    · split at h
      · rcases List.mem_cons.mp h with rfl | h
        · rfl
        · exact walk_incProg _ i h
      · cases h
  · simp only [limiterProg, List.mem_cons] at h
    rcases h with rfl | h
    · rfl
    · split at h
      · simp only [List.mem_append, List.mem_singleton] at h
        rcases h with ((rfl | h) | rfl) | h
        · rfl
        · exact walk_incProg _ i h
        · rfl
        · exact walk_allowedProg _ i h
      · cases h

theorem TInv.spawnReq (cfg : Cfg) (hwf : cfg.wf = true) (s : S) (r : Nat) (post : Bool) :
    TInv cfg s ⟨r, .request, requestProg cfg post, Loc.init⟩ := by
  obtain ⟨a, ha, hw⟩ := walk_request cfg post
  have hmem : ∀ i ∈ requestProg cfg post, i.isWalk = true ∨ i = .finish post := by
    intro i hi
    rw [ha] at hi
    rcases List.mem_append.mp hi with h | h
    · exact Or.inl (hw i h)
    · simp at h; exact Or.inr h
  apply TInv.spawn cfg s r .request _ (sOk_requestProg cfg post) ?_ (thru_requestProg cfg hwf post) ?_ ?_ ?_
    (by intro e; exact absurd rfl e) (by intro e; cases e) ?_ (by intro e; cases e)
  · apply delOk_of_noDel
    intro i hi
    rcases hmem i hi with h | rfl
    · cases i <;> simp_all [Instr.isWalk, Instr.isDel]
    · rfl
  · rw [ha]
    apply finOk_append_last
    intro i hi b e
    have := hw i hi
    rw [e] at this; cases this
  · intro i hi
    rcases hmem i hi with h | rfl
    · cases i <;> simp_all [Instr.isWalk, PayOk]
    · trivial
  · intro _ i hi
    rcases hmem i hi with h | rfl
    · cases i <;> simp_all [Instr.isWalk, Instr.isGc]
    · rfl
  · intro _ i hi
    rcases hmem i hi with h | rfl
    · cases i <;> simp_all [Instr.isWalk, Instr.isDecI]
    · rfl

theorem TInv.spawnResp (cfg : Cfg) (hwf : cfg.wf = true) (s : S) (r : Nat) :
    TInv cfg s ⟨r, .resp, endProg cfg, Loc.init⟩ := by
  apply TInv.spawn cfg s r .resp _ (sOk_of_noSadd none _ (noSadd_endProg cfg)) (delOk_endProg cfg _)
    (by simpa using thru_nonInc [] _ (nonInc_endProg cfg) [] rfl)
    (by simpa using finOk_append_nonInc _ [] (nonInc_endProg cfg) rfl)
    (endProg_props cfg s r).2 (fun _ => (endProg_props cfg s r).1)
    (fun _ i hi => ⟨nonInc_endProg cfg i hi, noSadd_endProg cfg i hi⟩)
    (by intro e; cases e) (by intro e; cases e) (fun _ q hc => endProg_clears cfg hwf q hc)

theorem TInv.spawnErr (cfg : Cfg) (s : S) (r : Nat) : TInv cfg s ⟨r, .err, [.dropPop], Loc.init⟩ := by
  apply TInv.spawn cfg s r .err _ rfl rfl rfl rfl
  · intro i hi; simp at hi; subst hi; trivial
  · intro _ i hi; simp at hi; subst hi; rfl
  · intro _ i hi; simp at hi; subst hi; exact ⟨rfl, rfl⟩
  · intro e; cases e
  · intro e; cases e
  · intro e; cases e

theorem TInv.spawnGc (cfg : Cfg) (s : S) (q : Nat) (m : Member) (ho : OnlyM s q m.req m) :
    TInv cfg s ⟨m.req, .gc, [.gsrem q m, .gdel q m.req], Loc.init⟩ := by
  apply TInv.spawn cfg s m.req .gc _ rfl rfl rfl rfl
  · intro i hi; simp at hi; rcases hi with rfl | rfl <;> trivial
  · intro e; exact absurd rfl e
  · intro _ i hi; simp at hi; rcases hi with rfl | rfl <;> exact ⟨rfl, rfl⟩
  · intro _; exact Or.inl ⟨q, m, rfl, rfl, ho⟩
  · intro e; cases e
  · intro e; cases e


theorem GInv.addOther {cfg : Cfg} {g : G} (hG : GInv cfg g) {tid : Nat} {t0 : Thread} (hfree : g.th tid = none)
    (hk : t0.kind ≠ .request) (hdone : g.reqDone t0.owner = true) (hT : TInv cfg g.s t0) :
    GInv cfg (g.setTh tid t0) := by
  have hth : ∀ k t1, (g.setTh tid t0).th k = some t1 → (k = tid ∧ t1 = t0) ∨ (k ≠ tid ∧ g.th k = some t1) := by
    intro k t1 h
    simp only [G.setTh] at h
    split at h
    · rename_i e; exact Or.inl ⟨e, (Option.some.inj h).symm⟩
    · rename_i e; exact Or.inr ⟨e, h⟩
  have hold : ∀ k t1, g.th k = some t1 → (g.setTh tid t0).th k = some t1 := by
    intro k t1 h
    have : k ≠ tid := by intro e; subst e; rw [hfree] at h; cases h
    simp [G.setTh, this, h]
  have hdone' : ∀ r, g.reqDone r = true → (g.setTh tid t0).reqDone r = true := by
    intro r hr
    obtain ⟨tid0, t1, a, b, c⟩ := reqDone_spec hr
    simp [G.reqDone, G.setTh, a, hold tid0 t1 b, c] 
    have : tid0 ≠ tid := by intro e; subst e; rw [hfree] at b; cases b
    simp [this, b, c]
  refine ⟨hG.reach, hG.nodup, ?_, hG.src, ?_, ?_, ?_, ?_⟩
  · intro q m hm
    rcases hG.pend q m hm with h | ⟨tid1, t1, a, b, c, d⟩
    · exact Or.inl h
    · exact Or.inr ⟨tid1, t1, hold tid1 t1 a, b, c, d⟩
  · intro k t1 h hkk
    rcases hth k t1 h with ⟨_, e⟩ | ⟨_, e⟩
    · subst e; exact absurd hkk hk
    · exact hG.req1 k t1 e hkk
  · intro r k hr
    obtain ⟨t1, a, b, c⟩ := hG.req2 r k hr
    exact ⟨t1, hold k t1 a, b, c⟩
  · intro k t1 h hkk
    rcases hth k t1 h with ⟨_, e⟩ | ⟨_, e⟩
    · subst e; exact hdone' _ hdone
    · exact hdone' _ (hG.late k t1 e hkk)
  · intro k t1 h
    rcases hth k t1 h with ⟨_, e⟩ | ⟨_, e⟩
    · subst e; exact hT
    · exact hG.thr k t1 e

theorem GInv.addReq {cfg : Cfg} {g : G} (hG : GInv cfg g) {tid r : Nat} {t0 : Thread} (hfree : g.th tid = none)
    (hk : t0.kind = .request) (ho : t0.owner = r) (hnew : g.reqTid r = none) (hT : TInv cfg g.s t0) :
    GInv cfg { (g.setTh tid t0) with reqTid := fun r' => if r' = r then some tid else g.reqTid r' } := by
  have hth : ∀ k t1, (g.setTh tid t0).th k = some t1 → (k = tid ∧ t1 = t0) ∨ (k ≠ tid ∧ g.th k = some t1) := by
    intro k t1 h
    simp only [G.setTh] at h
    split at h
    · rename_i e; exact Or.inl ⟨e, (Option.some.inj h).symm⟩
    · rename_i e; exact Or.inr ⟨e, h⟩
  have hold : ∀ k t1, g.th k = some t1 → (g.setTh tid t0).th k = some t1 := by
    intro k t1 h
    have : k ≠ tid := by intro e; subst e; rw [hfree] at h; cases h
    simp [G.setTh, this, h]
  have hrne : ∀ r', (g.reqTid r').isSome = true → r' ≠ r := by
    intro r' h e; subst e; rw [hnew] at h; cases h
  refine ⟨hG.reach, hG.nodup, ?_, ?_, ?_, ?_, ?_, ?_⟩
  · intro q m hm
    rcases hG.pend q m hm with h | ⟨tid1, t1, a, b, c, d⟩
    · exact Or.inl h
    · exact Or.inr ⟨tid1, t1, hold tid1 t1 a, b, c, d⟩
  · intro q m hm
    have := hG.src q m hm
    show (if m.req = r then some tid else g.reqTid m.req).isSome = true
    split
    · rfl
    · exact this
  · intro k t1 h hkk
    show (if t1.owner = r then some tid else g.reqTid t1.owner) = some k
    rcases hth k t1 h with ⟨e1, e⟩ | ⟨_, e⟩
    · subst e; subst e1; simp [ho]
    · have := hG.req1 k t1 e hkk
      have hne := hrne t1.owner (by rw [this]; rfl)
      simp [hne, this]
  · intro r' k hr
    have hr' : (if r' = r then some tid else g.reqTid r') = some k := hr
    split at hr'
    · rename_i e; subst e
      have := Option.some.inj hr'; subst this
      exact ⟨t0, by simp [G.setTh], hk, ho⟩
    · obtain ⟨t1, a, b, c⟩ := hG.req2 r' k hr'
      exact ⟨t1, hold k t1 a, b, c⟩
  · intro k t1 h hkk
    rcases hth k t1 h with ⟨_, e⟩ | ⟨_, e⟩
    · subst e; exact absurd hk hkk
    · obtain ⟨tid0, t2, a, b, c⟩ := reqDone_spec (hG.late k t1 e hkk)
      have hne := hrne t1.owner (by rw [a]; rfl)
      have : tid0 ≠ tid := by intro e2; subst e2; rw [hfree] at b; cases b
      simp [G.reqDone, G.setTh, hne, a, this, b, c]
  · intro k t1 h
    rcases hth k t1 h with ⟨_, e⟩ | ⟨_, e⟩
    · subst e; exact hT
    · exact hG.thr k t1 e

theorem GInv.clock {cfg : Cfg} {g : G} (hG : GInv cfg g) (now next : Nat) :
    GInv cfg { g with s := micro cfg g.s (.clock now next) } := by
  refine ⟨Reach.step g.s (.clock now next) hG.reach, hG.nodup, hG.pend, hG.src, hG.req1, hG.req2, hG.late, ?_⟩
  intro k t1 h
  exact (hG.thr k t1 h).frame (fun q m hm => Or.inl hm) (fun q hq => hq)

/-- A finished request ⇒ every member of that transaction is recorded in its status. -/
theorem pend_done {cfg : Cfg} {g : G} (hG : GInv cfg g) {r : Nat} (hd : g.reqDone r = true) :
    ∀ q m, m ∈ g.s.members q → m.req = r → g.s.allowed q r = some m := by
  intro q m hm hr
  obtain ⟨tid0, t0, a0, b0, c0⟩ := reqDone_spec hd
  rcases hG.pend q m hm with h | ⟨tid1, t1, a, b, c, d⟩
  · rw [hr] at h; exact h
  · exfalso
    have h1 := hG.req1 tid1 t1 a b
    rw [c, hr, a0] at h1
    have := Option.some.inj h1; subst this
    rw [a] at b0
    have := Option.some.inj b0; subst this
    rw [finished_mine_none (hG.thr _ _ a) c0 q] at d; cases d

theorem ginv_step {cfg : Cfg} (hwf : cfg.wf = true) {g : G} (hG : GInv cfg g) (ev : Ev) :
    GInv cfg (gstep cfg g ev) := by
  cases ev with
  | run tid =>
    simp only [gstep]
    split
    · rename_i t ht
      split
      · rename_i i rest htodo
        exact hG.run hwf ht htodo
      · exact hG
    · exact hG
  | spawnReq tid r post =>
    simp only [gstep]
    split
    · rename_i hc
      simp only [Bool.and_eq_true, Option.isNone_iff_eq_none] at hc
      exact hG.addReq hc.1 rfl rfl hc.2 (TInv.spawnReq cfg hwf g.s r post)
    · exact hG
  | spawnResp tid r =>
    simp only [gstep]
    split
    · rename_i hc
      simp only [Bool.and_eq_true, Option.isNone_iff_eq_none] at hc
      exact hG.addOther hc.1 (by intro e; cases e) hc.2 (TInv.spawnResp cfg hwf g.s r)
    · exact hG
  | spawnErr tid r =>
    simp only [gstep]
    split
    · rename_i hc
      simp only [Bool.and_eq_true, Option.isNone_iff_eq_none] at hc
      exact hG.addOther hc.1 (by intro e; cases e) hc.2 (TInv.spawnErr cfg g.s r)
    · exact hG
  | spawnGc tid q m =>
    simp only [gstep]
    split
    · rename_i hc
      simp only [Bool.and_eq_true, Option.isNone_iff_eq_none, gstep.s_mem, List.contains_iff_mem] at hc
      refine hG.addOther hc.1.1 (by intro e; cases e) hc.2 (TInv.spawnGc cfg g.s q m ?_)
      intro m' hm' hr
      have h1 := pend_done hG hc.2 q m' hm' hr
      have h2 := pend_done hG hc.2 q m hc.1.2 rfl
      rw [h1] at h2
      exact Option.some.inj h2
    · exact hG
  | clock now next => exact hG.clock now next

theorem ginv_grun {cfg : Cfg} (hwf : cfg.wf = true) (sched : List Ev) :
    ∀ g, GInv cfg g → GInv cfg (grun cfg g sched) := by
  induction sched with
  | nil => intro g h; exact h
  | cons ev rest ih => intro g h; exact ih _ (ginv_step hwf h ev)

end LunarVerif.C02
