import LunarVerif.Proofs.C06Bound
/-!
Helper lemmas for C06, part 8: shutdown releases every waiter.  `drainSet` is the ghost snapshot of
the watch list taken when `StopAll` starts; once `StopAll` is over, no request of the snapshot is
left in state `enqueued` (it is `processed` — signalled —, or `processing` — owned by the TTL watcher,
which signals it in its next step).  Every schedule.
-/
namespace LunarVerif.C06

structure InvD (s : St) : Prop where
  d0 : ∀ todo, s.loop = .draining todo → ∀ i ∈ todo, i < s.n ∧ (s.reqs i).inMap = true
  d1 : ∀ todo, s.loop = .draining todo → ∀ i ∈ s.drainSet, i < s.n ∧ (i ∈ todo ∨ (s.reqs i).st ≠ .enqueued)
  d2 : s.loop = .exited → ∀ i ∈ s.drainSet, i < s.n ∧ (s.reqs i).st ≠ .enqueued

theorem invD_init (t0 : Nat) : InvD (St.init t0) := by
  constructor <;> simp [St.init]

theorem invD_trivial (s' : St) (h1 : ∀ t, s'.loop ≠ .draining t) (h2 : s'.loop ≠ .exited) : InvD s' :=
  ⟨fun t e => absurd e (h1 t), fun t e => absurd e (h1 t), fun e => absurd e h2⟩

/-- A step of another thread: the loop, the snapshot stay; no request goes back to `enqueued`; no
entry leaves the map while the loop drains; ids stay valid. -/
theorem invD_frame (s s' : St) (hl : s'.loop = s.loop) (hd : s'.drainSet = s.drainSet) (hn : s.n ≤ s'.n)
    (hst : ∀ i, i < s.n → (s.reqs i).st ≠ .enqueued → (s'.reqs i).st ≠ .enqueued)
    (him : ∀ i, i < s.n → isDraining s.loop = true → (s.reqs i).inMap = true → (s'.reqs i).inMap = true)
    (h : InvD s) : InvD s' := by
  obtain ⟨d0, d1, d2⟩ := h
  constructor
  · intro todo e i hi
    rw [hl] at e
    have := d0 todo e i hi
    exact ⟨by omega, him i this.1 (by simp [e, isDraining]) this.2⟩
  · intro todo e i hi
    rw [hl] at e; rw [hd] at hi
    have := d1 todo e i hi
    refine ⟨by omega, ?_⟩
    rcases this.2 with h | h
    · exact Or.inl h
    · exact Or.inr (hst i this.1 h)
  · intro e i hi
    rw [hl] at e; rw [hd] at hi
    have := d2 e i hi
    exact ⟨by omega, hst i this.1 this.2⟩

theorem signal_st (s : St) (i : Nat) (r : RResult) :
    (s.signal i r).loop = s.loop ∧ (s.signal i r).drainSet = s.drainSet ∧
    (∀ j, ((s.signal i r).reqs j).st = if j = i then .processed else (s.reqs j).st) := by
  simp only [St.signal]
  split <;> simp only [St.upd, St.emit] <;> refine ⟨trivial, trivial, ?_⟩ <;> intro j <;> split <;> simp_all

theorem mem_eraseIdx_or {α : Type} (x y : α) : ∀ (l : List α) (k : Nat), x ∈ l → l[k]? = some y → x = y ∨ x ∈ l.eraseIdx k
  | [], _, h, _ => by cases h
  | a :: l, 0, h, hk => by
    simp at hk; subst hk
    rcases List.mem_cons.1 h with e | e
    · exact Or.inl e
    · exact Or.inr (by simpa using e)
  | a :: l, k + 1, h, hk => by
    simp at hk
    rcases List.mem_cons.1 h with e | e
    · exact Or.inr (by simp [e])
    · rcases mem_eraseIdx_or x y l k e hk with h' | h'
      · exact Or.inl h'
      · exact Or.inr (by simp [h'])

theorem invD_loop (cfg : Cfg) (s : St) (k : Nat) (h : InvD s) : InvD (stepLoop cfg s k) := by
  unfold stepLoop
  split
  · exact h
  · exact h
  · split
    · exact invD_trivial _ (by simp) (by simp)
    · exact invD_trivial _ (by simp [St.emit]) (by simp [St.emit])
  · split
    · exact invD_trivial _ (by simp) (by simp)
    · exact invD_trivial _ (by simp) (by simp)
  · refine invD_trivial _ ?_ ?_ <;> simp only [St.emit, St.upd] <;> split <;> simp
  · exact invD_trivial _ (by simp [St.emit]) (by simp [St.emit])
  · exact invD_trivial _ (by simp) (by simp)
  · exact invD_trivial _ (by simp) (by simp)
  · rename_i todo heq
    obtain ⟨d0, d1, d2⟩ := h
    split
    · split
      · rename_i he
        have : todo = [] := by simpa using he
        subst this
        refine ⟨fun t e => by simp at e, fun t e => by simp at e, fun _ i hi => ?_⟩
        have := d1 [] heq i hi
        rcases this.2 with h | h
        · cases h
        · exact ⟨this.1, h⟩
      · exact ⟨d0, d1, d2⟩
    · rename_i i hk
      have hi : i ∈ todo := List.mem_of_getElem? hk
      have sub : ∀ j, j ∈ todo.eraseIdx k → j ∈ todo := fun j hj => List.mem_of_mem_eraseIdx hj
      have him := (d0 todo heq i hi).2
      split
      · rename_i hg
        have ⟨sa, sb, sc, sd⟩ := signal_frame s i .timeout
        have ⟨ta, tb, tc⟩ := signal_st s i .timeout
        refine ⟨fun t e j hj => ?_, fun t e j hj => ?_, fun e => by simp at e⟩
        · simp only [LoopPc.draining.injEq] at e; subst e
          have := d0 todo heq j (sub j hj)
          show j < (s.signal i .timeout).n ∧ ((s.signal i .timeout).reqs j).inMap = true
          rw [sa, sd j]; exact this
        · simp only [LoopPc.draining.injEq] at e; subst e
          show j < (s.signal i .timeout).n ∧ (j ∈ todo.eraseIdx k ∨ ((s.signal i .timeout).reqs j).st ≠ .enqueued)
          have hj' : j ∈ s.drainSet := by have := tb; simpa [this] using hj
          have := d1 todo heq j hj'
          rw [sa, tc j]
          refine ⟨this.1, ?_⟩
          rcases this.2 with h | h
          · rcases mem_eraseIdx_or j i todo k h hk with e | e
            · right; simp [e]
            · exact Or.inl e
          · right; split <;> simp_all
      · rename_i hg
        have hne : (s.reqs i).st ≠ .enqueued := fun e => hg ⟨him, e⟩
        refine ⟨fun t e j hj => ?_, fun t e j hj => ?_, fun e => by simp at e⟩
        · simp only [LoopPc.draining.injEq] at e; subst e
          exact d0 todo heq j (sub j hj)
        · simp only [LoopPc.draining.injEq] at e; subst e
          have := d1 todo heq j hj
          refine ⟨this.1, ?_⟩
          rcases this.2 with h | h
          · rcases mem_eraseIdx_or j i todo k h hk with e | e
            · right; rw [e]; exact hne
            · exact Or.inl e
          · exact Or.inr h

theorem mem_idsWhere' (s : St) (p : Req → Bool) (j : Nat) (h : j ∈ idsWhere s p) : j < s.n ∧ p (s.reqs j) = true := by
  unfold idsWhere at h
  simpa using h

theorem invD_step (cfg : Cfg) (s : St) (a : Act) (h : InvD s) : InvD (step cfg s a) := by
  unfold step
  split
  · exact h
  · cases a with
    | advance d => exact invD_frame s _ rfl rfl (Nat.le_refl _) (fun _ _ h => h) (fun _ _ _ h => h) h
    | arrive p =>
      simp only [stepCore, stepArrive]
      split <;>
      · refine invD_frame s _ rfl rfl (Nat.le_succ _) ?_ ?_ h <;> intro i hi <;> simp only [St.emit] <;>
          simp [show i ≠ s.n by omega]
    | register i =>
      simp only [stepCore, stepRegister]
      split
      · refine invD_frame s _ rfl rfl (Nat.le_refl _) ?_ ?_ h <;> intro j hj <;> simp only [St.upd] <;> split <;> simp_all
      · exact h
    | push i =>
      simp only [stepCore, stepPush]
      split
      · refine invD_frame s _ rfl rfl (Nat.le_refl _) ?_ ?_ h <;> intro j hj <;> simp only [St.upd, St.emit, St.enq] <;>
          split <;> simp_all
      · exact h
    | wake i =>
      simp only [stepCore, stepWake]
      split
      · refine invD_frame s _ rfl rfl (Nat.le_refl _) ?_ ?_ h <;> intro j hj <;> simp only [St.upd, St.emit] <;> split <;> simp_all
      · exact h
    | unwatch i =>
      simp only [stepCore, stepUnwatch]
      split
      · rename_i hg
        refine invD_frame s _ rfl rfl (Nat.le_refl _) ?_ ?_ h
        · intro j hj; simp only [St.upd, St.emit]; split <;> simp_all
        · intro j hj hd; rw [hg.2] at hd; cases hd
      · exact h
    | heapRemove i =>
      simp only [stepCore, stepHeapRemove]
      split
      · refine invD_frame s _ rfl rfl (Nat.le_refl _) ?_ ?_ h <;> intro j hj <;> simp only [St.upd] <;> split <;> simp_all
      · exact h
    | wScan =>
      simp only [stepCore, stepScan]
      split
      · exact invD_frame s _ rfl rfl (Nat.le_refl _) (fun _ _ h => h) (fun _ _ _ h => h) h
      · exact h
    | cancel =>
      simp only [stepCore, stepCancel]
      split
      · exact h
      · exact invD_frame s _ rfl rfl (Nat.le_refl _) (fun _ _ h => h) (fun _ _ _ h => h) h
    | loopFire =>
      simp only [stepCore, stepLoopFire]
      split
      · split
        · refine ⟨fun t e j hj => ?_, fun t e j hj => ?_, fun e => by simp at e⟩
          · simp only [LoopPc.draining.injEq] at e; subst e
            have := mem_idsWhere' s _ j hj
            exact ⟨this.1, this.2⟩
          · simp only [LoopPc.draining.injEq] at e; subst e
            have := mem_idsWhere' s _ j hj
            exact ⟨this.1, Or.inl hj⟩
        · exact invD_trivial _ (by simp) (by simp)
      · exact h
    | loopStep k => exact invD_loop cfg s k h
    | wStep k =>
      simp only [stepCore, stepWatcher]
      split
      · exact h
      · split
        · split
          · exact invD_frame s _ rfl rfl (Nat.le_refl _) (fun _ _ h => h) (fun _ _ _ h => h) h
          · exact h
        · split
          · refine invD_frame s _ rfl rfl (Nat.le_refl _) ?_ ?_ h <;> intro j hj <;> simp only [St.upd] <;> split <;> simp_all
          · exact invD_frame s _ rfl rfl (Nat.le_refl _) (fun _ _ h => h) (fun _ _ _ h => h) h
      · rename_i i todo heq
        have ⟨sa, sb, sc, sd⟩ := signal_frame s i .timeout
        have ⟨ta, tb, tc⟩ := signal_st s i .timeout
        refine invD_frame s _ ta tb (by rw [sa]; exact Nat.le_refl _) ?_ ?_ h
        · intro j hj hne; rw [tc j]; split <;> simp_all
        · intro j hj _ hm; rw [sd j]; exact hm

theorem invD_run (cfg : Cfg) (acts : List Act) (s : St) (h : InvD s) : InvD (run cfg s acts) := by
  induction acts generalizing s with
  | nil => exact h
  | cons a rest ih => exact ih (step cfg s a) (invD_step cfg s a h)

end LunarVerif.C06
