import LunarVerif.Spec.C07
/-! Helper lemmas for C07 (core Lean only). -/
namespace LunarVerif.C07

/-! ### `merge` read through `lookup` -/

theorem lookup_filter_absent (a b : Hdrs) (k : String) :
    (a.filter (fun p => (b.lookup p.1).isNone)).lookup k =
      if (b.lookup k).isNone then a.lookup k else none := by
  induction a with
  | nil => simp
  | cons p rest ih =>
    obtain ⟨pk, pv⟩ := p
    by_cases hk : k = pk
    · subst hk
      by_cases hb : (b.lookup k).isNone = true
      · simp [List.filter, hb]
      · simp only [List.filter, hb]
        rw [ih]; simp [hb]
    · have hne : (k == pk) = false := by simpa using hk
      by_cases hb : (b.lookup pk).isNone = true
      · simp only [List.filter, hb, List.lookup_cons, hne]
        rw [ih]
      · simp only [List.filter, hb, List.lookup_cons, hne]
        rw [ih]

/-- `MergeHeaders(a, b)[k]` is `b[k]` when `b` binds `k`, else `a[k]`. -/
theorem lookup_merge (a b : Hdrs) (k : String) :
    (merge a b).lookup k = (match b.lookup k with | some v => some v | none => a.lookup k) := by
  unfold merge
  rw [List.lookup_append, lookup_filter_absent]
  cases hb : b.lookup k <;> simp

theorem merge_nil_left (b : Hdrs) : merge [] b = b := by simp [merge]

/-! ### `lastWriter` -/

theorem lastWriter_cons (k : String) (h : Hdrs) (rest : List Hdrs) :
    lastWriter k (h :: rest) =
      (match lastWriter k rest with | some v => some v | none => h.lookup k) := rfl

theorem lastWriter_nil_cons (k : String) (rest : List Hdrs) :
    lastWriter k ([] :: rest) = lastWriter k rest := by
  rw [lastWriter_cons]; cases lastWriter k rest <;> simp

/-- The head map matters only through its value at `k`. -/
theorem lastWriter_head_congr (k : String) (h h' : Hdrs) (rest : List Hdrs)
    (e : h.lookup k = h'.lookup k) : lastWriter k (h :: rest) = lastWriter k (h' :: rest) := by
  rw [lastWriter_cons, lastWriter_cons, e]

theorem lastWriter_merge (k : String) (a b : Hdrs) (rest : List Hdrs) :
    lastWriter k (merge a b :: rest) = lastWriter k (a :: b :: rest) := by
  rw [lastWriter_cons, lastWriter_cons, lastWriter_cons, lookup_merge]
  cases lastWriter k rest <;> cases b.lookup k <;> simp

/-! ### the request table -/

theorem reqPrio_isEarly (a b : ReqAct) : (reqPrio a b).isEarly = (a.isEarly || b.isEarly) := by
  cases a <;> cases b <;> simp [reqPrio, ReqAct.isEarly]

theorem reqPrio_isNoop (a b : ReqAct) : (reqPrio a b).isNoop = (a.isNoop && b.isNoop) := by
  cases a <;> cases b <;> simp [reqPrio, ReqAct.isNoop]

theorem reqPrio_early_left (a b : ReqAct) (h : a.isEarly = true) : reqPrio a b = a := by
  cases a <;> simp_all [reqPrio, ReqAct.isEarly]

theorem reqPrio_early_right (a b : ReqAct) (ha : a.isEarly = false) (hb : b.isEarly = true) :
    reqPrio a b = b := by
  cases a <;> cases b <;> simp_all [reqPrio, ReqAct.isEarly]

theorem reqPrio_noop_right (a : ReqAct) : reqPrio a .noop = a := by
  cases a <;> simp [reqPrio]

/-- Without an early response the header edits of the result are `MergeHeaders` of both. -/
theorem reqPrio_hdrs (a b : ReqAct) (ha : a.isEarly = false) (hb : b.isEarly = false) (k : String) :
    (reqPrio a b).hdrs.lookup k = (merge a.hdrs b.hdrs).lookup k := by
  cases a <;> cases b <;>
    simp_all [reqPrio, ReqAct.isEarly, ReqAct.hdrs, merge_nil_left, lookup_merge]

theorem isMod_of_not (a : ReqAct) (h1 : a.isEarly = false) (h2 : a.isNoop = false) : a.isMod = true := by
  cases a <;> simp_all [ReqAct.isEarly, ReqAct.isNoop, ReqAct.isMod]

/-! ### the request fold -/

theorem foldl_reqPrio_early (a : ReqAct) (h : a.isEarly = true) (as : List ReqAct) :
    as.foldl reqPrio a = a := by
  induction as with
  | nil => rfl
  | cons x xs ih => rw [List.foldl_cons, reqPrio_early_left a x h, ih]

theorem foldl_reqPrio_isEarly (acc : ReqAct) (as : List ReqAct) :
    (as.foldl reqPrio acc).isEarly = (acc.isEarly || as.any (·.isEarly)) := by
  induction as generalizing acc with
  | nil => simp
  | cons x xs ih => rw [List.foldl_cons, ih, reqPrio_isEarly]; simp [Bool.or_assoc]

theorem foldl_reqPrio_isNoop (acc : ReqAct) (as : List ReqAct) :
    (as.foldl reqPrio acc).isNoop = (acc.isNoop && as.all (·.isNoop)) := by
  induction as generalizing acc with
  | nil => simp
  | cons x xs ih => rw [List.foldl_cons, ih, reqPrio_isNoop]; simp [Bool.and_assoc]

theorem foldl_reqPrio_first_early (acc : ReqAct) (pre post : List ReqAct) (e : ReqAct)
    (hacc : acc.isEarly = false) (hpre : ∀ a ∈ pre, a.isEarly = false) (he : e.isEarly = true) :
    (pre ++ e :: post).foldl reqPrio acc = e := by
  induction pre generalizing acc with
  | nil =>
    rw [List.nil_append, List.foldl_cons, reqPrio_early_right acc e hacc he]
    exact foldl_reqPrio_early e he post
  | cons x xs ih =>
    rw [List.cons_append, List.foldl_cons]
    apply ih
    · rw [reqPrio_isEarly, hacc, hpre x (List.mem_cons_self ..)]; rfl
    · intro a ha; exact hpre a (List.mem_cons_of_mem _ ha)

theorem foldl_reqPrio_hdrs (acc : ReqAct) (as : List ReqAct) (hacc : acc.isEarly = false)
    (has : ∀ a ∈ as, a.isEarly = false) (k : String) :
    (as.foldl reqPrio acc).hdrs.lookup k = lastWriter k (acc.hdrs :: as.map (·.hdrs)) := by
  induction as generalizing acc with
  | nil => simp [lastWriter]
  | cons x xs ih =>
    have hx := has x (List.mem_cons_self ..)
    rw [List.foldl_cons, ih]
    · rw [List.map_cons, ← lastWriter_merge]
      exact lastWriter_head_congr k _ _ _ (reqPrio_hdrs acc x hacc hx k)
    · rw [reqPrio_isEarly, hacc, hx]; rfl
    · intro a ha; exact has a (List.mem_cons_of_mem _ ha)

theorem firstEarly_none (as : List ReqAct) (h : firstEarly as = none) : ∀ a ∈ as, a.isEarly = false := by
  induction as with
  | nil => intro a ha; cases ha
  | cons x xs ih =>
    intro a ha
    simp only [firstEarly] at h
    by_cases hx : x.isEarly = true
    · simp [hx] at h
    · simp only [hx] at h
      rcases List.mem_cons.mp ha with rfl | ha
      · simpa using hx
      · exact ih (by simpa using h) a ha

theorem firstEarly_some (as : List ReqAct) (e : ReqAct) (h : firstEarly as = some e) :
    ∃ pre post, as = pre ++ e :: post ∧ (∀ a ∈ pre, a.isEarly = false) ∧ e.isEarly = true := by
  induction as with
  | nil => simp [firstEarly] at h
  | cons x xs ih =>
    simp only [firstEarly] at h
    by_cases hx : x.isEarly = true
    · simp only [hx, if_true, Option.some.injEq] at h
      subst h
      exact ⟨[], xs, rfl, (by intro a ha; cases ha), hx⟩
    · simp only [hx] at h
      obtain ⟨pre, post, rfl, hpre, he⟩ := ih (by simpa using h)
      refine ⟨x :: pre, post, rfl, ?_, he⟩
      intro a ha
      rcases List.mem_cons.mp ha with rfl | ha
      · simpa using hx
      · exact hpre a ha

/-! ### `sim` is reflexive -/

theorem isPerm_refl (h : Hdrs) : h.isPerm h = true := List.isPerm_iff.mpr (List.Perm.refl h)

theorem ReqAct.sim_refl (a : ReqAct) : a.sim a = true := by
  cases a <;> simp [ReqAct.sim, isPerm_refl]

theorem RespAct.sim_refl (a : RespAct) : a.sim a = true := by
  cases a <;> simp [RespAct.sim, isPerm_refl]

/-! ### the request rule holds of the fold -/

theorem hdrsUnion_of_lookup (ins : List Hdrs) (out : Hdrs)
    (h : ∀ k, out.lookup k = lastWriter k ins) : hdrsUnion ins out = true := by
  unfold hdrsUnion
  rw [List.all_eq_true]
  intro k _
  simp [h k]

theorem reqFoldOk_foldReq (as : List ReqAct) : reqFoldOk as (foldReq as) = true := by
  unfold reqFoldOk foldReq
  cases hfe : firstEarly as with
  | some e =>
    obtain ⟨pre, post, rfl, hpre, he⟩ := firstEarly_some as e hfe
    simp only
    rw [foldl_reqPrio_first_early .noop pre post e rfl hpre he]
    exact ReqAct.sim_refl e
  | none =>
    have hno := firstEarly_none as hfe
    have hE : (as.foldl reqPrio .noop).isEarly = false := by
      rw [foldl_reqPrio_isEarly]
      have h0 : ReqAct.noop.isEarly = false := rfl
      rw [h0, Bool.false_or, List.any_eq_false]
      intro a ha; simp [hno a ha]
    have hN := foldl_reqPrio_isNoop .noop as
    have h1 : ReqAct.noop.isNoop = true := rfl
    rw [h1, Bool.true_and] at hN
    have hU : hdrsUnion (as.map (·.hdrs)) (as.foldl reqPrio .noop).hdrs = true := by
      apply hdrsUnion_of_lookup
      intro k
      rw [foldl_reqPrio_hdrs .noop as rfl hno k]
      exact lastWriter_nil_cons k _
    have hM : ((as.foldl reqPrio .noop).isNoop || (as.foldl reqPrio .noop).isMod) = true := by
      cases hn : (as.foldl reqPrio .noop).isNoop
      · simp [isMod_of_not _ hE hn]
      · simp
    rw [hN]; simp [hE, hU, hM, ← hN]

/-- The rule from its ingredients (no early response among `ins`). -/
theorem reqFoldOk_of (ins : List ReqAct) (out : ReqAct) (hfe : firstEarly ins = none)
    (hE : out.isEarly = false) (hN : out.isNoop = ins.all (·.isNoop))
    (hH : ∀ k, out.hdrs.lookup k = lastWriter k (ins.map (·.hdrs))) : reqFoldOk ins out = true := by
  unfold reqFoldOk
  rw [hfe]
  have hU := hdrsUnion_of_lookup _ _ hH
  have hM : (out.isNoop || out.isMod) = true := by
    cases hn : out.isNoop
    · simp [isMod_of_not _ hE hn]
    · simp
  rw [hN] at hM
  simp only [hE, hU, hM, hN, Bool.not_false, Bool.true_and, Bool.and_true, beq_self_eq_true]

/-! ### reading a header dump back -/

theorem linesOf_ne_nil (cs : List Char) : linesOf cs ≠ [] := by
  induction cs with
  | nil => simp [linesOf]
  | cons c cs ih =>
    unfold linesOf
    by_cases hc : c = '\n'
    · simp [hc]
    · simp only [hc, if_false]
      cases h : linesOf cs <;> simp

theorem linesOf_line (l rest : List Char) (hl : '\n' ∉ l) :
    linesOf (l ++ '\n' :: rest) = l :: linesOf rest := by
  induction l with
  | nil => simp [linesOf]
  | cons c cs ih =>
    have hc : c ≠ '\n' := fun e => hl (by simp [e])
    have hcs : '\n' ∉ cs := fun e => hl (List.mem_cons_of_mem _ e)
    rw [List.cons_append, linesOf]
    simp only [hc, if_false]
    rw [ih hcs]

theorem splitColon_line (k v : List Char) (hk : ':' ∉ k) : splitColon (k ++ ':' :: v) = some (k, v) := by
  induction k with
  | nil => simp [splitColon]
  | cons c cs ih =>
    have hc : c ≠ ':' := fun e => hk (by simp [e])
    have hcs : ':' ∉ cs := fun e => hk (List.mem_cons_of_mem _ e)
    rw [List.cons_append, splitColon]
    simp only [hc, if_false]
    rw [ih hcs]

/-- Guard on characters. -/
def charsSafe (h : List (List Char × List Char)) : Prop :=
  ∀ kv ∈ h, ':' ∉ kv.1 ∧ '\n' ∉ kv.1 ∧ '\n' ∉ kv.2

theorem parse_flatMap (h : List (List Char × List Char)) (hs : charsSafe h) :
    parseDumpChars (h.flatMap fun kv => kv.1 ++ ':' :: kv.2 ++ ['\n']) = h := by
  induction h with
  | nil => simp [parseDumpChars, linesOf, splitColon]
  | cons p ps ih =>
    obtain ⟨k, v⟩ := p
    obtain ⟨h1, h2, h3⟩ := hs (k, v) (List.mem_cons_self ..)
    have hps : charsSafe ps := fun kv hkv => hs kv (List.mem_cons_of_mem _ hkv)
    have hline : '\n' ∉ k ++ ':' :: v := by
      intro hm
      rcases List.mem_append.mp hm with hm | hm
      · exact h2 hm
      · rcases List.mem_cons.mp hm with hm | hm
        · exact absurd hm (by decide)
        · exact h3 hm
    have e : (k ++ ':' :: v ++ ['\n']) ++ (ps.flatMap fun kv => kv.1 ++ ':' :: kv.2 ++ ['\n'])
        = (k ++ ':' :: v) ++ '\n' :: (ps.flatMap fun kv => kv.1 ++ ':' :: kv.2 ++ ['\n']) := by
      simp [List.append_assoc]
    rw [List.flatMap_cons]
    show parseDumpChars ((k ++ ':' :: v ++ ['\n']) ++ _) = _
    rw [e]
    unfold parseDumpChars
    rw [linesOf_line _ _ hline, List.filterMap_cons, splitColon_line k v h1]
    have := ih hps
    unfold parseDumpChars at this
    simp only [this]

theorem parse_dumpChars (h : List (List Char × List Char)) (hs : charsSafe h) :
    parseDumpChars (dumpChars h) = h := by
  cases h with
  | nil => simp [dumpChars, parseDumpChars, linesOf, splitColon]
  | cons p ps => exact parse_flatMap (p :: ps) hs

theorem contains_false_not_mem (l : List Char) (c : Char) (h : l.contains c = false) : c ∉ l := by
  intro hm
  have : l.contains c = true := List.contains_iff_mem.mpr hm
  rw [h] at this; cases this

theorem not_mem_of_all_tchar (l : List Char) (c : Char) (hc : isTchar c = false) (h : l.all isTchar = true) :
    c ∉ l := by
  intro hm
  have := List.all_eq_true.mp h c hm
  rw [hc] at this; cases this

/-- What is written for the (sanitized) header map reads back as exactly that map — for EVERY map. -/
theorem parse_dumpHeaders (h : Hdrs) : parseHeaders (dumpHeaders h) = sanitizeHdrs h := by
  unfold parseHeaders dumpHeaders
  rw [String.toList_ofList, parse_dumpChars]
  · rw [List.map_map]
    have : ((fun kv : List Char × List Char => (String.ofList kv.1, String.ofList kv.2)) ∘
        fun kv : String × String => (kv.1.toList, kv.2.toList)) = id := by
      funext kv; simp [String.ofList_toList]
    rw [this, List.map_id]
  · intro kv hkv
    obtain ⟨p, hp, rfl⟩ := List.mem_map.mp hkv
    unfold sanitizeHdrs at hp
    obtain ⟨q, hq, rfl⟩ := List.mem_map.mp hp
    have hv : validName q.1 = true := by simpa using (List.mem_filter.mp hq).2
    unfold validName at hv
    simp only [Bool.and_eq_true] at hv
    refine ⟨not_mem_of_all_tchar _ ':' (by decide) hv.2, not_mem_of_all_tchar _ '\n' (by decide) hv.2, ?_⟩
    simp only [stripCRLF, String.toList_ofList]
    intro hm
    have := (List.mem_filter.mp hm).2
    simp at this

/-! ### sanitizing read through `lookup` -/

theorem lookup_sanitize (h : Hdrs) (k : String) :
    (sanitizeHdrs h).lookup k = if validName k then (h.lookup k).map stripCRLF else none := by
  unfold sanitizeHdrs
  induction h with
  | nil => simp
  | cons p rest ih =>
    obtain ⟨pk, pv⟩ := p
    by_cases hk : k = pk
    · subst hk
      by_cases hv : validName k = true
      · simp [List.filter, hv]
      · have hv' : validName k = false := by simpa using hv
        simp only [List.filter, hv']
        rw [ih]; simp [hv']
    · have hne : (k == pk) = false := by simpa using hk
      by_cases hv : validName pk = true
      · simp only [List.filter, hv, List.map_cons, List.lookup_cons, hne]
        rw [ih]
      · have hv' : validName pk = false := by simpa using hv
        simp only [List.filter, hv', List.lookup_cons, hne]
        rw [ih]

theorem lastWriter_sanitize (k : String) (hs : List Hdrs) :
    lastWriter k (hs.map sanitizeHdrs) = if validName k then (lastWriter k hs).map stripCRLF else none := by
  induction hs with
  | nil => simp [lastWriter]
  | cons h rest ih =>
    rw [List.map_cons, lastWriter_cons, lastWriter_cons, ih, lookup_sanitize]
    by_cases hv : validName k = true
    · simp only [hv, if_true]
      cases lastWriter k rest <;> simp
    · have hv' : validName k = false := by simpa using hv
      simp [hv']

theorem sanitize_of_valid (h : Hdrs) (hv : hdrsValid h = true) : sanitizeHdrs h = h := by
  unfold hdrsValid at hv
  rw [List.all_eq_true] at hv
  unfold sanitizeHdrs
  have hf : h.filter (fun kv => validName kv.1) = h := by
    rw [List.filter_eq_self]
    intro p hp
    have := hv p hp
    simp only [Bool.and_eq_true] at this
    exact this.1.1
  rw [hf]
  have : ∀ p ∈ h, (fun kv : String × String => (kv.1, stripCRLF kv.2)) p = p := by
    intro p hp
    have := hv p hp
    simp only [Bool.and_eq_true, Bool.not_eq_true'] at this
    have hfil : (p.2.toList.filter fun c => c != '\r' && c != '\n') = p.2.toList := by
      rw [List.filter_eq_self]
      intro c hc
      have h1 : c ≠ '\r' := fun e => contains_false_not_mem _ _ this.1.2 (e ▸ hc)
      have h2 : c ≠ '\n' := fun e => contains_false_not_mem _ _ this.2 (e ▸ hc)
      simp [h1, h2]
    show (p.1, stripCRLF p.2) = p
    unfold stripCRLF
    rw [hfil, String.ofList_toList]
  calc h.map _ = h.map id := List.map_congr_left this
    _ = h := List.map_id h

theorem ReqAct.sanitized_hdrs (a : ReqAct) : a.sanitized.hdrs = sanitizeHdrs a.hdrs := by
  cases a <;> simp [ReqAct.sanitized, ReqAct.hdrs, sanitizeHdrs]

theorem RespAct.sanitized_hdrs (a : RespAct) : a.sanitized.hdrs = sanitizeHdrs a.hdrs := by
  cases a <;> simp [RespAct.sanitized, RespAct.hdrs, sanitizeHdrs]

theorem ReqAct.sanitized_isEarly (a : ReqAct) : a.sanitized.isEarly = a.isEarly := by
  cases a <;> rfl
theorem ReqAct.sanitized_isNoop (a : ReqAct) : a.sanitized.isNoop = a.isNoop := by
  cases a <;> rfl
theorem ReqAct.sanitized_isMod (a : ReqAct) : a.sanitized.isMod = a.isMod := by
  cases a <;> rfl
theorem RespAct.sanitized_isNoop (a : RespAct) : a.sanitized.isNoop = a.isNoop := by
  cases a <;> rfl
theorem RespAct.sanitized_isMod (a : RespAct) : a.sanitized.isMod = a.isMod := by
  cases a <;> rfl
theorem RespAct.sanitized_isRetry (a : RespAct) : a.sanitized.isRetry = a.isRetry := by
  cases a <;> rfl

theorem ReqAct.sanitized_of_valid (a : ReqAct) (hv : hdrsValid a.hdrs = true) : a.sanitized = a := by
  cases a <;> simp_all [ReqAct.sanitized, ReqAct.hdrs, sanitize_of_valid]

theorem RespAct.sanitized_of_valid (a : RespAct) (hv : hdrsValid a.hdrs = true) : a.sanitized = a := by
  cases a <;> simp_all [RespAct.sanitized, RespAct.hdrs, sanitize_of_valid]

theorem firstEarly_map_sanitized (as : List ReqAct) :
    firstEarly (as.map (·.sanitized)) = (firstEarly as).map (·.sanitized) := by
  induction as with
  | nil => rfl
  | cons x xs ih =>
    simp only [List.map_cons, firstEarly, ReqAct.sanitized_isEarly]
    by_cases hx : x.isEarly = true
    · simp [hx]
    · simp [hx, ih]

/-! ### decoding the encoding -/

theorem decodeReq_encodeReq (a : ReqAct) : decodeReq (encodeReq a) = some a.sanitized.eraseRm := by
  cases a with
  | noop => simp [encodeReq, decodeReq, ReqAct.eraseRm, ReqAct.sanitized]
  | early s b h =>
    simp [encodeReq, decodeReq, getVar, ReqAct.eraseRm, ReqAct.sanitized, parse_dumpHeaders h]
  | modHdr h =>
    simp [encodeReq, decodeReq, getVar, ReqAct.eraseRm, ReqAct.sanitized, parse_dumpHeaders h]
  | genReq h rm b =>
    simp [encodeReq, decodeReq, getVar, ReqAct.eraseRm, ReqAct.sanitized, parse_dumpHeaders h]
  | modReq h host path q b =>
    by_cases h1 : path = "" <;> by_cases h2 : q = "" <;> by_cases h3 : host = "" <;> by_cases h4 : b = "" <;>
      simp [encodeReq, decodeReq, getVar, getText, ReqAct.eraseRm, ReqAct.sanitized, parse_dumpHeaders h, h1, h2, h3, h4]

theorem decodeResp_encodeResp (a : RespAct) : decodeResp (encodeResp a) = some a.sanitized := by
  cases a with
  | noop => simp [encodeResp, decodeResp, RespAct.sanitized]
  | modResp h b s => simp [encodeResp, decodeResp, getVar, RespAct.sanitized, parse_dumpHeaders h]
  | retry h => simp [encodeResp, decodeResp, getVar, RespAct.sanitized, parse_dumpHeaders h]

/-! ### the response table and fold -/

theorem respPrio_isNoop (a b : RespAct) : (respPrio a b).isNoop = (a.isNoop && b.isNoop) := by
  cases a <;> cases b <;> simp [respPrio, RespAct.isNoop]

theorem respPrio_noop_right (a : RespAct) : respPrio a .noop = a := by
  cases a <;> simp [respPrio]

theorem respPrio_isRetry_of_noRetry (a b : RespAct) (ha : a.isRetry = false) (hb : b.isRetry = false) :
    (respPrio a b).isRetry = false := by
  cases a <;> cases b <;> simp_all [respPrio, RespAct.isRetry]

theorem respPrio_isMod_of_noMod (a b : RespAct) (ha : a.isMod = false) (hb : b.isMod = false) :
    (respPrio a b).isMod = false := by
  cases a <;> cases b <;> simp_all [respPrio, RespAct.isMod]

theorem respPrio_hdrs_noRetry (a b : RespAct) (ha : a.isRetry = false) (hb : b.isRetry = false) (k : String) :
    (respPrio a b).hdrs.lookup k = (merge a.hdrs b.hdrs).lookup k := by
  cases a <;> cases b <;>
    simp_all [respPrio, RespAct.isRetry, RespAct.hdrs, merge_nil_left, lookup_merge]

theorem respPrio_hdrs_noMod (a b : RespAct) (ha : a.isMod = false) (hb : b.isMod = false) (k : String) :
    (respPrio a b).hdrs.lookup k = (merge a.hdrs b.hdrs).lookup k := by
  cases a <;> cases b <;>
    simp_all [respPrio, RespAct.isMod, RespAct.hdrs, merge_nil_left, lookup_merge]

/-- The later of a modification and a retry wins (as coded): the kind of the result is the kind
    of the action just combined, unless that one is a no-op. -/
theorem respPrio_kind (a b : RespAct) (hb : b.isNoop = false) :
    (respPrio a b).isMod = b.isMod ∧ (respPrio a b).isRetry = b.isRetry := by
  cases a <;> cases b <;> simp_all [respPrio, RespAct.isMod, RespAct.isRetry, RespAct.isNoop]

theorem foldl_respPrio_isNoop (acc : RespAct) (as : List RespAct) :
    (as.foldl respPrio acc).isNoop = (acc.isNoop && as.all (·.isNoop)) := by
  induction as generalizing acc with
  | nil => simp
  | cons x xs ih => rw [List.foldl_cons, ih, respPrio_isNoop]; simp [Bool.and_assoc]

theorem foldl_respPrio_noRetry (acc : RespAct) (as : List RespAct) (hacc : acc.isRetry = false)
    (has : ∀ a ∈ as, a.isRetry = false) (k : String) :
    (as.foldl respPrio acc).isRetry = false ∧
    (as.foldl respPrio acc).hdrs.lookup k = lastWriter k (acc.hdrs :: as.map (·.hdrs)) := by
  induction as generalizing acc with
  | nil => simp [lastWriter, hacc]
  | cons x xs ih =>
    have hx := has x (List.mem_cons_self ..)
    rw [List.foldl_cons]
    have := ih (respPrio acc x) (respPrio_isRetry_of_noRetry acc x hacc hx)
      (fun a ha => has a (List.mem_cons_of_mem _ ha))
    refine ⟨this.1, ?_⟩
    rw [this.2, List.map_cons, ← lastWriter_merge]
    exact lastWriter_head_congr k _ _ _ (respPrio_hdrs_noRetry acc x hacc hx k)

theorem foldl_respPrio_noMod (acc : RespAct) (as : List RespAct) (hacc : acc.isMod = false)
    (has : ∀ a ∈ as, a.isMod = false) (k : String) :
    (as.foldl respPrio acc).isMod = false ∧
    (as.foldl respPrio acc).hdrs.lookup k = lastWriter k (acc.hdrs :: as.map (·.hdrs)) := by
  induction as generalizing acc with
  | nil => simp [lastWriter, hacc]
  | cons x xs ih =>
    have hx := has x (List.mem_cons_self ..)
    rw [List.foldl_cons]
    have := ih (respPrio acc x) (respPrio_isMod_of_noMod acc x hacc hx)
      (fun a ha => has a (List.mem_cons_of_mem _ ha))
    refine ⟨this.1, ?_⟩
    rw [this.2, List.map_cons, ← lastWriter_merge]
    exact lastWriter_head_congr k _ _ _ (respPrio_hdrs_noMod acc x hacc hx k)

theorem nonNoop_all_isMod (ins : List RespAct) :
    (ins.filter (!·.isNoop)).all (·.isMod) = ins.all (!·.isRetry) := by
  induction ins with
  | nil => rfl
  | cons x xs ih => cases x <;> simp_all [List.filter, RespAct.isNoop, RespAct.isMod, RespAct.isRetry]

theorem nonNoop_all_isRetry (ins : List RespAct) :
    (ins.filter (!·.isNoop)).all (·.isRetry) = ins.all (!·.isMod) := by
  induction ins with
  | nil => rfl
  | cons x xs ih => cases x <;> simp_all [List.filter, RespAct.isNoop, RespAct.isMod, RespAct.isRetry]

theorem nonNoop_isEmpty (ins : List RespAct) :
    (ins.filter (!·.isNoop)).isEmpty = ins.all (·.isNoop) := by
  induction ins with
  | nil => rfl
  | cons x xs ih => cases x <;> simp_all [List.filter, RespAct.isNoop]

theorem resp_kind3 (a : RespAct) (h1 : a.isNoop = false) (h2 : a.isRetry = false) : a.isMod = true := by
  cases a <;> simp_all [RespAct.isNoop, RespAct.isRetry, RespAct.isMod]

theorem resp_kind3' (a : RespAct) (h1 : a.isNoop = false) (h2 : a.isMod = false) : a.isRetry = true := by
  cases a <;> simp_all [RespAct.isNoop, RespAct.isRetry, RespAct.isMod]

theorem respRuleOk_foldResp (as : List RespAct) : respRuleOk as (foldResp as) = true := by
  have hN : (foldResp as).isNoop = as.all (·.isNoop) := by
    unfold foldResp; rw [foldl_respPrio_isNoop]; rfl
  unfold respRuleOk
  simp only [Bool.and_eq_true]
  refine ⟨?_, ?_, ?_⟩
  · rw [hN]; simp
  · rw [nonNoop_all_isMod, nonNoop_isEmpty, ← hN]
    cases hall : as.all (!·.isRetry)
    · simp
    · have hall' : ∀ x ∈ as, x.isRetry = false := by
        intro x hx; have := List.all_eq_true.mp hall x hx; simpa using this
      have hU : hdrsUnion (as.map (·.hdrs)) (foldResp as).hdrs = true := by
        apply hdrsUnion_of_lookup; intro k
        show List.lookup k (List.foldl respPrio RespAct.noop as).hdrs = _
        rw [(foldl_respPrio_noRetry .noop as rfl hall' k).2]
        exact lastWriter_nil_cons k _
      have hR := (foldl_respPrio_noRetry .noop as rfl hall' "").1
      cases hn : (foldResp as).isNoop
      · rw [resp_kind3 _ hn hR, hU]; rfl
      · rw [hU]; rfl
  · rw [nonNoop_all_isRetry, nonNoop_isEmpty, ← hN]
    cases hall : as.all (!·.isMod)
    · simp
    · have hall' : ∀ x ∈ as, x.isMod = false := by
        intro x hx; have := List.all_eq_true.mp hall x hx; simpa using this
      have hU : hdrsUnion (as.map (·.hdrs)) (foldResp as).hdrs = true := by
        apply hdrsUnion_of_lookup; intro k
        show List.lookup k (List.foldl respPrio RespAct.noop as).hdrs = _
        rw [(foldl_respPrio_noMod .noop as rfl hall' k).2]
        exact lastWriter_nil_cons k _
      have hR := (foldl_respPrio_noMod .noop as rfl hall' "").1
      cases hn : (foldResp as).isNoop
      · rw [resp_kind3' _ hn hR, hU]; rfl
      · rw [hU]; rfl

theorem respFoldOk_foldResp (pre : List RespAct) (a : RespAct) :
    respFoldOk (pre ++ [a]) (foldResp pre) (foldResp (pre ++ [a])) = true := by
  have hout : foldResp (pre ++ [a]) = respPrio (foldResp pre) a := by
    simp [foldResp, List.foldl_append]
  unfold respFoldOk
  rw [respRuleOk_foldResp]
  simp only [List.getLast?_append, List.getLast?_singleton, Option.some_or, Bool.and_true]
  cases ha : a.isNoop
  · simp
  · have : a = .noop := by cases a <;> simp_all [RespAct.isNoop]
    subst this
    rw [hout, respPrio_noop_right]; simp [RespAct.sim_refl]

/-- The rule does not look at `HeadersToRemove`. -/
theorem reqFoldOk_eraseRm (ins : List ReqAct) (out : ReqAct) (h : reqFoldOk ins out = true) :
    reqFoldOk ins out.eraseRm = true := by
  cases out <;> first | exact h | skip
  rename_i hd rm b
  unfold reqFoldOk at h ⊢
  cases hfe : firstEarly ins with
  | none => simpa [hfe, ReqAct.eraseRm, ReqAct.isEarly, ReqAct.isNoop, ReqAct.isMod, ReqAct.hdrs] using h
  | some e =>
    rw [hfe] at h
    obtain ⟨_, _, _, _, he⟩ := firstEarly_some ins e hfe
    cases e <;> simp_all [ReqAct.sim, ReqAct.isEarly]

/-! ### the rule holds of the SANITIZED fold for the sanitized inputs (what a fold site shows) -/

theorem map_sanitized_hdrs (as : List ReqAct) :
    (as.map (·.sanitized)).map (·.hdrs) = (as.map (·.hdrs)).map sanitizeHdrs := by
  rw [List.map_map, List.map_map]
  apply List.map_congr_left
  intro a _; exact ReqAct.sanitized_hdrs a

theorem map_sanitized_hdrs_resp (as : List RespAct) :
    (as.map (·.sanitized)).map (·.hdrs) = (as.map (·.hdrs)).map sanitizeHdrs := by
  rw [List.map_map, List.map_map]
  apply List.map_congr_left
  intro a _; exact RespAct.sanitized_hdrs a

theorem all_isNoop_map_sanitized (as : List ReqAct) :
    (as.map (·.sanitized)).all (·.isNoop) = as.all (·.isNoop) := by
  rw [List.all_map]; congr 1; funext x; exact ReqAct.sanitized_isNoop x

theorem reqFoldOk_sanitized (as : List ReqAct) :
    reqFoldOk (as.map (·.sanitized)) (foldReq as).sanitized = true := by
  cases hfe : firstEarly as with
  | some e =>
    obtain ⟨pre, post, rfl, hpre, he⟩ := firstEarly_some as e hfe
    unfold reqFoldOk
    rw [firstEarly_map_sanitized, hfe]
    simp only [Option.map_some]
    have : foldReq (pre ++ e :: post) = e := foldl_reqPrio_first_early .noop pre post e rfl hpre he
    rw [this]; exact ReqAct.sim_refl _
  | none =>
    have hno := firstEarly_none as hfe
    apply reqFoldOk_of
    · rw [firstEarly_map_sanitized, hfe]; rfl
    · rw [ReqAct.sanitized_isEarly]
      show (List.foldl reqPrio .noop as).isEarly = false
      rw [foldl_reqPrio_isEarly]
      have h0 : ReqAct.noop.isEarly = false := rfl
      rw [h0, Bool.false_or, List.any_eq_false]
      intro a ha; simp [hno a ha]
    · rw [ReqAct.sanitized_isNoop, all_isNoop_map_sanitized]
      have := foldl_reqPrio_isNoop .noop as
      have h1 : ReqAct.noop.isNoop = true := rfl
      rw [h1, Bool.true_and] at this
      exact this
    · intro k
      rw [ReqAct.sanitized_hdrs, lookup_sanitize, map_sanitized_hdrs, lastWriter_sanitize]
      have : (foldReq as).hdrs.lookup k = lastWriter k (as.map (·.hdrs)) := by
        show List.lookup k (List.foldl reqPrio .noop as).hdrs = _
        rw [foldl_reqPrio_hdrs .noop as rfl hno k]; exact lastWriter_nil_cons k _
      rw [this]

/-- The response rule from its ingredients. -/
theorem respRuleOk_of (ins : List RespAct) (out : RespAct)
    (hN : out.isNoop = ins.all (·.isNoop))
    (hMod : (∀ x ∈ ins, x.isRetry = false) →
      out.isRetry = false ∧ ∀ k, out.hdrs.lookup k = lastWriter k (ins.map (·.hdrs)))
    (hRet : (∀ x ∈ ins, x.isMod = false) →
      out.isMod = false ∧ ∀ k, out.hdrs.lookup k = lastWriter k (ins.map (·.hdrs))) :
    respRuleOk ins out = true := by
  unfold respRuleOk
  simp only [Bool.and_eq_true]
  refine ⟨?_, ?_, ?_⟩
  · rw [hN]; simp
  · rw [nonNoop_all_isMod, nonNoop_isEmpty, ← hN]
    cases hall : ins.all (!·.isRetry)
    · simp
    · have hall' : ∀ x ∈ ins, x.isRetry = false := by
        intro x hx; have := List.all_eq_true.mp hall x hx; simpa using this
      obtain ⟨hR, hH⟩ := hMod hall'
      have hU := hdrsUnion_of_lookup _ _ hH
      cases hn : out.isNoop
      · rw [resp_kind3 _ hn hR, hU]; rfl
      · rw [hU]; rfl
  · rw [nonNoop_all_isRetry, nonNoop_isEmpty, ← hN]
    cases hall : ins.all (!·.isMod)
    · simp
    · have hall' : ∀ x ∈ ins, x.isMod = false := by
        intro x hx; have := List.all_eq_true.mp hall x hx; simpa using this
      obtain ⟨hR, hH⟩ := hRet hall'
      have hU := hdrsUnion_of_lookup _ _ hH
      cases hn : out.isNoop
      · rw [resp_kind3' _ hn hR, hU]; rfl
      · rw [hU]; rfl

theorem respRuleOk_sanitized (as : List RespAct) :
    respRuleOk (as.map (·.sanitized)) (foldResp as).sanitized = true := by
  apply respRuleOk_of
  · rw [RespAct.sanitized_isNoop, List.all_map]
    have : (foldResp as).isNoop = as.all (·.isNoop) := by
      unfold foldResp; rw [foldl_respPrio_isNoop]; rfl
    rw [this]; congr 1; funext x; exact (RespAct.sanitized_isNoop x).symm
  · intro hall
    have hall' : ∀ x ∈ as, x.isRetry = false := by
      intro x hx
      have := hall x.sanitized (List.mem_map_of_mem hx)
      rwa [RespAct.sanitized_isRetry] at this
    refine ⟨?_, ?_⟩
    · rw [RespAct.sanitized_isRetry]; exact (foldl_respPrio_noRetry .noop as rfl hall' "").1
    · intro k
      rw [RespAct.sanitized_hdrs, lookup_sanitize, map_sanitized_hdrs_resp, lastWriter_sanitize]
      have : (foldResp as).hdrs.lookup k = lastWriter k (as.map (·.hdrs)) := by
        show List.lookup k (List.foldl respPrio .noop as).hdrs = _
        rw [(foldl_respPrio_noRetry .noop as rfl hall' k).2]; exact lastWriter_nil_cons k _
      rw [this]
  · intro hall
    have hall' : ∀ x ∈ as, x.isMod = false := by
      intro x hx
      have := hall x.sanitized (List.mem_map_of_mem hx)
      rwa [RespAct.sanitized_isMod] at this
    refine ⟨?_, ?_⟩
    · rw [RespAct.sanitized_isMod]; exact (foldl_respPrio_noMod .noop as rfl hall' "").1
    · intro k
      rw [RespAct.sanitized_hdrs, lookup_sanitize, map_sanitized_hdrs_resp, lastWriter_sanitize]
      have : (foldResp as).hdrs.lookup k = lastWriter k (as.map (·.hdrs)) := by
        show List.lookup k (List.foldl respPrio .noop as).hdrs = _
        rw [(foldl_respPrio_noMod .noop as rfl hall' k).2]; exact lastWriter_nil_cons k _
      rw [this]

/-! ### the object-level fold -/

theorem reqStepH_spec (s : Store) (acc : Acc) (n : String) (a o : ReqAct)
    (hacc : acc.get s = some a) (ho : (s.lookup n).bind Obj.asReq = some o) :
    ∃ acc1, reqStepH s acc n = some acc1 ∧ acc1.get s = some (reqPrio a o) := by
  unfold reqStepH
  simp only [hacc, ho]
  cases a <;> cases o <;>
    first
    | exact ⟨.ref n, rfl, by simpa [Acc.get, reqPrio] using ho⟩
    | exact ⟨acc, rfl, by simpa [reqPrio] using hacc⟩
    | exact ⟨.val _, rfl, rfl⟩

/-- The fold on objects returns (a pointer to, or a fresh struct with) exactly the value of the
    fold on values — for ANY list of names, repeated or not; the store is never written. -/
theorem foldReqH_pure (ns : List String) : ∀ (s : Store) (acc : Acc) (a : ReqAct) (vals : List ReqAct),
    acc.get s = some a →
    ns.map (fun n => (s.lookup n).bind Obj.asReq) = vals.map some →
    ∃ acc', foldReqH s acc ns = some acc' ∧ acc'.get s = some (vals.foldl reqPrio a) := by
  induction ns with
  | nil =>
    intro s acc a vals hacc hv
    cases vals with
    | nil => exact ⟨acc, rfl, hacc⟩
    | cons _ _ => simp at hv
  | cons n ns ih =>
    intro s acc a vals hacc hv
    cases vals with
    | nil => simp at hv
    | cons o vals =>
      simp only [List.map_cons, List.cons.injEq] at hv
      obtain ⟨ho, hv⟩ := hv
      obtain ⟨acc1, hstep, hget1⟩ := reqStepH_spec s acc n a o hacc ho
      obtain ⟨acc', hfold, hget'⟩ := ih s acc1 (reqPrio a o) vals hget1 hv
      refine ⟨acc', ?_, by simpa using hget'⟩
      simp only [foldReqH, hstep]; exact hfold

/-! ### bytes -/

theorem all_bytes (P : UInt8 → Prop) (h : ∀ n, n < 256 → P (UInt8.ofNat n)) (b : UInt8) : P b := by
  have := h b.toNat b.toNat_lt
  simpa using this

theorem charByte_byteChar (b : UInt8) : charByte (byteChar b) = b := by
  apply all_bytes (fun b => charByte (byteChar b) = b)
  decide +kernel

theorem isTchar_byteChar (b : UInt8) : isTchar (byteChar b) = isTcharB b := by
  apply all_bytes (fun b => isTchar (byteChar b) = isTcharB b)
  decide +kernel

theorem keep_byteChar (b : UInt8) :
    (byteChar b != '\r' && byteChar b != '\n') = (b != 0x0D && b != 0x0A) := by
  apply all_bytes (fun b => (byteChar b != '\r' && byteChar b != '\n') = (b != 0x0D && b != 0x0A))
  decide +kernel

theorem toBytes_ofBytes (bs : Bytes) : toBytes (ofBytes bs) = bs := by
  unfold toBytes ofBytes
  rw [String.toList_ofList, List.map_map]
  have : (charByte ∘ byteChar) = id := by funext b; exact charByte_byteChar b
  rw [this, List.map_id]

theorem validName_ofBytes (k : Bytes) : validName (ofBytes k) = validNameB k := by
  unfold validName validNameB ofBytes
  rw [String.toList_ofList, List.all_map]
  have h1 : (k.map byteChar != []) = (k != []) := by cases k <;> rfl
  have h2 : (isTchar ∘ byteChar) = isTcharB := by funext b; exact isTchar_byteChar b
  rw [h1, h2]

theorem stripCRLF_ofBytes (v : Bytes) :
    stripCRLF (ofBytes v) = ofBytes (v.filter fun b => b != 0x0D && b != 0x0A) := by
  unfold stripCRLF ofBytes
  rw [String.toList_ofList, List.filter_map]
  have : ((fun c : Char => c != '\r' && c != '\n') ∘ byteChar) = fun b => b != 0x0D && b != 0x0A := by
    funext b; exact keep_byteChar b
  rw [this]

theorem sanitize_embed (h : List (Bytes × Bytes)) :
    sanitizeHdrs (h.map fun kv => (ofBytes kv.1, ofBytes kv.2))
      = (sanitizeB h).map fun kv => (ofBytes kv.1, ofBytes kv.2) := by
  unfold sanitizeHdrs sanitizeB
  rw [List.filter_map, List.map_map, List.map_map]
  have hf : ((fun kv : String × String => validName kv.1) ∘ fun kv : Bytes × Bytes => (ofBytes kv.1, ofBytes kv.2))
      = fun kv => validNameB kv.1 := by
    funext kv; exact validName_ofBytes kv.1
  rw [hf]
  apply List.map_congr_left
  intro kv _
  simp [stripCRLF_ofBytes]

theorem flatMap_embed (l : List (Bytes × Bytes)) :
    (l.map fun kv => (kv.1.map byteChar, kv.2.map byteChar)).flatMap
        (fun kv => kv.1 ++ ':' :: kv.2 ++ ['\n'])
      = (l.flatMap fun kv => kv.1 ++ 0x3A :: kv.2 ++ [0x0A]).map byteChar := by
  have hc : byteChar 0x3A = ':' := by decide
  have hn : byteChar 0x0A = '\n' := by decide
  induction l with
  | nil => rfl
  | cons p ps ih =>
    simp only [List.map_cons, List.flatMap_cons, List.map_append, ih]
    simp [hc, hn]

theorem dumpChars_embed (l : List (Bytes × Bytes)) :
    dumpChars (l.map fun kv => (kv.1.map byteChar, kv.2.map byteChar)) = (dumpSpecB l).map byteChar := by
  have hn : byteChar 0x0A = '\n' := by decide
  cases l with
  | nil => simp [dumpChars, dumpSpecB, hn]
  | cons p ps => exact flatMap_embed (p :: ps)

theorem dumpHeaders_embed (h : List (Bytes × Bytes)) :
    dumpHeaders (h.map fun kv => (ofBytes kv.1, ofBytes kv.2)) = ofBytes (dumpSpecB (sanitizeB h)) := by
  unfold dumpHeaders
  rw [sanitize_embed, List.map_map]
  have : ((fun kv : String × String => (kv.1.toList, kv.2.toList)) ∘ fun kv : Bytes × Bytes => (ofBytes kv.1, ofBytes kv.2))
      = fun kv => (kv.1.map byteChar, kv.2.map byteChar) := by
    funext kv; simp [ofBytes, String.toList_ofList]
  rw [this, dumpChars_embed]
  rfl

theorem dumpB_eq (h : List (Bytes × Bytes)) : dumpB h = dumpSpecB (sanitizeB h) := by
  unfold dumpB
  rw [dumpHeaders_embed, toBytes_ofBytes]

theorem parseB_dumpB (h : List (Bytes × Bytes)) : parseB (dumpB h) = sanitizeB h := by
  unfold parseB
  rw [dumpB_eq, ← dumpHeaders_embed, parse_dumpHeaders, sanitize_embed, List.map_map]
  have : ((fun kv : String × String => (toBytes kv.1, toBytes kv.2)) ∘ fun kv : Bytes × Bytes => (ofBytes kv.1, ofBytes kv.2))
      = id := by
    funext kv; simp [toBytes_ofBytes]
  rw [this, List.map_id]

/-! ### legacy mode -/

theorem foldl_merge_lookup (edits : List Hdrs) (h : Hdrs) (k : String) :
    (edits.foldl merge h).lookup k = lastWriter k (h :: edits) := by
  induction edits generalizing h with
  | nil => simp [lastWriter]
  | cons e es ih => rw [List.foldl_cons, ih, lastWriter_merge]

theorem rerun_foldl_eq (as : List RespAct) (h : Hdrs) :
    as.foldl ensureRespHdrs h = (respEdits as).foldl merge h := by
  induction as generalizing h with
  | nil => rfl
  | cons a as ih => cases a <;> simp [respEdits, ensureRespHdrs, ih]

theorem rerunEarly_of_not_early (rs : List Remedy) (a : ReqAct) (h : a.isEarly = false) :
    rerunEarly rs a = a := by
  cases a <;> simp_all [rerunEarly, ReqAct.isEarly]

theorem legacyReqHolds_legacyReq (env : ReqEnv) (rs : List Remedy) :
    legacyReqHolds env rs (encodeReq (legacyReq env rs)) = true := by
  unfold legacyReqHolds legacyReq legacyFoldReq
  simp only [decodeReq_encodeReq]
  cases hfe : firstEarly (scriptReq env rs) with
  | none =>
    have hno := firstEarly_none _ hfe
    have hE : (foldReq (scriptReq env rs)).isEarly = false := by
      show (List.foldl reqPrio .noop _).isEarly = false
      rw [foldl_reqPrio_isEarly]
      have h0 : ReqAct.noop.isEarly = false := rfl
      rw [h0, Bool.false_or, List.any_eq_false]
      intro a ha; simp [hno a ha]
    rw [rerunEarly_of_not_early _ _ hE]
    exact reqFoldOk_eraseRm _ _ (reqFoldOk_sanitized _)
  | some e =>
    obtain ⟨pre, post, hsplit, hpre, he⟩ := firstEarly_some _ e hfe
    have hf : foldReq (scriptReq env rs) = e := by
      rw [hsplit]; exact foldl_reqPrio_first_early .noop pre post e rfl hpre he
    rw [hf]
    cases e with
    | early s b h =>
      simp only [rerunEarly, ReqAct.sanitized, ReqAct.eraseRm, beq_self_eq_true, Bool.true_and]
      apply hdrsUnion_of_lookup
      intro k
      rw [lookup_sanitize, rerun_foldl_eq, foldl_merge_lookup, lastWriter_sanitize]
    | _ => simp [ReqAct.isEarly] at he

/-- One legacy transaction against the shared plugins: a request (its headers, the remedies) or a
    provider response (status, body, headers, the remedies). -/
inductive Txn where
  | req (h : Hdrs) (rs : List Remedy)
  | resp (status : Int) (body : String) (h : Hdrs) (rs : List Remedy)

/-- The judge predicate over a sequence of legacy transactions run by the model against the same
    plugins; the plugin state (authentication caches, response cache) is threaded by
    `envAfter` / `envAfterResp`. -/
def legacySeqHolds (st : ReqEnv) : List Txn → Bool
  | [] => true
  | .req h rs :: ts =>
    let env : ReqEnv := { st with hdrs := h }
    legacyReqHolds env rs (encodeReq (legacyReq env rs)) && legacySeqHolds (envAfter env rs) ts
  | .resp s b h rs :: ts =>
    legacyRespHolds s rs (encodeResp (legacyResp s rs)) && legacySeqHolds (envAfterResp st s b h rs) ts

/-! ### the observable history of a model run (what `lvdriver_c07 run` prints, step by step) -/

/-- What the driver's `run` prints for a request fold over `as` (every prefix observed) … -/
def reqHistory (as : List ReqAct) : List Obs :=
  (List.range as.length).map fun i =>
    .req (as.take (i + 1)) (foldReq (as.take (i + 1))) (encodeReq (foldReq (as.take (i + 1))))

/-- … and for a response fold. -/
def respHistory (as : List RespAct) : List Obs :=
  (List.range as.length).map fun i =>
    .resp (as.take i ++ [as.getD i .noop]) (foldResp (as.take i))
      (foldResp (as.take i ++ [as.getD i .noop])) (encodeResp (foldResp (as.take i ++ [as.getD i .noop])))

end LunarVerif.C07
