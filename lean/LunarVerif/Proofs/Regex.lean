import LunarVerif.Model.Regex
/-!
Correctness of the executable matcher of `Model/Regex.lean` against the declarative semantics:

  `nullable_iff`  : `Matches b r [] e ↔ nullable b e r`
  `der_iff`       : `Matches b r (c :: w) e ↔ Matches false (der b c r) w e`
  `matchD_iff`    : `matchD b r w = true ↔ Matches b r w true`
  `reSearch_iff`  : `reSearch r s = true ↔ Search r s`                (both directions)

plus the combinators used by the C14 proofs (`matches_catList_*`, `search_of_full`).
-/
namespace LunarVerif.Regex

/-! ### Inversion lemmas -/

theorem not_matches_empty {b w e} : ¬ Matches b .empty w e := by
  intro h; cases h

theorem eps_inv {b w e} (h : Matches b .eps w e) : w = [] := by
  cases h; rfl

theorem char_inv {b a w e} (h : Matches b (.char a) w e) : w = [a] := by
  cases h; rfl

theorem any_inv {b w e} (h : Matches b .any w e) : ∃ c, w = [c] ∧ c ≠ '\n' := by
  cases h with
  | any _ _ c hc => exact ⟨c, rfl, hc⟩

theorem cls_inv {b neg rs w e} (h : Matches b (.cls neg rs) w e) : ∃ c, w = [c] ∧ clsOK neg rs c = true := by
  cases h with
  | cls _ _ _ _ c hc => exact ⟨c, rfl, hc⟩

theorem cat_inv {b r1 r2 w e} (h : Matches b (.cat r1 r2) w e) :
    ∃ w1 w2, w = w1 ++ w2 ∧ Matches b r1 w1 (e && w2.isEmpty) ∧ Matches (b && w1.isEmpty) r2 w2 e := by
  cases h with
  | cat _ _ _ _ w1 w2 h1 h2 => exact ⟨w1, w2, rfl, h1, h2⟩

theorem alt_iff {b r1 r2 w e} : Matches b (.alt r1 r2) w e ↔ Matches b r1 w e ∨ Matches b r2 w e := by
  constructor
  · intro h
    cases h with
    | altL _ _ _ _ _ h => exact Or.inl h
    | altR _ _ _ _ _ h => exact Or.inr h
  · intro h
    rcases h with h | h
    · exact .altL _ _ _ _ _ h
    · exact .altR _ _ _ _ _ h

theorem plus_inv {b r w e} (h : Matches b (.plus r) w e) : Matches b (.cat r (.star r)) w e := by
  cases h with
  | plus _ _ _ _ h => exact h

theorem opt_inv {b r w e} (h : Matches b (.opt r) w e) : w = [] ∨ Matches b r w e := by
  cases h with
  | optNil => exact Or.inl rfl
  | optSome _ _ _ _ h => exact Or.inr h

theorem group_iff {b r w e} : Matches b (.group r) w e ↔ Matches b r w e := by
  constructor
  · intro h
    cases h with
    | group _ _ _ _ h => exact h
  · exact .group _ _ _ _

/-- `cat` introduction with the flags in the form they usually have in a goal. -/
theorem matches_cat {b e r1 r2 w1 w2} (h1 : Matches b r1 w1 (e && w2.isEmpty))
    (h2 : Matches (b && w1.isEmpty) r2 w2 e) : Matches b (.cat r1 r2) (w1 ++ w2) e :=
  .cat _ _ _ _ _ _ h1 h2

/-! ### Smart constructors -/

theorem altOf_iff {b w e} : ∀ (l : List Re), Matches b (altOf l) w e ↔ ∃ r ∈ l, Matches b r w e := by
  intro l
  induction l with
  | nil => simp [altOf, not_matches_empty]
  | cons r rs ih =>
    cases rs with
    | nil => simp [altOf]
    | cons r' rs' =>
      have : altOf (r :: r' :: rs') = .alt r (altOf (r' :: rs')) := rfl
      rw [this, alt_iff, ih]
      simp

theorem alts_iff {b w e} : ∀ (r : Re), Matches b r w e ↔ ∃ x ∈ alts r, Matches b x w e := by
  intro r
  induction r with
  | alt r1 r2 ih1 ih2 =>
    rw [alt_iff, ih1, ih2]
    simp only [alts, List.mem_append]
    constructor
    · rintro (⟨x, hx, h⟩ | ⟨x, hx, h⟩)
      · exact ⟨x, Or.inl hx, h⟩
      · exact ⟨x, Or.inr hx, h⟩
    · rintro ⟨x, hx | hx, h⟩
      · exact Or.inl ⟨x, hx, h⟩
      · exact Or.inr ⟨x, hx, h⟩
  | empty => simp [alts, not_matches_empty]
  | eps => simp [alts]
  | char c => simp [alts]
  | any => simp [alts]
  | cls n rs => simp [alts]
  | cat a c _ _ => simp [alts]
  | star a _ => simp [alts]
  | plus a _ => simp [alts]
  | opt a _ => simp [alts]
  | group a _ => simp [alts]
  | bol => simp [alts]
  | eol => simp [alts]

theorem mem_dedupRe (x : Re) : ∀ (l : List Re), x ∈ dedupRe l ↔ x ∈ l := by
  intro l
  induction l with
  | nil => simp [dedupRe]
  | cons r rs ih =>
    unfold dedupRe
    by_cases hr : r ∈ rs
    · rw [if_pos hr, ih]
      constructor
      · intro h; exact List.mem_cons_of_mem _ h
      · intro h
        rcases List.mem_cons.mp h with h | h
        · subst h; exact hr
        · exact h
    · rw [if_neg hr]
      simp [ih]

theorem mkAlt_iff {b x y w e} : Matches b (mkAlt x y) w e ↔ Matches b x w e ∨ Matches b y w e := by
  unfold mkAlt
  rw [altOf_iff, alts_iff x, alts_iff y]
  constructor
  · rintro ⟨r, hr, h⟩
    rw [mem_dedupRe, List.mem_append] at hr
    rcases hr with hr | hr
    · exact Or.inl ⟨r, hr, h⟩
    · exact Or.inr ⟨r, hr, h⟩
  · rintro (⟨r, hr, h⟩ | ⟨r, hr, h⟩)
    · exact ⟨r, (mem_dedupRe _ _).mpr (List.mem_append.mpr (Or.inl hr)), h⟩
    · exact ⟨r, (mem_dedupRe _ _).mpr (List.mem_append.mpr (Or.inr hr)), h⟩

theorem cat_empty_left {b y w e} : ¬ Matches b (.cat .empty y) w e := by
  intro h
  obtain ⟨_, _, _, h1, _⟩ := cat_inv h
  exact not_matches_empty h1

theorem cat_empty_right {b x w e} : ¬ Matches b (.cat x .empty) w e := by
  intro h
  obtain ⟨_, _, _, _, h2⟩ := cat_inv h
  exact not_matches_empty h2

theorem cat_eps_left {b y w e} : Matches b (.cat .eps y) w e ↔ Matches b y w e := by
  constructor
  · intro h
    obtain ⟨w1, w2, hw, h1, h2⟩ := cat_inv h
    have := eps_inv h1
    subst this
    subst hw
    simpa using h2
  · intro h
    have h1 : Matches b .eps [] (e && w.isEmpty) := .eps _ _
    have h2 : Matches (b && ([] : List Char).isEmpty) y w e := by simpa using h
    exact matches_cat h1 h2

theorem mkCat_iff {b x y w e} : Matches b (mkCat x y) w e ↔ Matches b (.cat x y) w e := by
  by_cases hx : x = .empty
  · subst hx
    simp [mkCat, not_matches_empty, cat_empty_left]
  · by_cases hx' : x = .eps
    · subst hx'
      simp [mkCat, cat_eps_left]
    · have hm : mkCat x y = if y = .empty then .empty else .cat x y := by
        cases x <;> simp_all [mkCat]
      rw [hm]
      by_cases hy : y = .empty
      · subst hy
        simp [not_matches_empty, cat_empty_right]
      · rw [if_neg hy]

/-! ### `nullable` -/

theorem nullable_of_matches {b r w e} (h : Matches b r w e) : w = [] → nullable b e r = true := by
  induction h with
  | eps => intro _; rfl
  | char b e c => intro h; cases h
  | any b e c hc => intro h; cases h
  | cls b e neg rs c hc => intro h; cases h
  | cat b e r1 r2 w1 w2 h1 h2 ih1 ih2 =>
    intro hw
    obtain ⟨h1', h2'⟩ := List.append_eq_nil_iff.mp hw
    subst h1' h2'
    have a := ih1 rfl
    have c := ih2 rfl
    simp at a c
    simp [nullable, a, c]
  | altL b e r1 r2 w h ih => intro hw; simp [nullable, ih hw]
  | altR b e r1 r2 w h ih => intro hw; simp [nullable, ih hw]
  | starNil => intro _; rfl
  | starCons => intro _; rfl
  | plus b e r w h ih =>
    intro hw
    have := ih hw
    simp [nullable] at this
    simp [nullable, this]
  | optNil => intro _; rfl
  | optSome => intro _; rfl
  | group b e r w h ih => intro hw; simp [nullable, ih hw]
  | bol => intro _; rfl
  | eol => intro _; rfl

theorem matches_of_nullable : ∀ (r : Re) (b e : Bool), nullable b e r = true → Matches b r [] e := by
  intro r
  induction r with
  | empty => intro b e h; simp [nullable] at h
  | eps => intro b e _; exact .eps _ _
  | char c => intro b e h; simp [nullable] at h
  | any => intro b e h; simp [nullable] at h
  | cls neg rs => intro b e h; simp [nullable] at h
  | cat r1 r2 ih1 ih2 =>
    intro b e h
    simp [nullable] at h
    have h1 : Matches b r1 [] (e && ([] : List Char).isEmpty) := by simpa using ih1 b e h.1
    have h2 : Matches (b && ([] : List Char).isEmpty) r2 [] e := by simpa using ih2 b e h.2
    exact matches_cat h1 h2
  | alt r1 r2 ih1 ih2 =>
    intro b e h
    simp [nullable] at h
    rcases h with h | h
    · exact .altL _ _ _ _ _ (ih1 b e h)
    · exact .altR _ _ _ _ _ (ih2 b e h)
  | star r _ => intro b e _; exact .starNil _ _ _
  | plus r ih =>
    intro b e h
    simp [nullable] at h
    have h1 : Matches b r [] (e && ([] : List Char).isEmpty) := by simpa using ih b e h
    have h2 : Matches (b && ([] : List Char).isEmpty) (.star r) [] e := .starNil _ _ _
    exact .plus _ _ _ _ (matches_cat h1 h2)
  | opt r _ => intro b e _; exact .optNil _ _ _
  | group r ih => intro b e h; exact .group _ _ _ _ (ih b e (by simpa [nullable] using h))
  | bol =>
    intro b e h
    simp [nullable] at h
    subst h
    exact .bol _
  | eol =>
    intro b e h
    simp [nullable] at h
    subst h
    exact .eol _

theorem nullable_iff (r : Re) (b e : Bool) : Matches b r [] e ↔ nullable b e r = true :=
  ⟨fun h => nullable_of_matches h rfl, matches_of_nullable r b e⟩

/-! ### Derivatives -/

theorem der_of_matches {b r w0 e} (h : Matches b r w0 e) :
    ∀ c w, w0 = c :: w → Matches false (der b c r) w e := by
  induction h with
  | eps => intro c w h; cases h
  | char b e a =>
    intro c w h
    simp only [List.cons.injEq] at h
    obtain ⟨h1, h2⟩ := h
    subst h1 h2
    simp only [der, if_true]
    exact .eps _ _
  | any b e a ha =>
    intro c w h
    simp only [List.cons.injEq] at h
    obtain ⟨h1, h2⟩ := h
    subst h1 h2
    simp only [der, if_neg ha]
    exact .eps _ _
  | cls b e neg rs a ha =>
    intro c w h
    simp only [List.cons.injEq] at h
    obtain ⟨h1, h2⟩ := h
    subst h1 h2
    simp only [der, ha, if_true]
    exact .eps _ _
  | cat b e r1 r2 w1 w2 h1 h2 ih1 ih2 =>
    intro c w hw
    simp only [der]
    rw [mkAlt_iff]
    cases w1 with
    | nil =>
      simp only [List.nil_append] at hw
      subst hw
      have hn : nullable b false r1 = true := by
        have := nullable_of_matches h1 rfl
        simpa using this
      right
      rw [if_pos hn]
      have := ih2 c w rfl
      simpa using this
    | cons c' w1' =>
      simp only [List.cons_append, List.cons.injEq] at hw
      obtain ⟨hc, hw⟩ := hw
      subst hc hw
      left
      rw [mkCat_iff]
      have a := ih1 c' w1' rfl
      have h2' : Matches (false && w1'.isEmpty) r2 w2 e := by simpa using h2
      exact matches_cat a h2'
  | altL b e r1 r2 w h ih =>
    intro c w' hw
    simp only [der]
    rw [mkAlt_iff]
    exact Or.inl (ih c w' hw)
  | altR b e r1 r2 w h ih =>
    intro c w' hw
    simp only [der]
    rw [mkAlt_iff]
    exact Or.inr (ih c w' hw)
  | starNil => intro c w h; cases h
  | starCons b e r w1 w2 h1 h2 ih1 ih2 =>
    intro c w hw
    cases w1 with
    | nil =>
      simp only [List.nil_append] at hw
      have := ih2 c w hw
      simpa using this
    | cons c' w1' =>
      simp only [List.cons_append, List.cons.injEq] at hw
      obtain ⟨hc, hw⟩ := hw
      subst hc hw
      simp only [der]
      rw [mkCat_iff]
      have a := ih1 c' w1' rfl
      have h2' : Matches (false && w1'.isEmpty) (.star r) w2 e := by simpa using h2
      exact matches_cat a h2'
  | plus b e r w h ih =>
    intro c w' hw
    have := ih c w' hw
    simp only [der] at this ⊢
    rw [mkAlt_iff] at this
    rcases this with h | h
    · exact h
    · by_cases hn : nullable b false r = true
      · rw [if_pos hn] at h; exact h
      · rw [if_neg hn] at h; exact absurd h not_matches_empty
  | optNil => intro c w h; cases h
  | optSome b e r w h ih => intro c w' hw; simpa [der] using ih c w' hw
  | group b e r w h ih => intro c w' hw; simpa [der] using ih c w' hw
  | bol => intro c w h; cases h
  | eol => intro c w h; cases h

theorem matches_of_der : ∀ (r : Re) (b : Bool) (c : Char) (w : List Char) (e : Bool),
    Matches false (der b c r) w e → Matches b r (c :: w) e := by
  intro r
  induction r with
  | empty => intro b c w e h; exact absurd h not_matches_empty
  | eps => intro b c w e h; exact absurd h not_matches_empty
  | char a =>
    intro b c w e h
    simp only [der] at h
    by_cases hc : a = c
    · rw [if_pos hc] at h
      have := eps_inv h
      subst this hc
      exact .char _ _ _
    · rw [if_neg hc] at h
      exact absurd h not_matches_empty
  | any =>
    intro b c w e h
    simp only [der] at h
    by_cases hc : c = '\n'
    · rw [if_pos hc] at h
      exact absurd h not_matches_empty
    · rw [if_neg hc] at h
      have := eps_inv h
      subst this
      exact .any _ _ _ hc
  | cls neg rs =>
    intro b c w e h
    simp only [der] at h
    by_cases hc : clsOK neg rs c = true
    · rw [if_pos hc] at h
      have := eps_inv h
      subst this
      exact .cls _ _ _ _ _ hc
    · rw [if_neg hc] at h
      exact absurd h not_matches_empty
  | cat r1 r2 ih1 ih2 =>
    intro b c w e h
    simp only [der] at h
    rw [mkAlt_iff] at h
    rcases h with h | h
    · rw [mkCat_iff] at h
      obtain ⟨w1, w2, hw, h1, h2⟩ := cat_inv h
      subst hw
      have a := ih1 b c w1 _ h1
      have h2' : Matches (b && (c :: w1).isEmpty) r2 w2 e := by simpa using h2
      exact matches_cat a h2'
    · by_cases hn : nullable b false r1 = true
      · rw [if_pos hn] at h
        have a := ih2 b c w e h
        have h1 : Matches b r1 [] (e && (c :: w).isEmpty) := by
          simpa using matches_of_nullable r1 b false hn
        have h2 : Matches (b && ([] : List Char).isEmpty) r2 (c :: w) e := by simpa using a
        exact matches_cat h1 h2
      · rw [if_neg hn] at h
        exact absurd h not_matches_empty
  | alt r1 r2 ih1 ih2 =>
    intro b c w e h
    simp only [der] at h
    rw [mkAlt_iff] at h
    rcases h with h | h
    · exact .altL _ _ _ _ _ (ih1 b c w e h)
    · exact .altR _ _ _ _ _ (ih2 b c w e h)
  | star r ih =>
    intro b c w e h
    simp only [der] at h
    rw [mkCat_iff] at h
    obtain ⟨w1, w2, hw, h1, h2⟩ := cat_inv h
    subst hw
    have a := ih b c w1 _ h1
    have h2' : Matches (b && (c :: w1).isEmpty) (.star r) w2 e := by simpa using h2
    exact .starCons _ _ _ _ _ a h2'
  | plus r ih =>
    intro b c w e h
    simp only [der] at h
    rw [mkCat_iff] at h
    obtain ⟨w1, w2, hw, h1, h2⟩ := cat_inv h
    subst hw
    have a := ih b c w1 _ h1
    have h2' : Matches (b && (c :: w1).isEmpty) (.star r) w2 e := by simpa using h2
    exact .plus _ _ _ _ (matches_cat a h2')
  | opt r ih =>
    intro b c w e h
    exact .optSome _ _ _ _ (ih b c w e (by simpa [der] using h))
  | group r ih =>
    intro b c w e h
    exact .group _ _ _ _ (ih b c w e (by simpa [der] using h))
  | bol => intro b c w e h; exact absurd h not_matches_empty
  | eol => intro b c w e h; exact absurd h not_matches_empty

theorem der_iff (r : Re) (b : Bool) (c : Char) (w : List Char) (e : Bool) :
    Matches b r (c :: w) e ↔ Matches false (der b c r) w e :=
  ⟨fun h => der_of_matches h c w rfl, matches_of_der r b c w e⟩

theorem matchD_iff : ∀ (w : List Char) (b : Bool) (r : Re), matchD b r w = true ↔ Matches b r w true := by
  intro w
  induction w with
  | nil => intro b r; simp only [matchD]; exact (nullable_iff r b true).symm
  | cons c cs ih =>
    intro b r
    simp only [matchD]
    rw [ih false (der b c r)]
    exact (der_iff r b c cs true).symm

/-! ### Search -/

theorem matches_star_anyAll : ∀ (w : List Char) (b e : Bool), Matches b (.star anyAll) w e := by
  intro w
  induction w with
  | nil => intro b e; exact .starNil _ _ _
  | cons c cs ih =>
    intro b e
    have h1 : Matches b anyAll [c] (e && cs.isEmpty) := .cls _ _ _ _ _ (by simp [clsOK, clsMem])
    exact .starCons _ _ _ [c] cs h1 (ih _ _)

/-- The executable search agrees with the declarative one (both directions). -/
theorem reSearch_iff (r : Re) (s : List Char) : reSearch r s = true ↔ Search r s := by
  unfold reSearch
  rw [matchD_iff]
  constructor
  · intro h
    obtain ⟨w1, w23, hs, _, h23⟩ := cat_inv h
    obtain ⟨w2, w3, hs', h2, _⟩ := cat_inv h23
    subst hs' hs
    refine ⟨w1, w2, w3, by simp, ?_⟩
    simpa using h2
  · intro h
    obtain ⟨pre, w, post, hs, hm⟩ := h
    subst hs
    have h2 : Matches (true && pre.isEmpty) r w (true && post.isEmpty) := by simpa using hm
    have h23 : Matches (true && pre.isEmpty) (.cat r (.star anyAll)) (w ++ post) true :=
      matches_cat h2 (matches_star_anyAll _ _ _)
    have := matches_cat (matches_star_anyAll pre true (true && (w ++ post).isEmpty)) h23
    simpa using this

/-- A full match is in particular found by the search. -/
theorem search_of_full {r : Re} {s : List Char} (h : Matches true r s true) : Search r s :=
  ⟨[], s, [], by simp, by simpa using h⟩

/-! ### Combinators for the C14 proofs -/

/-- An anchor-free regex matches independently of its context. -/
def anchorFree : Re → Bool
  | .bol => false
  | .eol => false
  | .cat a b => anchorFree a && anchorFree b
  | .alt a b => anchorFree a && anchorFree b
  | .star a => anchorFree a
  | .plus a => anchorFree a
  | .opt a => anchorFree a
  | .group a => anchorFree a
  | _ => true

theorem matches_catList_cons {b e r rs w1 w2} (h1 : Matches b r w1 (e && w2.isEmpty))
    (h2 : Matches (b && w1.isEmpty) (catList rs) w2 e) : Matches b (catList (r :: rs)) (w1 ++ w2) e :=
  matches_cat h1 h2

/-- Literal characters: `catList (map char w ++ rest)` matches `w ++ w'` when `catList rest` matches `w'`
    (in ANY left context: used only when `rest` does not look left). -/
theorem matches_lits (w : List Char) (rest : List Re) (w' : List Char) (e : Bool)
    (h : ∀ b, Matches b (catList rest) w' e) :
    ∀ b, Matches b (catList (w.map Re.char ++ rest)) (w ++ w') e := by
  induction w with
  | nil => intro b; simpa using h b
  | cons c cs ih =>
    intro b
    have h1 : Matches b (.char c) [c] (e && (cs ++ w').isEmpty) := .char _ _ _
    exact matches_catList_cons (w1 := [c]) h1 (ih _)

end LunarVerif.Regex
