import LunarVerif.Proofs.C06Ops
/-!
Helper lemmas for C06, part 9: the observable history of EVERY schedule satisfies the safety part of
the Spec predicate (`holdsSafety`): besides (V), (Q), no-crash (`C06Trace.lean`) also (B) bound,
(T-lower) no early time-out, (P) priority and (F) FIFO by arrival.
-/
namespace LunarVerif.C06

/-- Program counters of a request thread before its first `Enqueue`. -/
def freshPc : Pc → Prop
  | .absent => True
  | .checked => True
  | .rejected => True
  | .registered => True
  | _ => False

/-- The request the processing loop has in hand (dequeued, not yet released). -/
def loopId : LoopPc → Option Nat
  | .popped i => some i
  | .started i => some i
  | .refused i => some i
  | .repushed i => some i
  | .granted i => some i
  | _ => none

theorem infoOf_wasQueued (tr : List Ev) (i : Nat) (x : Nat × Nat) (h : infoOf tr i = some x) : wasQueued tr i = true := by
  induction tr with
  | nil => simp [infoOf] at h
  | cons e tr ih =>
    cases e <;> simp only [infoOf] at h <;> simp only [wasQueued_cons, Bool.or_eq_true] <;> try exact Or.inr (ih h)
    rename_i k p t
    by_cases hk : (k == i) = true
    · exact Or.inl hk
    · simp [hk] at h; exact Or.inr (ih h)

/-- Structure of the history w.r.t. the requests' records. -/
structure InvO1 (s : St) : Prop where
  wq : ∀ i, wasQueued s.trace i = true → i < s.n ∧ (s.reqs i).pushed = true ∧ ¬ freshPc (s.reqs i).pc ∧
         infoOf s.trace i = some ((s.reqs i).prio, (s.reqs i).arrival)
  w2 : ∀ x ∈ waiting s.trace, wasQueued s.trace x.1 = true ∧ (s.reqs x.1).pc = .parked ∧
         (s.reqs x.1).st ≠ .processed ∧ x.2.1 = (s.reqs x.1).prio ∧ x.2.2 = (s.reqs x.1).arrival
  nd : ((waiting s.trace).map (·.1)).Nodup
  fr : ∀ i, freshPc (s.reqs i).pc → (s.reqs i).pushed = false ∧ (s.reqs i).firstAt = none
  hp : (∀ h ∈ s.heap, ¬ freshPc (s.reqs h.id).pc) ∧ ∀ i, loopId s.loop = some i → ¬ freshPc (s.reqs i).pc

theorem invO1_init (t0 : Nat) : InvO1 (St.init t0) := by
  constructor <;> simp [St.init, waiting, wasQueued, loopId, freshPc]

local macro "o_auto" : tactic =>
  `(tactic| (constructor <;> (try intro j) <;>
      (try simp only [St.upd, St.emit, St.enq, St.signal, waiting, infoOf, wasQueued_cons, wasDone_cons,
        Bool.or_eq_true, beq_iff_eq, Bool.false_or, List.map_cons, List.nodup_cons, List.mem_cons]) <;>
      grind [holdsL, holdsW, isReturned, isDraining, freshPc, loopId]))

theorem invO1_arrive (cfg : Cfg) (s : St) (p : Nat) (hA : InvA s) (hH : InvH s) (h : InvO1 s) :
    InvO1 (stepArrive cfg s p) := by
  obtain ⟨wq, w2, nd, fr, hp⟩ := h
  have hn := hA.fresh s.n (Nat.le_refl _)
  have hid : ∀ h ∈ s.heap, h.id ≠ s.n := fun h hh e => by have := (hH.hi h hh).1; omega
  unfold stepArrive
  split
  · o_auto
  · o_auto

theorem invO1_register (s : St) (i : Nat) (h : InvO1 s) : InvO1 (stepRegister s i) := by
  obtain ⟨wq, w2, nd, fr, hp⟩ := h
  unfold stepRegister
  split
  · o_auto
  · constructor <;> assumption

theorem invO1_push (s : St) (i : Nat) (hA : InvA s) (hT : InvT s) (hH : InvH s) (h : InvO1 s) : InvO1 (stepPush s i) := by
  obtain ⟨wq, w2, nd, fr, hp⟩ := h
  unfold stepPush
  split
  · rename_i hg
    have hlt : i < s.n := by
      rcases Nat.lt_or_ge i s.n with h | h
      · exact h
      · have := (hA.fresh i h).1; rw [hg] at this; cases this
    have hnq := (hT.tf i (Or.inr (Or.inr hg))).1
    have hfr := fr i (by rw [hg]; trivial)
    have hdn := hT.td i
    have hni : ∀ x ∈ waiting s.trace, x.1 ≠ i := fun x hx e => by have := (w2 x hx).1; rw [e, hnq] at this; cases this
    o_auto
  · constructor <;> assumption

theorem invO1_wake (s : St) (i : Nat) (hA : InvA s) (hT : InvT s) (h : InvO1 s) : InvO1 (stepWake s i) := by
  obtain ⟨wq, w2, nd, fr, hp⟩ := h
  unfold stepWake
  split
  · rename_i hg
    have hst : (s.reqs i).st = .processed := by
      have := hA.wg i; rw [hg.2] at this
      by_cases hs : (s.reqs i).st = .processed
      · exact hs
      · simp [hs] at this
    o_auto
  · constructor <;> assumption

theorem invO1_unwatch (s : St) (i : Nat) (hA : InvA s) (h : InvO1 s) : InvO1 (stepUnwatch s i) := by
  obtain ⟨wq, w2, nd, fr, hp⟩ := h
  unfold stepUnwatch
  split
  · rename_i hg
    have hnp : (s.reqs i).pc ≠ .parked := by intro e; rw [e] at hg; simp [isReturned] at hg
    have hnf : ¬ freshPc (s.reqs i).pc := by
      cases hp' : (s.reqs i).pc <;> simp_all [isReturned, freshPc]
    o_auto
  · constructor <;> assumption

theorem invO1_heapRemove (s : St) (i : Nat) (h : InvO1 s) : InvO1 (stepHeapRemove s i) := by
  obtain ⟨wq, w2, nd, fr, hp⟩ := h
  unfold stepHeapRemove
  split
  · rename_i hg
    have sub : ∀ h, h ∈ (s.heap.eraseP fun h => h.id == i) → h ∈ s.heap := fun h hh => List.mem_of_mem_eraseP hh
    o_auto
  · constructor <;> assumption

theorem invO1_frame (s s' : St) (ht : s'.trace = s.trace) (hn : s'.n = s.n) (hr : s'.reqs = s.reqs)
    (hh : ∀ x ∈ s'.heap, x ∈ s.heap) (hl : ∀ i, loopId s'.loop = some i → loopId s.loop = some i)
    (h : InvO1 s) : InvO1 s' := by
  obtain ⟨wq, w2, nd, fr, hp⟩ := h
  constructor
  · rw [ht, hn, hr]; exact wq
  · rw [ht, hr]; exact w2
  · rw [ht]; exact nd
  · rw [hr]; exact fr
  · rw [hr]; exact ⟨fun x hx => hp.1 x (hh x hx), fun i hi => hp.2 i (hl i hi)⟩

theorem invO1_loop (cfg : Cfg) (s : St) (k : Nat) (hA : InvA s) (h : InvO1 s) : InvO1 (stepLoop cfg s k) := by
  have h0 := h
  obtain ⟨wq, w2, nd, fr, hp⟩ := h
  obtain ⟨np, own, excl, wg, dn, rt, rs, qk, gq, fresh⟩ := hA
  unfold stepLoop
  split
  · exact h0
  · exact h0
  · rename_i heq
    split
    · exact invO1_frame s _ rfl rfl rfl (fun _ h => h) (fun i hi => by simp [loopId] at hi) h0
    · rename_i m hm
      have hmem := minItem_mem _ _ hm
      have sub : ∀ h, h ∈ s.heap.erase m → h ∈ s.heap := fun h hh => List.mem_of_mem_erase hh
      o_auto
  · rename_i i heq
    split
    · o_auto
    · exact invO1_frame s _ rfl rfl rfl (fun _ h => h) (fun i hi => by simp [loopId] at hi) h0
  · rename_i i heq
    generalize (quotaTry cfg s.q s.now).1 = q'
    generalize (quotaTry cfg s.q s.now).2 = ok
    cases ok <;> o_auto
  · rename_i i heq
    have hnf := hp.2 i (by simp [heq, loopId])
    o_auto
  · rename_i i heq
    have hp' : (s.reqs i).st = .processing := (own i).2 (Or.inl (by simp [heq, holdsL]))
    o_auto
  · rename_i i heq
    have hp' : (s.reqs i).st = .processing := (own i).2 (Or.inl (by simp [heq, holdsL]))
    have hw : (s.reqs i).wg = 1 := by rw [wg i, hp']; simp
    have hlt : ¬ ((s.reqs i).wg - 1 < 0) := by omega
    unfold St.signal
    simp only [hlt, if_false]
    have hflt : ∀ x, x ∈ (waiting s.trace).filter (fun x => x.1 != i) → x ∈ waiting s.trace ∧ x.1 ≠ i := by
      intro x hx; simpa using List.mem_filter.1 hx
    have hnd : (((waiting s.trace).filter (fun x => x.1 != i)).map (·.1)).Nodup :=
      (List.Nodup.sublist (List.Sublist.map _ List.filter_sublist) nd)
    o_auto
  · rename_i todo heq
    split
    · split
      · exact invO1_frame s _ rfl rfl rfl (fun _ h => h) (fun i hi => by simp [loopId] at hi) h0
      · exact h0
    · rename_i i hk
      split
      · rename_i hg
        have hw : (s.reqs i).wg = 1 := by rw [wg i, hg.2]; simp
        have hlt : ¬ ((s.reqs i).wg - 1 < 0) := by omega
        unfold St.signal
        simp only [hlt, if_false]
        have hflt : ∀ x, x ∈ (waiting s.trace).filter (fun x => x.1 != i) → x ∈ waiting s.trace ∧ x.1 ≠ i := by
          intro x hx; simpa using List.mem_filter.1 hx
        have hnd : (((waiting s.trace).filter (fun x => x.1 != i)).map (·.1)).Nodup :=
          (List.Nodup.sublist (List.Sublist.map _ List.filter_sublist) nd)
        o_auto
      · exact invO1_frame s _ rfl rfl rfl (fun _ h => h) (fun i hi => by simp [loopId] at hi) h0

theorem invO1_watcher (s : St) (k : Nat) (hA : InvA s) (h : InvO1 s) : InvO1 (stepWatcher s k) := by
  have h0 := h
  obtain ⟨wq, w2, nd, fr, hp⟩ := h
  obtain ⟨np, own, excl, wg, dn, rt, rs, qk, gq, fresh⟩ := hA
  unfold stepWatcher
  split
  · exact h0
  · split
    · split
      · exact invO1_frame s _ rfl rfl rfl (fun _ h => h) (fun _ h => h) h0
      · exact h0
    · split
      · o_auto
      · exact invO1_frame s _ rfl rfl rfl (fun _ h => h) (fun _ h => h) h0
  · rename_i i todo heq
    have hp' : (s.reqs i).st = .processing := (own i).2 (Or.inr (by simp [heq, holdsW]))
    have hw : (s.reqs i).wg = 1 := by rw [wg i, hp']; simp
    have hlt : ¬ ((s.reqs i).wg - 1 < 0) := by omega
    unfold St.signal
    simp only [hlt, if_false]
    have hflt : ∀ x, x ∈ (waiting s.trace).filter (fun x => x.1 != i) → x ∈ waiting s.trace ∧ x.1 ≠ i := by
      intro x hx; simpa using List.mem_filter.1 hx
    have hnd : (((waiting s.trace).filter (fun x => x.1 != i)).map (·.1)).Nodup :=
      (List.Nodup.sublist (List.Sublist.map _ List.filter_sublist) nd)
    o_auto

theorem invO1_step (cfg : Cfg) (s : St) (a : Act) (hA : InvA s) (hT : InvT s) (hH : InvH s) (h : InvO1 s) :
    InvO1 (step cfg s a) := by
  unfold step
  rw [hA.np]
  simp only [Bool.false_eq_true, if_false]
  cases a with
  | advance d => exact invO1_frame s _ rfl rfl rfl (fun _ h => h) (fun _ h => h) h
  | arrive p => exact invO1_arrive cfg s p hA hH h
  | register i => exact invO1_register s i h
  | push i => exact invO1_push s i hA hT hH h
  | wake i => exact invO1_wake s i hA hT h
  | unwatch i => exact invO1_unwatch s i hA h
  | heapRemove i => exact invO1_heapRemove s i h
  | loopFire =>
    simp only [stepCore, stepLoopFire]
    split
    · split <;> exact invO1_frame s _ rfl rfl rfl (fun _ h => h) (fun i hi => by simp [loopId] at hi) h
    · exact h
  | loopStep k => exact invO1_loop cfg s k hA h
  | wScan =>
    simp only [stepCore, stepScan]
    split
    · exact invO1_frame s _ rfl rfl rfl (fun _ h => h) (fun _ h => h) h
    · exact h
  | wStep k => exact invO1_watcher s k hA h
  | cancel =>
    simp only [stepCore, stepCancel]
    split
    · exact h
    · obtain ⟨wq, w2, nd, fr, hp⟩ := h
      o_auto

end LunarVerif.C06
