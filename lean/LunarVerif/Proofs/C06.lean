import LunarVerif.Spec.C06
/-!
Helper lemmas for C06, part 1: the ownership / exactly-once invariant `InvA`, preserved by every
step of every thread (shutdown included).

A request in state `processing` is owned by exactly one of the processing loop and the TTL watcher
(`StartProcessing` is the arbiter); only the owner signals the waiter, and signalling moves the
request to `processed` for good.  Hence the WaitGroup counter is 1 before and 0 after the single Done.
-/
namespace LunarVerif.C06

/-- The processing loop owns request `i` (it won `StartProcessing`). -/
def holdsL : LoopPc → Nat → Prop
  | .started j, i => j = i
  | .refused j, i => j = i
  | .repushed j, i => j = i
  | .granted j, i => j = i
  | _, _ => False

/-- The TTL watcher owns request `i`. -/
def holdsW : WPc → Nat → Prop
  | .holding j _, i => j = i
  | _, _ => False

structure InvA (s : St) : Prop where
  np : s.panicked = false
  own : ∀ i, (s.reqs i).st = .processing ↔ (holdsL s.loop i ∨ holdsW s.watcher i)
  excl : ∀ i, ¬ (holdsL s.loop i ∧ holdsW s.watcher i)
  wg : ∀ i, (s.reqs i).wg = if (s.reqs i).st = .processed then 0 else 1
  dn : ∀ i, (s.reqs i).dones = if (s.reqs i).st = .processed then 1 else 0
  rt : ∀ i a, (s.reqs i).pc = .returned a → (s.reqs i).st = .processed ∧ a = ((s.reqs i).res == .success)
  rs : ∀ i, (s.reqs i).res ≠ .pending → (s.reqs i).st = .processed
  qk : ∀ i, (s.reqs i).res = .success → (s.reqs i).qok = true
  gq : ∀ i, s.loop = .granted i → (s.reqs i).qok = true
  fresh : ∀ i, s.n ≤ i → (s.reqs i).pc = .absent ∧ (s.reqs i).st = .enqueued ∧ (s.reqs i).res = .pending ∧
            (s.reqs i).wg = 1 ∧ (s.reqs i).dones = 0 ∧ (s.reqs i).inMap = false

local macro "inv_auto" : tactic =>
  `(tactic| (constructor <;> (try intro j) <;> (try simp only [St.upd, St.emit, St.signal, St.enq]) <;> grind [holdsL, holdsW, isReturned, isDraining]))

theorem invA_init (t0 : Nat) : InvA (St.init t0) := by
  constructor <;> simp [St.init, holdsL, holdsW]

theorem invA_advance (s : St) (d : Nat) (h : InvA s) : InvA { s with now := s.now + d } := by
  obtain ⟨np, own, excl, wg, dn, rt, rs, qk, gq, fresh⟩ := h
  constructor <;> assumption

theorem invA_arrive (cfg : Cfg) (s : St) (p : Nat) (h : InvA s) : InvA (stepArrive cfg s p) := by
  obtain ⟨np, own, excl, wg, dn, rt, rs, qk, gq, fresh⟩ := h
  have hn := fresh s.n (Nat.le_refl _)
  unfold stepArrive
  split
  · inv_auto
  · inv_auto

theorem invA_register (s : St) (i : Nat) (h : InvA s) : InvA (stepRegister s i) := by
  obtain ⟨np, own, excl, wg, dn, rt, rs, qk, gq, fresh⟩ := h
  unfold stepRegister
  split
  · inv_auto
  · constructor <;> assumption

theorem invA_push (s : St) (i : Nat) (h : InvA s) : InvA (stepPush s i) := by
  obtain ⟨np, own, excl, wg, dn, rt, rs, qk, gq, fresh⟩ := h
  unfold stepPush
  split
  · inv_auto
  · constructor <;> assumption

theorem invA_wake (s : St) (i : Nat) (h : InvA s) : InvA (stepWake s i) := by
  obtain ⟨np, own, excl, wg, dn, rt, rs, qk, gq, fresh⟩ := h
  unfold stepWake
  split
  · inv_auto
  · constructor <;> assumption

theorem invA_unwatch (s : St) (i : Nat) (h : InvA s) : InvA (stepUnwatch s i) := by
  obtain ⟨np, own, excl, wg, dn, rt, rs, qk, gq, fresh⟩ := h
  unfold stepUnwatch
  split
  · inv_auto
  · constructor <;> assumption

theorem invA_heapRemove (s : St) (i : Nat) (h : InvA s) : InvA (stepHeapRemove s i) := by
  obtain ⟨np, own, excl, wg, dn, rt, rs, qk, gq, fresh⟩ := h
  unfold stepHeapRemove
  split
  · inv_auto
  · constructor <;> assumption

theorem invA_loopFire (s : St) (h : InvA s) : InvA (stepLoopFire s) := by
  obtain ⟨np, own, excl, wg, dn, rt, rs, qk, gq, fresh⟩ := h
  unfold stepLoopFire
  split
  · split <;> inv_auto
  · constructor <;> assumption

theorem invA_scan (cfg : Cfg) (s : St) (h : InvA s) : InvA (stepScan cfg s) := by
  obtain ⟨np, own, excl, wg, dn, rt, rs, qk, gq, fresh⟩ := h
  unfold stepScan
  split
  · inv_auto
  · constructor <;> assumption

/-! #### the processing loop, case by case -/

theorem invA_loop_running_none (s : St) (heq : s.loop = .running) (h : InvA s) :
    InvA { s with loop := .idle } := by
  obtain ⟨np, own, excl, wg, dn, rt, rs, qk, gq, fresh⟩ := h
  inv_auto

theorem invA_loop_running_some (s : St) (m : HItem) (heq : s.loop = .running) (h : InvA s) :
    InvA (({ s with heap := s.heap.erase m, loop := .popped m.id }).emit (.pop m.id)) := by
  obtain ⟨np, own, excl, wg, dn, rt, rs, qk, gq, fresh⟩ := h
  inv_auto

theorem invA_loop_popped_ok (s : St) (i : Nat) (heq : s.loop = .popped i)
    (hg : (s.reqs i).inMap = true ∧ (s.reqs i).st = .enqueued) (h : InvA s) :
    InvA { (s.upd i fun r => { r with st := .processing }) with loop := .started i } := by
  obtain ⟨np, own, excl, wg, dn, rt, rs, qk, gq, fresh⟩ := h
  inv_auto

theorem invA_loop_popped_no (s : St) (i : Nat) (heq : s.loop = .popped i) (h : InvA s) :
    InvA { s with loop := .running } := by
  obtain ⟨np, own, excl, wg, dn, rt, rs, qk, gq, fresh⟩ := h
  inv_auto

theorem invA_loop_started (s : St) (i : Nat) (q' : Quota) (ok : Bool) (heq : s.loop = .started i) (h : InvA s) :
    InvA ((({ s with q := q', loop := if ok then .granted i else .refused i }).upd i
        fun r => { r with qok := ok }).emit (.qtry i ok)) := by
  obtain ⟨np, own, excl, wg, dn, rt, rs, qk, gq, fresh⟩ := h
  have hp : (s.reqs i).st = .processing := (own i).2 (Or.inl (by simp [heq, holdsL]))
  cases ok <;> inv_auto

theorem invA_loop_refused (s : St) (i : Nat) (heq : s.loop = .refused i) (h : InvA s) :
    InvA (({ (s.enq i) with loop := .repushed i }).emit (.repush i s.now)) := by
  obtain ⟨np, own, excl, wg, dn, rt, rs, qk, gq, fresh⟩ := h
  inv_auto

theorem invA_loop_repushed (s : St) (i : Nat) (heq : s.loop = .repushed i) (h : InvA s) :
    InvA { (s.upd i fun r => { r with st := .enqueued }) with loop := .idle } := by
  obtain ⟨np, own, excl, wg, dn, rt, rs, qk, gq, fresh⟩ := h
  have hp : (s.reqs i).st = .processing := (own i).2 (Or.inl (by simp [heq, holdsL]))
  inv_auto

theorem invA_loop_granted (s : St) (i : Nat) (heq : s.loop = .granted i) (h : InvA s) :
    InvA { (s.signal i .success) with loop := .running } := by
  obtain ⟨np, own, excl, wg, dn, rt, rs, qk, gq, fresh⟩ := h
  have hp : (s.reqs i).st = .processing := (own i).2 (Or.inl (by simp [heq, holdsL]))
  have hw : (s.reqs i).wg = 1 := by rw [wg i, hp]; simp
  have hq := gq i heq
  have hlt : ¬ ((s.reqs i).wg - 1 < 0) := by omega
  unfold St.signal
  simp only [hlt, if_false]
  inv_auto

theorem invA_loop_exit (s : St) (todo : List Nat) (heq : s.loop = .draining todo) (h : InvA s) :
    InvA { s with loop := .exited } := by
  obtain ⟨np, own, excl, wg, dn, rt, rs, qk, gq, fresh⟩ := h
  inv_auto

theorem invA_loop_drain_skip (s : St) (todo todo' : List Nat) (heq : s.loop = .draining todo) (h : InvA s) :
    InvA { s with loop := .draining todo' } := by
  obtain ⟨np, own, excl, wg, dn, rt, rs, qk, gq, fresh⟩ := h
  inv_auto

theorem invA_loop_drain_signal (s : St) (i : Nat) (todo todo' : List Nat) (heq : s.loop = .draining todo)
    (hg : (s.reqs i).inMap = true ∧ (s.reqs i).st = .enqueued) (h : InvA s) :
    InvA { (s.signal i .timeout) with loop := .draining todo' } := by
  obtain ⟨np, own, excl, wg, dn, rt, rs, qk, gq, fresh⟩ := h
  have hw : (s.reqs i).wg = 1 := by rw [wg i, hg.2]; simp
  have hlt : ¬ ((s.reqs i).wg - 1 < 0) := by omega
  unfold St.signal
  simp only [hlt, if_false]
  inv_auto

theorem invA_loop (cfg : Cfg) (s : St) (k : Nat) (h : InvA s) : InvA (stepLoop cfg s k) := by
  unfold stepLoop
  split
  · exact h
  · exact h
  · rename_i heq
    split
    · exact invA_loop_running_none s heq h
    · exact invA_loop_running_some s _ heq h
  · rename_i i heq
    split
    · rename_i hg
      exact invA_loop_popped_ok s i heq hg h
    · exact invA_loop_popped_no s i heq h
  · rename_i i heq
    exact invA_loop_started s i _ _ heq h
  · rename_i i heq
    exact invA_loop_refused s i heq h
  · rename_i i heq
    exact invA_loop_repushed s i heq h
  · rename_i i heq
    exact invA_loop_granted s i heq h
  · rename_i todo heq
    split
    · split
      · exact invA_loop_exit s todo heq h
      · exact h
    · rename_i i hk
      split
      · rename_i hg
        exact invA_loop_drain_signal s i todo _ heq hg h
      · exact invA_loop_drain_skip s todo _ heq h

/-! #### the TTL watcher -/

theorem invA_w_idle (s : St) (todo : List Nat) (heq : s.watcher = .scanned todo) (h : InvA s) :
    InvA { s with watcher := .idle } := by
  obtain ⟨np, own, excl, wg, dn, rt, rs, qk, gq, fresh⟩ := h
  inv_auto

theorem invA_w_skip (s : St) (todo todo' : List Nat) (heq : s.watcher = .scanned todo) (h : InvA s) :
    InvA { s with watcher := .scanned todo' } := by
  obtain ⟨np, own, excl, wg, dn, rt, rs, qk, gq, fresh⟩ := h
  inv_auto

theorem invA_w_take (s : St) (i : Nat) (todo todo' : List Nat) (heq : s.watcher = .scanned todo)
    (hg : (s.reqs i).inMap = true ∧ (s.reqs i).st = .enqueued) (h : InvA s) :
    InvA { (s.upd i fun r => { r with st := .processing }) with watcher := .holding i todo' } := by
  obtain ⟨np, own, excl, wg, dn, rt, rs, qk, gq, fresh⟩ := h
  inv_auto

theorem invA_w_timeout (s : St) (i : Nat) (todo : List Nat) (heq : s.watcher = .holding i todo) (h : InvA s) :
    InvA { (s.signal i .timeout) with watcher := .scanned todo } := by
  obtain ⟨np, own, excl, wg, dn, rt, rs, qk, gq, fresh⟩ := h
  have hp : (s.reqs i).st = .processing := (own i).2 (Or.inr (by simp [heq, holdsW]))
  have hw : (s.reqs i).wg = 1 := by rw [wg i, hp]; simp
  have hlt : ¬ ((s.reqs i).wg - 1 < 0) := by omega
  unfold St.signal
  simp only [hlt, if_false]
  inv_auto

theorem invA_watcher (s : St) (k : Nat) (h : InvA s) : InvA (stepWatcher s k) := by
  unfold stepWatcher
  split
  · exact h
  · rename_i todo heq
    split
    · split
      · exact invA_w_idle s todo heq h
      · exact h
    · split
      · rename_i hg
        exact invA_w_take s _ todo _ heq hg h
      · exact invA_w_skip s todo _ heq h
  · rename_i i todo heq
    exact invA_w_timeout s i todo heq h

theorem invA_cancel (s : St) (h : InvA s) : InvA (stepCancel s) := by
  obtain ⟨np, own, excl, wg, dn, rt, rs, qk, gq, fresh⟩ := h
  unfold stepCancel
  split
  · constructor <;> assumption
  · inv_auto

theorem invA_step (cfg : Cfg) (s : St) (a : Act) (h : InvA s) : InvA (step cfg s a) := by
  unfold step
  rw [h.np]
  simp only [Bool.false_eq_true, if_false]
  cases a with
  | advance d => exact invA_advance s d h
  | arrive p => exact invA_arrive cfg s p h
  | register i => exact invA_register s i h
  | push i => exact invA_push s i h
  | wake i => exact invA_wake s i h
  | unwatch i => exact invA_unwatch s i h
  | heapRemove i => exact invA_heapRemove s i h
  | loopFire => exact invA_loopFire s h
  | loopStep k => exact invA_loop cfg s k h
  | wScan => exact invA_scan cfg s h
  | wStep k => exact invA_watcher s k h
  | cancel => exact invA_cancel s h

theorem invA_run (cfg : Cfg) (acts : List Act) (s : St) (h : InvA s) : InvA (run cfg s acts) := by
  induction acts generalizing s with
  | nil => exact h
  | cons a rest ih => exact ih (step cfg s a) (invA_step cfg s a h)

/-- A schedule without shutdown. -/
def noCancel (acts : List Act) : Prop := Act.cancel ∉ acts

/-- Without shutdown the loop never drains. -/
structure InvN (s : St) : Prop where
  nc : s.cancelled = false
  lp : s.loop ≠ .exited ∧ ∀ t, s.loop ≠ .draining t

theorem invN_init (t0 : Nat) : InvN (St.init t0) := by
  constructor <;> simp [St.init]

theorem invN_step (cfg : Cfg) (s : St) (a : Act) (ha : a ≠ .cancel) (h : InvN s) : InvN (step cfg s a) := by
  obtain ⟨nc, lp⟩ := h
  unfold step
  split
  · exact ⟨nc, lp⟩
  · cases a with
    | cancel => exact absurd rfl ha
    | advance d => exact ⟨nc, lp⟩
    | arrive p => simp only [stepCore, stepArrive]; split <;> exact ⟨nc, lp⟩
    | register i => simp only [stepCore, stepRegister]; split <;> exact ⟨nc, lp⟩
    | push i => simp only [stepCore, stepPush]; split <;> exact ⟨nc, lp⟩
    | wake i => simp only [stepCore, stepWake]; split <;> exact ⟨nc, lp⟩
    | unwatch i => simp only [stepCore, stepUnwatch]; split <;> exact ⟨nc, lp⟩
    | heapRemove i => simp only [stepCore, stepHeapRemove]; split <;> exact ⟨nc, lp⟩
    | wScan => simp only [stepCore, stepScan]; split <;> exact ⟨nc, lp⟩
    | loopFire =>
      simp only [stepCore, stepLoopFire]
      split
      · split
        · rename_i hc; rw [nc] at hc; cases hc
        · exact ⟨nc, by simp⟩
      · exact ⟨nc, lp⟩
    | wStep k =>
      simp only [stepCore, stepWatcher]
      split
      · exact ⟨nc, lp⟩
      · split
        · split <;> exact ⟨nc, lp⟩
        · split <;> exact ⟨nc, lp⟩
      · simp only [St.signal]; split <;> exact ⟨nc, lp⟩
    | loopStep k =>
      simp only [stepCore, stepLoop]
      split
      · exact ⟨nc, lp⟩
      · exact ⟨nc, lp⟩
      · split <;> exact ⟨nc, by simp [St.emit]⟩
      · split <;> exact ⟨nc, by simp⟩
      · refine ⟨nc, ?_⟩; simp only [St.emit, St.upd]; split <;> simp
      · exact ⟨nc, by simp [St.emit, St.enq, St.upd]⟩
      · exact ⟨nc, by simp⟩
      · simp only [St.signal]; split <;> exact ⟨nc, by simp [St.emit, St.upd]⟩
      · rename_i todo heq
        exact absurd heq (lp.2 todo)

theorem invN_run (cfg : Cfg) (acts : List Act) (s : St) (hn : noCancel acts) (h : InvN s) : InvN (run cfg s acts) := by
  induction acts generalizing s with
  | nil => exact h
  | cons a rest ih =>
    have ha : a ≠ .cancel := fun e => hn (by simp [e])
    have hr : noCancel rest := fun e => hn (by simp [e])
    exact ih (step cfg s a) hr (invN_step cfg s a ha h)

end LunarVerif.C06
